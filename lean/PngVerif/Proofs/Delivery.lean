import PngVerif.Proofs.ReaderStart
import PngVerif.Proofs.ReaderErrData
import PngVerif.Proofs.TransformContractRun
import PngVerif.Proofs.ComposeFrames
/-!
# Any delivery schedule: the glue between "decode = specification when all input is visible" and resumption

`Props/C01Decode.lean` / `Props/C09.lean` describe the run of the `Reader` model on a well-formed file ALL of whose
bytes are visible from the start (`R.init opts limit f file file.length`).  `Props/C05.lean` compares the caller that
retries every call that ran out of input, under an arbitrary growth schedule (`resumeRun`), with exactly that run.
This file composes the two for a new `Decoder` (`R.init`), generically in the list of calls:

* `delivery_from_start`: `read_info` succeeds on the first `v` bytes; the run `read_info, ops` with everything visible
  returns `.header :: res`, all of `res` successful; then `res` begins with the retrying caller's results, and is
  equal to them if the schedule delivers the whole file;
* `delivery_from_start_until_failure`: the same with further calls `more` that may fail behind `ops`;
* `TCfg.ResumeOk`, `delivery_from_start'`, `delivery_from_start_until_failure'`: the same for every transformation that
  agrees, on the `Info`s a stream can produce, with one satisfying the contracts `TCfg.Ok` / `TCfg.Stable` of C05 — in
  particular for `Driver.realT` (the transformation the executable model runs; `TCfg.Ok` is false for it as stated),
  through `realTK` of `Proofs/TransformContractRun.lean`: `Driver.realT_resumeOk`;
* `stillBytes` (the byte stream of `C01_decode`), and list lemmas for the result lists the C01 / C09 theorems give
  (`run_drop_last`, `run_frames_drop_last`, `framesOk_good`, `good_rows`, `prefix_singleton`).
-/
namespace Png.Reader
open Png Png.Framing Png.WellFormed

/-- the byte stream of `C01.C01_decode`: signature, `IHDR`, the bytes `anc` of the chunks before the image data, the
    `IDAT` chunks, the chunks `post`, `IEND` (`wellFormedStill` is the case `anc = chunks cfg cs`) -/
def stillBytes (cfg : Cfg) (h : Header) (anc : Bytes) (zs : List Bytes) (post : List (ChunkType × Bytes)) : Bytes :=
  signature ++ chunk cfg IHDR h.body ++ anc ++ idats cfg zs ++ chunks cfg post ++ chunk cfg IEND []

theorem wellFormedStill_eq (cfg : Cfg) (h : Header) (cs : List (ChunkType × Bytes)) (zs : List Bytes)
    (post : List (ChunkType × Bytes)) : wellFormedStill cfg h cs zs post = stillBytes cfg h (chunks cfg cs) zs post := rfl

/-- making more of the input visible to a new `Decoder` is a new `Decoder` on the longer prefix -/
theorem growTo_init (opts : Options) (limit : Nat) (f : Flags) (file : Bytes) (v L : Nat) :
    growTo (R.init opts limit f file v) L = R.init opts limit f file L := rfl

/-- a new `Decoder` on an input shorter than 4 GiB satisfies the `Decoder` invariant -/
theorem preInv_init (opts : Options) (limit : Nat) (f : Flags) (file : Bytes) (v : Nat) (hlen : file.length < 2 ^ 32) :
    PreInv (R.init opts limit f file v) := by
  rcases rinv_init ⟨fun _ _ => (0, 0), fun _ _ => .ok (), fun _ _ _ _ _ => none⟩ opts limit f file v hlen with
    ⟨k, _⟩ | ⟨_, k, _⟩ | ⟨_, _, k⟩
  · cases k
  · cases k
  · exact k

/-- a call whose result is `y`, as an equation for the pair -/
theorem step_eq_of_snd {x : R × Reader.Res} {y : Reader.Res} (h : x.2 = y) : x = (x.1, y) := by
  cases x; simp only at h ⊢; rw [h]

/-- one result per call -/
theorem run_length (cfg : Cfg) (t : TCfg) : ∀ (ops : List Op) (r : R), (run cfg t r ops).2.length = ops.length := by
  intro ops
  induction ops with
  | nil => intro r; rfl
  | cons op ops ih => intro r; rw [run_cons]; simp only [List.length_cons, ih]

/-- the results of a run on `ops ++ [last]`, cut behind the results of `ops` -/
theorem run_drop_last (cfg : Cfg) (t : TCfg) (r : R) (ops : List Op) (last : Op) (res : List Reader.Res) (x : Reader.Res)
    (h : (run cfg t r (ops ++ [last])).2 = res ++ [x]) : (run cfg t r ops).2 = res := by
  rw [run_append] at h
  simp only at h
  have hl := congrArg List.length h
  simp only [List.length_append, run_length, List.length_cons, List.length_nil] at hl
  exact (List.append_inj h (by rw [run_length]; omega)).1

/-- a list that begins with `a` and has one element: `a` is empty or the whole list -/
theorem prefix_singleton {α : Type} {x : α} {a zs : List α} (h : [x] = a ++ zs) : a = [] ∨ a = [x] := by
  cases a with
  | nil => exact Or.inl rfl
  | cons y a =>
    right
    simp only [List.cons_append, List.cons.injEq] at h
    obtain ⟨rfl, h2⟩ := h
    have : a = [] := by
      cases a with
      | nil => rfl
      | cons z a => cases h2
    rw [this]

/-- the frames `FramesOk` describes are successful results, one per call -/
theorem framesOk_good (h : Header) : ∀ (frames : List (FrameControl × List Bytes × Bytes)) (ps : List UInt8) (rs : List Reader.Res),
    FramesOk h frames ps rs → rs.length = ps.length ∧ ∀ x ∈ rs, x.isGood = true := by
  intro frames
  induction frames with
  | nil =>
    intro ps rs hok
    cases ps with
    | nil =>
      cases rs with
      | nil => exact ⟨rfl, fun _ hx => by cases hx⟩
      | cons _ _ => exact False.elim hok
    | cons _ _ => exact False.elim hok
  | cons fr fs ih =>
    intro ps rs hok
    cases ps with
    | nil => exact False.elim hok
    | cons p ps =>
      cases rs with
      | nil => exact False.elim hok
      | cons res rs =>
        obtain ⟨⟨buf, hres, _⟩, hrest⟩ := (hok : (∃ buf, res = .frame _ buf ∧ _) ∧ FramesOk h fs ps rs)
        obtain ⟨i1, i2⟩ := ih ps rs hrest
        refine ⟨by simp only [List.length_cons, i1], fun x hx => ?_⟩
        simp only [List.mem_cons] at hx
        rcases hx with rfl | hx
        · rw [hres]; rfl
        · exact i2 x hx

/-- the results of `read_info, next_frame, next_frame …, next_frame` without the last call -/
theorem run_frames_drop_last (cfg : Cfg) (t : TCfg) (r : R) (a : Op) (l : List Op) (b : Op) (x : Reader.Res)
    (rs : List Reader.Res) (e : Reader.Res)
    (h : (run cfg t r (.readInfo :: a :: (l ++ [b]))).2 = .header :: x :: (rs ++ [e])) :
    (run cfg t r (.readInfo :: a :: l)).2 = .header :: x :: rs :=
  run_drop_last cfg t r (.readInfo :: a :: l) b (.header :: x :: rs) e h

theorem isCall_nextFrames (p0 : UInt8) (ps : List UInt8) : ∀ op ∈ Op.nextFrame p0 :: ps.map Op.nextFrame, op.isCall = true := by
  intro op hop
  simp only [List.mem_cons, List.mem_map] at hop
  rcases hop with rfl | ⟨p, _, rfl⟩ <;> rfl

theorem isCall_nextRows (n : Nat) : ∀ op ∈ List.replicate n Op.nextRow, op.isCall = true := by
  intro op hop
  rw [List.eq_of_mem_replicate hop]; rfl

theorem isCall_nextFrame (p : UInt8) : ∀ op ∈ [Op.nextFrame p], op.isCall = true := by
  intro op hop
  simp only [List.mem_singleton] at hop; rw [hop]; rfl

theorem good_frame (oi : OutputInfo) (buf : Bytes) : ∀ x ∈ [Reader.Res.frame oi buf], x.isGood = true := by
  intro x hx
  simp only [List.mem_singleton] at hx; rw [hx]; rfl

theorem good_frames (oi : OutputInfo) (buf : Bytes) {rs : List Reader.Res} (h : ∀ x ∈ rs, x.isGood = true) :
    ∀ x ∈ Reader.Res.frame oi buf :: rs, x.isGood = true := by
  intro x hx
  simp only [List.mem_cons] at hx
  rcases hx with rfl | hx
  · rfl
  · exact h x hx

/-- rows and the final `None` are successful results -/
theorem good_rows {α : Type} (l : List α) (g : α → IInfo) (d : α → Bytes) :
    ∀ x ∈ l.map (fun a => Reader.Res.row (g a) (d a)) ++ [Reader.Res.noRow], x.isGood = true := by
  intro x hx
  simp only [List.mem_append, List.mem_map, List.mem_singleton] at hx
  rcases hx with ⟨a, _, rfl⟩ | rfl <;> rfl

/-! ## the composition, for a transformation satisfying the contracts of C05 -/

/-- **`read_info` on a prefix, then the retrying caller, against the run that sees the whole file** -/
theorem delivery_from_start (cfg : Cfg) (hI : cfg.InflateOk) {t : TCfg} (ht : t.Ok) (hst : t.Stable) (opts : Options)
    (limit : Nat) (f : Flags) (file : Bytes) (hlen : file.length < 2 ^ 32) (v : Nat) (hv : v ≤ file.length) (r0 : R)
    (hri : step cfg t (R.init opts limit f file v) .readInfo = (r0, .header)) (ops : List Op)
    (hc : ∀ op ∈ ops, op.isCall = true) (sched : List Nat) (res : List Reader.Res)
    (hrun : (run cfg t (R.init opts limit f file file.length) (.readInfo :: ops)).2 = .header :: res)
    (hg : ∀ x ∈ res, x.isGood = true) :
    ∃ zs, res = resumeRun cfg t file.length sched ops r0 ++ zs ∧ (file.length ≤ v + sched.sum → zs = []) := by
  have hgood : ∀ x ∈ (run cfg t (growTo (R.init opts limit f file v) file.length) (.readInfo :: ops)).2, x.isGood = true := by
    rw [growTo_init, hrun]
    intro x hx
    simp only [List.mem_cons] at hx
    rcases hx with rfl | hx
    · rfl
    · exact hg x hx
  obtain ⟨zs, h1, h2⟩ := resumeRun_from_start cfg hI ht hst (R.init opts limit f file v) r0
    (preInv_init opts limit f file v hlen) rfl rfl file.length hv hri ops hc sched hgood
  rw [growTo_init, hrun] at h1
  simp only [List.cons.injEq, true_and] at h1
  exact ⟨zs, h1, h2⟩

/-- … followed by any further calls `more` (which may fail): the retrying caller's results on `ops ++ more` begin with
    its results on `ops` -/
theorem delivery_from_start_until_failure (cfg : Cfg) (hI : cfg.InflateOk) {t : TCfg} (ht : t.Ok) (hst : t.Stable)
    (opts : Options) (limit : Nat) (f : Flags) (file : Bytes) (hlen : file.length < 2 ^ 32) (v : Nat) (hv : v ≤ file.length)
    (r0 : R) (hri : step cfg t (R.init opts limit f file v) .readInfo = (r0, .header)) (ops more : List Op)
    (hc : ∀ op ∈ ops, op.isCall = true) (sched : List Nat) (res : List Reader.Res)
    (hrun : (run cfg t (R.init opts limit f file file.length) (.readInfo :: ops)).2 = .header :: res)
    (hg : ∀ x ∈ res, x.isGood = true) :
    ∃ zs zs', res = resumeRun cfg t file.length sched ops r0 ++ zs ∧ (file.length ≤ v + sched.sum → zs = []) ∧
      resumeRun cfg t file.length sched (ops ++ more) r0 = resumeRun cfg t file.length sched ops r0 ++ zs' := by
  obtain ⟨zs, h1, h2⟩ := delivery_from_start cfg hI ht hst opts limit f file hlen v hv r0 hri ops hc sched res hrun hg
  obtain ⟨zs', hz'⟩ := resumeRun_append cfg t file.length sched ops more r0
  exact ⟨zs, zs', h1, h2, hz'⟩

/-! ## transformations that satisfy the contracts up to `Info`s no stream produces -/

/-- **the contracts of C05 on the row transformation, up to `Info`s no stream produces**: `t` agrees — same output type,
    same creation, same rows on every current `Info` whose stored `tRNS` has the shape `parse_trns` leaves (`TAgree`) —
    with a transformation that satisfies `TCfg.Ok` and `TCfg.Stable`.  Every `t` with `t.Ok` and `t.Stable` qualifies
    (`TCfg.ResumeOk.of_contracts`), and so does `Driver.realT` (`Driver.realT_resumeOk`), for which `TCfg.Ok` is false as
    stated. -/
def TCfg.ResumeOk (t : TCfg) : Prop := ∃ tk : TCfg, TAgree t tk ∧ tk.Ok ∧ tk.Stable

theorem TCfg.ResumeOk.of_contracts {t : TCfg} (ht : t.Ok) (hst : t.Stable) : t.ResumeOk :=
  ⟨t, ⟨rfl, rfl, fun _ _ _ _ _ _ => rfl⟩, ht, hst⟩

/-- `delivery_from_start` for such a transformation: the `Reader` model cannot tell it from the one that satisfies the
    contracts (`run_agree`, `resumeRun_agree`) -/
theorem delivery_from_start' (cfg : Cfg) (hI : cfg.InflateOk) {t : TCfg} (hT : t.ResumeOk) (opts : Options)
    (limit : Nat) (f : Flags) (file : Bytes) (hlen : file.length < 2 ^ 32) (v : Nat) (hv : v ≤ file.length) (r0 : R)
    (hri : step cfg t (R.init opts limit f file v) .readInfo = (r0, .header)) (ops : List Op)
    (hc : ∀ op ∈ ops, op.isCall = true) (sched : List Nat) (res : List Reader.Res)
    (hrun : (run cfg t (R.init opts limit f file file.length) (.readInfo :: ops)).2 = .header :: res)
    (hg : ∀ x ∈ res, x.isGood = true) :
    ∃ zs, res = resumeRun cfg t file.length sched ops r0 ++ zs ∧ (file.length ≤ v + sched.sum → zs = []) := by
  obtain ⟨tk, hag, hOk, hSt⟩ := hT
  have hk0 := ki_init opts limit f file v
  have hk : KI r0 := ki_of_eq hri (step_ki cfg t _ .readInfo hk0)
  have hri' : step cfg tk (R.init opts limit f file v) .readInfo = (r0, .header) := by
    rw [step_agree hag cfg _ hk0]; exact hri
  have hrun' : (run cfg tk (R.init opts limit f file file.length) (.readInfo :: ops)).2 = .header :: res := by
    rw [run_agree hag cfg _ (ki_init opts limit f file file.length)]; exact hrun
  have := delivery_from_start cfg hI hOk hSt opts limit f file hlen v hv r0 hri' ops hc sched res hrun' hg
  rw [resumeRun_agree hag cfg file.length sched ops r0 hk] at this
  exact this

/-- … followed by any further calls `more` (which may fail) -/
theorem delivery_from_start_until_failure' (cfg : Cfg) (hI : cfg.InflateOk) {t : TCfg} (hT : t.ResumeOk)
    (opts : Options) (limit : Nat) (f : Flags) (file : Bytes) (hlen : file.length < 2 ^ 32) (v : Nat) (hv : v ≤ file.length)
    (r0 : R) (hri : step cfg t (R.init opts limit f file v) .readInfo = (r0, .header)) (ops more : List Op)
    (hc : ∀ op ∈ ops, op.isCall = true) (sched : List Nat) (res : List Reader.Res)
    (hrun : (run cfg t (R.init opts limit f file file.length) (.readInfo :: ops)).2 = .header :: res)
    (hg : ∀ x ∈ res, x.isGood = true) :
    ∃ zs zs', res = resumeRun cfg t file.length sched ops r0 ++ zs ∧ (file.length ≤ v + sched.sum → zs = []) ∧
      resumeRun cfg t file.length sched (ops ++ more) r0 = resumeRun cfg t file.length sched ops r0 ++ zs' := by
  obtain ⟨zs, h1, h2⟩ := delivery_from_start' cfg hI hT opts limit f file hlen v hv r0 hri ops hc sched res hrun hg
  obtain ⟨zs', hz'⟩ := resumeRun_append cfg t file.length sched ops more r0
  exact ⟨zs, zs', h1, h2, hz'⟩

end Png.Reader

namespace Png.Driver
open Png Png.Framing Png.Reader

/-- **`Driver.realT` satisfies the contracts of C05 up to `Info`s no stream produces** (through `realTK`) -/
theorem realT_resumeOk : realT.ResumeOk := ⟨realTK, realT_agree, realTK_ok, realTK_stable⟩

end Png.Driver
