import PngVerif.Proofs.ReaderToy
import PngVerif.Proofs.ReaderRetry
/-!
# A toy inflater that detects corruption late (non-vacuity / counterexample material for C05)

`lateInflate` is the "stored" toy stream of `Proofs/FramingToy.lean` (first byte = payload length `L`) in which a payload
byte 255 is a corruption: the input is rejected as soon as such a byte is among the payload bytes seen.  It satisfies the
inflater contract `Cfg.InflateOk` — and, like a real inflater, it accepts a prefix of a stream that it rejects once more
of it is supplied.
-/
namespace Png.Reader.ToyLate
open Png Png.Framing Png.Reader Png.Framing.Toy Png.Reader.Toy

def lateInflate : Bytes → Option (Bytes × Bool)
  | [] => some ([], false)
  | l :: rest =>
    if l = 255 ∨ (255 : UInt8) ∈ rest.take l.toNat then none
    else some (rest.take l.toNat, decide (l.toNat ≤ rest.length))

def lateCfg : Cfg where
  crc := fun _ => 0
  inflate := lateInflate
  inflateBounded := fun z _ => .ok z
  utf8Ok := fun _ => true

theorem late_inflateOk : lateCfg.InflateOk where
  mono := by
    intro a b o2 d2 h
    cases a with
    | nil => exact ⟨[], false, rfl, List.nil_prefix⟩
    | cons l r =>
      simp only [lateCfg, List.cons_append, lateInflate] at h ⊢
      split at h
      · cases h
      · rename_i hl
        cases h
        have hsub : ∀ x, x ∈ r.take l.toNat → x ∈ (r ++ b).take l.toNat := by
          intro x hx
          rw [List.take_append]
          exact List.mem_append_left _ hx
        have hl' : ¬ (l = 255 ∨ (255 : UInt8) ∈ r.take l.toNat) := fun hc => hl (hc.imp id (hsub 255))
        refine ⟨_, _, by rw [if_neg hl'], ?_⟩
        rw [List.take_append]
        exact List.prefix_append _ _
  done := by
    intro a b o h
    cases a with
    | nil => simp [lateCfg, lateInflate] at h
    | cons l r =>
      simp only [lateCfg, List.cons_append, lateInflate] at h ⊢
      split at h
      · cases h
      · rename_i hl
        simp only [Option.some.injEq, Prod.mk.injEq, decide_eq_true_eq] at h
        obtain ⟨h1, h2⟩ := h
        have ht : (r ++ b).take l.toNat = r.take l.toNat := List.take_append_of_le_length h2
        rw [ht, if_neg hl]
        subst h1
        simp only [List.length_append, Option.some.injEq, Prod.mk.injEq, decide_eq_true_eq, true_and]
        omega

/-- the identity transformation's output type depends on the IHDR fields only -/
theorem idT_stable : idT.Stable := by
  intro i j f hc _
  simp only [Info.core, Prod.mk.injEq] at hc
  show (j.color, j.depth) = (i.color, i.depth)
  rw [hc.2.2.1, hc.2.2.2.1]

/-- `IHDR` of a 1×2 8-bit grayscale image (toy CRC) -/
def ihdr12 : Bytes := [0, 0, 0, 13, 73, 72, 68, 82,  0, 0, 0, 1,  0, 0, 0, 2,  8, 0, 0, 0, 0,  0, 0, 0, 0]
/-- `IDAT` with the stream `[4, 0, 9, 255, 7]`: the first row (`0, 9`) is fine, then the corrupt byte -/
def idatLate : Bytes := [0, 0, 0, 5, 73, 68, 65, 84,  4, 0, 9, 255, 7,  0, 0, 0, 0]
def imgLate : Bytes := sig ++ ihdr12 ++ idatLate ++ iend

/-- 44 bytes: everything up to and including the first row's data -/
def cut : Nat := 44
/-- the `Reader` that `read_info` builds when the first 44 bytes are visible -/
def lateReader : R := (run lateCfg idT (R.init {} 1000 {} imgLate cut) [.readInfo]).1

end Png.Reader.ToyLate
