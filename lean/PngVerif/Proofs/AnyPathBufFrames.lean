import PngVerif.Proofs.ComposeFrames
import PngVerif.Proofs.AnyPathStart
/-!
# Whole-frame calls of a well-formed file into ANY caller buffer, and the reader they leave (white-box route)

`Reader.frames_run` / `Reader.apng_wf` / `Reader.decode_wf` (the L2 layer of C01 / C09) describe `Reader.run` on
`Op.nextFrame p`, i.e. `next_frame` into a buffer pre-filled with one byte `p`, and export only the results.  Two
compositions need more:

* the retrying caller's LAST result (`Props/C04DeliveryEnd.lean`) needs the READER the run ends in (`remaining = 0`,
  no row pending);
* any call path with an arbitrary caller buffer (`Props/C09AnyPathBuf.lean`) needs the frames for ANY contents of the
  buffer.

Both come from `Reader.frameInto_trace`, which is general in the buffer.  This file re-proves the frame step of
`frames_run` in terms of `nextFrameBuf` (the model's `next_frame` with the caller's buffer explicit):

* `nextFrameBuf_next`, `between_step`: one frame after the first, into any buffer that holds the image: the frame's
  geometry, `specFrame` of its own data on that buffer, and the reader `Between` the frames that follow;
* `first_frame_step`: the same for the frame of the `IDAT` chunks from the reader `read_info` returns;
* `still_first`, `apng_first`, `apng_default_first`: `read_info` on the three well-formed layouts, returning that reader
  with everything the steps need.
-/
namespace Png.Reader
open Png Png.Framing Png.WellFormed

/-- **`next_frame` for a frame after the first, into any buffer `buf` that holds the image** (`nextFrameOp_next` with
    the caller's buffer explicit) -/
theorem nextFrameBuf_next (cfg : Cfg) {t : TCfg} {f : Flags} (ht : t.IsIdentity f) (i' : Info)
    (hleg : (i'.color, i'.depth) ∈ legalPairs)
    (hW : 1 ≤ (Sub.dims i').1) (hH : 1 ≤ (Sub.dims i').2) (M : Nat) (hM : 1 ≤ M) (r : R) (buf : Bytes)
    (hout : r.dec.out = []) (hcaf : r.sub.caf = true) (hcur : r.sub.cur = none)
    (hrem : r.remaining = M) (hfl : r.flags = f) (hca : CachedLegal r)
    (pre : List (Ev × Bytes)) (len : Nat) (dM : Dec) (bM : Bytes) (hpre : ∀ e ∈ pre, PreEv e)
    (Thead : Trace cfg (fun _ => True) r.dec (avail r) (pre ++ [(.chunkBegin len fdAT, [])]) dM bM)
    (hiM : dM.info = some i') (houtM : dM.out = []) (hlim : (hdrOf i').lineSize ≤ dM.limit)
    (raw : Bytes) (dEnd : Dec) (bEnd : Bytes) (pend : List (Ev × Bytes))
    (Tdata : Trace cfg (fun d => d.info = some i') { dM with limit := dM.limit - (hdrOf i').lineSize } bM pend dEnd bEnd)
    (hev : DataEvs pend) (hdata : dataOf pend = raw) (hraw : RawOk (hdrOf i') raw)
    (hneed : outLineSize t i' f i'.width * i'.height ≤ buf.length)
    (hfit : (hdrOf i').bufferSize ≤ buf.length) :
    ∃ r' buf', nextFrameBuf cfg t r buf =
        (r', .frame { width := (Sub.dims i').1, height := (Sub.dims i').2, color := i'.color, depth := i'.depth,
                      lineSize := (hdrOf i').lineSize } buf', buf') ∧
      specFrame (hdrOf i') raw buf = some buf' ∧
      buf'.length = buf.length ∧
      Pending cfg i' (M - 1 + 1) r' [] dEnd bEnd ∧ r'.sub.caf = true ∧ r'.dec = dEnd ∧ avail r' = bEnd ∧ r'.remaining + 1 = M ∧
      SameEnv r r' ∧ CachedLegal r' ∧ r'.sub.cur = none := by
  have hM' : M - 1 + 1 = M := by omega
  obtain ⟨r1, hru, hdec1, hav1, hsub1, hbpp1, hub1, hse1, hca1, hrem1⟩ :=
    readUntilImageData_trace cfg ht (P := fun _ => True) (r := r) (i := i') (Or.inr rfl) hout hpre Thead hiM hleg hfl hlim
  have hR : Ready cfg f i' M r1 raw dEnd bEnd := by
    refine ⟨⟨pend, ⟨?_, ?_, ?_, Or.inl ⟨?_, hev, hrem1.trans hrem⟩, hM⟩, hdata⟩, hse1.flags.trans hfl, hsub1, hbpp1, hub1, ?_⟩
    · rw [hdec1]; exact houtM
    · rw [hdec1]; exact hiM
    · rw [hdec1, hav1]; exact Tdata
    · rw [hsub1]; exact (subNew_dims i').2.2.2
    · intro s0 hs0; rw [hca1] at hs0; exact hca s0 hs0
  obtain ⟨r', buf', hrun, hspec, hbl, h3, h4, h5, h6, h7, h8, h9, h10⟩ :=
    frameInto_trace cfg ht i' hleg hW hH M raw dEnd bEnd r1 buf hR hraw hneed hfit
  refine ⟨r', buf', ?_, hspec, hbl, by rw [hM']; exact h3, h4, h5, h6, h7, hse1.trans h8, h9, h10⟩
  rw [nextFrameBuf_none cfg t r _ hcur]
  unfold nextFrameBuf0
  have hrem0 : r.remaining ≠ 0 := by omega
  simp only [hrem0, if_false, hcaf, if_true, hru, hrun]

/-- **one frame after the first, into any buffer that holds the image**: between two frames (`Between`, the next frame
    being `(fc, zs, raw)`), `next_frame` into `buf` returns the frame with the geometry of its own `fcTL`, leaves
    `specFrame` of its own data computed ON `buf`, and the reader stands between this frame and the rest -/
theorem between_step (cfg : Cfg) (hI : cfg.InflateOk) (hC : cfg.CrcOk) {t : TCfg} {f : Flags} (ht : t.IsIdentity f)
    (h : Header) (hv : h.Valid) (fc : FrameControl) (zs : List Bytes) (raw : Bytes)
    (rest : List (FrameControl × List Bytes × Bytes)) (r : R) (i : Info) (s : Nat)
    (hfo : FrameOk cfg h (fc, zs, raw))
    (hseq : s + (((fc, zs, raw) :: rest).map fun x => 1 + x.2.1.length).sum < 2 ^ 32)
    (hB : Between cfg f h r i s ((fc, zs, raw) :: rest)) (buf : Bytes) (hbuf : h.bufferSize ≤ buf.length) :
    ∃ r' i' B, nextFrameBuf cfg t r buf =
        (r', .frame { width := fc.width, height := fc.height, color := h.color, depth := h.depth,
                      lineSize := (h.frame fc).lineSize } B, B) ∧
      specFrame (h.frame fc) raw buf = some B ∧ B.length = buf.length ∧
      Between cfg f h r' i' (s + 1 + zs.length) rest := by
  obtain ⟨hw1, hw2, hh1, hh2, hleg⟩ := hv
  have hd := (legal_pos hleg).2.2
  obtain ⟨hfc, hne, hlen, hinf, hraw⟩ := hfo
  simp only at hfc hne hlen hinf hraw
  cases zs with
  | nil => exact absurd rfl hne
  | cons z zs =>
    simp only [List.map_cons, List.sum_cons, List.length_cons] at hseq
    have hcore' := hB.core
    simp only [Info.core, Header.info, Prod.mk.injEq] at hcore'
    obtain ⟨c1, c2, c3, c4, c5⟩ := hcore'
    generalize hfc' : ({ fc with seq := s } : FrameControl) = fc'
    have hfw : fc'.width = fc.width := by rw [← hfc']
    have hfh : fc'.height = fc.height := by rw [← hfc']
    have hframe : h.frame fc' = h.frame fc := by rw [← hfc']; rfl
    have hfits : fc'.Fits := by
      rw [← hfc']
      refine ⟨by show s < 2 ^ 32; omega, ?_, ?_, ?_, ?_, hfc.dn, hfc.dd, ?_, ?_⟩
      · show fc.width < 2 ^ 32; have := hfc.xw; omega
      · show fc.height < 2 ^ 32; have := hfc.yh; omega
      · show fc.x < 2 ^ 32; have := hfc.xw; omega
      · show fc.y < 2 ^ 32; have := hfc.yh; omega
      · show fc.dispose < 256; have := hfc.dis; omega
      · show fc.blend < 256; have := hfc.bl; omega
    have hinb : fctlInBounds i fc' = true := by
      rw [fctlInBounds_iff, ← hfc']
      exact ⟨hfc.w1, hfc.h1, by rw [c1]; exact hfc.xw, by rw [c2]; exact hfc.yh⟩
    have hnh : nextHead cfg s (framesOf ((fc, z :: zs, raw) :: rest)) =
        (26, fcTL, fctlBody fc' ++ (be32Bytes (cfg.crc (typeBytes fcTL ++ fctlBody fc')) ++
          (fdats cfg s (z :: zs) ++ (apngFrames cfg (s + 1 + (z :: zs).length) (framesOf rest) ++ chunk cfg IEND [])))) := by
      rw [← hfc']; rfl
    have hfl := hB.flushed
    have hav := hB.avail
    rw [hnh] at hfl hav
    simp only at hfl hav
    generalize hs' : s + 1 + (z :: zs).length = s' at hav ⊢
    obtain ⟨hl1, hl2, hl3, hl4⟩ := nextHead_facts cfg s' (framesOf rest)
    have htail := nextHead_eq cfg s' (framesOf rest)
    generalize hLn : (nextHead cfg s' (framesOf rest)).1 = lenN at *
    generalize hTn : (nextHead cfg s' (framesOf rest)).2.1 = tN at *
    generalize hRn : (nextHead cfg s' (framesOf rest)).2.2 = restN at *
    rw [htail, fdats_cons, List.append_assoc, chunk_append] at hav
    have hl4z : (be32Bytes (s + 1) ++ z).length = 4 + z.length := by simp [be32Bytes_length]
    rw [hl4z] at hav
    have hzl := hlen z (by simp)
    obtain ⟨dM, Thead, hatM, hlimM, hcapM, _⟩ := frame_head_trace cfg hC fc' (4 + z.length)
      (be32Bytes (s + 1) ++ z ++ (be32Bytes (cfg.crc (typeBytes fdAT ++ (be32Bytes (s + 1) ++ z))) ++
        (fdats cfg (s + 1) zs ++ (be32Bytes lenN ++ typeBytes tN ++ restN))))
      hfl hB.cap hfits (by rw [← hfc']; exact hB.seqNo) (by rw [← hfc']; exact hfc.dis)
      (by rw [← hfc']; exact hfc.bl) hinb hzl (by omega)
    have hseqM : fc'.seq = s := by rw [← hfc']
    rw [hseqM] at hatM
    generalize hi' : ({ i with fctl := some fc' } : Info) = i' at hatM
    have hhdr : hdrOf i' = h.frame fc := by rw [← hi', hdrOf_frame fc' hB.core, hframe]
    have hcorei : i'.core = i.core := by rw [← hi']; rfl
    obtain ⟨pend, dEnd, Tdata, hev, hdata, hfluE, hkE, hsqE⟩ := fdat_sequence_trace cfg hI hC i' raw restN lenN tN hl1 hl2 hl4
      z zs { dM with limit := dM.limit - (hdrOf i').lineSize } s (hatM.setLimit _)
      (fun z' hz' => hlen z' (by simp [hz'])) (by omega) hinf
    have hlegi : (i'.color, i'.depth) ∈ legalPairs := by rw [← hi']; show (i.color, i.depth) ∈ _; rw [c3, c4]; exact hleg
    have hdims : Sub.dims i' = (fc.width, fc.height) := by rw [← hi']; simp [Sub.dims, hfw, hfh]
    have hLS : (h.frame fc).lineSize ≤ r.dec.limit := by
      have := hB.limit
      simp only [List.map_cons, List.sum_cons] at this
      omega
    obtain ⟨hfit1, hfit2⟩ := frame_fits h hd fc (by have := hfc.xw; omega) (by have := hfc.yh; omega)
    have hszI : outLineSize t i' f i'.width * i'.height = h.bufferSize := by
      have e1 : i'.width = h.width := by rw [← hi']; exact c1
      have e2 : i'.height = h.height := by rw [← hi']; exact c2
      have e3 : i'.color = h.color := by rw [← hi']; exact c4
      have e4 : i'.depth = h.depth := by rw [← hi']; exact c3
      rw [outLineSize_id ht, e1, e2, e3, e4, ← rowBytes_eq h hd]; rfl
    obtain ⟨r', buf', hstep, hspec, hblen, hP', hcaf', hdec', hav', hrem', hse', hca', hcur'⟩ :=
      nextFrameBuf_next cfg ht i' hlegi (by rw [hdims]; exact hfc.w1) (by rw [hdims]; exact hfc.h1)
        (rest.length + 1) (by omega) r buf hB.flushed.out hB.caf hB.cur (by rw [hB.remaining]; rfl) hB.flags
        hB.cached
        [(.chunkBegin 26 fcTL, []), (.frameControl fc', []), (.chunkComplete (cfg.crc (typeBytes fcTL ++ fctlBody fc')) fcTL, [])]
        (4 + z.length) dM _
        (by
          intro e he
          simp only [List.mem_cons, List.mem_nil_iff, or_false] at he
          rcases he with rfl | rfl | rfl
          · exact ⟨rfl, by simp, fun _ _ hx => by cases hx; exact ⟨by decide +kernel, by decide +kernel⟩⟩
          · exact ⟨rfl, by simp, fun _ _ hx => by cases hx⟩
          · exact ⟨rfl, by simp, fun _ _ hx => by cases hx⟩)
        (by rw [hav]; exact Thead) hatM.info hatM.out (by rw [hhdr, hlimM]; exact hLS)
        raw dEnd restN pend Tdata hev hdata (by rw [hhdr]; exact hraw) (by rw [hszI]; exact hbuf)
        (by rw [hhdr]; exact Nat.le_trans hfit2 hbuf)
    have hB' : Between cfg f h r' i' s' rest := by
      refine ⟨hcorei.trans hB.core, ?_, ?_, ?_, ?_, ?_, hcaf', hcur', by omega, hse'.flags.trans hB.flags,
        hse'.isReader.trans hB.isReader, hse'.pendingBuf.trans hB.pendingBuf, hca'⟩
      · rw [hdec', hLn, hTn]; exact hfluE
      · rw [hav', hRn]
      · rw [hdec', hsqE, ← hs']; simp only [List.length_cons]; exact ⟨by omega, by omega⟩
      · rw [hdec', hkE.cap]; show dM.cap ≥ 26; rw [hcapM]; exact hB.cap
      · rw [hdec', hkE.limit]
        show _ ≤ dM.limit - (hdrOf i').lineSize
        have := hB.limit
        simp only [List.map_cons, List.sum_cons] at this
        rw [hhdr, hlimM]; omega
    refine ⟨r', i', buf', ?_, by rw [hhdr] at hspec; exact hspec, hblen, hB'⟩
    rw [hstep, hdims, hhdr]
    have e3 : i'.color = h.color := by rw [← hi']; exact c4
    have e4 : i'.depth = h.depth := by rw [← hi']; exact c3
    rw [e3, e4]

/-- the sequence-number bound of the frames behind the first of the remaining ones -/
theorem seq_bound_rest (s : Nat) (fc : FrameControl) (zs : List Bytes) (raw : Bytes)
    (rest : List (FrameControl × List Bytes × Bytes))
    (hseq : s + (((fc, zs, raw) :: rest).map fun x => 1 + x.2.1.length).sum < 2 ^ 32) :
    (s + 1 + zs.length) + (rest.map fun x => 1 + x.2.1.length).sum < 2 ^ 32 := by
  simp only [List.map_cons, List.sum_cons] at hseq
  omega

/-- what is left when all frames were handed out: no frame remains and no row is pending -/
theorem Between.done {cfg : Cfg} {f : Flags} {h : Header} {r : R} {i : Info} {s : Nat} (hB : Between cfg f h r i s []) :
    r.remaining = 0 ∧ r.sub.cur = none ∧ r.dec.info = some i ∧ r.isReader = true ∧ r.pendingBuf = none :=
  ⟨hB.remaining, hB.cur, hB.flushed.info, hB.isReader, hB.pendingBuf⟩

/-- **the frame of the `IDAT` chunks, into any buffer that holds the image**, from the reader `read_info` returns -/
theorem first_frame_step (cfg : Cfg) {t : TCfg} {f : Flags} (ht : t.IsIdentity f) (i : Info)
    (hleg : (i.color, i.depth) ∈ legalPairs) (hW : 1 ≤ (Sub.dims i).1) (hH : 1 ≤ (Sub.dims i).2)
    (N : Nat) (raw : Bytes) (dEnd : Dec) (bEnd : Bytes) (r : R) (buf : Bytes)
    (hR : Ready cfg f i N r raw dEnd bEnd) (hraw : RawOk (hdrOf i) raw)
    (hneed : outLineSize t i f i.width * i.height ≤ buf.length) (hfit : (hdrOf i).bufferSize ≤ buf.length) :
    ∃ r' buf', nextFrameBuf cfg t r buf =
        (r', .frame { width := (Sub.dims i).1, height := (Sub.dims i).2, color := i.color, depth := i.depth,
                      lineSize := (hdrOf i).lineSize } buf', buf') ∧
      specFrame (hdrOf i) raw buf = some buf' ∧ buf'.length = buf.length ∧
      Pending cfg i N r' [] dEnd bEnd ∧ r'.sub.caf = true ∧ r'.dec = dEnd ∧ avail r' = bEnd ∧ r'.remaining + 1 = N ∧
      SameEnv r r' ∧ CachedLegal r' ∧ r'.sub.cur = none := by
  obtain ⟨pend, hP, hdata⟩ := hR.pend
  have hcaf : r.sub.caf = false := by rw [hR.sub]; exact (subNew_dims i).2.2.2
  have hrem : r.remaining ≠ 0 := by
    rcases hP.caf with ⟨_, _, h⟩ | ⟨h, _, _⟩
    · have := hP.hN; omega
    · rw [hcaf] at h; cases h
  obtain ⟨r', buf', hrun, hrest⟩ := frameInto_trace cfg ht i hleg hW hH N raw dEnd bEnd r buf hR hraw hneed hfit
  refine ⟨r', buf', ?_, hrest⟩
  rw [nextFrameBuf_inside cfg t r _ hrem hcaf, hrun]

end Png.Reader
