import PngVerif.Proofs.RoundTripAnimEnc
import PngVerif.Proofs.RoundTripSpec
import PngVerif.Proofs.RoundTripHeader
import PngVerif.Proofs.ComposeFrames
/-!
# C03 end to end for animations, the joint between the two models

* `fcDec`: the decoder side's `FrameControl` of an encoder `FC`; `mkFctl f` carries `fctlBody (fcDec f)`, `mkActl` carries
  `actlBody`; `fdatList` serialises to `WellFormed.fdats`;
* `decFrames`: the frames after the first image as the decoder side describes them — frame control, the pieces of the
  compressed scanline stream (at most `2^31 − 5` bytes each), the scanline stream of the frame's data, a still image of the
  frame's own size (`Cfg.sub`) —, and `laterChunks_bytes`: the chunks `later_run` leaves serialise to `apngFrames`;
* `animBytes_eq` / `animDefaultBytes_eq`: the file of `anim_run` / `anim_default_run` is `wellFormedApng` /
  `wellFormedApngDefault` (for a configuration without metadata in front of `acTL`: `preChunks c.md = []`; the layout
  `wellFormedApng` of the decoder side has `acTL` right behind `IHDR`);
* `frameOk_dec`, `fcOk_dec`: `FrameOk` / `FcOk` of these frames; `specFrame_encode`: the specification's pixels of a frame are
  its data followed by what the buffer held;
* `post_accepted`: the decoder reads `PLTE`, `tRNS` and the text chunks behind the `acTL`.
-/
namespace Png.RoundTrip
open Png Png.Val Png.Enc Png.Framing Png.WellFormed

/-! ## frame controls and chunk bodies -/

/-- the frame control as the decoder side carries it -/
def fcDec (f : FC) : FrameControl :=
  { seq := f.seq, width := f.w, height := f.h, x := f.x, y := f.y, delayNum := f.delayNum, delayDen := f.delayDen,
    dispose := f.dispose, blend := f.blend }

theorem mkFctl_eq (f : FC) : mkFctl f = ⟨tyFCTL, fctlBody (fcDec f)⟩ := rfl
theorem mkActl_eq (n p : Nat) : mkActl n p = ⟨tyACTL, actlBody n p⟩ := rfl

theorem ty_eqs_anim : tyACTL = acTL ∧ tyFCTL = fcTL ∧ tyFDAT = fdAT := by decide +kernel

theorem fcOk_dec {c : Enc.Cfg} {f : FC} (hin : FcIn c.width c.height f) (hfine : FcFine f) : Reader.FcOk (headerOf c) (fcDec f) :=
  ⟨hin.1, hin.2.1, hin.2.2.1, hin.2.2.2, hfine.1, hfine.2.1, hfine.2.2.1, hfine.2.2.2⟩

theorem frame_dec (c : Enc.Cfg) (f : FC) : (headerOf c).frame (fcDec f) = headerOf (c.sub f) := rfl

theorem fdatList_bytes (cfg : Framing.Cfg) (hcrc : ∀ b, cfg.crc b = crcOfList b) :
    ∀ (zs : List Bytes) (q : Nat), ((fdatList (q + 1) zs).map chunkBytes).flatten = fdats cfg q zs := by
  intro zs
  induction zs with
  | nil => intro q; rfl
  | cons z zs ih =>
    intro q
    simp only [fdatList, List.map_cons, List.flatten_cons, fdats, ih (q + 1), chunkBytes_eq cfg hcrc, mkFdat, ty_eqs_anim.2.2]

/-! ## the frames as the decoder side describes them -/

theorem fcOf_setSeq (W H : Nat) : ∀ (pre : List Op) (f : FC) (q : Nat),
    fcOf W H { f with seq := q } pre = { fcOf W H f pre with seq := q } := by
  intro pre
  induction pre with
  | nil => intro f q; rfl
  | cons o os ih =>
    intro f q
    have h1 : applySetter W H { f with seq := q } o = { applySetter W H f o with seq := q } := by
      cases o <;> simp only [applySetter] <;> (repeat' split) <;> rfl
    show fcOf W H (applySetter W H { f with seq := q } o) os = { fcOf W H (applySetter W H f o) os with seq := q }
    rw [h1, ih]

theorem fcOf_seq (W H : Nat) : ∀ (pre : List Op) (f : FC), (fcOf W H f pre).seq = f.seq := by
  intro pre
  induction pre with
  | nil => intro f; rfl
  | cons o os ih => intro f; exact (ih _).trans (applySetter_seq W H f o)

/-- frames after the first image: `(frame control, pieces of the compressed scanline stream, scanline stream)` -/
def decFrames (compress : Bytes → Bytes) (choose : Bytes → Bytes → FilterType) (c : Enc.Cfg) :
    FC → List Frame → List (FrameControl × List Bytes × Bytes)
  | _, [] => []
  | f, fr :: rest =>
    (fcDec (fcOf c.width c.height f fr.pre),
      chunksOf maxFdatChunkLen (compress (rawOf choose (c.sub (fcOf c.width c.height f fr.pre)) fr.data)),
      rawOf choose (c.sub (fcOf c.width c.height f fr.pre)) fr.data) ::
    decFrames compress choose c { fcOf c.width c.height f fr.pre with
      seq := (fcOf c.width c.height f fr.pre).seq + 1 +
        (chunksOf maxFdatChunkLen (compress (rawOf choose (c.sub (fcOf c.width c.height f fr.pre)) fr.data))).length } rest

theorem decFrames_length (compress : Bytes → Bytes) (choose : Bytes → Bytes → FilterType) (c : Enc.Cfg) :
    ∀ (frs : List Frame) (f : FC), (decFrames compress choose c f frs).length = frs.length := by
  intro frs
  induction frs with
  | nil => intro f; rfl
  | cons fr rest ih => intro f; simp [decFrames, ih]

/-- **the chunks of the frames after the first image are `apngFrames`**, numbered from the frame control's sequence number -/
theorem laterChunks_bytes (cfg : Framing.Cfg) (hcrc : ∀ b, cfg.crc b = crcOfList b) (compress : Bytes → Bytes)
    (choose : Bytes → Bytes → FilterType) (c : Enc.Cfg) :
    ∀ (frs : List Frame) (f : FC),
      ((laterChunks (scanCodec compress choose) c f frs).map chunkBytes).flatten =
        apngFrames cfg f.seq (Reader.framesOf (decFrames compress choose c f frs)) := by
  intro frs
  induction frs with
  | nil => intro f; rfl
  | cons fr rest ih =>
    intro f
    have hseq := fcOf_seq c.width c.height fr.pre f
    generalize hf' : fcOf c.width c.height f fr.pre = f' at hseq
    have hfc : ({ fcDec f' with seq := f.seq } : FrameControl) = fcDec f' := by rw [← hseq]; rfl
    simp only [laterChunks, decFrames, Reader.framesOf, List.map_cons, apngFrames, hf', zstream_scanCodec, List.map_append,
      List.flatten_cons, List.flatten_append, hfc]
    rw [hseq, fdatList_bytes cfg hcrc, ih, chunkBytes_eq cfg hcrc, mkFctl_eq]
    simp only [ty_eqs_anim.2.1, Reader.framesOf, List.append_assoc]

/-! ## the file -/

/-- the chunks `encode_header` writes behind `acTL`: `PLTE`, `tRNS`, text chunks -/
def postChunks (c : Enc.Cfg) : List RChunk :=
  optChunk tyPLTE c.palette ++ optChunk tyTRNS c.trns ++ (textPrefix c.texts).1

theorem headerChunks_anim {c : Enc.Cfg} {n plays : Nat} (ha : c.actl = some (n, plays)) (hmd : preChunks c.md = []) :
    headerChunks c = mkIhdr c :: mkActl n plays :: postChunks c := by
  simp [headerChunks, postChunks, ha, hmd]

/-- **the file of an animation whose first frame is the `IDAT` image, as the specification lays it out** -/
theorem animBytes_eq (cfg : Framing.Cfg) (hcrc : ∀ b, cfg.crc b = crcOfList b) (compress : Bytes → Bytes)
    (choose : Bytes → Bytes → FilterType) (c : Enc.Cfg) (n plays : Nat) (ha : c.actl = some (n, plays))
    (hmd : preChunks c.md = []) (f0 : FC) (fr0 : Frame) (frs : List Frame) (hn : n = frs.length + 1)
    (hseq0 : (fcOf c.width c.height f0 fr0.pre).seq = 0) :
    fileBytes (animChunks (scanCodec compress choose) c f0 fr0 frs) =
      wellFormedApng cfg (headerOf c) plays (pairs (postChunks c)) (fcDec (fcOf c.width c.height f0 fr0.pre))
        (chunksOf maxIdatChunkLen (compress (rawOf choose c fr0.data)))
        (Reader.framesOf (decFrames compress choose c { fcOf c.width c.height f0 fr0.pre with seq := 1 } frs)) := by
  have hlen : (Reader.framesOf (decFrames compress choose c { fcOf c.width c.height f0 fr0.pre with seq := 1 } frs)).length =
      frs.length := by simp [Reader.framesOf, decFrames_length]
  have hfc : ({ fcDec (fcOf c.width c.height f0 fr0.pre) with seq := 0 } : FrameControl) =
      fcDec (fcOf c.width c.height f0 fr0.pre) := by rw [← hseq0]; rfl
  simp only [fileBytes, animChunks, wellFormedApng, headerChunks_anim ha hmd, List.map_append, List.map_cons, List.map_nil,
    List.flatten_append, List.flatten_cons, List.flatten_nil, List.append_nil, hlen, hfc, ← hn,
    laterChunks_bytes cfg hcrc compress choose c frs, chunks_eq cfg hcrc, idats_eq, chunkBytes_eq cfg hcrc, signature_eq,
    zstream_scanCodec, mkFctl_eq, mkActl_eq, ty_eqs_anim.1, ty_eqs_anim.2.1, List.append_assoc, List.cons_append]
  rfl

/-- **the file of an animation with a separate default image** -/
theorem animDefaultBytes_eq (cfg : Framing.Cfg) (hcrc : ∀ b, cfg.crc b = crcOfList b) (compress : Bytes → Bytes)
    (choose : Bytes → Bytes → FilterType) (c : Enc.Cfg) (n plays : Nat) (ha : c.actl = some (n, plays))
    (hmd : preChunks c.md = []) (f0 : FC) (fr0 : Frame) (frs : List Frame) (hn : n = frs.length)
    (hseq0 : (fcOf c.width c.height f0 fr0.pre).seq = 0) :
    fileBytes (animDefaultChunks (scanCodec compress choose) c f0 fr0 frs) =
      wellFormedApngDefault cfg (headerOf c) plays (pairs (postChunks c))
        (chunksOf maxIdatChunkLen (compress (rawOf choose c fr0.data)))
        (Reader.framesOf (decFrames compress choose c (fcOf c.width c.height f0 fr0.pre) frs)) := by
  have hlen : (Reader.framesOf (decFrames compress choose c (fcOf c.width c.height f0 fr0.pre) frs)).length =
      frs.length := by simp [Reader.framesOf, decFrames_length]
  simp only [fileBytes, animDefaultChunks, wellFormedApngDefault, headerChunks_anim ha hmd, List.map_append, List.map_cons,
    List.map_nil, List.flatten_append, List.flatten_cons, List.flatten_nil, List.append_nil, hlen, ← hn,
    laterChunks_bytes cfg hcrc compress choose c frs, chunks_eq cfg hcrc, idats_eq, chunkBytes_eq cfg hcrc, signature_eq,
    zstream_scanCodec, mkActl_eq, ty_eqs_anim.1, hseq0, List.append_assoc, List.cons_append]
  rfl

/-! ## the decoder side's hypotheses about the frames -/

theorem fdat_cut (z : Bytes) (hz : z ≠ []) :
    chunksOf maxFdatChunkLen z ≠ [] ∧ (∀ p ∈ chunksOf maxFdatChunkLen z, 4 + p.length < 2 ^ 32) ∧
    (chunksOf maxFdatChunkLen z).flatten = z := by
  refine ⟨chunksOf_ne_nil _ _ hz, ?_, chunksOf_flatten _ (by decide) _⟩
  intro p hp
  have := chunksOf_le _ _ p hp
  have : maxFdatChunkLen + 4 < 2 ^ 32 := by decide
  omega

/-- **every frame after the first image is a frame the decoder side accepts** (`FrameOk`) -/
theorem frameOk_dec (cfg : Framing.Cfg) (compress : Bytes → Bytes) (choose : Bytes → Bytes → FilterType) (c : Enc.Cfg)
    (hd : depthOk c.depth = true) (hnil : ∀ o, cfg.inflate [] ≠ some (o, true)) :
    ∀ (frs : List Frame) (f : FC), FcIn c.width c.height f → FcFine f → LaterOk (scanCodec compress choose) c f frs →
      (∀ x ∈ decFrames compress choose c f frs, cfg.inflate (compress x.2.2) = some (x.2.2, true)) →
      ∀ x ∈ decFrames compress choose c f frs, Reader.FrameOk cfg (headerOf c) x := by
  intro frs
  induction frs with
  | nil => intro f _ _ _ _ x hx; cases hx
  | cons fr rest ih =>
    intro f hin hfine hok hinf x hx
    obtain ⟨hpre, hlen, _, hrest⟩ := hok
    obtain ⟨hin', hfine', _⟩ := fcOf_facts (W := c.width) (H := c.height) fr.pre f hin hfine (fun o ho => (hpre o ho).2)
    simp only [zstream_scanCodec] at hrest
    simp only [decFrames, List.mem_cons] at hx hinf
    generalize hf' : fcOf c.width c.height f fr.pre = f' at *
    rcases hx with rfl | hx
    · have hi := hinf _ (Or.inl rfl)
      simp only at hi
      have hzne : compress (rawOf choose (c.sub f') fr.data) ≠ [] := by
        intro h0; rw [h0] at hi; exact hnil _ hi
      obtain ⟨h1, h2, h3⟩ := fdat_cut _ hzne
      exact ⟨fcOk_dec hin' hfine', h1, h2, by show cfg.inflate (chunksOf _ _).flatten = _; rw [h3]; exact hi,
        by show RawOk ((headerOf c).frame (fcDec f')) _; rw [frame_dec]; exact rawOk_encode choose (c.sub f') hd fr.data hlen⟩
    · exact ih { f' with seq := f'.seq + 1 + (chunksOf maxFdatChunkLen (compress (rawOf choose (c.sub f') fr.data))).length }
        hin' hfine' hrest (fun y hy => hinf y (Or.inr hy)) x hx

/-- the sequence numbers of the frames stay below `2^32` -/
theorem seq_sum_lt (compress : Bytes → Bytes) (choose : Bytes → Bytes → FilterType) (c : Enc.Cfg) :
    ∀ (frs : List Frame) (f : FC), f.seq < 2 ^ 32 → LaterOk (scanCodec compress choose) c f frs →
      f.seq + ((decFrames compress choose c f frs).map fun x => 1 + x.2.1.length).sum < 2 ^ 32 := by
  intro frs
  induction frs with
  | nil => intro f h _; simpa [decFrames] using h
  | cons fr rest ih =>
    intro f _ hok
    obtain ⟨_, _, hseq, hrest⟩ := hok
    simp only [zstream_scanCodec] at hseq hrest
    have hs := fcOf_seq c.width c.height fr.pre f
    have := ih _ (by show (fcOf c.width c.height f fr.pre).seq + 1 + _ < 2 ^ 32; exact hseq) hrest
    simp only [decFrames, List.map_cons, List.sum_cons]
    rw [← hs]
    simp only at this
    omega

/-- the line sizes of the frames after the first image (each `read_until_image_data` reserves one) -/
def lineSum (c : Enc.Cfg) : FC → List Frame → Nat
  | _, [] => 0
  | f, fr :: rest => (c.sub (fcOf c.width c.height f fr.pre)).rowLen + lineSum c (fcOf c.width c.height f fr.pre) rest

theorem lineSum_setSeq (c : Enc.Cfg) : ∀ (frs : List Frame) (f : FC) (q : Nat), lineSum c { f with seq := q } frs = lineSum c f frs := by
  intro frs
  induction frs with
  | nil => intro f q; rfl
  | cons fr rest ih =>
    intro f q
    simp only [lineSum, fcOf_setSeq, ih]
    rfl

theorem lineSum_dec (compress : Bytes → Bytes) (choose : Bytes → Bytes → FilterType) (c : Enc.Cfg) (hd : depthOk c.depth = true) :
    ∀ (frs : List Frame) (f : FC),
      ((decFrames compress choose c f frs).map fun x => ((headerOf c).frame x.1).lineSize).sum = lineSum c f frs := by
  intro frs
  induction frs with
  | nil => intro f; rfl
  | cons fr rest ih =>
    intro f
    simp only [decFrames, List.map_cons, List.sum_cons, lineSum, ih, lineSum_setSeq, frame_dec]
    rw [headerOf_lineSize (c := c.sub (fcOf c.width c.height f fr.pre)) hd]

/-- at most one line of the canvas per frame -/
theorem lineSum_le (c : Enc.Cfg) (hd : depthOk c.depth = true) :
    ∀ (frs : List Frame) (f : FC), FcIn c.width c.height f → lineSum c f frs ≤ frs.length * c.rowLen := by
  intro frs
  induction frs with
  | nil => intro f _; simp [lineSum]
  | cons fr rest ih =>
    intro f hin
    have hin' := fcOf_in (W := c.width) (H := c.height) fr.pre f hin
    have h1 := rowLen_sub_le (c := c) hd (f := fcOf c.width c.height f fr.pre) (by have := hin'.2.2.1; omega)
    have h2 := ih _ hin'
    simp only [lineSum, List.length_cons, Nat.succ_mul]
    omega

/-! ## the results -/

/-- **the specification's pixels of a frame in the image's buffer**: the frame's data, then what the buffer held -/
theorem specFrame_encode (choose : Bytes → Bytes → FilterType) (c : Enc.Cfg) (hd : depthOk c.depth = true) (f : FC) (data : Bytes)
    (hlen : data.length = (c.sub f).rowLen * f.h) (B : Nat) (p : UInt8) :
    specFrame ((headerOf c).frame (fcDec f)) (rawOf choose (c.sub f) data) (List.replicate B p) =
      some (data ++ List.replicate (B - data.length) p) := by
  rw [frame_dec]
  obtain ⟨h1, _⟩ := specScanlines_encode choose (c.sub f) hd data hlen
  have h2 := rowsOf_flatten (c.sub f).rowLen (c.sub f).height data hlen
  have hb : (headerOf (c.sub f)).bufferSize = data.length := by
    show (headerOf (c.sub f)).lineSize * f.h = _
    rw [headerOf_lineSize (c := c.sub f) hd, hlen]
  unfold specFrame
  rw [show (headerOf (c.sub f)).interlaced = false from rfl]
  simp only [Bool.false_eq_true, if_false, h1, hb, List.drop_replicate]
  rw [show (rowsOfCfg (c.sub f) data).flatten = data from h2]

/-- what `next_frame` returns for the frames after the first image: the geometry of the frame control in effect, the frame's
    data at the start of the buffer, the pre-fill behind it -/
def frameResults (c : Enc.Cfg) : FC → List Frame → List UInt8 → List Reader.Res
  | f, fr :: rest, p :: ps =>
    .frame { width := (fcOf c.width c.height f fr.pre).w, height := (fcOf c.width c.height f fr.pre).h, color := c.color,
             depth := c.depth, lineSize := (c.sub (fcOf c.width c.height f fr.pre)).rowLen }
      (fr.data ++ List.replicate (c.rowLen * c.height - fr.data.length) p) ::
    frameResults c (fcOf c.width c.height f fr.pre) rest ps
  | _, _, _ => []

theorem frameResults_setSeq (c : Enc.Cfg) : ∀ (frs : List Frame) (f : FC) (q : Nat) (ps : List UInt8),
    frameResults c { f with seq := q } frs ps = frameResults c f frs ps := by
  intro frs
  induction frs with
  | nil => intro f q ps; rfl
  | cons fr rest ih =>
    intro f q ps
    cases ps with
    | nil => rfl
    | cons p ps =>
      simp only [frameResults, fcOf_setSeq, ih]
      rfl

/-- `FramesOk` of the decoder side, made explicit -/
theorem framesOk_results (compress : Bytes → Bytes) (choose : Bytes → Bytes → FilterType) (c : Enc.Cfg)
    (hd : depthOk c.depth = true) :
    ∀ (frs : List Frame) (f : FC) (ps : List UInt8) (rs : List Reader.Res),
      LaterOk (scanCodec compress choose) c f frs →
      Reader.FramesOk (headerOf c) (decFrames compress choose c f frs) ps rs → rs = frameResults c f frs ps := by
  intro frs
  induction frs with
  | nil =>
    intro f ps rs _ h
    cases ps <;> cases rs <;> simp only [decFrames, Reader.FramesOk] at h <;> first | rfl | exact h.elim
  | cons fr rest ih =>
    intro f ps rs hok h
    obtain ⟨_, hlen, _, hrest⟩ := hok
    simp only [zstream_scanCodec] at hrest
    cases ps with
    | nil => cases rs <;> (simp [decFrames, Reader.FramesOk] at h)
    | cons p ps =>
      cases rs with
      | nil => simp [decFrames, Reader.FramesOk] at h
      | cons r rs =>
        simp only [decFrames, Reader.FramesOk] at h
        obtain ⟨⟨buf, hr, hspec, _⟩, hfo⟩ := h
        rw [specFrame_encode choose c hd _ fr.data hlen] at hspec
        cases hspec
        have := ih _ ps rs hrest hfo
        rw [frameResults_setSeq] at this
        have hB : (headerOf c).bufferSize = c.rowLen * c.height := by
          show (headerOf c).lineSize * c.height = _
          rw [headerOf_lineSize hd]
        rw [hr, this]
        simp only [frameResults, frame_dec, headerOf_lineSize (c := c.sub (fcOf c.width c.height f fr.pre)) hd, hB]
        rfl

end Png.RoundTrip
