import PngVerif.Proofs.MetaBytesEnc
import PngVerif.Proofs.RoundTripDecode
/-!
# C17 at the byte level, part 6: `read_info` on the file the encoder model writes

`read_info_info`: on a well-formed still image whose chunks before the image data the byte-level machine reads as
`AncChunksG … dA`, `read_info` succeeds and the `Info` the reader then holds is `dA.info` (`Reader.readInfo_wf`; only public
lemmas of the `Reader` proofs are used).  `file_read_info`: the bytes in the sink after `write_header`,
`write_image_data(data)`, `finish` (`RoundTrip.encoded`) for the writer configuration `encCfg z m …` of a still metadata
configuration `m`: `read_info` leaves `expectedInfo m` and the text chunks of `m` (`header_bytes`).
-/
namespace Png.MetaBytes
open Png Png.Framing Png.EncodeMeta Png.WellFormed Png.RoundTrip Png.Val Png.Enc Png.Reader

/-- **`read_info` on a well-formed still image returns the `Info` the stream decoder built from the chunks before the image
    data** -/
theorem read_info_info (cfg : Framing.Cfg) (t : TCfg) (f : Flags) (opts : Options) (limit : Nat) (h : Header)
    (cs : List (ChunkType × Bytes)) (dA : Dec) (zs : List Bytes) (raw : Bytes) (post : List (ChunkType × Bytes))
    (hI : cfg.InflateOk) (hC : cfg.CrcOk) (ht : t.IsIdentity f) (hv : h.Valid)
    (hcs : AncChunksG cfg (afterIhdr cfg opts limit h) cs dA)
    (hzs : zs ≠ []) (hlen : ∀ z ∈ zs, z.length < 2 ^ 32) (hinf : cfg.inflate zs.flatten = some (raw, true))
    (hpost : ∀ c ∈ post, c.1 ≠ IDAT ∧ c.1 < 2 ^ 32 ∧ c.2.length < 2 ^ 32)
    (hsize : h.lineSize * h.height < 2 ^ 64) (hlimit : h.lineSize ≤ dA.limit) :
    ∃ r i,
      Reader.run cfg t
        (R.init opts limit f (wellFormedStill cfg h cs zs post) (wellFormedStill cfg h cs zs post).length)
        [.readInfo] = (r, [.header]) ∧
      r.dec.info = some i ∧ dA.info = some i := by
  obtain ⟨hanc, hidle, _⟩ := C01.ancillary_chunks_ok_any_length cfg hC opts limit h cs dA hcs
  obtain ⟨len', t', rest', htail, h1, h2, h3⟩ := C01.tail_shape cfg post hpost
  cases zs with
  | nil => exact absurd rfl hzs
  | cons z zs =>
    have hfile : wellFormedStill cfg h cs (z :: zs) post =
        signature ++ (chunk cfg IHDR h.body ++ (chunks cfg cs ++ (idats cfg (z :: zs) ++
          (be32Bytes len' ++ typeBytes t' ++ rest')))) := by
      rw [← htail]; simp only [wellFormedStill, List.append_assoc]
    rw [hfile]
    obtain ⟨r, i, N, dEnd, hri, hR, hcore, hfctl, _, _, _, _, _, hdA, _⟩ :=
      readInfo_wf cfg hI hC ht opts limit h hv (chunks cfg cs) dA none hanc hidle z zs raw (hlen z (by simp))
        (fun z' hz' => hlen z' (by simp [hz'])) hinf len' t' rest' h1 h2 h3 hsize
        (fun j hc hf => by rw [hdrOf_eq hc hf]; exact hlimit)
    obtain ⟨pend, hP, _⟩ := hR.pend
    refine ⟨r, i, ?_, hP.info, hdA⟩
    generalize (signature ++ (chunk cfg IHDR h.body ++ (chunks cfg cs ++ (idats cfg (z :: zs) ++
      (be32Bytes len' ++ typeBytes t' ++ rest'))))) = file at hri ⊢
    have hdead : (R.init opts limit f file file.length).dead = false := rfl
    generalize R.init opts limit f file file.length = r0 at hri hdead ⊢
    have hs1 : Reader.step cfg t r0 .readInfo = (r, .header) := by
      show (if r0.dead then _ else readInfo cfg t r0) = _
      rw [hdead]; exact hri
    simp [Reader.run, hs1]

/-- the writer configuration of a still metadata configuration is one the writer accepts -/
theorem encCfg_still (z : ZCodec) (m : MetaConfig) (sep validate : Bool) (hr : m.InRange) (cs : List Chunk)
    (h : encodeHeaderChunks z m = .ok cs) (ha : m.actl = none) (hpal : m.color = 3 → m.palette.isSome = true) :
    (encCfg z m none sep validate).Still := by
  obtain ⟨hw0, hh0, hcomb, _⟩ := writeHeader_ok z m cs h
  obtain ⟨rw_, rh, rd, rc, _⟩ := hr
  exact ⟨ha, rfl, hw0, hh0, rw_, rh, rc, rd, hcomb, hpal,
    (encCfg_headerChunks z m none sep validate ⟨rw_, rh, rd, rc, by assumption⟩ cs h).2⟩

/-- **`read_info` on a still file with the header chunks of `m`, any cut of any complete zlib stream into `IDAT` chunks** -/
theorem stillChunks_read_info (cfg : Framing.Cfg) (t : TCfg) (f : Flags) (opts : Options) (limit : Nat) (z : ZCodec)
    (m : MetaConfig) (sep validate : Bool) (zs : List Bytes) (raw : Bytes)
    (hI : cfg.InflateOk) (hcrc : ∀ b, cfg.crc b = crcOfList b) (ht : t.IsIdentity f)
    (hz : z.Ok) (hc : CfgAgrees cfg z) (hpe : parseEmptyChunks = true)
    (hr : m.InRange) (cs : List Chunk) (h : encodeHeaderChunks z m = .ok cs) (hlen32 : ∀ c ∈ cs, c.2.length < 2 ^ 32)
    (ha : m.actl = none) (hpal : m.color = 3 → m.palette.isSome = true)
    (ho1 : opts.ignoreText = false) (ho2 : opts.ignoreIccp = false)
    (hzs : zs ≠ []) (hzl : ∀ z' ∈ zs, z'.length < 2 ^ 32) (hinf : cfg.inflate zs.flatten = some (raw, true))
    (hsz : (encCfg z m none sep validate).rowLen * m.height < 2 ^ 64)
    (hlimit : (encCfg z m none sep validate).rowLen + m.budget z + 3 * bodyBytes cs.tail ≤ limit) :
    ∃ r tcs,
      Reader.run cfg t
        (R.init opts limit f (fileBytes (stillChunks (encCfg z m none sep validate) zs))
          (fileBytes (stillChunks (encCfg z m none sep validate) zs)).length)
        [.readInfo] = (r, [.header]) ∧
      r.dec.info = some { expectedInfo m with text := tcs } ∧ tcs.map viewText = expectedViews z m := by
  generalize hcdef : encCfg z m none sep validate = c at *
  have hs : c.Still := by rw [← hcdef]; exact encCfg_still z m sep validate hr cs h ha hpal
  have hC := crcOk_of_eq cfg hcrc
  have hhdr : headerOf c = hdrOf m := by rw [← hcdef]; rfl
  rw [fileBytes_stillChunks cfg hcrc, hhdr]
  -- the chunks before the image data
  obtain ⟨rest, dA, tcs, hshape, hchain, hinfo, hviews, _, _, _, hlow, _⟩ :=
    header_bytes cfg z hz hc m hr cs h hlen32 hpe opts ho1 ho2 limit (by omega)
  have hpairs : pairs (metaChunks c) = rest := by
    have h1 := (encCfg_headerChunks z m none sep validate hr cs h).1
    rw [hcdef, headerChunks_still hs.actl, hshape] at h1
    simp only [pairs, List.map_cons, List.cons.injEq] at h1
    exact h1.2
  rw [hpairs]
  have htl : cs.tail = rest := by rw [hshape]; rfl
  rw [htl] at hlimit
  have hls := headerOf_lineSize (c := c) hs.depth
  rw [hhdr] at hls
  have hv : (hdrOf m).Valid := by rw [← hhdr]; exact headerOf_valid hs
  obtain ⟨r, i, hrun, hri, hdAi⟩ := read_info_info cfg t f opts limit (hdrOf m) rest dA zs raw []
    hI hC ht hv hchain hzs hzl hinf (fun _ hc' => by cases hc')
    (by rw [hls]; show c.rowLen * m.height < 2 ^ 64; exact hsz) (by rw [hls]; omega)
  refine ⟨r, tcs, hrun, ?_, hviews⟩
  rw [hri, ← hdAi, hinfo]

/-- **`read_info` on the encoder model's file**: see `C17.C17_file_roundtrip` -/
theorem file_read_info (cfg : Framing.Cfg) (t : TCfg) (f : Flags) (opts : Options) (limit : Nat) (z : ZCodec)
    (compress : Bytes → Bytes) (choose : Bytes → Bytes → FilterType) (m : MetaConfig) (sep validate : Bool) (data : Bytes)
    (hI : cfg.InflateOk) (hcrc : ∀ b, cfg.crc b = crcOfList b) (ht : t.IsIdentity f)
    (hz : z.Ok) (hc : CfgAgrees cfg z) (hpe : parseEmptyChunks = true)
    (hr : m.InRange) (cs : List Chunk) (h : encodeHeaderChunks z m = .ok cs) (hlen32 : ∀ c ∈ cs, c.2.length < 2 ^ 32)
    (ha : m.actl = none) (hpal : m.color = 3 → m.palette.isSome = true)
    (ho1 : opts.ignoreText = false) (ho2 : opts.ignoreIccp = false)
    (hlen : data.length = (encCfg z m none sep validate).rowLen * m.height)
    (hsz : (encCfg z m none sep validate).rowLen * m.height < 2 ^ 64)
    (hnil : ∀ o, cfg.inflate [] ≠ some (o, true))
    (hinf : cfg.inflate (compress (rawOf choose (encCfg z m none sep validate) data)) =
      some (rawOf choose (encCfg z m none sep validate) data, true))
    (hlimit : (encCfg z m none sep validate).rowLen + m.budget z + 3 * bodyBytes cs.tail ≤ limit) :
    ∃ r tcs,
      Reader.run cfg t
        (R.init opts limit f (encoded compress choose (encCfg z m none sep validate) data)
          (encoded compress choose (encCfg z m none sep validate) data).length)
        [.readInfo] = (r, [.header]) ∧
      r.dec.info = some { expectedInfo m with text := tcs } ∧ tcs.map viewText = expectedViews z m := by
  have hs := encCfg_still z m sep validate hr cs h ha hpal
  have hzne : compress (rawOf choose (encCfg z m none sep validate) data) ≠ [] := by
    intro h0; rw [h0] at hinf; exact hnil _ hinf
  obtain ⟨z1, z2, z3⟩ := idat_cut _ hzne
  rw [encoded_eq compress choose _ data hs hlen hsz]
  exact stillChunks_read_info cfg t f opts limit z m sep validate _ _ hI hcrc ht hz hc hpe hr cs h hlen32 ha hpal ho1 ho2
    z1 z2 (by rw [z3]; exact hinf) hsz hlimit

end Png.MetaBytes
