import PngVerif.Proofs.RoundTripAnimStreamDecode
/-!
# C03 end to end for animations with a SEPARATE DEFAULT IMAGE (`sepDefImg`) through ONE owned `StreamWriter`

The first image of the session is the default image: plain `IDAT` chunks, no `fcTL` (`skipFctlOnDefault`); the `n` frames of
the animation follow as `fcTL` + `fdAT` chunks, the first of them with the sequence number 0.  `SW.new_anim`, `frame_writes` and
`stream_later_run` (`Proofs/RoundTripAnimStream{Enc,Run}.lean`) are used as they are; new here are the `Writer` after the default
image for any cut (`emitImage_default_cut`), the session (`anim_default_stream_log`), the layout (`sAnimDefaultBytes_eq`,
`Reader.apngDefaultFile`) and the composition through `Reader.apng_default_wf_gen`.
-/
namespace Png.Enc
open Png Png.Val

/-- **the default image of an animation with a separate default image, any cut `ds`**: `IDAT` chunks, no `fcTL`; the frame control
    and the frame counter stay -/
theorem emitImage_default_cut (c : Cfg) (n plays : Nat) (ha : c.actl = some (n, plays)) (hsep : c.sepDefImg = true)
    (s : WState) (hs : AnimSt c s) (f : FC) (hf : s.fctl = some f)
    (hk : s.imagesWritten = 0) (han : s.animWritten = 0) (ds pf : List Bytes) :
    ∃ s', emitImage s ds pf = (s', .ok) ∧ AnimSt c s' ∧ s'.imagesWritten ≠ 0 ∧ s'.animWritten = 0 ∧
      s'.fctl = (if n ≤ 0 then none else some f) ∧
      s'.sink.log = s.sink.log ++ (ds.map mkIdat).map fullEmit := by
  obtain ⟨e1, e2, e3, e4, e5, _, e7, _⟩ := hs.static
  simp only [initState] at e5 e7
  have hskip : skipFctlOnDefault s = true := by
    simp only [skipFctlOnDefault, e7, hsep, hk, Bool.true_and, beq_self_eq_true]
  obtain ⟨l2, g2⟩ := Sink.emitChunks_good_log (ds.map mkIdat) hs.good
  have himg : emitImage s ds pf = (incrementImagesWritten { s with sink := (s.sink.emitChunks (ds.map mkIdat)).1 }, .ok) := by
    have he : emitImage s ds pf = emitIdatImage s ds := by
      simp only [emitImage, hf, hskip, if_true]
    rw [he]
    exact emitIdatImage_good_eq hs.good _
  generalize hs2 : ({ s with sink := (s.sink.emitChunks (ds.map mkIdat)).1 } : WState) = s2 at himg
  obtain ⟨i1, i2, i3, i4, i5⟩ := incr_fields s2
  have hactl2 : s2.actl = some (n, plays) := by rw [← hs2]; show s.actl = _; rw [e5]; exact ha
  refine ⟨_, himg, ⟨StaticEq.trans (StaticEq.trans hs.static (by rw [← hs2]; exact ⟨rfl, rfl, rfl, rfl, rfl, rfl, rfl, rfl⟩)) i5,
    by rw [i1, ← hs2]; exact g2, by rw [i2, ← hs2]; exact hs.iend⟩, ?_, by rw [i3, ← hs2]; exact han, ?_, ?_⟩
  · rw [i4]; exact min_succ_ne_zero _
  · rw [incr_fctl_some s2 n plays hactl2, ← hs2]
    show (if n ≤ s.animWritten then none else s.fctl) = _
    rw [han, hf]
  · rw [i1, ← hs2]
    exact l2

end Png.Enc

namespace Png.RoundTrip
open Png Png.Val Png.Enc Png.Framing Png.Reader Png.WellFormed

/-- the chunks of a stream-writer animation with a separate default image: header chunks, `IDAT` chunks `ds0`, the frames,
    `IEND` -/
def sAnimDefaultChunks (c : Enc.Cfg) (ds0 : List Bytes) (gs : List (FC × List Bytes × Bytes)) : List RChunk :=
  headerChunks c ++ ds0.map mkIdat ++ gChunks gs ++ [iendChunk]

/-- **the whole session with a separate default image**: `write_header`, `into_stream_writer_with_size(size)`, the default image
    and the `n` frames (`sOps`), `finish`, on a sink that never fails -/
theorem anim_default_stream_log (E : Codec) (compress : Bytes → Bytes) (chooseZ : Bytes → Bytes → FilterType) (c : Enc.Cfg)
    (n plays : Nat) (f0 : FC) (hc : c.Anim n plays f0) (hsep : c.sepDefImg = true)
    (hcov : f0.x = 0 ∧ f0.y = 0 ∧ f0.w = c.width ∧ f0.h = c.height) (size : Nat)
    (fr0 : SFrame) (frs : List SFrame) (hn : n = frs.length)
    (hlen0 : fr0.pieces.flatten.length = c.rowLen * c.height)
    (hl : SLaterOk c (fcOfS c.width c.height f0 fr0.pre) frs) (hsz : c.rowLen * c.height < 2 ^ 64)
    (hbud : sBudget compress chooseZ c (fcOfS c.width c.height f0 fr0.pre) frs < 2 ^ 32) :
    (runProg E (scanZ compress chooseZ) c {} [] (.intoStream size (sOps (fr0 :: frs)) .finish)).header = .ok ∧
    (∃ rs, (runProg E (scanZ compress chooseZ) c {} [] (.intoStream size (sOps (fr0 :: frs)) .finish)).final =
        .ok :: rs ++ [.ok] ∧ SResOk (sOps (fr0 :: frs)) rs) ∧
    ∃ ds0 gs,
      (runProg E (scanZ compress chooseZ) c {} [] (.intoStream size (sOps (fr0 :: frs)) .finish)).state.sink.log =
        sigEmit :: (sAnimDefaultChunks c ds0 gs).map fullEmit ∧
      (∀ d ∈ ds0, d ≠ []) ∧ (∀ d ∈ ds0, d.length ≤ max (min chunkCap size) streamMinBuffer) ∧
      ds0.flatten = compress (rawOf (chooseFirst chooseZ) c fr0.pieces.flatten) ∧
      GsOk compress chooseZ c (max (min chunkCap size) streamMinBuffer) (fcOfS c.width c.height f0 fr0.pre) 0 frs gs := by
  generalize hZ : scanZ compress chooseZ = Z
  generalize hcapx : max (min chunkCap size) streamMinBuffer = capx
  have hcap : 5 ≤ capx := by rw [← hcapx]; exact Nat.le_max_right _ _
  obtain ⟨w0, hh, hw0, hlog0, hi0, han0, hf0⟩ := writeHeader_anim c n plays f0 hc
  obtain ⟨s0, wH, hnew, hfs0, ho0, hfc0, hwd0, hht0⟩ := SW.new_anim Z c n plays f0 hc hcov w0 hw0 hi0 han0 hf0 hsz true size
  rw [hcapx] at hfs0
  obtain ⟨rsA, hrunA, hresA, hlenA⟩ := sets_run Z fr0.pre s0 f0 hfc0 (by rw [hwd0, hht0]; exact hc.rect)
  have hfcs : fcOfS s0.width s0.height f0 fr0.pre = fcOfS c.width c.height f0 fr0.pre := by rw [hwd0, hht0]
  rw [hfcs] at hrunA
  have hin' : FcIn c.width c.height (fcOfS c.width c.height f0 fr0.pre) := fcOf_in _ f0 hc.rect
  generalize hg' : fcOfS c.width c.height f0 fr0.pre = g' at *
  have hfsA := hfs0.setFctl (some g')
  generalize hsA : ({ s0 with fctl := some g' } : SW) = sA at hrunA hfsA
  -- the default image
  have hsub : c.sub f0 = c := sub_cover c f0 hcov.2.2.1 hcov.2.2.2
  obtain ⟨s2, curr2, ds0, hrun2, hwr2, hok2, hcut, hlens, htw2, hidx2, hrel2, ho2, hkeep2⟩ :=
    frame_writes Z c capx sA w0 wH false f0 hfsA fr0.pieces fr0.pieces.flatten rfl (by rw [hsub, hcov.2.2.2]; exact hlen0)
  subst hZ
  obtain ⟨hne0, hflat0⟩ := cutOf_scanZ hcut
  rw [hsub] at hflat0
  obtain ⟨w1, hem, hw1, hk1, han1, hf1, hl1⟩ := emitImage_default_cut c n plays hc.actl hsep w0 hw0 f0 hf0 hi0 han0 ds0 ds0
  have hw1e : (emitImage w0 ds0 ds0).1 = w1 := by rw [hem]
  rw [hw1e] at hwr2
  have hb2 : BetweenS c capx s2 w1 g' := by
    obtain ⟨k1, k2, k3, k4⟩ := hkeep2
    refine ⟨⟨curr2, hwr2⟩, htw2, hidx2, hrel2, ?_, ?_, ?_, ?_, ?_⟩
    · rw [ho2, ← hsA]; exact ho0
    · rw [k4, hfsA.bpp]
    · rw [k2, ← hsA]; exact hwd0
    · rw [k3, ← hsA]; exact hht0
    · rw [k1, ← hsA]
  -- the frames
  obtain ⟨s3, w3, g3, gs, rs3, hrun3, hres3, hb3, hw3, hk3, hf3, hl3, hgs3⟩ :=
    stream_later_run compress chooseZ c n plays hc.color hc.depth hc.actl hc.nlt hsz capx hcap frs s2 w1 g'
      f0 hb2 hw1 hk1 (by rw [hf1, han1]) hin' (by rw [han1, hn]; omega) hl
      (by rw [hc.seq0]; omega)
  rw [hc.seq0] at hgs3
  -- `finish`
  obtain ⟨curr3, hwr3⟩ := hb3.wr
  have hv3 : validateSequenceDone w3 = none := by
    unfold validateSequenceDone
    cases w3.validate <;> simp [hf3, hk3]
  obtain ⟨f1, f2⟩ := finish_between (Z := scanZ compress chooseZ) hwr3 hb3.idx hb3.tw hw3.good hw3.iend w0
  rw [hv3] at f1 f2
  simp only [hb3.own, if_true] at f2
  obtain ⟨wi, _⟩ := writeIend_good hw3.good
  have hdrop : dropW w3 = { w3 with iendWritten := true, sink := (w3.sink.emitChunks [iendChunk]).1 } := by
    simp [dropW, hw3.iend, wi]
  obtain ⟨l4, _⟩ := Sink.emitChunks_good_log [iendChunk] hw3.good
  -- the whole run
  have hresW := sResOk_writes fr0.pieces
  have hresS := sResOk_sets fr0.pre rsA hresA hlenA
  have hops : sOps (fr0 :: frs) = fr0.pre.map SOp.set ++ (fr0.pieces.map SOp.write ++ sOps frs) := by
    simp [sOps, SFrame.ops]
  have hall : runSOps (scanZ compress chooseZ) s0 (sOps (fr0 :: frs)) =
      (s3, rsA ++ ((fr0.pieces.map fun _ => Res.ok) ++ rs3)) := by
    rw [hops, runSOps_append _ _ _ s0 sA rsA hrunA hresS.anyPanic, runSOps_append _ _ _ sA s2 _ hrun2 hresW.anyPanic, hrun3]
  have hresAll : SResOk (sOps (fr0 :: frs)) (rsA ++ ((fr0.pieces.map fun _ => Res.ok) ++ rs3)) := by
    rw [hops]; exact hresS.append (hresW.append hres3)
  have hprog : runProg E (scanZ compress chooseZ) c {} [] (.intoStream size (sOps (fr0 :: frs)) .finish) =
      { state := (s3.finish (scanZ compress chooseZ)).1.writerState w0, header := .ok, results := [],
        final := .ok :: (rsA ++ ((fr0.pieces.map fun _ => Res.ok) ++ rs3)) ++ [(s3.finish (scanZ compress chooseZ)).2] } := by
    simp only [runProg, hh, runSteps, List.any_nil, Bool.false_eq_true, if_false, streamSession, hnew, hall, hresAll.anyPanic]
  rw [hprog]
  refine ⟨rfl, ⟨_, by simp only [f1], hresAll⟩, ds0, gs, ?_, hne0, ?_, hflat0, hgs3⟩
  · show ((s3.finish (scanZ compress chooseZ)).1.writerState w0).sink.log = _
    rw [f2]
    show ((dropW w3).sink.flush).1.log = _
    rw [(flush_log _).1, hdrop]
    show (w3.sink.emitChunks [iendChunk]).1.log = _
    rw [l4, hl3, hl1, hlog0]
    simp [sAnimDefaultChunks]
  · intro d hd
    have := hlens (mkIdat d) (by simp only [dataChunks, Bool.false_eq_true, if_false]; exact List.mem_map_of_mem hd)
    exact this

/-- **the file of a stream-writer animation with a separate default image, as the specification lays it out** -/
theorem sAnimDefaultBytes_eq (cfg : Framing.Cfg) (hcrc : ∀ b, cfg.crc b = crcOfList b) (compress : Bytes → Bytes)
    (chooseZ : Bytes → Bytes → FilterType) (c : Enc.Cfg) (n plays : Nat) (ha : c.actl = some (n, plays)) (capx : Nat)
    (ds0 : List Bytes) (g : FC) (frs : List SFrame) (gs : List (FC × List Bytes × Bytes))
    (hgs : GsOk compress chooseZ c capx g 0 frs gs) :
    fileBytes (sAnimDefaultChunks c ds0 gs) =
      apngDefaultFile cfg (headerOf c) (ancBytes cfg c n plays) ds0 (framesOf (gDec (chooseFirst chooseZ) c gs)) := by
  simp only [fileBytes, sAnimDefaultChunks, apngDefaultFile, ancBytes, headerChunks_animMeta ha, List.map_append, List.map_cons,
    List.map_nil, List.flatten_append, List.flatten_cons, List.flatten_nil, List.append_nil,
    gChunks_bytes cfg hcrc compress chooseZ c capx frs gs g 0 hgs, chunks_eq cfg hcrc, idats_eq, chunkBytes_eq cfg hcrc,
    signature_eq, mkActl_eq, ty_eqs_anim.1, List.append_assoc, List.cons_append]
  rfl

/-- **the composition for an animation with a separate default image written through one owned stream writer** (any
    metadata) -/
theorem anim_default_stream_encode_decode_core (cfg : Framing.Cfg) (t : TCfg) (f : Flags) (opts : Options) (limit P : Nat)
    (E : Codec) (compress : Bytes → Bytes) (chooseZ : Bytes → Bytes → FilterType) (c : Enc.Cfg) (n plays : Nat) (f0 : FC)
    (size : Nat) (fr0 : SFrame) (frs : List SFrame) (p0 : UInt8) (ps : List UInt8) (q : UInt8)
    (hI : cfg.InflateOk) (hcrc : ∀ b, cfg.crc b = crcOfList b) (ht : t.IsIdentity f)
    (hc : c.Anim n plays f0) (hsep : c.sepDefImg = true) (hm : MetaOk cfg opts.ignoreText P c)
    (hcov : f0.x = 0 ∧ f0.y = 0 ∧ f0.w = c.width ∧ f0.h = c.height)
    (hn : n = frs.length) (hpre0 : ∀ o ∈ fr0.pre, o.inRange)
    (hlen0 : fr0.pieces.flatten.length = c.rowLen * c.height)
    (hl : SLaterOk c (fcOfS c.width c.height f0 fr0.pre) frs) (hsz : c.rowLen * c.height < 2 ^ 64)
    (hbud : sBudget compress chooseZ c (fcOfS c.width c.height f0 fr0.pre) frs < 2 ^ 32)
    (hnil : ∀ o, cfg.inflate [] ≠ some (o, true))
    (hinf0 : cfg.inflate (compress (rawOf (chooseFirst chooseZ) c fr0.pieces.flatten)) =
      some (rawOf (chooseFirst chooseZ) c fr0.pieces.flatten, true))
    (hinf : ∀ raw ∈ sRaws chooseZ c (fcOfS c.width c.height f0 fr0.pre) frs, cfg.inflate (compress raw) = some (raw, true))
    (hlimit : c.rowLen + sLineSum c (fcOfS c.width c.height f0 fr0.pre) frs + metaCost P c ≤ limit)
    (hps : ps.length = frs.length) :
    (Reader.run cfg t
      (R.init opts limit f (encodedAnimStream E compress chooseZ c size (fr0 :: frs))
        (encodedAnimStream E compress chooseZ c size (fr0 :: frs)).length)
      (.readInfo :: .nextFrame p0 :: (ps.map Op.nextFrame ++ [.nextFrame q]))).2 =
      .header :: .frame { width := c.width, height := c.height, color := c.color, depth := c.depth,
                          lineSize := c.rowLen } fr0.pieces.flatten ::
        (sFrameResults c (fcOfS c.width c.height f0 fr0.pre) frs ps ++ [.err .parameter "PolledAfterEndOfImage"]) := by
  have hC := crcOk_of_eq cfg hcrc
  obtain ⟨_, _, ds0, gs, hlog, hne0, hlens0, hflat0, hgs⟩ :=
    anim_default_stream_log E compress chooseZ c n plays f0 hc hsep hcov size fr0 frs hn hlen0 hl hsz hbud
  generalize hcapx : max (min chunkCap size) streamMinBuffer = capx at hlens0 hgs
  have hcapLe : capx ≤ chunkCap := by
    rw [← hcapx]
    have : streamMinBuffer ≤ chunkCap := by decide
    omega
  have hfile : encodedAnimStream E compress chooseZ c size (fr0 :: frs) = _ :=
    ((bytes_of_fullLog _ _ hlog).1).trans
      (sAnimDefaultBytes_eq cfg hcrc compress chooseZ c n plays hc.actl capx ds0 _ frs gs hgs)
  rw [hfile]
  obtain ⟨hin', hfine', _⟩ := fcOf_facts (W := c.width) (H := c.height) (fr0.pre.map SetOp.toOp) f0 hc.rect hc.fine
    (fun o ho => by
      obtain ⟨so, hso, rfl⟩ := List.mem_map.mp ho
      exact SetOp.toOp_inRange so (hpre0 so hso))
  have hg' : fcOf c.width c.height f0 (fr0.pre.map SetOp.toOp) = fcOfS c.width c.height f0 fr0.pre := rfl
  rw [hg'] at hin' hfine'
  generalize hgg : fcOfS c.width c.height f0 fr0.pre = g' at *
  have hzne : compress (rawOf (chooseFirst chooseZ) c fr0.pieces.flatten) ≠ [] := by
    intro z0; rw [z0] at hinf0; exact hnil _ hinf0
  have hds0 : ds0 ≠ [] := by
    intro h0; rw [h0] at hflat0; exact hzne hflat0.symm
  have hdl : (gDec (chooseFirst chooseZ) c gs).length = frs.length := by
    rw [gDec_length, gsOk_length compress chooseZ c capx frs gs _ _ hgs]
  obtain ⟨dB, b1, b2, b3, b4, b5, hlim⟩ := meta_accepted_anim cfg hC opts limit P c n plays hc.nlt hc.plt
    (c.rowLen + sLineSum c g' frs) hm hlimit
  have hls := headerOf_lineSize (c := c) hc.depth
  have hseqs := seq_sum_gs compress chooseZ c capx frs gs g' 0 hgs
  obtain ⟨buf0, rs', hrun, hspec, _, hfo⟩ :=
    apng_default_wf_gen cfg hI hC ht opts limit (headerOf c) (valid_of_anim hc) plays (ancBytes cfg c n plays) dB
      (gDec (chooseFirst chooseZ) c gs) b1 b2 b3 b4 (by rw [hdl, ← hn]; exact b5)
      ds0 (rawOf (chooseFirst chooseZ) c fr0.pieces.flatten) hds0
      (fun z hz => by
        have := hlens0 z hz
        have : chunkCap < 2 ^ 32 := by decide
        omega)
      (by rw [hflat0]; exact hinf0)
      (rawOk_encode (chooseFirst chooseZ) c hc.depth fr0.pieces.flatten hlen0)
      (frameOk_gs cfg compress chooseZ c hc.depth hnil capx hcapLe frs gs g' 0 hin' hfine' hl hgs hinf)
      (by omega)
      (by rw [hls]; exact hsz)
      (by
        rw [hls, lineSum_gs compress chooseZ c hc.depth capx frs gs g' 0 hgs]
        exact hlim)
      p0 ps (by rw [hdl]; exact hps) q
  have hrs := framesOk_gs compress chooseZ c hc.depth capx frs gs g' 0 ps rs' hl hgs hfo
  rw [specPixels_encode (chooseFirst chooseZ) c hc.depth fr0.pieces.flatten hlen0] at hspec
  cases hspec
  rw [hrun, hrs, hls]
  rfl

end Png.RoundTrip
