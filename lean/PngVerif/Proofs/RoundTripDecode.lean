import PngVerif.Proofs.RoundTripSpec
import PngVerif.Props.C01Decode
/-!
# C03 end to end: the composition of the encoder model with the decoder model

`decode_stillChunks`: the serialisation (`Val.fileBytes`) of `IHDR`, the metadata chunks of `c`, ANY cut `zs` of a zlib
stream of the encoder's scanline stream into `IDAT` chunks, `IEND` is a well-formed still image in the sense of
`Model/WellFormed.lean` (`fileBytes_stillChunks`), so `C01.C01_decode_chunks_any_length` applies: `read_info` and
`next_frame` succeed and the buffer holds the specification's pixels of the inflated stream, which are `data`
(`specPixels_encode`).  `decode_stillChunks_rows`: the same with `next_row` (`C01.C01_decode_rows`).
`encode_decode_core`: the bytes the sink holds after `write_header`, `write_image_data(data)`, `finish`
(`Proofs/RoundTripEnc.lean`) are such a file.

The chunks between `IHDR` and `IDAT` enter through `AncChunksG` (what `parse_chunk` accepts, chunk by chunk); this
hypothesis is discharged in `Proofs/RoundTripHeader.lean` for everything `encode_header` writes.
-/
namespace Png.RoundTrip
open Png Png.Val Png.Enc Png.Framing Png.Reader Png.WellFormed

/-- the file the encoder model leaves in a sink that never fails -/
def encoded (compress : Bytes → Bytes) (choose : Bytes → Bytes → FilterType) (c : Enc.Cfg) (data : Bytes) : Bytes :=
  (runWriter (scanCodec compress choose) c {} [.image data] .finish).state.sink.bytes

theorem crcOk_of_eq (cfg : Framing.Cfg) (hcrc : ∀ b, cfg.crc b = crcOfList b) : cfg.CrcOk := by
  intro b
  rw [hcrc]
  exact (crc32 (ofList b)).toNat_lt

/-- **decoding a still image of the encoder's shape, any cut of the zlib stream into `IDAT` chunks** -/
theorem decode_stillChunks (cfg : Framing.Cfg) (t : TCfg) (f : Flags) (opts : Options) (limit : Nat)
    (choose : Bytes → Bytes → FilterType) (c : Enc.Cfg) (data : Bytes) (zs : List Bytes) (p : UInt8) (dA : Dec)
    (hI : cfg.InflateOk) (hcrc : ∀ b, cfg.crc b = crcOfList b) (ht : t.IsIdentity f) (hs : c.Still)
    (hlen : data.length = c.rowLen * c.height) (hsz : c.rowLen * c.height < 2 ^ 64)
    (hzs : zs ≠ []) (hzl : ∀ z ∈ zs, z.length < 2 ^ 32)
    (hinf : cfg.inflate zs.flatten = some (rawOf choose c data, true))
    (hanc : AncChunksG cfg (afterIhdr cfg opts limit (headerOf c)) (pairs (metaChunks c)) dA)
    (hlimit : c.rowLen ≤ dA.limit) :
    (Reader.run cfg t
      (R.init opts limit f (fileBytes (stillChunks c zs)) (fileBytes (stillChunks c zs)).length)
      [.readInfo, .nextFrame p]).2 =
      [.header, .frame { width := c.width, height := c.height, color := c.color, depth := c.depth,
                         lineSize := c.rowLen } data] := by
  have hC := crcOk_of_eq cfg hcrc
  rw [fileBytes_stillChunks cfg hcrc]
  have hls := headerOf_lineSize (c := c) hs.depth
  obtain ⟨buf, hrun, hspec, _⟩ :=
    C01.C01_decode_chunks_any_length cfg t f opts limit (headerOf c) (pairs (metaChunks c)) dA
      zs (rawOf choose c data) [] p hI hC ht (headerOf_valid hs)
      hanc hzs hzl hinf (rawOk_encode choose c hs.depth data hlen)
      (fun _ hc => by cases hc) (by rw [hls]; exact hsz) (by rw [hls]; exact hlimit)
  rw [specPixels_encode choose c hs.depth data hlen] at hspec
  cases hspec
  rw [hrun, hls]
  rfl

/-- **the same, row by row**: `height` calls of `next_row` return the rows of `data` in order, one more returns `None` -/
theorem decode_stillChunks_rows (cfg : Framing.Cfg) (t : TCfg) (f : Flags) (opts : Options) (limit : Nat)
    (choose : Bytes → Bytes → FilterType) (c : Enc.Cfg) (data : Bytes) (zs : List Bytes) (dA : Dec)
    (hI : cfg.InflateOk) (hcrc : ∀ b, cfg.crc b = crcOfList b) (ht : t.IsIdentity f) (hs : c.Still)
    (hlen : data.length = c.rowLen * c.height) (hsz : c.rowLen * c.height < 2 ^ 64)
    (hzs : zs ≠ []) (hzl : ∀ z ∈ zs, z.length < 2 ^ 32)
    (hinf : cfg.inflate zs.flatten = some (rawOf choose c data, true))
    (hanc : AncChunksG cfg (afterIhdr cfg opts limit (headerOf c)) (pairs (metaChunks c)) dA)
    (hlimit : c.rowLen ≤ dA.limit) :
    (Reader.run cfg t
      (R.init opts limit f (fileBytes (stillChunks c zs)) (fileBytes (stillChunks c zs)).length)
      (.readInfo :: List.replicate (c.height + 1) .nextRow)).2 =
      .header :: (rowResults 0 (rowsOfCfg c data) ++ [.noRow]) := by
  have hC := crcOk_of_eq cfg hcrc
  rw [fileBytes_stillChunks cfg hcrc]
  have hls := headerOf_lineSize (c := c) hs.depth
  obtain ⟨a1, a2, _⟩ := C01.ancillary_chunks_ok_any_length cfg hC opts limit (headerOf c) _ dA hanc
  have hrows := C01.C01_decode_rows cfg t f opts limit (headerOf c) (chunks cfg (pairs (metaChunks c))) dA
    zs (rawOf choose c data) [] hI hC ht (headerOf_valid hs) a1 a2 hzs hzl hinf (rawOk_encode choose c hs.depth data hlen)
    (fun _ hc => by cases hc) (by rw [hls]; exact hsz) (by rw [hls]; exact hlimit)
  obtain ⟨hsl, hrl⟩ := specScanlines_encode choose c hs.depth data hlen
  have hsc : (headerOf c).scanlines.length = c.height := by
    rw [headerOf_scanlines]; simp [lines]
  have hil : (headerOf c).interlaced = false := rfl
  rw [hsc, hsl, headerOf_scanlines, ← hrl, hil, rowResults_eq] at hrows
  rw [← hrl]
  exact hrows

/-- the file the writer leaves is of this shape -/
theorem encoded_eq (compress : Bytes → Bytes) (choose : Bytes → Bytes → FilterType) (c : Enc.Cfg) (data : Bytes)
    (hs : c.Still) (hlen : data.length = c.rowLen * c.height) (hsz : c.rowLen * c.height < 2 ^ 64) :
    encoded compress choose c data =
      fileBytes (stillChunks c (chunksOf maxIdatChunkLen (compress (rawOf choose c data)))) := by
  unfold encoded
  rw [(still_file _ c hs data hlen hsz).1, fileChunks_eq _ c hs.actl, zstream_scanCodec]

/-- the cut `write_image_data` makes: at least one piece, pieces of at most `2^31 − 1` bytes -/
theorem idat_cut (z : Bytes) (hz : z ≠ []) :
    chunksOf maxIdatChunkLen z ≠ [] ∧ (∀ p ∈ chunksOf maxIdatChunkLen z, p.length < 2 ^ 32) ∧
    (chunksOf maxIdatChunkLen z).flatten = z := by
  refine ⟨chunksOf_ne_nil _ _ hz, ?_, chunksOf_flatten _ (by decide) _⟩
  intro p hp
  have := chunksOf_le _ _ p hp
  have : maxIdatChunkLen < 2 ^ 32 := by decide
  omega

/-- **the composition**, with the chunks between `IHDR` and `IDAT` as an `AncChunksG` hypothesis -/
theorem encode_decode_core (cfg : Framing.Cfg) (t : TCfg) (f : Flags) (opts : Options) (limit : Nat)
    (compress : Bytes → Bytes) (choose : Bytes → Bytes → FilterType) (c : Enc.Cfg) (data : Bytes) (p : UInt8) (dA : Dec)
    (hI : cfg.InflateOk) (hcrc : ∀ b, cfg.crc b = crcOfList b) (ht : t.IsIdentity f) (hs : c.Still)
    (hlen : data.length = c.rowLen * c.height) (hsz : c.rowLen * c.height < 2 ^ 64)
    (hnil : ∀ o, cfg.inflate [] ≠ some (o, true))
    (hinf : cfg.inflate (compress (rawOf choose c data)) = some (rawOf choose c data, true))
    (hanc : AncChunksG cfg (afterIhdr cfg opts limit (headerOf c)) (pairs (metaChunks c)) dA)
    (hlimit : c.rowLen ≤ dA.limit) :
    (Reader.run cfg t
      (R.init opts limit f (encoded compress choose c data) (encoded compress choose c data).length)
      [.readInfo, .nextFrame p]).2 =
      [.header, .frame { width := c.width, height := c.height, color := c.color, depth := c.depth,
                         lineSize := c.rowLen } data] := by
  have hzne : compress (rawOf choose c data) ≠ [] := by
    intro h0; rw [h0] at hinf; exact hnil _ hinf
  obtain ⟨h1, h2, h3⟩ := idat_cut _ hzne
  rw [encoded_eq compress choose c data hs hlen hsz]
  exact decode_stillChunks cfg t f opts limit choose c data _ p dA hI hcrc ht hs hlen hsz h1 h2 (by rw [h3]; exact hinf)
    hanc hlimit

/-- the composition, row by row -/
theorem encode_decode_rows_core (cfg : Framing.Cfg) (t : TCfg) (f : Flags) (opts : Options) (limit : Nat)
    (compress : Bytes → Bytes) (choose : Bytes → Bytes → FilterType) (c : Enc.Cfg) (data : Bytes) (dA : Dec)
    (hI : cfg.InflateOk) (hcrc : ∀ b, cfg.crc b = crcOfList b) (ht : t.IsIdentity f) (hs : c.Still)
    (hlen : data.length = c.rowLen * c.height) (hsz : c.rowLen * c.height < 2 ^ 64)
    (hnil : ∀ o, cfg.inflate [] ≠ some (o, true))
    (hinf : cfg.inflate (compress (rawOf choose c data)) = some (rawOf choose c data, true))
    (hanc : AncChunksG cfg (afterIhdr cfg opts limit (headerOf c)) (pairs (metaChunks c)) dA)
    (hlimit : c.rowLen ≤ dA.limit) :
    (Reader.run cfg t
      (R.init opts limit f (encoded compress choose c data) (encoded compress choose c data).length)
      (.readInfo :: List.replicate (c.height + 1) .nextRow)).2 =
      .header :: (rowResults 0 (rowsOfCfg c data) ++ [.noRow]) := by
  have hzne : compress (rawOf choose c data) ≠ [] := by
    intro h0; rw [h0] at hinf; exact hnil _ hinf
  obtain ⟨h1, h2, h3⟩ := idat_cut _ hzne
  rw [encoded_eq compress choose c data hs hlen hsz]
  exact decode_stillChunks_rows cfg t f opts limit choose c data _ dA hI hcrc ht hs hlen hsz h1 h2 (by rw [h3]; exact hinf)
    hanc hlimit

end Png.RoundTrip
