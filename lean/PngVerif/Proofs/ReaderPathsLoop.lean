import PngVerif.Proofs.ReaderPathsCongr
/-!
# Decoding paths, part 2: one iteration of the row loops of `next_frame` (C13)

The preconditions under which `Proofs/ReaderInv.lean` shows that the row loops do not panic, bundled
(`RowPre`, `FRPre`, `FIPre`), with lemmas that expose ONE iteration of each loop: what is called, and
that the preconditions hold again for the rest of the loop.  Everything later (congruence, the
row-by-row / whole-frame agreement, skipping) is an induction over these steps.
-/
namespace Png.Reader
open Png Png.Framing

/-- what `next_interlaced_row_impl` needs: a live reader standing on row `ii`, whose previous row fits -/
structure RowPre (t : TCfg) (r : R) (i : Info) (ii : IInfo) : Prop where
  inv : Inv t r
  info : r.dec.info = some i
  cur : r.sub.cur = some ii
  prev : r.ub.prevRow = [] ∨ r.ub.prevRow.length + 1 = rowlenOf i.color i.depth r.sub ii

theorem RowPre.finished {t : TCfg} {r : R} {i : Info} {ii : IInfo} (h : RowPre t r i ii) : r.finished = false := by
  cases hf : r.finished with
  | false => rfl
  | true => have := (h.inv.fin hf).2.2; rw [h.cur] at this; cases this

theorem RowPre.rowlen2 {t : TCfg} {r : R} {i : Info} {ii : IInfo} (h : RowPre t r i ii) :
    2 ≤ rowlenOf i.color i.depth r.sub ii := by
  obtain ⟨j, hj, hg⟩ := h.inv.info
  rw [h.info] at hj; cases hj
  rw [rowlenOf_eq hg ii]
  exact rowlen_ge2 (h.inv.base.dinv.legal i h.info).pair (widthOf_bounds hg h.cur).1

/-- `next_raw_interlaced_row` under `RowPre` -/
theorem RowPre.raw (cfg : Cfg) {t : TCfg} {r : R} {i : Info} {ii : IInfo} (h : RowPre t r i ii) :
    match nextRawRow cfg (rowlenOf i.color i.depth r.sub ii) (fuelOf r) r with
    | (r', .error e) => e.isErr = true ∧ Inv t r' ∧ Keep r r' ∧ RawRel r r' ∧ r'.ub.prevRow = r.ub.prevRow
    | (r', .ok ()) => Inv t r' ∧ Keep r r' ∧ RawRel r r' ∧ r'.ub.prevRow.length + 1 = rowlenOf i.color i.depth r.sub ii :=
  nextRawRow_spec cfg t _ h.rowlen2 (fuelOf r) r (fuelOf_ge r) h.inv h.finished h.prev
    (fun i' hi' => by rw [h.info] at hi'; cases hi'; exact ⟨ii, h.cur, rfl⟩)

/-- the reader `read_row` hands to `next_interlaced_row_impl`: the previous row is forgotten at line 0 -/
def rowStart (r : R) (ii : IInfo) : R := if ii.line = 0 then { r with ub := r.ub.resetPrev } else r

theorem rowStart_sub (r : R) (ii : IInfo) : (rowStart r ii).sub = r.sub := by unfold rowStart; split <;> rfl
theorem rowStart_keep (r : R) (ii : IInfo) : Keep r (rowStart r ii) := by
  unfold rowStart; split <;> exact ⟨rfl, rfl, rfl, rfl, rfl, rfl, rfl⟩
theorem rowStart_cached (r : R) (ii : IInfo) : (rowStart r ii).cached = r.cached := by unfold rowStart; split <;> rfl
theorem rowStart_setSC (r : R) (ii : IInfo) (s : Nat) (c : Option Info) :
    rowStart (r.setSC s c) ii = (rowStart r ii).setSC s c := by unfold rowStart; split <;> rfl

/-- `read_row` establishes `RowPre` -/
theorem rowStart_pre {t : TCfg} {r : R} {i : Info} {ii : IInfo} (hI : Inv t r) (hi : r.dec.info = some i)
    (hcur : r.sub.cur = some ii) : RowPre t (rowStart r ii) i ii := by
  obtain ⟨j, hj, hg⟩ := hI.info
  rw [hi] at hj; cases hj
  refine ⟨?_, (rowStart_keep r ii).info.trans hi, by rw [rowStart_sub]; exact hcur, ?_⟩
  · unfold rowStart; split
    · refine hI.setUb _ (UB.inv_resetPrev _ hI.ub) ?_
      intro i' _
      rw [prevRow_resetPrev]
      unfold PrevOk; split
      · exact Or.inl rfl
      · intro _; exact Or.inl rfl
      · trivial
    · exact hI
  · rw [rowStart_sub]
    unfold rowStart; split
    · exact Or.inl (prevRow_resetPrev _)
    · rename_i hl
      have := hg.prev
      unfold PrevOk at this
      rw [hcur] at this
      cases ii with
      | null l => exact this
      | adam7 p l w => exact this hl

/-- `read_row` with a current row, in terms of `rowStart` -/
theorem readRow_some' (cfg : Cfg) (t : TCfg) (r : R) (bufLen : Nat) (ii : IInfo) (h : r.sub.cur = some ii) :
    readRow cfg t r bufLen =
      (match infoOf (rowStart r ii) with
       | none => (rowStart r ii, .panic "info().unwrap()")
       | some i =>
         if bufLen < lineSizeFor t (rowStart r ii) i ii then
           (rowStart r ii, .panic "output_buffer[..output_line_size] (mod.rs:529)")
         else
           match nextRowImpl cfg t (rowStart r ii) (rowlenOf i.color i.depth (rowStart r ii).sub ii)
               (lineSizeFor t (rowStart r ii) i ii) with
           | (r', .error e) => (r', e)
           | (r', .ok out) => (r', .row ii out)) := readRow_some cfg t r bufLen ii h

/-- `read_row` with a current row and a buffer that holds a row of the (sub)frame: the call of
    `next_interlaced_row_impl` it comes down to -/
theorem readRow_row (cfg : Cfg) {t : TCfg} (ht : t.Ok) {r : R} {i : Info} {ii : IInfo} (bufLen : Nat) (hI : Inv t r)
    (hi : r.dec.info = some i) (hcur : r.sub.cur = some ii) (hbuf : outLineSize t i r.flags r.sub.width ≤ bufLen) :
    readRow cfg t r bufLen =
      (match nextRowImpl cfg t (rowStart r ii) (rowlenOf i.color i.depth r.sub ii)
          (outLineSize t i r.flags (widthOf r.sub ii)) with
       | (r', .error e) => (r', e)
       | (r', .ok out) => (r', .row ii out)) := by
  obtain ⟨j, hj, hg⟩ := hI.info
  rw [hi] at hj; cases hj
  rw [readRow_some' cfg t r bufLen ii hcur]
  have hi0 : (rowStart r ii).dec.info = some i := (rowStart_keep r ii).info.trans hi
  simp only [infoOf, hi0]
  rw [lineSizeFor_eq, rowStart_sub, (rowStart_keep r ii).flags]
  have hols : ¬ bufLen < outLineSize t i r.flags (widthOf r.sub ii) := by
    have := outLineSize_mono ht (hI.base.dinv.legal i hi) r.flags (widthOf_bounds hg hcur).2
    omega
  rw [if_neg hols]

/-! ## the non-interlaced loop -/

/-- the preconditions of the non-interlaced row loop (`frameRows_spec`) -/
structure FRPre (t : TCfg) (i : Info) (lineSize n k : Nat) (r : R) (buf : Bytes) : Prop where
  inv : Inv t r
  info : r.dec.info = some i
  il : i.interlaced = false
  ls : lineSize = outLineSize t i r.flags r.sub.width
  kn : k + n = r.sub.height
  cur0 : n = 0 → r.sub.cur = none
  cur1 : 0 < n → r.sub.cur = some (.null k)
  buf : r.sub.height * lineSize ≤ buf.length

theorem FRPre.rowPre {t : TCfg} {i : Info} {ls n k : Nat} {r : R} {buf : Bytes} (h : FRPre t i ls (n + 1) k r buf) :
    RowPre t r i (.null k) := by
  obtain ⟨j, hj, hg⟩ := h.inv.info
  rw [h.info] at hj; cases hj
  have hcur := h.cur1 (Nat.succ_pos n)
  refine ⟨h.inv, h.info, hcur, ?_⟩
  have := hg.prev; unfold PrevOk at this; rw [hcur] at this; exact this

/-- one iteration of the non-interlaced loop -/
theorem FRPre.unfold (cfg : Cfg) {t : TCfg} {i : Info} {ls n k : Nat} {r : R} {buf : Bytes}
    (h : FRPre t i ls (n + 1) k r buf) :
    frameRows cfg t ls (n + 1) k r buf =
      (match nextRowImpl cfg t r r.sub.rowlen ls with
       | (r', .error e) => (r', buf, some e)
       | (r', .ok out) => frameRows cfg t ls n (k + 1) r' (setSlice buf (k * ls) out)) := by
  have hfit : (k + 1) * ls ≤ buf.length := mul_le_of_le (by have := h.kn; omega) h.buf
  rw [frameRows, if_neg (by omega)]
  cases nextRowImpl cfg t r r.sub.rowlen ls with
  | mk r' res => cases res <;> rfl

/-- … after which the preconditions hold for the rest of the loop -/
theorem FRPre.next (cfg : Cfg) {t : TCfg} (ht : t.Ok) {i : Info} {ls n k : Nat} {r r' : R} {buf out : Bytes}
    (h : FRPre t i ls (n + 1) k r buf) (hn : nextRowImpl cfg t r r.sub.rowlen ls = (r', .ok out)) :
    FRPre t i ls n (k + 1) r' (setSlice buf (k * ls) out) ∧ out.length = ls ∧ Keep r r' ∧
      r'.sub = { r.sub.advance with caf := r'.sub.caf } := by
  obtain ⟨j, hj, hg⟩ := h.inv.info
  rw [h.info] at hj; cases hj
  have hP := h.rowPre
  have hsp := nextRowImpl_spec cfg ht r i (.null k) hP.inv hP.info hP.cur hP.prev
  have e1 : rowlenOf i.color i.depth r.sub (.null k) = r.sub.rowlen := rfl
  have e2 : outLineSize t i r.flags (widthOf r.sub (.null k)) = ls := h.ls.symm
  rw [e1, e2, hn] at hsp
  obtain ⟨a1, a2, a3, a4⟩ := hsp
  obtain ⟨d1, d2, _, _⟩ := advance_dims r.sub
  have hw1 : r'.sub.width = r.sub.width := by rw [a4]; exact d1
  have hh1 : r'.sub.height = r.sub.height := by rw [a4]; exact d2
  have hcur1 : r'.sub.cur = if k + 1 < r.sub.height then some (.null (k + 1)) else none := by
    rw [a4]; exact advance_null (h.il ▸ hg.iter) (h.il ▸ hg.cur) hP.cur
  have hfit : (k + 1) * ls ≤ buf.length := mul_le_of_le (by have := h.kn; omega) h.buf
  have hlen : (setSlice buf (k * ls) out).length = buf.length := by
    apply setSlice_length
    rw [a3]
    have : (k + 1) * ls = k * ls + ls := Nat.succ_mul k ls
    omega
  have hkn := h.kn
  refine ⟨⟨a1, a2.info.trans h.info, h.il, by rw [a2.flags, hw1]; exact h.ls, by rw [hh1]; omega, ?_, ?_, ?_⟩, a3, a2, a4⟩
  · intro h0; rw [hcur1, if_neg (by omega)]
  · intro h0; rw [hcur1, if_pos (by omega)]
  · rw [hh1, hlen]; exact h.buf

/-- the preconditions do not look at the fields `setSC` overwrites (given the invariant) -/
theorem FRPre.setSC {t : TCfg} {i : Info} {ls n k : Nat} {r : R} {buf : Bytes} (h : FRPre t i ls n k r buf)
    (s : Nat) (c : Option Info) (hI : Inv t (r.setSC s c)) : FRPre t i ls n k (r.setSC s c) buf :=
  ⟨hI, h.info, h.il, h.ls, h.kn, h.cur0, h.cur1, h.buf⟩

/-! ## the interlaced loop -/

/-- the preconditions of the interlaced row loop (`frameInterlaced_spec`) -/
structure FIPre (t : TCfg) (i : Info) (stride fuel : Nat) (r : R) (buf : Bytes) : Prop where
  inv : Inv t r
  info : r.dec.info = some i
  il : i.interlaced = true
  st : stride = outLineSize t i r.flags r.sub.width
  fuel : rowsLeft r.sub < fuel
  buf : r.sub.height * stride ≤ buf.length

/-- bits per pixel of the output, as `next_frame` computes it -/
def outBits (t : TCfg) (i : Info) (f : Flags) : Nat := samplesOf (t.outColorDepth i f).1 * (t.outColorDepth i f).2

/-- one iteration of the interlaced loop: `next_interlaced_row` returns an Adam7 row that `expand_pass`
    accepts (and the preconditions hold again), or `None` at the end of the frame, or an error -/
theorem FIPre.row (cfg : Cfg) {t : TCfg} (ht : t.Ok) {i : Info} {stride fuel : Nat} {r : R} {buf : Bytes}
    (h : FIPre t i stride (fuel + 1) r buf) :
    match nextInterlacedRow cfg t r with
    | (r1, .row ii data) => r.sub.cur = some ii ∧ Keep r r1 ∧ r1.sub = { r.sub.advance with caf := r1.sub.caf } ∧
        ∃ p l w buf', ii = .adam7 p l w ∧
          Adam7.expandPass buf stride data { pass := p, line := l, width := w } (outBits t i r.flags) = some buf' ∧
          buf'.length = buf.length ∧ FIPre t i stride fuel r1 buf'
    | (r1, .noRow) => r.sub.cur = none ∧ Inv t r1 ∧ Keep r r1 ∧ r1.sub = { r.sub with caf := true }
    | (r1, .err _ _) => Inv t r1 ∧ Keep r r1
    | _ => False := by
  obtain ⟨j, hj, hg⟩ := h.inv.info
  rw [h.info] at hj; cases hj
  have hleg := h.inv.base.dinv.legal i h.info
  have hsp := nextInterlacedRow_spec cfg ht r i h.inv h.info
  generalize nextInterlacedRow cfg t r = out at hsp
  obtain ⟨r1, res⟩ := out
  obtain ⟨a1, a2, a3, a4⟩ := hsp
  cases res with
  | panic s => cases a3
  | header => exact a4.elim
  | frame _ _ => exact a4.elim
  | frameInfo _ => exact a4.elim
  | done => exact a4.elim
  | err c w => exact ⟨a1, a2⟩
  | noRow =>
    simp only [RowRes] at a4
    exact ⟨a4.1, a1, a2, a4.2⟩
  | row ii data =>
    simp only [RowRes] at a4
    obtain ⟨hcur, hdl, hsub⟩ := a4
    have hc := hg.cur
    unfold CurOk at hc
    rw [h.il, hcur] at hc
    cases ii with
    | null l => cases hit : r.sub.iter <;> (rw [hit] at hc; exact hc.elim)
    | adam7 p l w =>
      cases hit : r.sub.iter with
      | none _ _ => rw [hit] at hc; exact hc.elim
      | adam7 it =>
        rw [hit] at hc; simp only at hc
        obtain ⟨hp1, hp7, _, _, _, hwp, _, hlp⟩ := hc
        obtain ⟨buf', hex, hbl⟩ := expandPass_fits (c := (t.outColorDepth i r.flags).1) (d := (t.outColorDepth i r.flags).2)
          (W := r.sub.width) (H := r.sub.height) (w := w) (p := p) (l := l) (stride := stride) (buf := buf) (data := data)
          (ht.outLegal i r.flags hleg) ⟨hp1, hp7⟩ hwp hlp hg.h1 (by rw [h.st, outLineSize_eq]) (by rw [hdl]; rfl) h.buf
        obtain ⟨d1, d2, _, _⟩ := advance_dims r.sub
        have hw1 : r1.sub.width = r.sub.width := by rw [hsub]; exact d1
        have hh1 : r1.sub.height = r.sub.height := by rw [hsub]; exact d2
        have hrl : rowsLeft r1.sub + 1 = rowsLeft r.sub := by
          have := rowsLeft_advance (h.il ▸ hg.iter) (by rw [hcur]; rfl)
          rw [hsub]
          unfold rowsLeft at this ⊢
          exact this
        have hfu := h.fuel
        exact ⟨hcur, a2, hsub, p, l, w, buf', rfl, hex, hbl,
          ⟨a1, a2.info.trans h.info, h.il, by rw [a2.flags, hw1]; exact h.st, by omega, by rw [hh1, hbl]; exact h.buf⟩⟩

theorem FIPre.setSC {t : TCfg} {i : Info} {stride fuel : Nat} {r : R} {buf : Bytes} (h : FIPre t i stride fuel r buf)
    (s : Nat) (c : Option Info) (hI : Inv t (r.setSC s c)) : FIPre t i stride fuel (r.setSC s c) buf :=
  ⟨hI, h.info, h.il, h.st, h.fuel, h.buf⟩

theorem FIPre.mono {t : TCfg} {i : Info} {stride fuel fuel' : Nat} {r : R} {buf : Bytes} (h : FIPre t i stride fuel r buf)
    (hf : fuel ≤ fuel') : FIPre t i stride fuel' r buf :=
  ⟨h.inv, h.info, h.il, h.st, Nat.lt_of_lt_of_le h.fuel hf, h.buf⟩

/-! ## `next_frame` once the reader stands in the frame's data -/

/-- the buffer a frame needs (`output_buffer_size`) -/
def needOf (t : TCfg) (r : R) (i : Info) : Nat := outLineSize t i r.flags i.width * i.height

/-- the `OutputInfo` `next_frame` returns -/
def outInfoOf (t : TCfg) (r : R) (i : Info) : OutputInfo :=
  { width := r.sub.width, height := r.sub.height, color := (t.outColorDepth i r.flags).1,
    depth := (t.outColorDepth i r.flags).2, lineSize := outLineSize t i r.flags r.sub.width }

/-- `frameInto` with `info()` present and a buffer of the documented size -/
theorem frameInto_peq (cfg : Cfg) (t : TCfg) {r : R} {i : Info} (buf : Bytes) (hi : r.dec.info = some i)
    (hbuf : needOf t r i ≤ buf.length) :
    frameInto cfg t r buf =
      (match frameBody cfg t r i.interlaced (outLineSize t i r.flags r.sub.width) (outBits t i r.flags) buf with
       | (r2, buf', some e) => (r2, e, buf')
       | (r2, buf', none) =>
         match finishDecoding cfg r2 with
         | (r3, .error e) => (r3, e, buf')
         | (r3, .ok ()) => (r3, .frame (outInfoOf t r i) buf', buf')) := by
  unfold frameInto
  simp only [infoOf, hi]
  rw [if_neg (by unfold needOf at hbuf; omega)]
  rfl

/-- a buffer of the documented size holds every line of the (sub)frame -/
theorem need_holds {t : TCfg} (ht : t.Ok) {r : R} {i : Info} {buf : Bytes} (hI : Inv t r) (hi : r.dec.info = some i)
    (hbuf : needOf t r i ≤ buf.length) : r.sub.height * outLineSize t i r.flags r.sub.width ≤ buf.length := by
  obtain ⟨j, hj, hg⟩ := hI.info
  rw [hi] at hj; cases hj
  have h1 := outLineSize_mono ht (hI.base.dinv.legal i hi) r.flags hg.wW
  have h2 : r.sub.height * outLineSize t i r.flags r.sub.width ≤ i.height * outLineSize t i r.flags i.width :=
    Nat.mul_le_mul hg.hH h1
  rw [Nat.mul_comm i.height] at h2
  unfold needOf at hbuf
  omega

/-- rows of the current non-interlaced (sub)frame that have been delivered (`already_done_rows`, mod.rs:431) -/
def doneRows (r : R) : Nat := match r.sub.cur with | some ii => ii.line | none => r.sub.height

/-- the non-interlaced loop of `next_frame`: how many rows remain, and its preconditions -/
theorem frameBody_null (cfg : Cfg) {t : TCfg} (ht : t.Ok) {r : R} {i : Info} {buf : Bytes} (hI : Inv t r)
    (hi : r.dec.info = some i) (hil : i.interlaced = false) (hbuf : needOf t r i ≤ buf.length) :
    frameBody cfg t r false (outLineSize t i r.flags r.sub.width) (outBits t i r.flags) buf =
        frameRows cfg t (outLineSize t i r.flags r.sub.width) (r.sub.height - doneRows r) (doneRows r) r buf ∧
      FRPre t i (outLineSize t i r.flags r.sub.width) (r.sub.height - doneRows r) (doneRows r) r buf := by
  obtain ⟨j, hj, hg⟩ := hI.info
  rw [hi] at hj; cases hj
  have hleg := hI.base.dinv.legal i hi
  have hb := need_holds ht hI hi hbuf
  refine ⟨?_, ?_⟩
  · unfold frameBody
    simp only [Bool.false_eq_true, if_false]
    rw [if_neg (by have := outLineSize_pos ht hleg r.flags hg.w1; omega)]
    rfl
  · unfold doneRows
    cases hcur : r.sub.cur with
    | none =>
      exact ⟨hI, hi, hil, rfl, by simp only; omega, fun _ => hcur, fun h => by simp only at h; omega, hb⟩
    | some ii =>
      have hc := hg.cur
      unfold CurOk at hc
      rw [hil, hcur] at hc
      cases ii with
      | adam7 _ _ _ => cases hit : r.sub.iter <;> (rw [hit] at hc; exact hc.elim)
      | null l =>
        cases hit : r.sub.iter with
        | adam7 _ => rw [hit] at hc; exact hc.elim
        | none n stop =>
          rw [hit] at hc; simp only at hc
          exact ⟨hI, hi, hil, rfl, by simp only [IInfo.line]; omega, fun h => by simp only [IInfo.line] at h; omega,
            fun _ => hcur, hb⟩

/-- the interlaced loop of `next_frame` and its preconditions -/
theorem frameBody_adam7 (cfg : Cfg) {t : TCfg} (ht : t.Ok) {r : R} {i : Info} {buf : Bytes} (hI : Inv t r)
    (hi : r.dec.info = some i) (hil : i.interlaced = true) (hbuf : needOf t r i ≤ buf.length) :
    frameBody cfg t r true (outLineSize t i r.flags r.sub.width) (outBits t i r.flags) buf =
        frameInterlaced cfg t (outLineSize t i r.flags r.sub.width) (outBits t i r.flags) (7 * r.sub.height + 8) r buf ∧
      FIPre t i (outLineSize t i r.flags r.sub.width) (7 * r.sub.height + 8) r buf := by
  obtain ⟨j, hj, hg⟩ := hI.info
  rw [hi] at hj; cases hj
  refine ⟨by unfold frameBody; simp only [if_true], ⟨hI, hi, hil, rfl, ?_, need_holds ht hI hi hbuf⟩⟩
  have := rowsLeft_le (hil ▸ hg.iter); omega

end Png.Reader
