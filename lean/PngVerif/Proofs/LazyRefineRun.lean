import PngVerif.Proofs.LazyRefineOps
/-!
# `Reader` refines `Lazy`, part 7: one call, any sequence of calls

`Sim`: the simulation relation `SimI` (for some current `Info`), the invariant `Good` of the `Lazy` model and `CorePred`
(the stream decoder keeps the `IHDR` fields).  Every call of a `Reader` whose answer the `Lazy` model speaks about
(`okRes`) is answered by the `Lazy` model with the skeleton of that answer (`resMatch`) and keeps `Sim`; so does every
sequence of such calls.
-/
namespace Png.LazyRefine
open Png Png.Framing Png.WellFormed Png.Reader

/-- the simulation relation together with the invariants the run keeps on either side -/
structure Sim (cfg : Cfg) (G : List Header) (e : Lazy.Env) (L : Info → Nat) (f : Flags) (i0 : Info) (r : R) (s : Lazy.St) :
    Prop where
  simI : ∃ i, SimI cfg G e L f i r s
  good : Lazy.Good e s
  hdr : CorePred i0 r.dec

/-- **one call**: `absOp op = some lop`, the `Reader` model's answer is one the `Lazy` model speaks about: the `Lazy`
    model's answer to `lop` is its skeleton, and the new states are related again -/
theorem step_sim (cfg : Cfg) (t : TCfg) (hts : CreateSafe t) (G : List Header) (e : Lazy.Env) (hv : e.Valid)
    (hG : G.length = e.frames.length) (L : Info → Nat) (f : Flags)
    (hL : ∀ i', L i' = outLineSize t i' f (Sub.new i').width) (i0 : Info) (r : R) (s : Lazy.St) (hS : Sim cfg G e L f i0 r s)
    (op : Reader.Op) (lop : Lazy.Op) (hop : absOp op = some lop) (hok : okRes (step cfg t r op).2 = true) :
    resMatch G (step cfg t r op).2 (Lazy.step e s lop).2 = true ∧
      Sim cfg G e L f i0 (step cfg t r op).1 (Lazy.step e s lop).1 := by
  obtain ⟨⟨i, hSi⟩, hg, hH⟩ := hS
  have hg' : Lazy.Good e (Lazy.step e s lop).1 := (Lazy.step_refines e hv s hg lop).1
  have hH' : CorePred i0 (step cfg t r op).1.dec := step_decP (corePred_decPred cfg i0) t r op hH
  cases op with
  | nextFrame p =>
    cases hop
    obtain ⟨h1, i', h2⟩ := nextFrame_op cfg t hts G e hv hG L f hL i0 i r s p hSi hg hH hok
    exact ⟨h1, ⟨i', h2⟩, hg', hH'⟩
  | nextRow =>
    cases hop
    obtain ⟨h1, h2⟩ := nextRow_op cfg t hts G e hv L f i r s hSi hg hok
    exact ⟨h1, ⟨i, h2⟩, hg', hH'⟩
  | readRow =>
    cases hop
    obtain ⟨h1, h2⟩ := readRow_op cfg t hts G e hv L f i r s hSi hg hok
    exact ⟨h1, ⟨i, h2⟩, hg', hH'⟩
  | nextFrameInfo =>
    cases hop
    obtain ⟨h1, i', h2⟩ := nextFrameInfo_op cfg t G e hG L f hL i0 i r s hSi hg hH hok
    exact ⟨h1, ⟨i', h2⟩, hg', hH'⟩
  | finish =>
    cases hop
    obtain ⟨h1, i', h2⟩ := finish_op cfg t G e L f i0 i r s hSi hg hH hok
    exact ⟨h1, ⟨i', h2⟩, hg', hH'⟩
  | readHeader => cases hop
  | readInfo => cases hop
  | grow n => cases hop

/-- the calls of a sequence, as calls of the `Lazy` model -/
def absOps (ops : List Reader.Op) : List Lazy.Op := ops.filterMap absOp

/-- **any sequence of calls**: if every call is a call of a `Reader` (`isCall`) and every answer of the `Reader` model is
    one the `Lazy` model speaks about, the answers of the `Lazy` model to the same calls are the skeletons of the
    `Reader` model's answers, one by one, and the final states are related -/
theorem run_sim (cfg : Cfg) (t : TCfg) (hts : CreateSafe t) (G : List Header) (e : Lazy.Env) (hv : e.Valid)
    (hG : G.length = e.frames.length) (L : Info → Nat) (f : Flags)
    (hL : ∀ i', L i' = outLineSize t i' f (Sub.new i').width) (i0 : Info) :
    ∀ (ops : List Reader.Op) (r : R) (s : Lazy.St), Sim cfg G e L f i0 r s → (∀ op ∈ ops, isCall op = true) →
      (∀ res ∈ (Reader.run cfg t r ops).2, okRes res = true) →
      resMatchAll G (Reader.run cfg t r ops).2 (Lazy.run e s (absOps ops)).2 = true ∧
        Sim cfg G e L f i0 (Reader.run cfg t r ops).1 (Lazy.run e s (absOps ops)).1 := by
  intro ops
  induction ops with
  | nil => intro r s hS _ _; exact ⟨rfl, hS⟩
  | cons op ops ih =>
    intro r s hS hcall hok
    rw [run_cons_res] at hok ⊢
    have hc := hcall op (by simp)
    unfold isCall at hc
    cases hop : absOp op with
    | none => rw [hop] at hc; cases hc
    | some lop =>
      have hok1 : okRes (step cfg t r op).2 = true := hok _ (by simp)
      obtain ⟨h1, hS1⟩ := step_sim cfg t hts G e hv hG L f hL i0 r s hS op lop hop hok1
      obtain ⟨h2, hS2⟩ := ih (step cfg t r op).1 (Lazy.step e s lop).1 hS1 (fun o ho => hcall o (by simp [ho]))
        (fun res hres => hok res (by simp [hres]))
      have habs : absOps (op :: ops) = lop :: absOps ops := by simp [absOps, hop]
      rw [habs]
      simp only [Lazy.run]
      exact ⟨by simp only [resMatchAll, h1, h2, Bool.and_self], hS2⟩

end Png.LazyRefine
