import PngVerif.Proofs.ComposeFrames
/-!
# C09 with `acTL` anywhere before the first frame

`Reader.apng_wf` / `Reader.apng_default_wf` (`Proofs/ComposeFrames.lean`) are stated for the layout `wellFormedApng`, where
`acTL` stands right behind `IHDR`.  The encoder of the crate writes `pHYs`, `sRGB`, `gAMA`, `cHRM`, `iCCP`, `eXIf` IN FRONT of
`acTL` (`encode_header`).  Here the two theorems are re-proved with the part of the file between `IHDR` and the first frame
as an arbitrary byte string `ancB` the stream decoder reads chunk by chunk (`AncTrace`) ending idle with the `acTL` counts in
`info` (`apng_wf_gen`, `apng_default_wf_gen`); `anc_with_actl` supplies this for `chunks pre ++ acTL ++ chunks post`.

The two proofs are those of `apng_wf` / `apng_default_wf` from the point where the chunks before the first frame have been
read; they use the same lemmas (`fctl0_step`, `readInfo_wf`, `nextFrameOp_ready`, `frames_run`, `Between`).
-/
namespace Png.Reader
open Png Png.Framing Png.WellFormed

/-- an animated image whose first frame is the `IDAT` image, with any bytes `ancB` between `IHDR` and `fcTL` number 0 -/
def apngFile (cfg : Cfg) (h : Header) (ancB : Bytes) (fc0 : FrameControl) (zs0 : List Bytes)
    (frames : List (FrameControl × List Bytes)) : Bytes :=
  signature ++ chunk cfg IHDR h.body ++ ancB ++ chunk cfg fcTL (fctlBody { fc0 with seq := 0 }) ++ idats cfg zs0 ++
    apngFrames cfg 1 frames ++ chunk cfg IEND []

/-- an animated image with a default image, with any bytes `ancB` between `IHDR` and the `IDAT` chunks -/
def apngDefaultFile (cfg : Cfg) (h : Header) (ancB : Bytes) (zs0 : List Bytes) (frames : List (FrameControl × List Bytes)) : Bytes :=
  signature ++ chunk cfg IHDR h.body ++ ancB ++ idats cfg zs0 ++ apngFrames cfg 0 frames ++ chunk cfg IEND []

theorem apng_wf_gen (cfg : Cfg) (hI : cfg.InflateOk) (hC : cfg.CrcOk) {t : TCfg} {f : Flags} (ht : t.IsIdentity f)
    (opts : Options) (limit : Nat) (h : Header) (hv : h.Valid) (plays : Nat)
    (ancB : Bytes) (dB : Dec)
    (frames : List (FrameControl × List Bytes × Bytes))
    (TB : AncTrace cfg (afterIhdr cfg opts limit h) ancB dB) (hidleB : Idle dB h.info.core) (hsq0 : dB.seqNo = none)
    (hcapB : 26 ≤ dB.cap) (hactlB : dB.info.map (·.actl) = some (some (frames.length + 1, plays)))
    (fc0 : FrameControl) (zs0 : List Bytes) (raw0 : Bytes) (hfc0 : FcOk h fc0)
    (hzs0 : zs0 ≠ []) (hlen0 : ∀ z ∈ zs0, z.length < 2 ^ 32) (hinf0 : cfg.inflate zs0.flatten = some (raw0, true))
    (hraw0 : RawOk (h.frame fc0) raw0)
    (hframes : ∀ fr ∈ frames, FrameOk cfg h fr)
    (hseq : 1 + (frames.map fun x => 1 + x.2.1.length).sum < 2 ^ 32)
    (hsize : h.lineSize * h.height < 2 ^ 64)
    (hlimit : (h.frame fc0).lineSize + (frames.map fun x => (h.frame x.1).lineSize).sum ≤ dB.limit)
    (p0 : UInt8) (ps : List UInt8) (hps : ps.length = frames.length) (q : UInt8) :
    ∃ buf0 rs,
      (run cfg t (R.init opts limit f (apngFile cfg h ancB fc0 zs0 (framesOf frames))
          (apngFile cfg h ancB fc0 zs0 (framesOf frames)).length)
        (.readInfo :: .nextFrame p0 :: (ps.map Op.nextFrame ++ [.nextFrame q]))).2 =
        .header :: .frame { width := fc0.width, height := fc0.height, color := h.color, depth := h.depth,
                            lineSize := (h.frame fc0).lineSize } buf0 ::
          (rs ++ [.err .parameter "PolledAfterEndOfImage"]) ∧
      specFrame (h.frame fc0) raw0 (List.replicate h.bufferSize p0) = some buf0 ∧ buf0.length = h.bufferSize ∧
      FramesOk h frames ps rs := by
  obtain ⟨hw1, hw2, hh1, hh2, hleg⟩ := hv
  have hd := (legal_pos hleg).2.2
  generalize hfc0' : ({ fc0 with seq := 0 } : FrameControl) = fc0'
  have hframe0 : h.frame fc0' = h.frame fc0 := by rw [← hfc0']; rfl
  obtain ⟨dF, TC, hidleC, hsqC, hlimC, hcapC, _, hactlC⟩ := fctl0_step cfg hC fc0' hidleB hcapB
    (by
      rw [← hfc0']
      refine ⟨by show (0 : Nat) < 2 ^ 32; decide, ?_, ?_, ?_, ?_, hfc0.dn, hfc0.dd, ?_, ?_⟩
      · show fc0.width < 2 ^ 32; have := hfc0.xw; omega
      · show fc0.height < 2 ^ 32; have := hfc0.yh; omega
      · show fc0.x < 2 ^ 32; have := hfc0.xw; omega
      · show fc0.y < 2 ^ 32; have := hfc0.yh; omega
      · show fc0.dispose < 256; have := hfc0.dis; omega
      · show fc0.blend < 256; have := hfc0.bl; omega)
    (by rw [hsq0, ← hfc0']; rfl) (by rw [← hfc0']; exact hfc0.dis) (by rw [← hfc0']; exact hfc0.bl)
    (by
      intro i hi
      obtain ⟨j, hj, hcj, _⟩ := hidleB.info
      rw [hi] at hj; cases hj
      simp only [Info.core, Header.info, Prod.mk.injEq] at hcj
      rw [fctlInBounds_iff, ← hfc0']
      exact ⟨hfc0.w1, hfc0.h1, by rw [hcj.1]; exact hfc0.xw, by rw [hcj.2.1]; exact hfc0.yh⟩)
  have hancAll : AncTrace cfg (afterIhdr cfg opts limit h) (ancB ++ chunk cfg fcTL (fctlBody fc0')) dF := TB.append TC
  cases zs0 with
  | nil => exact absurd rfl hzs0
  | cons z0 zs0 =>
    obtain ⟨hl1, hl2, hl3, hl4⟩ := nextHead_facts cfg 1 (framesOf frames)
    have htail := nextHead_eq cfg 1 (framesOf frames)
    generalize hLn : (nextHead cfg 1 (framesOf frames)).1 = lenN at *
    generalize hTn : (nextHead cfg 1 (framesOf frames)).2.1 = tN at *
    generalize hRn : (nextHead cfg 1 (framesOf frames)).2.2 = restN at *
    have hfile : apngFile cfg h ancB fc0 (z0 :: zs0) (framesOf frames) =
        signature ++ (chunk cfg IHDR h.body ++ ((ancB ++ chunk cfg fcTL (fctlBody fc0')) ++ (idats cfg (z0 :: zs0) ++
            (be32Bytes lenN ++ typeBytes tN ++ restN)))) := by
      unfold apngFile
      rw [← htail, hfc0']
      simp only [List.append_assoc]
    rw [hfile]
    have hLS0 : (h.frame fc0).lineSize ≤ dF.limit := by rw [hlimC]; omega
    obtain ⟨r, i, N, dEnd, hri, hR, hcore, hfctl, hflu, hrd, hpb, _, _, hiF, hremN, hN, hseqE, hcapE, _, hlimE⟩ :=
      readInfo_wf cfg hI hC ht opts limit h ⟨hw1, hw2, hh1, hh2, hleg⟩ _ dF (some fc0') hancAll hidleC z0 zs0 raw0
        (hlen0 z0 (by simp)) (fun z' hz' => hlen0 z' (by simp [hz'])) hinf0 lenN tN restN hl1 hl2 hl3 hsize
        (fun j hc hf => by
          have : hdrOf j = h.frame fc0' := by
            have := hdrOf_frame (i := j) fc0' hc
            have hj : ({ j with fctl := some fc0' } : Info) = j := by cases j; simp only at hf; subst hf; rfl
            rw [hj] at this; exact this
          rw [this, hframe0]; exact hLS0)
    have hcore' := hcore
    simp only [Info.core, Header.info, Prod.mk.injEq] at hcore'
    obtain ⟨c1, c2, c3, c4, c5⟩ := hcore'
    have hlegi : (i.color, i.depth) ∈ legalPairs := by rw [c3, c4]; exact hleg
    have hij : ({ i with fctl := some fc0' } : Info) = i := by cases i; simp only at hfctl; subst hfctl; rfl
    have hhdr : hdrOf i = h.frame fc0 := by
      have := hdrOf_frame (i := i) fc0' hcore
      rw [hij] at this; rw [this, hframe0]
    have hdims : Sub.dims i = (fc0.width, fc0.height) := by
      simp only [Sub.dims, hfctl]; rw [← hfc0']
    have hactl : i.actl = some (frames.length + 1, plays) := by
      have h1 : dF.info.map (·.actl) = some (some (frames.length + 1, plays)) := by
        rw [hactlC, hactlB]
      rw [hiF] at h1
      simpa using h1
    have hNv : N = frames.length + 1 := by
      rw [hN, hactl, hfctl]; simp
    obtain ⟨hfit1, hfit2⟩ := frame_fits h hd fc0 (by have := hfc0.xw; omega) (by have := hfc0.yh; omega)
    have hszI : outLineSize t i f i.width * i.height = h.bufferSize := by
      rw [outLineSize_id ht, c1, c2, c3, c4, ← rowBytes_eq h hd]; rfl
    obtain ⟨r', buf0, hstep, hspec, hblen, hP', hcaf', hdec', hav', hrem', hse', hca', hcur'⟩ :=
      nextFrameOp_ready cfg ht i hlegi (by rw [hdims]; exact hfc0.w1) (by rw [hdims]; exact hfc0.h1) N raw0 dEnd restN r p0
        hR hpb hrd (by rw [hhdr]; exact hraw0) (by rw [hhdr, hszI]; exact hfit2)
    have hB : Between cfg f h r' i 1 frames := by
      refine ⟨hcore, ?_, ?_, ?_, ?_, ?_, hcaf', hcur', by omega, hse'.flags.trans hR.flags, hse'.isReader.trans hrd,
        hse'.pendingBuf.trans hpb, hca'⟩
      · rw [hdec', hLn, hTn]; exact hflu
      · rw [hav', hRn]
      · rw [hdec', hseqE, hsqC, ← hfc0']; exact ⟨rfl, by show (0 : Nat) + 1 < 2 ^ 32; decide⟩
      · rw [hdec', hcapE, hcapC]; exact hcapB
      · rw [hdec', hlimE, hhdr, hlimC]; omega
    obtain ⟨rs, hrs, hfo⟩ := frames_run cfg hI hC ht h ⟨hw1, hw2, hh1, hh2, hleg⟩ q frames ps r' i 1 hps hframes
      hseq hB
    refine ⟨buf0, rs, ?_, by rw [hhdr, hszI] at hspec; exact hspec, by rw [hblen, hszI], hfo⟩
    generalize (signature ++ (chunk cfg IHDR h.body ++ ((ancB ++ chunk cfg fcTL (fctlBody fc0')) ++ (idats cfg (z0 :: zs0) ++
            (be32Bytes lenN ++ typeBytes tN ++ restN))))) = file at hri ⊢
    have hdead : (R.init opts limit f file file.length).dead = false := rfl
    generalize R.init opts limit f file file.length = r0 at hri hdead ⊢
    have hs1 : step cfg t r0 .readInfo = (r, .header) := by
      show (if r0.dead then _ else readInfo cfg t r0) = _
      rw [hdead]; exact hri
    rw [run_append_two, hs1]
    simp only
    rw [hstep]
    simp only
    rw [hrs, hdims, hhdr, c3, c4]

theorem apng_default_wf_gen (cfg : Cfg) (hI : cfg.InflateOk) (hC : cfg.CrcOk) {t : TCfg} {f : Flags} (ht : t.IsIdentity f)
    (opts : Options) (limit : Nat) (h : Header) (hv : h.Valid) (plays : Nat)
    (ancB : Bytes) (dB : Dec)
    (frames : List (FrameControl × List Bytes × Bytes))
    (TB : AncTrace cfg (afterIhdr cfg opts limit h) ancB dB) (hidleB : Idle dB h.info.core) (hsq0 : dB.seqNo = none)
    (hcapB : 26 ≤ dB.cap) (hactlB : dB.info.map (·.actl) = some (some (frames.length, plays)))
    (zs0 : List Bytes) (raw0 : Bytes)
    (hzs0 : zs0 ≠ []) (hlen0 : ∀ z ∈ zs0, z.length < 2 ^ 32) (hinf0 : cfg.inflate zs0.flatten = some (raw0, true))
    (hraw0 : RawOk h raw0)
    (hframes : ∀ fr ∈ frames, FrameOk cfg h fr)
    (hseq : (frames.map fun x => 1 + x.2.1.length).sum < 2 ^ 32)
    (hsize : h.lineSize * h.height < 2 ^ 64)
    (hlimit : h.lineSize + (frames.map fun x => (h.frame x.1).lineSize).sum ≤ dB.limit)
    (p0 : UInt8) (ps : List UInt8) (hps : ps.length = frames.length) (q : UInt8) :
    ∃ buf0 rs,
      (run cfg t (R.init opts limit f (apngDefaultFile cfg h ancB zs0 (framesOf frames))
          (apngDefaultFile cfg h ancB zs0 (framesOf frames)).length)
        (.readInfo :: .nextFrame p0 :: (ps.map Op.nextFrame ++ [.nextFrame q]))).2 =
        .header :: .frame { width := h.width, height := h.height, color := h.color, depth := h.depth,
                            lineSize := h.lineSize } buf0 ::
          (rs ++ [.err .parameter "PolledAfterEndOfImage"]) ∧
      specPixels h raw0 (List.replicate h.bufferSize p0) = some buf0 ∧ buf0.length = h.bufferSize ∧
      FramesOk h frames ps rs := by
  obtain ⟨hw1, hw2, hh1, hh2, hleg⟩ := hv
  have hd := (legal_pos hleg).2.2
  cases zs0 with
  | nil => exact absurd rfl hzs0
  | cons z0 zs0 =>
    obtain ⟨hl1, hl2, hl3, hl4⟩ := nextHead_facts cfg 0 (framesOf frames)
    have htail := nextHead_eq cfg 0 (framesOf frames)
    generalize hLn : (nextHead cfg 0 (framesOf frames)).1 = lenN at *
    generalize hTn : (nextHead cfg 0 (framesOf frames)).2.1 = tN at *
    generalize hRn : (nextHead cfg 0 (framesOf frames)).2.2 = restN at *
    have hfile : apngDefaultFile cfg h ancB (z0 :: zs0) (framesOf frames) =
        signature ++ (chunk cfg IHDR h.body ++ (ancB ++
          (idats cfg (z0 :: zs0) ++ (be32Bytes lenN ++ typeBytes tN ++ restN)))) := by
      unfold apngDefaultFile
      rw [← htail]
      simp only [List.append_assoc]
    rw [hfile]
    obtain ⟨r, i, N, dEnd, hri, hR, hcore, hfctl, hflu, hrd, hpb, _, _, hiF, hremN, hN, hseqE, hcapE, _, hlimE⟩ :=
      readInfo_wf cfg hI hC ht opts limit h ⟨hw1, hw2, hh1, hh2, hleg⟩ _ dB none TB hidleB z0 zs0 raw0
        (hlen0 z0 (by simp)) (fun z' hz' => hlen0 z' (by simp [hz'])) hinf0 lenN tN restN hl1 hl2 hl3 hsize
        (fun j hc hf => by rw [hdrOf_eq hc hf]; omega)
    have hhdr : hdrOf i = h := hdrOf_eq hcore hfctl
    have hcore' := hcore
    simp only [Info.core, Header.info, Prod.mk.injEq] at hcore'
    obtain ⟨c1, c2, c3, c4, c5⟩ := hcore'
    have hlegi : (i.color, i.depth) ∈ legalPairs := by rw [c3, c4]; exact hleg
    have hdims : Sub.dims i = (h.width, h.height) := by simp [Sub.dims, hfctl, c1, c2]
    have hactl : i.actl = some (frames.length, plays) := by
      have h1 : dB.info.map (·.actl) = some (some (frames.length, plays)) := hactlB
      rw [hiF] at h1
      simpa using h1
    have hNv : N = frames.length + 1 := by
      rw [hN, hactl, hfctl]; simp
    have hszI : outLineSize t i f i.width * i.height = h.bufferSize := by
      rw [outLineSize_id ht, c1, c2, c3, c4, ← rowBytes_eq h hd]; rfl
    obtain ⟨r', buf0, hstep, hspec, hblen, hP', hcaf', hdec', hav', hrem', hse', hca', hcur'⟩ :=
      nextFrameOp_ready cfg ht i hlegi (by rw [hdims]; exact hw1) (by rw [hdims]; exact hh1) N raw0 dEnd restN r p0
        hR hpb hrd (by rw [hhdr]; exact hraw0) (by rw [hhdr, hszI]; exact Nat.le_refl _)
    have hB : Between cfg f h r' i 0 frames := by
      refine ⟨hcore, ?_, ?_, ?_, ?_, ?_, hcaf', hcur', by omega, hse'.flags.trans hR.flags, hse'.isReader.trans hrd,
        hse'.pendingBuf.trans hpb, hca'⟩
      · rw [hdec', hLn, hTn]; exact hflu
      · rw [hav', hRn]
      · rw [hdec', hseqE, hsq0]; rfl
      · rw [hdec', hcapE]; exact hcapB
      · rw [hdec', hlimE, hhdr]; omega
    obtain ⟨rs, hrs, hfo⟩ := frames_run cfg hI hC ht h ⟨hw1, hw2, hh1, hh2, hleg⟩ q frames ps r' i 0 hps hframes
      (by omega) hB
    refine ⟨buf0, rs, ?_, ?_, by rw [hblen, hszI], hfo⟩
    · generalize (signature ++ (chunk cfg IHDR h.body ++ (ancB ++
          (idats cfg (z0 :: zs0) ++ (be32Bytes lenN ++ typeBytes tN ++ restN))))) = file at hri ⊢
      have hdead : (R.init opts limit f file file.length).dead = false := rfl
      generalize R.init opts limit f file file.length = r0 at hri hdead ⊢
      have hs1 : step cfg t r0 .readInfo = (r, .header) := by
        show (if r0.dead then _ else readInfo cfg t r0) = _
        rw [hdead]; exact hri
      rw [run_append_two, hs1]
      simp only
      rw [hstep]
      simp only
      rw [hrs, hdims, hhdr, c3, c4]
    · rw [hhdr, hszI] at hspec
      rw [← specFrame_eq_specPixels h raw0 _ (by simp)]
      exact hspec

end Png.Reader

namespace Png.Framing
open Png Png.WellFormed

theorem ancChunksG_haveIdat {cfg : Cfg} {d d' : Dec} {cs : List (ChunkType × Bytes)} (h : AncChunksG cfg d cs d') :
    d'.haveIdat = d.haveIdat := by
  induction h with
  | nil d => rfl
  | @cons d0 d1 d' t body cs h1 _ ih =>
    obtain ⟨cap', limit', _, ev, d2, hp, rfl⟩ := h1.parse
    rw [ih]
    exact (parseChunk_frame hp).haveIdat

/-- **chunks `pre`, `acTL`, chunks `post`** between `IHDR` and the first frame: read chunk by chunk; afterwards the decoder is idle,
    has seen no frame control, and `info` holds the `acTL` counts -/
theorem anc_with_actl (cfg : Cfg) (hC : cfg.CrcOk) (opts : Options) (limit : Nat) (h : Header) (n plays : Nat) (hn : n < 2 ^ 32)
    (hp : plays < 2 ^ 32) (pre post : List (ChunkType × Bytes)) (dPre dB : Dec)
    (hpre : AncChunksG cfg (afterIhdr cfg opts limit h) pre dPre)
    (hpost : AncChunksG cfg (actlAfter dPre n plays) post dB) (hna : NoActl post) :
    AncTrace cfg (afterIhdr cfg opts limit h) (chunks cfg pre ++ (chunk cfg acTL (actlBody n plays) ++ chunks cfg post)) dB ∧
    Idle dB h.info.core ∧ dB.seqNo = none ∧ 26 ≤ dB.cap ∧ dB.info.map (·.actl) = some (some (n, plays)) := by
  have hidle0 := idle_afterIhdr cfg opts limit h
  obtain ⟨T1, hidle1, _, hsq1, hcap1⟩ := anc_chunks_g cfg hC hidle0 (by show 0 < Params.chunkBufferSize; decide) hpre
  have hcap1' : Params.chunkBufferSize ≤ dPre.cap := hcap1
  obtain ⟨i1, hi1, _, _⟩ := hidle1.info
  have hh1 : dPre.haveIdat = false := (ancChunksG_haveIdat hpre).trans rfl
  have hc8 : 8 ≤ dPre.cap := by
    have : (8 : Nat) ≤ Params.chunkBufferSize := by decide
    omega
  obtain ⟨hsA, hiA⟩ := ancStep_acTL cfg dPre i1 n plays hn hp hi1 hh1 hc8
  obtain ⟨TA, hidleA, _, hcapA, _, hsqA⟩ := anc_step cfg hC hidle1 hsA
  have hc0 : 0 < (actlAfter dPre n plays).cap := by
    rw [hcapA]
    have : 0 < Params.chunkBufferSize := by decide
    omega
  obtain ⟨TB, hidleB, _, hsqB, hcapB⟩ := anc_chunks_g cfg hC hidleA hc0 hpost
  have hactlB := ancChunksG_actl hpost hna
  refine ⟨T1.append (TA.append TB), hidleB, by rw [hsqB, hsqA, hsq1]; rfl, ?_, by rw [hactlB, hiA]; rfl⟩
  rw [hcapA] at hcapB
  have : (26 : Nat) ≤ Params.chunkBufferSize := by decide
  omega

end Png.Framing
