import PngVerif.Proofs.ComposeTransformDecode
import PngVerif.Proofs.TransformContract
/-!
# C08 end to end: the contract `TCfg.Converts` discharged for the model's real transformation

`Png.Driver.realT` wires `Model/Transform.lean` into the `Reader` model.  For an `Info` `i` whose view
`tInfo i = some ti` is `Transform.Decodable` (legal colour type / bit depth pair; an indexed image has SOME `PLTE`;
a grayscale / RGB colour key has one stored sample per channel — what a valid PNG has) and EVERY flag set:

* `realT_converts`: the contract of `Proofs/ComposeTransformRows.lean` holds;
* `realT_conv`: the conversion it computes on a row of the raw row length is `Transform.specConvert` — the documented
  conversion (C08, `Png.C08.C08_convert_any_palette`);
* `realT_out`, `realT_outLine`: the advertised output type and line size are the documented ones
  (`specOutputColor`, `specOutputDepth`, `specOutputLineSize`; `Png.C08.C08_advertised`);
* `realT_outLine_header_le`: the output line computed from the `Info` after `IHDR` alone (no `tRNS` seen yet — what
  `read_info` checks) is at most the one at the begin of the image data.
-/
namespace Png.Driver
open Png Png.Framing Png.Reader

/-- `realT.apply` with snapshot = current `Info`: `transform_row` of `Model/Transform.lean` on the view of that `Info` -/
theorem realT_apply_self {i : Info} {ti : Transform.Info} (hti : tInfo i = some ti) (f : Flags) (row : Bytes) (n : Nat) :
    realT.apply i f i row n =
      match Transform.transformRow ti (tFlags f) row (List.replicate n 0) with
      | .ok o => some o
      | .error _ => none := by
  simp only [realT, hti, Transform.transformRow]
  cases hk : Transform.selectTransform ti (tFlags f) with
  | error e => rfl
  | ok k =>
    simp only
    have e : ({ colorType := ti.colorType, bitDepth := ti.bitDepth, palette := ti.palette, trns := ti.trns } : Transform.Info) = ti := rfl
    rw [e, ite_self]
    cases Transform.applyKind ti k row (List.replicate n 0) <;> rfl

/-- `create_transform_fn` succeeds on a decodable `Info`, for every flag set -/
theorem realT_create_self {i : Info} {ti : Transform.Info} (hti : tInfo i = some ti) (hdec : Transform.Decodable ti)
    (f : Flags) : realT.create i f = .ok () := by
  obtain ⟨k, hk⟩ := Transform.selectTransform_ok ti (tFlags f) hdec.legal hdec.palette
  simp only [realT, hti, hk]
  by_cases hpk : isPaletteKind k = true
  · rw [if_pos hpk]
    by_cases h1 : ti.colorType = .indexed ∧ ((tFlags f).expand || (tFlags f).alpha) = true
    · have hs := selectTransform_palette_some h1 hk
      cases hp : ti.palette with
      | none => rw [hp] at hs; cases hs
      | some pal =>
        simp only
        obtain ⟨memo, hm, _⟩ := Transform.createRgbaPalette_total pal ti.trns
        rw [hm]
    · have := selectTransform_not_palette h1 hk
      rw [hpk] at this; cases this
  · rw [if_neg hpk]

/-- the advertised output line size of the `Reader` model at `realT` is the documented one -/
theorem realT_outLine {i : Info} {ti : Transform.Info} (hti : tInfo i = some ti) (f : Flags) (w : Nat) :
    outLineSize realT i f w = Transform.specOutputLineSize ti (tFlags f) w := by
  have h1 := realT_outLineSize hti f w
  rw [Transform.outputLineSize_eq] at h1
  exact (Except.ok.inj h1).symm

/-- the advertised output type of the `Reader` model at `realT` is the documented one -/
theorem realT_out {i : Info} {ti : Transform.Info} (hti : tInfo i = some ti) (f : Flags) :
    realT.outColorDepth i f =
      ((Transform.specOutputColor ti (tFlags f)).toNat, Transform.specOutputDepth ti (tFlags f)) := by
  obtain ⟨d, _, hd, h⟩ := realT_outColorDepth hti f
  rw [h, hd]

theorem samplesOf_toNat (c : Transform.ColorType) : samplesOf c.toNat = c.samples := by cases c <;> rfl

/-- the view of an `Info` determines its colour type and bit depth -/
theorem tInfo_fields {i : Info} {ti : Transform.Info} (hti : tInfo i = some ti) :
    ti.colorType.toNat = i.color ∧ ti.bitDepth.toNat = i.depth ∧ ti.palette = i.palette ∧ ti.trns = i.trns := by
  obtain ⟨ct, bd, hc, hb, rfl⟩ := tInfo_some hti
  refine ⟨?_, ?_, rfl, rfl⟩
  · unfold Transform.ColorType.ofNat? at hc
    split at hc <;> first | (cases hc; rename_i hq; rw [hq]; rfl) | cases hc
  · unfold Transform.BitDepth.ofNat? at hb
    split at hb <;> first | (cases hb; rename_i hq; rw [hq]; rfl) | cases hb

/-- **the conversion `realT` computes is the documented one**: a row of `w` pixels of the image's type, into a buffer
    of the advertised line size: no panic, exactly `specConvert`, exactly the advertised number of bytes -/
theorem realT_apply_spec {i : Info} {ti : Transform.Info} (hti : tInfo i = some ti) (hdec : Transform.Decodable ti)
    (f : Flags) (row : Bytes) (w : Nat) (hrow : row.length + 1 = rawRowLengthFromWidth i.color i.depth w) :
    realT.apply i f i row (outLineSize realT i f w) = some (Transform.specConvert ti (tFlags f) row w) ∧
    (Transform.specConvert ti (tFlags f) row w).length = outLineSize realT i f w := by
  obtain ⟨hc, hd, _, _⟩ := tInfo_fields hti
  have hrow' : row.length = Transform.rawRowLengthFromWidth ti.colorType ti.bitDepth w - 1 := by
    rw [← rowlen_bridge, hc, hd]; omega
  have hout : Transform.outputLineSize ti (tFlags f) w =
      .ok (List.replicate (outLineSize realT i f w) (0 : UInt8)).length := by
    rw [List.length_replicate]; exact realT_outLineSize hti f w
  have hconv := Transform.transformRow_eq_spec_decodable ti (tFlags f) w row _ hdec hrow' hout
  refine ⟨?_, ?_⟩
  · rw [realT_apply_self hti, hconv]
  · rw [Transform.specConvert_length ti (tFlags f) w row (by rw [hrow', Transform.rawRowLength_eq]; rfl),
      realT_outLine hti]

/-- **`TCfg.Converts` for `realT`**: every flag set, every decodable `Info` with a legal pair, every width -/
theorem realT_converts {i : Info} {ti : Transform.Info} (hti : tInfo i = some ti) (hdec : Transform.Decodable ti)
    (f : Flags) (W : Nat) : realT.Converts f i W where
  outLegal := by
    obtain ⟨c, d, hoc, hmem⟩ := outputColorType_legal ti (tFlags f) hdec.legal
    simp only [realT, hti, hoc]
    exact hmem
  create := realT_create_self hti hdec f
  apply := fun row w _ _ hrow => ⟨_, realT_apply_spec hti hdec f row w hrow⟩

/-- the row map of `realT` on a row of the raw row length is `specConvert` -/
theorem realT_conv {i : Info} {ti : Transform.Info} (hti : tInfo i = some ti) (hdec : Transform.Decodable ti)
    (f : Flags) (row : Bytes) (w : Nat) (hrow : row.length + 1 = rawRowLengthFromWidth i.color i.depth w) :
    realT.conv f i w row = Transform.specConvert ti (tFlags f) row w := by
  unfold TCfg.conv
  rw [(realT_apply_spec hti hdec f row w hrow).1]; rfl

/-! ## the `Info` after `IHDR` alone -/

/-- the view of the `Info` after `IHDR` alone: no palette, no `tRNS` -/
theorem tInfo_header {i j : Info} {ti : Transform.Info} (hti : tInfo i = some ti) (hc : j.color = i.color)
    (hd : j.depth = i.depth) (hp : j.palette = none) (ht : j.trns = none) :
    tInfo j = some { ti with palette := none, trns := none } := by
  obtain ⟨ct, bd, h1, h2, rfl⟩ := tInfo_some hti
  unfold tInfo
  rw [hc, hd, h1, h2, hp, ht]; rfl

/-- a `tRNS` chunk can only add a channel: the documented output line without it is at most the one with it -/
theorem specOutputLineSize_header_le (ti : Transform.Info) (f : Transform.Flags) (w : Nat) :
    Transform.specOutputLineSize { ti with palette := none, trns := none } f w ≤ Transform.specOutputLineSize ti f w := by
  unfold Transform.specOutputLineSize
  have hdepth : Transform.specOutputDepth { ti with palette := none, trns := none } f = Transform.specOutputDepth ti f := rfl
  have hs : (Transform.specOutputColor { ti with palette := none, trns := none } f).samples ≤
      (Transform.specOutputColor ti f).samples := by
    obtain ⟨ct, bd, pal, trns⟩ := ti
    obtain ⟨e, s, a⟩ := f
    cases ct <;> cases e <;> cases a <;> cases trns <;>
      simp [Transform.specOutputColor, Transform.Flags.doExpand, Transform.addAlpha, Transform.ColorType.samples]
  rw [hdepth]
  exact Nat.div_le_div_right (Nat.add_le_add_right (Nat.mul_le_mul_right _ (Nat.mul_le_mul_left _ hs)) 7)

/-- **`read_info`'s size check is implied by the size of the real output**: the output line `realT` advertises for the
    `Info` after `IHDR` alone is at most the one it advertises at the begin of the image data -/
theorem realT_outLine_header_le {i j : Info} {ti : Transform.Info} (hti : tInfo i = some ti) (hc : j.color = i.color)
    (hd : j.depth = i.depth) (hp : j.palette = none) (ht : j.trns = none) (f : Flags) (w : Nat) :
    outLineSize realT j f w ≤ outLineSize realT i f w := by
  rw [realT_outLine (tInfo_header hti hc hd hp ht), realT_outLine hti]
  exact specOutputLineSize_header_le ti (tFlags f) w

/-- the output type `realT` advertises for the `Info` after `IHDR` alone has a legal bit depth -/
theorem realT_out_header_depthOk {i j : Info} {ti : Transform.Info} (hti : tInfo i = some ti)
    (hl : Transform.legal ti.colorType ti.bitDepth = true) (hc : j.color = i.color)
    (hd : j.depth = i.depth) (hp : j.palette = none) (ht : j.trns = none) (f : Flags) :
    depthOk (realT.outColorDepth j f).2 = true := by
  have htj := tInfo_header hti hc hd hp ht
  obtain ⟨c, d, hoc, hmem⟩ := outputColorType_legal { ti with palette := none, trns := none } (tFlags f) hl
  have : realT.outColorDepth j f = (c.toNat, d.toNat) := by simp only [realT, htj, hoc]
  rw [this]
  exact (legal_pos hmem).2.2


/-! ## any metadata on which creation succeeds, outside the one unreachable shape -/

/-- **`TCfg.Converts` for `realT` without `Decodable`**: a legal `Info` of ANY palette / `tRNS` contents (colour keys of
    a wrong length included) on which `create_transform_fn` succeeded, outside `keyGap` (grayscale below 8 bits with an
    EMPTY stored `tRNS` — unreachable, `Proofs/TrnsShape.lean`).  The rows written then have the advertised size; that
    they are the documented conversion needs `Decodable` (`realT_conv`). -/
theorem realT_converts_of_create {i : Info} (hl : InfoLegal i) (f : Flags) (hc : realT.create i f = .ok ())
    (hgap : keyGap i f = false) (W : Nat) : realT.Converts f i W :=
  ⟨realT_outLegal i f hl, hc, fun row w _ _ hrow => realT_applyOk_partial i f i row w hl (Evolves.refl i) hc hrow hgap⟩

end Png.Driver

namespace Png.WellFormed
open Png Png.Framing

/-- cutting a concatenation of rows of `k` bytes back into the rows -/
theorem chunksN_flatten (k : Nat) : ∀ (rows : List Bytes), (∀ r ∈ rows, r.length = k) →
    Transform.chunksN k rows.length rows.flatten = rows := by
  intro rows
  induction rows with
  | nil => intro _; rfl
  | cons r rows ih =>
    intro hk
    have hr : r.length = k := hk r (by simp)
    simp only [List.length_cons, Transform.chunksN, List.flatten_cons]
    rw [List.take_left' hr, List.drop_left' hr, ih (fun r' hr' => hk r' (by simp [hr']))]

/-- the scanlines of a non-interlaced image: `height` rows of `lineSize` bytes -/
theorem specScanlines_noninterlaced_shape (h : Header) (hil : h.interlaced = false) (raw : Bytes) (hraw : RawOk h raw) :
    (specScanlines h raw).length = h.height ∧ ∀ r ∈ specScanlines h raw, r.length = h.lineSize := by
  have hs : h.scanlines = (List.range h.height).map fun l => (0, l, h.width) := by simp [Header.scanlines, hil]
  have hlen := Png.Reader.unfilterScanlines_length h.filterUnit h.rowBytes h.scanlines [] raw hraw
  have hrow := Png.Reader.unfilterScanlines_rowlen h.filterUnit h.rowBytes h.scanlines [] raw hraw
  refine ⟨by show (unfilterScanlines _ _ _ _ _).length = _; rw [hlen, hs]; simp, ?_⟩
  intro r hr
  have hz : (h.scanlines.zip (specScanlines h raw)).map (·.2) = specScanlines h raw :=
    zip_map_snd_of_le _ _ (Nat.le_of_eq hlen)
  rw [← hz] at hr
  obtain ⟨x, hx, rfl⟩ := List.mem_map.mp hr
  rw [hrow x hx]
  have hx1 := (List.of_mem_zip hx).1
  rw [hs] at hx1
  obtain ⟨l, _, hl⟩ := List.mem_map.mp hx1
  rw [← hl]; rfl

/-- **without interlacing, `specPixelsT` is the row map applied to the rows of the specification's image**
    (`specPixels`, what decoding without transformations returns — C01): the image cut into its `height` rows of
    `lineSize` bytes, each row converted, the results concatenated -/
theorem specPixelsT_of_specPixels (h : Header) (hil : h.interlaced = false) (conv : Nat → Bytes → Bytes)
    (outLine outBits : Nat) (raw bg bg0 b0 : Bytes) (hraw : RawOk h raw) (h0 : specPixels h raw bg0 = some b0) :
    specPixelsT h conv outLine outBits raw bg =
      some ((Transform.chunksN h.lineSize h.height b0).flatMap (conv h.width)) := by
  obtain ⟨hlen, hrows⟩ := specScanlines_noninterlaced_shape h hil raw hraw
  unfold specPixels at h0
  rw [hil] at h0
  simp only [Bool.false_eq_true, if_false, Option.some.injEq] at h0
  subst h0
  unfold specPixelsT
  rw [hil, specScanlinesT_noninterlaced h hil]
  simp only [Bool.false_eq_true, if_false]
  rw [← hlen, chunksN_flatten _ _ hrows, List.flatMap_def]

end Png.WellFormed
