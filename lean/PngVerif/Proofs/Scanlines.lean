import PngVerif.Model.Scanlines
import PngVerif.Proofs.Filter
namespace Png

theorem ofNat_ftByte (ft : FilterType) : FilterType.ofNat? (ftByte ft).toNat = some ft := by
  cases ft <;> decide

theorem filtRow_length (ft : FilterType) (bpp : Nat) (prev r : Bytes) :
    (filtRow ft bpp prev r).length = r.length := filt_length _ _ _ _ _

/-- decode ∘ encode = id on scanline streams: every choice of filter types, every bpp, every row
    count, every row length -/
theorem decode_encode_scanlines (choose : Bytes → Bytes → FilterType) (bpp rb : Nat) (rows : List Bytes)
    (hlen : ∀ r ∈ rows, r.length = rb) :
    ∀ (prev tail : Bytes),
      decodeScanlines bpp rb rows.length prev (encodeScanlines choose bpp prev rows ++ tail) = some rows := by
  induction rows with
  | nil => intro prev tail; simp [decodeScanlines]
  | cons r rs ih =>
    intro prev tail
    have hr : r.length = rb := hlen r (by simp)
    have hrs : ∀ x ∈ rs, x.length = rb := fun x hx => hlen x (by simp [hx])
    simp only [encodeScanlines, List.length_cons, List.cons_append, List.append_assoc, decodeScanlines]
    have hfl : (filtRow (choose prev r) bpp prev r).length = rb := by rw [filtRow_length, hr]
    have hnot : ¬ ((filtRow (choose prev r) bpp prev r ++ (encodeScanlines choose bpp r rs ++ tail)).length < rb) := by
      simp only [List.length_append]; omega
    simp only [hnot, if_false, ofNat_ftByte]
    have htake : (filtRow (choose prev r) bpp prev r ++ (encodeScanlines choose bpp r rs ++ tail)).take rb
        = filtRow (choose prev r) bpp prev r := by
      rw [List.take_append_of_le_length (by omega), List.take_of_length_le (by omega)]
    have hdrop : (filtRow (choose prev r) bpp prev r ++ (encodeScanlines choose bpp r rs ++ tail)).drop rb
        = encodeScanlines choose bpp r rs ++ tail := by
      rw [← hfl]; simp
    rw [htake, hdrop, reconRow_filtRow, ih hrs r tail]
    rfl

end Png

namespace Png

theorem filt_nil_eq_zeros (p) (bpp n : Nat) (fs : Bytes) :
    ∀ done, filt p bpp [] done fs = filt p bpp (List.replicate n 0) done fs := by
  induction fs with
  | nil => intro done; simp [filt]
  | cons x xs ih =>
    intro done
    simp only [filt]
    rw [nbrs_nil_eq_zeros bpp n done, ih]

/-- filtering the first row against an all-zero row (what the encoder does) = filtering it against
    no row (what the specification says) -/
theorem filtRow_first (ft : FilterType) (bpp n : Nat) (row : Bytes) :
    filtRow ft bpp (List.replicate n 0) row = filtRow ft bpp [] row :=
  (filt_nil_eq_zeros _ _ _ _ _).symm

end Png
