import PngVerif.Proofs.ComposeAncBig
/-!
# Layer L1 for animated images: `fcTL` and the `fdAT` sequence

* `fctl_body_trace`: the body and CRC of an `fcTL` chunk: the frame control event; `info.fctl` is the frame control,
  the inflater is reset, `fdAT` chunks may follow.
* `fdat_sequence_trace`: the `fdAT` chunks of a frame (sequence numbers checked, stripped and fed to the CRC), then
  the type field of the next chunk: the data handed out is the frame's inflated stream; `ImageDataFlushed` at the end.
-/
namespace Png.Framing
open Png Png.WellFormed

theorem fdAT_lt : fdAT < 2 ^ 32 := by decide +kernel
theorem fcTL_lt : fcTL < 2 ^ 32 := by decide +kernel
theorem acTL_lt : acTL < 2 ^ 32 := by decide +kernel
theorem fdAT_ne_IEND' : fdAT ≠ IEND := by decide +kernel
theorem fcTL_ne_IEND' : fcTL ≠ IEND := by decide +kernel

theorem fctlBody_eq (fc : FrameControl) : fctlBody fc = encodeFctl fc := rfl
theorem fctlBody_length (fc : FrameControl) : (fctlBody fc).length = 26 := rfl

/-! ## the begin of a chunk whose type is pending after `ImageDataFlushed` -/

/-- the type kept by the flush is parsed again: `ChunkBegin`, no input consumed -/
theorem update_pending_begin_other {cfg : Cfg} {d : Dec} {len t : Nat} {t0 t1 t2 t3 : UInt8} {buf : Bytes}
    (hs : d.state = some (.u32 (.type len) [t0, t1, t2, t3])) (hte : be32 t0 t1 t2 t3 = t) (hbuf : buf ≠ [])
    (hi : d.info.isSome = true) (hnf : ¬ IsFlush d t) (h1 : t ≠ fdAT) (h2 : t ≠ IDAT) :
    update cfg d buf =
      ({ d with state := some (if len = 0 then .parseChunkData t else .readChunkData t), curType := t,
                crcAcc := if d.opts.ignoreCrc then d.crcAcc else typeBytes t, remaining := len, raw := [] },
       .ok (0, .chunkBegin len t)) := by
  subst hte
  refine update_pending_event hs hbuf ?_ (by simp)
  exact parseU32_type_other cfg (d.withState none) len t0 t1 t2 t3 (Or.inl hi) hnf h1 h2

/-! ## `fcTL` -/

/-- after `ChunkBegin` of an `fcTL` chunk -/
structure AtFctl (d : Dec) (i : Info) : Prop where
  state : d.state = some (.readChunkData fcTL)
  curType : d.curType = fcTL
  remaining : d.remaining = 26
  raw : d.raw = []
  out : d.out = []
  info : d.info = some i
  cap : 26 ≤ d.cap
  crcAcc : d.opts.ignoreCrc = false → d.crcAcc = typeBytes fcTL

/-- the decoder after an accepted `fcTL` chunk (body and CRC) that began in state `d` -/
def fctlAfter (d : Dec) (fc : FrameControl) : Dec :=
  (fctlDone ((d.collect (fctlBody fc)).atCrc fcTL) fc).withState (some (.u32 .length []))

theorem fctlAfter_facts {d : Dec} {i : Info} (fc : FrameControl) (hd : AtFctl d i) :
    (fctlAfter d fc).state = some (.u32 .length []) ∧ (fctlAfter d fc).curType = fcTL ∧
    (fctlAfter d fc).info = some { i with fctl := some fc } ∧
    (fctlAfter d fc).seqNo = some fc.seq ∧ (fctlAfter d fc).zin = [] ∧ (fctlAfter d fc).zstarted = false ∧
    (fctlAfter d fc).zemitted = 0 ∧ (fctlAfter d fc).readyFdat = true ∧
    (fctlAfter d fc).out = [] ∧ (fctlAfter d fc).readyIdat = d.readyIdat ∧ (fctlAfter d fc).opts = d.opts ∧
    (fctlAfter d fc).limit = d.limit ∧ (fctlAfter d fc).cap = d.cap := by
  refine ⟨rfl, hd.curType, ?_, rfl, rfl, rfl, rfl, rfl, hd.out, rfl, rfl, rfl, rfl⟩
  show (Option.map (fun i => { i with fctl := some fc }) d.info) = _
  rw [hd.info]; rfl

/-- **body and CRC of an `fcTL` chunk** that follows the sequence rule and lies inside the image: the frame control
    event, then `ChunkComplete`; afterwards (`fctlAfter`) `info.fctl` is the frame control, the sequence number is
    stored, the inflater is fresh and `fdAT` chunks are expected -/
theorem fctl_body_trace (cfg : Cfg) (hC : cfg.CrcOk) {d : Dec} {i : Info} (fc : FrameControl) (tb : Bytes)
    (hd : AtFctl d i) (hfit : fc.Fits) (hseq : SeqOk d.seqNo fc.seq) (hdis : fc.dispose ≤ 2) (hbl : fc.blend ≤ 1)
    (hin : fctlInBounds i fc = true) :
    Trace cfg (fun _ => True) d (fctlBody fc ++ (be32Bytes (cfg.crc (typeBytes fcTL ++ fctlBody fc)) ++ tb))
      [(.frameControl fc, []), (.chunkComplete (cfg.crc (typeBytes fcTL ++ fctlBody fc)) fcTL, [])] (fctlAfter d fc) tb := by
  have hne : fctlBody fc ≠ [] := by simp [fctlBody, be32Bytes]
  obtain ⟨hw0, hh0, _, _⟩ := (fctlInBounds_iff i fc).mp hin
  -- `parse_chunk`
  have hraw : ((d.collect (fctlBody fc)).atCrc fcTL).raw = encodeFctl fc ++ [] := by
    show d.raw ++ fctlBody fc = _
    rw [hd.raw, fctlBody_eq]; simp
  have hp : parseChunk cfg (d.collect (fctlBody fc)) fcTL =
      .ok (.frameControl fc, fctlDone ((d.collect (fctlBody fc)).atCrc fcTL) fc) := by
    apply parseChunk_of_ok
    rw [dispatch_fcTL]
    exact (parseFctl_ok_iff _ _ _).mpr ⟨fc, i, by rw [hraw]; exact rdFctl_encode fc hfit [], hd.info, hseq, hdis, hbl,
      by omega, by omega, hin, rfl, rfl⟩
  have hu1 := update_body_event (cfg := cfg) (rest := be32Bytes (cfg.crc (typeBytes fcTL ++ fctlBody fc)) ++ tb)
    hd.state (by rw [hd.remaining]; rfl) hne (by rw [hd.raw, fctlBody_length]; have := hd.cap; simp; omega)
    (by simp [be32Bytes]) hp (by simp)
  unfold fctlAfter
  generalize hD1 : fctlDone ((d.collect (fctlBody fc)).atCrc fcTL) fc = D1 at hu1 ⊢
  have ho1 : D1.out = [] := by rw [← hD1]; exact hd.out
  have hst1 : D1.state = some (.u32 (.crc fcTL) []) := by rw [← hD1]; rfl
  have hu2 := update_crc (cfg := cfg) (d := D1) (t := fcTL) (c := cfg.crc (typeBytes fcTL ++ fctlBody fc)) (rest := tb)
    hst1 (hC _) fcTL_ne_IEND' (by
      intro hig
      have hig' : d.opts.ignoreCrc = false := by rw [← hD1] at hig; exact hig
      rw [← hD1]
      show cfg.crc (if d.opts.ignoreCrc then d.crcAcc else d.crcAcc ++ fctlBody fc) = _
      rw [hig', hd.crcAcc hig']; rfl)
  refine Trace.cons' (by simp [hne]) hu1 ho1 (clearOut_of_nil ho1) trivial (List.drop_left' rfl) ?_
  exact Trace.one (by simp [be32Bytes]) hu2 (clearOut_of_nil (d := D1.withState _) ho1) trivial ho1 (List.drop_left' rfl)

/-! ## `fdAT` -/

/-- right after `ChunkBegin` of an `fdAT` chunk of `len` bytes: the sequence number comes next -/
structure AtFdat (d : Dec) (i : Info) (pre : Bytes) (e len s : Nat) : Prop where
  state : d.state = some (.u32 .seqNo [])
  curType : d.curType = fdAT
  remaining : d.remaining = len
  zin : d.zin = pre
  zemitted : d.zemitted = e
  out : d.out = []
  info : d.info = some i
  seqNo : d.seqNo = some s
  readyFdat : d.readyFdat = true
  crcAcc : d.opts.ignoreCrc = false → d.crcAcc = typeBytes fdAT

/-- between two chunks, after an `fdAT` chunk -/
structure InFdat (d : Dec) (i : Info) (pre : Bytes) (e s : Nat) : Prop where
  state : d.state = some (.u32 .length [])
  curType : d.curType = fdAT
  zin : d.zin = pre
  zstarted : d.zstarted = true
  zemitted : d.zemitted = e
  out : d.out = []
  info : d.info = some i
  seqNo : d.seqNo = some s
  readyFdat : d.readyFdat = true

theorem parseU32_seqNo_ok (cfg : Cfg) (D : Dec) (b0 b1 b2 b3 : UInt8) (s : Nat) (hs : D.seqNo = some s)
    (hlt : s + 1 < 2 ^ 32) (hv : be32 b0 b1 b2 b3 = s + 1) :
    parseU32 cfg D .seqNo b0 b1 b2 b3 =
      .ok (.partialChunk fdAT,
        { D with remaining := D.remaining - 4, seqNo := some (s + 1),
                 crcAcc := if D.opts.ignoreCrc then D.crcAcc else D.crcAcc ++ [b0, b1, b2, b3],
                 state := some (.imageData fdAT) }) := by
  rw [parseU32_seqNo, hs]
  simp only
  rw [if_neg (by omega), if_neg (by rw [hv]; simp), hv]

theorem parseU32_type_fdAT (cfg : Cfg) (D : Dec) (len : Nat) (b0 b1 b2 b3 : UInt8) (ht : be32 b0 b1 b2 b3 = fdAT)
    (hi : D.info.isSome = true) (hnf : ¬ IsFlush D fdAT) (hr : D.readyFdat = true) (hl : 4 ≤ len) :
    parseU32 cfg D (.type len) b0 b1 b2 b3 =
      .ok (.chunkBegin len fdAT,
        { D with haveIdat := true, state := some (.u32 .seqNo []), curType := fdAT,
                 crcAcc := if D.opts.ignoreCrc then D.crcAcc else typeBytes fdAT, remaining := len, raw := [] }) := by
  rw [parseU32_type, ht]
  have c0 : ¬ (D.info.isNone = true ∧ fdAT ≠ IHDR) := by
    rintro ⟨x, _⟩
    cases h : D.info <;> simp [h] at hi x
  have hnf' : ¬ (fdAT ≠ D.curType ∧ (D.curType = IDAT ∨ D.curType = fdAT)) := hnf
  rw [if_neg c0, if_neg hnf', afterType_fdAT]
  simp only [hr, Bool.not_true, Bool.false_eq_true, if_false]
  rw [if_neg (by omega)]

theorem update_chunkBegin_fdAT {cfg : Cfg} {d : Dec} {len : Nat} {rest : Bytes}
    (hs : d.state = some (.u32 .length [])) (hlen : len < 2 ^ 32) (hl : 4 ≤ len)
    (hi : d.info.isSome = true) (hnf : ¬ IsFlush d fdAT) (hr : d.readyFdat = true) :
    update cfg d (be32Bytes len ++ typeBytes fdAT ++ rest) =
      ({ d with haveIdat := true, state := some (.u32 .seqNo []), curType := fdAT,
                crcAcc := if d.opts.ignoreCrc then d.crcAcc else typeBytes fdAT, remaining := len, raw := [] },
       .ok (8, .chunkBegin len fdAT)) := by
  obtain ⟨a0, a1, a2, a3, ha, rfl⟩ := be32Bytes_eq hlen
  obtain ⟨t0, t1, t2, t3, htb, hte⟩ := typeBytes_eq fdAT_lt
  have hb : be32Bytes (be32 a0 a1 a2 a3) ++ typeBytes fdAT ++ rest =
      a0 :: a1 :: a2 :: a3 :: t0 :: t1 :: t2 :: t3 :: rest := by rw [ha, htb]; rfl
  rw [hb]
  refine update_u32_nothing (m := 4) hs (parseU32_length' cfg _ a0 a1 a2 a3) ?_
  refine update_u32_event rfl ?_ (by simp)
  exact parseU32_type_fdAT cfg (d.withState none) _ t0 t1 t2 t3 hte hi hnf hr hl

/-- sequence number, body `z` and CRC of an `fdAT` chunk: `PartialChunk`, `ImageData` with what `z` adds to the
    inflater's output, `ChunkComplete` -/
theorem fdat_body_trace (cfg : Cfg) (hC : cfg.CrcOk) {d : Dec} {i : Info} {pre z o tb : Bytes} {e s : Nat} {b : Bool}
    (hd : AtFdat d i pre e (4 + z.length) s) (hlt : s + 1 < 2 ^ 32) (hinf : cfg.inflate (pre ++ z) = some (o, b)) :
    ∃ d', Trace cfg (fun d => d.info = some i) d
        (be32Bytes (s + 1) ++ z ++ (be32Bytes (cfg.crc (typeBytes fdAT ++ (be32Bytes (s + 1) ++ z))) ++ tb))
        [(.partialChunk fdAT, []), (.imageData, o.drop e),
         (.chunkComplete (cfg.crc (typeBytes fdAT ++ (be32Bytes (s + 1) ++ z))) fdAT, [])] d' tb ∧
      InFdat d' i (pre ++ z) (max e o.length) (s + 1) ∧ KeepD d d' := by
  obtain ⟨a0, a1, a2, a3, ha, hav⟩ := be32Bytes_eq hlt
  generalize hcrc : cfg.crc (typeBytes fdAT ++ (be32Bytes (s + 1) ++ z)) = c
  have hbuf : be32Bytes (s + 1) ++ z ++ (be32Bytes c ++ tb) = a0 :: a1 :: a2 :: a3 :: (z ++ (be32Bytes c ++ tb)) := by
    rw [ha]; rfl
  -- the sequence number
  have hu1 := update_u32_event (cfg := cfg) (rest := z ++ (be32Bytes c ++ tb)) hd.state
    (parseU32_seqNo_ok cfg (d.withState none) a0 a1 a2 a3 s hd.seqNo hlt hav) (by simp)
  generalize hD1 : ({ d.withState none with remaining := (d.withState none).remaining - 4, seqNo := some (s + 1), crcAcc := if (d.withState none).opts.ignoreCrc then (d.withState none).crcAcc else (d.withState none).crcAcc ++ [a0, a1, a2, a3], state := some (.imageData fdAT) } : Dec) = D1 at hu1
  have ho1 : D1.out = [] := by rw [← hD1]; exact hd.out
  have hi1 : D1.info = some i := by rw [← hD1]; exact hd.info
  have hrem1 : D1.remaining = z.length := by
    rw [← hD1]; show d.remaining - 4 = _; rw [hd.remaining]; omega
  -- the body
  have hne2 : z ++ (be32Bytes c ++ tb) ≠ [] := by simp [be32Bytes]
  have hu2 := update_imageData (cfg := cfg) (d := D1) (t := fdAT) (rest := be32Bytes c ++ tb)
    (by rw [← hD1]) hrem1 hne2 (by rw [← hD1]; show cfg.inflate (d.zin ++ z) = _; rw [hd.zin]; exact hinf)
  generalize hD2 : (((D1.withState none).imagePiece z.length z o).withState (some (.u32 (.crc fdAT) []))) = D2 at hu2
  have ho2 : D2.out = o.drop e := by
    rw [← hD2, ← hD1]; simp [Dec.withState, Dec.imagePiece, hd.out, hd.zemitted]
  have hi2 : D2.clearOut.info = some i := by rw [← hD2]; exact hi1
  -- the CRC
  have hu3 := update_crc (cfg := cfg) (d := D2.clearOut) (t := fdAT) (c := c) (rest := tb) (by rw [← hD2]; rfl)
    (by rw [← hcrc]; exact hC _) fdAT_ne_IEND' (by
      intro hig
      have hig' : d.opts.ignoreCrc = false := by rw [← hD2, ← hD1] at hig; exact hig
      have h0 := hd.crcAcc hig'
      rw [← hD2, ← hD1, ← hcrc]
      simp only [Dec.clearOut, Dec.withState, Dec.imagePiece, hig', h0, Bool.false_eq_true, if_false]
      rw [ha, List.append_assoc])
  refine ⟨(D2.clearOut.withState (some (.u32 .length []))).clearOut, ?_, ?_, ?_⟩
  · rw [hbuf]
    refine Trace.cons' (by simp) hu1 ho1 (clearOut_of_nil ho1) hi1 (by rfl) ?_
    refine Trace.cons' hne2 hu2 ho2 rfl hi2 (List.drop_left' rfl) ?_
    exact Trace.one (by simp [be32Bytes]) hu3 rfl hi2 rfl (List.drop_left' (be32Bytes_length _))
  · rw [← hD2, ← hD1]
    exact ⟨rfl, hd.curType, by simp [Dec.clearOut, Dec.withState, Dec.imagePiece, hd.zin], rfl,
      by simp [Dec.clearOut, Dec.withState, Dec.imagePiece, hd.zemitted], rfl, hd.info, rfl, hd.readyFdat⟩
  · rw [← hD2, ← hD1]; exact ⟨rfl, rfl, rfl, rfl, rfl⟩

/-- length and type of a further `fdAT` chunk -/
theorem fdat_begin_trace (cfg : Cfg) {d : Dec} {i : Info} {pre rest : Bytes} {e s len : Nat}
    (hd : InFdat d i pre e s) (hlen : len < 2 ^ 32) (hl : 4 ≤ len) :
    ∃ d', Trace cfg (fun d => d.info = some i) d (be32Bytes len ++ typeBytes fdAT ++ rest)
        [(.chunkBegin len fdAT, [])] d' rest ∧ AtFdat d' i pre e len s ∧ KeepD d d' := by
  have hnf : ¬ IsFlush d fdAT := by intro h; exact h.1 hd.curType.symm
  have hu := update_chunkBegin_fdAT (cfg := cfg) (rest := rest) hd.state hlen hl (by rw [hd.info]; rfl) hnf hd.readyFdat
  refine ⟨_, Trace.one (head8_ne_nil _ _ _) hu rfl hd.info hd.out (drop_head8 _ _ _), ?_, ⟨rfl, rfl, rfl, rfl, rfl⟩⟩
  refine ⟨rfl, rfl, rfl, hd.zin, hd.zemitted, rfl, hd.info, hd.seqNo, hd.readyFdat, fun h => ?_⟩
  have h' : d.opts.ignoreCrc = false := h
  simp [Dec.clearOut, h']

/-- the type field that ends the `fdAT` sequence -/
theorem fdat_flush_trace (cfg : Cfg) {d : Dec} {i : Info} {pre rest raw : Bytes} {e s len t : Nat}
    (hd : InFdat d i pre e s) (hlen : len < 2 ^ 32) (ht : t < 2 ^ 32) (hne : t ≠ fdAT)
    (hinf : cfg.inflate pre = some (raw, true)) :
    ∃ d', Trace cfg (fun d => d.info = some i) d (be32Bytes len ++ typeBytes t ++ rest)
        [(.imageDataFlushed, raw.drop e)] d' rest ∧ Flushed d' i len t ∧ KeepD d d' ∧ d'.seqNo = some s := by
  have hf : IsFlush d t := ⟨by rw [hd.curType]; exact hne, Or.inr hd.curType⟩
  obtain ⟨t0, t1, t2, t3, htb, hte, hu⟩ := update_flush (cfg := cfg) (rest := rest) hd.state hlen ht
    (by rw [hd.info]; rfl) hf hd.zstarted (by rw [hd.zin]; exact hinf)
  refine ⟨_, Trace.one (head8_ne_nil _ _ _) hu rfl hd.info (by simp [hd.out, hd.zemitted]) (drop_head8 _ _ _), ?_,
    ⟨rfl, rfl, rfl, rfl, rfl⟩, hd.seqNo⟩
  exact ⟨⟨t0, t1, t2, t3, htb, hte, rfl⟩, rfl, rfl, rfl, rfl, rfl, hd.info, rfl, rfl⟩

theorem fdats_cons (cfg : Cfg) (s : Nat) (z : Bytes) (zs : List Bytes) :
    fdats cfg s (z :: zs) = chunk cfg fdAT (be32Bytes (s + 1) ++ z) ++ fdats cfg (s + 1) zs := rfl

/-- **the `fdAT` chunks after the first**, then the type field of the next chunk -/
theorem fdat_chunks_trace (cfg : Cfg) (hI : cfg.InflateOk) (hC : cfg.CrcOk) (i : Info) (raw rest : Bytes)
    (len t : Nat) (hlen : len < 2 ^ 32) (ht : t < 2 ^ 32) (hne : t ≠ fdAT) :
    ∀ (zs : List Bytes) (d : Dec) (pre : Bytes) (e s : Nat), InFdat d i pre e s →
      (∀ z ∈ zs, 4 + z.length < 2 ^ 32) → s + zs.length < 2 ^ 32 →
      cfg.inflate (pre ++ zs.flatten) = some (raw, true) →
      ∃ evs d', Trace cfg (fun d => d.info = some i) d (fdats cfg s zs ++ (be32Bytes len ++ typeBytes t ++ rest)) evs d' rest ∧
        DataEvs evs ∧ dataOf evs = raw.drop e ∧ Flushed d' i len t ∧ KeepD d d' ∧ d'.seqNo = some (s + zs.length) := by
  intro zs
  induction zs with
  | nil =>
    intro d pre e s hd _ _ hinf
    simp only [List.flatten_nil, List.append_nil] at hinf
    obtain ⟨d', htr, hfl, hk, hsq⟩ := fdat_flush_trace cfg (rest := rest) hd hlen ht hne hinf
    refine ⟨[(.imageDataFlushed, raw.drop e)], d', ?_, .last _, by simp [dataOf], hfl, hk, by simpa using hsq⟩
    simpa [fdats] using htr
  | cons z zs ih =>
    intro d pre e s hd hz hs hinf
    have hinf' : cfg.inflate ((pre ++ z) ++ zs.flatten) = some (raw, true) := by
      simpa [List.append_assoc] using hinf
    obtain ⟨o, b, ho, hpre⟩ := hI.mono _ _ _ _ hinf'
    have hzl := hz z (by simp)
    simp only [List.length_cons] at hs
    generalize hcrc : cfg.crc (typeBytes fdAT ++ (be32Bytes (s + 1) ++ z)) = c
    obtain ⟨d1, htr1, hm, hk1⟩ := fdat_begin_trace cfg (len := 4 + z.length)
      (rest := be32Bytes (s + 1) ++ z ++ (be32Bytes c ++ (fdats cfg (s + 1) zs ++ (be32Bytes len ++ typeBytes t ++ rest))))
      hd hzl (by omega)
    obtain ⟨d2, htr2, hin, hk2⟩ := fdat_body_trace cfg hC
      (tb := fdats cfg (s + 1) zs ++ (be32Bytes len ++ typeBytes t ++ rest)) hm (by omega) ho
    rw [hcrc] at htr2
    obtain ⟨evs, d', htr3, hev, hdata, hfl, hk3, hs3⟩ := ih d2 (pre ++ z) (max e o.length) (s + 1) hin
      (fun z' h => hz z' (by simp [h])) (by omega) hinf'
    refine ⟨([(.chunkBegin (4 + z.length) fdAT, [])] ++
      [(.partialChunk fdAT, []), (.imageData, o.drop e), (.chunkComplete c fdAT, [])]) ++ evs, d', ?_, ?_, ?_, hfl,
      (hk1.trans hk2).trans hk3, by rw [hs3]; simp only [List.length_cons]; congr 1; omega⟩
    · rw [fdats_cons, List.append_assoc, chunk_append, hcrc]
      have hl4 : (be32Bytes (s + 1) ++ z).length = 4 + z.length := by simp [be32Bytes_length]
      rw [hl4]
      exact (htr1.append htr2).append htr3
    · refine DataEvs.append (by
        intro x hx
        simp only [List.cons_append, List.nil_append, List.mem_cons, List.mem_nil_iff, or_false] at hx
        rcases hx with rfl | rfl | rfl | rfl <;> rfl) hev
    · simp only [List.cons_append, List.nil_append, dataOf_cons, hdata, List.nil_append]
      exact drop_of_prefix hpre e

/-- **the whole `fdAT` sequence of a frame as `decode_image_data` sees it**, from behind the `ChunkBegin` of its first
    chunk -/
theorem fdat_sequence_trace (cfg : Cfg) (hI : cfg.InflateOk) (hC : cfg.CrcOk) (i : Info) (raw rest : Bytes)
    (len t : Nat) (hlen : len < 2 ^ 32) (ht : t < 2 ^ 32) (hne : t ≠ fdAT) (z : Bytes) (zs : List Bytes) (d : Dec) (s : Nat)
    (hd : AtFdat d i [] 0 (4 + z.length) s) (hz : ∀ z' ∈ zs, 4 + z'.length < 2 ^ 32) (hs : s + 1 + zs.length < 2 ^ 32)
    (hinf : cfg.inflate (z :: zs).flatten = some (raw, true)) :
    ∃ evs d', Trace cfg (fun d => d.info = some i) d
        (be32Bytes (s + 1) ++ z ++ (be32Bytes (cfg.crc (typeBytes fdAT ++ (be32Bytes (s + 1) ++ z))) ++
          (fdats cfg (s + 1) zs ++ (be32Bytes len ++ typeBytes t ++ rest)))) evs d' rest ∧
      DataEvs evs ∧ dataOf evs = raw ∧ Flushed d' i len t ∧ KeepD d d' ∧ d'.seqNo = some (s + 1 + zs.length) := by
  have hinf' : cfg.inflate (([] ++ z) ++ zs.flatten) = some (raw, true) := by simpa using hinf
  obtain ⟨o, b, ho, hpre⟩ := hI.mono _ _ _ _ hinf'
  obtain ⟨d2, htr2, hin, hk2⟩ := fdat_body_trace cfg hC
    (tb := fdats cfg (s + 1) zs ++ (be32Bytes len ++ typeBytes t ++ rest)) hd (by omega) ho
  obtain ⟨evs, d', htr3, hev, hdata, hfl, hk3, hs3⟩ :=
    fdat_chunks_trace cfg hI hC i raw rest len t hlen ht hne zs d2 ([] ++ z) (max 0 o.length) (s + 1) hin hz hs hinf'
  refine ⟨[(.partialChunk fdAT, []), (.imageData, o.drop 0),
      (.chunkComplete (cfg.crc (typeBytes fdAT ++ (be32Bytes (s + 1) ++ z))) fdAT, [])] ++ evs, d',
    htr2.append htr3, ?_, ?_, hfl, hk2.trans hk3, hs3⟩
  · refine DataEvs.append (by
      intro x hx
      simp only [List.mem_cons, List.mem_nil_iff, or_false] at hx
      rcases hx with rfl | rfl | rfl <;> rfl) hev
  · simp only [List.cons_append, List.nil_append, dataOf_cons, hdata]
    have := drop_of_prefix hpre 0
    simpa using this


theorem AtFdat.setLimit {d : Dec} {i : Info} {pre : Bytes} {e len s : Nat} (h : AtFdat d i pre e len s) (l : Nat) :
    AtFdat { d with limit := l } i pre e len s :=
  ⟨h.state, h.curType, h.remaining, h.zin, h.zemitted, h.out, h.info, h.seqNo, h.readyFdat, h.crcAcc⟩

/-- **from one frame to the next**: behind `ImageDataFlushed` at the type field of an `fcTL` chunk: `ChunkBegin`, the
    frame control event, `ChunkComplete`, and the `ChunkBegin` of the frame's first `fdAT` chunk -/
theorem frame_head_trace (cfg : Cfg) (hC : cfg.CrcOk) {d : Dec} {i : Info} (fc : FrameControl) (len : Nat) (rest : Bytes)
    (hd : Flushed d i 26 fcTL) (hcap : 26 ≤ d.cap) (hfit : fc.Fits) (hseq : SeqOk d.seqNo fc.seq) (hdis : fc.dispose ≤ 2)
    (hbl : fc.blend ≤ 1) (hin : fctlInBounds i fc = true) (hlen : len < 2 ^ 32) (hl : 4 ≤ len) :
    ∃ d', Trace cfg (fun _ => True) d
        (fctlBody fc ++ (be32Bytes (cfg.crc (typeBytes fcTL ++ fctlBody fc)) ++ (be32Bytes len ++ typeBytes fdAT ++ rest)))
        ([(.chunkBegin 26 fcTL, []), (.frameControl fc, []),
          (.chunkComplete (cfg.crc (typeBytes fcTL ++ fctlBody fc)) fcTL, [])] ++ [(.chunkBegin len fdAT, [])]) d' rest ∧
      AtFdat d' { i with fctl := some fc } [] 0 len fc.seq ∧ d'.limit = d.limit ∧ d'.cap = d.cap ∧ d'.opts = d.opts := by
  obtain ⟨t0, t1, t2, t3, _, hte, hst⟩ := hd.state
  have hne : fctlBody fc ++ (be32Bytes (cfg.crc (typeBytes fcTL ++ fctlBody fc)) ++ (be32Bytes len ++ typeBytes fdAT ++ rest)) ≠ [] := by
    simp [fctlBody, be32Bytes]
  -- the pending type
  have hu1 := update_pending_begin_other (cfg := cfg) hst hte hne (by rw [hd.info]; rfl)
    (fun hf => hf.1 hd.curType.symm) (by decide +kernel) (by decide +kernel)
  generalize hD1 : ({ d with state := some (if 26 = 0 then St.parseChunkData fcTL else St.readChunkData fcTL), curType := fcTL, crcAcc := if d.opts.ignoreCrc then d.crcAcc else typeBytes fcTL, remaining := 26, raw := [] } : Dec) = D1 at hu1
  have ho1 : D1.out = [] := by rw [← hD1]; exact hd.out
  have hat : AtFctl D1 i := by
    rw [← hD1]
    refine ⟨rfl, rfl, rfl, rfl, hd.out, hd.info, hcap, fun hig => ?_⟩
    have hig' : d.opts.ignoreCrc = false := hig
    simp [hig']
  have hsq1 : D1.seqNo = d.seqNo := by rw [← hD1]
  have T2 := fctl_body_trace cfg hC fc (be32Bytes len ++ typeBytes fdAT ++ rest) hat hfit (by rw [hsq1]; exact hseq) hdis hbl hin
  obtain ⟨hs2, hc2, hi2, hq2, hz2, hzs2, hze2, hrf2, ho2, _, hop2, hl2, hcp2⟩ := fctlAfter_facts fc hat
  generalize fctlAfter D1 fc = d2 at *
  -- the first `fdAT`
  have hnf : ¬ IsFlush d2 fdAT := by
    intro hf
    have h2 : d2.curType = IDAT ∨ d2.curType = fdAT := hf.2
    rw [hc2] at h2
    exact h2.elim (by decide +kernel) (by decide +kernel)
  have hu3 := update_chunkBegin_fdAT (cfg := cfg) (rest := rest) hs2 hlen hl (by rw [hi2]; rfl) hnf hrf2
  generalize hD3 : ({ d2 with haveIdat := true, state := some (.u32 .seqNo []), curType := fdAT, crcAcc := if d2.opts.ignoreCrc then d2.crcAcc else typeBytes fdAT, remaining := len, raw := [] } : Dec) = D3 at hu3
  have ho3 : D3.out = [] := by rw [← hD3]; exact ho2
  refine ⟨D3.clearOut, ?_, ?_, ?_, ?_, ?_⟩
  · refine Trace.append (e1 := [_, _, _]) ?_ (Trace.one (head8_ne_nil _ _ _) hu3 rfl trivial ho3 (drop_head8 _ _ _))
    exact Trace.cons' hne hu1 ho1 (clearOut_of_nil ho1) trivial List.drop_zero T2
  · rw [← hD3]
    refine ⟨rfl, rfl, rfl, hz2, hze2, rfl, hi2, hq2, hrf2, fun h => ?_⟩
    have h' : d2.opts.ignoreCrc = false := h
    simp [Dec.clearOut, h']
  · rw [← hD3]; show d2.limit = d.limit; rw [hl2, ← hD1]
  · rw [← hD3]; show d2.cap = d.cap; rw [hcp2, ← hD1]
  · rw [← hD3]; show d2.opts = d.opts; rw [hop2, ← hD1]


/-! ## `acTL`; the animation control is kept by every other chunk -/

def PActl (d : Dec) (r : PRes) : Prop := ∀ d' ev, r = .ok (d', ev) → d'.info.map (·.actl) = d.info.map (·.actl)

macro "parser_actl" h:ident : tactic => `(tactic| (
  simp only [bind, Except.bind, eofOr, pure, Except.pure, throw, throwThe, MonadExceptOf.throw, withInfo] at $h:ident
  repeat' split at $h:ident
  all_goals first
    | (cases $h:ident; done)
    | (cases $h:ident
       try (have hr := reserve_eq_limit (by assumption); subst hr)
       simp_all [setInfo, addText, Option.map_map, Function.comp_def])))

theorem parsePlte_actl (d : Dec) : PActl d (parsePlte d) := by
  intro d' ev h; unfold parsePlte at h; parser_actl h
theorem parseSbit_actl (d : Dec) : PActl d (parseSbit d) := by
  intro d' ev h; unfold parseSbit at h; parser_actl h
theorem parseTrns_actl (d : Dec) : PActl d (parseTrns d) := by
  intro d' ev h; unfold parseTrns at h; parser_actl h
theorem parsePhys_actl (d : Dec) : PActl d (parsePhys d) := by
  intro d' ev h; unfold parsePhys at h; parser_actl h
theorem parseChrm_actl (d : Dec) : PActl d (parseChrm d) := by
  intro d' ev h; unfold parseChrm at h; parser_actl h
theorem parseGama_actl (d : Dec) : PActl d (parseGama d) := by
  intro d' ev h; unfold parseGama at h; parser_actl h
theorem parseSrgb_actl (d : Dec) : PActl d (parseSrgb d) := by
  intro d' ev h; unfold parseSrgb at h; parser_actl h
theorem parseCicp_actl (d : Dec) : PActl d (parseCicp d) := by
  intro d' ev h; unfold parseCicp at h; parser_actl h
theorem parseMdcv_actl (d : Dec) : PActl d (parseMdcv d) := by
  intro d' ev h; unfold parseMdcv at h; parser_actl h
theorem parseClli_actl (d : Dec) : PActl d (parseClli d) := by
  intro d' ev h; unfold parseClli at h; parser_actl h
theorem parseExif_actl (d : Dec) : PActl d (parseExif d) := by
  intro d' ev h; unfold parseExif at h; parser_actl h
theorem parseBkgd_actl (d : Dec) : PActl d (parseBkgd d) := by
  intro d' ev h; unfold parseBkgd at h; parser_actl h
theorem parseText_actl (d : Dec) : PActl d (parseText d) := by
  intro d' ev h; unfold parseText at h; parser_actl h
theorem parseZtxt_actl (d : Dec) : PActl d (parseZtxt d) := by
  intro d' ev h; unfold parseZtxt at h; parser_actl h
theorem parseItxt_actl (cfg : Cfg) (d : Dec) : PActl d (parseItxt cfg d) := by
  intro d' ev h; unfold parseItxt at h; parser_actl h

theorem parseFctl_actl (d : Dec) : PActl d (parseFctl d) := by
  intro d' ev h
  obtain ⟨fc, i, _, hi, _, _, _, _, _, _, rfl, _⟩ := (parseFctl_ok_iff d d' ev).mp h
  simp [fctlDone, setInfo, hi]

theorem parseIccpRaw_actl {cfg : Cfg} {d d' : Dec} (h : parseIccpRaw cfg d = .ok d') :
    d'.info.map (·.actl) = d.info.map (·.actl) := by
  unfold parseIccpRaw at h
  simp only [bind, Except.bind, eofOr, pure, Except.pure, throw, throwThe, MonadExceptOf.throw] at h
  repeat' split at h
  all_goals first
    | (cases h; done)
    | (cases h
       have hr := reserve_eq_limit (by assumption); subst hr
       simp [setInfo, Option.map_map, Function.comp_def])

theorem parseIccp_actl (cfg : Cfg) (d : Dec) : PActl d (parseIccp cfg d) := by
  intro d' ev h
  unfold parseIccp at h
  simp only at h
  repeat' split at h
  all_goals first
    | (cases h; done)
    | (cases h; rfl)
    | (cases h; exact parseIccpRaw_actl (d := { d with haveIccp := true }) (by assumption))

local macro "dcase" h:ident c:term "," l:term : tactic =>
  `(tactic| (by_cases hc : $c; (· rw [if_pos hc] at $h:ident; exact $l); rw [if_neg hc] at $h:ident))

theorem dispatch_actl {cfg : Cfg} {d d' : Dec} {t : ChunkType} {ev : Ev} (h1 : t ≠ IHDR) (h2 : t ≠ acTL)
    (h : dispatch cfg d t = .ok (d', ev)) : d'.info.map (·.actl) = d.info.map (·.actl) := by
  unfold dispatch at h
  rw [if_neg h1] at h
  dcase h (t = sBIT), parseSbit_actl _ _ _ h
  dcase h (t = PLTE), parsePlte_actl _ _ _ h
  dcase h (t = tRNS), parseTrns_actl _ _ _ h
  dcase h (t = pHYs), parsePhys_actl _ _ _ h
  dcase h (t = gAMA), parseGama_actl _ _ _ h
  rw [if_neg h2] at h
  dcase h (t = fcTL), parseFctl_actl _ _ _ h
  dcase h (t = cHRM), parseChrm_actl _ _ _ h
  dcase h (t = sRGB), parseSrgb_actl _ _ _ h
  dcase h (t = cICP), parseCicp_actl _ _ _ h
  dcase h (t = mDCV), parseMdcv_actl _ _ _ h
  dcase h (t = cLLI), parseClli_actl _ _ _ h
  dcase h (t = eXIf), parseExif_actl _ _ _ h
  dcase h (t = bKGD), parseBkgd_actl _ _ _ h
  dcase h (t = iCCP ∧ (!d.opts.ignoreIccp) = true), parseIccp_actl _ _ _ _ h
  dcase h (t = tEXt ∧ (!d.opts.ignoreText) = true), parseText_actl _ _ _ h
  dcase h (t = zTXt ∧ (!d.opts.ignoreText) = true), parseZtxt_actl _ _ _ h
  dcase h (t = iTXt ∧ (!d.opts.ignoreText) = true), parseItxt_actl _ _ _ _ h
  cases h; rfl

theorem parseChunk_actl {cfg : Cfg} {d d' : Dec} {t : ChunkType} {ev : Ev} (h1 : t ≠ IHDR) (h2 : t ≠ acTL)
    (h : parseChunk cfg d t = .ok (ev, d')) : d'.info.map (·.actl) = d.info.map (·.actl) := by
  rcases parseChunk_cases h with h | ⟨e, _, _, _, _, rfl⟩
  · exact (dispatch_actl h1 h2 h : d'.info.map (·.actl) = (d.atCrc t).info.map (·.actl))
  · show (benignResidue (d.atCrc t) t).info.map (·.actl) = (d.atCrc t).info.map (·.actl)
    rw [benignResidue_info]

/-- no chunk of the list is an `acTL` -/
def NoActl (cs : List (ChunkType × Bytes)) : Prop := ∀ c ∈ cs, c.1 ≠ acTL

theorem ancStep_actl {cfg : Cfg} {d d' : Dec} {t : ChunkType} {body : Bytes} (hs : AncStep cfg d t body d') (ht : t ≠ acTL) :
    d'.info.map (·.actl) = d.info.map (·.actl) := by
  obtain ⟨ev, d2, hp, rfl⟩ := hs.parse
  exact (parseChunk_actl hs.tIHDR ht hp : d2.info.map (·.actl) = (d.atParse t body).info.map (·.actl))

theorem ancChunks_actl {cfg : Cfg} {d d' : Dec} {cs : List (ChunkType × Bytes)} (h : AncChunks cfg d cs d') (hn : NoActl cs) :
    d'.info.map (·.actl) = d.info.map (·.actl) := by
  induction h with
  | nil d => rfl
  | @cons d0 d1 d' t body cs h1 _ ih =>
    rw [ih (fun c hc => hn c (by simp [hc])), ancStep_actl h1 (hn (t, body) (by simp))]

theorem ancStepG_actl {cfg : Cfg} {d d' : Dec} {t : ChunkType} {body : Bytes} (hs : AncStepG cfg d t body d') (ht : t ≠ acTL) :
    d'.info.map (·.actl) = d.info.map (·.actl) := by
  obtain ⟨cap', limit', _, ev, d2, hp, rfl⟩ := hs.parse
  exact (parseChunk_actl hs.tIHDR ht hp :
    d2.info.map (·.actl) = ({ d.atParse t body with cap := cap', limit := limit' } : Dec).info.map (·.actl))

theorem ancChunksG_actl {cfg : Cfg} {d d' : Dec} {cs : List (ChunkType × Bytes)} (h : AncChunksG cfg d cs d') (hn : NoActl cs) :
    d'.info.map (·.actl) = d.info.map (·.actl) := by
  induction h with
  | nil d => rfl
  | @cons d0 d1 d' t body cs h1 _ ih =>
    rw [ih (fun c hc => hn c (by simp [hc])), ancStepG_actl h1 (hn (t, body) (by simp))]

/-- the decoder after an `acTL` chunk with the counts `(nf, np)` that began in state `d` -/
def actlAfter (d : Dec) (nf np : Nat) : Dec :=
  (setInfo ((d.atParse acTL (actlBody nf np)).atCrc acTL) (fun i => { i with actl := some (nf, np) })).withState
    (some (.u32 .length []))

/-- **`acTL`** before the image data: accepted; `info.actl` holds the two counts -/
theorem ancStep_acTL (cfg : Cfg) (d : Dec) (i : Info) (nf np : Nat) (hnf : nf < 2 ^ 32) (hnp : np < 2 ^ 32)
    (hi : d.info = some i) (hh : d.haveIdat = false) (hcap : 8 ≤ d.cap) :
    AncStep cfg d acTL (actlBody nf np) (actlAfter d nf np) ∧
      (actlAfter d nf np).info = some { i with actl := some (nf, np) } := by
  have hp : parseChunk cfg (d.atParse acTL (actlBody nf np)) acTL =
      .ok (.animationControl nf np, setInfo ((d.atParse acTL (actlBody nf np)).atCrc acTL) (fun i => { i with actl := some (nf, np) })) := by
    apply parseChunk_of_ok
    rw [dispatch_acTL]
    obtain ⟨f1, f2, f3, _, _⟩ := atParse_fields d acTL (actlBody nf np)
    unfold parseActl withInfo
    rw [f3, hh]
    have e1 : rdU32 (actlBody nf np) = some (nf, be32Bytes np) := by
      unfold actlBody; exact rdU32_be32Bytes hnf _
    have e2 : rdU32 (be32Bytes np) = some (np, []) := by simpa using rdU32_be32Bytes hnp []
    simp only [f2, e1, e2, f1, hi, bind, Except.bind, eofOr, Bool.false_eq_true, if_false]
  refine ⟨⟨by decide +kernel, by decide +kernel, by decide +kernel, by decide +kernel, by decide +kernel, acTL_lt,
    by simp [actlBody, be32Bytes], by simpa [actlBody, be32Bytes] using hcap, _, _, hp, rfl⟩, ?_⟩
  show (Option.map (fun i => { i with actl := some (nf, np) }) d.info) = _
  rw [hi]; rfl

/-- **the `fcTL` chunk in front of the `IDAT` chunks** (the `IDAT` image is the first frame of the animation): read
    like any chunk before the image data; afterwards `info.fctl` is the frame control and its sequence number is
    stored -/
theorem fctl0_step (cfg : Cfg) (hC : cfg.CrcOk) {d : Dec} {c : Nat × Nat × Nat × Nat × Bool} {fo : Option FrameControl}
    (fc : FrameControl) (hd : IdleF d c fo) (hcap : 26 ≤ d.cap) (hfit : fc.Fits) (hseq : SeqOk d.seqNo fc.seq)
    (hdis : fc.dispose ≤ 2) (hbl : fc.blend ≤ 1)
    (hin : ∀ i, d.info = some i → fctlInBounds i fc = true) :
    ∃ d', AncTrace cfg d (chunk cfg fcTL (fctlBody fc)) d' ∧ IdleF d' c (some fc) ∧ d'.seqNo = some fc.seq ∧
      d'.limit = d.limit ∧ d'.cap = d.cap ∧ d'.opts = d.opts ∧
      d'.info.map (·.actl) = d.info.map (·.actl) := by
  obtain ⟨i, hi, hcore, _⟩ := hd.info
  have hnf : ¬ IsFlush d fcTL := fun h => hd.notData h.2
  -- what `ChunkBegin` leaves
  generalize hD1 : ({ d with state := some (if 26 = 0 then St.parseChunkData fcTL else St.readChunkData fcTL), curType := fcTL, crcAcc := if d.opts.ignoreCrc then d.crcAcc else typeBytes fcTL, remaining := 26, raw := [] } : Dec) = D1
  have ho1 : D1.out = [] := by rw [← hD1]; exact hd.out
  have hat : AtFctl D1 i := by
    rw [← hD1]
    refine ⟨rfl, rfl, rfl, rfl, hd.out, hi, hcap, fun hig => ?_⟩
    have hig' : d.opts.ignoreCrc = false := hig
    simp [hig']
  have hsq1 : D1.seqNo = d.seqNo := by rw [← hD1]
  obtain ⟨hs2, hc2, hi2, hq2, hz2, _, hze2, _, ho2, hri2, hop2, hl2, hcp2⟩ := fctlAfter_facts fc hat
  refine ⟨fctlAfter D1 fc, ?_, ?_, hq2, ?_, ?_, ?_, ?_⟩
  · intro tb htb
    have hu1 := update_chunkBegin_other (cfg := cfg) (len := 26) (t := fcTL)
      (rest := fctlBody fc ++ (be32Bytes (cfg.crc (typeBytes fcTL ++ fctlBody fc)) ++ tb))
      hd.state (by decide) fcTL_lt (Or.inl (by rw [hi]; rfl)) hnf (by decide +kernel) (by decide +kernel)
    rw [hD1] at hu1
    have T2 := fctl_body_trace cfg hC fc tb hat hfit (by rw [hsq1]; exact hseq) hdis hbl (hin i hi)
    refine ⟨[(.chunkBegin 26 fcTL, []), (.frameControl fc, []),
      (.chunkComplete (cfg.crc (typeBytes fcTL ++ fctlBody fc)) fcTL, [])], ?_, ?_⟩
    · rw [chunk_append, fctlBody_length]
      exact Trace.cons' (head8_ne_nil _ _ _) hu1 ho1 (clearOut_of_nil ho1) trivial (drop_head8 _ _ _) T2
    · intro e he
      simp only [List.mem_cons, List.mem_nil_iff, or_false] at he
      rcases he with rfl | rfl | rfl
      · exact ⟨rfl, by simp, fun _ _ hx => by cases hx; exact ⟨by decide +kernel, by decide +kernel⟩⟩
      · exact ⟨rfl, by simp, fun _ _ hx => by cases hx⟩
      · exact ⟨rfl, by simp, fun _ _ hx => by cases hx⟩
  · refine ⟨hs2, ho2, ⟨_, hi2, hcore, rfl⟩, ?_, ?_, hz2, hze2⟩
    · rw [hc2]; exact fun h => h.elim (by decide +kernel) (by decide +kernel)
    · rw [hri2, ← hD1]; exact hd.readyIdat
  · rw [hl2, ← hD1]
  · rw [hcp2, ← hD1]
  · rw [hop2, ← hD1]
  · rw [hi2, hi]; rfl

end Png.Framing
