import PngVerif.Proofs.ValidatorContent
import PngVerif.Proofs.ValidatorImage
import PngVerif.Proofs.ValidatorCongr
/-!
# C12 composition: the whole validator on the writer model's output

`writer_validChunks`: rules 2–6 (`validChunks`: IHDR, chunk summaries, sequencing automaton with the image
rule, placement pass, payload pass) accept the chunk list in the sink, for the domain of `C12_writer`
(`Cfg.WellFormed`, `SuppliesDeclaredImages`) extended by what the two passes need: `Cfg.PayloadsOk` and,
for the pass-through operations, `Op.passFree` / `Op.textOk`.
-/
namespace Png.Enc
open Png Png.Val Png.Spec

/-- `write_header` only succeeds on a non-empty canvas with a legal colour type / bit depth pair -/
theorem writeHeader_ok_dims (c : Cfg) (beh : SinkBehaviour) (h : (writeHeader c beh).2 = .ok) :
    c.width ≠ 0 ∧ c.height ≠ 0 ∧ combinationInvalid c.color c.depth = false := by
  unfold writeHeader at h
  by_cases hw0 : c.width = 0
  · simp [hw0] at h
  · by_cases hh0 : c.height = 0
    · simp [hw0, hh0] at h
    · cases hci : combinationInvalid c.color c.depth with
      | true => simp [hw0, hh0, hci] at h
      | false => exact ⟨hw0, hh0, rfl⟩

/-- what C12 asks of the pass-through operations beyond `Op.inRange` -/
def Op.passOk (o : Op) : Prop := o.passFree ∧ o.textOk

instance (o : Op) : Decidable o.passOk := by unfold Op.passOk; infer_instance

/-! ## IEND only at the end -/

theorem summarize_iend_ty (c : RChunk) (h : c.ty = tyIEND) : summarize c = .ok (.iend c.data.length) := by
  simp [summarize, h, tyIEND, tyIHDR, tyPLTE, tyIDAT]

theorem stepIend_done {imgOk : ImgRule} {sk sk' : Sk} {len : Nat} (h : stepIend imgOk sk len = .ok sk') :
    sk'.phase = .done := by
  unfold stepIend at h
  cases hc : closeRun imgOk sk with
  | error e => simp [hc] at h
  | ok s1 =>
    simp only [hc] at h
    split at h
    · cases h
    · split at h
      · cases h
      · split at h
        · cases h
        · split at h
          · cases h
          · simp only [Except.ok.injEq] at h
            rw [← h]

theorem skRunR_done_nil {imgOk : ImgRule} {sk sk' : Sk} {cs : List RChunk} (hd : sk.phase = .done)
    (h : skRunR imgOk sk cs = .ok sk') : cs = [] := by
  cases cs with
  | nil => rfl
  | cons c cs =>
    exfalso
    simp only [skRunR] at h
    cases hs : summarize c with
    | error e => simp [hs] at h
    | ok s => simp [hs, skStep, hd] at h

/-- a chunk list the sequencing automaton runs through has no IEND before its last chunk -/
theorem skRunR_iend_last (imgOk : ImgRule) : ∀ (cs : List RChunk) (sk sk' : Sk),
    skRunR imgOk sk cs = .ok sk' → IendOnlyLast cs := by
  intro cs
  induction cs with
  | nil => intro _ _ _ c hc; simp at hc
  | cons c cs ih =>
    intro sk sk' h
    simp only [skRunR] at h
    cases hs : summarize c with
    | error e => simp [hs] at h
    | ok s =>
      simp only [hs] at h
      cases hk : skStep imgOk sk s with
      | error e => simp [hk] at h
      | ok sk1 =>
        simp only [hk] at h
        have hrest := ih sk1 sk' h
        cases cs with
        | nil => intro x hx; simp at hx
        | cons c2 cs2 =>
          intro x hx
          simp only [List.dropLast_cons_cons, List.mem_cons] at hx
          rcases hx with hx | hx
          · subst hx
            intro hty
            rw [summarize_iend_ty x hty] at hs
            simp only [Except.ok.injEq] at hs
            subst hs
            simp only [skStep] at hk
            split at hk
            · cases hk
            · have := skRunR_done_nil (stepIend_done hk) h
              cases this
          · exact hrest x hx

theorem skRunR_of_mapM (imgOk : ImgRule) : ∀ (cs : List RChunk) (sums : List CSum) (sk : Sk),
    cs.mapM summarize = .ok sums → skRunR imgOk sk cs = skRun imgOk sk sums := by
  intro cs
  induction cs with
  | nil =>
    intro sums sk h
    simp only [List.mapM_nil, pure, Except.pure, Except.ok.injEq] at h
    subst h; rfl
  | cons c cs ih =>
    intro sums sk h
    rw [List.mapM_cons] at h
    cases hs : summarize c with
    | error e => rw [hs] at h; cases h
    | ok s =>
      rw [hs] at h
      cases hm : cs.mapM summarize with
      | error e => rw [hm] at h; cases h
      | ok ss =>
        rw [hm] at h
        simp only [bind, Except.bind, pure, Except.pure, Except.ok.injEq] at h
        subst h
        simp only [skRunR, hs, skRun]
        cases hk : skStep imgOk sk s with
        | error e => rfl
        | ok sk1 => exact ih ss sk1 hm

/-- a chunk list accepted by the sequencing rules has IEND only at the end -/
theorem skeleton_iend_last {imgOk : ImgRule} {cw ch color : Nat} {rest : List RChunk}
    (h : skeletonOfChunks imgOk cw ch color rest = .ok ()) : IendOnlyLast rest := by
  unfold skeletonOfChunks at h
  cases hm : rest.mapM summarize with
  | error e => simp [hm] at h
  | ok sums =>
    simp only [hm, skeletonOk] at h
    cases hr : skRun imgOk { cw, ch, color } sums with
    | error e => simp [hr] at h
    | ok sk =>
      have := skRunR_of_mapM imgOk rest sums { cw, ch, color } hm
      rw [hr] at this
      exact skRunR_iend_last imgOk rest _ _ this

theorem iend_last_cons {c0 : RChunk} {rest : List RChunk} (h0 : c0.ty ≠ tyIEND) (h : IendOnlyLast rest) :
    IendOnlyLast (c0 :: rest) := by
  cases rest with
  | nil => intro x hx; simp at hx
  | cons c1 r =>
    intro x hx
    simp only [List.dropLast_cons_cons, List.mem_cons] at hx
    rcases hx with hx | hx
    · subst hx; exact h0
    · exact h x hx

/-! ## Chunk-list level -/

/-- the contract of the whole-image back-end for the images that fit a `cw × ch` canvas: the output is never
    empty, and the image rule accepts it when the image is no larger than the canvas.  (`Codec.Ok` asks this
    of ALL sizes; no compressor can deliver that under `realImgOk`, whose inflater stops at 2^40 bytes.) -/
def Codec.OkWithin (imgOk : ImgRule) (E : Codec) (color depth cw ch : Nat) : Prop :=
  ∀ w h data, data.length = (rawRowLengthFromWidth color depth w - 1) * h →
    E.encode (bytesPerPixel color depth) (rawRowLengthFromWidth color depth w - 1) h data ≠ [] ∧
    (w ≤ cw → h ≤ ch →
      imgOk w h (E.encode (bytesPerPixel color depth) (rawRowLengthFromWidth color depth w - 1) h data) = .ok ())

theorem Codec.Ok.okWithin {imgOk : ImgRule} {E : Codec} {color depth : Nat} (h : Codec.Ok imgOk E color depth)
    (cw ch : Nat) : Codec.OkWithin imgOk E color depth cw ch :=
  fun w hh data hl => ⟨(h w hh data hl).1, fun _ _ => (h w hh data hl).2⟩

theorem Codec.OkWithin.ok {imgOk : ImgRule} {E : Codec} {color depth cw ch : Nat}
    (h : Codec.OkWithin imgOk E color depth cw ch) : Codec.Ok (within cw ch imgOk) E color depth := by
  intro w hh data hl
  obtain ⟨h1, h2⟩ := h w hh data hl
  refine ⟨h1, ?_⟩
  unfold within
  split
  · rename_i hle; exact h2 hle.1 hle.2
  · rfl

/-- **rules 2–6 of the validator accept the chunk list the writer model leaves in the sink** — for every
    image rule under which the back-end meets its contract on the images that fit the canvas; the list is
    `headerChunks c` followed by chunks of the class `BodyChunk ops`, IEND only at the end, and the bytes in
    the sink are its serialisation -/
theorem writer_validChunks (imgOkOf : Ihdr → ImgRule) (E : Codec) (c : Cfg) (hw : c.WellFormed) (hp : c.PayloadsOk)
    (hE : Codec.OkWithin (imgOkOf (ihdrOfCfg c)) E c.color c.depth c.width c.height) (ops : List Op) (fin : Final)
    (hdom : SuppliesDeclaredImages E c ops) (hpass : ∀ op ∈ ops, op.passOk) :
    validChunks imgOkOf (runWriter E c {} ops fin).state.sink.chunks = .ok () ∧
    ∃ body, (∀ b ∈ body, BodyChunk ops b) ∧ IendOnlyLast (headerChunks c ++ body) ∧
      (runWriter E c {} ops fin).state.sink.chunks = headerChunks c ++ body ∧
      (runWriter E c {} ops fin).state.sink.bytes = fileBytes (headerChunks c ++ body) := by
  obtain ⟨_, _, _, rest, hch, hsk⟩ :=
    writer_skeleton_valid (within c.width c.height (imgOkOf (ihdrOfCfg c))) E c hw hE.ok ops fin hdom
  rw [skeleton_congr (within_agree c.width c.height _)] at hsk
  obtain ⟨body, hb, hcs, hby⟩ := runWriter_chunks_bytes E c ops fin hdom.1
  have hil : IendOnlyLast (headerChunks c ++ body) := by
    rw [← hcs, hch]
    exact iend_last_cons (by show tyIHDR ≠ tyIEND; decide) (skeleton_iend_last hsk)
  refine ⟨?_, body, hb, hil, hcs, hby⟩
  obtain ⟨w0, h0, hci⟩ := writeHeader_ok_dims c {} hdom.1
  obtain ⟨⟨i1, i2, i3, i4, _, _⟩, _, _, htx⟩ := hw
  have hr := AllAllowed.inRange E ops _ hdom.2.1
  have hf : ∀ op ∈ ops, op.passFree := fun op h => (hpass op h).1
  have ht : ∀ op ∈ ops, op.textOk := fun op h => (hpass op h).2
  have hih := parseIhdr_mkIhdr c ⟨by omega, i1⟩ ⟨by omega, i2⟩ i3 i4 hci
  have hord := order_ok_of_shape c ops body htx hr hf hb
  have hcon := content_ok_of_shape c ops body htx hp hr hf ht hb
  rw [← hcs] at hord hcon
  rw [hch] at hord hcon ⊢
  simp only [validChunks]
  have hty : (mkIhdr c).ty = tyIHDR := rfl
  simp only [hty, ne_eq, not_true_eq_false, if_false, hih]
  have hsk' : skeletonOfChunks (imgOkOf (ihdrOfCfg c)) (ihdrOfCfg c).width (ihdrOfCfg c).height (ihdrOfCfg c).color rest = .ok () := hsk
  simp only [hsk', hord, hcon]

/-! ## Byte level -/

/-- the blobs of a configuration fit the length field: `Writer::write_chunk` refuses a payload of more than
    2^31-1 bytes (iCCP, eXIf; the model's `headerChunks` does not represent that refusal, so it is a
    hypothesis here); the text chunks are written by `encoder::write_chunk`, which does NOT check -/
def Cfg.SizesOk (c : Cfg) : Prop :=
  (∀ d ∈ c.md.iccp, d.length < 2 ^ 31) ∧ (∀ d ∈ c.md.exif, d.length < 2 ^ 31) ∧
  (∀ r, some r ∈ c.texts → r.data.length < 2 ^ 31)

instance (c : Cfg) : Decidable c.SizesOk := by
  unfold Cfg.SizesOk
  have : Decidable (∀ r, some r ∈ c.texts → r.data.length < 2 ^ 31) :=
    decidable_of_iff (∀ t ∈ c.texts, ∀ r, t = some r → r.data.length < 2 ^ 31) (by
      constructor
      · intro h r hr; exact h (some r) hr r rfl
      · intro h t ht r hr; subst hr; exact h r ht)
  infer_instance

/-- what the byte level asks of the pass-through operations: a raw chunk's type is four ASCII letters
    (`ChunkType` is any `[u8; 4]`), a text chunk's body fits the length field -/
def Op.wireOk : Op → Prop
  | .chunk ty _ => tyLetters ty = true
  | .text (some c) => c.data.length < 2 ^ 31
  | _ => True

instance (o : Op) : Decidable o.wireOk := by
  cases o <;> try (simp only [Op.wireOk]; infer_instance)
  rename_i b; cases b <;> simp only [Op.wireOk] <;> infer_instance

theorem header_wire (c : Cfg) (hw : c.WellFormed) (hp : c.PayloadsOk) (hs : c.SizesOk) :
    ∀ x ∈ headerChunks c, x.data.length < 2 ^ 31 ∧ tyLetters x.ty = true := by
  obtain ⟨⟨_, _, hcol, _, _, _⟩, _, hpal, htx⟩ := hw
  obtain ⟨p1, p2, p3, p4, p5, p6⟩ := hp
  obtain ⟨s1, s2, s3⟩ := hs
  intro x hx
  rw [headerChunks_eq'] at hx
  simp only [List.mem_append] at hx
  rcases hx with hx | hx | hx | hx
  · rcases headerPre_mem c hx with h | h | ⟨n, p, _, h⟩
    · subst h; exact ⟨by simp [mkIhdr, be32Bytes], by show tyLetters tyIHDR = true; decide⟩
    · refine ⟨?_, ?_⟩
      · simp only [preChunks, List.mem_append] at h
        rcases h with (h | h) | h
        · cases hph : c.md.phys with
          | none => simp [hph, optChunk] at h
          | some p =>
            simp only [hph, optChunk, List.mem_singleton] at h
            subst h
            rw [(p1 p (by simp [hph])).1]; decide
        · cases hsr : c.md.srgb with
          | some i =>
            simp only [hsr, List.mem_append, List.mem_cons, List.not_mem_nil, or_false] at h
            rcases h with (h | h) | h
            · subst h; simp
            · split at h <;> simp at h
              subst h; simp [be32Bytes]
            · split at h <;> simp at h
              subst h; rw [substChrm_length]; decide
          | none =>
            simp only [hsr, List.mem_append] at h
            rcases h with (h | h) | h
            · cases hg : c.md.gama with
              | none => simp [hg, optChunk] at h
              | some g =>
                simp only [hg, Option.map_some, optChunk, List.mem_singleton] at h
                subst h; simp [be32Bytes]
            · cases hch : c.md.chrm with
              | none => simp [hch, optChunk] at h
              | some b =>
                simp only [hch, optChunk, List.mem_singleton] at h
                subst h
                rw [p3 hsr b (by simp [hch])]; decide
            · cases hic : c.md.iccp with
              | none => simp [hic, optChunk] at h
              | some d =>
                simp only [hic, optChunk, List.mem_singleton] at h
                subst h
                exact s1 d (by simp [hic])
        · cases hex : c.md.exif with
          | none => simp [hex, optChunk] at h
          | some d =>
            simp only [hex, optChunk, List.mem_singleton] at h
            subst h
            exact s2 d (by simp [hex])
      · have := preChunks_types c.md x h
        simp only [headerAncTypes, List.mem_cons, List.not_mem_nil, or_false] at this
        rcases this with h | h | h | h | h | h | h | h | h | h <;> rw [h] <;> decide
    · subst h; exact ⟨by simp [mkActl, be32Bytes], by show tyLetters tyACTL = true; decide⟩
  · cases hpl : c.palette with
    | none => simp [hpl, optChunk] at hx
    | some p =>
      simp only [hpl, optChunk, List.mem_singleton] at hx
      subst hx
      obtain ⟨_, _, _, _, q5⟩ := hpal p (by simp [hpl])
      exact ⟨by simp only; omega, by show tyLetters tyPLTE = true; decide⟩
  · cases htr : c.trns with
    | none => simp [htr, optChunk] at hx
    | some t =>
      simp only [htr, optChunk, List.mem_singleton] at hx
      subst hx
      refine ⟨?_, by show tyLetters tyTRNS = true; decide⟩
      obtain ⟨t1, t2, t3, t4, t5⟩ := p5 t (by simp [htr])
      simp only [colorOk, Bool.or_eq_true, beq_iff_eq] at hcol
      have hpe : c.plteEntries ≤ 256 := by
        unfold Cfg.plteEntries
        cases hpl : c.palette with
        | none => simp
        | some p =>
          obtain ⟨_, _, _, _, q5⟩ := hpal p (by simp [hpl])
          simp only; omega
      simp only
      rcases hcol with (((h | h) | h) | h) | h
      · rw [t3 h]; decide
      · rw [t4 h]; decide
      · have := t5 h; omega
      · exact absurd h t1
      · exact absurd h t2
  · have hm := textPrefix_mem c.texts x hx
    refine ⟨s3 x hm, ?_⟩
    have := htx x hm
    simp only [textTypes, List.mem_cons, List.not_mem_nil, or_false] at this
    rcases this with h | h | h <;> rw [h] <;> decide

theorem body_wire {ops : List Op} (hr : ∀ op ∈ ops, op.inRange) (hwi : ∀ op ∈ ops, op.wireOk) {b : RChunk}
    (hb : BodyChunk ops b) : b.data.length < 2 ^ 31 ∧ tyLetters b.ty = true := by
  cases hb with
  | fctl f => exact ⟨by simp [mkFctl, be32Bytes, be16Bytes], by show tyLetters tyFCTL = true; decide⟩
  | data ty d h hl => exact ⟨by simp only; omega, by show tyLetters ty = true; rcases h with h | h <;> subst h <;> decide⟩
  | raw ty d hm hl => exact ⟨by simp only; omega, hwi _ hm⟩
  | text _ hm =>
    refine ⟨hwi _ hm, ?_⟩
    have : b.ty ∈ textTypes := hr _ hm
    simp only [textTypes, List.mem_cons, List.not_mem_nil, or_false] at this
    rcases this with h | h | h <;> rw [h] <;> decide
  | iend => exact ⟨by simp [iendChunk], by decide⟩

/-- **the whole validator accepts the BYTES the writer model leaves in the sink** — for every back-end that
    meets its contract under the executable image rule `realImgOk` on the images that fit the canvas -/
theorem writer_validPng (E : Codec) (c : Cfg) (hw : c.WellFormed) (hp : c.PayloadsOk) (hs : c.SizesOk)
    (hE : Codec.OkWithin (realImgOk (ihdrOfCfg c)) E c.color c.depth c.width c.height) (ops : List Op) (fin : Final)
    (hdom : SuppliesDeclaredImages E c ops) (hpass : ∀ op ∈ ops, op.passOk) (hwire : ∀ op ∈ ops, op.wireOk) :
    validPng (ofList (runWriter E c {} ops fin).state.sink.bytes) = .ok () := by
  obtain ⟨hv, body, hb, hil, hcs, hby⟩ := writer_validChunks realImgOk E c hw hp hE ops fin hdom hpass
  have hr := AllAllowed.inRange E ops _ hdom.2.1
  have hwireAll : ∀ x ∈ headerChunks c ++ body, x.data.length < 2 ^ 31 ∧ tyLetters x.ty = true := by
    intro x hx
    simp only [List.mem_append] at hx
    rcases hx with hx | hx
    · exact header_wire c hw hp hs x hx
    · exact body_wire hr hwire (hb x hx)
  unfold validPng
  rw [hby, parse_fileBytes _ (fun x hx => (hwireAll x hx).1) (fun x hx => (hwireAll x hx).2) hil]
  simp only
  rw [← hcs]; exact hv

/-- the real shape of `write_image_data` (filter every row somehow, then compress) meets the contract under
    `realImgOk` for every compressor whose output is never empty and that the Lean inflater inverts, as one
    whole zlib stream, on the scanline streams of the images that fit the canvas -/
theorem scanCodec_okWithin (compress : Bytes → Bytes) (choose : Bytes → Bytes → FilterType) (ih : Ihdr)
    (hi : ih.interlace = 0) (hd : depthOk ih.depth = true) (cw ch : Nat) (hne : ∀ x, compress x ≠ [])
    (hic : ∀ w h x, w ≤ cw → h ≤ ch → x.length = h * (1 + (rawRowLengthFromWidth ih.color ih.depth w - 1)) →
      realInflate (compress x) = some x) :
    Codec.OkWithin (realImgOk ih) (scanCodec compress choose) ih.color ih.depth cw ch := by
  intro w h d hdl
  obtain ⟨h1, h2⟩ := rowsOf_spec _ h d hdl
  refine ⟨hne _, fun hw hh => ?_⟩
  rw [← specImgOk_iff_realImgOk ih hi hd]
  have hl := encodeScanlines_length choose (bytesPerPixel ih.color ih.depth) _ _ h2 []
  rw [h1] at hl
  simp only [specImgOk, scanCodec, hic w h _ hw hh hl]
  simp only [hl, ne_eq, not_true_eq_false, if_false]
  have hdec := decode_encode_scanlines choose (bytesPerPixel ih.color ih.depth) _ _ h2 [] []
  rw [h1, List.append_nil] at hdec
  rw [hdec]

/-- `writer_validPng` for that back-end -/
theorem scan_validPng (compress : Bytes → Bytes) (choose : Bytes → Bytes → FilterType)
    (c : Cfg) (hw : c.WellFormed) (hp : c.PayloadsOk) (hs : c.SizesOk) (hne : ∀ x, compress x ≠ [])
    (hic : ∀ w h x, w ≤ c.width → h ≤ c.height → x.length = h * (1 + (rawRowLengthFromWidth c.color c.depth w - 1)) →
      realInflate (compress x) = some x)
    (ops : List Op) (fin : Final)
    (hdom : SuppliesDeclaredImages (scanCodec compress choose) c ops)
    (hpass : ∀ op ∈ ops, op.passOk) (hwire : ∀ op ∈ ops, op.wireOk) :
    validPng (ofList (runWriter (scanCodec compress choose) c {} ops fin).state.sink.bytes) = .ok () :=
  writer_validPng _ c hw hp hs
    (scanCodec_okWithin compress choose (ihdrOfCfg c) rfl hw.1.2.2.2.1 c.width c.height hne hic)
    ops fin hdom hpass hwire

end Png.Enc
