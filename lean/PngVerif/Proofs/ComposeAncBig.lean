import PngVerif.Proofs.ComposeAnc
/-!
# Chunks between `IHDR` and the image data that are longer than the chunk buffer

`Proofs/ComposeAnc.lean` treats chunks whose body fits the chunk buffer (`CHUNK_BUFFER_SIZE`, 32 KiB, until it grows).
A longer body is collected in rounds: when the buffer is full the decoder reports `PartialChunk`, pays for a larger
buffer out of the limits (`reserve_current_chunk`: at most doubling it) and goes on collecting; when the body is
complete it is parsed as before.  `growCap` computes the buffer capacity and the limit after these rounds;
`AncStepG` / `anc_step_g` are `AncStep` / `anc_step` without the length restriction.
-/
namespace Png.Framing
open Png Png.WellFormed

/-- the chunk buffer's capacity and the limit when a body of `L` bytes has been collected, starting from capacity `cap`
    and limit `limit`: every round adds `min(cap, limit − cap)` bytes and pays for them; `none` when the limit does not
    allow the buffer to grow (or the fuel runs out) -/
def growCap (L : Nat) : Nat → Nat → Nat → Option (Nat × Nat)
  | 0, _, _ => none
  | f + 1, cap, limit =>
    if L ≤ cap then some (cap, limit) else
    if min cap (limit - cap) = 0 then none else growCap L f (cap + min cap (limit - cap)) (limit - min cap (limit - cap))

/-! ## one round: fill the buffer, grow it -/

theorem stepRead_part (D : Dec) (t : ChunkType) (piece rest : Bytes) (hk : piece.length = D.cap - D.raw.length)
    (hk0 : piece ≠ []) (hrem : piece.length < D.remaining) :
    stepRead D t (piece ++ rest) =
      .ok (piece.length, .nothing, (D.readPiece piece.length piece).withState (some (.readChunkData t))) := by
  have hlen : 0 < piece.length := by cases piece with | nil => exact absurd rfl hk0 | cons _ _ => simp
  unfold stepRead
  rw [if_neg (by omega)]
  simp only
  rw [if_neg (by omega)]
  have hn : min D.remaining (min (piece ++ rest).length (D.cap - D.raw.length)) = piece.length := by
    simp only [List.length_append]; omega
  rw [hn, List.take_left' rfl]
  have : (D.readPiece piece.length piece).remaining ≠ 0 := by simp only [Dec.readPiece]; omega
  rw [if_neg this]; rfl

theorem stepRead_full (D : Dec) (t : ChunkType) (buf : Bytes) (hrem : D.remaining ≠ 0) (hfull : D.cap - D.raw.length = 0) :
    stepRead D t buf = .ok (0, .nothing, D.withState (some (.parseChunkData t))) := by
  unfold stepRead
  rw [if_neg hrem]
  simp only
  rw [if_pos hfull]; rfl

theorem reserveCurrentChunk_ok' (D : Dec) (hr : min D.raw.length (D.limit - D.cap) ≠ 0) :
    reserveCurrentChunk D =
      .ok { D with limit := D.limit - min D.raw.length (D.limit - D.cap),
                   cap := max D.cap (D.raw.length + min D.raw.length (D.limit - D.cap)) } := by
  unfold reserveCurrentChunk
  simp only
  rw [if_neg (by omega)]
  rw [if_neg (show ¬ (max D.cap (D.raw.length + min D.raw.length (D.limit - D.cap)) = D.raw.length) by omega)]

/-- the decoder after one round on the `piece` that fills the buffer -/
def Dec.grown (d : Dec) (t : ChunkType) (piece : Bytes) : Dec :=
  { (d.withState none).readPiece piece.length piece with
      limit := d.limit - min (d.raw ++ piece).length (d.limit - d.cap),
      cap := max d.cap ((d.raw ++ piece).length + min (d.raw ++ piece).length (d.limit - d.cap)),
      state := some (.readChunkData t) }

/-- **one round**: the bytes that fill the chunk buffer are collected; the buffer grows; `PartialChunk` -/
theorem update_grow {cfg : Cfg} {d : Dec} {t : ChunkType} {piece rest : Bytes}
    (hs : d.state = some (.readChunkData t)) (hk : piece.length = d.cap - d.raw.length) (hk0 : piece ≠ [])
    (hrem : piece.length < d.remaining) (hrest : rest ≠ [])
    (hr : min (d.raw ++ piece).length (d.limit - d.cap) ≠ 0) :
    update cfg d (piece ++ rest) = (d.grown t piece, .ok (piece.length, .partialChunk t)) := by
  have h1 : nextState cfg d (.readChunkData t) (piece ++ rest) =
      .ok (piece.length, .nothing, ((d.withState none).readPiece piece.length piece).withState (some (.readChunkData t))) :=
    stepRead_part (d.withState none) t piece rest hk hk0 hrem
  refine update_of_nothing (m := 0) hs (by simp [hk0]) h1 ?_
  rw [List.drop_left' rfl]
  generalize hD1 : ((d.withState none).readPiece piece.length piece) = D1
  have hrem1 : D1.remaining ≠ 0 := by rw [← hD1]; simp only [Dec.readPiece, Dec.withState]; omega
  have hfull1 : D1.cap - D1.raw.length = 0 := by
    rw [← hD1]; simp only [Dec.readPiece, Dec.withState, List.length_append]; omega
  have h2 : nextState cfg (D1.withState (some (.readChunkData t))) (.readChunkData t) rest =
      .ok (0, .nothing, D1.withState (some (.parseChunkData t))) :=
    stepRead_full (D1.withState none) t rest hrem1 hfull1
  refine update_of_nothing (m := 0) rfl hrest h2 ?_
  rw [List.drop_zero]
  refine update_ok_of_step rfl hrest ?_ (by simp)
  show stepParse cfg (D1.withState none) t = _
  unfold stepParse
  rw [if_neg (show ¬ (D1.withState none).remaining = 0 from hrem1)]
  have hraw1 : (D1.withState none).raw = d.raw ++ piece := by rw [← hD1]; rfl
  have hlim1 : (D1.withState none).limit = d.limit := by rw [← hD1]; rfl
  have hcap1 : (D1.withState none).cap = d.cap := by rw [← hD1]; rfl
  rw [reserveCurrentChunk_ok' _ (by rw [hraw1, hlim1, hcap1]; exact hr)]
  simp only [Except.map, hraw1, hlim1, hcap1]
  rw [← hD1]
  rfl

/-! ## all rounds -/

/-- in the middle of collecting the body `body` of a chunk of type `t`: `got` bytes are in the buffer -/
structure Collecting (d : Dec) (t : ChunkType) (body : Bytes) (got : Nat) : Prop where
  state : d.state = some (.readChunkData t)
  raw : d.raw = body.take got
  gotLe : got ≤ body.length
  remaining : d.remaining = body.length - got
  room : got < d.cap
  out : d.out = []
  crcAcc : d.opts.ignoreCrc = false → d.crcAcc = typeBytes t ++ body.take got

/-- what the rounds leave alone -/
structure KeepG (d d' : Dec) : Prop where
  opts : d'.opts = d.opts
  info : d'.info = d.info
  curType : d'.curType = d.curType
  zin : d'.zin = d.zin
  zstarted : d'.zstarted = d.zstarted
  zemitted : d'.zemitted = d.zemitted
  seqNo : d'.seqNo = d.seqNo
  haveIdat : d'.haveIdat = d.haveIdat
  readyIdat : d'.readyIdat = d.readyIdat
  readyFdat : d'.readyFdat = d.readyFdat
  haveIccp : d'.haveIccp = d.haveIccp

theorem KeepG.refl (d : Dec) : KeepG d d := ⟨rfl, rfl, rfl, rfl, rfl, rfl, rfl, rfl, rfl, rfl, rfl⟩
theorem KeepG.trans {a b c : Dec} (h1 : KeepG a b) (h2 : KeepG b c) : KeepG a c :=
  ⟨h2.opts.trans h1.opts, h2.info.trans h1.info, h2.curType.trans h1.curType, h2.zin.trans h1.zin,
   h2.zstarted.trans h1.zstarted, h2.zemitted.trans h1.zemitted, h2.seqNo.trans h1.seqNo, h2.haveIdat.trans h1.haveIdat,
   h2.readyIdat.trans h1.readyIdat, h2.readyFdat.trans h1.readyFdat, h2.haveIccp.trans h1.haveIccp⟩

/-- **the growth rounds**: from `got` collected bytes (the buffer has room) the decoder collects until the rest of the
    body fits the buffer, reporting one `PartialChunk` per round; capacity and limit end as `growCap` says -/
theorem grow_trace (cfg : Cfg) (t : ChunkType) (body tb : Bytes) (htb : tb ≠ []) (cap' limit' : Nat) :
    ∀ (fuel : Nat) (d : Dec) (got : Nat), Collecting d t body got →
      growCap body.length fuel d.cap d.limit = some (cap', limit') →
      ∃ evs d' got', Trace cfg (fun _ => True) d (body.drop got ++ tb) evs d' (body.drop got' ++ tb) ∧
        (∀ e ∈ evs, e = (Ev.partialChunk t, ([] : Bytes))) ∧ Collecting d' t body got' ∧ body.length ≤ d'.cap ∧
        d'.cap = cap' ∧ d'.limit = limit' ∧ KeepG d d' ∧ (got < body.length → got' < body.length) ∧
        (d.opts.ignoreCrc = true → d'.crcAcc = d.crcAcc) ∧ d'.limit ≤ d.limit ∧ d.cap ≤ d'.cap := by
  intro fuel
  induction fuel with
  | zero => intro d got _ h; simp [growCap] at h
  | succ fuel ih =>
    intro d got hc hg
    unfold growCap at hg
    by_cases hfit : body.length ≤ d.cap
    · rw [if_pos hfit] at hg
      simp only [Option.some.injEq, Prod.mk.injEq] at hg
      exact ⟨[], d, got, .nil _ _, fun _ h => absurd h (List.not_mem_nil), hc, hfit, hg.1, hg.2, KeepG.refl d, id,
        fun _ => rfl, Nat.le_refl _, Nat.le_refl _⟩
    · rw [if_neg hfit] at hg
      by_cases hr0 : min d.cap (d.limit - d.cap) = 0
      · rw [if_pos hr0] at hg; cases hg
      · rw [if_neg hr0] at hg
        -- the piece that fills the buffer
        have hgot := hc.gotLe
        have hroom := hc.room
        generalize hk : d.cap - got = k
        have hk1 : 0 < k := by omega
        have hkle : got + k ≤ body.length := by omega
        have hrawlen : d.raw.length = got := by rw [hc.raw, List.length_take]; omega
        generalize hpiece : (body.drop got).take k = piece
        have hplen : piece.length = k := by rw [← hpiece, List.length_take, List.length_drop]; omega
        have hsplit : body.drop got = piece ++ body.drop (got + k) := by
          rw [← hpiece, ← List.drop_drop, List.take_append_drop]
        have hrawp : d.raw ++ piece = body.take (got + k) := by
          rw [hc.raw, ← hpiece, List.take_add]
        have hrplen : (d.raw ++ piece).length = d.cap := by
          rw [hrawp, List.length_take]; omega
        have hu := update_grow (cfg := cfg) (d := d) (t := t) (piece := piece) (rest := body.drop (got + k) ++ tb)
          hc.state (by rw [hplen, hrawlen]; omega) (by intro h; rw [h] at hplen; simp at hplen; omega)
          (by rw [hplen, hc.remaining]; omega) (by simp [htb]) (by rw [hrplen]; exact hr0)
        have hc1 : Collecting (d.grown t piece) t body (got + k) := by
          refine ⟨rfl, ?_, hkle, ?_, ?_, hc.out, ?_⟩
          · show d.raw ++ piece = _; exact hrawp
          · show d.remaining - piece.length = _; rw [hc.remaining, hplen]; omega
          · show got + k < max d.cap ((d.raw ++ piece).length + min (d.raw ++ piece).length (d.limit - d.cap))
            rw [hrplen]; omega
          · intro hig
            have hig' : d.opts.ignoreCrc = false := hig
            show (if d.opts.ignoreCrc then d.crcAcc else d.crcAcc ++ piece) = _
            rw [hig', hc.crcAcc hig', ← hpiece, List.take_add]; simp
        have hcap1 : (d.grown t piece).cap = d.cap + min d.cap (d.limit - d.cap) := by
          show max d.cap ((d.raw ++ piece).length + min (d.raw ++ piece).length (d.limit - d.cap)) = _
          rw [hrplen]; omega
        have hlim1 : (d.grown t piece).limit = d.limit - min d.cap (d.limit - d.cap) := by
          show d.limit - min (d.raw ++ piece).length (d.limit - d.cap) = _
          rw [hrplen]
        obtain ⟨evs, d', got', T, hev, hc', hfit', hcp', hlm', hk', hlt', hcrc', hlle', hcle'⟩ := ih (d.grown t piece) (got + k) hc1
          (by rw [hcap1, hlim1]; exact hg)
        refine ⟨(.partialChunk t, []) :: evs, d', got', ?_, ?_, hc', hfit', hcp', hlm', ?_, fun _ => hlt' (by omega), ?_,
          by rw [hlim1] at hlle'; omega, by rw [hcap1] at hcle'; omega⟩
        · rw [hsplit, List.append_assoc]
          refine Trace.cons' (by rw [← List.append_assoc, ← hsplit]; simp [htb]) hu hc.out
            (clearOut_of_nil (d := d.grown t piece) hc.out) trivial ?_ T
          rw [← hplen, List.drop_left' rfl]
        · intro e he
          rcases List.mem_cons.mp he with h | h
          · exact h
          · exact hev e h
        · exact KeepG.trans (b := d.grown t piece) ⟨rfl, rfl, rfl, rfl, rfl, rfl, rfl, rfl, rfl, rfl, rfl⟩ hk'
        · intro hig
          rw [hcrc' hig]
          show (if d.opts.ignoreCrc then d.crcAcc else d.crcAcc ++ piece) = _
          rw [hig]; rfl

/-! ## one chunk of any length -/

/-- `AncStep` without the restriction to the chunk buffer: the buffer may have to grow (`growCap`), which is charged to
    the limit, before `parse_chunk` sees the body -/
structure AncStepG (cfg : Cfg) (d : Dec) (t : ChunkType) (body : Bytes) (d' : Dec) : Prop where
  tIHDR : t ≠ IHDR
  tIDAT : t ≠ IDAT
  tfdAT : t ≠ fdAT
  tIEND : t ≠ IEND
  tfcTL : t ≠ fcTL
  tlt : t < 2 ^ 32
  len : body.length < 2 ^ 32
  parse : ∃ cap' limit', growCap body.length (body.length + 1) d.cap d.limit = some (cap', limit') ∧
    ∃ ev d2, parseChunk cfg { d.atParse t body with cap := cap', limit := limit' } t = .ok (ev, d2) ∧
      d' = d2.withState (some (.u32 .length []))

theorem Dec.ext18 {a b : Dec} (h1 : a.state = b.state) (h2 : a.curType = b.curType) (h3 : a.crcAcc = b.crcAcc)
    (h4 : a.remaining = b.remaining) (h5 : a.raw = b.raw) (h6 : a.cap = b.cap) (h7 : a.zin = b.zin)
    (h8 : a.zstarted = b.zstarted) (h9 : a.zemitted = b.zemitted) (h10 : a.info = b.info) (h11 : a.seqNo = b.seqNo)
    (h12 : a.haveIdat = b.haveIdat) (h13 : a.readyIdat = b.readyIdat) (h14 : a.readyFdat = b.readyFdat)
    (h15 : a.haveIccp = b.haveIccp) (h16 : a.opts = b.opts) (h17 : a.limit = b.limit) (h18 : a.out = b.out) : a = b := by
  cases a; cases b; simp only at *; subst_vars; rfl

/-- **one chunk of any length between `IHDR` and the image data** -/
theorem anc_step_g (cfg : Cfg) (hC : cfg.CrcOk) {d d' : Dec} {c : Nat × Nat × Nat × Nat × Bool} {fo : Option FrameControl}
    {t : ChunkType} {body : Bytes} (hd : IdleF d c fo) (hcap0 : 0 < d.cap) (hs : AncStepG cfg d t body d') :
    AncTrace cfg d (chunk cfg t body) d' ∧ IdleF d' c fo ∧ d'.limit ≤ d.limit ∧ d.cap ≤ d'.cap ∧ d'.opts = d.opts ∧
      d'.seqNo = d.seqNo := by
  obtain ⟨cap', limit', hg, ev, d2, hp, hd'⟩ := hs.parse
  by_cases hfit : body.length ≤ d.cap
  · -- the body fits: `anc_step`
    have hg' : growCap body.length (body.length + 1) d.cap d.limit = some (d.cap, d.limit) := by
      unfold growCap; rw [if_pos hfit]
    rw [hg'] at hg
    simp only [Option.some.injEq, Prod.mk.injEq] at hg
    obtain ⟨rfl, rfl⟩ := hg
    have hst : AncStep cfg d t body d' :=
      ⟨hs.tIHDR, hs.tIDAT, hs.tfdAT, hs.tIEND, hs.tfcTL, hs.tlt, hs.len, hfit, ev, d2, hp, hd'⟩
    obtain ⟨a1, a2, a3, a4, a5, a6⟩ := anc_step cfg hC hd hst
    exact ⟨a1, a2, a3, Nat.le_of_eq a4.symm, a5, a6⟩
  · -- the buffer has to grow
    subst hd'
    obtain ⟨i, hi, hcore, hfctl⟩ := hd.info
    generalize hX : ({ d.atParse t body with cap := cap', limit := limit' } : Dec) = X at hp
    have hfr := parseChunk_frame hp
    have hfz := parseChunk_frameZ hp hs.tfcTL
    obtain ⟨hinfc, hinff⟩ := parseChunk_info hs.tIHDR hs.tfcTL hp
    have hev := parseChunk_ev hp
    have hok := parseChunk_ok hp
    have hXi : X.info = d.info := by rw [← hX]; rfl
    have hinfo2 : ∃ i', d2.info = some i' ∧ i'.core = c ∧ i'.fctl = fo := by
      have h1 : d2.info.map Info.core = some c := by rw [hinfc, hXi, hi, ← hcore]; rfl
      have h2 : d2.info.map (·.fctl) = some fo := by rw [hinff, hXi, hi, ← hfctl]; rfl
      cases hd2 : d2.info with
      | none => rw [hd2] at h1; cases h1
      | some i' =>
        rw [hd2] at h1 h2
        simp only [Option.map_some, Option.some.injEq] at h1 h2
        exact ⟨i', rfl, h1, h2⟩
    have hout2 : d2.out = [] := by rw [hfr.out, ← hX]; exact hd.out
    have hidle : IdleF (d2.withState (some (.u32 .length []))) c fo := by
      refine ⟨rfl, hout2, hinfo2, ?_, ?_, ?_, ?_⟩
      · show ¬ (d2.curType = IDAT ∨ d2.curType = fdAT)
        rw [hfr.curType, ← hX]
        show ¬ (t = IDAT ∨ t = fdAT)
        exact fun h => h.elim hs.tIDAT hs.tfdAT
      · show d2.readyIdat = true; rw [hfr.readyIdat, ← hX]; exact hd.readyIdat
      · show d2.zin = []; rw [hfz.zin, ← hX]; exact hd.zin
      · show d2.zemitted = 0; rw [hfz.zemitted, ← hX]; exact hd.zemitted
    have hblen : body ≠ [] := by intro h; rw [h] at hfit; simp at hfit
    have hb0 : 0 < body.length := by cases body with | nil => exact absurd rfl hblen | cons _ _ => simp
    -- the facts that do not depend on what follows the chunk
    have hnf : ¬ IsFlush d t := fun h => hd.notData h.2
    generalize hD1 : ({ d with state := some (if body.length = 0 then St.parseChunkData t else St.readChunkData t), curType := t, crcAcc := if d.opts.ignoreCrc then d.crcAcc else typeBytes t, remaining := body.length, raw := [] } : Dec) = D1
    have hc1 : Collecting D1.clearOut t body 0 := by
      rw [← hD1]
      refine ⟨?_, rfl, Nat.zero_le _, rfl, hcap0, rfl, fun hig => ?_⟩
      · show some (if body.length = 0 then St.parseChunkData t else St.readChunkData t) = _
        rw [if_neg (by omega)]
      · have hig' : d.opts.ignoreCrc = false := hig
        simp [Dec.clearOut, hig']
    have hcapD1 : D1.clearOut.cap = d.cap := by rw [← hD1]; rfl
    have hlimD1 : D1.clearOut.limit = d.limit := by rw [← hD1]; rfl
    refine ⟨?_, hidle, ?_, ?_, ?_, ?_⟩
    · intro tb htb
      have hu1 := update_chunkBegin_other (cfg := cfg) (rest := body ++ (be32Bytes (cfg.crc (typeBytes t ++ body)) ++ tb))
        hd.state hs.len hs.tlt (Or.inl (by rw [hi]; rfl)) hnf hs.tfdAT hs.tIDAT
      rw [hD1] at hu1
      have T1 : Trace cfg (fun _ => True) d (chunk cfg t body ++ tb) [(.chunkBegin body.length t, [])] D1.clearOut
          (body ++ (be32Bytes (cfg.crc (typeBytes t ++ body)) ++ tb)) := by
        rw [chunk_append]
        exact Trace.one (head8_ne_nil _ _ _) hu1 rfl trivial (by rw [← hD1]; exact hd.out) (drop_head8 _ _ _)
      obtain ⟨evs, dG, got', TG, hevG, hcG, hfitG, hcapG, hlimG, hkG, hltG, hcrcG, _, _⟩ :=
        grow_trace cfg t body (be32Bytes (cfg.crc (typeBytes t ++ body)) ++ tb) (by simp [be32Bytes]) cap' limit'
          (body.length + 1) D1.clearOut 0 hc1 (by rw [hcapD1, hlimD1]; exact hg)
      have hgot' : got' < body.length := hltG hb0
      rw [List.drop_zero] at TG
      -- the rest of the body, then `parse_chunk`
      have hrest : body.drop got' ≠ [] := by
        intro h; have := congrArg List.length h; simp only [List.length_drop, List.length_nil] at this; omega
      have hrawG : dG.raw.length = got' := by rw [hcG.raw, List.length_take]; omega
      have hcol : dG.collect (body.drop got') = X := by
        rw [← hX]
        apply Dec.ext18
        · rfl
        · show dG.curType = t; rw [hkG.curType, ← hD1]; rfl
        · show (if dG.opts.ignoreCrc then dG.crcAcc else dG.crcAcc ++ body.drop got') = (if d.opts.ignoreCrc then d.crcAcc else typeBytes t ++ body)
          have ho : dG.opts = d.opts := by rw [hkG.opts, ← hD1]; rfl
          rw [ho]
          cases hig : d.opts.ignoreCrc with
          | true =>
            have h1 : D1.clearOut.opts.ignoreCrc = true := by rw [← hD1]; exact hig
            simp only [if_true]
            rw [hcrcG h1, ← hD1]
            show (if d.opts.ignoreCrc then d.crcAcc else typeBytes t) = _
            rw [hig]; rfl
          | false =>
            have h1 : dG.opts.ignoreCrc = false := by rw [ho]; exact hig
            simp only [Bool.false_eq_true, if_false]
            rw [hcG.crcAcc h1, List.append_assoc, List.take_append_drop]
        · show dG.remaining - (body.drop got').length = 0
          rw [hcG.remaining, List.length_drop]; omega
        · show dG.raw ++ body.drop got' = body
          rw [hcG.raw, List.take_append_drop]
        · exact hcapG
        · show dG.zin = d.zin; rw [hkG.zin, ← hD1]; rfl
        · show dG.zstarted = d.zstarted; rw [hkG.zstarted, ← hD1]; rfl
        · show dG.zemitted = d.zemitted; rw [hkG.zemitted, ← hD1]; rfl
        · show dG.info = d.info; rw [hkG.info, ← hD1]; rfl
        · show dG.seqNo = d.seqNo; rw [hkG.seqNo, ← hD1]; rfl
        · show dG.haveIdat = d.haveIdat; rw [hkG.haveIdat, ← hD1]; rfl
        · show dG.readyIdat = d.readyIdat; rw [hkG.readyIdat, ← hD1]; rfl
        · show dG.readyFdat = d.readyFdat; rw [hkG.readyFdat, ← hD1]; rfl
        · show dG.haveIccp = d.haveIccp; rw [hkG.haveIccp, ← hD1]; rfl
        · show dG.opts = d.opts; rw [hkG.opts, ← hD1]; rfl
        · exact hlimG
        · show dG.out = d.out; rw [hcG.out, hd.out]
      have hcrc : (d2.opts.ignoreCrc = false → cfg.crc d2.crcAcc = cfg.crc (typeBytes t ++ body)) := by
        intro hig
        rw [hfr.crcAcc, ← hX]
        have : d.opts.ignoreCrc = false := by rw [← hig, hfr.opts, ← hX]; rfl
        show cfg.crc (if d.opts.ignoreCrc then d.crcAcc else typeBytes t ++ body) = _
        rw [this]; rfl
      have hremG : dG.remaining = (body.drop got').length := by rw [hcG.remaining, List.length_drop]
      have hcapfin : (body.drop got').length ≤ dG.cap - dG.raw.length := by
        rw [List.length_drop, hrawG]; omega
      have hcb : PreEv (Ev.chunkBegin body.length t, ([] : Bytes)) :=
        ⟨rfl, by simp, fun len t' he => by cases he; exact ⟨hs.tIDAT, hs.tfdAT⟩⟩
      have hcc : PreEv (Ev.chunkComplete (cfg.crc (typeBytes t ++ body)) t, ([] : Bytes)) :=
        ⟨rfl, by simp, fun _ _ he => by cases he⟩
      have hpc : ∀ e ∈ evs, PreEv e := by
        intro e he
        rw [hevG e he]
        exact ⟨rfl, by simp, fun _ _ hx => by cases hx⟩
      have hD2 : d2.clearOut = d2 := clearOut_of_nil hout2
      by_cases hevn : ev = .nothing
      · subst hevn
        have hu2 := update_body_crc (cfg := cfg) (rest := tb) hcG.state hremG hrest hcapfin (by rw [hcol]; exact hp) (hC _)
          hs.tIEND hcrc
        have T2 : Trace cfg (fun _ => True) dG (body.drop got' ++ (be32Bytes (cfg.crc (typeBytes t ++ body)) ++ tb))
            [(.chunkComplete (cfg.crc (typeBytes t ++ body)) t, [])] (d2.withState (some (.u32 .length []))) tb := by
          refine Trace.one (by simp [hrest]) hu2 (clearOut_of_nil hout2) trivial hout2 ?_
          rw [← List.append_assoc, List.drop_left' (by simp [be32Bytes_length])]
        refine ⟨_, T1.append (TG.append T2), ?_⟩
        intro e he
        simp only [List.cons_append, List.nil_append, List.mem_cons, List.mem_append, List.mem_nil_iff, or_false] at he
        rcases he with rfl | he | rfl
        · exact hcb
        · exact hpc e he
        · exact hcc
      · have hu2 := update_body_event (cfg := cfg) (rest := be32Bytes (cfg.crc (typeBytes t ++ body)) ++ tb)
          hcG.state hremG hrest hcapfin (by simp [be32Bytes]) (by rw [hcol]; exact hp) hevn
        have hu3 := update_crc (cfg := cfg) (d := d2) (t := t) (rest := tb) hok.1 (hC _) hs.tIEND hcrc
        have T2 : Trace cfg (fun _ => True) dG (body.drop got' ++ (be32Bytes (cfg.crc (typeBytes t ++ body)) ++ tb))
            [(ev, [])] d2 (be32Bytes (cfg.crc (typeBytes t ++ body)) ++ tb) :=
          Trace.one (by simp [hrest]) hu2 hD2 trivial hout2 (List.drop_left' rfl)
        have T3 : Trace cfg (fun _ => True) d2 (be32Bytes (cfg.crc (typeBytes t ++ body)) ++ tb)
            [(.chunkComplete (cfg.crc (typeBytes t ++ body)) t, [])] (d2.withState (some (.u32 .length []))) tb :=
          Trace.one (by simp [be32Bytes]) hu3 (clearOut_of_nil hout2) trivial hout2 (List.drop_left' rfl)
        refine ⟨_, T1.append (TG.append (T2.append T3)), ?_⟩
        intro e he
        simp only [List.cons_append, List.nil_append, List.mem_cons, List.mem_append, List.mem_nil_iff, or_false] at he
        rcases he with rfl | he | rfl | rfl
        · exact hcb
        · exact hpc e he
        · exact hev.preEv hok.2
        · exact hcc
    · -- the limit only decreases
      show d2.limit ≤ d.limit
      have h1 : d2.limit ≤ X.limit := hfr.limit
      have h2 : X.limit = limit' := by rw [← hX]
      obtain ⟨_, dG, _, _, _, _, _, _, hlG, _, _, _, hlle, _⟩ :=
        grow_trace cfg t body [0] (by simp) cap' limit' (body.length + 1) D1.clearOut 0 hc1 (by rw [hcapD1, hlimD1]; exact hg)
      rw [hlimD1] at hlle
      omega
    · show d.cap ≤ d2.cap
      have h1 : d2.cap = X.cap := hfr.cap
      have h2 : X.cap = cap' := by rw [← hX]
      obtain ⟨_, dG, _, _, _, _, _, hcG, _, _, _, _, _, hcle⟩ :=
        grow_trace cfg t body [0] (by simp) cap' limit' (body.length + 1) D1.clearOut 0 hc1 (by rw [hcapD1, hlimD1]; exact hg)
      rw [hcapD1] at hcle
      omega
    · show d2.opts = d.opts; rw [hfr.opts, ← hX]; rfl
    · show d2.seqNo = d.seqNo; rw [hfz.seqNo, ← hX]; rfl

/-! ## a sequence of chunks of any length -/

inductive AncChunksG (cfg : Cfg) : Dec → List (ChunkType × Bytes) → Dec → Prop
  | nil (d : Dec) : AncChunksG cfg d [] d
  | cons {d d1 d' : Dec} {t : ChunkType} {body : Bytes} {cs : List (ChunkType × Bytes)}
      (h1 : AncStepG cfg d t body d1) (h2 : AncChunksG cfg d1 cs d') : AncChunksG cfg d ((t, body) :: cs) d'

/-- **any sequence of accepted chunks of any length between `IHDR` and the image data** -/
theorem anc_chunks_g (cfg : Cfg) (hC : cfg.CrcOk) {d d' : Dec} {c : Nat × Nat × Nat × Nat × Bool} {fo : Option FrameControl}
    {cs : List (ChunkType × Bytes)} (hd : IdleF d c fo) (hcap0 : 0 < d.cap) (h : AncChunksG cfg d cs d') :
    AncTrace cfg d (chunks cfg cs) d' ∧ IdleF d' c fo ∧ d'.limit ≤ d.limit ∧ d'.seqNo = d.seqNo ∧ d.cap ≤ d'.cap := by
  induction h with
  | nil d => exact ⟨AncTrace.nil cfg d, hd, Nat.le_refl _, rfl, Nat.le_refl _⟩
  | @cons d0 d1 d' t body cs h1 _ ih =>
    obtain ⟨a1, a2, a3, a4, _, a6⟩ := anc_step_g cfg hC hd hcap0 h1
    obtain ⟨b1, b2, b3, b4, b5⟩ := ih a2 (by omega)
    refine ⟨?_, b2, Nat.le_trans b3 a3, b4.trans a6, Nat.le_trans a4 b5⟩
    have : chunks cfg ((t, body) :: cs) = chunk cfg t body ++ chunks cfg cs := by simp [chunks]
    rw [this]
    exact a1.append b1

end Png.Framing
