import PngVerif.Proofs.LazySpec
/-!
# Lazy reader: two runs of the specification with different oracle bits (= two arrivals of one file)
-/
namespace Png.Lazy.Spec

/-- the states of two runs of the same calls on the same file; `u` = the D24 state (`track`) -/
structure Rel (fr : List Frame) (u : Bool) (a1 a2 : A) : Prop where
  inv1 : SInv fr a1
  inv2 : SInv fr a2
  fi : a1.fi = a2.fi
  sub : a1.sub = a2.sub
  cur : a1.cur = a2.cur
  fin : a1.finished = a2.finished
  atEnd : a1.atEnd = a2.atEnd
  lrem : lrem a1 = lrem a2
  /-- with no rows pending and outside the D24 state, both runs agree on whether the frame's data has ended -/
  caf : a1.cur = none → u = false → a1.caf = a2.caf
  ucur : u = true → a1.cur = none

theorem rel_refl {fr : List Frame} {u : Bool} {a : A} (h : SInv fr a) (hu : u = true → a.cur = none) :
    Rel fr u a a :=
  ⟨h, h, rfl, rfl, rfl, rfl, rfl, rfl, fun _ _ => rfl, hu⟩

theorem rel_eq {fr : List Frame} {u : Bool} {a1 a2 : A} (h : Rel fr u a1 a2) (hc : a1.caf = a2.caf) : a1 = a2 := by
  rw [A_eq_iff]
  refine ⟨?_, h.fi, h.sub, h.cur, hc, h.fin, h.atEnd⟩
  have hl := h.lrem
  unfold Spec.lrem at hl
  cases h1 : a1.caf with
  | true =>
    have h2 : a2.caf = true := by rw [← hc]; exact h1
    simpa [h1, h2] using hl
  | false =>
    have h2 : a2.caf = false := by rw [← hc]; exact h1
    have p1 := h.inv1.rem_pos h1
    have p2 := h.inv2.rem_pos h2
    simp [h1, h2] at hl
    omega

/-- building `Rel` from field facts about the new states -/
theorem rel_of_fields {fr : List Frame} {u' : Bool} {a1 a2 a1' a2' : A} (h : Rel fr u a1 a2)
    (i1 : SInv fr a1') (i2 : SInv fr a2')
    (f1 : a1'.fi = a1.fi) (f2 : a2'.fi = a2.fi) (s1 : a1'.sub = a1.sub) (s2 : a2'.sub = a2.sub)
    (c : a1'.cur = a2'.cur)
    (n1 : a1'.finished = a1.finished) (n2 : a2'.finished = a2.finished)
    (e1 : a1'.atEnd = a1.atEnd) (e2 : a2'.atEnd = a2.atEnd)
    (l1 : lrem a1' = lrem a1) (l2 : lrem a2' = lrem a2)
    (hc : a1'.cur = none → u' = false → a1'.caf = a2'.caf) (hu : u' = true → a1'.cur = none) :
    Rel fr u' a1' a2' :=
  ⟨i1, i2, by rw [f1, f2, h.fi], by rw [s1, s2, h.sub], c, by rw [n1, n2, h.fin], by rw [e1, e2, h.atEnd],
   by rw [l1, l2, h.lrem], hc, hu⟩

theorem frameInto_fields (fr : List Frame) (a : A) :
    (frameInto fr a).1.fi = a.fi ∧ (frameInto fr a).1.sub = a.sub ∧ (frameInto fr a).1.finished = a.finished ∧
    (frameInto fr a).1.atEnd = a.atEnd ∧ (frameInto fr a).1.caf = true ∧ lrem (frameInto fr a).1 = lrem a := by
  obtain ⟨e1, e2, e3, e4, e5, e6⟩ := close_fields a
  have hl := lrem_close a
  unfold frameInto
  simp only []
  split <;> simp_all [Spec.lrem]

theorem frameInto_same {fr : List Frame} {a1 a2 : A} (hf : a1.fi = a2.fi) (hs : a1.sub = a2.sub)
    (hc : a1.cur = a2.cur) :
    (frameInto fr a1).2 = (frameInto fr a2).2 ∧ (frameInto fr a1).1.cur = (frameInto fr a2).1.cur := by
  unfold frameInto
  simp only [hf, hs, hc]
  split <;> simp

theorem rel_frameInto {fr : List Frame} {u : Bool} {a1 a2 : A} (h : Rel fr u a1 a2) :
    (frameInto fr a1).2 = (frameInto fr a2).2 ∧ Rel fr false (frameInto fr a1).1 (frameInto fr a2).1 := by
  obtain ⟨hr, hc⟩ := frameInto_same (fr := fr) h.fi h.sub h.cur
  obtain ⟨f1, s1, n1, e1, c1, l1⟩ := frameInto_fields fr a1
  obtain ⟨f2, s2, n2, e2, c2, l2⟩ := frameInto_fields fr a2
  exact ⟨hr, rel_of_fields h (frameInto_sinv h.inv1) (frameInto_sinv h.inv2) f1 f2 s1 s2 hc n1 n2 e1 e2 l1 l2
    (fun _ _ => by rw [c1, c2]) (fun h => by simp at h)⟩

theorem track_nextFrame (fr : List Frame) (u : Bool) (r : Res) : track fr u .nextFrame r = false := by
  unfold track; split <;> simp_all

theorem rel_nextFrame {fr : List Frame} {a1 a2 : A} (h : Rel fr false a1 a2) :
    (nextFrame fr a1).2 = (nextFrame fr a2).2 ∧ Rel fr false (nextFrame fr a1).1 (nextFrame fr a2).1 := by
  cases hc : a1.cur with
  | some i =>
    rw [nextFrame_cur hc, nextFrame_cur (h.cur ▸ hc)]
    exact rel_frameInto h
  | none =>
    have := rel_eq h (h.caf hc rfl)
    subst this
    exact ⟨rfl, rel_refl (nextFrame_sinv h.inv1) (fun h => by simp at h)⟩

theorem rel_close {fr : List Frame} {u : Bool} {a1 a2 : A} (h : Rel fr u a1 a2) :
    Rel fr false (close a1) (close a2) := by
  obtain ⟨f1, s1, c1, n1, e1, k1⟩ := close_fields a1
  obtain ⟨f2, s2, c2, n2, e2, k2⟩ := close_fields a2
  exact rel_of_fields h (close_sinv h.inv1) (close_sinv h.inv2) f1 f2 s1 s2 (by rw [c1, c2, h.cur]) n1 n2 e1 e2
    (lrem_close a1) (lrem_close a2) (fun _ _ => by rw [k1, k2]) (fun h => by simp at h)

theorem rowsLen_eq {fr : List Frame} {a : A} (h : SInv fr a) : rowsLen fr a.fi = a.sub.length := by
  obtain ⟨f, hf, hs⟩ := h.sub_ok
  simp [rowsLen, hf, hs]

theorem rel_nextRow {fr : List Frame} {u : Bool} {a1 a2 : A} (b1 b2 : Bool) (h : Rel fr u a1 a2) :
    (nextRow fr a1 b1).2 = (nextRow fr a2 b2).2 ∧
    Rel fr (track fr u .nextRow (nextRow fr a1 b1).2) (nextRow fr a1 b1).1 (nextRow fr a2 b2).1 := by
  cases hc : a1.cur with
  | none =>
    rw [nextRow_none hc, nextRow_none (h.cur ▸ hc)]
    exact ⟨rfl, rel_close h⟩
  | some i =>
    have hc2 : a2.cur = some i := h.cur ▸ hc
    have hi := h.inv1.cur_lt i hc
    rw [nextRow_some hc, nextRow_some hc2, ← h.sub, ← h.fi]
    by_cases hcov : covers a1.sub (availOf fr a1.fi) i = true
    · simp only [hcov, if_true]
      refine ⟨by first | trivial | rfl, ?_⟩
      have hadv : advance a1 = advance a2 := by unfold advance; rw [h.cur, h.sub]
      have hk := rowsLen_eq h.inv1
      have i1 : SInv fr (nextRow fr a1 b1).1 := nextRow_sinv h.inv1
      have i2 : SInv fr (nextRow fr a2 b2).1 := nextRow_sinv h.inv2
      rw [nextRow_some hc, if_pos hcov] at i1
      rw [nextRow_some hc2, ← h.sub, ← h.fi, if_pos hcov] at i2
      have fld : ∀ (a : A) (b : Bool), (if b = true then close a else a).fi = a.fi ∧
          (if b = true then close a else a).sub = a.sub ∧ (if b = true then close a else a).finished = a.finished ∧
          (if b = true then close a else a).atEnd = a.atEnd ∧ lrem (if b = true then close a else a) = lrem a := by
        intro a b
        obtain ⟨e1, e2, e3, e4, e5, e6⟩ := close_fields a
        have := lrem_close a
        cases b <;> simp_all
      obtain ⟨f1, s1, n1, e1, l1⟩ := fld a1 b1
      obtain ⟨f2, s2, n2, e2, l2⟩ := fld a2 b2
      refine rel_of_fields h i1 i2 f1 f2 s1 s2 hadv n1 n2 e1 e2 ?_ ?_ ?_ ?_
      · simpa [Spec.lrem] using l1
      · simpa [Spec.lrem] using l2
      · intro hn hu
        simp only [track, hk, beq_eq_false_iff_ne, ne_eq] at hu
        simp only [advance, hc] at hn
        split at hn
        · simp at hn
        · omega
      · intro hu
        simp only [track, hk, beq_iff_eq] at hu
        simp only [advance, hc]
        have : ¬ i + 1 < a1.sub.length := by omega
        simp [this]
    · simp only [hcov, Bool.false_eq_true, if_false]
      refine ⟨by first | trivial | rfl, ?_⟩
      have : track fr u Op.nextRow (Res.err ErrC.noMoreImageData) = false := rfl
      rw [this]
      exact rel_close h

theorem lrem_cond (a : A) : (if a.caf = true then a.rem else a.rem - 1) = lrem a := rfl

theorem rel_nextFrameInfo {fr : List Frame} {u : Bool} {a1 a2 : A} (h : Rel fr u a1 a2) :
    (nextFrameInfo fr a1).2 = (nextFrameInfo fr a2).2 ∧
    (fatal (nextFrameInfo fr a1).2 = true ∨
     Rel fr (track fr u .nextFrameInfo (nextFrameInfo fr a1).2) (nextFrameInfo fr a1).1 (nextFrameInfo fr a2).1) := by
  by_cases hr : lrem a1 = 0
  · have hr2 : lrem a2 = 0 := h.lrem ▸ hr
    rw [Spec.nextFrameInfo_polled (a := a1) hr, Spec.nextFrameInfo_polled (a := a2) hr2]
    exact ⟨rfl, Or.inr h⟩
  · have hr2 : ¬ lrem a2 = 0 := h.lrem ▸ hr
    -- both runs close the current frame and go on to the next
    have go : ∀ a : A, ¬ lrem a = 0 → nextFrameInfo fr a =
        match readUntilImageData fr (close { a with cur := if a.caf = true then a.cur else none }) with
        | (a2, some r) => (a2, r)
        | (a2, none) => (a2, .fctl a2.fi) := by
      intro a ha
      unfold nextFrameInfo
      rw [lrem_cond]
      simp only [ha, if_false]
      rfl
    rw [go a1 hr, go a2 hr2]
    generalize hc1 : close { a1 with cur := if a1.caf = true then a1.cur else none } = c1
    generalize hc2 : close { a2 with cur := if a2.caf = true then a2.cur else none } = c2
    have k1 := close_fields { a1 with cur := if a1.caf = true then a1.cur else none }
    have k2 := close_fields { a2 with cur := if a2.caf = true then a2.cur else none }
    have l1 := lrem_close { a1 with cur := if a1.caf = true then a1.cur else none }
    have l2 := lrem_close { a2 with cur := if a2.caf = true then a2.cur else none }
    rw [hc1] at k1 l1
    rw [hc2] at k2 l2
    simp only at k1 k2
    have hl1 : c1.rem = lrem a1 := by
      have : lrem c1 = c1.rem := by simp [Spec.lrem, k1.2.2.2.2.2]
      rw [← this, l1]; rfl
    have hl2 : c2.rem = lrem a2 := by
      have : lrem c2 = c2.rem := by simp [Spec.lrem, k2.2.2.2.2.2]
      rw [← this, l2]; rfl
    have i1 : SInv fr c1 := by
      rw [← hc1]; exact close_sinv ⟨h.inv1.rem_pos, fun i hi => by
        simp only at hi; split at hi
        · exact h.inv1.cur_lt i hi
        · simp at hi, h.inv1.sub_ok⟩
    have i2 : SInv fr c2 := by
      rw [← hc2]; exact close_sinv ⟨h.inv2.rem_pos, fun i hi => by
        simp only at hi; split at hi
        · exact h.inv2.cur_lt i hi
        · simp at hi, h.inv2.sub_ok⟩
    have hfi : c1.fi = c2.fi := by rw [k1.1, k2.1]; exact h.fi
    have hend : c1.atEnd = c2.atEnd := by rw [k1.2.2.2.2.1, k2.2.2.2.2.1]; exact h.atEnd
    by_cases he : c1.atEnd = true
    · rw [readUntil_end he, readUntil_end (hend ▸ he)]
      exact ⟨rfl, Or.inl rfl⟩
    · have he1 : c1.atEnd = false := by simpa using he
      have he2 : c2.atEnd = false := hend ▸ he1
      cases hf : fr[c1.fi + 1]? with
      | none =>
        rw [readUntil_none he1 hf, readUntil_none he2 (hfi ▸ hf)]
        exact ⟨rfl, Or.inl rfl⟩
      | some f =>
        rw [readUntil_some he1 hf, readUntil_some he2 (hfi ▸ hf)]
        simp only []
        rw [hfi]
        refine ⟨rfl, Or.inr ?_⟩
        have : ({ c1 with fi := c2.fi + 1, sub := f.rowlens, cur := firstRow f.rowlens, caf := false } : A) =
            { c2 with fi := c2.fi + 1, sub := f.rowlens, cur := firstRow f.rowlens, caf := false } := by
          rw [A_eq_iff]
          simp only [hl1, hl2, h.lrem, k1.2.2.2.1, k2.2.2.2.1, h.fin, he1, he2, and_self]
        rw [this]
        have hrem : 1 ≤ c2.rem := by rw [hl2]; omega
        have := readUntil_sinv i2 hrem
        rw [readUntil_some he2 (hfi ▸ hf)] at this
        exact rel_refl this (fun h => by simp [track] at h)

theorem rel_finish {fr : List Frame} {u : Bool} {a1 a2 : A} (h : Rel fr u a1 a2) :
    (finish a1).2 = (finish a2).2 ∧
    (fatal (finish a1).2 = true ∨ Rel fr (track fr u .finish (finish a1).2) (finish a1).1 (finish a2).1) := by
  unfold finish
  rw [← h.fin, ← h.atEnd]
  by_cases hf : a1.finished = true
  · simp only [hf, if_true]; exact ⟨by first | trivial | rfl, Or.inr h⟩
  · simp only [hf, Bool.false_eq_true, if_false]
    by_cases he : a1.atEnd = true
    · simp only [he, if_true]; exact ⟨by first | trivial | rfl, Or.inl rfl⟩
    · simp only [he, Bool.false_eq_true, if_false]
      refine ⟨by first | trivial | rfl, Or.inr ?_⟩
      have : ({ a1 with rem := 0, cur := none, caf := true, atEnd := true, finished := true } : A) =
          { a2 with rem := 0, cur := none, caf := true, atEnd := true, finished := true } := by
        rw [A_eq_iff]; simp [h.fi, h.sub]
      have i1 : SInv fr { a1 with rem := 0, cur := none, caf := true, atEnd := true, finished := true } :=
        ⟨by simp, fun i hi => by simp at hi, h.inv1.sub_ok⟩
      rw [← this]
      exact rel_refl i1 (fun h => by simp [track] at h)

/-- one call in two runs: the same answer, and the relation again (or the answer is `fatal`) -/
theorem spec_step_rel {fr : List Frame} {u : Bool} {a1 a2 : A} (op : Op) (b1 b2 : Bool) (h : Rel fr u a1 a2)
    (hp : op = .nextFrame → u = false) :
    (step fr a1 op b1).2 = (step fr a2 op b2).2 ∧
    (fatal (step fr a1 op b1).2 = true ∨
     Rel fr (track fr u op (step fr a1 op b1).2) (step fr a1 op b1).1 (step fr a2 op b2).1) := by
  cases op with
  | nextFrame =>
    have hu := hp rfl
    subst hu
    simp only [step, track_nextFrame]
    exact ⟨(rel_nextFrame h).1, Or.inr (rel_nextFrame h).2⟩
  | nextRow => exact ⟨(rel_nextRow b1 b2 h).1, Or.inr (rel_nextRow b1 b2 h).2⟩
  | nextFrameInfo => exact rel_nextFrameInfo h
  | finish => exact rel_finish h

theorem polledRes_cons (fr : List Frame) (u : Bool) (op : Op) (ops : List Op) (r : Res) (rs : List Res) :
    polledRes fr u (op :: ops) (r :: rs) = true ↔
      (op = .nextFrame → u = false) ∧ (fatal r = false → polledRes fr (track fr u op r) ops rs = true) := by
  simp only [polledRes, Bool.and_eq_true, Bool.or_eq_true, bne_iff_ne, ne_eq, Bool.not_eq_true']
  constructor
  · rintro ⟨h1, h2⟩
    exact ⟨fun h => h1.resolve_left (fun hn => hn h), fun h => h2.resolve_left (by simp [h])⟩
  · rintro ⟨h1, h2⟩
    refine ⟨?_, ?_⟩
    · by_cases h : op = .nextFrame
      · exact Or.inr (h1 h)
      · exact Or.inl h
    · cases hf : fatal r
      · exact Or.inr (h2 hf)
      · exact Or.inl rfl

theorem spec_run_rel (fr : List Frame) : ∀ (ops : List Op) (u : Bool) (a1 a2 : A) (bs1 bs2 : List Bool),
    Rel fr u a1 a2 → polledRes fr u ops (run fr a1 ops bs1).2 = true →
    cutFatal (run fr a1 ops bs1).2 = cutFatal (run fr a2 ops bs2).2 := by
  intro ops
  induction ops with
  | nil => intro u a1 a2 bs1 bs2 _ _; rfl
  | cons op ops ih =>
    intro u a1 a2 bs1 bs2 h hp
    simp only [run] at hp ⊢
    rw [polledRes_cons] at hp
    obtain ⟨hr, hrel⟩ := spec_step_rel op (bs1.headD false) (bs2.headD false) h hp.1
    simp only [cutFatal]
    rw [← hr]
    by_cases hfat : fatal (step fr a1 op (bs1.headD false)).2 = true
    · simp only [hfat, if_true]
    · have hfat' : fatal (step fr a1 op (bs1.headD false)).2 = false := by simpa using hfat
      simp only [hfat', Bool.false_eq_true, if_false]
      congr 1
      exact ih _ _ _ _ _ (hrel.resolve_left hfat) (hp.2 hfat')

end Png.Lazy.Spec
