import PngVerif.Model.Basic
namespace Png

theorem legal_iff (c d : Nat) :
    (c, d) ∈ legalPairs ↔ (colorOk c = true ∧ depthOk d = true ∧ combinationInvalid c d = false) := by
  constructor
  · intro h
    simp only [legalPairs, List.mem_cons, Prod.mk.injEq, List.mem_nil_iff, or_false] at h
    rcases h with ⟨rfl, rfl⟩ | ⟨rfl, rfl⟩ | ⟨rfl, rfl⟩ | ⟨rfl, rfl⟩ | ⟨rfl, rfl⟩ | ⟨rfl, rfl⟩ | ⟨rfl, rfl⟩ |
      ⟨rfl, rfl⟩ | ⟨rfl, rfl⟩ | ⟨rfl, rfl⟩ | ⟨rfl, rfl⟩ | ⟨rfl, rfl⟩ | ⟨rfl, rfl⟩ | ⟨rfl, rfl⟩ | ⟨rfl, rfl⟩ <;> decide
  · intro ⟨hc, hd, hi⟩
    simp only [colorOk, Bool.or_eq_true, beq_iff_eq] at hc
    simp only [depthOk, Bool.or_eq_true, beq_iff_eq] at hd
    rcases hc with (((rfl | rfl) | rfl) | rfl) | rfl <;>
      rcases hd with (((rfl | rfl) | rfl) | rfl) | rfl <;> first | decide | (exfalso; revert hi; decide)

/-- the two row-length functions of the crate agree with the specification's formula -/
theorem rowlen_spec (c d w : Nat) (hd : depthOk d = true) :
    rawRowLengthFromWidth c d w = 1 + (w * samplesOf c * d + 7) / 8 := by
  simp only [depthOk, Bool.or_eq_true, beq_iff_eq] at hd
  unfold rawRowLengthFromWidth
  generalize w * samplesOf c = s
  rcases hd with (((rfl | rfl) | rfl) | rfl) | rfl <;> simp <;> (try split) <;> omega

theorem rowlen_checked (c d w : Nat) (hd : depthOk d = true) (n : Nat)
    (h : checkedRawRowLength c d w = some n) : rawRowLengthFromWidth c d w = n := by
  unfold checkedRawRowLength at h
  simp only at h
  split at h
  · cases h; exact rowlen_spec c d w hd
  · cases h

/-- for `u32` widths the checked length always exists on a 64-bit target -/
theorem rowlen_checked_some (c d w : Nat) (hw : w < 2 ^ 32) (hd : depthOk d = true) :
    ∃ n, checkedRawRowLength c d w = some n := by
  unfold checkedRawRowLength
  simp only
  have hs : samplesOf c ≤ 4 := by unfold samplesOf; split <;> omega
  have hd16 : d ≤ 16 := by
    simp only [depthOk, Bool.or_eq_true, beq_iff_eq] at hd; omega
  have h1 : w * samplesOf c ≤ 2 ^ 32 * 4 := Nat.mul_le_mul (Nat.le_of_lt hw) hs
  have h2 : w * samplesOf c * d ≤ 2 ^ 32 * 4 * 16 := Nat.mul_le_mul h1 hd16
  have : 1 + (w * samplesOf c * d + 7) / 8 < 2 ^ 64 := by omega
  simp [this]

/-- `BytesPerPixel::from_usize(bytes_per_pixel)` never reaches `unreachable!()` on a legal pair -/
theorem bpp_total (c d : Nat) (h : (c, d) ∈ legalPairs) :
    bppFromUsize (bytesPerPixel c d) = some (bytesPerPixel c d) ∧ 1 ≤ bytesPerPixel c d := by
  simp only [legalPairs, List.mem_cons, Prod.mk.injEq, List.mem_nil_iff, or_false] at h
  rcases h with ⟨rfl, rfl⟩ | ⟨rfl, rfl⟩ | ⟨rfl, rfl⟩ | ⟨rfl, rfl⟩ | ⟨rfl, rfl⟩ | ⟨rfl, rfl⟩ | ⟨rfl, rfl⟩ |
    ⟨rfl, rfl⟩ | ⟨rfl, rfl⟩ | ⟨rfl, rfl⟩ | ⟨rfl, rfl⟩ | ⟨rfl, rfl⟩ | ⟨rfl, rfl⟩ | ⟨rfl, rfl⟩ | ⟨rfl, rfl⟩ <;>
    decide

/-- a row (without its filter byte) is a whole number of filter units -/
theorem rowlen_multiple (c d w : Nat) (h : (c, d) ∈ legalPairs) :
    bytesPerPixel c d ∣ (rawRowLengthFromWidth c d w - 1) := by
  have hd : depthOk d = true := ((legal_iff c d).mp h).2.1
  rw [rowlen_spec c d w hd]
  simp only [legalPairs, List.mem_cons, Prod.mk.injEq, List.mem_nil_iff, or_false] at h
  rcases h with ⟨rfl, rfl⟩ | ⟨rfl, rfl⟩ | ⟨rfl, rfl⟩ | ⟨rfl, rfl⟩ | ⟨rfl, rfl⟩ | ⟨rfl, rfl⟩ | ⟨rfl, rfl⟩ |
    ⟨rfl, rfl⟩ | ⟨rfl, rfl⟩ | ⟨rfl, rfl⟩ | ⟨rfl, rfl⟩ | ⟨rfl, rfl⟩ | ⟨rfl, rfl⟩ | ⟨rfl, rfl⟩ | ⟨rfl, rfl⟩ <;>
    simp [samplesOf, bytesPerPixel] <;> omega

end Png
