import PngVerif.Proofs.ReaderPathsTop
import PngVerif.Proofs.ReaderRetry
/-!
# From whole-frame runs to the reference of C13 (`refFrames`)

The end-to-end decode theorems (C01, C08, C09) are stated with `Reader.run … (.readInfo :: .nextFrame p :: …)`:
every `next_frame` call, into a buffer of the documented size pre-filled with `p`, returns a frame.  C13
(`asmRun_agrees`) is stated against `refFrames`: the remaining frames decoded by whole-frame calls into a fresh
buffer.  This file is the bridge:

* `refFrames_of_run`: if the first `n` results of `run cfg t r (replicate n (.nextFrame p) ++ …)` are frames that
  left the buffers `bs`, each of `need` bytes, then `refFrames cfg t (replicate need p) n r = some bs`;
* `anyPath_of_run`: hence, for the reader `read_info` returns, with `n` frames remaining: every interleaving of
  `next_frame`, `next_row`, `read_row`, `next_frame_info` (`asmRun`) assembles exactly the buffers `bs`.
-/
namespace Png.Reader
open Png Png.Framing

/-- `rs` are results of successful `next_frame` calls that left the buffers `bs`, each of `need` bytes -/
def FrameBufs (need : Nat) : List Res → List Bytes → Prop
  | [], [] => True
  | .frame _ B :: rs, b :: bs => B = b ∧ b.length = need ∧ FrameBufs need rs bs
  | _, _ => False

theorem FrameBufs.length {need : Nat} : ∀ {rs : List Res} {bs : List Bytes}, FrameBufs need rs bs → rs.length = bs.length := by
  intro rs
  induction rs with
  | nil =>
    intro bs h
    cases bs with
    | nil => rfl
    | cons b bs => exact absurd h (by simp [FrameBufs])
  | cons res rs ih =>
    intro bs h
    cases bs with
    | nil => exact absurd h (by simp [FrameBufs])
    | cons b bs =>
      cases res with
      | frame oi B =>
        simp only [FrameBufs] at h
        simp only [List.length_cons, ih h.2.2]
      | _ => exact absurd h (by simp [FrameBufs])

theorem opPost_snd (out : R × Res × Bytes) : (opPost out).2 = out.2.1 := by
  unfold opPost
  split <;> rfl

theorem opPost_frame {r' : R} {oi : OutputInfo} {B B' : Bytes} : opPost (r', .frame oi B, B') = (r', .frame oi B) := rfl

/-- a frame returned by `next_frame` has the length of the caller's buffer -/
theorem nextFrameBuf_frame_len (cfg : Cfg) {t : TCfg} (ht : t.Ok) {r r' : R} {buf B B' : Bytes} {oi : OutputInfo}
    (hI : Inv t r) (h : nextFrameBuf cfg t r buf = (r', .frame oi B, B')) : B.length = buf.length := by
  rcases inside_cases r with hin | ⟨hcur, hrem⟩ | ⟨hcur, hrem, hcaf⟩
  · rw [nextFrameBuf_of_inside cfg t r buf hin] at h
    obtain ⟨i, hi, _⟩ := hI.info
    obtain ⟨_, _, _, _, _, _, _, _, hl⟩ := frameInto_ok_body cfg ht hI hi h
    exact hl
  · rw [nextFrameBuf_polled cfg t r buf hcur hrem] at h
    simp only [Prod.mk.injEq, reduceCtorEq, false_and, and_false] at h
  · rw [nextFrameBuf_none cfg t r buf hcur] at h
    unfold nextFrameBuf0 at h
    rw [if_neg hrem, hcaf] at h
    simp only [if_true] at h
    have hadv := advanceFrame_spec cfg r hI hcaf hrem
    cases hy : readUntilImageData cfg t r with
    | mk s res =>
      rw [hy] at h hadv
      cases res with
      | error e =>
        simp only [Prod.mk.injEq] at h
        obtain ⟨_, rfl, _⟩ := h
        exact absurd hadv.1 (by simp [Res.isErr])
      | ok u =>
        simp only at h
        obtain ⟨hIs, _, _, _, i, hi, _⟩ := hadv
        obtain ⟨_, _, _, _, _, _, _, _, hl⟩ := frameInto_ok_body cfg ht hIs hi h
        exact hl

/-- **the bridge**: whole-frame calls of a run, as the reference of C13 -/
theorem refFrames_of_run (cfg : Cfg) {t : TCfg} (ht : t.Ok) (p : UInt8) (need : Nat) :
    ∀ (rs : List Res) (bs : List Bytes) (r : R) (tailOps : List Op) (tailRes : List Res),
      Live t r → r.pendingBuf = none → FrameBufs need rs bs →
      (run cfg t r (List.replicate rs.length (Op.nextFrame p) ++ tailOps)).2 = rs ++ tailRes →
      refFrames cfg t (List.replicate need p) rs.length r = some bs := by
  intro rs
  induction rs with
  | nil =>
    intro bs r tailOps tailRes _ _ hfb _
    cases bs with
    | nil => rfl
    | cons b bs => exact absurd hfb (by simp [FrameBufs])
  | cons res rs ih =>
    intro bs r tailOps tailRes hL hpb hfb hrun
    cases bs with
    | nil => exact absurd hfb (by simp [FrameBufs])
    | cons b bs =>
      cases res with
      | frame oi B =>
        simp only [FrameBufs] at hfb
        obtain ⟨rfl, hlen, hfb'⟩ := hfb
        simp only [List.length_cons, List.replicate_succ, List.cons_append] at hrun ⊢
        rw [prun_cons] at hrun
        simp only [List.cons.injEq] at hrun
        obtain ⟨hhead, htail⟩ := hrun
        obtain ⟨i, hi, _⟩ := hL.inv.info
        have hstep := (step_is_path_op cfg t r i p hL.isReader hpb hi).2.2.2
        have hL' := hL.step cfg ht (.nextFrame p) rfl
        cases hx : nextFrameBuf cfg t r (List.replicate (needOf t r i) p) with
        | mk r' y =>
          obtain ⟨res', B'⟩ := y
          have hpend := nextFrameBuf_pending cfg t r (List.replicate (needOf t r i) p)
          rw [hx] at hstep hpend
          simp only at hpend
          have hres : res' = .frame oi B := by
            have := opPost_snd (r', res', B')
            rw [← hstep, hhead] at this
            exact this.symm
          subst hres
          rw [opPost_frame] at hstep
          rw [hstep] at htail hL'
          simp only at htail hL'
          have hneed : needOf t r i = need := by
            have := nextFrameBuf_frame_len cfg ht hL.inv hx
            rw [List.length_replicate] at this
            omega
          rw [hneed] at hx
          rw [refFrames, hx]
          simp only
          rw [ih bs r' tailOps tailRes hL' (hpend.trans hpb) hfb' htail]
          rfl
      | _ => exact absurd hfb (by simp [FrameBufs])

/-- the reader `read_info` returns is live -/
theorem start_live (cfg : Cfg) {t : TCfg} (ht : t.Ok) (opts : Options) (limit : Nat) (flags : Flags) (input : Bytes)
    (visible : Nat) (hlen : input.length < 2 ^ 32) {r0 : R}
    (h : step cfg t (R.init opts limit flags input visible) .readInfo = (r0, .header)) : Live t r0 := by
  have hR0 := rinv_init t opts limit flags input visible hlen
  have hR := (step_spec cfg ht (R.init opts limit flags input visible) .readInfo hR0 (fun _ => rfl)).1
  rw [h] at hR
  have h' : readInfo cfg t (R.init opts limit flags input visible) = (r0, .header) := by
    simp only [step] at h
    exact h
  have hP : PreInv (R.init opts limit flags input visible) := by
    rcases hR0 with ⟨k, _⟩ | ⟨_, k, _⟩ | ⟨_, _, k⟩
    · cases k
    · cases k
    · exact k
  obtain ⟨_, _, hrd⟩ := readInfo_start hP rfl h'
  rcases hR with ⟨_, k⟩ | ⟨k1, k2, k3⟩ | ⟨_, k, _⟩
  · rw [hrd] at k; cases k
  · exact ⟨k1, k2, k3⟩
  · rw [hrd] at k; cases k

/-- **whole-frame runs, composed with C13.**  `read_info` succeeds on an input shorter than 4 GiB and returns the
    reader `r0` (no `next_frame` buffer pending) with `rs.length` frames remaining; the first `rs.length` results of
    whole-frame calls from `r0`, each into a buffer of `need` bytes pre-filled with `p`, are frames that left the
    buffers `bs`.  Then EVERY interleaving `ops` of `next_frame`, `next_row` / `next_interlaced_row`, `read_row` and
    `next_frame_info`, executed by the assembling caller (`asmRun`) with the fresh buffer `replicate need p`, has no
    problem, and every frame it records with index `k` is `bs[k]`. -/
theorem anyPath_of_run (cfg : Cfg) {t : TCfg} (ht : t.Ok) (hs : t.SnapIndep) (opts : Options) (limit : Nat) (flags : Flags)
    (input : Bytes) (hlen : input.length < 2 ^ 32) (r0 : R) (p : UInt8) (need : Nat) (rs : List Res) (bs : List Bytes)
    (tailOps : List Op) (tailRes : List Res)
    (h0 : step cfg t (R.init opts limit flags input input.length) .readInfo = (r0, .header))
    (hpb : r0.pendingBuf = none) (hrem : r0.remaining = rs.length) (hfb : FrameBufs need rs bs)
    (hrun : (run cfg t r0 (List.replicate rs.length (Op.nextFrame p) ++ tailOps)).2 = rs ++ tailRes)
    (ops : List PathOp) :
    (asmRun cfg t (List.replicate need p) (r0, Asm.init (List.replicate need p)) ops).2.problem = false ∧
    ∀ k px, (k, px) ∈ (asmRun cfg t (List.replicate need p) (r0, Asm.init (List.replicate need p)) ops).2.frames →
      bs[k]? = some px := by
  have hL := start_live cfg ht opts limit flags input input.length hlen h0
  obtain ⟨a1, a2, a3, a4⟩ := start_good cfg ht opts limit flags input input.length hlen h0
  have href : refFrames cfg t (List.replicate need p) r0.remaining r0 = some bs := by
    rw [hrem]
    exact refFrames_of_run cfg ht p need rs bs r0 tailOps tailRes hL hpb hfb hrun
  exact asmRun_agrees cfg ht hs a1 a2 a3 a4 href ops

/-! ## reading the end-to-end theorems -/

/-- the results of a run that begins with a successful `read_info`, seen from the reader it returns -/
theorem run_after_readInfo {cfg : Cfg} {t : TCfg} {r r0 : R} {ops : List Op} {res : List Res}
    (h0 : step cfg t r .readInfo = (r0, .header)) (hrun : (run cfg t r (.readInfo :: ops)).2 = .header :: res) :
    (run cfg t r0 ops).2 = res := by
  rw [prun_cons, h0] at hrun
  simp only [List.cons.injEq, true_and] at hrun
  exact hrun

/-- a one-frame reference: the only index is 0 -/
theorem getElem?_singleton_some {α : Type} {a b : α} {k : Nat} (h : [a][k]? = some b) : k = 0 ∧ b = a := by
  cases k with
  | zero => simp only [List.getElem?_cons_zero, Option.some.injEq] at h; exact ⟨rfl, h.symm⟩
  | succ k => simp at h

/-! ## the composition as a property of the transformation -/

/-- **what `anyPath_of_run` proves, as a property of `(cfg, t)`**: for every input shorter than 4 GiB on which
    `read_info` succeeds, returning a reader `r0` (no `next_frame` buffer pending) with `rs.length` frames remaining
    from which the first `rs.length` whole-frame calls (buffers of `need` bytes pre-filled with `p`) return frames that
    left the buffers `bs` — every interleaving of `next_frame`, `next_row`, `read_row`, `next_frame_info` assembled by
    `asmRun` has no problem and records, with index `k`, only `bs[k]` -/
def AnyPathOk (cfg : Cfg) (t : TCfg) : Prop :=
  ∀ (opts : Options) (limit : Nat) (flags : Flags) (input : Bytes), input.length < 2 ^ 32 →
    ∀ (r0 : R) (p : UInt8) (need : Nat) (rs : List Res) (bs : List Bytes) (tailOps : List Op) (tailRes : List Res),
      step cfg t (R.init opts limit flags input input.length) .readInfo = (r0, .header) →
      r0.pendingBuf = none → r0.remaining = rs.length → FrameBufs need rs bs →
      (run cfg t r0 (List.replicate rs.length (Op.nextFrame p) ++ tailOps)).2 = rs ++ tailRes →
      ∀ ops : List PathOp,
        (asmRun cfg t (List.replicate need p) (r0, Asm.init (List.replicate need p)) ops).2.problem = false ∧
        ∀ k px, (k, px) ∈ (asmRun cfg t (List.replicate need p) (r0, Asm.init (List.replicate need p)) ops).2.frames →
          bs[k]? = some px

/-- the contracts of C13 give it -/
theorem anyPathOk_of_contracts (cfg : Cfg) {t : TCfg} (ht : t.Ok) (hs : t.SnapIndep) : AnyPathOk cfg t :=
  fun opts limit flags input hlen r0 p need rs bs tailOps tailRes h0 hpb hrem hfb hrun ops =>
    anyPath_of_run cfg ht hs opts limit flags input hlen r0 p need rs bs tailOps tailRes h0 hpb hrem hfb hrun ops

end Png.Reader
