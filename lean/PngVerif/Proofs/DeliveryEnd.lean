import PngVerif.Proofs.Delivery
/-!
# The retrying caller's reader when all calls have returned, and the refused call behind the last frame

`Reader.runUntilEof_spec` / `Reader.resumeRun_spec` (`Proofs/ReaderRun.lean`) compare the results of the retrying caller
with those of the run that sees the whole input, but relate the two READERS only while calls remain (`JSt … []` is just
`A.visible ≤ L`).  This file re-proves them in the stronger form that keeps the relation to the end:

* `JStE`: as `JSt`, but with no call left the retrying caller's reader still LAGS behind the reader that saw everything
  (`LagSome`, which `runUntilEof_spec` establishes internally after every returned call);
* `runUntilEof_specE`, `resumeEnd`, `resumeEnd_spec`: the reader `resumeRun` ends in when the schedule delivers the whole
  input lags behind the FINAL reader of the complete run — hence has the same `remaining` and `sub.cur` (`LagLe.fields`);
* `resumeRun_append_end`: the results of the retrying caller on `a ++ b` are its results on `a`, then (if `a` was
  completed) its results on `b` from the reader and the rest of the schedule `a` ended with;
* `resume_then_polled`, `resumeRun_from_start_polled`, `delivery_then_polled'`: if the complete run ends with no frame
  remaining and no row pending, one more `next_frame` of the retrying caller is refused with
  `Parameter(PolledAfterEndOfImage)` — its LAST result.
-/
namespace Png.Reader
open Png Png.Framing Png.WellFormed

/-- the state of the retrying caller before the calls `ops` — as `JSt`, but when no call is left the reader `A` is a live
    `Reader` that still lags behind `B` -/
def JStE (cfg : Cfg) (t : TCfg) (L : Nat) (A B : R) : List Op → Prop
  | [] => Inv t A ∧ A.isReader = true ∧ A.dead = false ∧ LagSome cfg A.visible L A B
  | op :: _ => Mid cfg t L A B op

theorem JStE.toJSt {cfg : Cfg} {t : TCfg} {L : Nat} {A B : R} {ops : List Op} (h : JStE cfg t L A B ops) :
    JSt cfg t L A B ops := by
  cases ops with
  | nil =>
    obtain ⟨_, _, _, n, _, hL, _⟩ := h
    exact hL
  | cons op ops => exact h

theorem JStE.le {cfg : Cfg} {t : TCfg} {L : Nat} {A B : R} {ops : List Op} (h : JStE cfg t L A B ops) : A.visible ≤ L :=
  h.toJSt.le

theorem JStE.grow {cfg : Cfg} {t : TCfg} {L : Nat} {A B : R} {ops : List Op} (h : JStE cfg t L A B ops) (v1 : Nat)
    (h1 : A.visible ≤ v1) (h2 : v1 ≤ L) : JStE cfg t L (growTo A v1) B ops := by
  cases ops with
  | nil =>
    obtain ⟨a1, a2, a3, a4⟩ := h
    exact ⟨a1.growTo h1, a2, a3, a4.grow v1 h2⟩
  | cons op ops => exact Mid.grow h v1 h1 h2

/-- before the first attempt -/
theorem JStE.start {cfg : Cfg} {t : TCfg} {L : Nat} {A B : R} (hI : Inv t A) (hr : A.isReader = true) (hd : A.dead = false)
    (hl : LagSome cfg A.visible L A B) (ops : List Op) : JStE cfg t L A B ops := by
  cases ops with
  | nil => exact ⟨hI, hr, hd, hl⟩
  | cons op ops => exact Mid.start hI hr hd hl op

/-- **the calls until one runs out of input** against the calls on the reader that sees everything, the relation of
    the readers kept to the end (`runUntilEof_spec` with `JStE`; additionally the complete run from `B` ends where the
    complete run of the remaining calls from `B'` ends) -/
theorem runUntilEof_specE (cfg : Cfg) (hI : cfg.InflateOk) {t : TCfg} (ht : t.Ok) (hst : t.Stable) (L : Nat) :
    ∀ (ops : List Op) (A B : R), JStE cfg t L A B ops → (∀ op ∈ ops, op.isCall = true) →
    (∀ x ∈ (run cfg t B ops).2, x.isGood = true) →
    ∃ B', (run cfg t B ops).2 = (runUntilEof cfg t ops A).2.1 ++ (run cfg t B' (runUntilEof cfg t ops A).2.2).2 ∧
      JStE cfg t L (runUntilEof cfg t ops A).1 B' (runUntilEof cfg t ops A).2.2 ∧
      (∀ op ∈ (runUntilEof cfg t ops A).2.2, op.isCall = true) ∧
      (∀ x ∈ (run cfg t B' (runUntilEof cfg t ops A).2.2).2, x.isGood = true) ∧
      (runUntilEof cfg t ops A).1.visible = A.visible ∧
      (A.visible = L → (runUntilEof cfg t ops A).2.2 = []) ∧
      (run cfg t B ops).1 = (run cfg t B' (runUntilEof cfg t ops A).2.2).1 := by
  intro ops
  induction ops with
  | nil =>
    intro A B hJ hc hg
    exact ⟨B, rfl, hJ, hc, hg, rfl, fun _ => rfl, rfl⟩
  | cons op rest ih =>
    intro A B hJ hc hg
    have hJ' : Mid cfg t L A B op := hJ
    obtain ⟨A0, a1, a2, a3, a4, a5, a6⟩ := hJ'.first
    have hop : op.isCall = true := hc op List.mem_cons_self
    rw [run_cons] at hg ⊢
    have hy : (step cfg t B op).2.isGood = true := hg _ List.mem_cons_self
    have hl0 : LagSome cfg A.visible L (growTo A0 A.visible) B := a5.grow A.visible hJ'.le
    have hI0 : Inv t (growTo A0 A.visible) := a1.growTo a4
    obtain ⟨m1, m2, m3⟩ := step_mono cfg hI ht hl0 hI0 a2 a3 op hop hy
    have hP := a6 A.visible (Nat.le_refl _) hJ'.le m1
    rw [growTo_visible A rfl] at hP
    obtain ⟨p1, p2⟩ := hP
    have hR : RInv t A := Or.inr (Or.inl ⟨hJ'.alive, hJ'.reader, hJ'.inv⟩)
    have hsp := step_spec cfg ht A op hR (fun hc => by rw [hc] at hop; cases hop)
    have hr1 : (step cfg t A op).1.isReader = true :=
      (hsp.2.2 (fun hc => by rw [hc] at hop; cases hop)).trans hJ'.reader
    have hI1 : Inv t (step cfg t A op).1 ∧ (step cfg t A op).1.dead = false := by
      rcases hsp.1 with ⟨_, h2⟩ | ⟨h1, _, h3⟩ | ⟨_, h2, _⟩
      · rw [hr1] at h2; cases h2
      · exact ⟨h3, h1⟩
      · rw [hr1] at h2; cases h2
    have hv1 : (step cfg t A op).1.visible = A.visible := step_vis cfg t A op hJ'.reader hop
    cases he : (step cfg t A op).2.isEof with
    | true =>
      have hru : runUntilEof cfg t (op :: rest) A = ((step cfg t A op).1, [], op :: rest) := by
        rw [runUntilEof, if_pos he]
      rw [hru]
      obtain ⟨w, hw⟩ := isEof_eq he
      refine ⟨B, by simp only [List.nil_append]; rw [run_cons], ?_, hc, by rw [run_cons]; exact hg, hv1, ?_, by rw [run_cons]⟩
      · show Mid cfg t L (step cfg t A op).1 B op
        refine ⟨hI1.1, hr1, hI1.2, by rw [hv1]; exact hJ'.le, A0, a1, a2, a3, by rw [hv1]; exact a4, a5, ?_⟩
        intro v' hv' hL hf
        rw [hv1] at hv'
        obtain ⟨q1, q2⟩ := a6 v' hv' hL hf
        have hres := step_resumable cfg hI ht hst A (step cfg t A op).1 op w v' hJ'.inv hJ'.reader hJ'.alive hop hv'
          (by rw [← hw]) (by rw [q1]; exact hf)
        exact ⟨hres.1.trans q1, hres.2.trans q2⟩
      · intro hvL
        exfalso
        have := m3 hvL
        rw [← p1, he] at this; cases this
    | false =>
      have hru : runUntilEof cfg t (op :: rest) A = ((runUntilEof cfg t rest (step cfg t A op).1).1,
          (step cfg t A op).2 :: (runUntilEof cfg t rest (step cfg t A op).1).2.1,
          (runUntilEof cfg t rest (step cfg t A op).1).2.2) := by
        rw [runUntilEof, if_neg (by rw [he]; simp)]
      rw [hru]
      obtain ⟨n1, n2⟩ := m2 (by rw [← p1]; exact he)
      have hlag1 : LagSome cfg A.visible L (step cfg t A op).1 (step cfg t B op).1 := n2.simLeft p2
      have hJ1 : JStE cfg t L (step cfg t A op).1 (step cfg t B op).1 rest :=
        JStE.start hI1.1 hr1 hI1.2 (by rw [hv1]; exact hlag1) rest
      obtain ⟨B', b1, b2, b3, b4, b5, b6, b7⟩ := ih (step cfg t A op).1 (step cfg t B op).1 hJ1
        (fun o ho => hc o (List.mem_cons_of_mem _ ho)) (fun x hx => hg x (List.mem_cons_of_mem _ hx))
      refine ⟨B', ?_, b2, b3, b4, b5.trans hv1, fun hvL => b6 (hv1.trans hvL), b7⟩
      simp only [List.cons_append]
      rw [b1, p1, n1]

/-- **where the retrying caller ends**: the reader and the rest of the schedule at the moment all calls `ops` have
    returned (`none` if the schedule is used up before) -/
def resumeEnd (cfg : Cfg) (t : TCfg) (L : Nat) : List Nat → List Op → R → Option (R × List Nat)
  | [], ops, r => if (runUntilEof cfg t ops r).2.2 = [] then some ((runUntilEof cfg t ops r).1, []) else none
  | g :: sched, ops, r =>
    if (runUntilEof cfg t ops r).2.2 = [] then some ((runUntilEof cfg t ops r).1, g :: sched)
    else resumeEnd cfg t L sched (runUntilEof cfg t ops r).2.2
      (growTo (runUntilEof cfg t ops r).1 (min L ((runUntilEof cfg t ops r).1.visible + g)))

/-- **the retrying caller on `a ++ b`**: its results on `a`; then, if `a` was completed, its results on `b` from the
    reader and with the rest of the schedule `a` ended with -/
theorem resumeRun_append_end (cfg : Cfg) (t : TCfg) (L : Nat) : ∀ (sched : List Nat) (a b : List Op) (r : R),
    resumeRun cfg t L sched (a ++ b) r = resumeRun cfg t L sched a r ++
      (match resumeEnd cfg t L sched a r with
       | some (r', s') => resumeRun cfg t L s' b r'
       | none => []) := by
  intro sched
  induction sched with
  | nil =>
    intro a b r
    simp only [resumeRun, resumeEnd]
    rw [runUntilEof_append]
    by_cases hn : (runUntilEof cfg t a r).2.2 = []
    · rw [if_pos hn, if_pos hn]
      simp only [resumeRun]
    · rw [if_neg hn, if_neg hn]; simp
  | cons g sched ih =>
    intro a b r
    rw [resumeRun, resumeRun, resumeEnd, runUntilEof_append]
    by_cases hn : (runUntilEof cfg t a r).2.2 = []
    · rw [if_pos hn, if_pos hn]
      simp only
      rw [hn, resumeRun_nil_ops, List.append_nil, resumeRun, List.append_assoc]
    · rw [if_neg hn, if_neg hn]
      simp only
      rw [ih, List.append_assoc]

/-- **the reader the retrying caller ends in** when the schedule delivers all `L` bytes: all calls have returned, and it
    is a live `Reader` that lags behind the reader the complete run ends in -/
theorem resumeEnd_spec (cfg : Cfg) (hI : cfg.InflateOk) {t : TCfg} (ht : t.Ok) (hst : t.Stable) (L : Nat) :
    ∀ (sched : List Nat) (ops : List Op) (A B : R), JStE cfg t L A B ops → (∀ op ∈ ops, op.isCall = true) →
    (∀ x ∈ (run cfg t B ops).2, x.isGood = true) → L ≤ A.visible + sched.sum →
    ∃ A' s', resumeEnd cfg t L sched ops A = some (A', s') ∧ Inv t A' ∧ A'.isReader = true ∧ A'.dead = false ∧
      LagSome cfg A'.visible L A' (run cfg t B ops).1 := by
  intro sched
  induction sched with
  | nil =>
    intro ops A B hJ hc hg hs
    obtain ⟨B', _, b2, _, _, _, b6, b7⟩ := runUntilEof_specE cfg hI ht hst L ops A B hJ hc hg
    have hle := hJ.le
    have hv : A.visible = L := by simp only [List.sum_nil, Nat.add_zero] at hs; omega
    have hn := b6 hv
    rw [hn] at b2 b7
    obtain ⟨c1, c2, c3, c4⟩ := b2
    refine ⟨_, [], by rw [resumeEnd, if_pos hn], c1, c2, c3, ?_⟩
    rw [b7]; exact c4
  | cons g sched ih =>
    intro ops A B hJ hc hg hs
    obtain ⟨B', _, b2, b3, b4, b5, _, b7⟩ := runUntilEof_specE cfg hI ht hst L ops A B hJ hc hg
    by_cases hn : (runUntilEof cfg t ops A).2.2 = []
    · rw [hn] at b2 b7
      obtain ⟨c1, c2, c3, c4⟩ := b2
      refine ⟨_, g :: sched, by rw [resumeEnd, if_pos hn], c1, c2, c3, ?_⟩
      rw [b7]; exact c4
    · have hle := b2.le
      have hJ2 := b2.grow (min L ((runUntilEof cfg t ops A).1.visible + g)) (by omega) (Nat.min_le_left _ _)
      obtain ⟨A', s', z1, z2⟩ := ih (runUntilEof cfg t ops A).2.2 _ B' hJ2 b3 b4 (by
        show L ≤ min L ((runUntilEof cfg t ops A).1.visible + g) + sched.sum
        simp only [List.sum_cons] at hs
        rw [b5]
        omega)
      refine ⟨A', s', by rw [resumeEnd, if_neg hn]; exact z1, ?_⟩
      rw [b7]; exact z2

/-- one refused call of the retrying caller: it is not retried -/
theorem resumeRun_single_fatal (cfg : Cfg) (t : TCfg) (L : Nat) (sched : List Nat) (op : Op) (r : R)
    (he : (step cfg t r op).2.isEof = false) : resumeRun cfg t L sched [op] r = [(step cfg t r op).2] := by
  have hru : runUntilEof cfg t [op] r = ((step cfg t r op).1, [(step cfg t r op).2], []) := by
    rw [runUntilEof, if_neg (by rw [he]; simp)]
    rfl
  cases sched with
  | nil => rw [resumeRun, hru]
  | cons g sched => rw [resumeRun, hru]; simp only; rw [resumeRun_nil_ops, List.append_nil]

/-- **the refused call behind the last frame, for the retrying caller.**  `A` lags behind `B`, the reader that sees all
    `L` bytes; no call of `ops` fails from `B`, and the run from `B` ends with no frame remaining and no row pending.  If
    the schedule delivers all `L` bytes, the retrying caller's results on `ops` followed by one more `next_frame` are the
    results of the complete run on `ops` and then `Parameter(PolledAfterEndOfImage)`. -/
theorem resume_then_polled (cfg : Cfg) (hI : cfg.InflateOk) {t : TCfg} (ht : t.Ok) (hst : t.Stable) (L : Nat)
    (sched : List Nat) (ops : List Op) (A B : R) (hJ : JStE cfg t L A B ops) (hc : ∀ op ∈ ops, op.isCall = true)
    (hg : ∀ x ∈ (run cfg t B ops).2, x.isGood = true) (hs : L ≤ A.visible + sched.sum)
    (hrem : (run cfg t B ops).1.remaining = 0) (hcur : (run cfg t B ops).1.sub.cur = none) (q : UInt8) :
    resumeRun cfg t L sched (ops ++ [.nextFrame q]) A = (run cfg t B ops).2 ++ [.err .parameter "PolledAfterEndOfImage"] := by
  obtain ⟨zs, z1, z2⟩ := resumeRun_spec cfg hI ht hst L sched ops A B hJ.toJSt hc hg
  rw [z2 hs, List.append_nil] at z1
  obtain ⟨A', s', e1, e2, e3, e4, e5⟩ := resumeEnd_spec cfg hI ht hst L sched ops A B hJ hc hg hs
  rw [resumeRun_append_end, e1, ← z1]
  simp only
  obtain ⟨m, hle⟩ := e5.le
  obtain ⟨_, f2, _, f4, _⟩ := hle.fields
  obtain ⟨i, hi, _⟩ := e2.info
  have hstep : step cfg t A' (.nextFrame q) = ({ A' with pendingBuf := none }, .err .parameter "PolledAfterEndOfImage") := by
    rw [(step_reader cfg t A' e3).1 q]
    exact nextFrameOp_polled cfg t A' q i hi (by rw [← f4]; exact hrem) (by rw [← f2]; exact hcur)
  rw [resumeRun_single_fatal cfg t L s' (.nextFrame q) A' (by rw [hstep]; rfl), hstep]

/-- **… from the `Decoder`**: `read_info` succeeded on the visible prefix (`resumeRun_from_start` with the refused call) -/
theorem resumeRun_from_start_polled (cfg : Cfg) (hI : cfg.InflateOk) {t : TCfg} (ht : t.Ok) (hst : t.Stable) (a r0 : R)
    (hP : PreInv a) (hr : a.isReader = false) (hd : a.dead = false) (L : Nat) (hv : a.visible ≤ L)
    (h : step cfg t a .readInfo = (r0, .header)) (ops : List Op) (hc : ∀ op ∈ ops, op.isCall = true) (sched : List Nat)
    (hg : ∀ x ∈ (run cfg t (growTo a L) (.readInfo :: ops)).2, x.isGood = true) (hs : L ≤ a.visible + sched.sum)
    (hrem : (run cfg t (growTo a L) (.readInfo :: ops)).1.remaining = 0)
    (hcur : (run cfg t (growTo a L) (.readInfo :: ops)).1.sub.cur = none) (q : UInt8) :
    (run cfg t (growTo a L) (.readInfo :: ops)).2 ++ [.err .parameter "PolledAfterEndOfImage"] =
      .header :: resumeRun cfg t L sched (ops ++ [.nextFrame q]) r0 := by
  have hstep : ∀ x : R, x.dead = false → step cfg t x .readInfo = readInfo cfg t x := by
    intro x hx
    simp only [step, hx, Bool.false_eq_true, if_false]
  rw [hstep a hd] at h
  have hL := readInfo_stable cfg hI t a r0 L hP hv h
  have hself := readInfo_stable cfg hI t a r0 a.visible hP (Nat.le_refl _) h
  rw [growTo_visible a rfl, h] at hself
  have hvis : r0.visible = a.visible := by
    have := congrArg (fun o => o.1.visible) hself
    exact this
  have hsp := readInfo'_spec cfg t a hP hr
  have hri : readInfo' cfg t a = (r0, .header) := by
    unfold readInfo at h
    generalize readInfo' cfg t a = o at h
    obtain ⟨r1, x⟩ := o
    cases x with
    | header => exact h
    | _ => simp only [Prod.mk.injEq, reduceCtorEq, and_false] at h
  rw [hri] at hsp
  have hfacts : Inv t r0 ∧ r0.isReader = true ∧ r0.dead = false := by
    rcases hsp with ⟨_, h1, h2, h3, _⟩ | h1
    · exact ⟨h1, h2, h3.trans hd⟩
    · cases h1
  rw [run_cons, hstep (growTo a L) hd, hL] at hg hrem hcur ⊢
  simp only at hg hrem hcur ⊢
  have hJ : JStE cfg t L r0 (growTo r0 L) ops :=
    JStE.start hfacts.1 hfacts.2.1 hfacts.2.2 ⟨0, rfl, by rw [hvis]; exact hv, Sim.refl _⟩ ops
  rw [resume_then_polled cfg hI ht hst L sched ops r0 (growTo r0 L) hJ hc
    (fun x hx => hg x (List.mem_cons_of_mem _ hx)) (by rw [hvis]; exact hs) hrem hcur q]
  rfl

/-! ## for a new `Decoder` and a transformation satisfying the contracts of C05 up to `Info`s no stream produces -/

/-- **`read_info` on a prefix, then the retrying caller, with the refused call behind the last frame.**  The run
    `read_info, ops` on the complete file returns `.header :: res`, all of `res` successful, and ENDS with no frame
    remaining and no row pending; the schedule delivers the whole file.  Then the retrying caller's results on `ops`
    followed by one more `next_frame` are `res` and then `Parameter(PolledAfterEndOfImage)`. -/
theorem delivery_then_polled' (cfg : Cfg) (hI : cfg.InflateOk) {t : TCfg} (hT : t.ResumeOk) (opts : Options)
    (limit : Nat) (f : Flags) (file : Bytes) (hlen : file.length < 2 ^ 32) (v : Nat) (hv : v ≤ file.length) (r0 : R)
    (hri : step cfg t (R.init opts limit f file v) .readInfo = (r0, .header)) (ops : List Op)
    (hc : ∀ op ∈ ops, op.isCall = true) (sched : List Nat) (hs : file.length ≤ v + sched.sum) (res : List Reader.Res)
    (hrun : (run cfg t (R.init opts limit f file file.length) (.readInfo :: ops)).2 = .header :: res)
    (hg : ∀ x ∈ res, x.isGood = true)
    (hrem : (run cfg t (R.init opts limit f file file.length) (.readInfo :: ops)).1.remaining = 0)
    (hcur : (run cfg t (R.init opts limit f file file.length) (.readInfo :: ops)).1.sub.cur = none) (q : UInt8) :
    resumeRun cfg t file.length sched (ops ++ [.nextFrame q]) r0 = res ++ [.err .parameter "PolledAfterEndOfImage"] := by
  obtain ⟨tk, hag, hOk, hSt⟩ := hT
  have hk0 := ki_init opts limit f file v
  have hk : KI r0 := ki_of_eq hri (step_ki cfg t _ .readInfo hk0)
  have hri' : step cfg tk (R.init opts limit f file v) .readInfo = (r0, .header) := by
    rw [step_agree hag cfg _ hk0]; exact hri
  have hrunE : run cfg tk (R.init opts limit f file file.length) (.readInfo :: ops) =
      run cfg t (R.init opts limit f file file.length) (.readInfo :: ops) :=
    run_agree hag cfg _ (ki_init opts limit f file file.length) _
  have hgood : ∀ x ∈ (run cfg tk (growTo (R.init opts limit f file v) file.length) (.readInfo :: ops)).2,
      x.isGood = true := by
    rw [growTo_init, hrunE, hrun]
    intro x hx
    simp only [List.mem_cons] at hx
    rcases hx with rfl | hx
    · rfl
    · exact hg x hx
  have := resumeRun_from_start_polled cfg hI hOk hSt (R.init opts limit f file v) r0
    (preInv_init opts limit f file v hlen) rfl rfl file.length hv hri' ops hc sched hgood hs
    (by rw [growTo_init, hrunE]; exact hrem) (by rw [growTo_init, hrunE]; exact hcur) q
  rw [growTo_init, hrunE, hrun] at this
  simp only [List.cons_append, List.cons.injEq, true_and] at this
  rw [← resumeRun_agree hag cfg file.length sched _ r0 hk]
  exact this.symm

end Png.Reader
