import PngVerif.Proofs.EncodeMeta
import PngVerif.Props.C17
/-!
# C17 at the byte level: `expectedInfo`, field by field

`fields_of_expected`: what the conclusion `{ i with text := [] } = expectedInfo m` of `C17_header_roundtrip` and of its byte-level
counterparts says about each field of `i` for a configuration whose blobs survive as they are (`C17.Clean`) — the computation
inside `C17.C17_header_roundtrip_partial`, as a lemma of its own.
-/
namespace Png.MetaBytes
open Png Png.Framing Png.EncodeMeta Png.C17

/-- what `{ i with text := [] } = expectedInfo m` says field by field for a configuration whose blobs survive as they are
    (`Clean`: a transparency that applies to the colour type; `Clean`'s first clause is void now that empty chunks are parsed) -/
theorem fields_of_expected (m : MetaConfig) (hclean : Clean m) (i : Info) (h4 : { i with text := [] } = expectedInfo m) :
    i.width = m.width ∧ i.height = m.height ∧ i.depth = m.depth ∧ i.color = m.color ∧ i.interlaced = false ∧
    i.pixelDims = m.pixelDims.map (fun p => (p.xppu, p.yppu, if p.meter then 1 else 0)) ∧
    i.srgb = m.srgb ∧
    infoGamma i = (if m.srgb.isSome then some substituteGamma else m.gamma) ∧
    infoChroma i = (if m.srgb.isSome then some substituteChroma.toList else m.chroma.map Chromaticities.toList) ∧
    i.icc = (if m.srgb.isSome then none else m.icc) ∧
    i.exif = m.exif ∧ i.actl = m.actl ∧ i.palette = m.palette ∧
    i.trns = m.trns.map (trnsStored m.color m.depth) ∧ i.fctl = none := by
  obtain ⟨c0, c3⟩ := hclean
  have e : ∀ {α : Type} (f : Info → α), (∀ j : Info, f { j with text := [] } = f j) → f i = f (expectedInfo m) := by
    intro α f hf; rw [← h4, hf]
  have keep : ∀ (o : Option Bytes), (parseEmptyChunks = false → o ≠ some []) → nonEmpty o = o := by
    intro o ho
    cases o with
    | none => rfl
    | some b =>
      rw [nonEmpty_some]
      have : skipped b = false := by
        cases hsk : skipped b with
        | false => rfl
        | true =>
          obtain ⟨hb, hp⟩ := skipped_true b hsk
          exact absurd (by rw [hb]) (ho hp)
      rw [this]; rfl
  have hexif : nonEmpty m.exif = m.exif := keep _ (fun hp => (c0 hp).1)
  have hplte : nonEmpty m.palette = m.palette := keep _ (fun hp => (c0 hp).2.1)
  have htrns : trnsRead m.color m.depth (nonEmpty m.palette).isSome m.trns = m.trns.map (trnsStored m.color m.depth) := by
    rw [hplte]
    cases hx : m.trns with
    | none => rfl
    | some v =>
      have hv2 := c3 v hx
      rw [trnsRead_some]
      have : skipped v = false := by
        cases hsk : skipped v with
        | false => rfl
        | true =>
          obtain ⟨hb, hp⟩ := skipped_true v hsk
          exact absurd (by rw [hx, hb]) (c0 hp).2.2
      simp only [this, Bool.false_eq_true, if_false, hv2, if_true, Option.map_some]
  refine ⟨e (·.width) (fun _ => rfl), e (·.height) (fun _ => rfl), e (·.depth) (fun _ => rfl),
    e (·.color) (fun _ => rfl), e (·.interlaced) (fun _ => rfl), e (·.pixelDims) (fun _ => rfl),
    e (·.srgb) (fun _ => rfl), ?_, ?_, ?_, ?_, e (·.actl) (fun _ => rfl), ?_, ?_, e (·.fctl) (fun _ => rfl)⟩
  · rw [e infoGamma (fun _ => rfl)]
    cases hs : m.srgb <;> simp [infoGamma, expectedInfo, gamaWritten, hs]
  · rw [e infoChroma (fun _ => rfl)]
    cases hs : m.srgb <;> simp [infoChroma, expectedInfo, chrmWritten, hs]
  · rw [e (·.icc) (fun _ => rfl)]
    cases hs : m.srgb <;> simp [expectedInfo, iccWritten, hs]
  · rw [e (·.exif) (fun _ => rfl)]; exact hexif
  · rw [e (·.palette) (fun _ => rfl)]; exact hplte
  · rw [e (·.trns) (fun _ => rfl)]; exact htrns

end Png.MetaBytes
