import PngVerif.Proofs.LazyRefineTop
/-!
# `Reader` refines `Lazy`, part 15: still images with chunks behind the image data

`wellFormedStill cfg h cs zs post` with `post ≠ []`.  What is new compared to `Proofs/LazyRefineWf.lean`:

* the traces of the chunks behind the image data: the first one starts in the state `Flushed` (its type is pending, it
  was read by the call that flushed the image data), the others between two chunks (`IdleP`: `IdleF` without the fields
  that only hold before the image data); `IEND` from `IdleP` (`iend_trace` starts from `Flushed`).  A chunk is described
  by `AncStep` / `AncStepG` as before the image data: `parse_chunk` accepts it; it fits the chunk buffer or makes it grow
  (`chunk_rest_trace`, `chunk_rest_trace_g`: the second halves of `anc_step` / `anc_step_g`);
* `PostAccepted`: the hypothesis on `post`.  The hypothesis of the C01 theorems (`c.1 ≠ IDAT`, sizes below `2^32`) is not
  enough here: `finish` reads the chunks behind the image data, and a chunk `parse_chunk` refuses makes it fail with an
  error the `Lazy` model has no word for (`Props/C13LazyRefine2.lean` has the counterexample);
* `sim_of_ready_tail`: `sim_of_ready` with the rest of the file given as a `Tail` / `ToEnd` instead of `BetweenD`;
* the invariant `OpenSt` of `Proofs/LazyRefineExact.lean` with `BetweenD ∨ (no frames ∧ ToEnd)` in place of `BetweenD`
  (namespace `Png.LazyRefine.Post`, same names; the proofs are those of `LazyRefineExact.lean`).
-/
namespace Png.LazyRefine
open Png Png.Framing Png.WellFormed Png.Reader

/-! ## traces of the chunks behind the image data -/

/-- between two chunks, behind the image data: `info` holds the header fields `c` -/
structure IdleP (d : Dec) (c : Nat × Nat × Nat × Nat × Bool) : Prop where
  state : d.state = some (.u32 .length [])
  out : d.out = []
  info : ∃ i, d.info = some i ∧ i.core = c
  notData : ¬ (d.curType = IDAT ∨ d.curType = fdAT)

theorem ancStep_cap {cfg : Cfg} {d d' : Dec} {t : ChunkType} {body : Bytes} (hs : AncStep cfg d t body d') :
    d'.cap = d.cap ∧ d'.opts = d.opts := by
  obtain ⟨ev, d2, hp, rfl⟩ := hs.parse
  have hfr := parseChunk_frame hp
  exact ⟨hfr.cap, hfr.opts⟩

/-- the state an accepted chunk leaves -/
theorem ancStep_idleP {cfg : Cfg} {d d' : Dec} {c : Nat × Nat × Nat × Nat × Bool} {t : ChunkType} {body : Bytes}
    (ho : d.out = []) (hi : ∃ i, d.info = some i ∧ i.core = c) (hs : AncStep cfg d t body d') : IdleP d' c := by
  obtain ⟨ev, d2, hp, rfl⟩ := hs.parse
  obtain ⟨i, hi, hcore⟩ := hi
  have hfr := parseChunk_frame hp
  obtain ⟨hinfc, _⟩ := parseChunk_info hs.tIHDR hs.tfcTL hp
  refine ⟨rfl, ?_, ?_, ?_⟩
  · show d2.out = []; rw [hfr.out]; exact ho
  · have h1 : d2.info.map Info.core = some c := by rw [hinfc]; show d.info.map Info.core = _; rw [hi, ← hcore]; rfl
    show ∃ i, d2.info = some i ∧ i.core = c
    cases hd2 : d2.info with
    | none => rw [hd2] at h1; cases h1
    | some i' =>
      rw [hd2] at h1
      simp only [Option.map_some, Option.some.injEq] at h1
      exact ⟨i', rfl, h1⟩
  · show ¬ (d2.curType = IDAT ∨ d2.curType = fdAT)
    rw [hfr.curType]
    show ¬ (t = IDAT ∨ t = fdAT)
    exact fun h => h.elim hs.tIDAT hs.tfdAT

/-- **body and CRC of an accepted chunk**, from the state its `ChunkBegin` leaves (the second half of `anc_step`) -/
theorem chunk_rest_trace (cfg : Cfg) (hC : cfg.CrcOk) {d d' : Dec} {t : ChunkType} {body : Bytes}
    (ho : d.out = []) (hs : AncStep cfg d t body d') (tb : Bytes) :
    ∃ evs, Trace cfg (fun _ => True)
        ({ d with state := some (if body.length = 0 then St.parseChunkData t else St.readChunkData t), curType := t,
                  crcAcc := if d.opts.ignoreCrc then d.crcAcc else typeBytes t, remaining := body.length,
                  raw := [] } : Dec).clearOut
        (body ++ (be32Bytes (cfg.crc (typeBytes t ++ body)) ++ tb)) evs d' tb ∧ ∀ e ∈ evs, PreEv e := by
  obtain ⟨ev, d2, hp, rfl⟩ := hs.parse
  have hfr := parseChunk_frame hp
  have hev := parseChunk_ev hp
  have hok := parseChunk_ok hp
  generalize hD1 : ({ d with state := some (if body.length = 0 then St.parseChunkData t else St.readChunkData t), curType := t, crcAcc := if d.opts.ignoreCrc then d.crcAcc else typeBytes t, remaining := body.length, raw := [] } : Dec) = D1
  have hcol : D1.clearOut.collect body = d.atParse t body := by rw [← hD1]; exact collect_eq_atParse d t body ho
  have hcrc : (d2.opts.ignoreCrc = false → cfg.crc d2.crcAcc = cfg.crc (typeBytes t ++ body)) := by
    intro hig
    rw [hfr.crcAcc]
    have : d.opts.ignoreCrc = false := by rw [← hig, hfr.opts]; rfl
    show cfg.crc (if d.opts.ignoreCrc then d.crcAcc else typeBytes t ++ body) = _
    rw [this]; rfl
  have hout2 : d2.out = [] := by rw [hfr.out]; exact ho
  have hcc : PreEv (Ev.chunkComplete (cfg.crc (typeBytes t ++ body)) t, ([] : Bytes)) :=
    ⟨rfl, by simp, fun _ _ he => by cases he⟩
  have mem1 : ∀ (x : Ev × Bytes), PreEv x → ∀ e ∈ [x], PreEv e := by
    intro x hx e he
    simp only [List.mem_cons, List.mem_nil_iff, or_false] at he
    subst he; exact hx
  have mem2 : ∀ (x y : Ev × Bytes), PreEv x → PreEv y → ∀ e ∈ [x, y], PreEv e := by
    intro x y hx hy e he
    simp only [List.mem_cons, List.mem_nil_iff, or_false] at he
    rcases he with rfl | rfl
    · exact hx
    · exact hy
  have hD2 : d2.clearOut = d2 := clearOut_of_nil hout2
  by_cases hb : body = []
  · subst hb
    have hst1 : D1.clearOut.state = some (.parseChunkData t) := by rw [← hD1]; rfl
    have hrem1 : D1.clearOut.remaining = 0 := by rw [← hD1]; rfl
    have hp1 : parseChunk cfg D1.clearOut t = .ok (ev, d2) := by
      have : D1.clearOut.collect [] = D1.clearOut.withState none := by
        simp only [Dec.collect, Dec.readPiece, Dec.withState, List.length_nil, List.append_nil, Nat.sub_zero]
        cases D1.clearOut.opts.ignoreCrc <;> rfl
      rw [← parseChunk_withState cfg D1.clearOut none, ← this, hcol]; exact hp
    simp only [List.nil_append]
    by_cases hevn : ev = .nothing
    · subst hevn
      have hu2 := update_parse_crc (cfg := cfg) (rest := tb) hst1 hrem1 hp1 (hC _) hs.tIEND hcrc
      have T2 : Trace cfg (fun _ => True) D1.clearOut (be32Bytes (cfg.crc (typeBytes t ++ [])) ++ tb)
          [(.chunkComplete (cfg.crc (typeBytes t ++ [])) t, [])] (d2.withState (some (.u32 .length []))) tb :=
        Trace.one (by simp [be32Bytes]) hu2 (clearOut_of_nil hout2) trivial hout2 (List.drop_left' rfl)
      exact ⟨_, T2, mem1 _ hcc⟩
    · have hu2 := update_parse_event (cfg := cfg) (rest := be32Bytes (cfg.crc (typeBytes t ++ [])) ++ tb)
        hst1 hrem1 (by simp [be32Bytes]) hp1 hevn
      have hu3 := update_crc (cfg := cfg) (d := d2) (t := t) (rest := tb) hok.1 (hC _) hs.tIEND hcrc
      have T2 : Trace cfg (fun _ => True) D1.clearOut (be32Bytes (cfg.crc (typeBytes t ++ [])) ++ tb)
          [(ev, [])] d2 (be32Bytes (cfg.crc (typeBytes t ++ [])) ++ tb) :=
        Trace.one (by simp [be32Bytes]) hu2 hD2 trivial hout2 List.drop_zero
      have T3 : Trace cfg (fun _ => True) d2 (be32Bytes (cfg.crc (typeBytes t ++ [])) ++ tb)
          [(.chunkComplete (cfg.crc (typeBytes t ++ [])) t, [])] (d2.withState (some (.u32 .length []))) tb :=
        Trace.one (by simp [be32Bytes]) hu3 (clearOut_of_nil hout2) trivial hout2 (List.drop_left' rfl)
      exact ⟨_, T2.append T3, mem2 _ _ (hev.preEv hok.2) hcc⟩
  · have hlen0 : body.length ≠ 0 := by intro h; exact hb (List.eq_nil_of_length_eq_zero h)
    have hst1 : D1.clearOut.state = some (.readChunkData t) := by rw [← hD1]; simp [hlen0]
    have hrem1 : D1.clearOut.remaining = body.length := by rw [← hD1]; rfl
    have hcap1 : body.length ≤ D1.clearOut.cap - D1.clearOut.raw.length := by
      rw [← hD1]; show body.length ≤ d.cap - 0; have := hs.cap; omega
    by_cases hevn : ev = .nothing
    · subst hevn
      have hu2 := update_body_crc (cfg := cfg) (rest := tb) hst1 hrem1 hb hcap1 (by rw [hcol]; exact hp) (hC _) hs.tIEND hcrc
      have T2 : Trace cfg (fun _ => True) D1.clearOut (body ++ (be32Bytes (cfg.crc (typeBytes t ++ body)) ++ tb))
          [(.chunkComplete (cfg.crc (typeBytes t ++ body)) t, [])] (d2.withState (some (.u32 .length []))) tb := by
        refine Trace.one (by simp [hb]) hu2 (clearOut_of_nil hout2) trivial hout2 ?_
        rw [← List.append_assoc, List.drop_left' (by simp [be32Bytes_length])]
      exact ⟨_, T2, mem1 _ hcc⟩
    · have hu2 := update_body_event (cfg := cfg) (rest := be32Bytes (cfg.crc (typeBytes t ++ body)) ++ tb)
        hst1 hrem1 hb hcap1 (by simp [be32Bytes]) (by rw [hcol]; exact hp) hevn
      have hu3 := update_crc (cfg := cfg) (d := d2) (t := t) (rest := tb) hok.1 (hC _) hs.tIEND hcrc
      have T2 : Trace cfg (fun _ => True) D1.clearOut (body ++ (be32Bytes (cfg.crc (typeBytes t ++ body)) ++ tb))
          [(ev, [])] d2 (be32Bytes (cfg.crc (typeBytes t ++ body)) ++ tb) :=
        Trace.one (by simp [hb]) hu2 hD2 trivial hout2 (List.drop_left' rfl)
      have T3 : Trace cfg (fun _ => True) d2 (be32Bytes (cfg.crc (typeBytes t ++ body)) ++ tb)
          [(.chunkComplete (cfg.crc (typeBytes t ++ body)) t, [])] (d2.withState (some (.u32 .length []))) tb :=
        Trace.one (by simp [be32Bytes]) hu3 (clearOut_of_nil hout2) trivial hout2 (List.drop_left' rfl)
      exact ⟨_, T2.append T3, mem2 _ _ (hev.preEv hok.2) hcc⟩

theorem preEv_cons {x : Ev × Bytes} {l : List (Ev × Bytes)} (hx : PreEv x) (hl : ∀ e ∈ l, PreEv e) :
    ∀ e ∈ x :: l, PreEv e := by
  intro e he
  simp only [List.mem_cons] at he
  rcases he with rfl | he
  · exact hx
  · exact hl e he

theorem preEv_append {l1 l2 : List (Ev × Bytes)} (h1 : ∀ e ∈ l1, PreEv e) (h2 : ∀ e ∈ l2, PreEv e) :
    ∀ e ∈ l1 ++ l2, PreEv e := by
  intro e he
  rcases List.mem_append.1 he with he | he
  · exact h1 e he
  · exact h2 e he

/-- **an accepted chunk between two chunks behind the image data** -/
theorem post_step_idle (cfg : Cfg) (hC : cfg.CrcOk) {d d' : Dec} {c : Nat × Nat × Nat × Nat × Bool} {t : ChunkType}
    {body : Bytes} (hd : IdleP d c) (hs : AncStep cfg d t body d') (tb : Bytes) :
    ∃ evs, Trace cfg (fun _ => True) d (chunk cfg t body ++ tb) evs d' tb ∧ ∀ e ∈ evs, PreEv e := by
  obtain ⟨i, hi, _⟩ := hd.info
  have hnf : ¬ IsFlush d t := fun h => hd.notData h.2
  have hu1 := update_chunkBegin_other (cfg := cfg) (rest := body ++ (be32Bytes (cfg.crc (typeBytes t ++ body)) ++ tb))
    hd.state hs.len hs.tlt (Or.inl (by rw [hi]; rfl)) hnf hs.tfdAT hs.tIDAT
  obtain ⟨evs, T2, hpre⟩ := chunk_rest_trace cfg hC hd.out hs tb
  generalize hD1 : ({ d with state := some (if body.length = 0 then St.parseChunkData t else St.readChunkData t), curType := t, crcAcc := if d.opts.ignoreCrc then d.crcAcc else typeBytes t, remaining := body.length, raw := [] } : Dec) = D1 at hu1 T2
  have T1 : Trace cfg (fun _ => True) d (chunk cfg t body ++ tb) [(.chunkBegin body.length t, [])] D1.clearOut
      (body ++ (be32Bytes (cfg.crc (typeBytes t ++ body)) ++ tb)) := by
    rw [chunk_append]
    exact Trace.one (head8_ne_nil _ _ _) hu1 rfl trivial (by rw [← hD1]; exact hd.out) (drop_head8 _ _ _)
  have hcb : PreEv (Ev.chunkBegin body.length t, ([] : Bytes)) :=
    ⟨rfl, by simp, fun len t' he => by cases he; exact ⟨hs.tIDAT, hs.tfdAT⟩⟩
  exact ⟨_, T1.append T2, preEv_cons hcb hpre⟩

/-- **the first chunk behind the image data**: its type is pending (`Flushed`) -/
theorem post_step_flushed (cfg : Cfg) (hC : cfg.CrcOk) {d d' : Dec} {i : Info} {t : ChunkType}
    {body : Bytes} (hd : Flushed d i body.length t) (hs : AncStep cfg d t body d') (tb : Bytes) :
    ∃ evs, Trace cfg (fun _ => True) d (body ++ (be32Bytes (cfg.crc (typeBytes t ++ body)) ++ tb)) evs d' tb ∧
      ∀ e ∈ evs, PreEv e := by
  obtain ⟨t0, t1, t2, t3, _, hte, hst⟩ := hd.state
  have hne : body ++ (be32Bytes (cfg.crc (typeBytes t ++ body)) ++ tb) ≠ [] := by simp [be32Bytes]
  have hu1 := update_pending_begin_other (cfg := cfg) hst hte hne (by rw [hd.info]; rfl)
    (fun hf => hf.1 hd.curType.symm) hs.tfdAT hs.tIDAT
  obtain ⟨evs, T2, hpre⟩ := chunk_rest_trace cfg hC hd.out hs tb
  generalize hD1 : ({ d with state := some (if body.length = 0 then St.parseChunkData t else St.readChunkData t), curType := t, crcAcc := if d.opts.ignoreCrc then d.crcAcc else typeBytes t, remaining := body.length, raw := [] } : Dec) = D1 at hu1 T2
  have T1 : Trace cfg (fun _ => True) d (body ++ (be32Bytes (cfg.crc (typeBytes t ++ body)) ++ tb))
      [(.chunkBegin body.length t, [])] D1.clearOut (body ++ (be32Bytes (cfg.crc (typeBytes t ++ body)) ++ tb)) :=
    Trace.one hne hu1 rfl trivial (by rw [← hD1]; exact hd.out) List.drop_zero
  have hcb : PreEv (Ev.chunkBegin body.length t, ([] : Bytes)) :=
    ⟨rfl, by simp, fun len t' he => by cases he; exact ⟨hs.tIDAT, hs.tfdAT⟩⟩
  exact ⟨_, T1.append T2, preEv_cons hcb hpre⟩

theorem preEv_iend :
    ∀ e ∈ [((Ev.chunkBegin 0 IEND, []) : Ev × Bytes), (.partialChunk IEND, [])], PreEv e := by
  intro e he
  simp only [List.mem_cons, List.mem_nil_iff, or_false] at he
  rcases he with rfl | rfl
  · exact ⟨rfl, by simp, fun _ _ hx => by
      cases hx; exact ⟨fun h => IDAT_ne_IEND' h.symm, fun h => fdAT_ne_IEND' h.symm⟩⟩
  · exact ⟨rfl, by simp, fun _ _ hx => by cases hx⟩

/-- **`IEND` between two chunks** (`iend_trace` is the same from `Flushed`) -/
theorem iend_trace_idle (cfg : Cfg) (hC : cfg.CrcOk) {d : Dec} {c : Nat × Nat × Nat × Nat × Bool} (hd : IdleP d c) :
    ∃ d', Trace cfg (fun _ => True) d (chunk cfg IEND [])
      [(.chunkBegin 0 IEND, []), (.partialChunk IEND, []), (.imageEnd, [])] d' [] := by
  obtain ⟨i, hi, _⟩ := hd.info
  have hfile : chunk cfg IEND [] = be32Bytes 0 ++ typeBytes IEND ++ (be32Bytes (cfg.crc (typeBytes IEND ++ [])) ++ []) := by
    have := chunk_append cfg IEND [] []
    simpa using this
  rw [hfile]
  have hne : be32Bytes (cfg.crc (typeBytes IEND ++ [])) ++ ([] : Bytes) ≠ [] := by simp [be32Bytes]
  have hnf : ¬ IsFlush d IEND := fun h => hd.notData h.2
  have hu1 := update_chunkBegin_other (cfg := cfg) (len := 0) (rest := be32Bytes (cfg.crc (typeBytes IEND ++ [])) ++ [])
    hd.state (by decide) IEND_lt (Or.inl (by rw [hi]; rfl)) hnf (fun h => fdAT_ne_IEND' h.symm) (fun h => IDAT_ne_IEND' h.symm)
  generalize hD1 : ({ d with state := some (if 0 = 0 then St.parseChunkData IEND else St.readChunkData IEND), curType := IEND, crcAcc := if d.opts.ignoreCrc then d.crcAcc else typeBytes IEND, remaining := 0, raw := [] } : Dec) = D1 at hu1
  have ho1 : D1.out = [] := by rw [← hD1]; exact hd.out
  have hp2 : parseChunk cfg D1 IEND = .ok (.partialChunk IEND, D1.atCrc IEND) :=
    parseChunk_of_ok (dispatch_unknown cfg _ IEND (Or.inl IEND_not_known))
  have hu2 := update_parse_event' (cfg := cfg) (d := D1) (rest := be32Bytes (cfg.crc (typeBytes IEND ++ [])) ++ [])
    (by rw [← hD1]; rfl) (by rw [← hD1]) hne hp2 (by simp)
  have hu3 := update_crc_end (cfg := cfg) (d := D1.atCrc IEND) (c := cfg.crc (typeBytes IEND ++ [])) (rest := []) rfl (hC _)
    (by
      intro hig
      have hig' : d.opts.ignoreCrc = false := by rw [← hD1] at hig; exact hig
      rw [← hD1]
      simp [Dec.atCrc, hig'])
  refine ⟨(D1.atCrc IEND).withState none, ?_⟩
  refine Trace.cons' (head8_ne_nil _ _ _) hu1 ho1 (clearOut_of_nil ho1) trivial (drop_head8 _ _ _) ?_
  refine Trace.cons' hne hu2 ho1 (clearOut_of_nil (d := D1.atCrc IEND) ho1) trivial (List.drop_zero) ?_
  exact Trace.one hne hu3 (clearOut_of_nil (d := (D1.atCrc IEND).withState none) ho1) trivial ho1 (List.drop_left' rfl)

theorem chunks_cons (cfg : Cfg) (c : ChunkType × Bytes) (cs : List (ChunkType × Bytes)) :
    chunks cfg (c :: cs) = chunk cfg c.1 c.2 ++ chunks cfg cs := by simp [chunks]

/-- **accepted chunks, then `IEND`**, from between two chunks -/
theorem post_chunks_idle (cfg : Cfg) (hC : cfg.CrcOk) {d d' : Dec} {c : Nat × Nat × Nat × Nat × Bool}
    {cs : List (ChunkType × Bytes)} (h : AncChunks cfg d cs d') (hd : IdleP d c) :
    ∃ evs dE, (∀ e ∈ evs, PreEv e) ∧
      Trace cfg (fun _ => True) d (chunks cfg cs ++ chunk cfg IEND []) (evs ++ [(.imageEnd, [])]) dE [] := by
  induction h with
  | nil d =>
    obtain ⟨d', htr⟩ := iend_trace_idle cfg hC hd
    refine ⟨[(.chunkBegin 0 IEND, []), (.partialChunk IEND, [])], d', preEv_iend, ?_⟩
    simpa [chunks] using htr
  | @cons d0 d1 d' t body cs h1 _ ih =>
    obtain ⟨e1, T1, p1⟩ := post_step_idle cfg hC hd h1 (chunks cfg cs ++ chunk cfg IEND [])
    obtain ⟨e2, dE, p2, T2⟩ := ih (ancStep_idleP hd.out hd.info h1)
    refine ⟨e1 ++ e2, dE, preEv_append p1 p2, ?_⟩
    rw [chunks_cons, List.append_assoc, List.append_assoc]
    exact T1.append T2

/-- length and type of the chunk that follows the image data, and the bytes behind these -/
def postHead (cfg : Cfg) : List (ChunkType × Bytes) → Nat × Nat × Bytes
  | [] => (0, IEND, [] ++ (be32Bytes (cfg.crc (typeBytes IEND ++ [])) ++ []))
  | c :: post =>
    (c.2.length, c.1, c.2 ++ (be32Bytes (cfg.crc (typeBytes c.1 ++ c.2)) ++ (chunks cfg post ++ chunk cfg IEND [])))

theorem postHead_eq (cfg : Cfg) (post : List (ChunkType × Bytes)) :
    chunks cfg post ++ chunk cfg IEND [] =
      be32Bytes (postHead cfg post).1 ++ typeBytes (postHead cfg post).2.1 ++ (postHead cfg post).2.2 := by
  cases post with
  | nil =>
    simp only [chunks, List.map_nil, List.flatten_nil, List.nil_append, postHead]
    exact chunk_append cfg IEND [] []
  | cons c post =>
    simp only [postHead]
    rw [chunks_cons, List.append_assoc, chunk_append]

/-- **the chunks behind the image data, then `IEND`**, from behind `ImageDataFlushed` -/
theorem post_chunks_flushed (cfg : Cfg) (hC : cfg.CrcOk) {d d' : Dec} {i : Info} {post : List (ChunkType × Bytes)}
    (hd : Flushed d i (postHead cfg post).1 (postHead cfg post).2.1) (h : AncChunks cfg d post d') :
    ∃ evs dE, (∀ e ∈ evs, PreEv e) ∧
      Trace cfg (fun _ => True) d (postHead cfg post).2.2 (evs ++ [(.imageEnd, [])]) dE [] := by
  cases h with
  | nil =>
    simp only [postHead] at hd ⊢
    obtain ⟨d', htr, _, _, _⟩ := iend_trace cfg hC hd []
    refine ⟨[(.chunkBegin 0 IEND, []), (.partialChunk IEND, [])], d', preEv_iend, ?_⟩
    simpa using htr.mono (fun _ _ => trivial)
  | @cons _ d1 _ t body cs h1 h2 =>
    simp only [postHead] at hd ⊢
    obtain ⟨e1, T1, p1⟩ := post_step_flushed cfg hC hd h1 (chunks cfg cs ++ chunk cfg IEND [])
    obtain ⟨e2, dE, p2, T2⟩ := post_chunks_idle cfg hC h2 (ancStep_idleP hd.out ⟨i, hd.info, rfl⟩ h1)
    refine ⟨e1 ++ e2, dE, preEv_append p1 p2, ?_⟩
    rw [List.append_assoc]
    exact T1.append T2



/-! ## chunks of any length behind the image data (`AncStepG`: the chunk buffer grows in rounds) -/

theorem ancStep_toG {cfg : Cfg} {d d' : Dec} {t : ChunkType} {body : Bytes} (hs : AncStep cfg d t body d') :
    AncStepG cfg d t body d' := by
  obtain ⟨ev, d2, hp, hd'⟩ := hs.parse
  have hg : growCap body.length (body.length + 1) d.cap d.limit = some (d.cap, d.limit) := by
    unfold growCap; rw [if_pos hs.cap]
  have hX : ({ d.atParse t body with cap := d.cap, limit := d.limit } : Dec) = d.atParse t body := rfl
  exact ⟨hs.tIHDR, hs.tIDAT, hs.tfdAT, hs.tIEND, hs.tfcTL, hs.tlt, hs.len, d.cap, d.limit, hg, ev, d2, by rw [hX]; exact hp, hd'⟩

theorem ancChunks_toG {cfg : Cfg} {d d' : Dec} {cs : List (ChunkType × Bytes)} (h : AncChunks cfg d cs d') :
    AncChunksG cfg d cs d' := by
  induction h with
  | nil d => exact .nil d
  | cons h1 _ ih => exact .cons (ancStep_toG h1) ih

/-- the state an accepted chunk of any length leaves -/
theorem ancStepG_idleP {cfg : Cfg} {d d' : Dec} {c : Nat × Nat × Nat × Nat × Bool} {t : ChunkType} {body : Bytes}
    (ho : d.out = []) (hi : ∃ i, d.info = some i ∧ i.core = c) (hs : AncStepG cfg d t body d') : IdleP d' c := by
  obtain ⟨cap', limit', hg, ev, d2, hp, rfl⟩ := hs.parse
  obtain ⟨i, hi, hcore⟩ := hi
  generalize hX : ({ d.atParse t body with cap := cap', limit := limit' } : Dec) = X at hp
  have hfr := parseChunk_frame hp
  obtain ⟨hinfc, _⟩ := parseChunk_info hs.tIHDR hs.tfcTL hp
  have hXi : X.info = d.info := by rw [← hX]; rfl
  refine ⟨rfl, ?_, ?_, ?_⟩
  · show d2.out = []; rw [hfr.out, ← hX]; exact ho
  · have h1 : d2.info.map Info.core = some c := by rw [hinfc, hXi, hi, ← hcore]; rfl
    show ∃ i, d2.info = some i ∧ i.core = c
    cases hd2 : d2.info with
    | none => rw [hd2] at h1; cases h1
    | some i' =>
      rw [hd2] at h1
      simp only [Option.map_some, Option.some.injEq] at h1
      exact ⟨i', rfl, h1⟩
  · show ¬ (d2.curType = IDAT ∨ d2.curType = fdAT)
    rw [hfr.curType, ← hX]
    show ¬ (t = IDAT ∨ t = fdAT)
    exact fun h => h.elim hs.tIDAT hs.tfdAT

/-- **body and CRC of an accepted chunk of any length**, from the state its `ChunkBegin` leaves (the second half of
    `anc_step_g`): the growth rounds (`PartialChunk`), the rest of the body, `parse_chunk`, the CRC -/
theorem chunk_rest_trace_g (cfg : Cfg) (hC : cfg.CrcOk) {d d' : Dec} {t : ChunkType} {body : Bytes}
    (ho : d.out = []) (hcap0 : 0 < d.cap) (hs : AncStepG cfg d t body d') (tb : Bytes) :
    (∃ evs, Trace cfg (fun _ => True) ({ d with state := some (if body.length = 0 then St.parseChunkData t else St.readChunkData t), curType := t, crcAcc := if d.opts.ignoreCrc then d.crcAcc else typeBytes t, remaining := body.length, raw := [] } : Dec).clearOut
        (body ++ (be32Bytes (cfg.crc (typeBytes t ++ body)) ++ tb)) evs d' tb ∧ ∀ e ∈ evs, PreEv e) ∧ d.cap ≤ d'.cap := by
  obtain ⟨cap', limit', hg, ev, d2, hp, hd'⟩ := hs.parse
  by_cases hfit : body.length ≤ d.cap
  · have hg' : growCap body.length (body.length + 1) d.cap d.limit = some (d.cap, d.limit) := by
      unfold growCap; rw [if_pos hfit]
    rw [hg'] at hg
    simp only [Option.some.injEq, Prod.mk.injEq] at hg
    obtain ⟨rfl, rfl⟩ := hg
    have hst : AncStep cfg d t body d' :=
      ⟨hs.tIHDR, hs.tIDAT, hs.tfdAT, hs.tIEND, hs.tfcTL, hs.tlt, hs.len, hfit, ev, d2, hp, hd'⟩
    exact ⟨chunk_rest_trace cfg hC ho hst tb, Nat.le_of_eq (ancStep_cap hst).1.symm⟩
  · subst hd'
    generalize hX : ({ d.atParse t body with cap := cap', limit := limit' } : Dec) = X at hp
    have hfr := parseChunk_frame hp
    have hev := parseChunk_ev hp
    have hok := parseChunk_ok hp
    have hout2 : d2.out = [] := by rw [hfr.out, ← hX]; exact ho
    have hblen : body ≠ [] := by intro h; rw [h] at hfit; simp at hfit
    have hb0 : 0 < body.length := by cases body with | nil => exact absurd rfl hblen | cons _ _ => simp
    generalize hD1 : ({ d with state := some (if body.length = 0 then St.parseChunkData t else St.readChunkData t), curType := t, crcAcc := if d.opts.ignoreCrc then d.crcAcc else typeBytes t, remaining := body.length, raw := [] } : Dec) = D1
    have hc1 : Collecting D1.clearOut t body 0 := by
      rw [← hD1]
      refine ⟨?_, rfl, Nat.zero_le _, rfl, hcap0, rfl, fun hig => ?_⟩
      · show some (if body.length = 0 then St.parseChunkData t else St.readChunkData t) = _
        rw [if_neg (by omega)]
      · have hig' : d.opts.ignoreCrc = false := hig
        simp [Dec.clearOut, hig']
    have hcapD1 : D1.clearOut.cap = d.cap := by rw [← hD1]; rfl
    have hlimD1 : D1.clearOut.limit = d.limit := by rw [← hD1]; rfl
    obtain ⟨evs, dG, got', TG, hevG, hcG, hfitG, hcapG, hlimG, hkG, hltG, hcrcG, _, hcle⟩ :=
      grow_trace cfg t body (be32Bytes (cfg.crc (typeBytes t ++ body)) ++ tb) (by simp [be32Bytes]) cap' limit'
        (body.length + 1) D1.clearOut 0 hc1 (by rw [hcapD1, hlimD1]; exact hg)
    have hcapfact : d.cap ≤ (d2.withState (some (.u32 .length []))).cap := by
      show d.cap ≤ d2.cap
      have h1 : d2.cap = X.cap := hfr.cap
      have h2 : X.cap = cap' := by rw [← hX]
      rw [hcapD1] at hcle
      omega
    refine ⟨?_, hcapfact⟩
    have hgot' : got' < body.length := hltG hb0
    rw [List.drop_zero] at TG
    have hrest : body.drop got' ≠ [] := by
      intro h; have := congrArg List.length h; simp only [List.length_drop, List.length_nil] at this; omega
    have hrawG : dG.raw.length = got' := by rw [hcG.raw, List.length_take]; omega
    have hcol : dG.collect (body.drop got') = X := by
      rw [← hX]
      apply Dec.ext18
      · rfl
      · show dG.curType = t; rw [hkG.curType, ← hD1]; rfl
      · show (if dG.opts.ignoreCrc then dG.crcAcc else dG.crcAcc ++ body.drop got') = (if d.opts.ignoreCrc then d.crcAcc else typeBytes t ++ body)
        have hoo : dG.opts = d.opts := by rw [hkG.opts, ← hD1]; rfl
        rw [hoo]
        cases hig : d.opts.ignoreCrc with
        | true =>
          have h1 : D1.clearOut.opts.ignoreCrc = true := by rw [← hD1]; exact hig
          simp only [if_true]
          rw [hcrcG h1, ← hD1]
          show (if d.opts.ignoreCrc then d.crcAcc else typeBytes t) = _
          rw [hig]; rfl
        | false =>
          have h1 : dG.opts.ignoreCrc = false := by rw [hoo]; exact hig
          simp only [Bool.false_eq_true, if_false]
          rw [hcG.crcAcc h1, List.append_assoc, List.take_append_drop]
      · show dG.remaining - (body.drop got').length = 0
        rw [hcG.remaining, List.length_drop]; omega
      · show dG.raw ++ body.drop got' = body
        rw [hcG.raw, List.take_append_drop]
      · exact hcapG
      · show dG.zin = d.zin; rw [hkG.zin, ← hD1]; rfl
      · show dG.zstarted = d.zstarted; rw [hkG.zstarted, ← hD1]; rfl
      · show dG.zemitted = d.zemitted; rw [hkG.zemitted, ← hD1]; rfl
      · show dG.info = d.info; rw [hkG.info, ← hD1]; rfl
      · show dG.seqNo = d.seqNo; rw [hkG.seqNo, ← hD1]; rfl
      · show dG.haveIdat = d.haveIdat; rw [hkG.haveIdat, ← hD1]; rfl
      · show dG.readyIdat = d.readyIdat; rw [hkG.readyIdat, ← hD1]; rfl
      · show dG.readyFdat = d.readyFdat; rw [hkG.readyFdat, ← hD1]; rfl
      · show dG.haveIccp = d.haveIccp; rw [hkG.haveIccp, ← hD1]; rfl
      · show dG.opts = d.opts; rw [hkG.opts, ← hD1]; rfl
      · exact hlimG
      · show dG.out = d.out; rw [hcG.out, ho]
    have hcrc : (d2.opts.ignoreCrc = false → cfg.crc d2.crcAcc = cfg.crc (typeBytes t ++ body)) := by
      intro hig
      rw [hfr.crcAcc, ← hX]
      have : d.opts.ignoreCrc = false := by rw [← hig, hfr.opts, ← hX]; rfl
      show cfg.crc (if d.opts.ignoreCrc then d.crcAcc else typeBytes t ++ body) = _
      rw [this]; rfl
    have hremG : dG.remaining = (body.drop got').length := by rw [hcG.remaining, List.length_drop]
    have hcapfin : (body.drop got').length ≤ dG.cap - dG.raw.length := by
      rw [List.length_drop, hrawG]; omega
    have hcc : PreEv (Ev.chunkComplete (cfg.crc (typeBytes t ++ body)) t, ([] : Bytes)) :=
      ⟨rfl, by simp, fun _ _ he => by cases he⟩
    have hpc : ∀ e ∈ evs, PreEv e := by
      intro e he
      rw [hevG e he]
      exact ⟨rfl, by simp, fun _ _ hx => by cases hx⟩
    have hD2 : d2.clearOut = d2 := clearOut_of_nil hout2
    by_cases hevn : ev = .nothing
    · subst hevn
      have hu2 := update_body_crc (cfg := cfg) (rest := tb) hcG.state hremG hrest hcapfin (by rw [hcol]; exact hp) (hC _)
        hs.tIEND hcrc
      have T2 : Trace cfg (fun _ => True) dG (body.drop got' ++ (be32Bytes (cfg.crc (typeBytes t ++ body)) ++ tb))
          [(.chunkComplete (cfg.crc (typeBytes t ++ body)) t, [])] (d2.withState (some (.u32 .length []))) tb := by
        refine Trace.one (by simp [hrest]) hu2 (clearOut_of_nil hout2) trivial hout2 ?_
        rw [← List.append_assoc, List.drop_left' (by simp [be32Bytes_length])]
      exact ⟨_, TG.append T2, preEv_append hpc (preEv_cons hcc (fun _ h => by cases h))⟩
    · have hu2 := update_body_event (cfg := cfg) (rest := be32Bytes (cfg.crc (typeBytes t ++ body)) ++ tb)
        hcG.state hremG hrest hcapfin (by simp [be32Bytes]) (by rw [hcol]; exact hp) hevn
      have hu3 := update_crc (cfg := cfg) (d := d2) (t := t) (rest := tb) hok.1 (hC _) hs.tIEND hcrc
      have T2 : Trace cfg (fun _ => True) dG (body.drop got' ++ (be32Bytes (cfg.crc (typeBytes t ++ body)) ++ tb))
          [(ev, [])] d2 (be32Bytes (cfg.crc (typeBytes t ++ body)) ++ tb) :=
        Trace.one (by simp [hrest]) hu2 hD2 trivial hout2 (List.drop_left' rfl)
      have T3 : Trace cfg (fun _ => True) d2 (be32Bytes (cfg.crc (typeBytes t ++ body)) ++ tb)
          [(.chunkComplete (cfg.crc (typeBytes t ++ body)) t, [])] (d2.withState (some (.u32 .length []))) tb :=
        Trace.one (by simp [be32Bytes]) hu3 (clearOut_of_nil hout2) trivial hout2 (List.drop_left' rfl)
      exact ⟨_, TG.append (T2.append T3),
        preEv_append hpc (preEv_cons (hev.preEv hok.2) (preEv_cons hcc (fun _ h => by cases h)))⟩

/-- **an accepted chunk of any length between two chunks behind the image data** -/
theorem post_step_idle_g (cfg : Cfg) (hC : cfg.CrcOk) {d d' : Dec} {c : Nat × Nat × Nat × Nat × Bool} {t : ChunkType}
    {body : Bytes} (hd : IdleP d c) (hcap0 : 0 < d.cap) (hs : AncStepG cfg d t body d') (tb : Bytes) :
    (∃ evs, Trace cfg (fun _ => True) d (chunk cfg t body ++ tb) evs d' tb ∧ ∀ e ∈ evs, PreEv e) ∧ d.cap ≤ d'.cap := by
  obtain ⟨i, hi, _⟩ := hd.info
  have hnf : ¬ IsFlush d t := fun h => hd.notData h.2
  have hu1 := update_chunkBegin_other (cfg := cfg) (rest := body ++ (be32Bytes (cfg.crc (typeBytes t ++ body)) ++ tb))
    hd.state hs.len hs.tlt (Or.inl (by rw [hi]; rfl)) hnf hs.tfdAT hs.tIDAT
  obtain ⟨⟨evs, T2, hpre⟩, hcap⟩ := chunk_rest_trace_g cfg hC hd.out hcap0 hs tb
  generalize hD1 : ({ d with state := some (if body.length = 0 then St.parseChunkData t else St.readChunkData t), curType := t, crcAcc := if d.opts.ignoreCrc then d.crcAcc else typeBytes t, remaining := body.length, raw := [] } : Dec) = D1 at hu1 T2
  have T1 : Trace cfg (fun _ => True) d (chunk cfg t body ++ tb) [(.chunkBegin body.length t, [])] D1.clearOut
      (body ++ (be32Bytes (cfg.crc (typeBytes t ++ body)) ++ tb)) := by
    rw [chunk_append]
    exact Trace.one (head8_ne_nil _ _ _) hu1 rfl trivial (by rw [← hD1]; exact hd.out) (drop_head8 _ _ _)
  have hcb : PreEv (Ev.chunkBegin body.length t, ([] : Bytes)) :=
    ⟨rfl, by simp, fun len t' he => by cases he; exact ⟨hs.tIDAT, hs.tfdAT⟩⟩
  exact ⟨⟨_, T1.append T2, preEv_cons hcb hpre⟩, hcap⟩

/-- **the first chunk behind the image data, of any length**: its type is pending (`Flushed`) -/
theorem post_step_flushed_g (cfg : Cfg) (hC : cfg.CrcOk) {d d' : Dec} {i : Info} {t : ChunkType}
    {body : Bytes} (hd : Flushed d i body.length t) (hcap0 : 0 < d.cap) (hs : AncStepG cfg d t body d') (tb : Bytes) :
    (∃ evs, Trace cfg (fun _ => True) d (body ++ (be32Bytes (cfg.crc (typeBytes t ++ body)) ++ tb)) evs d' tb ∧
      ∀ e ∈ evs, PreEv e) ∧ d.cap ≤ d'.cap := by
  obtain ⟨t0, t1, t2, t3, _, hte, hst⟩ := hd.state
  have hne : body ++ (be32Bytes (cfg.crc (typeBytes t ++ body)) ++ tb) ≠ [] := by simp [be32Bytes]
  have hu1 := update_pending_begin_other (cfg := cfg) hst hte hne (by rw [hd.info]; rfl)
    (fun hf => hf.1 hd.curType.symm) hs.tfdAT hs.tIDAT
  obtain ⟨⟨evs, T2, hpre⟩, hcap⟩ := chunk_rest_trace_g cfg hC hd.out hcap0 hs tb
  generalize hD1 : ({ d with state := some (if body.length = 0 then St.parseChunkData t else St.readChunkData t), curType := t, crcAcc := if d.opts.ignoreCrc then d.crcAcc else typeBytes t, remaining := body.length, raw := [] } : Dec) = D1 at hu1 T2
  have T1 : Trace cfg (fun _ => True) d (body ++ (be32Bytes (cfg.crc (typeBytes t ++ body)) ++ tb))
      [(.chunkBegin body.length t, [])] D1.clearOut (body ++ (be32Bytes (cfg.crc (typeBytes t ++ body)) ++ tb)) :=
    Trace.one hne hu1 rfl trivial (by rw [← hD1]; exact hd.out) List.drop_zero
  have hcb : PreEv (Ev.chunkBegin body.length t, ([] : Bytes)) :=
    ⟨rfl, by simp, fun len t' he => by cases he; exact ⟨hs.tIDAT, hs.tfdAT⟩⟩
  exact ⟨⟨_, T1.append T2, preEv_cons hcb hpre⟩, hcap⟩

/-- **accepted chunks of any length, then `IEND`**, from between two chunks -/
theorem post_chunks_idle_g (cfg : Cfg) (hC : cfg.CrcOk) {d d' : Dec} {c : Nat × Nat × Nat × Nat × Bool}
    {cs : List (ChunkType × Bytes)} (h : AncChunksG cfg d cs d') (hd : IdleP d c) (hcap0 : 0 < d.cap) :
    ∃ evs dE, (∀ e ∈ evs, PreEv e) ∧
      Trace cfg (fun _ => True) d (chunks cfg cs ++ chunk cfg IEND []) (evs ++ [(.imageEnd, [])]) dE [] := by
  induction h with
  | nil d =>
    obtain ⟨d', htr⟩ := iend_trace_idle cfg hC hd
    refine ⟨[(.chunkBegin 0 IEND, []), (.partialChunk IEND, [])], d', preEv_iend, ?_⟩
    simpa [chunks] using htr
  | @cons d0 d1 d' t body cs h1 _ ih =>
    obtain ⟨⟨e1, T1, p1⟩, hcap⟩ := post_step_idle_g cfg hC hd hcap0 h1 (chunks cfg cs ++ chunk cfg IEND [])
    obtain ⟨e2, dE, p2, T2⟩ := ih (ancStepG_idleP hd.out hd.info h1) (by omega)
    refine ⟨e1 ++ e2, dE, preEv_append p1 p2, ?_⟩
    rw [chunks_cons, List.append_assoc, List.append_assoc]
    exact T1.append T2

/-- **the chunks (of any length) behind the image data, then `IEND`**, from behind `ImageDataFlushed` -/
theorem post_chunks_flushed_g (cfg : Cfg) (hC : cfg.CrcOk) {d d' : Dec} {i : Info} {post : List (ChunkType × Bytes)}
    (hd : Flushed d i (postHead cfg post).1 (postHead cfg post).2.1) (hcap0 : 0 < d.cap) (h : AncChunksG cfg d post d') :
    ∃ evs dE, (∀ e ∈ evs, PreEv e) ∧
      Trace cfg (fun _ => True) d (postHead cfg post).2.2 (evs ++ [(.imageEnd, [])]) dE [] := by
  cases h with
  | nil =>
    simp only [postHead] at hd ⊢
    obtain ⟨d', htr, _, _, _⟩ := iend_trace cfg hC hd []
    refine ⟨[(.chunkBegin 0 IEND, []), (.partialChunk IEND, [])], d', preEv_iend, ?_⟩
    simpa using htr.mono (fun _ _ => trivial)
  | @cons _ d1 _ t body cs h1 h2 =>
    simp only [postHead] at hd ⊢
    obtain ⟨⟨e1, T1, p1⟩, hcap⟩ := post_step_flushed_g cfg hC hd hcap0 h1 (chunks cfg cs ++ chunk cfg IEND [])
    obtain ⟨e2, dE, p2, T2⟩ := post_chunks_idle_g cfg hC h2 (ancStepG_idleP hd.out ⟨i, hd.info, rfl⟩ h1) (by omega)
    refine ⟨e1 ++ e2, dE, preEv_append p1 p2, ?_⟩
    rw [List.append_assoc]
    exact T1.append T2

/-! ## the hypothesis on the chunks behind the image data -/

/-- **the chunks `post` behind the image data are accepted**: whatever state the decoder is in behind the image data —
    as long as it holds the `Info`, the options and the chunk buffer `read_info` left (`dA`: the decoder before the first
    `IDAT`) and the `Limits` budget after the reservation of `ls` bytes for the row buffer — `parse_chunk` accepts the
    chunks one after the other (`AncChunksG`, as before the image data: a chunk that does not fit the chunk buffer makes
    it grow, which is charged to the `Limits` budget) -/
def PostAccepted (cfg : Cfg) (dA : Dec) (ls : Nat) (post : List (ChunkType × Bytes)) : Prop :=
  ∀ d : Dec, d.info = dA.info → d.opts = dA.opts → d.cap = dA.cap → d.limit = dA.limit - ls → d.out = [] →
    ∃ d', AncChunksG cfg d post d'

theorem postAccepted_nil (cfg : Cfg) (dA : Dec) (ls : Nat) : PostAccepted cfg dA ls [] :=
  fun d _ _ _ _ _ => ⟨d, .nil d⟩

/-- chunks of types `parse_chunk` does not know (and not `IDAT` / `fdAT` / `IEND`) that fit the chunk buffer are accepted in
    every state -/
theorem ancChunks_unknown (cfg : Cfg) : ∀ (post : List (ChunkType × Bytes)) (d : Dec),
    (∀ c ∈ post, c.1 ∉ knownTypes ∧ c.1 ≠ IDAT ∧ c.1 ≠ fdAT ∧ c.1 ≠ IEND ∧ c.1 < 2 ^ 32 ∧ c.2.length < 2 ^ 32 ∧
      c.2.length ≤ d.cap) → ∃ d', AncChunks cfg d post d' := by
  intro post
  induction post with
  | nil => intro d _; exact ⟨d, .nil d⟩
  | cons c post ih =>
    intro d hc
    obtain ⟨t, body⟩ := c
    obtain ⟨h1, h2, h3, h4, h5, h6, h7⟩ := hc (t, body) (by simp)
    obtain ⟨d1, hs⟩ := ancStep_unknown cfg d t body h1 h2 h3 h4 h5 h6 h7
    obtain ⟨d', hd'⟩ := ih d1 (fun c' hc' => by
      obtain ⟨a1, a2, a3, a4, a5, a6, a7⟩ := hc c' (by simp [hc'])
      exact ⟨a1, a2, a3, a4, a5, a6, by rw [(ancStep_cap hs).1]; exact a7⟩)
    exact ⟨d', .cons hs hd'⟩

/-- **`PostAccepted` is satisfiable**: any chunks of unknown types that fit the chunk buffer -/
theorem postAccepted_unknown (cfg : Cfg) (dA : Dec) (ls : Nat) (post : List (ChunkType × Bytes))
    (h : ∀ c ∈ post, c.1 ∉ knownTypes ∧ c.1 ≠ IDAT ∧ c.1 ≠ fdAT ∧ c.1 ≠ IEND ∧ c.1 < 2 ^ 32 ∧ c.2.length < 2 ^ 32 ∧
      c.2.length ≤ dA.cap) : PostAccepted cfg dA ls post :=
  fun d _ _ hcap _ _ => (ancChunks_unknown cfg post d (fun c hc => by rw [hcap]; exact h c hc)).imp fun _ => ancChunks_toG

/-- **a chunk of a type `parse_chunk` knows qualifies too**: one `tEXt` chunk with a legal keyword, within the limits -/
theorem postAccepted_tEXt (cfg : Cfg) (dA : Dec) (ls : Nat) (kw text : Bytes) (hi : dA.info.isSome = true)
    (hk : KeywordOk kw) (ho : dA.opts.ignoreText = false) (hlim : (kw ++ 0 :: text).length ≤ dA.limit - ls)
    (hcap : (kw ++ 0 :: text).length ≤ dA.cap) (hlen : (kw ++ 0 :: text).length < 2 ^ 32) :
    PostAccepted cfg dA ls [(tEXt, kw ++ 0 :: text)] := by
  intro d hdi hdo hdc hdl _
  cases hia : dA.info with
  | none => rw [hia] at hi; cases hi
  | some i =>
    obtain ⟨d', hs⟩ := ancStep_tEXt cfg d i kw text (by rw [hdi, hia]) hk (by rw [hdo]; exact ho) (by rw [hdl]; exact hlim)
      (by rw [hdc]; exact hcap) hlen
    exact ⟨d', .cons (ancStep_toG hs) (.nil _)⟩

/-- a chunk of unknown type of ANY length qualifies when the limits let the chunk buffer grow to its length -/
theorem postAccepted_unknown_any_length (cfg : Cfg) (dA : Dec) (ls : Nat) (t : ChunkType) (body : Bytes)
    (hk : t ∉ knownTypes) (h1 : t ≠ IDAT) (h2 : t ≠ fdAT) (h3 : t ≠ IEND) (hlt : t < 2 ^ 32) (hlen : body.length < 2 ^ 32)
    (cap' limit' : Nat) (hg : growCap body.length (body.length + 1) dA.cap (dA.limit - ls) = some (cap', limit')) :
    PostAccepted cfg dA ls [(t, body)] := by
  intro d _ _ hcap hlim _
  have hk' := hk
  simp only [knownTypes, List.mem_cons, List.mem_nil_iff, or_false, not_or] at hk'
  exact ⟨_, .cons ⟨hk'.1, h1, h2, h3, hk'.2.2.2.2.2.2.2.1, hlt, hlen, cap', limit', by rw [hcap, hlim]; exact hg,
    .partialChunk t, _, parseChunk_of_ok (dispatch_unknown cfg _ t (Or.inl hk)), rfl⟩ (.nil _)⟩

theorem postHead_facts (cfg : Cfg) {d d' : Dec} {post : List (ChunkType × Bytes)} (h : AncChunksG cfg d post d') :
    (postHead cfg post).1 < 2 ^ 32 ∧ (postHead cfg post).2.1 < 2 ^ 32 ∧ (postHead cfg post).2.1 ≠ IDAT := by
  cases h with
  | nil => exact ⟨by show (0 : Nat) < 2 ^ 32; decide, IEND_lt, fun h => IDAT_ne_IEND' h.symm⟩
  | cons h1 _ => exact ⟨h1.len, h1.tlt, h1.tIDAT⟩

/-- the C01 hypothesis on `post` follows -/
theorem ancChunks_c01 {cfg : Cfg} {d d' : Dec} {post : List (ChunkType × Bytes)} (h : AncChunksG cfg d post d') :
    ∀ c ∈ post, c.1 ≠ IDAT ∧ c.1 < 2 ^ 32 ∧ c.2.length < 2 ^ 32 := by
  induction h with
  | nil d => intro c hc; cases hc
  | cons h1 _ ih =>
    intro c hc
    simp only [List.mem_cons] at hc
    rcases hc with rfl | hc
    · exact ⟨h1.tIDAT, h1.tlt, h1.len⟩
    · exact ih c hc

/-! ## `read_info` -/

/-- `read_info` on a well-formed still image with accepted chunks behind the image data: the reader stands at the begin of
    the image data; behind the data the file goes on — through `post` — to `IEND` and ends there -/
theorem still_post_ready (cfg : Cfg) (hI : cfg.InflateOk) (hC : cfg.CrcOk) {t : TCfg} {f : Flags} (ht : t.IsIdentity f)
    (opts : Options) (limit : Nat) (h : Header) (hv : h.Valid) (cs : List (ChunkType × Bytes)) (dA : Dec)
    (hcs : AncChunksG cfg (afterIhdr cfg opts limit h) cs dA) (hna : NoActl cs)
    (zs : List Bytes) (raw : Bytes) (hzs : zs ≠ []) (hlen : ∀ z ∈ zs, z.length < 2 ^ 32)
    (hinf : cfg.inflate zs.flatten = some (raw, true))
    (post : List (ChunkType × Bytes)) (hpost : PostAccepted cfg dA h.lineSize post)
    (hsize : h.lineSize * h.height < 2 ^ 64) (hlimit : h.lineSize ≤ dA.limit) :
    ∃ (r0 : R) (i : Info) (N : Nat) (dEnd : Dec) (bEnd : Bytes),
      step cfg t (R.init opts limit f (wellFormedStill cfg h cs zs post) (wellFormedStill cfg h cs zs post).length)
        .readInfo = (r0, .header) ∧
      Ready cfg f i N r0 raw dEnd bEnd ∧ i.core = h.info.core ∧ hdrOf i = h ∧ r0.isReader = true ∧
      r0.finished = false ∧ r0.remaining = N ∧ N = 1 ∧ CorePred i r0.dec ∧ ZInv cfg r0.dec ∧
      (∃ pre dE, (∀ e ∈ pre, PreEv e) ∧ Trace cfg (fun _ => True) dEnd bEnd (pre ++ [(.imageEnd, [])]) dE []) := by
  obtain ⟨a1, a2, _, hsqA, hcapA⟩ :=
    anc_chunks_g cfg hC (idle_afterIhdr cfg opts limit h) (by show 0 < Params.chunkBufferSize; decide) hcs
  have hactlA := ancChunksG_actl hcs hna
  obtain ⟨dX, hchX⟩ := hpost { dA with limit := dA.limit - h.lineSize, out := [] } rfl rfl rfl rfl rfl
  obtain ⟨hl1, hl2, hl3⟩ := postHead_facts cfg hchX
  cases zs with
  | nil => exact absurd rfl hzs
  | cons z zs =>
    have htail := postHead_eq cfg post
    have hfile : wellFormedStill cfg h cs (z :: zs) post =
        signature ++ (chunk cfg IHDR h.body ++ (chunks cfg cs ++ (idats cfg (z :: zs) ++
          (be32Bytes (postHead cfg post).1 ++ typeBytes (postHead cfg post).2.1 ++ (postHead cfg post).2.2)))) := by
      unfold wellFormedStill
      rw [← htail]
      simp only [List.append_assoc]
    rw [hfile]
    obtain ⟨r, i, N, dEnd, hri, hR, hcore, hfctl, hflu, hrd, hpb, _, hfin, hiF, hremN, hN, hseqE, hcapE, hoptsE, hlimE⟩ :=
      readInfo_wf cfg hI hC ht opts limit h hv _ dA none a1 a2 z zs raw
        (hlen z (by simp)) (fun z' hz' => hlen z' (by simp [hz'])) hinf _ _ (postHead cfg post).2.2 hl1 hl2 hl3 hsize
        (fun j hc hf => by rw [hdrOf_eq hc hf]; exact hlimit)
    have hhdr : hdrOf i = h := hdrOf_eq hcore hfctl
    have hactl : i.actl = none := by
      rw [hiF] at hactlA
      have : (afterIhdr cfg opts limit h).info.map (·.actl) = some none := rfl
      rw [this] at hactlA
      simpa using hactlA
    have hNv : N = 1 := by rw [hN, hactl]
    have hinfo : r.dec.info = some i := by
      obtain ⟨pend, hP, _⟩ := hR.pend; exact hP.info
    obtain ⟨dP, hch⟩ := hpost dEnd (by rw [hflu.info, hiF]) hoptsE hcapE (by rw [hlimE, hhdr]) hflu.out
    have hcap0E : 0 < dEnd.cap := by
      rw [hcapE]
      have h0 : (afterIhdr cfg opts limit h).cap = Params.chunkBufferSize := rfl
      have : 0 < Params.chunkBufferSize := by decide
      omega
    obtain ⟨pre, dE, hpre, htr⟩ := post_chunks_flushed_g cfg hC hflu hcap0E hch
    generalize hfl : (signature ++ (chunk cfg IHDR h.body ++ (chunks cfg cs ++ (idats cfg (z :: zs) ++
          (be32Bytes (postHead cfg post).1 ++ typeBytes (postHead cfg post).2.1 ++ (postHead cfg post).2.2))))) = file at hri ⊢
    have hcp := corePred_after_readInfo cfg t opts limit f file r i hri hinfo
    have hzr : ZInv cfg r.dec := by
      have := readInfo_decP (zinv_decPred cfg) t _ (zinv_init cfg opts limit f file file.length)
      rw [hri] at this; exact this
    refine ⟨r, i, N, dEnd, _, ?_, hR, hcore, hhdr, hrd, hfin, hremN, hNv, hcp, hzr, pre, dE, hpre, htr⟩
    have hdead : (R.init opts limit f file file.length).dead = false := rfl
    show (if (R.init opts limit f file file.length).dead then
        ((R.init opts limit f file file.length), Res.err .parameter "model: Decoder consumed by a failed read_info")
      else readInfo cfg t (R.init opts limit f file file.length)) = _
    rw [hdead]; exact hri

/-! ## the start of the simulation, the rest of the file given as a `Tail` -/

theorem toEnd_of_pre {cfg : Cfg} {d : Dec} {b : Bytes}
    (h : ∃ pre dE, (∀ e ∈ pre, PreEv e) ∧ Trace cfg (fun _ => True) d b (pre ++ [(.imageEnd, [])]) dE []) : ToEnd cfg d b := by
  obtain ⟨pre, dE, hpre, htr⟩ := h
  exact ⟨pre, dE, fun e he => (hpre e he).2.1, htr⟩

/-- **`sim_of_ready` for a file without further frames**: behind the data of the only frame the file goes on to `IEND`
    (through any events of the kind `PreEv`) and ends there -/
theorem sim_of_ready_tail (cfg : Cfg) (t : TCfg) (f : Flags) (h : Header) (hv : h.Valid)
    (i0 i : Info) (N : Nat) (r : R) (raw0 : Bytes) (dEnd : Dec) (bEnd : Bytes)
    (hR : Ready cfg f i N r raw0 dEnd bEnd) (hrd : r.isReader = true) (hfin : r.finished = false)
    (hcore : i.core = h.info.core) (hcp : CorePred i0 r.dec)
    (htl : ∃ pre dE, (∀ e ∈ pre, PreEv e) ∧ Trace cfg (fun _ => True) dEnd bEnd (pre ++ [(.imageEnd, [])]) dE [])
    (hz : ZInv cfg r.dec) :
    ∃ (arrs : List Lazy.Arrival) (s0 : Lazy.St),
      (absEnv h (hdrOf i) raw0 [] arrs).Valid ∧ 1 ≤ r.remaining ∧ (∀ a ∈ arrs, a.last = 0) ∧
      Lazy.init (absEnv h (hdrOf i) raw0 [] arrs) r.remaining = some s0 ∧
      Sim cfg (geomOf h (hdrOf i) []) (absEnv h (hdrOf i) raw0 [] arrs)
        (fun i' => outLineSize t i' f (Sub.new i').width) f i0 r s0 := by
  have hv' := hv
  obtain ⟨hw1, hw2, hh1, hh2, hleg⟩ := hv
  have hd := (legal_pos hleg).2.2
  have hcore' := hcore
  simp only [Info.core, Header.info, Prod.mk.injEq] at hcore'
  obtain ⟨c1, c2, c3, c4, c5⟩ := hcore'
  obtain ⟨pend, hP, hdata⟩ := hR.pend
  obtain ⟨hev, hremN⟩ : DataEvs pend ∧ r.remaining = N := by
    rcases hP.caf with ⟨_, h2, h3⟩ | ⟨h1, _, _⟩
    · exact ⟨h2, h3⟩
    · rw [hR.sub, (subNew_dims i).2.2.2] at h1; cases h1
  obtain ⟨hzE, hflush⟩ := trace_zinv hP.trace hP.out hz
  have hto : ToEnd cfg dEnd bEnd := toEnd_of_pre htl
  generalize he : absEnv h (hdrOf i) raw0 [] [arrOf pend] = e
  have hef : e.frames = [absFrame (hdrOf i) raw0] := by
    rw [← he]; rfl
  have hea : e.arrs = [arrOf pend] := by rw [← he]; rfl
  have hei : e.interlaced = h.interlaced := by rw [← he]; rfl
  have hN1 : 1 ≤ r.remaining := by rw [hremN]; exact hP.hN
  have hvalid : e.Valid := by
    refine ⟨by rw [hef, hea]; simp, ?_⟩
    intro k fr a hk ha
    rw [hef] at hk
    rw [hea] at ha
    cases k with
    | zero =>
      simp only [List.getElem?_cons_zero, Option.some.injEq] at hk ha
      subst hk ha
      rw [arrOf_total hev, hdata]; rfl
    | succ k => simp at hk
  obtain ⟨hsw, hsh, hsrl, hscaf⟩ := subNew_dims i
  obtain ⟨hrows, _⟩ := rows_new i
  obtain ⟨hiw, hcu⟩ := subNew_iter i
  have hscan : (if i.interlaced then Adam7.specRows (Sub.dims i).1 (Sub.dims i).2
      else (List.range (Sub.dims i).2).map fun l => (0, l, (Sub.dims i).1)) =
      scan i.interlaced (Sub.dims i).1 (Sub.dims i).2 := rfl
  rw [hscan] at hrows
  have hrl : rowlensOf (hdrOf i) = (scan i.interlaced (Sub.dims i).1 (Sub.dims i).2).map (rlOf i) :=
    rowlensOf_eq (hdrOf i) (by show depthOk i.depth = true; rw [c3]; exact hd) i rfl rfl
  generalize hs0 : (Lazy.St.mk r.remaining 0 (rowlensOf (hdrOf i)) (Lazy.firstRow (rowlensOf (hdrOf i))) false 0 false
    (some (arrOf pend)) false) = s0
  have hinit : Lazy.init e r.remaining = some s0 := by
    unfold Lazy.init
    rw [hef, hea]
    simp only [List.getElem?_cons_zero]
    rw [← hs0]; rfl
  have hgood : Lazy.Good e s0 := (Lazy.init_good e hvalid r.remaining hN1 s0 hinit).1
  refine ⟨[arrOf pend], s0, by rw [he]; exact hvalid, hN1, ?_, by rw [he]; exact hinit, ?_⟩
  · intro a ha
    simp only [List.mem_cons, List.mem_nil_iff, or_false] at ha
    subst ha
    exact arrOf_last_zero hev hflush
  rw [he]
  refine ⟨⟨i, ?_⟩, hgood, hcp⟩
  subst hs0
  refine ⟨by rw [hei]; exact c5, ?_, ?_, ?_, ?_, hfin.symm, hrd, hR.flags⟩
  · exact ⟨hP.info, rfl, by show false = r.sub.caf; rw [hR.sub, hscaf], by show 0 = r.ub.currLen; rw [hR.ub]; rfl,
      by rw [hR.ub]; exact UB.inv_new, hP.out,
      ⟨(fun h => by cases h), (fun h => by rw [hR.sub, hscaf] at h; cases h)⟩⟩
  · refine ⟨by rw [hR.sub]; exact hiw, by rw [hR.sub]; exact hcu, by rw [hR.sub, hsrl, hsw], ?_, _,
      by rw [hR.sub]; exact hrows, ?_, ?_, ?_⟩
    · show rowlensOf (hdrOf i) = _
      rw [hR.sub, hsw, hsh, hrl]
    · show _ ≤ (rowlensOf (hdrOf i)).length
      rw [hrl]; simp
    · show _ = List.drop ((rowlensOf (hdrOf i)).length - _) _
      rw [hR.sub, hsw, hsh, hrl]; simp
    · show Lazy.firstRow (rowlensOf (hdrOf i)) = _
      rw [hrl]
      unfold Lazy.firstRow
      simp only [List.length_map, Nat.sub_self]
      cases hsc : scan i.interlaced (Sub.dims i).1 (Sub.dims i).2 with
      | nil => simp
      | cons y ys => simp
  · refine .inFrame dEnd bEnd rfl (.inData pend hev hP.trace rfl) hto ?_
    have : tailOf (geomOf h (hdrOf i) []) e 0 = [] := by
      unfold tailOf geomOf
      rw [hef, hea]
      rfl
    rw [this]
    exact htl
  · refine ⟨hdrOf i, rfl, ?_, ?_, rfl⟩
    · rw [hR.sub, hsw]; rfl
    · rw [hR.sub, hsh]; rfl

end Png.LazyRefine

/-! ## the invariant of a run on a file with exact image data, the rest of the file possibly given as `ToEnd`

`OpenSt` of `Proofs/LazyRefineExact.lean` with `BetweenD ∨ (no frames ∧ ToEnd)` in place of `BetweenD`; the lemmas are
those of `LazyRefineExact.lean` (same names, this namespace), re-proved for the weaker invariant: `BetweenD` is only used
by `advance_open` (a frame follows: the first alternative) and by `open_finish` (the rest of the file: `ToEnd`). -/
namespace Png.LazyRefine.Post
open Png Png.Framing Png.WellFormed Png.Reader

/-- **inside the frames of the file**: the reader stands in the data of a frame (rows `ls` still to come, or the frame
    read to its end or closed), `frames` follow -/
structure OpenSt (cfg : Cfg) (t : TCfg) (f : Flags) (h : Header) (r : R) : Prop where
  ex : ∃ (i : Info) (N : Nat) (dEnd : Dec) (bEnd : Bytes) (pend : List (Ev × Bytes)) (ls : List (Nat × Nat × Nat))
      (s : Nat) (frames : List (FrameControl × List Bytes × Bytes)),
    Pending cfg i N r pend dEnd bEnd ∧ (r.sub.cur = none ∨ RowsSt i r pend ls) ∧
    CachedLegal r ∧ (i.color, i.depth) ∈ legalPairs ∧ 1 ≤ r.sub.width ∧ 1 ≤ r.sub.height ∧
    (r.sub.width, r.sub.height) = Sub.dims i ∧
    (hdrOf i).bufferSize ≤ outLineSize t i f i.width * i.height ∧
    N = frames.length + 1 ∧ (BetweenD cfg h dEnd bEnd i s frames ∨ (frames = [] ∧ ToEnd cfg dEnd bEnd)) ∧
    (frames.map fun x => (h.frame x.1).lineSize).sum ≤ dEnd.limit ∧
    (∀ fr ∈ frames, FrameOk cfg h fr) ∧ s + (frames.map fun x => 1 + x.2.1.length).sum < 2 ^ 32
  flags : r.flags = f
  rd : r.isReader = true
  fin : r.finished = false

/-- the invariant of a run on a well-formed file with exact image data -/
def Exact (cfg : Cfg) (t : TCfg) (f : Flags) (h : Header) (r : R) : Prop := OpenSt cfg t f h r ∨ FinSt r

/-- forgetting the buffer of an interrupted `next_frame` -/
theorem OpenSt.clearPending {cfg : Cfg} {t : TCfg} {f : Flags} {h : Header} {r : R} (hO : OpenSt cfg t f h r)
    (pb : Option Bytes) : OpenSt cfg t f h { r with pendingBuf := pb } := by
  obtain ⟨⟨i, N, dEnd, bEnd, pend, ls, s, frames, h1, h2, h3, h4, h5, h6, h7, h8, h9, h10, h11, h12, h13⟩, hf, hr, hfi⟩ := hO
  refine ⟨⟨i, N, dEnd, bEnd, pend, ls, s, frames, pending_pb h1 pb, ?_, fun s0 hs0 => h3 s0 hs0, h4, h5, h6, h7, h8, h9, h10,
    h11, h12, h13⟩, hf, hr, hfi⟩
  rcases h2 with h2 | ⟨a1, a2, a3, a4, a5, a6, a7, a8, a9, a10⟩
  · exact Or.inl h2
  · exact Or.inr ⟨a1, a2, a3, a4, a5, a6, a7, a8, a9, a10⟩

/-- **`next_row` inside the frames** -/
theorem open_nextRow (cfg : Cfg) {t : TCfg} {f : Flags} (ht : t.IsIdentity f) (h : Header) (r : R)
    (hO : OpenSt cfg t f h r) :
    okRes (step cfg t r .nextRow).2 = true ∧ OpenSt cfg t f h (step cfg t r .nextRow).1 := by
  have hst : step cfg t r .nextRow = nextInterlacedRow cfg t { r with pendingBuf := none } := by
    show (if !r.isReader then _ else nextInterlacedRow cfg t { r with pendingBuf := none }) = _
    simp [hO.rd]
  rw [hst]
  have hO0 := hO.clearPending none
  generalize ({ r with pendingBuf := none } : R) = r0 at hO0 ⊢
  obtain ⟨⟨i, N, dEnd, bEnd, pend, ls, s, frames, hP, hdat, hca, hleg, hw1, hh1, hdims, hfit, hN, hB, hlim, hfo, hseq⟩,
    hfl, hrd, hfin⟩ := hO0
  cases hcur : r0.sub.cur with
  | none =>
    obtain ⟨r', hrun, hP', hsub', hdec', hav', hrem', hse', hub', hca'⟩ := nextInterlacedRow_none (t := t) hP hcur
    rw [hrun]
    exact ⟨rfl, ⟨i, N, dEnd, bEnd, [], [], s, frames, hP', Or.inl (by rw [hsub']; exact hcur),
      fun s0 hs0 => hca s0 (hca' ▸ hs0), hleg, by rw [hsub']; exact hw1, by rw [hsub']; exact hh1,
      by rw [hsub']; exact hdims, hfit, hN, hB, hlim, hfo, hseq⟩, hse'.flags.trans hfl, hse'.isReader.trans hrd,
      hse'.finished.trans hfin⟩
  | some c =>
    obtain ⟨hok, hbpp, hinv, hrl, hiw, hcu, hpo, hpf, hrows, hlsl⟩ : RowsSt i r0 pend ls := by
      rcases hdat with h | h
      · rw [hcur] at h; cases h
      · exact h
    obtain ⟨ls', hls⟩ : ∃ ls', ls = c.desc r0.sub.width :: ls' := by
      rcases hrows with ⟨c', h1, h2⟩ | ⟨h1, _⟩
      · rw [hcur] at h1; cases h1; exact ⟨_, h2⟩
      · rw [hcur] at h1; cases h1
    subst hls
    generalize hx : c.desc r0.sub.width = x at hok hrows hlsl
    obtain ⟨p, l, w⟩ := x
    obtain ⟨hlen, hhead, hrest⟩ := hok
    simp only at hlen hrest
    obtain ⟨ft, hft⟩ := ofNat?_of_le hhead
    -- the row's `InterlaceInfo`, its width
    have hc : c.line = l ∧ widthOf r0.sub c = w ∧ 1 ≤ w ∧ w ≤ r0.sub.width ∧
        rowlenOf i.color i.depth r0.sub c = rawRowLengthFromWidth i.color i.depth w := by
      cases hil : i.interlaced with
      | true =>
        rw [hil] at hiw hcu
        obtain ⟨pc, lc, wc, rfl, hp1, hp7, hwp, hw1', _⟩ := curOk_adam7 hiw hcu hcur
        simp only [IInfo.desc, Prod.mk.injEq] at hx
        obtain ⟨rfl, rfl, rfl⟩ := hx
        exact ⟨rfl, rfl, hw1', by rw [hwp]; exact passW_le _ _ ⟨hp1, hp7⟩, rfl⟩
      | false =>
        rw [hil] at hiw hcu
        obtain ⟨lc, rfl, _⟩ := curOk_null hiw hcu hcur
        simp only [IInfo.desc, Prod.mk.injEq] at hx
        obtain ⟨rfl, rfl, rfl⟩ := hx
        exact ⟨rfl, rfl, hw1, Nat.le_refl _, hrl⟩
    obtain ⟨hcl, hcw, hw1', hwle, hrlc⟩ := hc
    have hrl2 := rowlen_ge2 hleg hw1'
    have hprev : l ≠ 0 → r0.ub.prevRow = [] ∨ r0.ub.prevRow.length + 1 = rawRowLengthFromWidth i.color i.depth w := by
      intro hl0
      unfold PrevOk at hpo
      rw [hcur] at hpo
      cases c with
      | null lc => simp only at hpo; rw [← hrlc]; exact hpo
      | adam7 pc lc wc =>
        simp only at hpo
        have : lc = l := hcl
        have : wc = w := hcw
        subst_vars
        exact hpo hl0
    obtain ⟨r1, pend1, hrun, hP1, hinv1, hrow1, hpend1, hsub1, hbpp1, hfl1, hca1, hse1⟩ :=
      nextInterlacedRow_row cfg ht i hleg N dEnd bEnd pend r0 _ c l w ft hcl hcw hrlc hfl hbpp hca hP rfl hinv hcur hw1' hwle
        hprev (by omega) hft
    generalize hrowv : reconRow ft (bytesPerPixel i.color i.depth) (if l = 0 then [] else r0.ub.prevRow)
      (((r0.ub.abs.pending ++ dataOf pend).drop 1).take (rawRowLengthFromWidth i.color i.depth w - 1)) = row at hrun hrow1
    have hrowlen : row.length = rawRowLengthFromWidth i.color i.depth w - 1 := by
      rw [← hrowv]; unfold reconRow; rw [recon_length]
      simp only [List.length_take, List.length_drop]; omega
    have hadv := advance_ok hiw
    have hpo1 : PrevOk i.color i.depth r0.sub.advance row :=
      advance_prev (color := i.color) (depth := i.depth) (prev := row) hiw hcu hcur (by rw [hrlc, hrowlen]; omega)
    have hone : 1 + (rawRowLengthFromWidth i.color i.depth w - 1) = rawRowLengthFromWidth i.color i.depth w := by omega
    rw [hrun]
    refine ⟨rfl, ⟨i, N, dEnd, bEnd, pend1, ls', s, frames, hP1, Or.inr ⟨by rw [hpend1, ← hone]; exact hrest, hbpp1.trans hbpp,
      hinv1, ?_, by rw [hsub1]; exact hadv.1, by rw [hsub1]; exact hadv.2, by rw [hsub1, hrow1]; exact hpo1, ?_,
      by rw [hsub1]; exact (hrows.advance hiw.subWf').caf _, ?_⟩, cachedLegal_after hleg hca hca1, hleg,
      by rw [hsub1]; exact (advance_width _).symm ▸ hw1, by rw [hsub1]; exact (advance_height _).symm ▸ hh1, ?_, hfit, hN,
      hB, hlim, hfo, hseq⟩, hfl1.trans hfl, hse1.isReader.trans hrd, hse1.finished.trans hfin⟩
    · rw [hsub1]
      show r0.sub.advance.rowlen = rawRowLengthFromWidth i.color i.depth r0.sub.advance.width
      rw [advance_rowlen, advance_width]; exact hrl
    · -- the previous row fits the next row of a non-interlaced frame
      intro l' hl'
      rw [hsub1] at hl'
      have hl'' : r0.sub.advance.cur = some (.null l') := hl'
      cases hil : i.interlaced with
      | true =>
        have := hadv.2
        rw [hil] at this
        unfold CurOk at this
        rw [hl''] at this
        cases hit : r0.sub.advance.iter <;> rw [hit] at this <;> exact this.elim
      | false =>
        rw [hil] at hiw hcu
        obtain ⟨lc, rfl, _⟩ := curOk_null hiw hcu hcur
        have hl1 := advance_null hiw hcu hcur hl''
        simp only [IInfo.desc, Prod.mk.injEq] at hx
        obtain ⟨_, _, rfl⟩ := hx
        refine ⟨fun h0 => by omega, fun _ => ?_⟩
        rw [hrow1, hrowlen, hsub1]
        show _ = r0.sub.advance.rowlen
        rw [advance_rowlen, hrl]; omega
    · rw [hsub1]
      show ls'.length ≤ 7 * r0.sub.advance.height
      rw [advance_height]
      simp only [List.length_cons] at hlsl; omega
    · rw [hsub1]
      show (r0.sub.advance.width, r0.sub.advance.height) = _
      rw [advance_width, advance_height]; exact hdims

/-- **`next_frame` inside the frames, standing in a frame's data** (rows pending or not): the rest of the frame is
    decoded and the frame is closed -/
theorem frameInto_open (cfg : Cfg) {t : TCfg} {f : Flags} (ht : t.IsIdentity f) (h : Header) (r0 : R) (buf : Bytes)
    (hO : OpenSt cfg t f h r0)
    (hbuf : ∀ i, r0.dec.info = some i → outLineSize t i f i.width * i.height ≤ buf.length) :
    ∃ r' oi buf', frameInto cfg t r0 buf = (r', .frame oi buf', buf') ∧ OpenSt cfg t f h r' := by
  obtain ⟨⟨i, N, dEnd, bEnd, pend, ls, s, frames, hP, hdat, hca, hleg, hw1, hh1, hdims, hfit, hN, hB, hlim, hfo, hseq⟩,
    hfl, hrd, hfin⟩ := hO
  have hinfo : infoOf r0 = some i := hP.info
  have hneed := hbuf i hP.info
  have hd := (legal_pos hleg).2.2
  have hrl2 := rowlen_ge2 hleg hw1
  generalize hW : r0.sub.width = W at *
  generalize hH : r0.sub.height = H at *
  have hdW : (Sub.dims i).1 = W := by rw [← hdims]
  have hdH : (Sub.dims i).2 = H := by rw [← hdims]
  have hols : outLineSize t i r0.flags W = rawRowLengthFromWidth i.color i.depth W - 1 := by
    rw [hfl, outLineSize_id ht]
  have hrb : (hdrOf i).rowBytes = fun w => rawRowLengthFromWidth i.color i.depth w - 1 := rowBytes_fun (hdrOf i) hd
  have hbs : (hdrOf i).bufferSize = H * (rawRowLengthFromWidth i.color i.depth W - 1) := by
    show (hdrOf i).rowBytes (hdrOf i).width * (hdrOf i).height = _
    rw [hrb, Nat.mul_comm]
    show (Sub.dims i).2 * (rawRowLengthFromWidth i.color i.depth (Sub.dims i).1 - 1) = _
    rw [hdW, hdH]
  have hfitb : H * (rawRowLengthFromWidth i.color i.depth W - 1) ≤ buf.length := by rw [← hbs]; omega
  -- the row loop
  have hbody : ∃ r2 buf2 pend2, frameBody cfg t r0 i.interlaced (rawRowLengthFromWidth i.color i.depth W - 1)
        (samplesOf i.color * i.depth) buf = (r2, buf2, none) ∧
      Pending cfg i N r2 pend2 dEnd bEnd ∧ r2.sub.cur = none ∧ SameEnv r0 r2 ∧ CachedLegal r2 ∧
      r2.sub.width = W ∧ r2.sub.height = H := by
    -- no row left
    have hnone : r0.sub.cur = none → ∃ r2 buf2 pend2, frameBody cfg t r0 i.interlaced
          (rawRowLengthFromWidth i.color i.depth W - 1) (samplesOf i.color * i.depth) buf = (r2, buf2, none) ∧
        Pending cfg i N r2 pend2 dEnd bEnd ∧ r2.sub.cur = none ∧ SameEnv r0 r2 ∧ CachedLegal r2 ∧
        r2.sub.width = W ∧ r2.sub.height = H := by
      intro hcurN
      cases hil : i.interlaced with
      | false =>
        refine ⟨r0, buf, pend, ?_, hP, hcurN, SameEnv.refl _, hca, hW, hH⟩
        unfold frameBody
        simp only [Bool.false_eq_true, if_false, hcurN, hH, Nat.sub_self]
        rw [if_neg (by omega)]
        rfl
      | true =>
        obtain ⟨r', hrun, hP', hsub', _, _, _, hse', _, hca'⟩ := nextInterlacedRow_none (t := t) hP hcurN
        refine ⟨r', buf, [], ?_, hP', by rw [hsub']; exact hcurN, hse', fun s0 hs0 => hca s0 (hca' ▸ hs0),
          by rw [hsub']; exact hW, by rw [hsub']; exact hH⟩
        unfold frameBody
        simp only [if_true, hH]
        have : 7 * H + 8 = (7 * H + 7) + 1 := by omega
        rw [this, frameInterlaced, hrun]
    rcases hdat with hcurN | ⟨hok, hbpp, hinv, hrl, hiw, hcu, hpo, hpf, hrows, hlsl⟩
    · exact hnone hcurN
    · rw [hW] at hrl
      rw [hH] at hlsl
      cases hcur : r0.sub.cur with
      | none => exact hnone hcur
      | some c =>
        cases hil : i.interlaced with
        | false =>
          rw [hil] at hiw hcu
          obtain ⟨k, rfl, _⟩ := curOk_null hiw hcu hcur
          obtain ⟨hkH, hls⟩ := rows_null hiw hcu hcur hrows
          rw [hH] at hkH
          rw [hH, hW] at hls
          subst hls
          obtain ⟨hp0, hp1⟩ := hpf k hcur
          obtain ⟨r2, pend2, hrun, hP2, hcur2, hse2, hw2, hh2, hca2⟩ :=
            frameRows_trace cfg ht i hleg N dEnd bEnd (fun w => rawRowLengthFromWidth i.color i.depth w - 1)
              (bytesPerPixel i.color i.depth) W H (rawRowLengthFromWidth i.color i.depth W - 1) (by omega) rfl
              (bpp_total _ _ hleg).2 (rowlen_multiple _ _ _ hleg) (H - k) k r0 buf _ pend (by omega) hP rfl hinv hbpp hfl
              hca (by rw [hrl]; omega) hW hiw.subWf' hrows hok hp0 (fun hk0 => by have := hp1 hk0; rw [hrl] at this; omega)
              hfitb
          have hfb : frameBody cfg t r0 false (rawRowLengthFromWidth i.color i.depth W - 1) (samplesOf i.color * i.depth) buf =
              frameRows cfg t (rawRowLengthFromWidth i.color i.depth W - 1) (H - k) k r0 buf := by
            unfold frameBody
            simp only [Bool.false_eq_true, if_false, hcur, IInfo.line, hH]
            rw [if_neg (by omega)]
          rw [hfb]
          exact ⟨r2, _, pend2, hrun, hP2, hcur2, hse2, hca2, hw2.trans hW, hh2.trans hH⟩
        | true =>
          rw [hil] at hiw hcu
          obtain ⟨r2, buf2, hrun, _, _, hP2, hcur2, _, _, _, _, hse2, hw2, hh2, hca2⟩ :=
            frameInterlaced_trace cfg ht i hleg N dEnd bEnd W H hh1 ls r0 buf _ pend (7 * H + 8) (by omega) hP rfl
              hinv hbpp hfl hca hW hH hiw hcu hpo hrows hok hfitb
          refine ⟨r2, buf2, [], ?_, hP2, hcur2, hse2, hca2, hw2.trans hW, hh2.trans hH⟩
          unfold frameBody
          simp only [if_true, hH]
          exact hrun
  obtain ⟨r2, buf2, pend2, hrun2, hP2, hcur2, hse2, hca2, hw2, hh2⟩ := hbody
  obtain ⟨r3, hrun3, hP3, hsub3, hdec3, hav3, hrem3, hse3, _, hca3, _⟩ := finishDecoding_trace hP2 hcur2
  have key : ∃ oi, frameInto cfg t r0 buf = (r3, .frame oi buf2, buf2) := by
    unfold frameInto
    simp only [hinfo]
    rw [hfl, ht.out]
    rw [if_neg (by omega)]
    simp only
    rw [← hfl, hW, hols, hrun2]
    simp only [hrun3]
    exact ⟨_, rfl⟩
  obtain ⟨oi, hoi⟩ := key
  exact ⟨r3, oi, buf2, hoi, ⟨i, N, dEnd, bEnd, [], [], s, frames, hP3, Or.inl (by rw [hsub3]; exact hcur2),
    fun s0 hs0 => hca2 s0 (hca3 ▸ hs0), hleg, by rw [hsub3]; show 1 ≤ r2.sub.width; rw [hw2]; exact hw1,
    by rw [hsub3]; show 1 ≤ r2.sub.height; rw [hh2]; exact hh1,
    by rw [hsub3]; show (r2.sub.width, r2.sub.height) = _; rw [hw2, hh2]; exact hdims, hfit, hN, hB, hlim, hfo, hseq⟩,
    (hse2.trans hse3).flags.trans hfl, (hse2.trans hse3).isReader.trans hrd, (hse2.trans hse3).finished.trans hfin⟩

/-- **on to the next frame**: `read_until_image_data` from a closed frame behind which a frame follows -/
theorem advance_open (cfg : Cfg) (hI : cfg.InflateOk) (hC : cfg.CrcOk) {t : TCfg} {f : Flags} (ht : t.IsIdentity f)
    (h : Header) (hv : h.Valid) (r : R) (hO : OpenSt cfg t f h r) (hcaf : r.sub.caf = true) (hrem : r.remaining ≠ 0) :
    ∃ r' fc', readUntilImageData cfg t r = (r', .ok ()) ∧ (infoOf r' >>= (·.fctl)) = some fc' ∧
      OpenSt cfg t f h r' ∧
      (∀ i i', r.dec.info = some i → r'.dec.info = some i' →
        outLineSize t i' f i'.width * i'.height = outLineSize t i f i.width * i.height) := by
  obtain ⟨⟨i, N, dEnd, bEnd, pend, ls, s, frames, hP, hdat, hca, hleg, hw1, hh1, hdims, hfit, hN, hB, hlim, hfo, hseq⟩,
    hfl, hrd, hfin⟩ := hO
  have hv' := hv
  obtain ⟨hvw1, hvw2, hvh1, hvh2, hvleg⟩ := hv
  have hd := (legal_pos hvleg).2.2
  -- the frame is closed: the reader stands behind its data
  obtain ⟨hpn, hremN⟩ : pend = [] ∧ r.remaining + 1 = N := by
    rcases hP.caf with ⟨h1, _, _⟩ | ⟨_, h2, h3⟩
    · rw [hcaf] at h1; cases h1
    · exact ⟨h2, h3⟩
  subst hpn
  obtain ⟨hdE, hbE⟩ := trace_nil hP.trace
  cases frames with
  | nil => simp only [List.length_nil] at hN; omega
  | cons fr rest =>
    have hB : BetweenD cfg h dEnd bEnd i s (fr :: rest) := by
      rcases hB with hB | ⟨hB, _⟩
      · exact hB
      · cases hB
    obtain ⟨fc, zs, raw⟩ := fr
    have hfo1 := hfo (fc, zs, raw) (by simp)
    obtain ⟨hfc, hne, hlen, hinf, hraw⟩ := hfo1
    simp only at hfc hne hlen hinf hraw
    simp only [List.map_cons, List.sum_cons, List.length_cons] at hlim hseq hN
    have hcore' := hB.core
    simp only [Info.core, Header.info, Prod.mk.injEq] at hcore'
    obtain ⟨c1, c2, c3, c4, c5⟩ := hcore'
    obtain ⟨fc', len, dM, bM, i', hfw, hfh, hi', Thead, hiM, hoM, hlimM, hdata⟩ :=
      between_step cfg hI hC h hv' fc zs raw rest dEnd bEnd i s hB ⟨hfc, hne, hlen, hinf⟩ (by omega)
    have hframe : h.frame fc' = h.frame fc := by
      unfold Header.frame; rw [hfw, hfh]
    have hhdr : hdrOf i' = h.frame fc := by rw [hi', hdrOf_frame fc' hB.core, hframe]
    have hcorei : i'.core = i.core := by rw [hi']; rfl
    have hlegi : (i'.color, i'.depth) ∈ legalPairs := by rw [hi']; exact hleg
    have hdims' : Sub.dims i' = (fc.width, fc.height) := by rw [hi']; simp [Sub.dims, hfw, hfh]
    have hLS : (hdrOf i').lineSize ≤ dM.limit := by rw [hhdr, hlimM]; omega
    obtain ⟨r1, hru, hdec1, hav1, hsub1, hbpp1, hub1, hse1, hca1, hrem1⟩ :=
      readUntilImageData_trace cfg ht (P := fun _ => True) (r := r) (i := i') (Or.inr rfl) hP.out
        (preEv_fctl cfg fc') (by rw [hdE, hbE] at Thead; exact Thead) hiM hlegi hfl hLS
    obtain ⟨pend', dEnd', bEnd', hev', Tdata, hdat', hB', hlimE⟩ := hdata (dM.limit - (hdrOf i').lineSize)
    have hfcf : (infoOf r1 >>= (·.fctl)) = some fc' := by
      show (r1.dec.info >>= (·.fctl)) = some fc'
      rw [hdec1]
      show (dM.info >>= (·.fctl)) = some fc'
      rw [hiM, hi']; rfl
    obtain ⟨hfit1, hfit2⟩ := frame_fits h hd fc (by have := hfc.xw; omega) (by have := hfc.yh; omega)
    have hszI : outLineSize t i f i.width * i.height = h.bufferSize := by
      rw [outLineSize_id ht, c1, c2, c3, c4, ← rowBytes_eq h hd]; rfl
    have hsz : outLineSize t i' f i'.width * i'.height = outLineSize t i f i.width * i.height := by
      have e : i'.width = i.width ∧ i'.height = i.height ∧ i'.color = i.color ∧ i'.depth = i.depth := by
        rw [hi']; exact ⟨rfl, rfl, rfl, rfl⟩
      rw [outLineSize_id ht, outLineSize_id ht, e.1, e.2.1, e.2.2.1, e.2.2.2]
    obtain ⟨hsw, hsh, _, hscaf⟩ := subNew_dims i'
    refine ⟨r1, fc', hru, hfcf, ⟨⟨i', rest.length + 1, dEnd', bEnd', pend', (hdrOf i').scanlines, _, rest, ?_, Or.inr ?_,
      fun s0 hs0 => hca s0 (hca1 ▸ hs0), hlegi, ?_, ?_, ?_, ?_, rfl, Or.inl hB', ?_, fun fr hfr => hfo fr (by simp [hfr]), by omega⟩,
      hse1.flags.trans hfl, hse1.isReader.trans hrd, hse1.finished.trans hfin⟩, ?_⟩
    · refine ⟨by rw [hdec1]; exact hoM, by rw [hdec1]; exact hiM, by rw [hdec1, hav1]; exact Tdata,
        Or.inl ⟨by rw [hsub1]; exact hscaf, hev', by rw [hrem1]; omega⟩, by omega⟩
    · exact rowsSt_fresh i' hlegi r1 pend' raw hsub1 hub1 hbpp1 hdat' (by rw [hhdr]; exact hraw)
        (by rw [hdims']; exact hfc.h1)
    · rw [hsub1, hsw, hdims']; exact hfc.w1
    · rw [hsub1, hsh, hdims']; exact hfc.h1
    · rw [hsub1, hsw, hsh]
    · rw [hsz, hszI, hhdr]; exact hfit2
    · rw [hlimE, hhdr]; omega
    · intro j j' hj hj'
      have e1 : j = i := by rw [hP.info] at hj; cases hj; rfl
      have e2 : j' = i' := by rw [hdec1] at hj'; rw [show ({ dM with limit := dM.limit - (hdrOf i').lineSize } : Dec).info = dM.info from rfl, hiM] at hj'; cases hj'; rfl
      rw [e1, e2]; exact hsz

/-- **`next_frame` into a buffer of the documented size** -/
theorem open_nextFrameBuf (cfg : Cfg) (hI : cfg.InflateOk) (hC : cfg.CrcOk) {t : TCfg} {f : Flags} (ht : t.IsIdentity f)
    (h : Header) (hv : h.Valid) (r0 : R) (buf : Bytes) (hO : OpenSt cfg t f h r0)
    (hbuf : ∀ i, r0.dec.info = some i → outLineSize t i f i.width * i.height = buf.length) :
    ∃ r' res buf', nextFrameBuf cfg t r0 buf = (r', res, buf') ∧ OpenSt cfg t f h r' ∧
      ((∃ oi b, res = .frame oi b) ∨ res = .err .parameter "PolledAfterEndOfImage") := by
  by_cases hc : r0.sub.cur.isSome = true
  · obtain ⟨r', oi, buf', hrun, hO'⟩ := frameInto_open cfg ht h r0 buf hO (fun i hi => by rw [hbuf i hi]; exact Nat.le_refl _)
    refine ⟨r', _, buf', ?_, hO', Or.inl ⟨oi, buf', rfl⟩⟩
    unfold nextFrameBuf
    rw [if_pos hc]; exact hrun
  · have hcurN : r0.sub.cur = none := by
      cases hcc : r0.sub.cur with
      | none => rfl
      | some c => rw [hcc] at hc; exact absurd rfl hc
    rw [nextFrameBuf_none cfg t r0 buf hcurN]
    unfold nextFrameBuf0
    by_cases hr : r0.remaining = 0
    · rw [if_pos hr]
      exact ⟨r0, _, buf, rfl, hO, Or.inr rfl⟩
    · rw [if_neg hr]
      cases hcaf : r0.sub.caf with
      | false =>
        simp only [Bool.false_eq_true, if_false]
        obtain ⟨r', oi, buf', hrun, hO'⟩ := frameInto_open cfg ht h r0 buf hO (fun i hi => by rw [hbuf i hi]; exact Nat.le_refl _)
        exact ⟨r', _, buf', hrun, hO', Or.inl ⟨oi, buf', rfl⟩⟩
      | true =>
        simp only [if_true]
        obtain ⟨r1, fc', hru, _, hO1, hsz⟩ := advance_open cfg hI hC ht h hv r0 hO hcaf hr
        rw [hru]
        simp only
        obtain ⟨i0, hi0⟩ : ∃ i0, r0.dec.info = some i0 := by
          obtain ⟨⟨i, N, dEnd, bEnd, pend, ls, s, frames, hP, _⟩, _⟩ := hO
          exact ⟨i, hP.info⟩
        obtain ⟨r', oi, buf', hrun, hO'⟩ := frameInto_open cfg ht h r1 buf hO1
          (fun i' hi' => by rw [hsz i0 i' hi0 hi', hbuf i0 hi0]; exact Nat.le_refl _)
        exact ⟨r', _, buf', hrun, hO', Or.inl ⟨oi, buf', rfl⟩⟩

/-- **`next_frame` inside the frames** -/
theorem open_nextFrame (cfg : Cfg) (hI : cfg.InflateOk) (hC : cfg.CrcOk) {t : TCfg} {f : Flags} (ht : t.IsIdentity f)
    (h : Header) (hv : h.Valid) (r : R) (p : UInt8) (hO : OpenSt cfg t f h r) :
    okRes (step cfg t r (.nextFrame p)).2 = true ∧ OpenSt cfg t f h (step cfg t r (.nextFrame p)).1 := by
  have hst : step cfg t r (.nextFrame p) = nextFrameOp cfg t r p := by
    show (if !r.isReader then _ else nextFrameOp cfg t r p) = _
    simp [hO.rd]
  rw [hst]
  obtain ⟨i0, hi0⟩ : ∃ i0, infoOf r = some i0 := by
    obtain ⟨⟨i, N, dEnd, bEnd, pend, ls, s, frames, hP, _⟩, _⟩ := hO
    exact ⟨i, hP.info⟩
  unfold nextFrameOp
  simp only [hi0]
  have hO0 := hO.clearPending none
  obtain ⟨r', res, buf', hrun, hO', hres⟩ := open_nextFrameBuf cfg hI hC ht h hv _
    (callerBuf r (outLineSize t i0 r.flags i0.width * i0.height) p) hO0
    (fun i hi => by
      have : i = i0 := by
        have h1 : r.dec.info = some i := hi
        have h2 : r.dec.info = some i0 := hi0
        rw [h1] at h2; cases h2; rfl
      rw [this, callerBuf_length, hO.flags])
  rw [hrun]
  simp only
  rcases hres with ⟨oi, b, rfl⟩ | rfl
  · exact ⟨rfl, hO'⟩
  · exact ⟨rfl, hO'⟩

/-- **`next_frame_info` inside the frames** -/
theorem open_nextFrameInfo (cfg : Cfg) (hI : cfg.InflateOk) (hC : cfg.CrcOk) {t : TCfg} {f : Flags} (ht : t.IsIdentity f)
    (h : Header) (hv : h.Valid) (r : R) (hO : OpenSt cfg t f h r) :
    okRes (step cfg t r .nextFrameInfo).2 = true ∧ OpenSt cfg t f h (step cfg t r .nextFrameInfo).1 := by
  have hst : step cfg t r .nextFrameInfo = nextFrameInfo cfg t { r with pendingBuf := none } := by
    show (if !r.isReader then _ else nextFrameInfo cfg t { r with pendingBuf := none }) = _
    simp [hO.rd]
  rw [hst]
  have hO0 := hO.clearPending none
  generalize ({ r with pendingBuf := none } : R) = r0 at hO0 ⊢
  unfold Reader.nextFrameInfo
  generalize hrc : ({ r0 with sub := { r0.sub with cur := none } } : R) = rc
  by_cases hcaf : r0.sub.caf = true
  · have hn : ¬ (!r0.sub.caf) = true := by simp [hcaf]
    simp only [if_pos hcaf, if_neg hn]
    cases hrem : r0.remaining with
    | zero => exact ⟨rfl, hO0⟩
    | succ n =>
      simp only
      obtain ⟨r2, fc', hru, hfc, hO2, _⟩ := advance_open cfg hI hC ht h hv r0 hO0 hcaf (by omega)
      rw [hru]
      simp only [hfc]
      exact ⟨rfl, hO2⟩
  · have hcafF : r0.sub.caf = false := by simpa using hcaf
    have hn : (!r0.sub.caf) = true := by simp [hcafF]
    simp only [if_neg hcaf, if_pos hn]
    cases hrem : r0.remaining - 1 with
    | zero => exact ⟨rfl, hO0⟩
    | succ n =>
      simp only
      obtain ⟨⟨i, N, dEnd, bEnd, pend, ls, s, frames, hP, hdat, hca, hleg, hw1, hh1, hdims, hfit, hN, hB, hlim, hfo, hseq⟩,
        hfl, hrd, hfin⟩ := hO0
      have hPc : Pending cfg i N rc pend dEnd bEnd := by
        subst hrc; exact ⟨hP.out, hP.info, hP.trace, hP.caf, hP.hN⟩
      have hcurc : rc.sub.cur = none := by subst hrc; rfl
      obtain ⟨r1, hrun1, hP1, hsub1, hdec1, hav1, hrem1, hse1, _, hca1, _⟩ := finishDecoding_trace hPc hcurc
      rw [hrun1]
      simp only
      have hremN : r0.remaining = N := by
        rcases hP.caf with ⟨_, _, h3⟩ | ⟨h1, _, _⟩
        · exact h3
        · rw [hcafF] at h1; cases h1
      have hsubc : rc.sub = { r0.sub with cur := none } := by subst hrc; rfl
      have hO1 : OpenSt cfg t f h r1 := by
        refine ⟨⟨i, N, dEnd, bEnd, [], [], s, frames, hP1, Or.inl (by rw [hsub1, hsubc]), ?_, hleg,
          by rw [hsub1, hsubc]; exact hw1, by rw [hsub1, hsubc]; exact hh1, by rw [hsub1, hsubc]; exact hdims, hfit, hN, hB, hlim,
          hfo, hseq⟩, ?_, ?_, ?_⟩
        · intro s0 hs0; rw [hca1] at hs0; subst hrc; exact hca s0 hs0
        · rw [hse1.flags]; subst hrc; exact hfl
        · rw [hse1.isReader]; subst hrc; exact hrd
        · rw [hse1.finished]; subst hrc; exact hfin
      obtain ⟨r2, fc', hru, hfc, hO2, _⟩ := advance_open cfg hI hC ht h hv r1 hO1 (by rw [hsub1]) (by omega)
      rw [hru]
      simp only [hfc]
      exact ⟨rfl, hO2⟩

/-- **`finish` inside the frames**: the rest of the file is read to `IEND` -/
theorem open_finish (cfg : Cfg) (hI : cfg.InflateOk) (hC : cfg.CrcOk) {t : TCfg} {f : Flags}
    (h : Header) (hv : h.Valid) (r : R) (hO : OpenSt cfg t f h r) :
    okRes (step cfg t r .finish).2 = true ∧ FinSt (step cfg t r .finish).1 := by
  have hst : step cfg t r .finish = finish cfg { r with pendingBuf := none } := by
    show (if !r.isReader then _ else finish cfg { r with pendingBuf := none }) = _
    simp [hO.rd]
  rw [hst]
  have hO0 := hO.clearPending none
  generalize ({ r with pendingBuf := none } : R) = r0 at hO0 ⊢
  obtain ⟨⟨i, N, dEnd, bEnd, pend, ls, s, frames, hP, hdat, hca, hleg, hw1, hh1, hdims, hfit, hN, hB, hlim, hfo, hseq⟩,
    hfl, hrd, hfin⟩ := hO0
  unfold Reader.finish
  generalize hrz : ({ r0 with remaining := 0, ub := UB.new, sub := { r0.sub with cur := none, caf := true } } : R) = rz
  have hfin' : ¬ r0.finished = true := by simp [hfin]
  rw [if_neg hfin']
  have hzd : rz.dec = r0.dec := by subst hrz; rfl
  have hza : avail rz = avail r0 := by subst hrz; rfl
  obtain ⟨evs, dE, hevs, htrE⟩ : ToEnd cfg dEnd bEnd := by
    rcases hB with hB | ⟨_, hB⟩
    · exact toEnd_between cfg hI hC h hv frames dEnd bEnd i s
        (fun fr hfr => ⟨(hfo fr hfr).fc, (hfo fr hfr).ne, (hfo fr hfr).len, (hfo fr hfr).inf⟩) hseq hB
    · exact hB
  have hpe : ∀ e ∈ pend, e.1 ≠ .imageEnd := by
    rcases hP.caf with ⟨_, hev, _⟩ | ⟨_, hnil, _⟩
    · exact dataEvs_not_end hev
    · subst hnil; intro e he; cases he
  have hfull : Trace cfg (fun _ => True) rz.dec (avail rz) ((pend ++ evs) ++ [(.imageEnd, [])]) dE [] := by
    rw [hzd, hza]
    have := (hP.trace.mono (fun _ _ => trivial)).append htrE
    simpa [List.append_assoc] using this
  obtain ⟨r1, hrun, ha, ho1⟩ := readUntilEndOfInput_trace (pend ++ evs) rz (fuelOf rz)
    (by have := trace_length_lt_fuel hfull; simp at this ⊢; omega) (by rw [hzd]; exact hP.out)
    (fun e he => by
      simp only [List.mem_append] at he
      rcases he with he | he
      · exact hpe e he
      · exact hevs e he) hfull
  simp only [hrun]
  have hfr := ha.frame
  have hse := hfr.sameEnv
  unfold Reader.Frame at hfr
  refine ⟨rfl, rfl, ?_, ?_, ?_, ?_⟩
  · show r1.remaining = 0; rw [hfr]; subst hrz; rfl
  · show r1.sub.cur = none; rw [hfr]; subst hrz; rfl
  · show r1.sub.caf = true; rw [hfr]; subst hrz; rfl
  · show r1.isReader = true; rw [hse.isReader]; subst hrz; exact hrd

/-! ## one call, any sequence of calls -/

/-- the invariant of a run on a well-formed file with exact image data, with the fact that the decoder keeps the `IHDR`
    fields of its `Info` -/
structure ExactI (cfg : Cfg) (t : TCfg) (f : Flags) (h : Header) (i0 : Info) (r : R) : Prop where
  st : Exact cfg t f h r
  core : CorePred i0 r.dec

/-- **one call**: `next_frame`, `next_row` / `next_interlaced_row`, `next_frame_info`, `finish` -/
theorem exact_step (cfg : Cfg) (hI : cfg.InflateOk) (hC : cfg.CrcOk) {t : TCfg} {f : Flags} (ht : t.IsIdentity f)
    (h : Header) (hv : h.Valid) (i0 : Info) (r : R) (hE : ExactI cfg t f h i0 r) (op : Reader.Op)
    (hop : isCall op = true) (hne : op ≠ .readRow) :
    okRes (step cfg t r op).2 = true ∧ ExactI cfg t f h i0 (step cfg t r op).1 := by
  have hcore' : CorePred i0 (step cfg t r op).1.dec := step_decP (corePred_decPred cfg i0) t r op hE.core
  rcases hE.st with hO | hF
  · cases op with
    | nextFrame p =>
      obtain ⟨h1, h2⟩ := open_nextFrame cfg hI hC ht h hv r p hO
      exact ⟨h1, Or.inl h2, hcore'⟩
    | nextRow =>
      obtain ⟨h1, h2⟩ := open_nextRow cfg ht h r hO
      exact ⟨h1, Or.inl h2, hcore'⟩
    | nextFrameInfo =>
      obtain ⟨h1, h2⟩ := open_nextFrameInfo cfg hI hC ht h hv r hO
      exact ⟨h1, Or.inl h2, hcore'⟩
    | finish =>
      obtain ⟨h1, h2⟩ := open_finish cfg hI hC h hv r hO
      exact ⟨h1, Or.inr h2, hcore'⟩
    | readRow => exact absurd rfl hne
    | readHeader => cases hop
    | readInfo => cases hop
    | grow n => cases hop
  · obtain ⟨h1, h2⟩ := fin_step cfg t r hF (hdrPred_some hE.core) op hop hne
    exact ⟨h1, Or.inr h2, hcore'⟩

/-- **any sequence of calls** has only answers the `Lazy` model speaks about -/
theorem exact_run (cfg : Cfg) (hI : cfg.InflateOk) (hC : cfg.CrcOk) {t : TCfg} {f : Flags} (ht : t.IsIdentity f)
    (h : Header) (hv : h.Valid) (i0 : Info) :
    ∀ (ops : List Reader.Op) (r : R), ExactI cfg t f h i0 r → (∀ op ∈ ops, isCall op = true ∧ op ≠ .readRow) →
      (∀ res ∈ (Reader.run cfg t r ops).2, okRes res = true) ∧ ExactI cfg t f h i0 (Reader.run cfg t r ops).1 := by
  intro ops
  induction ops with
  | nil => intro r hE _; exact ⟨fun res hres => by simp [Reader.run] at hres, hE⟩
  | cons op ops ih =>
    intro r hE hops
    obtain ⟨h1, h2⟩ := exact_step cfg hI hC ht h hv i0 r hE op (hops op (by simp)).1 (hops op (by simp)).2
    obtain ⟨h3, h4⟩ := ih (step cfg t r op).1 h2 (fun o ho => hops o (by simp [ho]))
    rw [run_cons_res]
    refine ⟨fun res hres => ?_, h4⟩
    simp only [List.mem_cons] at hres
    rcases hres with rfl | hres
    · exact h1
    · exact h3 res hres

/-- the reader `read_info` returns on a file whose first data sequence carries exactly its scanlines -/
theorem open_of_ready (cfg : Cfg) (t : TCfg) (f : Flags) (h : Header) (i : Info) (N : Nat) (r : R) (raw : Bytes)
    (dEnd : Dec) (bEnd : Bytes) (hR : Ready cfg f i N r raw dEnd bEnd) (hraw : RawOk (hdrOf i) raw)
    (hleg : (i.color, i.depth) ∈ legalPairs) (hrd : r.isReader = true) (hfin : r.finished = false)
    (hW : 1 ≤ (Sub.dims i).1) (hH : 1 ≤ (Sub.dims i).2)
    (hfit : (hdrOf i).bufferSize ≤ outLineSize t i f i.width * i.height)
    (frames : List (FrameControl × List Bytes × Bytes)) (s : Nat) (hN : N = frames.length + 1)
    (hB : BetweenD cfg h dEnd bEnd i s frames ∨ (frames = [] ∧ ToEnd cfg dEnd bEnd))
    (hlim : (frames.map fun x => (h.frame x.1).lineSize).sum ≤ dEnd.limit)
    (hfo : ∀ fr ∈ frames, FrameOk cfg h fr) (hseq : s + (frames.map fun x => 1 + x.2.1.length).sum < 2 ^ 32) :
    OpenSt cfg t f h r := by
  obtain ⟨pend, hP, hdata⟩ := hR.pend
  obtain ⟨hsw, hsh, _, _⟩ := subNew_dims i
  exact ⟨⟨i, N, dEnd, bEnd, pend, (hdrOf i).scanlines, s, frames, hP,
    Or.inr (rowsSt_fresh i hleg r pend raw hR.sub hR.ub hR.bpp hdata hraw hH), hR.cached, hleg,
    by rw [hR.sub, hsw]; exact hW, by rw [hR.sub, hsh]; exact hH, by rw [hR.sub, hsw, hsh], hfit, hN, hB, hlim, hfo, hseq⟩,
    hR.flags, hrd, hfin⟩

theorem OpenSt.setScratch {cfg : Cfg} {t : TCfg} {f : Flags} {h : Header} {r : R} (hO : OpenSt cfg t f h r) (n : Nat) :
    OpenSt cfg t f h { r with scratchLen := n } := by
  obtain ⟨⟨i, N, dEnd, bEnd, pend, ls, s, frames, h1, h2, h3, h4, h5, h6, h7, h8, h9, h10, h11, h12, h13⟩, hf, hr, hfi⟩ := hO
  refine ⟨⟨i, N, dEnd, bEnd, pend, ls, s, frames, ⟨h1.out, h1.info, h1.trace, h1.caf, h1.hN⟩, ?_, fun s0 hs0 => h3 s0 hs0, h4,
    h5, h6, h7, h8, h9, h10, h11, h12, h13⟩, hf, hr, hfi⟩
  rcases h2 with h2 | ⟨a1, a2, a3, a4, a5, a6, a7, a8, a9, a10⟩
  · exact Or.inl h2
  · exact Or.inr ⟨a1, a2, a3, a4, a5, a6, a7, a8, a9, a10⟩

/-- the invariant with the C02 invariant of the byte-level model (for `read_row`) -/
structure ExactR (cfg : Cfg) (t : TCfg) (f : Flags) (h : Header) (i0 : Info) (r : R) : Prop where
  ex : ExactI cfg t f h i0 r
  rinv : RInv t r
  rd : r.isReader = true

/-- **one call**, `read_row` included -/
theorem exactR_step (cfg : Cfg) (hI : cfg.InflateOk) (hC : cfg.CrcOk) {t : TCfg} {f : Flags} (ht : t.IsIdentity f)
    (hto : t.Ok) (h : Header) (hv : h.Valid) (i0 : Info) (r : R) (hE : ExactR cfg t f h i0 r) (op : Reader.Op)
    (hop : isCall op = true) :
    okRes (step cfg t r op).2 = true ∧ ExactR cfg t f h i0 (step cfg t r op).1 := by
  have hne : op ≠ .readInfo := by intro h; subst h; cases hop
  obtain ⟨hR', _, hrd'⟩ := step_spec cfg hto r op hE.rinv (fun h => absurd h hne)
  have hrd'' : (step cfg t r op).1.isReader = true := (hrd' hne).trans hE.rd
  by_cases hrr : op = .readRow
  · subst hrr
    obtain ⟨h1, h2⟩ := exact_step cfg hI hC ht h hv i0 r hE.ex .nextRow rfl (by intro h; cases h)
    obtain ⟨e1, n, e2⟩ := readRow_step_eq cfg hto r (inv_of_rinv hE.rinv hE.rd) hE.rd
    refine ⟨by rw [e1]; exact h1, ⟨?_, ?_⟩, hR', hrd''⟩
    · rw [e2]
      rcases h2.st with hO | hF
      · exact Or.inl (hO.setScratch n)
      · exact Or.inr ⟨hF.finished, hF.rem, hF.cur, hF.caf, hF.rd⟩
    · exact step_decP (corePred_decPred cfg i0) t r .readRow hE.ex.core
  · obtain ⟨h1, h2⟩ := exact_step cfg hI hC ht h hv i0 r hE.ex op hop hrr
    exact ⟨h1, h2, hR', hrd''⟩

/-- **any sequence of calls**, `read_row` included -/
theorem exactR_run (cfg : Cfg) (hI : cfg.InflateOk) (hC : cfg.CrcOk) {t : TCfg} {f : Flags} (ht : t.IsIdentity f)
    (hto : t.Ok) (h : Header) (hv : h.Valid) (i0 : Info) :
    ∀ (ops : List Reader.Op) (r : R), ExactR cfg t f h i0 r → (∀ op ∈ ops, isCall op = true) →
      (∀ res ∈ (Reader.run cfg t r ops).2, okRes res = true) ∧ ExactR cfg t f h i0 (Reader.run cfg t r ops).1 := by
  intro ops
  induction ops with
  | nil => intro r hE _; exact ⟨fun res hres => by simp [Reader.run] at hres, hE⟩
  | cons op ops ih =>
    intro r hE hops
    obtain ⟨h1, h2⟩ := exactR_step cfg hI hC ht hto h hv i0 r hE op (hops op (by simp))
    obtain ⟨h3, h4⟩ := ih (step cfg t r op).1 h2 (fun o ho => hops o (by simp [ho]))
    rw [run_cons_res]
    refine ⟨fun res hres => ?_, h4⟩
    simp only [List.mem_cons] at hres
    rcases hres with rfl | hres
    · exact h1
    · exact h3 res hres


end Png.LazyRefine.Post

/-! ## well-formed still images with accepted chunks behind the image data -/
namespace Png.LazyRefine
open Png Png.Framing Png.WellFormed Png.Reader

/-- **a well-formed still image with accepted chunks behind the image data, image data of ANY length**: the reader
    `read_info` returns is related to `Lazy.init` on the file's abstraction -/
theorem still_post_start (cfg : Cfg) (hI : cfg.InflateOk) (hC : cfg.CrcOk) {t : TCfg} {f : Flags} (ht : t.IsIdentity f)
    (opts : Options) (limit : Nat) (h : Header) (hv : h.Valid) (cs : List (ChunkType × Bytes)) (dA : Dec)
    (hcs : AncChunksG cfg (afterIhdr cfg opts limit h) cs dA) (hna : NoActl cs)
    (zs : List Bytes) (raw : Bytes) (hzs : zs ≠ []) (hlen : ∀ z ∈ zs, z.length < 2 ^ 32)
    (hinf : cfg.inflate zs.flatten = some (raw, true))
    (post : List (ChunkType × Bytes)) (hpost : PostAccepted cfg dA h.lineSize post)
    (hsize : h.lineSize * h.height < 2 ^ 64) (hlimit : h.lineSize ≤ dA.limit) :
    ∃ (r0 : R) (i0 : Info) (arrs : List Lazy.Arrival) (s0 : Lazy.St),
      step cfg t (R.init opts limit f (wellFormedStill cfg h cs zs post) (wellFormedStill cfg h cs zs post).length)
        .readInfo = (r0, .header) ∧
      r0.remaining = 1 ∧
      (absEnv h h raw [] arrs).Valid ∧ (∀ a ∈ arrs, a.last = 0) ∧
      Lazy.init (absEnv h h raw [] arrs) r0.remaining = some s0 ∧
      Sim cfg (geomOf h h []) (absEnv h h raw [] arrs) (fun i' => outLineSize t i' f (Sub.new i').width) f i0 r0 s0 := by
  obtain ⟨r, i, N, dEnd, bEnd, hri, hR, hcore, hhdr, hrd, hfin, hremN, hNv, hcp, hzr, htl⟩ :=
    still_post_ready cfg hI hC ht opts limit h hv cs dA hcs hna zs raw hzs hlen hinf post hpost hsize hlimit
  obtain ⟨arrs, s0, hvalid, _, hl0, hinit, hsim⟩ :=
    sim_of_ready_tail cfg t f h hv i i N r raw dEnd bEnd hR hrd hfin hcore hcp htl hzr
  rw [hhdr] at hvalid hinit hsim
  exact ⟨r, i, arrs, s0, hri, hremN.trans hNv, hvalid, hl0, hinit, hsim⟩

/-- `read_info` on a well-formed still image that carries exactly its scanlines, with accepted chunks behind the image
    data -/
theorem still_post_exact_core (cfg : Cfg) (hI : cfg.InflateOk) (hC : cfg.CrcOk) {t : TCfg} {f : Flags}
    (ht : t.IsIdentity f)
    (opts : Options) (limit : Nat) (h : Header) (hv : h.Valid) (cs : List (ChunkType × Bytes)) (dA : Dec)
    (hcs : AncChunksG cfg (afterIhdr cfg opts limit h) cs dA) (hna : NoActl cs)
    (zs : List Bytes) (raw : Bytes) (hzs : zs ≠ []) (hlen : ∀ z ∈ zs, z.length < 2 ^ 32)
    (hinf : cfg.inflate zs.flatten = some (raw, true)) (hraw : RawOk h raw)
    (post : List (ChunkType × Bytes)) (hpost : PostAccepted cfg dA h.lineSize post)
    (hsize : h.lineSize * h.height < 2 ^ 64) (hlimit : h.lineSize ≤ dA.limit) :
    ∃ (r0 : R) (arrs : List Lazy.Arrival) (s0 : Lazy.St),
      step cfg t (R.init opts limit f (wellFormedStill cfg h cs zs post) (wellFormedStill cfg h cs zs post).length)
        .readInfo = (r0, .header) ∧
      r0.remaining = 1 ∧
      (absEnv h h raw [] arrs).Valid ∧ (∀ a ∈ arrs, a.last = 0) ∧
      Lazy.init (absEnv h h raw [] arrs) r0.remaining = some s0 ∧
      ∃ i0, Sim cfg (geomOf h h []) (absEnv h h raw [] arrs) (fun i' => outLineSize t i' f (Sub.new i').width) f i0 r0 s0 ∧
        Post.OpenSt cfg t f h r0 ∧ CorePred i0 r0.dec := by
  obtain ⟨r, i, N, dEnd, bEnd, hri, hR, hcore, hhdr, hrd, hfin, hremN, hNv, hcp, hzr, htl⟩ :=
    still_post_ready cfg hI hC ht opts limit h hv cs dA hcs hna zs raw hzs hlen hinf post hpost hsize hlimit
  obtain ⟨arrs, s0, hvalid, _, hl0, hinit, hsim⟩ :=
    sim_of_ready_tail cfg t f h hv i i N r raw dEnd bEnd hR hrd hfin hcore hcp htl hzr
  have hv' := hv
  obtain ⟨hw1, hw2, hh1, hh2, hleg⟩ := hv'
  have hd := (legal_pos hleg).2.2
  have hcore' := hcore
  simp only [Info.core, Header.info, Prod.mk.injEq] at hcore'
  obtain ⟨c1, c2, c3, c4, c5⟩ := hcore'
  have hlegi : (i.color, i.depth) ∈ legalPairs := by rw [c3, c4]; exact hleg
  have hszI : outLineSize t i f i.width * i.height = h.bufferSize := by
    rw [outLineSize_id ht, c1, c2, c3, c4, ← rowBytes_eq h hd]; rfl
  have hdW : (Sub.dims i).1 = h.width := by
    have : (hdrOf i).width = h.width := by rw [hhdr]
    exact this
  have hdH : (Sub.dims i).2 = h.height := by
    have : (hdrOf i).height = h.height := by rw [hhdr]
    exact this
  have hO : Post.OpenSt cfg t f h r :=
    Post.open_of_ready cfg t f h i N r raw dEnd bEnd hR (by rw [hhdr]; exact hraw) hlegi hrd hfin
      (by rw [hdW]; exact hw1) (by rw [hdH]; exact hh1) (by rw [hhdr, hszI]; exact Nat.le_refl _) [] 0 hNv
      (Or.inr ⟨rfl, toEnd_of_pre htl⟩) (by simp) (fun fr hfr => by cases hfr) (by simp)
  rw [hhdr] at hvalid hinit hsim
  exact ⟨r, arrs, s0, hri, hremN.trans hNv, hvalid, hl0, hinit, i, hsim, hO, hcp⟩

/-- **a well-formed still image that carries exactly its scanlines, with accepted chunks behind the image data** -/
theorem still_post_exact (cfg : Cfg) (hI : cfg.InflateOk) (hC : cfg.CrcOk) {t : TCfg} {f : Flags} (ht : t.IsIdentity f)
    (hts : CreateSafe t) (opts : Options) (limit : Nat) (h : Header) (hv : h.Valid) (cs : List (ChunkType × Bytes)) (dA : Dec)
    (hcs : AncChunksG cfg (afterIhdr cfg opts limit h) cs dA) (hna : NoActl cs)
    (zs : List Bytes) (raw : Bytes) (hzs : zs ≠ []) (hlen : ∀ z ∈ zs, z.length < 2 ^ 32)
    (hinf : cfg.inflate zs.flatten = some (raw, true)) (hraw : RawOk h raw)
    (post : List (ChunkType × Bytes)) (hpost : PostAccepted cfg dA h.lineSize post)
    (hsize : h.lineSize * h.height < 2 ^ 64) (hlimit : h.lineSize ≤ dA.limit) :
    ∃ (r0 : R) (arrs : List Lazy.Arrival) (s0 : Lazy.St),
      step cfg t (R.init opts limit f (wellFormedStill cfg h cs zs post) (wellFormedStill cfg h cs zs post).length)
        .readInfo = (r0, .header) ∧
      r0.remaining = 1 ∧
      (absEnv h h raw [] arrs).Valid ∧ (∀ a ∈ arrs, a.last = 0) ∧
      Lazy.init (absEnv h h raw [] arrs) r0.remaining = some s0 ∧
      ∀ ops : List Reader.Op, (∀ op ∈ ops, isCall' op = true) →
        (∀ res ∈ (Reader.run cfg t r0 ops).2, okRes res = true) ∧
        resMatchAll (geomOf h h []) (Reader.run cfg t r0 ops).2 (Lazy.run (absEnv h h raw [] arrs) s0 (absOps ops)).2 = true := by
  obtain ⟨r, arrs, s0, hri, hrem, hvalid, hl0, hinit, i, hsim, hO, hcp⟩ :=
    still_post_exact_core cfg hI hC ht opts limit h hv cs dA hcs hna zs raw hzs hlen hinf hraw post hpost hsize hlimit
  refine ⟨r, arrs, s0, hri, hrem, hvalid, hl0, hinit, fun ops hops => ?_⟩
  have hok := (Post.exact_run cfg hI hC ht h hv i ops r ⟨Or.inl hO, hcp⟩ (fun op hop => isCall'_iff (hops op hop))).1
  exact ⟨hok, (run_sim cfg t hts _ _ hvalid (by simp [geomOf, absEnv, absFile]) _ f (fun _ => rfl) i ops r s0 hsim
    (fun op hop => (isCall'_iff (hops op hop)).1) hok).1⟩

/-- ... with `read_row` among the calls (needs the contract `TCfg.Ok` and a file shorter than 4 GiB: C02, C13) -/
theorem still_post_exact_all (cfg : Cfg) (hI : cfg.InflateOk) (hC : cfg.CrcOk) {t : TCfg} {f : Flags} (ht : t.IsIdentity f)
    (hto : t.Ok) (hts : CreateSafe t) (opts : Options) (limit : Nat) (h : Header) (hv : h.Valid)
    (cs : List (ChunkType × Bytes)) (dA : Dec)
    (hcs : AncChunksG cfg (afterIhdr cfg opts limit h) cs dA) (hna : NoActl cs)
    (zs : List Bytes) (raw : Bytes) (hzs : zs ≠ []) (hlen : ∀ z ∈ zs, z.length < 2 ^ 32)
    (hinf : cfg.inflate zs.flatten = some (raw, true)) (hraw : RawOk h raw)
    (post : List (ChunkType × Bytes)) (hpost : PostAccepted cfg dA h.lineSize post)
    (hsize : h.lineSize * h.height < 2 ^ 64) (hlimit : h.lineSize ≤ dA.limit)
    (hfl : (wellFormedStill cfg h cs zs post).length < 2 ^ 32) :
    ∃ (r0 : R) (arrs : List Lazy.Arrival) (s0 : Lazy.St),
      step cfg t (R.init opts limit f (wellFormedStill cfg h cs zs post) (wellFormedStill cfg h cs zs post).length)
        .readInfo = (r0, .header) ∧
      r0.remaining = 1 ∧
      (absEnv h h raw [] arrs).Valid ∧ (∀ a ∈ arrs, a.last = 0) ∧
      Lazy.init (absEnv h h raw [] arrs) r0.remaining = some s0 ∧
      ∀ ops : List Reader.Op, (∀ op ∈ ops, isCall op = true) →
        (∀ res ∈ (Reader.run cfg t r0 ops).2, okRes res = true) ∧
        resMatchAll (geomOf h h []) (Reader.run cfg t r0 ops).2 (Lazy.run (absEnv h h raw [] arrs) s0 (absOps ops)).2 = true := by
  obtain ⟨r, arrs, s0, hri, hrem, hvalid, hl0, hinit, i, hsim, hO, hcp⟩ :=
    still_post_exact_core cfg hI hC ht opts limit h hv cs dA hcs hna zs raw hzs hlen hinf hraw post hpost hsize hlimit
  have hR := rinv_after_readInfo cfg hto opts limit f _ hfl r hri
  refine ⟨r, arrs, s0, hri, hrem, hvalid, hl0, hinit, fun ops hops => ?_⟩
  have hok := (Post.exactR_run cfg hI hC ht hto h hv i ops r ⟨⟨Or.inl hO, hcp⟩, hR, hO.rd⟩ hops).1
  exact ⟨hok, (run_sim cfg t hts _ _ hvalid (by simp [geomOf, absEnv, absFile]) _ f (fun _ => rfl) i ops r s0 hsim hops hok).1⟩

end Png.LazyRefine
