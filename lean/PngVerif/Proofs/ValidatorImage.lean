import PngVerif.Proofs.ValidatorBytes
import PngVerif.Proofs.Encoder
/-!
# The proof-level image rule `specImgOk` and the executable `realImgOk` agree (non-interlaced layout)

`specImgOk inflate color depth` (Proofs/Encoder.lean) is stated with an abstract inflater and
`decodeScanlines`; `realImgOk ih` (Model/Validator.lean) runs the Lean inflater `Inf.zlibInflate` on the whole
zlib stream and checks size and filter bytes on the `ByteArray`.  With the inflater

  `realInflate z` = the output of `Inf.zlibInflate (ofList z) true` when it consumes exactly `z`

the two rules accept the same payloads for every IHDR with interlace method 0 and a legal bit depth
(`specImgOk_iff_realImgOk`); they also reject with the same rule name except that `specImgOk` says
`zlib-corrupt` where `realImgOk` says `zlib-trailing-data`.
-/
namespace Png.Enc
open Png Png.Val Png.Spec

/-- the Lean inflater as a function on byte lists: one zlib stream, Adler-32 checked, nothing after it -/
def realInflate (z : Bytes) : Option Bytes :=
  match Inf.zlibInflate (ofList z) true with
  | some (raw, used) => if used = z.length then some raw.data.toList else none
  | none => none

theorem realInflate_nil : realInflate [] = none := by decide

theorem ba_get! (b : ByteArray) (i : Nat) : b[i]! = b.data.toList.getD i 0 := by
  rw [← ofList_get!, ofList_data_toList]

theorem samples_eq (c : Nat) : samples c = samplesOf c := by
  unfold samples samplesOf
  split <;> (try rfl)
  split <;> simp_all

/-- the two row-length formulas agree for the five legal bit depths -/
theorem rowBytes_eq (ih : Ihdr) (hd : depthOk ih.depth = true) (w : Nat) :
    rowBytes ih w = rawRowLengthFromWidth ih.color ih.depth w - 1 := by
  simp only [rowBytes, Spec.bitsPerPixel, samples_eq, rawRowLengthFromWidth]
  simp only [depthOk, Bool.or_eq_true, beq_iff_eq] at hd
  generalize samplesOf ih.color = s
  have e : ∀ d, w * (s * d) = (w * s) * d := fun d => (Nat.mul_assoc w s d).symm
  rw [e]
  generalize w * s = S
  rcases hd with (((hd | hd) | hd) | hd) | hd <;> rw [hd] <;> simp <;> (try split) <;> omega

/-- `decodeScanlines` succeeds on a stream of exactly `h` scanlines iff every filter byte is at most 4 -/
theorem decodeScanlines_isSome (bpp rb : Nat) : ∀ (h : Nat) (prev raw : Bytes), raw.length = h * (1 + rb) →
    ((decodeScanlines bpp rb h prev raw).isSome = true ↔ ∀ i, i < h → (raw.getD (i * (1 + rb)) 0).toNat ≤ 4) := by
  intro h
  induction h with
  | zero => intro prev raw _; simp [decodeScanlines]
  | succ k ih =>
    intro prev raw hl
    cases raw with
    | nil => simp [Nat.succ_mul] at hl; omega
    | cons f rest =>
      have hrl : rest.length = rb + k * (1 + rb) := by
        simp only [List.length_cons, Nat.succ_mul] at hl; omega
      have hnot : ¬ rest.length < rb := by omega
      simp only [decodeScanlines, hnot, if_false]
      have hidx : ∀ i, (f :: rest).getD ((i + 1) * (1 + rb)) 0 = (rest.drop rb).getD (i * (1 + rb)) 0 := by
        intro i
        rw [show (i + 1) * (1 + rb) = (rb + i * (1 + rb)) + 1 by rw [Nat.succ_mul]; omega, List.getD_cons_succ, getD_drop]
      cases hf : FilterType.ofNat? f.toNat with
      | none =>
        simp only [Option.isSome_none, Bool.false_eq_true, false_iff]
        intro hall
        have h0 := hall 0 (by omega)
        simp only [Nat.zero_mul, List.getD_cons_zero] at h0
        have : f.toNat = 0 ∨ f.toNat = 1 ∨ f.toNat = 2 ∨ f.toNat = 3 ∨ f.toNat = 4 := by omega
        rcases this with e | e | e | e | e <;> rw [e] at hf <;> simp [FilterType.ofNat?] at hf
      | some ft =>
        simp only [Option.isSome_map]
        rw [ih _ (rest.drop rb) (by rw [List.length_drop, hrl]; omega)]
        have hf4 : f.toNat ≤ 4 := by
          unfold FilterType.ofNat? at hf
          split at hf <;> first | omega | cases hf
        constructor
        · intro hall i hi
          cases i with
          | zero => simpa using hf4
          | succ j => rw [hidx]; exact hall j (by omega)
        · intro hall i hi
          rw [← hidx]; exact hall (i + 1) (by omega)

theorem filterBytesOk_single (raw : ByteArray) (h rb : Nat) :
    filterBytesOk raw [(h, rb)] 0 = true ↔ ∀ i, i < h → (raw.data.toList.getD (i * (1 + rb)) 0).toNat ≤ 4 := by
  simp only [filterBytesOk, Bool.and_true, List.all_eq_true, List.mem_range, decide_eq_true_eq, Nat.zero_add, ba_get!]

/-- **`specImgOk` with the Lean inflater accepts exactly what the executable `realImgOk` accepts** (interlace
    method 0, legal bit depth) -/
theorem specImgOk_iff_realImgOk (ih : Ihdr) (hi : ih.interlace = 0) (hd : depthOk ih.depth = true) (w h : Nat) (z : Bytes) :
    specImgOk realInflate ih.color ih.depth w h z = .ok () ↔ realImgOk ih w h z = .ok () := by
  unfold specImgOk realImgOk realInflate
  cases hz : Inf.zlibInflate (ofList z) true with
  | none => simp
  | some p =>
    obtain ⟨raw, used⟩ := p
    simp only
    by_cases hu : used = z.length
    · simp only [hu, if_true, ne_eq, not_true_eq_false, if_false, layout, hi, layoutSize, List.foldl_cons, List.foldl_nil,
        Nat.zero_add, ← rowBytes_eq ih hd w]
      have hsz : raw.data.toList.length = raw.size := data_length raw
      by_cases hl : raw.size = h * (1 + rowBytes ih w)
      · rw [hsz]
        simp only [hl, not_true_eq_false, if_false]
        have key := decodeScanlines_isSome (bytesPerPixel ih.color ih.depth) (rowBytes ih w) h [] raw.data.toList (hsz.trans hl)
        have key2 := filterBytesOk_single raw h (rowBytes ih w)
        cases hdec : decodeScanlines (bytesPerPixel ih.color ih.depth) (rowBytes ih w) h [] raw.data.toList with
        | none =>
          rw [hdec] at key
          have : ¬ filterBytesOk raw [(h, rowBytes ih w)] 0 = true := fun hh => by
            have := key.mpr (key2.mp hh); simp at this
          simp [this]
        | some rows =>
          rw [hdec] at key
          have : filterBytesOk raw [(h, rowBytes ih w)] 0 = true := key2.mpr (key.mp rfl)
          simp [this]
      · rw [hsz]
        simp only [hl, not_false_eq_true, if_true]
    · simp [hu]

/-- the back-end contract transfers from `specImgOk realInflate` to `realImgOk` -/
theorem codec_ok_real (E : Codec) (ih : Ihdr) (hi : ih.interlace = 0) (hd : depthOk ih.depth = true)
    (h : Codec.Ok (specImgOk realInflate ih.color ih.depth) E ih.color ih.depth) :
    Codec.Ok (realImgOk ih) E ih.color ih.depth := by
  intro w hh data hl
  obtain ⟨h1, h2⟩ := h w hh data hl
  exact ⟨h1, (specImgOk_iff_realImgOk ih hi hd w hh _).mp h2⟩

end Png.Enc
