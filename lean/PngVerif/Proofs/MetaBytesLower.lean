import PngVerif.Proofs.MetaBytesGraft
/-!
# C17 at the byte level, part 2: `parse_chunk` under a smaller limit

The byte-level machine charges the growth of the chunk buffer to `Limits` (`reserve_current_chunk`), the chunk-level
model `EncodeMeta.feedChunk` does not: when `parse_chunk` runs, the byte-level decoder's `limit` is smaller.
`parseChunk_lower`: if `parse_chunk` succeeds with limit `l` and what it leaves of the limit is at least `j` (and the
body itself still fits: `|raw| + j ≤ l`), then with limit `l − j` it succeeds with the same event and the same decoder,
`j` less of the limit left.  The parsers use the limit through `Limits::reserve_bytes(raw.len())` (`PLTE`, `sBIT`, `tRNS`,
text chunks) — an equation under `|raw| + j ≤ l` — and `iCCP` through the bounded inflater, about which
`Cfg.BoundedOk` says what `fdeflate::decompress_to_vec_bounded` guarantees: the output never exceeds the bound, and the
bound does not change the output.
-/
namespace Png.Framing
open Png

/-- `j` bytes less of the limit -/
def Dec.lower (d : Dec) (j : Nat) : Dec := { d with limit := d.limit - j }

def lowerRes (j : Nat) (r : PRes) : PRes := r.map fun p => (p.1.lower j, p.2)

/-- what `decompress_to_vec_bounded` guarantees: the output fits the bound; the same output under any bound it fits -/
structure Cfg.BoundedOk (cfg : Cfg) : Prop where
  le : ∀ zs n x, cfg.inflateBounded zs n = .ok x → x.length ≤ n
  stable : ∀ zs n m x, cfg.inflateBounded zs n = .ok x → x.length ≤ m → cfg.inflateBounded zs m = .ok x

theorem lower_raw (d : Dec) (j : Nat) : (d.lower j).raw = d.raw := rfl
theorem lower_info (d : Dec) (j : Nat) : (d.lower j).info = d.info := rfl
theorem lower_haveIdat (d : Dec) (j : Nat) : (d.lower j).haveIdat = d.haveIdat := rfl
theorem lower_haveIccp (d : Dec) (j : Nat) : (d.lower j).haveIccp = d.haveIccp := rfl
theorem lower_limit (d : Dec) (j : Nat) : (d.lower j).limit = d.limit - j := rfl
theorem lower_opts (d : Dec) (j : Nat) : (d.lower j).opts = d.opts := rfl
theorem lower_seqNo (d : Dec) (j : Nat) : (d.lower j).seqNo = d.seqNo := rfl

theorem lowerRes_bind {α : Type} (j : Nat) (a : Except PErr α) (k : α → PRes) :
    lowerRes j (a >>= k) = a >>= fun v => lowerRes j (k v) := by cases a <;> rfl
theorem lowerRes_ite (j : Nat) (c : Prop) [Decidable c] (a b : PRes) :
    lowerRes j (if c then a else b) = if c then lowerRes j a else lowerRes j b := by split <;> rfl
theorem lowerRes_throw (j : Nat) (e : PErr) : lowerRes j (throw e) = throw e := rfl
theorem lowerRes_error (j : Nat) (e : PErr) : lowerRes j (.error e) = .error e := rfl
theorem lowerRes_pure (j : Nat) (p : Dec × Ev) : lowerRes j (pure p) = pure (p.1.lower j, p.2) := rfl
theorem lowerRes_ok (j : Nat) (p : Dec × Ev) : lowerRes j (.ok p) = .ok (p.1.lower j, p.2) := rfl
theorem setInfo_lower (d : Dec) (j : Nat) (f : Info → Info) : setInfo (d.lower j) f = (setInfo d f).lower j := rfl
theorem addText_lower (d : Dec) (j : Nat) (t : TextChunk) : addText (d.lower j) t = (addText d t).lower j := rfl
theorem withInfo_lower (d : Dec) (j : Nat) (k : Info → PRes) : withInfo (d.lower j) k = withInfo d k := rfl
theorem lowerRes_withInfo (d : Dec) (j : Nat) (k : Info → PRes) :
    lowerRes j (withInfo d k) = withInfo d (fun i => lowerRes j (k i)) := by
  unfold withInfo; cases d.info <;> rfl
theorem setInfoSome_lower (d : Dec) (j : Nat) (i : Info) :
    ({ d.lower j with info := some i } : Dec) = ({ d with info := some i } : Dec).lower j := rfl

/-- a reservation that still fits after the limit was lowered -/
theorem reserve_lower (d : Dec) (j n : Nat) (hl : n + j ≤ d.limit) :
    reserve (d.lower j) n = (reserve d n).map (·.lower j) := by
  have h1 : d.limit ≥ n := by omega
  have h2 : (d.lower j).limit ≥ n := by show d.limit - j ≥ n; omega
  simp only [reserve, h1, h2, if_true, Except.map]
  have : d.limit - j - n = d.limit - n - j := by omega
  simp only [Dec.lower, this]

macro "lower_simp0" : tactic => `(tactic| (
  simp only [lowerRes_bind, lowerRes_ite, lowerRes_throw, lowerRes_pure, lowerRes_ok, lowerRes_error, lower_info, lower_raw,
    lower_haveIdat, lower_haveIccp, lower_opts, lower_seqNo, withInfo_lower, lowerRes_withInfo,
    setInfo_lower, addText_lower, except_map_bind, setInfoSome_lower]))

macro "lower_simp" hl:term : tactic => `(tactic| (
  simp only [lowerRes_bind, lowerRes_ite, lowerRes_throw, lowerRes_pure, lowerRes_ok, lowerRes_error, lower_info, lower_raw,
    lower_haveIdat, lower_haveIccp, lower_opts, lower_seqNo, withInfo_lower, lowerRes_withInfo,
    setInfo_lower, addText_lower, reserve_lower _ _ _ $hl, except_map_bind, setInfoSome_lower]))

/-- closes `parser (d.lower j) = lowerRes j (parser d)` once the parser is unfolded (a parser that reserves nothing) -/
macro "lower_tac0" : tactic => `(tactic| (
  lower_simp0
  repeat' (first
    | rfl
    | contradiction
    | (apply withInfo_congr; intro _)
    | (apply bind_congr'; intro _)
    | (apply ite_congr')
    | (split <;> (try lower_simp0)))))

/-- the same for a parser that reserves `raw.len()` bytes -/
macro "lower_tac" hl:term : tactic => `(tactic| (
  lower_simp $hl
  repeat' (first
    | rfl
    | contradiction
    | (apply withInfo_congr; intro _)
    | (apply bind_congr'; intro _)
    | (apply ite_congr')
    | (split <;> (try lower_simp $hl)))))

section parsers
variable (d : Dec) (j : Nat)

theorem parseIhdr_lower : parseIhdr (d.lower j) = lowerRes j (parseIhdr d) := by
  unfold parseIhdr; lower_tac0
theorem parseActl_lower : parseActl (d.lower j) = lowerRes j (parseActl d) := by
  unfold parseActl; lower_tac0
theorem parsePhys_lower : parsePhys (d.lower j) = lowerRes j (parsePhys d) := by
  unfold parsePhys; lower_tac0
theorem parseChrm_lower : parseChrm (d.lower j) = lowerRes j (parseChrm d) := by
  unfold parseChrm; lower_tac0
theorem parseGama_lower : parseGama (d.lower j) = lowerRes j (parseGama d) := by
  unfold parseGama; lower_tac0
theorem parseSrgb_lower : parseSrgb (d.lower j) = lowerRes j (parseSrgb d) := by
  unfold parseSrgb; lower_tac0
theorem parseCicp_lower : parseCicp (d.lower j) = lowerRes j (parseCicp d) := by
  unfold parseCicp; lower_tac0
theorem parseMdcv_lower : parseMdcv (d.lower j) = lowerRes j (parseMdcv d) := by
  unfold parseMdcv; lower_tac0
theorem parseClli_lower : parseClli (d.lower j) = lowerRes j (parseClli d) := by
  unfold parseClli; lower_tac0
theorem parseExif_lower : parseExif (d.lower j) = lowerRes j (parseExif d) := by
  unfold parseExif; lower_tac0
theorem parseBkgd_lower : parseBkgd (d.lower j) = lowerRes j (parseBkgd d) := by
  unfold parseBkgd; lower_tac0

variable (hl : d.raw.length + j ≤ d.limit)
include hl

theorem parsePlte_lower : parsePlte (d.lower j) = lowerRes j (parsePlte d) := by
  unfold parsePlte; lower_tac hl
theorem parseSbit_lower : parseSbit (d.lower j) = lowerRes j (parseSbit d) := by
  unfold parseSbit; lower_tac hl
theorem parseTrns_lower : parseTrns (d.lower j) = lowerRes j (parseTrns d) := by
  unfold parseTrns; lower_tac hl
theorem parseText_lower : parseText (d.lower j) = lowerRes j (parseText d) := by
  unfold parseText; lower_tac hl
theorem parseZtxt_lower : parseZtxt (d.lower j) = lowerRes j (parseZtxt d) := by
  unfold parseZtxt; lower_tac hl
theorem parseItxt_lower (cfg : Cfg) : parseItxt cfg (d.lower j) = lowerRes j (parseItxt cfg d) := by
  unfold parseItxt; lower_tac hl

end parsers

/-! ## `fcTL`: only the success matters (its errors are fatal) -/

theorem fctlDone_lower (d : Dec) (j : Nat) (fc : FrameControl) : fctlDone (d.lower j) fc = (fctlDone d fc).lower j := rfl

theorem parseFctl_lower_ok {d d' : Dec} {ev : Ev} (j : Nat) (h : parseFctl d = .ok (d', ev)) :
    parseFctl (d.lower j) = .ok (d'.lower j, ev) := by
  obtain ⟨fc, i, h1, h2, h3, h4, h5, h6, h7, h8, rfl, rfl⟩ := (parseFctl_ok_iff d d' ev).mp h
  exact (parseFctl_ok_iff _ _ _).mpr ⟨fc, i, h1, h2, h3, h4, h5, h6, h7, h8, (fctlDone_lower d j fc).symm, rfl⟩

/-! ## `iCCP`: through the bounded inflater -/

/-- `parse_iccp_raw` after the profile name and the compression method were read -/
def iccpTail (cfg : Cfg) (d : Dec) (v : Nat × Bytes) : Except PErr Dec :=
  if v.1 ≠ 0 then .error (.format "UnknownCompressionMethod")
  else match cfg.inflateBounded v.2 d.limit with
    | .ok profile => (reserve d profile.length).map fun d => setInfo d (fun i => { i with icc := some profile })
    | .error true => .error .limits
    | .error false => .error (.format "CorruptFlateStream")

theorem parseIccpRaw_eq (cfg : Cfg) (d : Dec) :
    parseIccpRaw cfg d =
      match iccpName 82 0 d.raw with
      | .error e => .error e
      | .ok b =>
        match eofOr (rdU8 b) with
        | .error e => .error e
        | .ok v => iccpTail cfg d v := by
  unfold parseIccpRaw iccpTail
  cases iccpName 82 0 d.raw with
  | error e => rfl
  | ok b =>
    simp only [bind, Except.bind]
    cases eofOr (rdU8 b) with
    | error e => rfl
    | ok v =>
      simp only [pure, Except.pure, throw, throwThe, MonadExceptOf.throw]
      split
      · rfl
      · cases cfg.inflateBounded v.2 d.limit with
        | error b => cases b <;> rfl
        | ok profile => simp only; cases reserve d profile.length <;> rfl

theorem iccpTail_lower_ok {cfg : Cfg} (hB : cfg.BoundedOk) {d d' : Dec} {v : Nat × Bytes} (j : Nat)
    (h : iccpTail cfg d v = .ok d') (hj : j ≤ d'.limit) : iccpTail cfg (d.lower j) v = .ok (d'.lower j) := by
  unfold iccpTail at h ⊢
  by_cases hm : v.1 ≠ 0
  · rw [if_pos hm] at h; cases h
  · rw [if_neg hm] at h ⊢
    cases hz : cfg.inflateBounded v.2 d.limit with
    | error b => rw [hz] at h; cases b <;> cases h
    | ok profile =>
      rw [hz] at h
      simp only at h
      have hle := hB.le _ _ _ hz
      rw [reserve_ok d _ hle] at h
      cases h
      have hj' : j ≤ d.limit - profile.length := hj
      rw [lower_limit, hB.stable _ _ (d.limit - j) _ hz (by omega)]
      simp only
      rw [reserve_lower d j _ (by omega), reserve_ok d _ hle]
      rfl

theorem iccpTail_lower_err {cfg : Cfg} (hB : cfg.BoundedOk) {d : Dec} {v : Nat × Bytes} {e : PErr} (j : Nat)
    (h : iccpTail cfg d v = .error e) : ∃ e', iccpTail cfg (d.lower j) v = .error e' := by
  unfold iccpTail at h ⊢
  by_cases hm : v.1 ≠ 0
  · rw [if_pos hm]; exact ⟨_, rfl⟩
  · rw [if_neg hm] at h ⊢
    rw [lower_limit]
    cases hz' : cfg.inflateBounded v.2 (d.limit - j) with
    | error b => cases b <;> exact ⟨_, rfl⟩
    | ok y =>
      exfalso
      have hy := hB.le _ _ _ hz'
      have hz := hB.stable _ _ d.limit _ hz' (by omega)
      rw [hz] at h
      simp only at h
      rw [reserve_ok d _ (by omega)] at h
      cases h

theorem parseIccpRaw_lower_ok {cfg : Cfg} (hB : cfg.BoundedOk) {d d' : Dec} (j : Nat)
    (h : parseIccpRaw cfg d = .ok d') (hj : j ≤ d'.limit) : parseIccpRaw cfg (d.lower j) = .ok (d'.lower j) := by
  rw [parseIccpRaw_eq] at h ⊢
  rw [lower_raw]
  cases hn : iccpName 82 0 d.raw with
  | error e => rw [hn] at h; cases h
  | ok b =>
    rw [hn] at h
    simp only at h ⊢
    cases hb : eofOr (rdU8 b) with
    | error e => rw [hb] at h; cases h
    | ok v =>
      rw [hb] at h
      exact iccpTail_lower_ok hB j h hj

theorem parseIccpRaw_lower_err {cfg : Cfg} (hB : cfg.BoundedOk) {d : Dec} {e : PErr} (j : Nat)
    (h : parseIccpRaw cfg d = .error e) : ∃ e', parseIccpRaw cfg (d.lower j) = .error e' := by
  rw [parseIccpRaw_eq] at h ⊢
  rw [lower_raw]
  cases hn : iccpName 82 0 d.raw with
  | error e => exact ⟨e, rfl⟩
  | ok b =>
    rw [hn] at h
    simp only at h ⊢
    cases hb : eofOr (rdU8 b) with
    | error e => exact ⟨e, rfl⟩
    | ok v =>
      rw [hb] at h
      exact iccpTail_lower_err hB j h

/-- `self.have_iccp = true` -/
def Dec.markIccp (d : Dec) : Dec := { d with haveIccp := true }

theorem markIccp_lower (d : Dec) (j : Nat) : (d.lower j).markIccp = d.markIccp.lower j := rfl

theorem parseIccp_eq (cfg : Cfg) (d : Dec) :
    parseIccp cfg d =
      if d.haveIdat then .error (.format "AfterIdat iCCP")
      else if d.haveIccp then .ok (d, .nothing)
      else match parseIccpRaw cfg d.markIccp with
        | .ok d' => .ok (d', .nothing)
        | .error _ => .ok (d.markIccp, .nothing) := rfl

theorem parseIccp_lower_ok {cfg : Cfg} (hB : cfg.BoundedOk) {d d' : Dec} {ev : Ev} (j : Nat)
    (h : parseIccp cfg d = .ok (d', ev)) (hj : j ≤ d'.limit) : parseIccp cfg (d.lower j) = .ok (d'.lower j, ev) := by
  rw [parseIccp_eq] at h ⊢
  rw [markIccp_lower, lower_haveIdat, lower_haveIccp]
  by_cases h1 : d.haveIdat = true
  · rw [if_pos h1] at h; cases h
  · rw [if_neg h1] at h ⊢
    by_cases h2 : d.haveIccp = true
    · rw [if_pos h2] at h ⊢; cases h; rfl
    · rw [if_neg h2] at h ⊢
      cases hr : parseIccpRaw cfg d.markIccp with
      | ok d1 =>
        rw [hr] at h
        cases h
        rw [parseIccpRaw_lower_ok hB j hr hj]
      | error e =>
        rw [hr] at h
        cases h
        obtain ⟨e', he'⟩ := parseIccpRaw_lower_err hB j hr
        rw [he']

theorem parseIccp_lower_err {cfg : Cfg} {d : Dec} {e : PErr} (j : Nat) (h : parseIccp cfg d = .error e) :
    parseIccp cfg (d.lower j) = .error e := by
  rw [parseIccp_eq] at h ⊢
  rw [lower_haveIdat]
  by_cases h1 : d.haveIdat = true
  · rw [if_pos h1] at h ⊢; exact h
  · rw [if_neg h1] at h
    by_cases h2 : d.haveIccp = true
    · rw [if_pos h2] at h; cases h
    · rw [if_neg h2] at h
      cases hr : parseIccpRaw cfg d.markIccp with
      | ok d1 => rw [hr] at h; cases h
      | error e => rw [hr] at h; cases h

/-! ## `dispatch` and `parse_chunk` -/

/-- `dispatch` under a lowered limit, every chunk type that does not go to `parse_fctl` or `parse_iccp` -/
theorem dispatch_lower_eq (cfg : Cfg) (d : Dec) (j : Nat) (hl : d.raw.length + j ≤ d.limit) (t : ChunkType) (h1 : t ≠ fcTL)
    (h2 : ¬ (t = iCCP ∧ (!d.opts.ignoreIccp) = true)) :
    dispatch cfg (d.lower j) t = lowerRes j (dispatch cfg d t) := by
  unfold dispatch
  simp only [lowerRes_ite, lower_opts, parseIhdr_lower, parseSbit_lower _ _ hl, parsePlte_lower _ _ hl,
    parseTrns_lower _ _ hl, parsePhys_lower, parseGama_lower, parseActl_lower, parseChrm_lower, parseSrgb_lower,
    parseCicp_lower, parseMdcv_lower, parseClli_lower, parseExif_lower, parseBkgd_lower, parseText_lower _ _ hl,
    parseZtxt_lower _ _ hl, parseItxt_lower _ _ hl, h1, h2, if_false, lowerRes_ok]

theorem dispatch_fcTL' (cfg : Cfg) (d : Dec) : dispatch cfg d fcTL = parseFctl d := dispatch_fcTL cfg d

theorem dispatch_iCCP' (cfg : Cfg) (d : Dec) (t : ChunkType) (h : t = iCCP ∧ (!d.opts.ignoreIccp) = true) :
    dispatch cfg d t = parseIccp cfg d := by
  obtain ⟨rfl, h⟩ := h
  exact dispatch_iCCP cfg d (by simpa using h)

theorem dispatch_lower_ok {cfg : Cfg} (hB : cfg.BoundedOk) {d d' : Dec} {t : ChunkType} {ev : Ev} (j : Nat)
    (hl : d.raw.length + j ≤ d.limit) (h : dispatch cfg d t = .ok (d', ev)) (hj : j ≤ d'.limit) :
    dispatch cfg (d.lower j) t = .ok (d'.lower j, ev) := by
  by_cases h1 : t = fcTL
  · subst h1
    rw [dispatch_fcTL'] at h ⊢
    exact parseFctl_lower_ok j h
  · by_cases h2 : t = iCCP ∧ (!d.opts.ignoreIccp) = true
    · rw [dispatch_iCCP' cfg d t h2] at h
      rw [dispatch_iCCP' cfg (d.lower j) t h2]
      exact parseIccp_lower_ok hB j h hj
    · rw [dispatch_lower_eq cfg d j hl t h1 h2, h]; rfl

theorem dispatch_lower_err {cfg : Cfg} {d : Dec} {t : ChunkType} {e : PErr} (j : Nat)
    (hl : d.raw.length + j ≤ d.limit) (h : dispatch cfg d t = .error e) (h1 : t ≠ fcTL) :
    dispatch cfg (d.lower j) t = .error e := by
  by_cases h2 : t = iCCP ∧ (!d.opts.ignoreIccp) = true
  · rw [dispatch_iCCP' cfg d t h2] at h
    rw [dispatch_iCCP' cfg (d.lower j) t h2]
    exact parseIccp_lower_err j h
  · rw [dispatch_lower_eq cfg d j hl t h1 h2, h]; rfl

theorem reserveOrKeep_lower (d : Dec) (j : Nat) (hl : d.raw.length + j ≤ d.limit) :
    reserveOrKeep (d.lower j) = (reserveOrKeep d).lower j := by
  unfold reserveOrKeep
  rw [lower_raw, reserve_lower d j _ hl, reserve_ok d _ (by omega)]
  rfl

theorem benignResidue_lower (d : Dec) (j : Nat) (t : ChunkType) (hl : d.raw.length + j ≤ d.limit) :
    benignResidue (d.lower j) t = (benignResidue d t).lower j := by
  unfold benignResidue
  have : benignCharged (d.lower j) t = benignCharged d t := rfl
  rw [this, reserveOrKeep_lower d j hl]
  split <;> rfl

/-- **`parse_chunk` under a lowered limit**: a chunk accepted with limit `l`, leaving at least `j`, is accepted with limit
    `l − j` (the body still fits: `|raw| + j ≤ l`): same event, same decoder, `j` less of the limit left -/
theorem parseChunk_lower {cfg : Cfg} (hB : cfg.BoundedOk) {d d' : Dec} {t : ChunkType} {ev : Ev} (j : Nat)
    (hl : d.raw.length + j ≤ d.limit) (h : parseChunk cfg d t = .ok (ev, d')) (hj : j ≤ d'.limit) :
    parseChunk cfg (d.lower j) t = .ok (ev, d'.lower j) := by
  have hat : (d.lower j).atCrc t = (d.atCrc t).lower j := rfl
  rcases parseChunk_cases h with h | ⟨e, he, hf, hb, rfl, rfl⟩
  · apply parseChunk_of_ok
    rw [hat]
    exact dispatch_lower_ok hB j hl h hj
  · have hd := dispatch_lower_err (cfg := cfg) j (d := d.atCrc t) hl he (benign_not_special hb).2.2
    rw [← hat] at hd
    rw [parseChunk_of_benign hd hf hb, hat, benignResidue_lower (d.atCrc t) j t hl]

end Png.Framing
