import PngVerif.Model.Adam7
/-!
# Lemmas about the Adam7 model (`PngVerif/Model/Adam7.lean`)

1. facts about the two tables extracted from the Rust source (by `decide`);
2. the integer form of `init_pass` counts exactly the columns / rows of a pass;
3. the iterator produces the specification's row list (all `w`, `h`, any `take`);
4. coverage: the scatter map is a bijection onto `[0,w) × [0,h)`;
5. stores: what one pixel store, one row (`expandPass`) and a whole image change, bit by bit.
-/
namespace Png.Adam7

/-! ## 1. The extracted tables -/

/-- closed form of the pattern (used only in proofs): decided equal to `passOf` below -/
def passOfChain (x y : Nat) : Nat :=
  if y % 2 = 1 then 7 else if x % 2 = 1 then 6 else if y % 4 = 2 then 5
  else if x % 4 = 2 then 4 else if y % 8 = 4 then 3 else if x % 8 = 4 then 2 else 1

/-- the table the proofs expect `init_pass` to contain -/
def paramsRef : Nat → Nat × Nat × Nat × Nat
  | 1 => (0, 0, 8, 8) | 2 => (4, 0, 8, 8) | 3 => (0, 4, 4, 8) | 4 => (2, 0, 4, 4)
  | 5 => (0, 2, 2, 4) | 6 => (1, 0, 2, 2) | 7 => (0, 1, 1, 2) | _ => (0, 0, 1, 1)

theorem pass_cases {p : Nat} (hp : 1 ≤ p ∧ p ≤ 7) :
    p = 1 ∨ p = 2 ∨ p = 3 ∨ p = 4 ∨ p = 5 ∨ p = 6 ∨ p = 7 := by omega

/-- Tie A: the table extracted from `init_pass` is the expected one -/
theorem passParams_eq {p : Nat} (hp : 1 ≤ p ∧ p ≤ 7) : passParams p = paramsRef p := by
  rcases pass_cases hp with h | h | h | h | h | h | h <;> subst h <;> decide

/-- Tie A: the table extracted from `expand_adam7_bits` is the one of `init_pass`, transposed:
    `(line_mul, line_off, samp_mul, samp_off) = (ystep, yoff, xstep, xoff)` -/
theorem bitsParams_eq {p : Nat} (hp : 1 ≤ p ∧ p ≤ 7) :
    bitsParams p = ((passParams p).2.2.2, (passParams p).2.1, (passParams p).2.2.1, (passParams p).1) := by
  rcases pass_cases hp with h | h | h | h | h | h | h <;> subst h <;> decide

theorem tables_length : Params.adam7Pass.length = 7 ∧ Params.adam7Bits.length = 7 := by decide

def patternOk : Bool := (List.range 8).all fun a => (List.range 8).all fun b => passOf a b == passOfChain a b
theorem patternOk_true : patternOk = true := by decide

theorem passOf_mod (x y : Nat) : passOf x y = passOf (x % 8) (y % 8) := by
  simp only [passOf, Nat.mod_mod]

theorem passOfChain_mod (x y : Nat) : passOfChain x y = passOfChain (x % 8) (y % 8) := by
  simp only [passOfChain, Nat.mod_mod_of_dvd x (by decide : 2 ∣ 8), Nat.mod_mod_of_dvd y (by decide : 2 ∣ 8),
    Nat.mod_mod_of_dvd x (by decide : 4 ∣ 8), Nat.mod_mod_of_dvd y (by decide : 4 ∣ 8), Nat.mod_mod]

theorem passOf_eq_chain (x y : Nat) : passOf x y = passOfChain x y := by
  rw [passOf_mod, passOfChain_mod]
  have h := patternOk_true
  simp only [patternOk, List.all_eq_true, List.mem_range, beq_iff_eq] at h
  exact h _ (Nat.mod_lt _ (by decide)) _ (Nat.mod_lt _ (by decide))

theorem passOf_range (x y : Nat) : 1 ≤ passOf x y ∧ passOf x y ≤ 7 := by
  rw [passOf_eq_chain]; unfold passOfChain; (repeat' split) <;> omega

/-! ## 2. `init_pass` counts the columns / rows of a pass -/

theorem dim_spec (n off step i : Nat) (hs : 0 < step) : i < dim n off step ↔ i * step + off < n := by
  unfold dim
  split
  · constructor
    · intro h; omega
    · intro h; have : 0 ≤ i * step := Nat.zero_le _; omega
  · rw [Nat.lt_div_iff_mul_lt hs]
    constructor <;> intro h <;> omega

theorem step_pos {p : Nat} (hp : 1 ≤ p ∧ p ≤ 7) : 0 < (passParams p).2.2.1 ∧ 0 < (passParams p).2.2.2 := by
  rw [passParams_eq hp]
  rcases pass_cases hp with h | h | h | h | h | h | h <;> subst h <;> decide

/-- the pixels of pass `p` are exactly those with `x ≡ xoff (mod xstep)` and `y ≡ yoff (mod ystep)` -/
theorem passOf_iff {p : Nat} (hp : 1 ≤ p ∧ p ≤ 7) (x y : Nat) :
    passOf x y = p ↔ x % (passParams p).2.2.1 = (passParams p).1 ∧ y % (passParams p).2.2.2 = (passParams p).2.1 := by
  rw [passParams_eq hp, passOf_eq_chain]
  rcases pass_cases hp with h | h | h | h | h | h | h <;> subst h <;>
    simp only [paramsRef, passOfChain] <;> (repeat' split) <;> omega

theorem colHas_mod (p x : Nat) : colHas p x = colHas p (x % 8) := by
  simp only [colHas, passOf, Nat.mod_mod]
theorem rowHas_mod (p y : Nat) : rowHas p y = rowHas p (y % 8) := by
  simp only [rowHas, passOf, Nat.mod_mod]

def hasOk : Bool := (List.range' 1 7).all fun p => (List.range 8).all fun a =>
  (colHas p a == decide (a % (paramsRef p).2.2.1 = (paramsRef p).1)) &&
  (rowHas p a == decide (a % (paramsRef p).2.2.2 = (paramsRef p).2.1))
theorem hasOk_true : hasOk = true := by decide

theorem colHas_iff {p : Nat} (hp : 1 ≤ p ∧ p ≤ 7) (x : Nat) :
    colHas p x = decide (x % (paramsRef p).2.2.1 = (paramsRef p).1) := by
  have h := hasOk_true
  simp only [hasOk, List.all_eq_true, List.mem_range, List.mem_range'_1, Bool.and_eq_true, beq_iff_eq] at h
  rw [colHas_mod, (h p (by omega) (x % 8) (Nat.mod_lt _ (by decide))).1]
  rcases pass_cases hp with h | h | h | h | h | h | h <;> subst h <;> simp only [paramsRef] <;>
    congr 1 <;> apply propext <;> omega

theorem rowHas_iff {p : Nat} (hp : 1 ≤ p ∧ p ≤ 7) (y : Nat) :
    rowHas p y = decide (y % (paramsRef p).2.2.2 = (paramsRef p).2.1) := by
  have h := hasOk_true
  simp only [hasOk, List.all_eq_true, List.mem_range, List.mem_range'_1, Bool.and_eq_true, beq_iff_eq] at h
  rw [rowHas_mod, (h p (by omega) (y % 8) (Nat.mod_lt _ (by decide))).2]
  rcases pass_cases hp with h | h | h | h | h | h | h <;> subst h <;> simp only [paramsRef] <;>
    congr 1 <;> apply propext <;> omega

/-- counting residues: the closed form of `init_pass`, for the seven (offset, step) pairs in use -/
theorem countP_dim (o s : Nat) (hos : (o, s) ∈ [(0, 8), (4, 8), (0, 4), (2, 4), (0, 2), (1, 2), (0, 1)]) (n : Nat) :
    (List.range n).countP (fun x => decide (x % s = o)) = dim n o s := by
  induction n with
  | zero => simp [dim]
  | succ n ih =>
    rw [List.range_succ, List.countP_append, ih, List.countP_singleton]
    simp only [List.mem_cons, Prod.mk.injEq, List.not_mem_nil, or_false] at hos
    rcases hos with ⟨h1, h2⟩ | ⟨h1, h2⟩ | ⟨h1, h2⟩ | ⟨h1, h2⟩ | ⟨h1, h2⟩ | ⟨h1, h2⟩ | ⟨h1, h2⟩ <;>
      subst h1 <;> subst h2 <;> simp only [dim, decide_eq_true_eq] <;> (repeat' split) <;> omega

theorem specPassW_eq {p : Nat} (hp : 1 ≤ p ∧ p ≤ 7) (w : Nat) : specPassW w p = passW w p := by
  unfold specPassW passW
  rw [passParams_eq hp, funext (colHas_iff hp)]
  apply countP_dim
  rcases pass_cases hp with h | h | h | h | h | h | h <;> subst h <;> decide

theorem specPassH_eq {p : Nat} (hp : 1 ≤ p ∧ p ≤ 7) (h : Nat) : specPassH h p = passH h p := by
  unfold specPassH passH
  rw [passParams_eq hp, funext (rowHas_iff hp)]
  apply countP_dim
  rcases pass_cases hp with h | h | h | h | h | h | h <;> subst h <;> decide

/-! ## 3. The iterator produces the specification's rows -/

/-- rows of pass `p` as the iterator produces them -/
def implPassRows (w h p : Nat) : List (Nat × Nat × Nat) :=
  if passW w p = 0 then [] else (List.range (passH h p)).map fun l => (p, l, passW w p)

theorem specPassRows_eq {p : Nat} (hp : 1 ≤ p ∧ p ≤ 7) (w h : Nat) : specPassRows w h p = implPassRows w h p := by
  simp only [specPassRows, implPassRows, specPassW_eq hp, specPassH_eq hp]

theorem specRows_eq_impl (w h : Nat) : specRows w h = (List.range' 1 7).flatMap (implPassRows w h) := by
  have : List.range' 1 7 = [1, 2, 3, 4, 5, 6, 7] := by decide
  simp only [specRows, this, List.flatMap_cons, List.flatMap_nil]
  rw [specPassRows_eq (by omega), specPassRows_eq (by omega), specPassRows_eq (by omega), specPassRows_eq (by omega),
    specPassRows_eq (by omega), specPassRows_eq (by omega), specPassRows_eq (by omega)]

/-- iterator invariant -/
def Iter.wf (w h : Nat) (it : Iter) : Prop :=
  it.width = w ∧ it.height = h ∧ 1 ≤ it.pass ∧ it.pass ≤ 7 ∧ it.lines = passH h it.pass ∧ it.lineWidth = passW w it.pass

/-- the rows a well-formed iterator state still has to produce -/
def Iter.rest (w h : Nat) (it : Iter) : List (Nat × Nat × Nat) :=
  (if it.lineWidth > 0 then (List.range' it.line (it.lines - it.line)).map fun l => (it.pass, l, it.lineWidth) else [])
    ++ (List.range' (it.pass + 1) (7 - it.pass)).flatMap (implPassRows w h)

theorem implPassRows_as_rest (w h p : Nat) :
    implPassRows w h p =
      (if passW w p > 0 then (List.range' 0 (passH h p - 0)).map fun l => (p, l, passW w p) else []) := by
  unfold implPassRows
  by_cases hz : passW w p = 0
  · simp [hz]
  · have : passW w p > 0 := by omega
    simp [hz, this, List.range_eq_range']

theorem next_spec (w h : Nat) : ∀ (fuel : Nat) (it : Iter), it.wf w h → 7 - it.pass < fuel →
    match it.next fuel with
    | none => it.rest w h = []
    | some (info, it') => it.rest w h = (info.pass, info.line, info.width) :: it'.rest w h ∧ it'.wf w h := by
  intro fuel
  induction fuel with
  | zero => intro it _ hf; omega
  | succ fuel ih =>
    intro it hwf hf
    obtain ⟨hw, hh, hp1, hp7, hl, hlw⟩ := hwf
    unfold Iter.next
    by_cases hc : it.line < it.lines ∧ it.lineWidth > 0
    · rw [if_pos hc]
      refine ⟨?_, hw, hh, hp1, hp7, hl, hlw⟩
      obtain ⟨hc1, hc2⟩ := hc
      have hn : it.lines - it.line = (it.lines - (it.line + 1)) + 1 := by omega
      simp only [Iter.rest, if_pos hc2]
      rw [hn, List.range'_succ]
      simp
    · rw [if_neg hc]
      have hfirst : (if it.lineWidth > 0 then (List.range' it.line (it.lines - it.line)).map fun l => (it.pass, l, it.lineWidth) else []) = [] := by
        by_cases hc2 : it.lineWidth > 0
        · have : it.lines - it.line = 0 := by omega
          simp [this]
        · simp [hc2]
      by_cases hp : it.pass < 7
      · rw [if_pos hp]
        have hwf' : (Iter.initPass { it with pass := it.pass + 1 }).wf w h := by
          refine ⟨hw, hh, ?_, ?_, ?_, ?_⟩ <;> simp [Iter.initPass, hw, hh] <;> omega
        have hrest : it.rest w h = (Iter.initPass { it with pass := it.pass + 1 }).rest w h := by
          have hn : 7 - it.pass = (7 - (it.pass + 1)) + 1 := by omega
          simp only [Iter.rest] at hfirst ⊢
          rw [hfirst, hn, List.range'_succ, List.flatMap_cons, implPassRows_as_rest]
          simp [Iter.initPass, hw, hh]
        have := ih _ hwf' (by simp [Iter.initPass]; omega)
        rw [hrest]
        exact this
      · rw [if_neg hp]
        have : 7 - it.pass = 0 := by omega
        simp only [Iter.rest] at hfirst ⊢
        rw [hfirst, this]
        simp

theorem collect_eq (w h : Nat) : ∀ (n : Nat) (it : Iter), it.wf w h → it.collect n = (it.rest w h).take n := by
  intro n
  induction n with
  | zero => intro it _; simp [Iter.collect]
  | succ n ih =>
    intro it hwf
    have hs := next_spec w h nextFuel it hwf (by have := hwf.2.2.1; simp [nextFuel]; omega)
    unfold Iter.collect
    split at hs
    · rename_i heq; rw [heq, hs]; simp
    · rename_i info it' heq
      rw [heq, hs.1]
      simp [ih it' hs.2]

theorem new_wf (w h : Nat) : (Iter.new w h).wf w h := by
  simp [Iter.new, Iter.initPass, Iter.wf]

theorem new_rest (w h : Nat) : (Iter.new w h).rest w h = specRows w h := by
  rw [specRows_eq_impl]
  have : List.range' 1 7 = 1 :: List.range' 2 6 := by decide
  rw [this, List.flatMap_cons, implPassRows_as_rest]
  simp [Iter.rest, Iter.new, Iter.initPass]

/-- the iterator truncated to `n` items is the specification's list truncated to `n` items -/
theorem iterRowsFuel_eq (n w h : Nat) : iterRowsFuel n w h = (specRows w h).take n := by
  rw [iterRowsFuel, collect_eq w h n _ (new_wf w h), new_rest]

theorem dim_le (n off step : Nat) (hs : 0 < step) : dim n off step ≤ n := by
  apply Nat.le_of_not_lt
  intro hlt
  have h1 := (dim_spec n off step n hs).mp hlt
  have h2 : n * 1 ≤ n * step := Nat.mul_le_mul_left n hs
  omega

theorem implPassRows_length_le (w h p : Nat) (hp : 1 ≤ p ∧ p ≤ 7) : (implPassRows w h p).length ≤ h := by
  unfold implPassRows
  split
  · simp
  · simp only [List.length_map, List.length_range, passH]
    exact dim_le _ _ _ (step_pos hp).2

theorem specRows_length_le (w h : Nat) : (specRows w h).length ≤ 7 * h := by
  rw [specRows_eq_impl]
  have : List.range' 1 7 = [1, 2, 3, 4, 5, 6, 7] := by decide
  simp only [this, List.flatMap_cons, List.flatMap_nil, List.length_append, List.length_nil]
  have h1 := implPassRows_length_le w h 1 (by omega)
  have h2 := implPassRows_length_le w h 2 (by omega)
  have h3 := implPassRows_length_le w h 3 (by omega)
  have h4 := implPassRows_length_le w h 4 (by omega)
  have h5 := implPassRows_length_le w h 5 (by omega)
  have h6 := implPassRows_length_le w h 6 (by omega)
  have h7 := implPassRows_length_le w h 7 (by omega)
  omega

theorem iterRows_eq_specRows (w h : Nat) : iterRows w h = specRows w h := by
  rw [iterRows, iterRowsFuel_eq, List.take_of_length_le (specRows_length_le w h)]

/-! ## 4. Coverage: the scatter map is a bijection onto the image -/

theorem destX_eq {p : Nat} (hp : 1 ≤ p ∧ p ≤ 7) (i : Nat) :
    destX p i = i * (passParams p).2.2.1 + (passParams p).1 := by
  simp only [destX, bitsParams_eq hp]
theorem destY_eq {p : Nat} (hp : 1 ≤ p ∧ p ≤ 7) (l : Nat) :
    destY p l = l * (passParams p).2.2.2 + (passParams p).2.1 := by
  simp only [destY, bitsParams_eq hp, Nat.mul_comm]

/-- the bit offsets computed by `expand_adam7_bits` are the fields of the pixels `(destX, destY)` -/
theorem expandBits_eq (stride : Nat) (info : Adam7Info) (bits : Nat) :
    expandBits stride info bits =
      (List.range info.width).map fun i => pixelBit stride bits (destX info.pass i) (destY info.pass info.line) := by
  simp only [expandBits, pixelBit, destX, destY]
  apply List.map_congr_left
  intro i _
  omega

/-- width / height of a pass, stated on the scatter map (unbounded in `w`, `h`) -/
theorem passW_spec {p : Nat} (hp : 1 ≤ p ∧ p ≤ 7) (w i : Nat) : i < passW w p ↔ destX p i < w := by
  rw [destX_eq hp, passW, dim_spec _ _ _ _ (step_pos hp).1]
theorem passH_spec {p : Nat} (hp : 1 ≤ p ∧ p ≤ 7) (h l : Nat) : l < passH h p ↔ destY p l < h := by
  rw [destY_eq hp, passH, dim_spec _ _ _ _ (step_pos hp).2]

/-- no pixel is produced by two passes: the destination of any sample of pass `p` is a pass-`p` pixel -/
theorem cover_unique {p : Nat} (hp : 1 ≤ p ∧ p ≤ 7) (i l : Nat) : passOf (destX p i) (destY p l) = p := by
  rw [passOf_iff hp, destX_eq hp, destY_eq hp, passParams_eq hp]
  rcases pass_cases hp with h | h | h | h | h | h | h <;> subst h <;> simp only [paramsRef] <;> omega

/-- the scatter map is injective within a pass -/
theorem destX_inj {p : Nat} (hp : 1 ≤ p ∧ p ≤ 7) {i i' : Nat} (h : destX p i = destX p i') : i = i' := by
  rw [destX_eq hp, destX_eq hp, passParams_eq hp] at h
  rcases pass_cases hp with h' | h' | h' | h' | h' | h' | h' <;> subst h' <;> simp only [paramsRef] at h <;> omega
theorem destY_inj {p : Nat} (hp : 1 ≤ p ∧ p ≤ 7) {l l' : Nat} (h : destY p l = destY p l') : l = l' := by
  rw [destY_eq hp, destY_eq hp, passParams_eq hp] at h
  rcases pass_cases hp with h' | h' | h' | h' | h' | h' | h' <;> subst h' <;> simp only [paramsRef] at h <;> omega
theorem destX_mono {p : Nat} (hp : 1 ≤ p ∧ p ≤ 7) {i i' : Nat} (h : i < i') : destX p i < destX p i' := by
  rw [destX_eq hp, destX_eq hp, passParams_eq hp]
  rcases pass_cases hp with h' | h' | h' | h' | h' | h' | h' <;> subst h' <;> simp only [paramsRef] <;> omega

/-- left of the destination of sample `i` there are exactly `i` columns of the pass -/
theorem passW_dest {p : Nat} (hp : 1 ≤ p ∧ p ≤ 7) (i : Nat) : passW (destX p i) p = i := by
  rw [destX_eq hp, passW, passParams_eq hp]
  rcases pass_cases hp with h | h | h | h | h | h | h <;> subst h <;> simp only [paramsRef, dim] <;>
    split <;> omega
theorem passH_dest {p : Nat} (hp : 1 ≤ p ∧ p ≤ 7) (l : Nat) : passH (destY p l) p = l := by
  rw [destY_eq hp, passH, passParams_eq hp]
  rcases pass_cases hp with h | h | h | h | h | h | h <;> subst h <;> simp only [paramsRef, dim] <;>
    split <;> omega

/-- the specification's source of the destination of sample `i` of line `l` of pass `p` is `(p, l, i)`:
    the implementation's scatter is the inverse of the specification's gather -/
theorem specSrc_dest {p : Nat} (hp : 1 ≤ p ∧ p ≤ 7) (i l : Nat) : specSrc (destX p i) (destY p l) = (p, l, i) := by
  simp only [specSrc, cover_unique hp, specPassH_eq hp, specPassW_eq hp, passW_dest hp, passH_dest hp]

/-- every pixel of a `w × h` image is produced by its pass `passOf x y`, inside that pass's dimensions,
    at the line / index the specification says -/
theorem cover_exists (w h x y : Nat) (hx : x < w) (hy : y < h) :
    1 ≤ (specSrc x y).1 ∧ (specSrc x y).1 ≤ 7 ∧
    (specSrc x y).2.2 < passW w (specSrc x y).1 ∧ (specSrc x y).2.1 < passH h (specSrc x y).1 ∧
    destX (specSrc x y).1 (specSrc x y).2.2 = x ∧ destY (specSrc x y).1 (specSrc x y).2.1 = y := by
  have hp := passOf_range x y
  have hpo := (passOf_iff hp x y).mp rfl
  simp only [specSrc]
  rw [passW_spec hp, passH_spec hp]
  have hX : destX (passOf x y) (specPassW x (passOf x y)) = x := by
    rw [destX_eq hp, specPassW_eq hp, passW]
    generalize passOf x y = p at hp hpo
    rw [passParams_eq hp] at hpo ⊢
    rcases pass_cases hp with h | h | h | h | h | h | h <;> subst h <;> simp only [paramsRef, dim] at hpo ⊢ <;>
      (repeat' split) <;> omega
  have hY : destY (passOf x y) (specPassH y (passOf x y)) = y := by
    rw [destY_eq hp, specPassH_eq hp, passH]
    generalize passOf x y = p at hp hpo
    rw [passParams_eq hp] at hpo ⊢
    rcases pass_cases hp with h | h | h | h | h | h | h <;> subst h <;> simp only [paramsRef, dim] at hpo ⊢ <;>
      (repeat' split) <;> omega
  rw [hX, hY]
  exact ⟨hp.1, hp.2, hx, hy, rfl, rfl⟩

/-- membership in the specification's row list -/
theorem mem_specRows (w h p l wd : Nat) :
    (p, l, wd) ∈ specRows w h ↔ (1 ≤ p ∧ p ≤ 7) ∧ wd = passW w p ∧ 0 < wd ∧ l < passH h p := by
  rw [specRows_eq_impl]
  simp only [List.mem_flatMap, List.mem_range'_1, implPassRows]
  constructor
  · rintro ⟨q, hq, hm⟩
    split at hm
    · simp at hm
    · simp only [List.mem_map, List.mem_range, Prod.mk.injEq] at hm
      obtain ⟨l', hl', rfl, rfl, rfl⟩ := hm
      exact ⟨by omega, rfl, by omega, hl'⟩
  · rintro ⟨hp, rfl, hwd, hl⟩
    refine ⟨p, by omega, ?_⟩
    rw [if_neg (by omega)]
    exact List.mem_map.mpr ⟨l, List.mem_range.mpr hl, rfl⟩

/-- the row that carries pixel `(x, y)` is in the list -/
theorem row_of_pixel_mem (w h x y : Nat) (hx : x < w) (hy : y < h) :
    ((specSrc x y).1, (specSrc x y).2.1, passW w (specSrc x y).1) ∈ specRows w h := by
  obtain ⟨h1, h7, hi, hl, _, _⟩ := cover_exists w h x y hx hy
  rw [mem_specRows]
  exact ⟨⟨h1, h7⟩, rfl, by omega, hl⟩

/-- the rows of the list are pairwise different in (pass, line) -/
theorem specRows_pairwise (w h : Nat) :
    (specRows w h).Pairwise (fun a b => a.1 ≠ b.1 ∨ a.2.1 ≠ b.2.1) := by
  rw [specRows_eq_impl, List.pairwise_flatMap]
  constructor
  · intro p _
    unfold implPassRows
    split
    · exact List.Pairwise.nil
    · rw [List.pairwise_map]
      exact List.Pairwise.imp (fun hlt => Or.inr (Nat.ne_of_lt hlt)) List.pairwise_lt_range
  · have hlt : (List.range' 1 7).Pairwise (· < ·) := List.pairwise_lt_range'
    refine List.Pairwise.imp ?_ hlt
    intro p q hpq a ha b hb
    have hap : a.1 = p := by
      unfold implPassRows at ha; split at ha
      · simp at ha
      · simp only [List.mem_map] at ha; obtain ⟨_, _, rfl⟩ := ha; rfl
    have hbq : b.1 = q := by
      unfold implPassRows at hb; split at hb
      · simp at hb
      · simp only [List.mem_map] at hb; obtain ⟨_, _, rfl⟩ := hb; rfl
    left; omega

/-! ## 5. Stores -/

/-! ### 5a. Frame lemma: a sequence of stores with pairwise disjoint footprints -/

/-- `wr a l v` : action `a` writes value `v` at location `l`.  If every single action, started in a
    state it fits in, writes exactly its footprint and leaves every other location alone, then so
    does a sequence of actions with pairwise disjoint footprints. -/
theorem foldOpt_frame {S A L V : Type} (step : S → A → Option S) (size : S → Nat) (read : S → L → V)
    (fits : Nat → A → Prop) (wr : A → L → V → Prop)
    (hstep : ∀ s a, fits (size s) a → ∃ s', step s a = some s' ∧ size s' = size s ∧
        (∀ l v, wr a l v → read s' l = v) ∧ (∀ l, (∀ v, ¬ wr a l v) → read s' l = read s l)) :
    ∀ (as : List A) (s : S), (∀ a ∈ as, fits (size s) a) →
      as.Pairwise (fun a b => ∀ l v v', wr a l v → ¬ wr b l v') →
      ∃ s', foldOpt step s as = some s' ∧ size s' = size s ∧
        (∀ a ∈ as, ∀ l v, wr a l v → read s' l = v) ∧
        (∀ l, (∀ a ∈ as, ∀ v, ¬ wr a l v) → read s' l = read s l) := by
  intro as
  induction as with
  | nil => intro s _ _; exact ⟨s, rfl, rfl, by simp, by simp⟩
  | cons a as ih =>
    intro s hfit hdis
    rw [List.pairwise_cons] at hdis
    obtain ⟨s1, hs1, hsz1, hhit1, hmiss1⟩ := hstep s a (hfit a (List.mem_cons_self))
    obtain ⟨s2, hs2, hsz2, hhit2, hmiss2⟩ := ih s1
      (fun b hb => by rw [hsz1]; exact hfit b (List.mem_cons_of_mem _ hb)) hdis.2
    refine ⟨s2, by simp only [foldOpt, hs1, hs2], by rw [hsz2, hsz1], ?_, ?_⟩
    · intro b hb l v hw
      rcases List.mem_cons.mp hb with rfl | hb
      · rw [hmiss2 l (fun c hc v' => hdis.1 c hc l v v' hw)]
        exact hhit1 l v hw
      · exact hhit2 b hb l v hw
    · intro l hno
      rw [hmiss2 l (fun c hc => hno c (List.mem_cons_of_mem _ hc))]
      exact hmiss1 l (hno a List.mem_cons_self)

/-! ### 5b. Reading bits -/

theorem getD_set (img : Bytes) (j k : Nat) (v : UInt8) :
    (img.set j v).getD k 0 = if k = j ∧ j < img.length then v else img.getD k 0 := by
  simp only [List.getD_eq_getElem?_getD, List.getElem?_set]
  by_cases h : j = k
  · subst h
    by_cases hl : j < img.length
    · simp [hl]
    · simp [hl]
  · have : ¬ k = j := fun h' => h h'.symm
    simp [h, this]

theorem bitAt_set (img : Bytes) (j k : Nat) (v : UInt8) (hj : j < img.length) :
    bitAt (img.set j v) k = if k / 8 = j then v.toNat.testBit (7 - k % 8) else bitAt img k := by
  unfold bitAt
  rw [getD_set]
  by_cases h : k / 8 = j
  · simp [h, hj]
  · simp [h]

/-- a byte is determined by its eight bits -/
theorem byte_ext (a b : UInt8) (h : ∀ u, u < 8 → a.toNat.testBit u = b.toNat.testBit u) : a = b := by
  apply UInt8.toNat_inj.mp
  apply Nat.eq_of_testBit_eq
  intro u
  by_cases hu : u < 8
  · exact h u hu
  · have ha : a.toNat < 2 ^ u := Nat.lt_of_lt_of_le a.toNat_lt (by
      have : 2 ^ 8 ≤ 2 ^ u := Nat.pow_le_pow_right (by decide) (by omega)
      simpa using this)
    have hb : b.toNat < 2 ^ u := Nat.lt_of_lt_of_le b.toNat_lt (by
      have : 2 ^ 8 ≤ 2 ^ u := Nat.pow_le_pow_right (by decide) (by omega)
      simpa using this)
    rw [Nat.testBit_lt_two_pow ha, Nat.testBit_lt_two_pow hb]

/-- bytes whose bits all agree are equal: unchanged bits mean unchanged bytes -/
theorem getD_eq_of_bitAt (a b : Bytes) (j : Nat) (h : ∀ k, k / 8 = j → bitAt a k = bitAt b k) :
    a.getD j 0 = b.getD j 0 := by
  apply byte_ext
  intro u hu
  have := h (j * 8 + (7 - u)) (by omega)
  unfold bitAt at this
  have h1 : (j * 8 + (7 - u)) / 8 = j := by omega
  have h2 : 7 - (j * 8 + (7 - u)) % 8 = u := by omega
  rw [h1, h2] at this
  exact this

/-! ### 5c. One sub-byte store, bit by bit -/

/-- table: the clearing mask `~~~(m <<< r)` has exactly the bits outside the field `[r, r + b)` -/
def clrOk (b : Nat) (m : UInt8) : Bool :=
  (List.range (9 - b)).all fun r => (List.range 8).all fun u =>
    (~~~(m <<< r.toUInt8)).toNat.testBit u == !(decide (r ≤ u ∧ u < r + b))
/-- table: a pixel value `< 2^b` shifted left by `r ≤ 8 - b` has its bits in the field `[r, r + b)` -/
def shlOk (b : Nat) : Bool :=
  (List.range (2 ^ b)).all fun p => (List.range (9 - b)).all fun r => (List.range 8).all fun u =>
    (p.toUInt8 <<< r.toUInt8).toNat.testBit u == (decide (r ≤ u ∧ u < r + b) && p.testBit (u - r))
theorem clrOk_all : clrOk 1 1 = true ∧ clrOk 2 3 = true ∧ clrOk 4 15 = true := by decide
theorem shlOk_all : shlOk 1 = true ∧ shlOk 2 = true ∧ shlOk 4 = true := by decide

/-- the (bits, mask) pairs of `subMask` -/
def SubBits (b : Nat) (m : UInt8) : Prop := (b = 1 ∧ m = 1) ∨ (b = 2 ∧ m = 3) ∨ (b = 4 ∧ m = 15)

theorem subMask_some {b : Nat} {m : UInt8} : subMask b = some m ↔ SubBits b m := by
  unfold SubBits
  constructor
  · intro h
    unfold subMask at h
    split at h <;> simp_all
  · rintro (⟨rfl, rfl⟩ | ⟨rfl, rfl⟩ | ⟨rfl, rfl⟩) <;> rfl

theorem SubBits.range {b : Nat} {m : UInt8} (h : SubBits b m) : 1 ≤ b ∧ b ≤ 4 ∧ 8 % b = 0 := by
  rcases h with ⟨rfl, rfl⟩ | ⟨rfl, rfl⟩ | ⟨rfl, rfl⟩ <;> decide

/-- repaired store: the field `[r, r + b)` of the byte holds the pixel, every other bit is the old one -/
theorem setPx_testBit {b : Nat} {m : UInt8} (hbm : SubBits b m)
    (old px : UInt8) (hpx : px.toNat < 2 ^ b) (r u : Nat) (hr : r + b ≤ 8) (hu : u < 8) :
    (setPx m old px r.toUInt8).toNat.testBit u =
      if r ≤ u ∧ u < r + b then px.toNat.testBit (u - r) else old.toNat.testBit u := by
  have hclr : (~~~(m <<< r.toUInt8)).toNat.testBit u = !(decide (r ≤ u ∧ u < r + b)) := by
    have key : clrOk b m = true := by
      rcases hbm with ⟨rfl, rfl⟩ | ⟨rfl, rfl⟩ | ⟨rfl, rfl⟩
      · exact clrOk_all.1
      · exact clrOk_all.2.1
      · exact clrOk_all.2.2
    simp only [clrOk, List.all_eq_true, List.mem_range, beq_iff_eq] at key
    exact key r (by have := hbm.range; omega) u hu
  have hshl : (px <<< r.toUInt8).toNat.testBit u = (decide (r ≤ u ∧ u < r + b) && px.toNat.testBit (u - r)) := by
    have key : shlOk b = true := by
      rcases hbm with ⟨rfl, rfl⟩ | ⟨rfl, rfl⟩ | ⟨rfl, rfl⟩
      · exact shlOk_all.1
      · exact shlOk_all.2.1
      · exact shlOk_all.2.2
    simp only [shlOk, List.all_eq_true, List.mem_range, beq_iff_eq] at key
    have := key px.toNat hpx r (by have := hbm.range; omega) u hu
    simpa using this
  simp only [setPx, UInt8.toNat_or, UInt8.toNat_and, Nat.testBit_or, Nat.testBit_and, hclr, hshl]
  by_cases hc : r ≤ u ∧ u < r + b <;> simp [hc]

/-- reading a pixel: `(x >>> r) &&& m` is `< 2^b` and its bit `j` is bit `j + r` of the byte -/
theorem getPx_spec {b : Nat} {m : UInt8} (hbm : SubBits b m) (x : UInt8) (r : Nat) (hr : r + b ≤ 8) :
    ((x >>> r.toUInt8) &&& m).toNat < 2 ^ b ∧
    ∀ j, j < b → ((x >>> r.toUInt8) &&& m).toNat.testBit j = x.toNat.testBit (j + r) := by
  have hb := hbm.range
  have hr8 : r.toUInt8.toNat % 8 = r := by
    have : r.toUInt8.toNat = r % 256 := by simp [Nat.toUInt8]
    omega
  constructor
  · have h1 : ((x >>> r.toUInt8) &&& m).toNat ≤ m.toNat := by
      rw [UInt8.toNat_and]; exact Nat.and_le_right
    rcases hbm with ⟨rfl, rfl⟩ | ⟨rfl, rfl⟩ | ⟨rfl, rfl⟩ <;> simp at h1 ⊢ <;> omega
  · intro j hj
    have hm : m.toNat.testBit j = true := by
      rcases hbm with ⟨rfl, rfl⟩ | ⟨rfl, rfl⟩ | ⟨rfl, rfl⟩
      · have : j = 0 := by omega
        subst this; decide
      · have : j = 0 ∨ j = 1 := by omega
        rcases this with rfl | rfl <;> decide
      · have : j = 0 ∨ j = 1 ∨ j = 2 ∨ j = 3 := by omega
        rcases this with rfl | rfl | rfl | rfl <;> decide
    rw [UInt8.toNat_and, Nat.testBit_and, hm, Bool.and_true, UInt8.toNat_shiftRight, hr8, Nat.testBit_shiftRight,
      Nat.add_comm]

/-! ### 5d. One pixel store as an action with a footprint -/

/-- a sub-byte pixel store `(pos, px)` writes bit `b - 1 - t` of `px` at bit `pos + t`, `t < b` -/
def wrSub (b : Nat) (a : Nat × UInt8) (k : Nat) (v : Bool) : Prop :=
  ∃ t, t < b ∧ k = a.1 + t ∧ v = a.2.toNat.testBit (b - 1 - t)

theorem writeSub_bits {b : Nat} {m : UInt8} (hbm : SubBits b m) (img : Bytes) (a : Nat × UInt8)
    (hal : a.1 % b = 0) (hpx : a.2.toNat < 2 ^ b) (hfit : a.1 + b ≤ img.length * 8) :
    ∃ img', writeSub setPx m b img a = some img' ∧ img'.length = img.length ∧
      ∀ k, bitAt img' k =
        if a.1 ≤ k ∧ k < a.1 + b then a.2.toNat.testBit (b - 1 - (k - a.1)) else bitAt img k := by
  obtain ⟨pos, px⟩ := a
  simp only at hal hpx hfit ⊢
  have hb := hbm.range
  have hin : pos % 8 + b ≤ 8 := by
    rcases hbm with ⟨rfl, rfl⟩ | ⟨rfl, rfl⟩ | ⟨rfl, rfl⟩ <;> omega
  have hlt : pos / 8 < img.length := by omega
  have hw : writeSub setPx m b img (pos, px) =
      some (img.set (pos / 8) (setPx m (img.getD (pos / 8) 0) px (8 - pos % 8 - b).toUInt8)) := by
    simp only [writeSub, if_pos hlt]
  refine ⟨_, hw, by simp, ?_⟩
  intro k
  rw [bitAt_set _ _ _ _ hlt]
  by_cases hk : k / 8 = pos / 8
  · rw [if_pos hk, setPx_testBit hbm _ _ hpx _ _ (by omega) (by omega)]
    by_cases hc : pos ≤ k ∧ k < pos + b
    · rw [if_pos hc, if_pos (by omega)]
      congr 1
      omega
    · rw [if_neg hc, if_neg (by omega)]
      unfold bitAt
      rw [hk]
  · rw [if_neg hk, if_neg (by omega)]

theorem writeSub_spec {b : Nat} {m : UInt8} (hbm : SubBits b m) (img : Bytes) (a : Nat × UInt8)
    (hal : a.1 % b = 0) (hpx : a.2.toNat < 2 ^ b) (hfit : a.1 + b ≤ img.length * 8) :
    ∃ img', writeSub setPx m b img a = some img' ∧ img'.length = img.length ∧
      (∀ k v, wrSub b a k v → bitAt img' k = v) ∧
      (∀ k, (∀ v, ¬ wrSub b a k v) → bitAt img' k = bitAt img k) := by
  obtain ⟨img', h1, h2, h3⟩ := writeSub_bits hbm img a hal hpx hfit
  refine ⟨img', h1, h2, ?_, ?_⟩
  · rintro k v ⟨t, ht, rfl, rfl⟩
    rw [h3, if_pos (by omega)]
    congr 1
    omega
  · intro k hno
    rw [h3, if_neg]
    intro hc
    exact hno _ ⟨k - a.1, by omega, by omega, rfl⟩

/-- the inner byte loop: bytes `[i, i + px.length)` are replaced by `px`, all others kept -/
theorem writeBytesAt_spec : ∀ (px img : Bytes) (i : Nat), i + px.length ≤ img.length →
    ∃ img', writeBytesAt img i px = some img' ∧ img'.length = img.length ∧
      ∀ j, img'.getD j 0 = if i ≤ j ∧ j < i + px.length then px.getD (j - i) 0 else img.getD j 0 := by
  intro px
  induction px with
  | nil => intro img i _; exact ⟨img, rfl, rfl, by intro j; simp; omega⟩
  | cons v vs ih =>
    intro img i hfit
    simp only [List.length_cons] at hfit
    have hlt : i < img.length := by omega
    obtain ⟨img', h1, h2, h3⟩ := ih (img.set i v) (i + 1) (by simp; omega)
    refine ⟨img', by simp only [writeBytesAt, if_pos hlt, h1], by simpa using h2, ?_⟩
    intro j
    rw [h3, getD_set]
    simp only [List.length_cons]
    by_cases hj : j = i
    · subst hj
      rw [if_neg (by omega), if_pos (by omega), if_pos (by omega)]
      simp
    · by_cases hc : i + 1 ≤ j ∧ j < i + 1 + vs.length
      · rw [if_pos hc, if_pos (by omega)]
        have : j - i = (j - (i + 1)) + 1 := by omega
        rw [this, List.getD_cons_succ]
      · rw [if_neg hc, if_neg (by omega), if_neg (by omega)]

/-- a whole-byte pixel store `(pos, px)` writes the bits of `px` at `pos ..` -/
def wrBytes (a : Nat × Bytes) (k : Nat) (v : Bool) : Prop :=
  ∃ t, t < 8 * a.2.length ∧ k = a.1 + t ∧ v = bitAt a.2 t

theorem writePx_spec (img : Bytes) (a : Nat × Bytes)
    (hal : a.1 % 8 = 0) (hfit : a.1 + 8 * a.2.length ≤ img.length * 8) :
    ∃ img', writePx img a = some img' ∧ img'.length = img.length ∧
      (∀ k v, wrBytes a k v → bitAt img' k = v) ∧
      (∀ k, (∀ v, ¬ wrBytes a k v) → bitAt img' k = bitAt img k) := by
  obtain ⟨pos, px⟩ := a
  simp only at hal hfit
  obtain ⟨img', h1, h2, h3⟩ := writeBytesAt_spec px img (pos / 8) (by omega)
  refine ⟨img', h1, h2, ?_, ?_⟩
  · rintro k v ⟨t, ht, rfl, rfl⟩
    simp only at ht ⊢
    unfold bitAt
    rw [h3, if_pos (by omega)]
    have e1 : (pos + t) / 8 - pos / 8 = t / 8 := by omega
    have e2 : (pos + t) % 8 = t % 8 := by omega
    rw [e1, e2]
  · intro k hno
    unfold bitAt
    rw [h3, if_neg]
    intro hc
    exact hno _ ⟨k - pos, by simp only; omega, by simp only; omega, rfl⟩

/-! ### 5e. One interlaced row -/

theorem zip_map_range {α β : Type} (f : Nat → α) (g : Nat → β) (n m : Nat) (h : n ≤ m) :
    ((List.range n).map f).zip ((List.range m).map g) = (List.range n).map fun i => (f i, g i) := by
  apply List.ext_getElem
  · simp; omega
  · intro i h1 h2
    simp

/-- bit `b - 1 - t` of pixel `i` of a packed row is bit `i * b + t` of the row -/
theorem subbytePixel_bit {b : Nat} {m : UInt8} (hbm : SubBits b m) (row : Bytes) (i t : Nat) (ht : t < b) :
    (subbytePixel row b m i).toNat.testBit (b - 1 - t) = bitAt row (i * b + t) := by
  have hb := hbm.range
  have hin : (i * b) % 8 + b ≤ 8 := by
    rcases hbm with ⟨rfl, rfl⟩ | ⟨rfl, rfl⟩ | ⟨rfl, rfl⟩ <;> omega
  unfold subbytePixel bitAt
  simp only
  rw [(getPx_spec hbm _ _ (by omega)).2 _ (by omega)]
  have e1 : (i * b + t) / 8 = i * b / 8 := by omega
  have e2 : b - 1 - t + (8 - i * b % 8 - b) = 7 - (i * b + t) % 8 := by omega
  rw [e1, e2]

theorem subbytePixel_lt {b : Nat} {m : UInt8} (hbm : SubBits b m) (row : Bytes) (i : Nat) :
    (subbytePixel row b m i).toNat < 2 ^ b := by
  have hb := hbm.range
  have hin : (i * b) % 8 + b ≤ 8 := by
    rcases hbm with ⟨rfl, rfl⟩ | ⟨rfl, rfl⟩ | ⟨rfl, rfl⟩ <;> omega
  exact (getPx_spec hbm _ _ (by omega)).1

/-- bit `t` of chunk `i` of a row is bit `i * n * 8 + t` of the row -/
theorem chunk_bit (row : Bytes) (n i t : Nat) (ht : t < 8 * n) :
    bitAt ((row.drop (i * n)).take n) t = bitAt row (i * n * 8 + t) := by
  unfold bitAt
  have e1 : (i * n * 8 + t) / 8 = i * n + t / 8 := by omega
  have e2 : (i * n * 8 + t) % 8 = t % 8 := by omega
  rw [e1, e2]
  congr 2
  simp only [List.getD_eq_getElem?_getD, List.getElem?_take, List.getElem?_drop]
  rw [if_pos (by omega)]

/-- what `expandPass` writes for the row `a = (info, contents)`: bit `t` of its pixel `i` goes to
    bit `t` of the field of the destination pixel `(destX pass i, destY pass line)` -/
def wrRow (stride bits : Nat) (a : Adam7Info × Bytes) (k : Nat) (v : Bool) : Prop :=
  ∃ i t, i < a.1.width ∧ t < bits ∧
    k = pixelBit stride bits (destX a.1.pass i) (destY a.1.pass a.1.line) + t ∧ v = bitAt a.2 (i * bits + t)

/-- the row can be expanded into an image of `n` bytes: valid pass, enough pixels in the row, every
    destination field inside the image -/
def fitsRow (stride bits : Nat) (n : Nat) (a : Adam7Info × Bytes) : Prop :=
  (1 ≤ a.1.pass ∧ a.1.pass ≤ 7) ∧ a.1.width * bits ≤ a.2.length * 8 ∧
  ∀ i, i < a.1.width → pixelBit stride bits (destX a.1.pass i) (destY a.1.pass a.1.line) + bits ≤ n * 8

theorem pixelBit_sep {p : Nat} (hp : 1 ≤ p ∧ p ≤ 7) (stride bits y : Nat) {i j : Nat} (h : i < j) :
    pixelBit stride bits (destX p i) y + bits ≤ pixelBit stride bits (destX p j) y := by
  have h1 := destX_mono hp h
  have h2 : (destX p i + 1) * bits ≤ destX p j * bits := Nat.mul_le_mul_right _ h1
  rw [Nat.add_mul] at h2
  unfold pixelBit
  omega

/-- sub-byte rows (repaired store) -/
theorem expandPass_sub {b : Nat} {m : UInt8} (hbm : SubBits b m) (stride : Nat) (img : Bytes)
    (a : Adam7Info × Bytes) (hfit : fitsRow stride b img.length a) :
    ∃ img', expandPass img stride a.2 a.1 b = some img' ∧ img'.length = img.length ∧
      (∀ k v, wrRow stride b a k v → bitAt img' k = v) ∧
      (∀ k, (∀ v, ¬ wrRow stride b a k v) → bitAt img' k = bitAt img k) := by
  obtain ⟨info, row⟩ := a
  obtain ⟨hp, hrow, hin⟩ := hfit
  simp only at hp hrow hin
  have hb := hbm.range
  have hlt8 : b < 8 := by omega
  have hcount : info.width ≤ (row.length * 8 + b - 1) / b := by
    rw [Nat.le_div_iff_mul_le (by omega)]; omega
  have hexp : expandPass img stride row info b =
      foldOpt (writeSub setPx m b) img ((List.range info.width).map fun i =>
        (pixelBit stride b (destX info.pass i) (destY info.pass info.line), subbytePixel row b m i)) := by
    simp only [expandPass, expandPassWith]
    rw [if_neg (by simp only [Decidable.not_not]; exact hp), if_pos hlt8, subMask_some.mpr hbm]
    simp only [expandBits_eq, subbytePixels]
    rw [zip_map_range _ _ _ _ hcount]
  have hframe := foldOpt_frame (writeSub setPx m b) List.length bitAt
    (fun n (a : Nat × UInt8) => a.1 % b = 0 ∧ a.2.toNat < 2 ^ b ∧ a.1 + b ≤ n * 8) (wrSub b)
    (fun s a h => writeSub_spec hbm s a h.1 h.2.1 h.2.2)
    ((List.range info.width).map fun i =>
        (pixelBit stride b (destX info.pass i) (destY info.pass info.line), subbytePixel row b m i)) img
    (by
      intro a ha
      obtain ⟨i, hi, rfl⟩ := List.mem_map.mp ha
      rw [List.mem_range] at hi
      refine ⟨?_, subbytePixel_lt hbm row i, hin i hi⟩
      simp only [pixelBit]
      rcases hbm with ⟨rfl, rfl⟩ | ⟨rfl, rfl⟩ | ⟨rfl, rfl⟩ <;> omega)
    (by
      rw [List.pairwise_map]
      refine List.Pairwise.imp ?_ List.pairwise_lt_range
      intro i j hij k v v' ⟨t, ht, hk, _⟩ ⟨t', ht', hk', _⟩
      have := pixelBit_sep hp stride b (destY info.pass info.line) hij
      simp only at hk hk'
      omega)
  obtain ⟨img', h1, h2, h3, h4⟩ := hframe
  refine ⟨img', by rw [hexp]; exact h1, h2, ?_, ?_⟩
  · rintro k v ⟨i, t, hi, ht, rfl, rfl⟩
    simp only at hi ⊢
    rw [← subbytePixel_bit hbm row i t ht]
    exact h3 _ (List.mem_map.mpr ⟨i, List.mem_range.mpr hi, rfl⟩) _ _ ⟨t, ht, rfl, rfl⟩
  · intro k hno
    apply h4
    intro a ha v ⟨t, ht, hk, _⟩
    obtain ⟨i, hi, rfl⟩ := List.mem_map.mp ha
    rw [List.mem_range] at hi
    exact hno _ ⟨i, t, hi, ht, hk, rfl⟩

/-- whole-byte rows -/
theorem expandPass_bytes {bits : Nat} (h8 : 8 ≤ bits) (hm : bits % 8 = 0) (stride : Nat) (img : Bytes)
    (a : Adam7Info × Bytes) (hfit : fitsRow stride bits img.length a) :
    ∃ img', expandPass img stride a.2 a.1 bits = some img' ∧ img'.length = img.length ∧
      (∀ k v, wrRow stride bits a k v → bitAt img' k = v) ∧
      (∀ k, (∀ v, ¬ wrRow stride bits a k v) → bitAt img' k = bitAt img k) := by
  obtain ⟨info, row⟩ := a
  obtain ⟨hp, hrow, hin⟩ := hfit
  simp only at hp hrow hin
  generalize hn : bits / 8 = n
  have hbits : bits = 8 * n := by omega
  have hn1 : 1 ≤ n := by omega
  have hwn : info.width * n ≤ row.length := by
    have : info.width * bits = 8 * (info.width * n) := by rw [hbits, Nat.mul_left_comm]
    omega
  have hcount : info.width ≤ (row.length + n - 1) / n := by
    rw [Nat.le_div_iff_mul_le (by omega)]; omega
  have hclen : ∀ i, i < info.width → ((row.drop (i * n)).take n).length = n := by
    intro i hi
    have : (i + 1) * n ≤ info.width * n := Nat.mul_le_mul_right _ hi
    rw [Nat.add_mul] at this
    simp only [List.length_take, List.length_drop]
    omega
  have hexp : expandPass img stride row info bits =
      foldOpt writePx img ((List.range info.width).map fun i =>
        (pixelBit stride bits (destX info.pass i) (destY info.pass info.line), (row.drop (i * n)).take n)) := by
    simp only [expandPass, expandPassWith]
    rw [if_neg (by simp only [Decidable.not_not]; exact hp), if_neg (by omega), hn]
    simp only [expandBits_eq, chunks]
    rw [zip_map_range _ _ _ _ hcount]
  have hframe := foldOpt_frame writePx List.length bitAt
    (fun m (a : Nat × Bytes) => a.1 % 8 = 0 ∧ a.1 + 8 * a.2.length ≤ m * 8) wrBytes
    (fun s a h => writePx_spec s a h.1 h.2)
    ((List.range info.width).map fun i =>
        (pixelBit stride bits (destX info.pass i) (destY info.pass info.line), (row.drop (i * n)).take n)) img
    (by
      intro a ha
      obtain ⟨i, hi, rfl⟩ := List.mem_map.mp ha
      rw [List.mem_range] at hi
      simp only
      rw [hclen i hi]
      refine ⟨?_, by have := hin i hi; omega⟩
      have : destX info.pass i * bits = 8 * (destX info.pass i * n) := by rw [hbits, Nat.mul_left_comm]
      simp only [pixelBit]
      omega)
    (by
      rw [List.pairwise_map]
      refine List.Pairwise.imp ?_ List.pairwise_lt_range
      intro i j hij k v v' ⟨t, ht, hk, _⟩ ⟨t', ht', hk', _⟩
      have := pixelBit_sep hp stride bits (destY info.pass info.line) hij
      have hl : ((row.drop (i * n)).take n).length ≤ n := by
        simp only [List.length_take]; omega
      simp only at hk hk' ht
      omega)
  obtain ⟨img', h1, h2, h3, h4⟩ := hframe
  refine ⟨img', by rw [hexp]; exact h1, h2, ?_, ?_⟩
  · rintro k v ⟨i, t, hi, ht, rfl, rfl⟩
    simp only at hi ⊢
    have e : i * bits + t = i * n * 8 + t := by
      rw [hbits, Nat.mul_comm 8 n, Nat.mul_assoc]
    rw [e, ← chunk_bit row n i t (by omega)]
    exact h3 _ (List.mem_map.mpr ⟨i, List.mem_range.mpr hi, rfl⟩) _ _
      ⟨t, by simp only; rw [hclen i hi]; omega, rfl, rfl⟩
  · intro k hno
    apply h4
    intro a ha v ⟨t, ht, hk, _⟩
    obtain ⟨i, hi, rfl⟩ := List.mem_map.mp ha
    rw [List.mem_range] at hi
    simp only at ht hk
    rw [hclen i hi] at ht
    exact hno _ ⟨i, t, hi, by omega, hk, rfl⟩

/-- **one row**: for every PNG pixel size, `expandPass` stores every pixel of the row in the field
    of its destination pixel and changes no other bit; the length is unchanged -/
theorem expandPass_spec {bits : Nat} (hb : validBits bits) (stride : Nat) (img : Bytes)
    (a : Adam7Info × Bytes) (hfit : fitsRow stride bits img.length a) :
    ∃ img', expandPass img stride a.2 a.1 bits = some img' ∧ img'.length = img.length ∧
      (∀ k v, wrRow stride bits a k v → bitAt img' k = v) ∧
      (∀ k, (∀ v, ¬ wrRow stride bits a k v) → bitAt img' k = bitAt img k) := by
  rcases hb with rfl | rfl | rfl | ⟨h8, hm⟩
  · exact expandPass_sub (Or.inl ⟨rfl, rfl⟩) stride img a hfit
  · exact expandPass_sub (Or.inr (Or.inl ⟨rfl, rfl⟩)) stride img a hfit
  · exact expandPass_sub (Or.inr (Or.inr ⟨rfl, rfl⟩)) stride img a hfit
  · exact expandPass_bytes h8 hm stride img a hfit

/-! ### 5f. A whole image -/

/-- fields of different pixels of a `w`-wide image with `w * bits ≤ stride * 8` do not overlap -/
theorem pixelBit_inj {stride bits w x y x' y' t t' : Nat} (hs : w * bits ≤ stride * 8)
    (hx : x < w) (hx' : x' < w) (ht : t < bits) (ht' : t' < bits)
    (h : pixelBit stride bits x y + t = pixelBit stride bits x' y' + t') : x = x' ∧ y = y' := by
  unfold pixelBit at h
  have hxw : (x + 1) * bits ≤ w * bits := Nat.mul_le_mul_right _ hx
  have hxw' : (x' + 1) * bits ≤ w * bits := Nat.mul_le_mul_right _ hx'
  rw [Nat.add_mul] at hxw hxw'
  have hy : y = y' := by
    rcases Nat.lt_trichotomy y y' with hlt | heq | hgt
    · have := Nat.mul_le_mul_right stride hlt
      rw [Nat.succ_mul] at this
      omega
    · exact heq
    · have := Nat.mul_le_mul_right stride hgt
      rw [Nat.succ_mul] at this
      omega
  subst hy
  refine ⟨?_, rfl⟩
  rcases Nat.lt_trichotomy x x' with hlt | heq | hgt
  · have := Nat.mul_le_mul_right bits hlt
    rw [Nat.succ_mul] at this
    omega
  · exact heq
  · have := Nat.mul_le_mul_right bits hgt
    rw [Nat.succ_mul] at this
    omega

/-- **whole image**: expanding all rows of a `w × h` image in order, from ANY initial image,
    puts every pixel of every row into the field of the destination pixel the specification assigns
    it to (`specSrc`), changes no bit outside the `w × h` pixel fields, and keeps the length. -/
theorem deinterlace_spec {bits : Nat} (hb : validBits bits) (w h stride : Nat) (img : Bytes)
    (data : Nat → Nat → Bytes) (hstride : w * bits ≤ stride * 8)
    (himg : ∀ x y, x < w → y < h → pixelBit stride bits x y + bits ≤ img.length * 8)
    (hdata : ∀ p l wd, (p, l, wd) ∈ specRows w h → wd * bits ≤ (data p l).length * 8) :
    ∃ img', deinterlace img stride bits (imageRows w h data) = some img' ∧ img'.length = img.length ∧
      (∀ x y t, x < w → y < h → t < bits →
        bitAt img' (pixelBit stride bits x y + t) =
          bitAt (data (specSrc x y).1 (specSrc x y).2.1) ((specSrc x y).2.2 * bits + t)) ∧
      (∀ k, (∀ x y, x < w → y < h → ¬ (pixelBit stride bits x y ≤ k ∧ k < pixelBit stride bits x y + bits)) →
        bitAt img' k = bitAt img k) := by
  have hframe := foldOpt_frame (fun (im : Bytes) (r : Adam7Info × Bytes) => expandPass im stride r.2 r.1 bits)
    List.length bitAt (fitsRow stride bits) (wrRow stride bits)
    (fun s a hf => expandPass_spec hb stride s a hf) (imageRows w h data) img
    (by
      intro a ha
      obtain ⟨⟨p, l, wd⟩, hr, rfl⟩ := List.mem_map.mp ha
      have hm := (mem_specRows w h p l wd).mp hr
      obtain ⟨hp, rfl, hwd, hl⟩ := hm
      refine ⟨hp, hdata p l _ hr, ?_⟩
      intro i hi
      exact himg _ _ ((passW_spec hp w i).mp hi) ((passH_spec hp h l).mp hl))
    (by
      unfold imageRows
      rw [List.pairwise_map]
      refine List.Pairwise.imp_of_mem ?_ (specRows_pairwise w h)
      rintro ⟨p, l, wd⟩ ⟨p', l', wd'⟩ hr hr' hne k v v' ⟨i, t, hi, ht, hk, _⟩ ⟨i', t', hi', ht', hk', _⟩
      obtain ⟨hp, rfl, _, hl⟩ := (mem_specRows w h p l wd).mp hr
      obtain ⟨hp', rfl, _, hl'⟩ := (mem_specRows w h p' l' wd').mp hr'
      simp only at hi hi' hk hk' hne
      have hx := (passW_spec hp w i).mp hi
      have hx' := (passW_spec hp' w i').mp hi'
      obtain ⟨ex, ey⟩ := pixelBit_inj hstride hx hx' ht ht' (hk.symm.trans hk')
      have e1 := cover_unique hp i l
      have e2 := cover_unique hp' i' l'
      rw [ex, ey, e2] at e1
      subst e1
      have := destY_inj hp ey
      omega)
  obtain ⟨img', h1, h2, h3, h4⟩ := hframe
  refine ⟨img', h1, h2, ?_, ?_⟩
  · intro x y t hx hy ht
    obtain ⟨hp1, hp7, hi, hl, hX, hY⟩ := cover_exists w h x y hx hy
    have hmem := row_of_pixel_mem w h x y hx hy
    apply h3 _ (List.mem_map.mpr ⟨_, hmem, rfl⟩)
    exact ⟨(specSrc x y).2.2, t, hi, ht, by simp only [hX, hY], rfl⟩
  · intro k hno
    apply h4
    intro a ha v ⟨i, t, hi, ht, hk, _⟩
    obtain ⟨⟨p, l, wd⟩, hr, rfl⟩ := List.mem_map.mp ha
    obtain ⟨hp, rfl, _, hl⟩ := (mem_specRows w h p l wd).mp hr
    simp only at hi hk
    exact hno _ _ ((passW_spec hp w i).mp hi) ((passH_spec hp h l).mp hl) (by omega)

/-- a simple sufficient size: `h - 1` full lines of `stride` bytes plus one packed line -/
theorem fits_of_length {bits w h stride n : Nat} (hlen : (h - 1) * stride * 8 + w * bits ≤ n * 8)
    (x y : Nat) (hx : x < w) (hy : y < h) : pixelBit stride bits x y + bits ≤ n * 8 := by
  unfold pixelBit
  have h1 : (x + 1) * bits ≤ w * bits := Nat.mul_le_mul_right _ hx
  have h2 : y * stride ≤ (h - 1) * stride := Nat.mul_le_mul_right _ (by omega)
  rw [Nat.add_mul] at h1
  omega

/-! ### 5g. Consequences: explicit row statement, independence of the previous contents -/

/-- `expandPass_spec` with the footprint spelled out -/
theorem expandPass_writes {bits : Nat} (hb : validBits bits) (stride : Nat) (img row : Bytes) (info : Adam7Info)
    (hp : 1 ≤ info.pass ∧ info.pass ≤ 7) (hrow : info.width * bits ≤ row.length * 8)
    (hin : ∀ i, i < info.width →
      pixelBit stride bits (destX info.pass i) (destY info.pass info.line) + bits ≤ img.length * 8) :
    ∃ img', expandPass img stride row info bits = some img' ∧ img'.length = img.length ∧
      (∀ i t, i < info.width → t < bits →
        bitAt img' (pixelBit stride bits (destX info.pass i) (destY info.pass info.line) + t) =
          bitAt row (i * bits + t)) ∧
      (∀ k, (∀ i, i < info.width →
          ¬ (pixelBit stride bits (destX info.pass i) (destY info.pass info.line) ≤ k ∧
             k < pixelBit stride bits (destX info.pass i) (destY info.pass info.line) + bits)) →
        bitAt img' k = bitAt img k) := by
  obtain ⟨img', h1, h2, h3, h4⟩ := expandPass_spec hb stride img (info, row) ⟨hp, hrow, hin⟩
  refine ⟨img', h1, h2, ?_, ?_⟩
  · intro i t hi ht
    exact h3 _ _ ⟨i, t, hi, ht, rfl, rfl⟩
  · intro k hno
    apply h4
    intro v ⟨i, t, hi, ht, hk, _⟩
    exact hno i hi (by simp only at hk; omega)

/-- bytes none of whose bits lies in a written field are unchanged -/
theorem bytes_unchanged (img img' : Bytes) (F : Nat → Prop)
    (h : ∀ k, ¬ F k → bitAt img' k = bitAt img k) (j : Nat) (hj : ∀ k, k / 8 = j → ¬ F k) :
    img'.getD j 0 = img.getD j 0 :=
  getD_eq_of_bitAt img' img j fun k hk => h k (hj k hk)

/-- two byte strings of the same length with the same bits are equal -/
theorem eq_of_bitAt (a b : Bytes) (hl : a.length = b.length) (h : ∀ k, k < a.length * 8 → bitAt a k = bitAt b k) :
    a = b := by
  apply List.ext_getElem hl
  intro j h1 h2
  have := getD_eq_of_bitAt a b j (fun k hk => h k (by omega))
  simpa [List.getD_eq_getElem?_getD, h1, h2] using this

/-- every bit of a packed image (`w * bits = stride * 8`, `h * stride` bytes) lies in a pixel field -/
theorem packed_cover {bits w h stride k : Nat} (hb : 0 < bits) (hpk : w * bits = stride * 8)
    (hk : k < h * stride * 8) :
    ∃ x y, x < w ∧ y < h ∧ pixelBit stride bits x y ≤ k ∧ k < pixelBit stride bits x y + bits := by
  have hS : 0 < stride * 8 := by
    rcases Nat.eq_zero_or_pos (stride * 8) with h0 | h0
    · rw [Nat.mul_assoc, h0] at hk; omega
    · exact h0
  refine ⟨k % (stride * 8) / bits, k / (stride * 8), ?_, ?_, ?_, ?_⟩
  · rw [Nat.div_lt_iff_lt_mul hb, hpk]
    exact Nat.mod_lt _ hS
  · rw [Nat.div_lt_iff_lt_mul hS, ← Nat.mul_assoc]
    exact hk
  · unfold pixelBit
    have h1 := Nat.div_add_mod k (stride * 8)
    have h2 := Nat.div_add_mod (k % (stride * 8)) bits
    rw [Nat.mul_comm] at h1 h2
    rw [Nat.mul_assoc]
    omega
  · unfold pixelBit
    have h1 := Nat.div_add_mod k (stride * 8)
    have h2 := Nat.div_add_mod (k % (stride * 8)) bits
    have h3 := Nat.mod_lt (k % (stride * 8)) hb
    rw [Nat.mul_comm] at h1 h2
    rw [Nat.mul_assoc]
    omega

theorem validBits_pos {bits : Nat} (hb : validBits bits) : 0 < bits := by
  rcases hb with rfl | rfl | rfl | ⟨h8, _⟩ <;> omega

/-- **independence of the previous contents**: de-interlacing the same rows into two destinations
    of the same size gives results that agree on every pixel field; for a packed destination
    (`w * bits = stride * 8`, exactly `h * stride` bytes) the two results are equal. -/
theorem deinterlace_indep {bits : Nat} (hb : validBits bits) (w h stride : Nat) (img1 img2 : Bytes)
    (data : Nat → Nat → Bytes) (hstride : w * bits ≤ stride * 8) (hlen : img1.length = img2.length)
    (himg : ∀ x y, x < w → y < h → pixelBit stride bits x y + bits ≤ img1.length * 8)
    (hdata : ∀ p l wd, (p, l, wd) ∈ specRows w h → wd * bits ≤ (data p l).length * 8) :
    ∃ r1 r2, deinterlace img1 stride bits (imageRows w h data) = some r1 ∧
      deinterlace img2 stride bits (imageRows w h data) = some r2 ∧ r1.length = r2.length ∧
      (∀ x y t, x < w → y < h → t < bits →
        bitAt r1 (pixelBit stride bits x y + t) = bitAt r2 (pixelBit stride bits x y + t)) ∧
      (w * bits = stride * 8 → img1.length = h * stride → r1 = r2) := by
  obtain ⟨r1, a1, a2, a3, a4⟩ := deinterlace_spec hb w h stride img1 data hstride himg hdata
  obtain ⟨r2, b1, b2, b3, b4⟩ := deinterlace_spec hb w h stride img2 data hstride (by rw [← hlen]; exact himg) hdata
  refine ⟨r1, r2, a1, b1, by omega, ?_, ?_⟩
  · intro x y t hx hy ht
    rw [a3 x y t hx hy ht, b3 x y t hx hy ht]
  · intro hpk hl
    apply eq_of_bitAt _ _ (by omega)
    intro k hk
    obtain ⟨x, y, hx, hy, h1, h2⟩ := packed_cover (validBits_pos hb) hpk (k := k) (h := h) (by rw [a2, hl] at hk; exact hk)
    have e : k = pixelBit stride bits x y + (k - pixelBit stride bits x y) := by omega
    rw [e, a3 x y _ hx hy (by omega), b3 x y _ hx hy (by omega)]

/-! ### 5h. The `|=` store of the pinned tree (defect D7) -/

/-- whole-byte pixels never reach the sub-byte store: both variants are the same function -/
theorem expandPassOr_eq_bytes (img : Bytes) (stride : Nat) (row : Bytes) (info : Adam7Info) (bits : Nat)
    (h8 : 8 ≤ bits) : expandPassOr img stride row info bits = expandPass img stride row info bits := by
  simp only [expandPassOr, expandPass, expandPassWith, if_neg (show ¬ bits < 8 by omega)]

/-- one row: a 0-pixel stored with `|=` into a destination holding 1 leaves the 1 -/
theorem expandPassOr_depends_on_old :
    expandPassOr [0xFF] 1 [0x00] ⟨1, 0, 1⟩ 1 = some [0xFF] ∧
    expandPassOr [0x00] 1 [0x00] ⟨1, 0, 1⟩ 1 = some [0x00] ∧
    expandPass [0xFF] 1 [0x00] ⟨1, 0, 1⟩ 1 = some [0x7F] := by decide

/-- whole image: an all-zero 2×2 1-bit image expanded with `|=` into `[0xFF, 0xFF]` stays `[0xFF, 0xFF]`
    (the four pixel fields keep their old contents), into `[0, 0]` it gives `[0, 0]`; the repaired
    store gives `0x3F` per line (only the padding keeps its old contents) -/
theorem deinterlaceOr_depends_on_old :
    deinterlaceWith orPx [0xFF, 0xFF] 1 1 (imageRows 2 2 fun _ _ => [0x00]) = some [0xFF, 0xFF] ∧
    deinterlaceWith orPx [0x00, 0x00] 1 1 (imageRows 2 2 fun _ _ => [0x00]) = some [0x00, 0x00] ∧
    deinterlace [0xFF, 0xFF] 1 1 (imageRows 2 2 fun _ _ => [0x00]) = some [0x3F, 0x3F] := by decide

/-- If a second step function agrees with the framed one on every state whose footprint locations
    all read `zero`, the two folds agree from any state whose footprints all read `zero`. -/
theorem foldOpt_eq_of_clean {S A L V : Type} (step step' : S → A → Option S) (size : S → Nat) (read : S → L → V)
    (fits : Nat → A → Prop) (wr : A → L → V → Prop) (zero : V)
    (hstep : ∀ s a, fits (size s) a → ∃ s', step' s a = some s' ∧ size s' = size s ∧
        (∀ l v, wr a l v → read s' l = v) ∧ (∀ l, (∀ v, ¬ wr a l v) → read s' l = read s l))
    (hagree : ∀ s a, fits (size s) a → (∀ l v, wr a l v → read s l = zero) → step s a = step' s a) :
    ∀ (as : List A) (s : S), (∀ a ∈ as, fits (size s) a) →
      as.Pairwise (fun a b => ∀ l v v', wr a l v → ¬ wr b l v') →
      (∀ a ∈ as, ∀ l v, wr a l v → read s l = zero) →
      foldOpt step s as = foldOpt step' s as := by
  intro as
  induction as with
  | nil => intro s _ _ _; rfl
  | cons a as ih =>
    intro s hfit hdis hclean
    rw [List.pairwise_cons] at hdis
    obtain ⟨s1, hs1, hsz1, _, hmiss1⟩ := hstep s a (hfit a List.mem_cons_self)
    have hag := hagree s a (hfit a List.mem_cons_self) (hclean a List.mem_cons_self)
    simp only [foldOpt, hag, hs1]
    apply ih s1 (fun b hb => by rw [hsz1]; exact hfit b (List.mem_cons_of_mem _ hb)) hdis.2
    intro b hb l v hw
    rw [hmiss1 l (fun v' hw' => hdis.1 b hb l v' v hw' hw)]
    exact hclean b (List.mem_cons_of_mem _ hb) l v hw

/-- a pixel value `< 2^b` shifted left by `r ≤ 8 - b` has its bits in the field `[r, r + b)` -/
theorem shl_testBit {b : Nat} {m : UInt8} (hbm : SubBits b m) (px : UInt8) (hpx : px.toNat < 2 ^ b)
    (r u : Nat) (hr : r + b ≤ 8) (hu : u < 8) :
    (px <<< r.toUInt8).toNat.testBit u = (decide (r ≤ u ∧ u < r + b) && px.toNat.testBit (u - r)) := by
  have key : shlOk b = true := by
    rcases hbm with ⟨rfl, rfl⟩ | ⟨rfl, rfl⟩ | ⟨rfl, rfl⟩
    · exact shlOk_all.1
    · exact shlOk_all.2.1
    · exact shlOk_all.2.2
  simp only [shlOk, List.all_eq_true, List.mem_range, beq_iff_eq] at key
  have := key px.toNat hpx r (by have := hbm.range; omega) u hu
  simpa using this

/-- on a field that holds zeros, `|=` and mask-then-or store the same byte -/
theorem orPx_eq_setPx {b : Nat} {m : UInt8} (hbm : SubBits b m) (old px : UInt8) (hpx : px.toNat < 2 ^ b)
    (r : Nat) (hr : r + b ≤ 8) (hz : ∀ u, r ≤ u → u < r + b → old.toNat.testBit u = false) :
    orPx m old px r.toUInt8 = setPx m old px r.toUInt8 := by
  apply byte_ext
  intro u hu
  rw [setPx_testBit hbm old px hpx r u hr hu]
  simp only [orPx, UInt8.toNat_or, Nat.testBit_or, shl_testBit hbm px hpx r u hr hu]
  by_cases hc : r ≤ u ∧ u < r + b
  · simp [hc, hz u hc.1 hc.2]
  · simp [hc]

theorem writeSub_or_eq {b : Nat} {m : UInt8} (hbm : SubBits b m) (img : Bytes) (a : Nat × UInt8)
    (hal : a.1 % b = 0) (hpx : a.2.toNat < 2 ^ b)
    (hz : ∀ k v, wrSub b a k v → bitAt img k = false) :
    writeSub orPx m b img a = writeSub setPx m b img a := by
  obtain ⟨pos, px⟩ := a
  simp only at hal hpx
  have hb := hbm.range
  have hin : pos % 8 + b ≤ 8 := by
    rcases hbm with ⟨rfl, rfl⟩ | ⟨rfl, rfl⟩ | ⟨rfl, rfl⟩ <;> omega
  simp only [writeSub]
  split
  · congr 2
    apply orPx_eq_setPx hbm _ _ hpx _ (by omega)
    intro u h1 h2
    have := hz (pos + (7 - u - pos % 8)) _ ⟨7 - u - pos % 8, by omega, rfl, rfl⟩
    unfold bitAt at this
    have e1 : (pos + (7 - u - pos % 8)) / 8 = pos / 8 := by omega
    have e2 : 7 - (pos + (7 - u - pos % 8)) % 8 = u := by omega
    rw [e1, e2] at this
    exact this
  · rfl

/-- the sub-byte branch of `expand_pass` as a fold over `(bit offset, pixel)` pairs, for any store -/
theorem expandPassWith_sub_unfold (store : UInt8 → UInt8 → UInt8 → UInt8 → UInt8) {b : Nat} {m : UInt8}
    (hbm : SubBits b m) (stride : Nat) (img row : Bytes) (info : Adam7Info)
    (hp : 1 ≤ info.pass ∧ info.pass ≤ 7) (hrow : info.width * b ≤ row.length * 8) :
    expandPassWith store img stride row info b =
      foldOpt (writeSub store m b) img ((List.range info.width).map fun i =>
        (pixelBit stride b (destX info.pass i) (destY info.pass info.line), subbytePixel row b m i)) := by
  have hb := hbm.range
  have hcount : info.width ≤ (row.length * 8 + b - 1) / b := by
    rw [Nat.le_div_iff_mul_le (by omega)]; omega
  simp only [expandPassWith]
  rw [if_neg (by simp only [Decidable.not_not]; exact hp), if_pos (by omega), subMask_some.mpr hbm]
  simp only [expandBits_eq, subbytePixels]
  rw [zip_map_range _ _ _ _ hcount]

/-- one row: on destination fields that hold zeros the `|=` store gives the repaired result -/
theorem expandPassOr_eq_of_zero {bits : Nat} (hb : validBits bits) (stride : Nat) (img : Bytes)
    (a : Adam7Info × Bytes) (hfit : fitsRow stride bits img.length a)
    (hz : ∀ k v, wrRow stride bits a k v → bitAt img k = false) :
    expandPassOr img stride a.2 a.1 bits = expandPass img stride a.2 a.1 bits := by
  by_cases h8 : 8 ≤ bits
  · exact expandPassOr_eq_bytes _ _ _ _ _ h8
  · have hbm : ∃ m, SubBits bits m := by
      rcases hb with rfl | rfl | rfl | ⟨h, _⟩
      · exact ⟨1, Or.inl ⟨rfl, rfl⟩⟩
      · exact ⟨3, Or.inr (Or.inl ⟨rfl, rfl⟩)⟩
      · exact ⟨15, Or.inr (Or.inr ⟨rfl, rfl⟩)⟩
      · omega
    obtain ⟨m, hbm⟩ := hbm
    obtain ⟨info, row⟩ := a
    obtain ⟨hp, hrow, hin⟩ := hfit
    simp only at hp hrow hin hz ⊢
    rw [expandPassOr, expandPass, expandPassWith_sub_unfold orPx hbm stride img row info hp hrow,
      expandPassWith_sub_unfold setPx hbm stride img row info hp hrow]
    apply foldOpt_eq_of_clean (writeSub orPx m bits) (writeSub setPx m bits) List.length bitAt
      (fun n (a : Nat × UInt8) => a.1 % bits = 0 ∧ a.2.toNat < 2 ^ bits ∧ a.1 + bits ≤ n * 8) (wrSub bits) false
      (fun s a h => writeSub_spec hbm s a h.1 h.2.1 h.2.2)
      (fun s a h hc => writeSub_or_eq hbm s a h.1 h.2.1 hc)
    · intro a ha
      obtain ⟨i, hi, rfl⟩ := List.mem_map.mp ha
      rw [List.mem_range] at hi
      refine ⟨?_, subbytePixel_lt hbm row i, hin i hi⟩
      simp only [pixelBit]
      rcases hbm with ⟨rfl, rfl⟩ | ⟨rfl, rfl⟩ | ⟨rfl, rfl⟩ <;> omega
    · rw [List.pairwise_map]
      refine List.Pairwise.imp ?_ List.pairwise_lt_range
      intro i j hij k v v' ⟨t, ht, hk, _⟩ ⟨t', ht', hk', _⟩
      have := pixelBit_sep hp stride bits (destY info.pass info.line) hij
      simp only at hk hk'
      omega
    · intro a ha k v ⟨t, ht, hk, _⟩
      obtain ⟨i, hi, rfl⟩ := List.mem_map.mp ha
      rw [List.mem_range] at hi
      exact hz k _ ⟨i, t, hi, ht, hk, rfl⟩

theorem imageRows_fits {bits : Nat} (w h stride n : Nat) (data : Nat → Nat → Bytes)
    (himg : ∀ x y, x < w → y < h → pixelBit stride bits x y + bits ≤ n * 8)
    (hdata : ∀ p l wd, (p, l, wd) ∈ specRows w h → wd * bits ≤ (data p l).length * 8) :
    ∀ a ∈ imageRows w h data, fitsRow stride bits n a := by
  intro a ha
  obtain ⟨⟨p, l, wd⟩, hr, rfl⟩ := List.mem_map.mp ha
  obtain ⟨hp, rfl, hwd, hl⟩ := (mem_specRows w h p l wd).mp hr
  refine ⟨hp, hdata p l _ hr, ?_⟩
  intro i hi
  exact himg _ _ ((passW_spec hp w i).mp hi) ((passH_spec hp h l).mp hl)

theorem imageRows_pairwise {bits : Nat} (w h stride : Nat) (data : Nat → Nat → Bytes)
    (hstride : w * bits ≤ stride * 8) :
    (imageRows w h data).Pairwise (fun a b => ∀ l v v', wrRow stride bits a l v → ¬ wrRow stride bits b l v') := by
  unfold imageRows
  rw [List.pairwise_map]
  refine List.Pairwise.imp_of_mem ?_ (specRows_pairwise w h)
  rintro ⟨p, l, wd⟩ ⟨p', l', wd'⟩ hr hr' hne k v v' ⟨i, t, hi, ht, hk, _⟩ ⟨i', t', hi', ht', hk', _⟩
  obtain ⟨hp, rfl, _, hl⟩ := (mem_specRows w h p l wd).mp hr
  obtain ⟨hp', rfl, _, hl'⟩ := (mem_specRows w h p' l' wd').mp hr'
  simp only at hi hi' hk hk' hne
  have hx := (passW_spec hp w i).mp hi
  have hx' := (passW_spec hp' w i').mp hi'
  obtain ⟨ex, ey⟩ := pixelBit_inj hstride hx hx' ht ht' (hk.symm.trans hk')
  have e1 := cover_unique hp i l
  have e2 := cover_unique hp' i' l'
  rw [ex, ey, e2] at e1
  subst e1
  have := destY_inj hp ey
  omega

/-- whole image, pinned tree: if every destination pixel field holds zeros (e.g. a zero-initialised
    buffer), or the pixels are whole bytes, the `|=` store computes the repaired result — so all
    statements about `deinterlace` carry over to the pinned tree on such destinations. -/
theorem deinterlaceOr_eq_of_zero {bits : Nat} (hb : validBits bits) (w h stride : Nat) (img : Bytes)
    (data : Nat → Nat → Bytes) (hstride : w * bits ≤ stride * 8)
    (himg : ∀ x y, x < w → y < h → pixelBit stride bits x y + bits ≤ img.length * 8)
    (hdata : ∀ p l wd, (p, l, wd) ∈ specRows w h → wd * bits ≤ (data p l).length * 8)
    (hz : 8 ≤ bits ∨ ∀ x y t, x < w → y < h → t < bits → bitAt img (pixelBit stride bits x y + t) = false) :
    deinterlaceWith orPx img stride bits (imageRows w h data) = deinterlace img stride bits (imageRows w h data) := by
  rcases hz with h8 | hz
  · simp only [deinterlace, deinterlaceWith, expandPassWith, if_neg (show ¬ bits < 8 by omega)]
  · apply foldOpt_eq_of_clean
      (fun (im : Bytes) (r : Adam7Info × Bytes) => expandPassOr im stride r.2 r.1 bits)
      (fun (im : Bytes) (r : Adam7Info × Bytes) => expandPass im stride r.2 r.1 bits)
      List.length bitAt (fitsRow stride bits) (wrRow stride bits) false
      (fun s a hf => expandPass_spec hb stride s a hf)
      (fun s a hf hc => expandPassOr_eq_of_zero hb stride s a hf hc)
      _ _ (imageRows_fits w h stride _ data himg hdata) (imageRows_pairwise w h stride data hstride)
    intro a ha k v ⟨i, t, hi, ht, hk, _⟩
    obtain ⟨⟨p, l, wd⟩, hr, rfl⟩ := List.mem_map.mp ha
    obtain ⟨hp, rfl, _, hl⟩ := (mem_specRows w h p l wd).mp hr
    simp only at hi hk
    rw [hk]
    exact hz _ _ t ((passW_spec hp w i).mp hi) ((passH_spec hp h l).mp hl) ht

/-- `8 - pos % 8 - bits_pp` (adam7.rs:222, :126) cannot underflow: every offset produced by
    `expand_adam7_bits` / `subbyte_pixels` is a multiple of `bits_pp ∈ {1, 2, 4}` -/
theorem rem_no_underflow {b : Nat} {m : UInt8} (hbm : SubBits b m) (stride : Nat) (info : Adam7Info) :
    (∀ pos ∈ expandBits stride info b, pos % 8 + b ≤ 8) ∧ (∀ k, (k * b) % 8 + b ≤ 8) := by
  constructor
  · intro pos hpos
    rw [expandBits_eq] at hpos
    obtain ⟨i, _, rfl⟩ := List.mem_map.mp hpos
    simp only [pixelBit]
    rcases hbm with ⟨rfl, rfl⟩ | ⟨rfl, rfl⟩ | ⟨rfl, rfl⟩ <;> omega
  · intro k
    rcases hbm with ⟨rfl, rfl⟩ | ⟨rfl, rfl⟩ | ⟨rfl, rfl⟩ <;> omega

end Png.Adam7
