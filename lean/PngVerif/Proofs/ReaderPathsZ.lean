import PngVerif.Proofs.FramingLogic
import PngVerif.Proofs.ReaderSeq
/-!
# Decoding paths, part 9: the end of a data-chunk sequence delivers no image data (C13)

In the framing model every piece of a data chunk hands out ALL output decodable so far
(`Dec.imagePiece`), so the flush at the end of the sequence (`flushData`) has nothing left to hand
out.  `ZInv`: what has been handed out (`zemitted`) covers the whole output of the inflater on the
bytes fed so far (`zin`).  It holds initially, is kept by every `update` call, and implies that an
`update` call reporting `ImageDataFlushed` leaves `out` as it was (`update_zinv`).
-/
namespace Png.Framing
open Png

/-- everything the inflater produces from the bytes fed so far has been handed out -/
def ZInv (cfg : Cfg) (d : Dec) : Prop :=
  d.zstarted = true → ∀ o b, cfg.inflate d.zin = some (o, b) → o.length ≤ d.zemitted

theorem ZInv.of_z {cfg : Cfg} {d d' : Dec} (h : ZInv cfg d) (h1 : d'.zin = d.zin) (h2 : d'.zstarted = d.zstarted)
    (h3 : d'.zemitted = d.zemitted) : ZInv cfg d' := by
  unfold ZInv at *; rw [h1, h2, h3]; exact h

theorem ZInv.of_not_started {cfg : Cfg} {d : Dec} (h : d.zstarted = false) : ZInv cfg d := by
  intro h1; rw [h] at h1; cases h1

/-- the events that carry no image data -/
def NoData (ev : Ev) : Prop := ev = .nothing ∨ ev = .imageDataFlushed

theorem flushData_zinv {cfg : Cfg} {d d' : Dec} (hz : ZInv cfg d) (h : flushData cfg d = .ok d') : d' = d := by
  rw [flushData_eq] at h
  split at h
  · cases h; rfl
  · rename_i hs
    have hs' : d.zstarted = true := by cases hd : d.zstarted <;> simp_all
    split at h
    · rename_i o hi
      cases h
      have := hz hs' o true hi
      have e : o.drop d.zemitted = [] := List.drop_eq_nil_of_le this
      rw [e, List.append_nil]
    · cases h
    · cases h

theorem parseU32_zinv {cfg : Cfg} {d d' : Dec} {kind : U32Kind} {b0 b1 b2 b3 : UInt8} {ev : Ev} (hz : ZInv cfg d)
    (h : parseU32 cfg d kind b0 b1 b2 b3 = .ok (ev, d')) : ZInv cfg d' ∧ (NoData ev → d'.out = d.out) := by
  cases kind with
  | sig1 => rw [parseU32_sig1] at h; split at h <;> cases h; exact ⟨hz.of_z rfl rfl rfl, fun _ => rfl⟩
  | sig2 => rw [parseU32_sig2] at h; split at h <;> cases h; exact ⟨hz.of_z rfl rfl rfl, fun _ => rfl⟩
  | length => rw [parseU32_length] at h; cases h; exact ⟨hz.of_z rfl rfl rfl, fun _ => rfl⟩
  | type len =>
    obtain ⟨_, hc⟩ := parseU32_type_cases h
    rcases hc with ⟨_, _, d1, hf, rfl⟩ | ⟨_, rfl, st, d1, ha, rfl⟩
    · have hz0 : ZInv cfg { d with curType := be32 b0 b1 b2 b3 } := hz.of_z rfl rfl rfl
      have := flushData_zinv hz0 hf
      subst this
      exact ⟨ZInv.of_not_started rfl, fun _ => rfl⟩
    · refine ⟨?_, fun hq => by rcases hq with hq | hq <;> cases hq⟩
      rcases afterType_cases ha with ⟨_, _, _, _, rfl⟩ | ⟨_, _, _, rfl⟩ | ⟨_, _, _, rfl⟩ <;> exact hz.of_z rfl rfl rfl
  | crc t =>
    rw [parseU32_crc] at h
    repeat' split at h
    all_goals first | (cases h; done) | (cases h; exact ⟨hz.of_z rfl rfl rfl, fun _ => rfl⟩)
  | seqNo =>
    rw [parseU32_seqNo] at h
    repeat' split at h
    all_goals first | (cases h; done) | (cases h; exact ⟨hz.of_z rfl rfl rfl, fun _ => rfl⟩)

theorem stepU32_zinv {cfg : Cfg} {d d' : Dec} {kind : U32Kind} {acc buf : Bytes} {n : Nat} {ev : Ev} (hz : ZInv cfg d)
    (h : stepU32 cfg d kind acc buf = .ok (n, ev, d')) : ZInv cfg d' ∧ (NoData ev → d'.out = d.out) := by
  unfold stepU32 at h
  split at h
  · obtain ⟨_, _, _, _, _, _, _, hp⟩ := parse4_ok h; exact parseU32_zinv hz hp
  · simp only at h
    split at h
    · cases h; exact ⟨hz.of_z rfl rfl rfl, fun _ => rfl⟩
    · obtain ⟨_, _, _, _, _, _, _, hp⟩ := parse4_ok h; exact parseU32_zinv hz hp

theorem stepRead_zinv {cfg : Cfg} {d d' : Dec} {t : ChunkType} {buf : Bytes} {n : Nat} {ev : Ev} (hz : ZInv cfg d)
    (h : stepRead d t buf = .ok (n, ev, d')) : ZInv cfg d' ∧ (NoData ev → d'.out = d.out) := by
  unfold stepRead at h
  split at h
  · cases h; exact ⟨hz.of_z rfl rfl rfl, fun _ => rfl⟩
  · simp only at h
    split at h
    · cases h; exact ⟨hz.of_z rfl rfl rfl, fun _ => rfl⟩
    · cases h; exact ⟨hz.of_z rfl rfl rfl, fun _ => rfl⟩

theorem stepImage_zinv {cfg : Cfg} {d d' : Dec} {t : ChunkType} {buf : Bytes} {n : Nat} {ev : Ev}
    (h : stepImage cfg d t buf = .ok (n, ev, d')) : ZInv cfg d' ∧ (NoData ev → d'.out = d.out) := by
  unfold stepImage at h
  simp only at h
  split at h
  · cases h
  · rename_i o fin hi
    cases h
    refine ⟨?_, fun hq => by rcases hq with hq | hq <;> cases hq⟩
    intro _ o2 b2 h2
    simp only [Dec.imagePiece] at h2 ⊢
    rw [hi] at h2
    cases h2
    exact Nat.le_max_right _ _

theorem stepParse_zinv {cfg : Cfg} {d d' : Dec} {t : ChunkType} {n : Nat} {ev : Ev} (hz : ZInv cfg d)
    (h : stepParse cfg d t = .ok (n, ev, d')) : ZInv cfg d' ∧ (NoData ev → d'.out = d.out) := by
  unfold stepParse at h
  split at h
  · cases hp : parseChunk cfg d t with
    | error e => rw [hp] at h; cases h
    | ok r =>
      rw [hp] at h; obtain ⟨ev1, d1⟩ := r
      simp only [Except.map] at h
      cases h
      have hout : d'.out = d.out := (parseChunk_frame hp).out
      refine ⟨?_, fun _ => hout⟩
      by_cases ht : t = fcTL
      · subst ht
        obtain ⟨fc, i, _, _, _, _, _, _, _, _, rfl, _⟩ := (parseFctl_ok_iff _ _ _).mp (parseChunk_fcTL hp)
        exact ZInv.of_not_started rfl
      · have hf := parseChunk_frameZ hp ht
        exact hz.of_z hf.zin hf.zstarted hf.zemitted
  · cases hp : reserveCurrentChunk d with
    | error e => rw [hp] at h; cases h
    | ok d1 =>
      rw [hp] at h
      simp only [Except.map] at h
      cases h
      obtain ⟨r, _, _, rfl, _⟩ := reserveCurrentChunk_shape hp
      exact ⟨hz.of_z rfl rfl rfl, fun _ => rfl⟩

/-- **one `next_state` call** keeps `ZInv`; a call that reports `Nothing` or `ImageDataFlushed` hands out
    no image data -/
theorem nextState_zinv {cfg : Cfg} {d d' : Dec} {st : St} {buf : Bytes} {n : Nat} {ev : Ev} (hz : ZInv cfg d)
    (h : nextState cfg d st buf = .ok (n, ev, d')) : ZInv cfg d' ∧ (NoData ev → d'.out = d.out) := by
  unfold nextState at h
  simp only at h
  have hz0 : ZInv cfg { d with state := none } := hz.of_z rfl rfl rfl
  cases st with
  | u32 kind acc => have r := stepU32_zinv (d := { d with state := none }) hz0 h; exact ⟨r.1, r.2⟩
  | parseChunkData t => have r := stepParse_zinv (d := { d with state := none }) hz0 h; exact ⟨r.1, r.2⟩
  | readChunkData t => have r := stepRead_zinv (d := { d with state := none }) hz0 h; exact ⟨r.1, r.2⟩
  | imageData t => have r := stepImage_zinv (d := { d with state := none }) h; exact ⟨r.1, r.2⟩

/-- **every `update` call keeps `ZInv`, and the end of a data-chunk sequence delivers no image data** -/
theorem update_zinv {cfg : Cfg} {d d' : Dec} {buf : Bytes} {res : Except Err (Nat × Ev)} (hz : ZInv cfg d)
    (hu : update cfg d buf = (d', res)) :
    ZInv cfg d' ∧ (∀ n, res = .ok (n, .imageDataFlushed) → d'.out = d.out) := by
  cases hs : d.state with
  | none =>
    have := (poisoned_refuses cfg d buf hs).2
    rw [hu] at this; simp only at this; subst this
    exact ⟨hz, fun _ _ => rfl⟩
  | some st0 =>
    have := update_inv cfg (fun x => ZInv cfg x ∧ x.out = d.out)
      (fun x st b n x' hx hst hn => by
        obtain ⟨h1, h2⟩ := nextState_zinv hx.1 hn
        exact ⟨h1, (h2 (Or.inl rfl)).trans hx.2⟩)
      d buf ⟨hz, rfl⟩ (by simp [hs])
    rw [hu] at this
    cases res with
    | ok r =>
      obtain ⟨m, ev⟩ := r
      rcases this with ⟨_, h⟩ | ⟨dk, st, b, n, hk, hst, hn⟩
      · exact ⟨h.1, fun _ _ => h.2⟩
      · obtain ⟨h1, h2⟩ := nextState_zinv hk.1 hn
        refine ⟨h1, fun n' hr => ?_⟩
        simp only [Except.ok.injEq, Prod.mk.injEq] at hr
        exact (h2 (Or.inr hr.2)).trans hk.2
    | error e =>
      obtain ⟨dk, hk, rfl⟩ := this
      exact ⟨hk.1.of_z rfl rfl rfl, fun _ h => by cases h⟩

end Png.Framing
