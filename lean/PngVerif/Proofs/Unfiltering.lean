import PngVerif.Model.Unfiltering
import PngVerif.Proofs.FilterImpl
/-!
# `UnfilteringBuffer` refines "reconstruct the inflated stream row by row" (component of C01)

* every operation preserves the invariants (`debug_assert_invariants`);
* every operation commutes with the abstraction `UB.abs` = (previous row, pending bytes);
* `run_refines` / `unfiltering_refines`: any interleaving of appends (any chunking of the stream),
  compactions and row extractions hands out exactly `specRows` of the concatenated stream, and
  never panics.
-/
namespace Png

/-! ### Invariants -/

theorem UB.inv_new : UB.new.Inv := by simp [UB.new, UB.Inv]

theorem UB.inv_extend (u : UB) (bs : Bytes) (h : u.Inv) : (u.extend bs).Inv := by
  simp [UB.extend, UB.Inv] at *; omega

theorem UB.inv_compact (u : UB) (h : u.Inv) : u.compact.Inv := by
  unfold UB.compact; split <;> simp [UB.Inv] at * <;> omega

theorem UB.inv_append (u : UB) (bs : Bytes) (h : u.Inv) : (u.append bs).Inv :=
  UB.inv_extend _ _ (UB.inv_compact u h)

theorem UB.inv_resetPrev (u : UB) (h : u.Inv) : u.resetPrev.Inv := by
  simp [UB.resetPrev, UB.Inv] at *; omega

/-- after compaction nothing precedes the previous row -/
theorem UB.compact_prevStart (u : UB) : u.compact.prevStart = 0 := by
  unfold UB.compact; split
  · rfl
  · omega

/-! ### Commutation with the abstraction -/

theorem UB.abs_new : UB.new.abs = ⟨[], []⟩ := by simp [UB.new, UB.abs, UB.prevRow]

theorem UB.abs_extend (u : UB) (bs : Bytes) (h : u.Inv) : (u.extend bs).abs = u.abs.append bs := by
  obtain ⟨h1, h2⟩ := h
  simp only [UB.abs, UB.extend, UB.prevRow, UBAbs.append]
  congr 1
  · rw [List.drop_append_of_le_length (by omega)]
    rw [List.take_append_of_le_length (by simp; omega)]
  · rw [List.drop_append_of_le_length h2]

theorem UB.abs_compact (u : UB) (h : u.Inv) : u.compact.abs = u.abs := by
  obtain ⟨h1, h2⟩ := h
  unfold UB.compact
  split
  · simp only [UB.abs, UB.prevRow, List.drop_drop, Nat.sub_zero]
    congr 2
    omega
  · rfl

theorem UB.abs_append (u : UB) (bs : Bytes) (h : u.Inv) : (u.append bs).abs = u.abs.append bs := by
  unfold UB.append
  rw [UB.abs_extend _ _ (UB.inv_compact u h), UB.abs_compact u h]

theorem UB.abs_resetPrev (u : UB) : u.resetPrev.abs = u.abs.resetPrev := by
  simp [UB.abs, UB.resetPrev, UB.prevRow, UBAbs.resetPrev]

theorem UB.abs_currLen (u : UB) : u.abs.currLen = u.currLen := by
  simp [UB.abs, UBAbs.currLen, UB.currLen]

theorem UB.abs_prev (u : UB) : u.abs.prev = u.prevRow := rfl

theorem drop_len_append (A B : Bytes) (n : Nat) (h : A.length = n) : (A ++ B).drop n = B := by
  subst h; simp
theorem take_len_append (A B : Bytes) (n : Nat) (h : A.length = n) : (A ++ B).take n = A := by
  subst h; simp

/-- shape of the state after a successful `unfilter_curr_row` -/
theorem UB.abs_unfilter_ok (u : UB) (rowlen : Nat) (out : Bytes) (h : u.Inv) (hr : 1 ≤ rowlen)
    (hc : rowlen ≤ u.currLen) (hout : out.length = rowlen - 1) :
    let u' : UB := ⟨u.data.take (u.curStart + 1) ++ out ++ u.data.drop (u.curStart + rowlen),
      u.curStart + 1, u.curStart + rowlen⟩
    u'.Inv ∧ u'.abs = ⟨out, u.abs.pending.drop rowlen⟩ := by
  obtain ⟨h1, h2⟩ := h
  simp only [UB.currLen] at hc
  have hA : (u.data.take (u.curStart + 1)).length = u.curStart + 1 := by simp; omega
  have hAo : (u.data.take (u.curStart + 1) ++ out).length = u.curStart + rowlen := by
    simp [hout]; omega
  have hsub : u.curStart + rowlen - (u.curStart + 1) = rowlen - 1 := by omega
  refine ⟨?_, ?_⟩
  · simp only [UB.Inv, List.length_append, List.length_take, List.length_drop, hout]; omega
  · simp only [UB.abs, UB.prevRow]
    congr 1
    · rw [List.append_assoc, drop_len_append _ _ _ hA, hsub, take_len_append _ _ _ hout]
    · rw [drop_len_append _ _ _ hAo, List.drop_drop]

/-- `unfilter_curr_row` commutes with the abstraction (all outcomes, including the error and the
    panics) -/
theorem UB.abs_unfilterCurr (u : UB) (rowlen bpp : Nat) (h : u.Inv) :
    (u.unfilterCurr rowlen bpp).map UB.abs = u.abs.unfilterCurr rowlen bpp := by
  have hinv := h
  obtain ⟨h1, h2⟩ := h
  unfold UB.unfilterCurr UBAbs.unfilterCurr
  have hlen : u.abs.pending.length = u.currLen := by simp [UB.abs, UB.currLen]
  have hhead : u.abs.pending.headD 0 = u.data.getD u.curStart 0 := by
    simp only [UB.abs]; exact headD_drop _ _
  have hrow : (u.abs.pending.drop 1).take (rowlen - 1) = (u.data.drop (u.curStart + 1)).take (rowlen - 1) := by
    simp [UB.abs, List.drop_drop]
  rw [hlen, hhead, hrow, UB.abs_prev]
  have n1 : ¬ u.data.length < u.curStart := by omega
  have n2 : ¬ u.curStart < u.prevStart := by omega
  simp only [n1, n2, if_false]
  split
  · rfl
  · rename_i hr
    split
    · rfl
    · split
      · rfl
      · split
        · rfl
        · rename_i ft _
          split
          · rfl
          · rename_i hc
            simp only [UnfOutcome.map, UnfOutcome.ok.injEq]
            have hol : (unfilterImpl ft bpp u.prevRow ((u.data.drop (u.curStart + 1)).take (rowlen - 1))).length
                = rowlen - 1 := by
              rw [unfilterImpl_length]; simp [UB.currLen] at hc ⊢; omega
            exact (UB.abs_unfilter_ok u rowlen _ hinv (by omega) (by omega) hol).2

theorem UB.inv_unfilterCurr (u u' : UB) (rowlen bpp : Nat) (h : u.Inv)
    (hok : u.unfilterCurr rowlen bpp = .ok u') : u'.Inv := by
  unfold UB.unfilterCurr at hok
  by_cases c1 : rowlen < 2
  · simp only [c1, if_true] at hok; cases hok
  by_cases c2 : u.data.length < u.curStart
  · simp only [c1, c2, if_true, if_false] at hok; cases hok
  by_cases c3 : u.curStart < u.prevStart
  · simp only [c1, c2, c3, if_true, if_false] at hok; cases hok
  by_cases c4 : ¬ (u.prevRow.isEmpty ∨ u.prevRow.length = rowlen - 1)
  · simp only [c1, c2, c3, c4, if_false] at hok; cases hok
  by_cases c5 : u.currLen = 0
  · simp only [c1, c2, c3, c4, c5, if_true, if_false] at hok; cases hok
  simp only [c1, c2, c3, c4, c5, if_false] at hok
  cases hft : FilterType.ofNat? (u.data.getD u.curStart 0).toNat with
  | none => rw [hft] at hok; cases hok
  | some ft =>
    rw [hft] at hok
    by_cases c6 : u.currLen < rowlen
    · simp only [c6, if_true] at hok; cases hok
    · simp only [c6, if_false] at hok
      injection hok with hok
      subst hok
      have hol : (unfilterImpl ft bpp u.prevRow ((u.data.drop (u.curStart + 1)).take (rowlen - 1))).length
          = rowlen - 1 := by
        rw [unfilterImpl_length]; simp [UB.currLen] at c6 ⊢; omega
      exact (UB.abs_unfilter_ok u rowlen _ h (by omega) (by omega) hol).1

/-! ### Specification rows: fuel irrelevance and unfolding -/

theorem specRowsAux_fuel (bpp rowlen : Nat) : ∀ (f f' : Nat) (prev stream : Bytes),
    stream.length ≤ f → stream.length ≤ f' →
    specRowsAux bpp rowlen f prev stream = specRowsAux bpp rowlen f' prev stream := by
  intro f
  induction f with
  | zero =>
    intro f' prev stream h _
    have : stream = [] := by simpa using h
    subst this
    cases f' with
    | zero => rfl
    | succ f' =>
      simp only [specRowsAux, List.length_nil]
      have : rowlen = 0 ∨ 0 < rowlen := by omega
      simp [this]
  | succ f ih =>
    intro f' prev stream h h'
    cases f' with
    | zero =>
      have : stream = [] := by simpa using h'
      subst this
      simp only [specRowsAux, List.length_nil]
      have : rowlen = 0 ∨ 0 < rowlen := by omega
      simp [this]
    | succ f' =>
      simp only [specRowsAux]
      split
      · rfl
      · rename_i hc
        split
        · rfl
        · congr 1
          apply ih <;> simp <;> omega

theorem specRowsAux_eq (bpp rowlen : Nat) (f : Nat) (prev stream : Bytes) (hf : stream.length ≤ f) :
    specRowsAux bpp rowlen f prev stream =
      if rowlen = 0 ∨ stream.length < rowlen then [] else
      match FilterType.ofNat? (stream.headD 0).toNat with
      | none => []
      | some ft =>
        let r := reconRow ft bpp prev ((stream.drop 1).take (rowlen - 1))
        r :: specRowsAux bpp rowlen (stream.drop rowlen).length r (stream.drop rowlen) := by
  cases f with
  | zero =>
    have : stream = [] := by simpa using hf
    subst this
    have : rowlen = 0 ∨ 0 < rowlen := by omega
    simp [specRowsAux, this]
  | succ f =>
    simp only [specRowsAux]
    by_cases hc : rowlen = 0 ∨ stream.length < rowlen
    · simp only [hc, if_true]
    · simp only [hc, if_false]
      cases hft : FilterType.ofNat? (stream.headD 0).toNat with
      | none => rfl
      | some ft =>
        simp only []
        congr 1
        apply specRowsAux_fuel <;> simp <;> omega

/-- unfolding equation of `specRowsFrom` -/
theorem specRowsFrom_eq (bpp rowlen : Nat) (prev stream : Bytes) :
    specRowsFrom bpp rowlen prev stream =
      if rowlen = 0 ∨ stream.length < rowlen then [] else
      match FilterType.ofNat? (stream.headD 0).toNat with
      | none => []
      | some ft =>
        let r := reconRow ft bpp prev ((stream.drop 1).take (rowlen - 1))
        r :: specRowsFrom bpp rowlen r (stream.drop rowlen) :=
  specRowsAux_eq bpp rowlen _ prev stream (Nat.le_refl _)

theorem specRowsFrom_short (bpp rowlen : Nat) (prev stream : Bytes) (h : stream.length < rowlen) :
    specRowsFrom bpp rowlen prev stream = [] := by
  rw [specRowsFrom_eq]; simp [h]

/-! ### Runs -/

/-- what a run maintains: buffer invariants, a usable previous row, and — for every possible
    continuation `s` of the stream — rows handed out so far followed by the rows still to come
    equal the specification's rows of everything fed (`F`) followed by `s` -/
structure UB.Good (bpp rowlen : Nat) (P0 : Bytes) (F : Bytes) (st : UB × List Bytes) : Prop where
  inv : st.1.Inv
  prevOk : st.1.abs.prev = [] ∨ st.1.abs.prev.length = rowlen - 1
  rows : ∀ s, st.2 ++ specRowsFrom bpp rowlen st.1.abs.prev (st.1.abs.pending ++ s)
            = specRowsFrom bpp rowlen P0 (F ++ s)

theorem UB.good_step (bpp rowlen : Nat) (hb : 0 < bpp) (hr : 2 ≤ rowlen) (hdvd : bpp ∣ rowlen - 1)
    (P0 F : Bytes) (st : UB × List Bytes) (op : UBOp) (g : UB.Good bpp rowlen P0 F st) :
    ∃ st', UB.runOp rowlen bpp st op = some st' ∧ UB.Good bpp rowlen P0 (F ++ op.fed) st' := by
  obtain ⟨hinv, hprev, hrows⟩ := g
  cases op with
  | append bs =>
    refine ⟨_, rfl, UB.inv_append _ _ hinv, ?_, ?_⟩
    · show (st.1.append bs).abs.prev = [] ∨ (st.1.append bs).abs.prev.length = rowlen - 1
      rw [UB.abs_append _ _ hinv]; exact hprev
    · intro s
      simp only [UBOp.fed]
      rw [UB.abs_append _ _ hinv]
      simp only [UBAbs.append, List.append_assoc]
      exact hrows (bs ++ s)
  | compact =>
    refine ⟨_, rfl, UB.inv_compact _ hinv, ?_, ?_⟩
    · show st.1.compact.abs.prev = [] ∨ st.1.compact.abs.prev.length = rowlen - 1
      rw [UB.abs_compact _ hinv]; exact hprev
    · intro s
      simp only [UBOp.fed, List.append_nil]
      rw [UB.abs_compact _ hinv]
      exact hrows s
  | unfilter =>
    simp only [UB.runOp, UBOp.fed, List.append_nil]
    split
    · exact ⟨st, rfl, hinv, hprev, hrows⟩
    · rename_i hc
      have hcomm := UB.abs_unfilterCurr st.1 rowlen bpp hinv
      have hplen : st.1.abs.pending.length = st.1.currLen := by simp [UB.abs, UB.currLen]
      -- evaluate the abstract operation
      have habs : st.1.abs.unfilterCurr rowlen bpp =
          match FilterType.ofNat? (st.1.abs.pending.headD 0).toNat with
          | none => .unknownFilter (st.1.abs.pending.headD 0)
          | some ft => .ok ⟨unfilterImpl ft bpp st.1.abs.prev ((st.1.abs.pending.drop 1).take (rowlen - 1)),
              st.1.abs.pending.drop rowlen⟩ := by
        unfold UBAbs.unfilterCurr
        have c1 : ¬ rowlen < 2 := by omega
        have c2 : ¬¬ (st.1.abs.prev.isEmpty ∨ st.1.abs.prev.length = rowlen - 1) := by
          rcases hprev with h | h
          · simp [h]
          · simp [h]
        have c3 : ¬ st.1.abs.pending.length = 0 := by omega
        have c4 : ¬ st.1.abs.pending.length < rowlen := by omega
        simp only [c1, c2, c3, c4, if_false]
        rfl
      cases hft : FilterType.ofNat? (st.1.abs.pending.headD 0).toNat with
      | none =>
        rw [hft] at habs
        simp only [] at habs
        rw [habs] at hcomm
        cases hu : st.1.unfilterCurr rowlen bpp with
        | ok u' => rw [hu] at hcomm; simp [UnfOutcome.map] at hcomm
        | panic => rw [hu] at hcomm; simp [UnfOutcome.map] at hcomm
        | unknownFilter b => exact ⟨st, rfl, hinv, hprev, hrows⟩
      | some ft =>
        rw [hft] at habs
        simp only [] at habs
        rw [habs] at hcomm
        cases hu : st.1.unfilterCurr rowlen bpp with
        | unknownFilter b => rw [hu] at hcomm; simp [UnfOutcome.map] at hcomm
        | panic => rw [hu] at hcomm; simp [UnfOutcome.map] at hcomm
        | ok u' =>
          rw [hu] at hcomm
          simp only [UnfOutcome.map, UnfOutcome.ok.injEq] at hcomm
          have hrowlen : ((st.1.abs.pending.drop 1).take (rowlen - 1)).length = rowlen - 1 := by
            simp; omega
          have hspec : unfilterImpl ft bpp st.1.abs.prev ((st.1.abs.pending.drop 1).take (rowlen - 1))
              = reconRow ft bpp st.1.abs.prev ((st.1.abs.pending.drop 1).take (rowlen - 1)) := by
            apply unfilterImpl_eq_spec ft bpp hb
            · rw [hrowlen]; exact hdvd
            · rw [hrowlen]; exact hprev
          have hpr : u'.prevRow = reconRow ft bpp st.1.abs.prev ((st.1.abs.pending.drop 1).take (rowlen - 1)) := by
            rw [← UB.abs_prev, hcomm, hspec]
          refine ⟨_, rfl, UB.inv_unfilterCurr _ _ _ _ hinv hu, ?_, ?_⟩
          · right
            show u'.prevRow.length = rowlen - 1
            rw [hpr]; unfold reconRow; rw [recon_length, hrowlen]
          · intro s
            rw [← hrows s]
            show (st.2 ++ [u'.prevRow]) ++ specRowsFrom bpp rowlen u'.abs.prev (u'.abs.pending ++ s) = _
            rw [specRowsFrom_eq bpp rowlen st.1.abs.prev (st.1.abs.pending ++ s)]
            have c5 : ¬ (rowlen = 0 ∨ (st.1.abs.pending ++ s).length < rowlen) := by
              simp only [List.length_append]; omega
            have hh : (st.1.abs.pending ++ s).headD 0 = st.1.abs.pending.headD 0 := by
              cases hp : st.1.abs.pending with
              | nil => rw [hp] at hplen; simp at hplen; omega
              | cons a as => rfl
            have hd1 : ((st.1.abs.pending ++ s).drop 1).take (rowlen - 1)
                = (st.1.abs.pending.drop 1).take (rowlen - 1) := by
              rw [List.drop_append_of_le_length (by omega), List.take_append_of_le_length (by simp; omega)]
            have hd2 : (st.1.abs.pending ++ s).drop rowlen = st.1.abs.pending.drop rowlen ++ s := by
              rw [List.drop_append_of_le_length (by omega)]
            simp only [c5, if_false, hh, hft, hd1, hd2]
            rw [hcomm]
            simp only [hspec, hpr, List.append_assoc, List.singleton_append]

theorem UB.good_run (bpp rowlen : Nat) (hb : 0 < bpp) (hr : 2 ≤ rowlen) (hdvd : bpp ∣ rowlen - 1)
    (P0 : Bytes) : ∀ (ops : List UBOp) (F : Bytes) (st : UB × List Bytes),
    UB.Good bpp rowlen P0 F st →
    ∃ st', UB.run rowlen bpp ops st = some st' ∧ UB.Good bpp rowlen P0 (F ++ UBOp.fedAll ops) st' := by
  intro ops
  induction ops with
  | nil => intro F st g; exact ⟨st, rfl, by simpa [UBOp.fedAll] using g⟩
  | cons op ops ih =>
    intro F st g
    obtain ⟨st1, h1, g1⟩ := UB.good_step bpp rowlen hb hr hdvd P0 F st op g
    obtain ⟨st2, h2, g2⟩ := ih _ st1 g1
    refine ⟨st2, ?_, ?_⟩
    · simp only [UB.run, h1]; exact h2
    · simpa [UBOp.fedAll, List.append_assoc] using g2

/-- **General refinement** from any invariant-satisfying buffer `u0` whose previous row is absent
    or has the row length (e.g. the state at the start of an Adam7 pass after `reset_prev_row`):
    no operation sequence panics, and the rows handed out, followed by the rows the specification
    still finds in what is left in the buffer, are the specification's rows of (what was pending in
    `u0`) ++ (everything fed). -/
theorem UB.run_refines (bpp rowlen : Nat) (hb : 0 < bpp) (hr : 2 ≤ rowlen) (hdvd : bpp ∣ rowlen - 1)
    (u0 : UB) (h0 : u0.Inv) (hp0 : u0.prevRow = [] ∨ u0.prevRow.length = rowlen - 1)
    (ops : List UBOp) :
    ∃ u rows, UB.run rowlen bpp ops (u0, []) = some (u, rows) ∧ u.Inv ∧
      (u.prevRow = [] ∨ u.prevRow.length = rowlen - 1) ∧
      rows ++ specRowsFrom bpp rowlen u.abs.prev u.abs.pending
        = specRowsFrom bpp rowlen u0.abs.prev (u0.abs.pending ++ UBOp.fedAll ops) := by
  have g0 : UB.Good bpp rowlen u0.abs.prev u0.abs.pending (u0, []) :=
    ⟨h0, hp0, fun s => by simp⟩
  obtain ⟨⟨u, rows⟩, hrun, g⟩ := UB.good_run bpp rowlen hb hr hdvd _ ops _ _ g0
  refine ⟨u, rows, hrun, g.inv, g.prevOk, ?_⟩
  have := g.rows []
  simpa using this

/-- **`unfiltering_refines`** (component of C01).  Start from a fresh buffer with `reset_prev_row`
    (first row of the image / pass).  For ANY sequence of `append`s (any chunking of the inflated
    stream, including empty deliveries), compactions and row extractions:
    * no panic;
    * the rows handed out are a prefix of `specRows` of the concatenated stream — precisely, rows
      handed out ++ rows still extractable from the buffer = `specRows`;
    * if fewer than `rowlen` bytes are left in the buffer (every available row was extracted), or
      the next row has an unknown filter byte, the rows handed out are exactly `specRows`. -/
theorem unfiltering_refines (bpp rowlen : Nat) (hb : 0 < bpp) (hr : 2 ≤ rowlen)
    (hdvd : bpp ∣ rowlen - 1) (ops : List UBOp) :
    ∃ u rows, UB.run rowlen bpp ops (UB.new.resetPrev, []) = some (u, rows) ∧
      rows ++ specRowsFrom bpp rowlen u.abs.prev u.abs.pending = specRows bpp rowlen (UBOp.fedAll ops) ∧
      (u.currLen < rowlen → rows = specRows bpp rowlen (UBOp.fedAll ops)) := by
  obtain ⟨u, rows, hrun, _, _, hrows⟩ := UB.run_refines bpp rowlen hb hr hdvd UB.new.resetPrev
    (UB.inv_resetPrev _ UB.inv_new) (Or.inl (by simp [UB.new, UB.resetPrev, UB.prevRow])) ops
  have e : UB.new.resetPrev.abs = ⟨[], []⟩ := by simp [UB.new, UB.resetPrev, UB.abs, UB.prevRow]
  rw [e] at hrows
  simp only [List.nil_append] at hrows
  refine ⟨u, rows, hrun, hrows, ?_⟩
  intro hshort
  have : specRowsFrom bpp rowlen u.abs.prev u.abs.pending = [] :=
    specRowsFrom_short _ _ _ _ (by simpa [UB.abs, UB.currLen] using hshort)
  rw [this, List.append_nil] at hrows
  exact hrows

end Png
