import PngVerif.Proofs.TransformContract
import PngVerif.Model.DataPath
/-!
# The frame parameters of the data-path model, discharged for the `Reader` model's own quantities

`Model/DataPath.lean` takes a (sub)frame as three numbers `⟨rowlen, outLine, bpp⟩` and its discipline assumes
`2 ≤ pass row ≤ rowlen`; the heap bound in terms of the limit assumes `rowlen ≤ a·outLine + 1`.  Here these
are proved for what `Model/Reader.lean` computes (`Sub.new`: `rawRowLengthFromWidth`; `readUntilImageData`
charges `outLineSize t i flags width`) with the actual transformation `Driver.realT`:

* `rawRow_mono`: `raw_row_length_from_width` is monotone in the width (a pass is never wider than its frame);
* `rawRow_ge_two`: a legal pixel type and a width ≥ 1 give a row of at least 2 bytes;
* `rawRow_le_outLine`: `rowlen ≤ 2·outLine + 1` for every legal pixel type, every transformation set, `tRNS` or
  not — and `rowlen ≤ outLine + 1` unless 16-bit samples are stripped to 8 (`STRIP_16` on depth 16).
-/
namespace Png.Driver
open Png Png.Framing Png.Reader

/-- `raw_row_length_from_width` is monotone in the width, for the five legal bit depths -/
theorem rawRow_mono (c d w w' : Nat) (hd : d = 1 ∨ d = 2 ∨ d = 4 ∨ d = 8 ∨ d = 16) (h : w ≤ w') :
    rawRowLengthFromWidth c d w ≤ rawRowLengthFromWidth c d w' := by
  have hm : w * samplesOf c ≤ w' * samplesOf c := Nat.mul_le_mul_right _ h
  unfold rawRowLengthFromWidth
  generalize w * samplesOf c = a at hm
  generalize w' * samplesOf c = b at hm
  rcases hd with rfl | rfl | rfl | rfl | rfl <;> simp <;> (try split) <;> (try split) <;> omega

/-- a legal pixel type and a width of at least one pixel: filter byte plus at least one data byte -/
theorem rawRow_ge_two (c d w : Nat) (hl : (c, d) ∈ legalPairs) (hw : 1 ≤ w) :
    2 ≤ rawRowLengthFromWidth c d w := by
  simp only [legalPairs, List.mem_cons, Prod.mk.injEq, List.mem_nil_iff, or_false] at hl
  rcases hl with ⟨rfl, rfl⟩ | ⟨rfl, rfl⟩ | ⟨rfl, rfl⟩ | ⟨rfl, rfl⟩ | ⟨rfl, rfl⟩ | ⟨rfl, rfl⟩ | ⟨rfl, rfl⟩ | ⟨rfl, rfl⟩ |
    ⟨rfl, rfl⟩ | ⟨rfl, rfl⟩ | ⟨rfl, rfl⟩ | ⟨rfl, rfl⟩ | ⟨rfl, rfl⟩ | ⟨rfl, rfl⟩ | ⟨rfl, rfl⟩ <;>
    simp [rawRowLengthFromWidth, samplesOf] <;> (try split) <;> omega

/-- closed form: for every legal input type and every flag combination the output type exists and the raw
    row is at most twice the output line (plus the filter byte); without stripping 16-bit samples it is at
    most the output line (plus the filter byte) -/
theorem outCD_rowlen (ct : Transform.ColorType) (bd : Transform.BitDepth) (e s a tr : Bool) :
    Transform.legal ct bd = true → ∃ c d, outCD ct bd e s a tr = .ok (c, d) ∧ ∀ w,
      Transform.rawRowLengthFromWidth ct bd w ≤ 2 * (Transform.rawRowLengthFromWidth c d w - 1) + 1 ∧
      ((bd ≠ .sixteen ∨ s = false) →
        Transform.rawRowLengthFromWidth ct bd w ≤ (Transform.rawRowLengthFromWidth c d w - 1) + 1) := by
  cases ct <;> cases bd <;> cases e <;> cases s <;> cases a <;> cases tr <;>
    first
    | exact fun h => absurd h (by decide)
    | (intro _
       refine ⟨_, _, rfl, fun w => ?_⟩
       simp [Transform.rawRowLengthFromWidth, Transform.ColorType.samples, Transform.BitDepth.toNat]
       (try split) <;> omega)

/-- **the raw row against the charged output line, for the actual transformation**: for an `Info` that
    passed the IHDR validation, any flags and any width, `rowlen ≤ 2·outLine + 1`; and `rowlen ≤ outLine + 1`
    unless the input is 16-bit and `STRIP_16` is set -/
theorem rawRow_le_outLine (i : Info) (f : Flags) (w : Nat) (hl : InfoLegal i) :
    rawRowLengthFromWidth i.color i.depth w ≤ 2 * outLineSize realT i f w + 1 ∧
    ((i.depth ≠ 16 ∨ f.strip16 = false) → rawRowLengthFromWidth i.color i.depth w ≤ outLineSize realT i f w + 1) := by
  obtain ⟨ct, bd, hc, hd, hleg, hti⟩ := tInfo_of_infoLegal hl
  obtain ⟨c, d, hcd, hrow⟩ := outCD_rowlen ct bd (tFlags f).expand (tFlags f).strip16 (tFlags f).alpha i.trns.isSome hleg
  have hoc : Transform.outputColorType { colorType := ct, bitDepth := bd, palette := i.palette, trns := i.trns } (tFlags f)
      = .ok (c, d) := by rw [outputColorType_outCD]; exact hcd
  have hol : outLineSize realT i f w = Transform.rawRowLengthFromWidth c d w - 1 := by
    have := realT_outLineSize hti f w
    simp only [Transform.outputLineSize, hoc, Except.ok.injEq] at this
    exact this.symm
  have hraw : rawRowLengthFromWidth i.color i.depth w = Transform.rawRowLengthFromWidth ct bd w := by
    rw [← hc, ← hd]; exact rowlen_bridge ct bd w
  obtain ⟨h1, h2⟩ := hrow w
  rw [hraw, hol]
  refine ⟨h1, fun h => h2 ?_⟩
  rcases h with h | h
  · left; intro hb; apply h; rw [← hd, hb]; rfl
  · right; exact h

/-- **the frame the `Reader` model installs obeys the data-path model's assumptions**: with
    `fr = ⟨Sub.new(i).rowlen, output line charged by readUntilImageData, bpp⟩` for a validated `Info` whose
    (sub)frame is at least one pixel wide: `2 ≤ fr.rowlen ≤ 2·fr.outLine + 1`, every pass of width
    `1 ≤ w' ≤ width` has `2 ≤ r ≤ fr.rowlen`, and without `STRIP_16` of 16-bit data `fr.rowlen ≤ fr.outLine + 1` -/
theorem readerFrame_ok (i : Info) (f : Flags) (bpp : Nat) (hl : InfoLegal i) (hw : 1 ≤ (Sub.dims i).1) :
    let fr : DPFrame := ⟨(Sub.new i).rowlen, outLineSize realT i f (Sub.new i).width, bpp⟩
    2 ≤ fr.rowlen ∧ fr.rowlen ≤ 2 * fr.outLine + 1 ∧
    ((i.depth ≠ 16 ∨ f.strip16 = false) → fr.rowlen ≤ fr.outLine + 1) ∧
    ∀ w', 1 ≤ w' → w' ≤ (Sub.dims i).1 →
      2 ≤ rawRowLengthFromWidth i.color i.depth w' ∧ rawRowLengthFromWidth i.color i.depth w' ≤ fr.rowlen := by
  have hrl : (Sub.new i).rowlen = rawRowLengthFromWidth i.color i.depth (Sub.dims i).1 := by
    simp only [Sub.new, Sub.advance]; split <;> rfl
  have hwd : (Sub.new i).width = (Sub.dims i).1 := by
    simp only [Sub.new, Sub.advance]; split <;> rfl
  have hdep : i.depth = 1 ∨ i.depth = 2 ∨ i.depth = 4 ∨ i.depth = 8 ∨ i.depth = 16 := by
    have h := hl.pair
    simp only [legalPairs, List.mem_cons, Prod.mk.injEq, List.mem_nil_iff, or_false] at h
    omega
  obtain ⟨h1, h2⟩ := rawRow_le_outLine i f (Sub.dims i).1 hl
  dsimp only
  rw [hrl, hwd]
  exact ⟨rawRow_ge_two _ _ _ hl.pair hw, h1, h2,
    fun w' h1' h2' => ⟨rawRow_ge_two _ _ _ hl.pair h1', rawRow_mono _ _ _ _ hdep h2'⟩⟩

/-- **an Adam7 pass row obeys `newPass`'s requirement**: the width the pass iterator reports for pass `p` of a
    frame `width` pixels wide is `passW width p` (and non-zero: `CurOk` of `Proofs/ReaderInv.lean`, part of the
    `Reader` model's invariant `Inv`); its raw row is at least 2 bytes and at most the frame's row -/
theorem adam7_pass_row_ok (c d width p : Nat) (hl : (c, d) ∈ legalPairs) (hp : 1 ≤ p ∧ p ≤ 7)
    (hw : 1 ≤ Adam7.passW width p) :
    2 ≤ rawRowLengthFromWidth c d (Adam7.passW width p) ∧
    rawRowLengthFromWidth c d (Adam7.passW width p) ≤ rawRowLengthFromWidth c d width := by
  have hle : Adam7.passW width p ≤ width := Adam7.dim_le _ _ _ (Adam7.step_pos hp).1
  have hdep : d = 1 ∨ d = 2 ∨ d = 4 ∨ d = 8 ∨ d = 16 := by
    simp only [legalPairs, List.mem_cons, Prod.mk.injEq, List.mem_nil_iff, or_false] at hl
    omega
  exact ⟨rawRow_ge_two _ _ _ hl hw, rawRow_mono _ _ _ _ hdep hle⟩

end Png.Driver
