/-!
# Tactic used by the Tie-A kernel theorems (`Props/Kernels*.lean`)

`kernel_arith` turns Boolean connectives into propositions, splits every `if` of the goal and closes each branch with linear
integer arithmetic.  It does not depend on the shape of the generated terms beyond "`if`s over linear arithmetic", so a
harmless rewrite of the Rust source (renamed variable, reordered `let`s, an `if` expression instead of an `if` statement)
keeps the proofs; a change of meaning does not.
-/
namespace Png.Kernels

macro "kernel_arith" : tactic =>
  `(tactic| (simp only [decide_eq_true_eq, Bool.and_eq_true, Bool.or_eq_true, Bool.not_eq_true', decide_eq_false_iff_not, beq_iff_eq] at *
             repeat' split
             all_goals (first | omega | (simp at * <;> omega))))

end Png.Kernels
