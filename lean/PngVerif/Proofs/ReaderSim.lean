import PngVerif.Proofs.ReaderResume
/-!
# Readers that differ only in the physical layout of the unfiltering buffer (`Sim`), and readers that are
  ahead by some `decode_image_data` calls (`BehindN`)

Two runs of the same calls can compact the unfiltering buffer at different moments (a `decode_next`
call that got more input at once appends more at once).  `Sim r r'`: all fields equal except `ub`,
and — while a row is still to be delivered — the two buffers hold the same previous row and the same
pending bytes (`UB.abs`).  `BehindN cfg n X B`: `B` is `X` after `n` more `decode_image_data` calls
(`Pull`), up to `Sim`.

* the generic `decode_next` loop `gloop` (`Proofs/ReaderResume.lean`) from `Sim`-related readers
  (`gloop_resp`), from a reader that is behind (`gloop_behind`), and on a shorter against a longer
  visible prefix (`gloop_vis`) — for loop bodies satisfying `Body.Resp` / `Body.Pulls` / `Body.Vis`;
* the loops of `ReadDecoder` / `Reader` as instances.

The calls of the model are lifted in `Proofs/ReaderLag.lean` (`step_lag`, `step_sim`, `run_sim`).
-/
namespace Png.Reader
open Png Png.Framing

/-! ## Buffers with the same abstract contents -/

/-- the same buffer, or both satisfy `debug_assert_invariants` and hold the same previous row and
    pending bytes -/
def UbEq (u u' : UB) : Prop := u = u' ∨ (u.Inv ∧ u'.Inv ∧ u.abs = u'.abs)

theorem UbEq.refl (u : UB) : UbEq u u := Or.inl rfl
theorem UbEq.symm {u u' : UB} (h : UbEq u u') : UbEq u' u := by
  rcases h with h | h
  · exact Or.inl h.symm
  · exact Or.inr ⟨h.2.1, h.1, h.2.2.symm⟩
theorem UbEq.trans {a b c : UB} (h1 : UbEq a b) (h2 : UbEq b c) : UbEq a c := by
  rcases h1 with rfl | h1
  · exact h2
  · rcases h2 with rfl | h2
    · exact Or.inr h1
    · exact Or.inr ⟨h1.1, h2.2.1, h1.2.2.trans h2.2.2⟩
theorem UbEq.of_abs {u u' : UB} (h1 : u.Inv) (h2 : u'.Inv) (h : u.abs = u'.abs) : UbEq u u' := Or.inr ⟨h1, h2, h⟩

theorem UbEq.currLen {u u' : UB} (h : UbEq u u') : u.currLen = u'.currLen := by
  rcases h with rfl | h
  · rfl
  · rw [← UB.abs_currLen, ← UB.abs_currLen, h.2.2]
theorem UbEq.prevRow {u u' : UB} (h : UbEq u u') : u.prevRow = u'.prevRow := by
  rcases h with rfl | h
  · rfl
  · exact congrArg UBAbs.prev h.2.2
theorem UbEq.inv {u u' : UB} (h : UbEq u u') (hu : u.Inv) : u'.Inv := by
  rcases h with rfl | h
  · exact hu
  · exact h.2.1
theorem UbEq.compact {u u' : UB} (h : UbEq u u') : UbEq u.compact u'.compact := by
  rcases h with rfl | h
  · exact Or.inl rfl
  · exact Or.inr ⟨UB.inv_compact _ h.1, UB.inv_compact _ h.2.1, by rw [UB.abs_compact _ h.1, UB.abs_compact _ h.2.1, h.2.2]⟩
theorem UbEq.extend {u u' : UB} (h : UbEq u u') (bs : Bytes) : UbEq (u.extend bs) (u'.extend bs) := by
  rcases h with rfl | h
  · exact Or.inl rfl
  · exact Or.inr ⟨UB.inv_extend _ _ h.1, UB.inv_extend _ _ h.2.1, by rw [UB.abs_extend _ _ h.1, UB.abs_extend _ _ h.2.1, h.2.2]⟩
theorem UbEq.resetPrev {u u' : UB} (h : UbEq u u') : UbEq u.resetPrev u'.resetPrev := by
  rcases h with rfl | h
  · exact Or.inl rfl
  · exact Or.inr ⟨UB.inv_resetPrev _ h.1, UB.inv_resetPrev _ h.2.1, by rw [UB.abs_resetPrev, UB.abs_resetPrev, h.2.2]⟩

/-- compaction does not change the contents -/
theorem UbEq.compact_left (u : UB) (h : u.Inv) : UbEq u.compact u :=
  Or.inr ⟨UB.inv_compact _ h, h, UB.abs_compact _ h⟩

/-- `unfilter_curr_row` on buffers with the same contents: the same outcome -/
theorem UbEq.unfilter {u u' : UB} (h : UbEq u u') (rowlen bpp : Nat) :
    match u.unfilterCurr rowlen bpp, u'.unfilterCurr rowlen bpp with
    | .ok v, .ok v' => UbEq v v'
    | .unknownFilter b, .unknownFilter b' => b = b'
    | .panic, .panic => True
    | _, _ => False := by
  rcases h with rfl | h
  · cases u.unfilterCurr rowlen bpp with
    | ok v => exact Or.inl rfl
    | unknownFilter b => rfl
    | panic => trivial
  have e1 := UB.abs_unfilterCurr u rowlen bpp h.1
  have e2 := UB.abs_unfilterCurr u' rowlen bpp h.2.1
  rw [h.2.2, ← e2] at e1
  cases h1 : u.unfilterCurr rowlen bpp with
  | ok v =>
    cases h2 : u'.unfilterCurr rowlen bpp with
    | ok v' =>
      rw [h1, h2] at e1
      simp only [UnfOutcome.map, UnfOutcome.ok.injEq] at e1
      exact Or.inr ⟨UB.inv_unfilterCurr u v rowlen bpp h.1 h1, UB.inv_unfilterCurr u' v' rowlen bpp h.2.1 h2, e1⟩
    | unknownFilter b => rw [h1, h2] at e1; cases e1
    | panic => rw [h1, h2] at e1; cases e1
  | unknownFilter b =>
    cases h2 : u'.unfilterCurr rowlen bpp with
    | ok v' => rw [h1, h2] at e1; cases e1
    | unknownFilter b' => rw [h1, h2] at e1; simp only [UnfOutcome.map, UnfOutcome.unknownFilter.injEq] at e1; exact e1
    | panic => rw [h1, h2] at e1; cases e1
  | panic =>
    cases h2 : u'.unfilterCurr rowlen bpp with
    | ok v' => rw [h1, h2] at e1; cases e1
    | unknownFilter b' => rw [h1, h2] at e1; cases e1
    | panic => trivial

/-! ## `Sim` -/

/-- all fields equal except the unfiltering buffer; while a row is still to be delivered the buffers
    hold the same previous row and pending bytes -/
structure Sim (r r' : R) : Prop where
  rest : r' = { r with ub := r'.ub }
  ub : r.sub.cur.isSome → UbEq r.ub r'.ub

theorem Sim.refl (r : R) : Sim r r := ⟨rfl, fun _ => UbEq.refl _⟩

theorem Sim.symm {r r' : R} (h : Sim r r') : Sim r' r := by
  have hr := h.rest
  refine ⟨?_, fun hc => ?_⟩
  · rw [hr]
  · have : r.sub.cur.isSome := by rw [hr] at hc; exact hc
    exact (h.ub this).symm

theorem Sim.trans {a b c : R} (h1 : Sim a b) (h2 : Sim b c) : Sim a c := by
  refine ⟨?_, fun hc => ?_⟩
  · rw [h2.rest, h1.rest]
  · have hb : b.sub.cur.isSome := by rw [h1.rest]; exact hc
    exact (h1.ub hc).trans (h2.ub hb)

theorem Sim.fields {r r' : R} (h : Sim r r') :
    r'.dec = r.dec ∧ r'.pos = r.pos ∧ r'.input = r.input ∧ r'.visible = r.visible ∧ r'.sub = r.sub ∧
    r'.flags = r.flags ∧ r'.remaining = r.remaining ∧ r'.cached = r.cached ∧ r'.bpp = r.bpp ∧
    r'.finished = r.finished ∧ r'.isReader = r.isReader ∧ r'.dead = r.dead ∧ r'.pendingBuf = r.pendingBuf ∧
    r'.scratchLen = r.scratchLen := by
  rw [h.rest]; exact ⟨rfl, rfl, rfl, rfl, rfl, rfl, rfl, rfl, rfl, rfl, rfl, rfl, rfl, rfl⟩

theorem Sim.sameStream {r r' : R} (h : Sim r r') : SameStream r r' := by
  obtain ⟨a, b, c, d, _⟩ := h.fields; exact ⟨a, b, c, d⟩

/-- `Sim` from equal non-`ub` parts -/
theorem Sim.mk' {r r' : R} (u u' : UB) (hr : r' = { r with ub := u' }) (hu : r.ub = u)
    (h : r.sub.cur.isSome → UbEq u u') : Sim r r' := by
  subst hu
  have : r'.ub = u' := by rw [hr]
  refine ⟨by rw [this]; exact hr, fun hc => by rw [this]; exact h hc⟩

/-- replacing the buffers by buffers with the same contents -/
theorem Sim.setUb {r r' : R} (h : Sim r r') (u u' : UB) (hu : r.sub.cur.isSome → UbEq u u') :
    Sim { r with ub := u } { r' with ub := u' } := by
  refine ⟨?_, hu⟩
  show ({ r' with ub := u' } : R) = { ({ r with ub := u } : R) with ub := u' }
  rw [h.rest]

theorem Sim.withStream {a b : R} (h : Sim a b) (s : R) : Sim (Reader.withStream a s) (Reader.withStream b s) := by
  refine ⟨?_, fun hc => h.ub hc⟩
  show Reader.withStream b s = { Reader.withStream a s with ub := b.ub }
  rw [h.rest]; rfl

theorem Sim.growTo {a b : R} (h : Sim a b) (v : Nat) : Sim (Reader.growTo a v) (Reader.growTo b v) := by
  refine ⟨?_, fun hc => h.ub hc⟩
  show Reader.growTo b v = { Reader.growTo a v with ub := b.ub }
  rw [h.rest]; rfl

/-- equal results, `Sim`-related readers -/
def OutSim {X : Type} (x y : R × X) : Prop := x.2 = y.2 ∧ Sim x.1 y.1

/-! ## One reader ahead of the other by some `decode_image_data` calls (`BehindN`) -/

/-- the events after which `decode_image_data` asks for more -/
def isMore : Ev → Bool
  | .imageData | .nothing | .chunkComplete _ _ | .chunkBegin _ _ | .partialChunk _ => true
  | _ => false

/-- the reader after `decode_image_data` put `d` into the unfiltering buffer; `S` carries the stream part -/
def pullState (X S : R) (d : Bytes) : R := { Reader.withStream X S with ub := X.ub.compact.extend d }

theorem decodeImageData_true (cfg : Cfg) (X : R) :
    decodeImageData cfg X true =
      match decodeNext' cfg X with
      | (S, .error e) => ({ Reader.withStream X S with ub := X.ub.compact }, .error e)
      | (S, .ok (ev, d)) =>
        match ev with
        | .imageData => (pullState X S d, .ok .more)
        | .imageDataFlushed => (pullState X S d, .ok .done)
        | .nothing | .chunkComplete _ _ | .chunkBegin _ _ | .partialChunk _ => (pullState X S d, .ok .more)
        | _ => (pullState X S d, .error (.panic "unreachable!(unexpected event inside image data) (read_decoder.rs:141)")) := by
  unfold decodeImageData
  simp only [if_true]
  have hst : SameStream X ({ X with ub := X.ub.compact } : R) := ⟨rfl, rfl, rfl, rfl⟩
  rw [decodeNext'_stream cfg hst]
  generalize decodeNext' cfg X = o
  obtain ⟨S, res⟩ := o
  cases res with
  | error e => rfl
  | ok p =>
    obtain ⟨ev, d⟩ := p
    cases ev <;> rfl

/-- `X1` is `X` after one more `decode_image_data` (into the unfiltering buffer) that asked for more -/
def Pull (cfg : Cfg) (X X1 : R) : Prop := X.sub.caf = false ∧ decodeImageData cfg X true = (X1, .ok .more)

theorem Pull.eq {cfg : Cfg} {X X1 : R} (h : Pull cfg X X1) :
    ∃ S ev d, decodeNext' cfg X = (S, .ok (ev, d)) ∧ isMore ev = true ∧ X1 = pullState X S d := by
  have h2 := h.2
  rw [decodeImageData_true] at h2
  generalize hd : decodeNext' cfg X = o at h2
  obtain ⟨S, res⟩ := o
  cases res with
  | error e => simp only [Prod.mk.injEq] at h2; cases h2.2
  | ok p =>
    obtain ⟨ev, d⟩ := p
    refine ⟨S, ev, d, rfl, ?_⟩
    cases ev <;> simp only [Prod.mk.injEq, Except.ok.injEq, reduceCtorEq, and_false] at h2 <;> exact ⟨rfl, h2.1.symm⟩

theorem Pull.mk' {cfg : Cfg} {X S : R} {ev : Ev} {d : Bytes} (hc : X.sub.caf = false)
    (hd : decodeNext' cfg X = (S, .ok (ev, d))) (he : isMore ev = true) : Pull cfg X (pullState X S d) := by
  refine ⟨hc, ?_⟩
  rw [decodeImageData_true, hd]
  cases ev <;> first | rfl | cases he

/-- a pull from a `Sim`-related reader -/
theorem Pull.sim {cfg : Cfg} {X X1 X2 : R} (h : Pull cfg X X1) (hs : Sim X X2) : ∃ X3, Pull cfg X2 X3 ∧ Sim X1 X3 := by
  obtain ⟨S, ev, d, hd, he, rfl⟩ := h.eq
  have hd2 := decodeNext'_stream cfg hs.sameStream
  rw [hd] at hd2
  refine ⟨_, Pull.mk' (by rw [hs.fields.2.2.2.2.1]; exact h.1) hd2 he, ?_⟩
  have hw : Sim (Reader.withStream X S) (Reader.withStream X2 (Reader.withStream X2 S)) := hs.withStream S
  exact hw.setUb _ _ (fun hc => ((hs.ub hc).compact).extend d)

/-- `B` is `X` after `n` more `decode_image_data` calls, up to `Sim` -/
def BehindN (cfg : Cfg) : Nat → R → R → Prop
  | 0, X, B => Sim X B
  | n + 1, X, B => ∃ X1, Pull cfg X X1 ∧ BehindN cfg n X1 B

theorem BehindN.simLeft {cfg : Cfg} : ∀ {n : Nat} {X X2 B : R}, BehindN cfg n X B → Sim X X2 → BehindN cfg n X2 B := by
  intro n
  induction n with
  | zero => intro X X2 B h hs; exact hs.symm.trans h
  | succ n ih =>
    intro X X2 B h hs
    obtain ⟨X1, hp, hb⟩ := h
    obtain ⟨X3, hp3, hs3⟩ := hp.sim hs
    exact ⟨X3, hp3, ih hb hs3⟩

theorem BehindN.simRight {cfg : Cfg} : ∀ {n : Nat} {X B B2 : R}, BehindN cfg n X B → Sim B B2 → BehindN cfg n X B2 := by
  intro n
  induction n with
  | zero => intro X B B2 h hs; exact Sim.trans h hs
  | succ n ih =>
    intro X B B2 h hs
    obtain ⟨X1, hp, hb⟩ := h
    exact ⟨X1, hp, ih hb hs⟩

theorem BehindN.trans {cfg : Cfg} : ∀ {m n : Nat} {X Y B : R}, BehindN cfg m X Y → BehindN cfg n Y B → BehindN cfg (m + n) X B := by
  intro m
  induction m with
  | zero => intro n X Y B h1 h2; rw [Nat.zero_add]; exact h2.simLeft (Sim.symm h1)
  | succ m ih =>
    intro n X Y B h1 h2
    obtain ⟨X1, hp, hb⟩ := h1
    rw [Nat.succ_add]
    exact ⟨X1, hp, ih hb h2⟩

/-- a pull changes the stream part and the unfiltering buffer only -/
theorem pullState_fields (X S : R) (d : Bytes) :
    (pullState X S d).input = X.input ∧ (pullState X S d).visible = X.visible ∧ (pullState X S d).sub = X.sub ∧
    (pullState X S d).flags = X.flags ∧ (pullState X S d).remaining = X.remaining ∧ (pullState X S d).cached = X.cached ∧
    (pullState X S d).bpp = X.bpp ∧ (pullState X S d).finished = X.finished ∧ (pullState X S d).isReader = X.isReader ∧
    (pullState X S d).dead = X.dead ∧ (pullState X S d).pendingBuf = X.pendingBuf ∧
    (pullState X S d).scratchLen = X.scratchLen := ⟨rfl, rfl, rfl, rfl, rfl, rfl, rfl, rfl, rfl, rfl, rfl, rfl⟩

theorem BehindN.fields {cfg : Cfg} : ∀ {n : Nat} {X B : R}, BehindN cfg n X B →
    B.input = X.input ∧ B.visible = X.visible ∧ B.sub = X.sub ∧ B.flags = X.flags ∧ B.remaining = X.remaining ∧
    B.cached = X.cached ∧ B.bpp = X.bpp ∧ B.finished = X.finished ∧ B.isReader = X.isReader ∧ B.dead = X.dead ∧
    B.pendingBuf = X.pendingBuf ∧ B.scratchLen = X.scratchLen := by
  intro n
  induction n with
  | zero =>
    intro X B h
    obtain ⟨_, _, a1, a2, a3, a4, a5, a6, a7, a8, a9, a10, a11, a12⟩ := Sim.fields h
    exact ⟨a1, a2, a3, a4, a5, a6, a7, a8, a9, a10, a11, a12⟩
  | succ n ih =>
    intro X B h
    obtain ⟨X1, hp, hb⟩ := h
    obtain ⟨S, ev, d, _, _, rfl⟩ := hp.eq
    have h2 := @ih (pullState X S d) B hb
    exact h2

/-- once the frame is flushed nothing can be pulled -/
theorem BehindN.of_caf {cfg : Cfg} {n : Nat} {X B : R} (h : BehindN cfg n X B) (hc : X.sub.caf = true) : Sim X B := by
  cases n with
  | zero => exact h
  | succ n =>
    obtain ⟨X1, hp, _⟩ := h
    have := hp.1; rw [hc] at this; cases this

/-- at the end of the visible input nothing can be pulled -/
theorem BehindN.of_eof {cfg : Cfg} {n : Nat} {X B : R} (h : BehindN cfg n X B) (hc : avail X = []) : Sim X B := by
  cases n with
  | zero => exact h
  | succ n =>
    obtain ⟨X1, hp, _⟩ := h
    obtain ⟨S, ev, d, hd, _, _⟩ := hp.eq
    rw [eof_no_state_change cfg X hc] at hd
    simp only [Prod.mk.injEq, reduceCtorEq, and_false] at hd

/-! ## The generic loop from related readers at the same visibility -/

/-- the loop body maps `E`-related readers to `E`-related readers with equal results -/
structure Body.Resp {α : Type} (B : Body α) (E : R → R → Prop) : Prop where
  sim : ∀ a b, E a b → Sim a b
  withS : ∀ a b s, E a b → E (Reader.withStream a s) (Reader.withStream b s)
  pre : ∀ a b, E a b →
    match B.pre a, B.pre b with
    | none, none => True
    | some x, some y => OutSim x y
    | _, _ => False
  prep : ∀ a b, E a b → E (B.prep a) (B.prep b)
  post : ∀ a b ev data, E a b →
    match B.post a ev data, B.post b ev data with
    | .inl x, .inl y => OutSim x y
    | .inr a', .inr b' => E a' b'
    | _, _ => False

/-- one iteration from `E`-related readers -/
theorem iter_resp {α : Type} (cfg : Cfg) (B : Body α) {E : R → R → Prop} (hR : B.Resp E) {a b : R} (h : E a b) :
    ∃ S res, decodeNext' cfg (B.prep a) = (S, res) ∧ decodeNext' cfg (B.prep b) = (Reader.withStream (B.prep b) S, res) ∧
      E S (Reader.withStream (B.prep b) S) := by
  have he := hR.prep a b h
  have hst := (hR.sim _ _ he).sameStream
  have hws := decodeNext'_withStream cfg (B.prep a)
  refine ⟨(decodeNext' cfg (B.prep a)).1, (decodeNext' cfg (B.prep a)).2, rfl, decodeNext'_stream cfg hst, ?_⟩
  rw [hws]
  exact hR.withS _ _ _ he

theorem gloop_resp {α : Type} (cfg : Cfg) (B : Body α) (E : R → R → Prop) (hR : B.Resp E) :
    ∀ (f : Nat) (a b : R), E a b → OutSim (gloop cfg B f a) (gloop cfg B f b) := by
  intro f
  induction f with
  | zero => intro a b h; exact ⟨rfl, hR.sim a b h⟩
  | succ f ih =>
    intro a b h
    rw [gloop, gloop]
    have hp := hR.pre a b h
    cases hpa : B.pre a with
    | some x =>
      cases hpb : B.pre b with
      | some y => rw [hpa, hpb] at hp; exact hp
      | none => rw [hpa, hpb] at hp; exact hp.elim
    | none =>
      cases hpb : B.pre b with
      | some y => rw [hpa, hpb] at hp; exact hp.elim
      | none =>
        simp only
        obtain ⟨S, res, h1, h2, he'⟩ := iter_resp cfg B hR h
        rw [h1, h2]
        cases res with
        | error e => exact ⟨rfl, hR.sim _ _ he'⟩
        | ok p =>
          obtain ⟨ev, data⟩ := p
          simp only
          have hpo := hR.post _ _ ev data he'
          cases hx : B.post S ev data with
          | inl x =>
            cases hy : B.post (Reader.withStream (B.prep b) S) ev data with
            | inl y => rw [hx, hy] at hpo; exact hpo
            | inr y => rw [hx, hy] at hpo; exact hpo.elim
          | inr x =>
            cases hy : B.post (Reader.withStream (B.prep b) S) ev data with
            | inl y => rw [hx, hy] at hpo; exact hpo.elim
            | inr y => rw [hx, hy] at hpo; exact ih x y hpo

/-- what a loop body owes to pulls: an exit before decoding stays an exit (with the same result) after a
    pull, and without such an exit the pull is the loop's own next iteration -/
structure Body.Pulls {α : Type} (cfg : Cfg) (B : Body α) (I : R → Prop) (E : R → R → Prop) : Prop where
  resp : B.Resp E
  e_of : ∀ a b, I a → Sim a b → E a b
  inv_pull : ∀ X X1, I X → Pull cfg X X1 → I X1
  pre_pull : ∀ X X1 x, I X → Pull cfg X X1 → B.pre X = some x →
    ∃ x1 P, B.pre X1 = some x1 ∧ x1.2 = x.2 ∧ Pull cfg x.1 P ∧ Sim P x1.1
  iter_pull : ∀ X X1, I X → Pull cfg X X1 → B.pre X = none →
    ∃ S ev d X1', decodeNext' cfg (B.prep X) = (S, .ok (ev, d)) ∧ B.post S ev d = .inr X1' ∧ Sim X1' X1

theorem pre_behind {α : Type} {cfg : Cfg} {B : Body α} {I : R → Prop} {E : R → R → Prop} (hP : B.Pulls cfg I E) :
    ∀ (n : Nat) (X B' : R) (x : R × Except Res α), I X → BehindN cfg n X B' → B.pre X = some x →
    ∃ y, B.pre B' = some y ∧ y.2 = x.2 ∧ BehindN cfg n x.1 y.1 := by
  intro n
  induction n with
  | zero =>
    intro X B' x hi hb hx
    have hp := hP.resp.pre X B' (hP.e_of X B' hi hb)
    rw [hx] at hp
    cases hy : B.pre B' with
    | none => rw [hy] at hp; exact hp.elim
    | some y => rw [hy] at hp; exact ⟨y, rfl, hp.1.symm, hp.2⟩
  | succ n ih =>
    intro X B' x hi hb hx
    obtain ⟨X1, hpull, hb1⟩ := hb
    obtain ⟨x1, P, h1, h2, h3, h4⟩ := hP.pre_pull X X1 x hi hpull hx
    obtain ⟨y, hy1, hy2, hy3⟩ := ih X1 B' x1 (hP.inv_pull X X1 hi hpull) hb1 h1
    exact ⟨y, hy1, hy2.trans h2, P, h3, hy3.simLeft (Sim.symm h4)⟩

/-- **the loop from a reader that is behind**: the same result, and the reader that was behind is behind
    by no more than before -/
theorem gloop_behind {α : Type} (cfg : Cfg) (B : Body α) {I : R → Prop} {E : R → R → Prop} (hB : B.Ok I)
    (hP : B.Pulls cfg I E) : ∀ (f : Nat) (X : R), I X → M X < f → ∀ (n : Nat) (B' : R) (f' : Nat),
    BehindN cfg n X B' → M B' < f' →
    (gloop cfg B f X).2 = (gloop cfg B f' B').2 ∧
      ∃ n', n' ≤ n ∧ BehindN cfg n' (gloop cfg B f X).1 (gloop cfg B f' B').1 ∧ ((∀ r, B.pre r = none) → n' = 0) := by
  intro f
  induction f with
  | zero => intro X _ h; omega
  | succ f ih =>
    intro X hi hM n B' f' hb hM'
    obtain ⟨f'', rfl⟩ : ∃ k, f' = k + 1 := ⟨f' - 1, by omega⟩
    cases hpx : B.pre X with
    | some x =>
      obtain ⟨y, hy1, hy2, hy3⟩ := pre_behind hP n X B' x hi hb hpx
      rw [gloop, gloop, hpx, hy1]
      exact ⟨hy2.symm, n, Nat.le_refl _, hy3, fun h => by rw [h X] at hpx; cases hpx⟩
    | none =>
      cases n with
      | zero =>
        have he : E X B' := hP.e_of X B' hi hb
        have hp := hP.resp.pre X B' he
        rw [hpx] at hp
        cases hpb : B.pre B' with
        | some y => rw [hpb] at hp; exact hp.elim
        | none =>
          rw [gloop_succ cfg B f X hpx, gloop_succ cfg B f'' B' hpb]
          obtain ⟨S, res, h1, h2, he'⟩ := iter_resp cfg B hP.resp he
          rw [h1, h2]
          cases res with
          | error e => exact ⟨rfl, 0, Nat.le_refl _, hP.resp.sim _ _ he', fun _ => rfl⟩
          | ok p =>
            obtain ⟨ev, data⟩ := p
            simp only
            have hpo := hP.resp.post _ _ ev data he'
            have hS : S = Reader.withStream (B.prep X) S := by
              have := decodeNext'_withStream cfg (B.prep X); rw [h1] at this; exact this
            have hiS : I S := by rw [hS]; exact hB.inv_stream _ _ (hB.inv_prep X hi)
            have hMS : M S < M X := by rw [← (hB.prep_stream X).M]; exact decodeNext'_M cfg h1
            have hMS' : M (Reader.withStream (B.prep B') S) < M B' := by
              rw [← (hB.prep_stream B').M]; exact decodeNext'_M cfg h2
            cases hx : B.post S ev data with
            | inl x =>
              cases hy : B.post (Reader.withStream (B.prep B') S) ev data with
              | inl y => rw [hx, hy] at hpo; exact ⟨hpo.1, 0, Nat.le_refl _, hpo.2, fun _ => rfl⟩
              | inr y => rw [hx, hy] at hpo; exact hpo.elim
            | inr x =>
              cases hy : B.post (Reader.withStream (B.prep B') S) ev data with
              | inl y => rw [hx, hy] at hpo; exact hpo.elim
              | inr y =>
                rw [hx, hy] at hpo
                simp only
                have hMx : M x = M S := (hB.post_stream S ev data x hx).M
                have hMy : M y = M (Reader.withStream (B.prep B') S) := (hB.post_stream _ ev data y hy).M
                exact ih x (hB.inv_post S ev data x hiS hx) (by omega) 0 y f'' (hP.resp.sim _ _ hpo) (by omega)
      | succ n =>
        obtain ⟨X1, hpull, hb1⟩ := hb
        obtain ⟨S, ev, d, X1', h1, h2, h3⟩ := hP.iter_pull X X1 hi hpull hpx
        rw [gloop_succ cfg B f X hpx, h1]
        simp only
        rw [h2]
        simp only
        have hS : S = Reader.withStream (B.prep X) S := by
          have := decodeNext'_withStream cfg (B.prep X); rw [h1] at this; exact this
        have hiS : I S := by rw [hS]; exact hB.inv_stream _ _ (hB.inv_prep X hi)
        have hMS : M S < M X := by rw [← (hB.prep_stream X).M]; exact decodeNext'_M cfg h1
        have hMx : M X1' = M S := (hB.post_stream S ev d X1' h2).M
        obtain ⟨r1, n', hn', r2, r3⟩ := ih X1' (hB.inv_post S ev d X1' hiS h2) (by omega) n B' (f'' + 1)
          (hb1.simLeft (Sim.symm h3)) hM'
        exact ⟨r1, n', by omega, r2, r3⟩

/-! ## The generic loop on a shorter and on a longer visible prefix -/

/-- the call ran out of input -/
def Res.isEof : Res → Bool
  | .err .eof _ => true
  | _ => false

/-- an error other than end of input, or a panic -/
def Res.isFatal : Res → Bool
  | .err .eof _ => false
  | .err _ _ => true
  | .panic _ => true
  | _ => false

theorem ofFraming_fatal (e : Framing.Err) : (ofFraming e).isFatal = true := by
  cases e <;> rfl

/-- a failed `decode_next` ran out of input or failed fatally -/
theorem decodeNext'_err (cfg : Cfg) {r r' : R} {e : Res} (h : decodeNext' cfg r = (r', .error e)) :
    e = .err .eof "UnexpectedEof" ∨ e.isFatal = true := by
  rw [decodeNext'_eq cfg r] at h
  by_cases ha : avail r = []
  · rw [if_pos ha] at h
    simp only [Prod.mk.injEq, Except.error.injEq] at h
    exact Or.inl h.2.symm
  · rw [if_neg ha] at h
    cases hu : update cfg { r.dec with out := [] } (avail r) with
    | mk d' res =>
      rw [hu] at h
      cases res with
      | error e' =>
        simp only [Prod.mk.injEq, Except.error.injEq] at h
        rw [← h.2]; exact Or.inr (ofFraming_fatal e')
      | ok p => cases h

/-- what monotonicity in the visible prefix needs from a loop body (in addition to `Body.Ok`) -/
structure Body.Vis {α : Type} (cfg : Cfg) (B : Body α) (I : R → Prop) : Prop where
  /-- an exit right after a call that could have been merged with the next one is a fatal error, and the
      merged call exits alike -/
  post_inl_merge : ∀ r ev d x0, B.post r ev d = .inl x0 → ((ev = .nothing ∧ d = []) ∨ ev = .imageData) →
    ∃ e, x0.2 = .error e ∧ e.isFatal = true ∧
      ∀ r2 ev2 d2, (ev = .imageData → ev2 = .imageData) → ∃ y0, B.post r2 ev2 (d ++ d2) = .inl y0 ∧ y0.2 = .error e
  /-- the loop went on after such a call and then stopped before decoding: the loop that sees both calls
      as one ends with the same result, ahead by at most what it pulled -/
  merge_pre : ∀ (r S1 r'' : R) (ev : Ev) (d : Bytes) (x0 : R × Except Res α), I r → B.pre r = none →
    ((ev = .nothing ∧ d = []) ∨ ev = .imageData) → B.post (Reader.withStream (B.prep r) S1) ev d = .inr r'' →
    B.pre r'' = some x0 →
    ∀ (S2 : R) (ev2 : Ev) (d2 : Bytes) (f : Nat), decodeNext' cfg (B.prep r'') = (S2, .ok (ev2, d2)) →
      (ev = .imageData → ev2 = .imageData) → M S2 < f →
      ∀ out, out = (match B.post (Reader.withStream (B.prep r) S2) ev2 (d ++ d2) with
        | .inl y0 => y0
        | .inr Y1 => gloop cfg B f Y1) →
      out.2 = x0.2 ∧ ∃ m, BehindN cfg m x0.1 out.1

/-- **monotonicity of a `decode_next` loop in the visible prefix** (inflater contract): if the loop on
    the shorter prefix did not run out of input and the loop on the longer prefix does not fail fatally,
    both return the same, and the reader of the longer run is that of the shorter run after some more
    `decode_image_data` calls -/
theorem gloop_vis {α : Type} (cfg : Cfg) (hI : cfg.InflateOk) (B : Body α) {I : R → Prop} (hB : B.Ok I)
    (hV : B.Vis cfg I) (L : Nat) : ∀ (f1 : Nat) (A : R), PosOk A → I A → A.visible ≤ L → M A < f1 →
    ∀ (f3 : Nat), M (growTo A L) < f3 →
    (∀ w, (gloop cfg B f1 A).2 ≠ .error (.err .eof w)) →
    (∀ e, (gloop cfg B f3 (growTo A L)).2 = .error e → e.isFatal = false) →
    (gloop cfg B f1 A).2 = (gloop cfg B f3 (growTo A L)).2 ∧
      ∃ m, BehindN cfg m (growTo (gloop cfg B f1 A).1 L) (gloop cfg B f3 (growTo A L)).1 ∧
        ((∀ r, B.pre r = none) → m = 0) := by
  intro f1
  induction f1 with
  | zero => intro A _ _ _ h; omega
  | succ f1 ih =>
    intro A hpos hinv hv hM f3 hM3 hx hy
    obtain ⟨f3', rfl⟩ : ∃ k, f3 = k + 1 := ⟨f3 - 1, by omega⟩
    cases hpre : B.pre A with
    | some x =>
      have hpg : B.pre (growTo A L) = some (growTo x.1 L, x.2) := by rw [hB.pre_vis, hpre]; rfl
      rw [gloop, gloop, hpre, hpg]
      exact ⟨rfl, 0, Sim.refl _, fun _ => rfl⟩
    | none =>
      have hsp := hB.prep_stream A
      have hposp : PosOk (B.prep A) := hsp.posOk hpos
      have hvp : (B.prep A).visible ≤ L := by rw [hsp.visible]; exact hv
      have hMg : M (growTo (B.prep A) L) = M (growTo A L) := (hsp.grow L).M
      have hwhole := gloop_succ cfg B f3' _ (pre_grow_none hB hpre L)
      rw [hB.prep_vis] at hwhole
      rw [hwhole] at hy ⊢
      rw [gloop_succ cfg B f1 A hpre] at hx ⊢
      have hgr := decodeNext'_grow cfg hI (B.prep A) L hvp hposp
      unfold GrowRel at hgr
      cases hd : decodeNext' cfg (B.prep A) with
      | mk r' res =>
        rw [hd] at hgr hx
        cases res with
        | error e =>
          simp only at hgr hx ⊢
          rcases hgr with hav | ⟨r1', hw⟩
          · rw [eof_no_state_change cfg _ hav] at hd
            simp only [Prod.mk.injEq, Except.error.injEq] at hd
            exact (hx "UnexpectedEof" (by rw [← hd.2])).elim
          · rw [hw] at hy
            have hf := hy e rfl
            rcases decodeNext'_err cfg hd with he | he
            · exact (hx _ (by rw [he])).elim
            · rw [he] at hf; cases hf
        | ok p =>
          obtain ⟨ev, data⟩ := p
          simp only at hgr hx ⊢
          have hr' : r' = Reader.withStream (B.prep A) r' := by
            have := decodeNext'_withStream cfg (B.prep A); rw [hd] at this; exact this
          have hposr' : PosOk r' := by
            have := decodeNext'_posOk cfg (B.prep A) hposp; rw [hd] at this; exact this
          have hinv' : I r' := by rw [hr']; exact hB.inv_stream _ _ (hB.inv_prep A hinv)
          have hMr' : M r' < M A := by rw [← hsp.M]; exact decodeNext'_M cfg hd
          rcases hgr with hsame | ⟨hav, hcont, hmerge⟩
          · -- the call did not need more input
            rw [hsame] at hy ⊢
            simp only at hy ⊢
            rw [hB.post_vis] at hy ⊢
            cases hp : B.post r' ev data with
            | inl x => exact ⟨rfl, 0, Sim.refl _, fun _ => rfl⟩
            | inr r'' =>
              rw [hp] at hx hy
              simp only at hx hy ⊢
              have hss := hB.post_stream r' ev data r'' hp
              have hM1 : M (growTo r'' L) < M (growTo A L) := by
                rw [(hss.grow L).M, ← hMg]
                exact decodeNext'_M cfg hsame
              exact ih r'' (hss.posOk hposr') (hB.inv_post r' ev data r'' hinv' hp)
                (by rw [hss.visible, hr']; exact hvp) (by rw [hss.M]; omega) f3' (by omega) hx hy
          · -- the call consumed everything visible; the longer run merges it with the next call
            cases hp : B.post r' ev data with
            | inl x0 =>
              exfalso
              obtain ⟨e, he1, he2, he3⟩ := hV.post_inl_merge r' ev data x0 hp hcont
              generalize hd2 : decodeNext' cfg (growTo r' L) = o2 at hmerge
              obtain ⟨r2, res2⟩ := o2
              cases res2 with
              | error e2 =>
                obtain ⟨⟨r2', hw⟩, hne⟩ := hmerge
                rw [hw] at hy
                have hf := hy e2 rfl
                rcases decodeNext'_err cfg hd2 with he | he
                · exact hne _ he
                · rw [he] at hf; cases hf
              | ok q =>
                obtain ⟨ev2, data2⟩ := q
                simp only at hmerge
                obtain ⟨hw, hev2⟩ := hmerge
                obtain ⟨y0, hy0, hy1⟩ := he3 r2 ev2 data2 hev2
                rw [hw] at hy
                simp only at hy
                rw [hy0] at hy
                have hf := hy e hy1
                rw [he2] at hf; cases hf
            | inr r'' =>
              rw [hp] at hx
              simp only at hx ⊢
              have hss := hB.post_stream r' ev data r'' hp
              have hinv'' : I r'' := hB.inv_post r' ev data r'' hinv' hp
              have hMr'' : M r'' = M r' := hss.M
              obtain ⟨f1', rfl⟩ : ∃ k, f1 = k + 1 := ⟨f1 - 1, by omega⟩
              cases hpre2 : B.pre r'' with
              | none =>
                exfalso
                rw [gloop_succ cfg B f1' r'' hpre2] at hx
                have hav2 : avail (B.prep r'') = [] := by rw [(hB.prep_stream r'').avail, hss.avail]; exact hav
                rw [eof_no_state_change cfg _ hav2] at hx
                exact hx _ rfl
              | some x0 =>
                have hA : gloop cfg B (f1' + 1) r'' = x0 := by rw [gloop, hpre2]
                rw [hA]
                generalize hd2 : decodeNext' cfg (growTo r' L) = o2 at hmerge
                obtain ⟨r2, res2⟩ := o2
                cases res2 with
                | error e2 =>
                  exfalso
                  obtain ⟨⟨r2', hw⟩, hne⟩ := hmerge
                  rw [hw] at hy
                  have hf := hy e2 rfl
                  rcases decodeNext'_err cfg hd2 with he | he
                  · exact hne _ he
                  · rw [he] at hf; cases hf
                | ok q =>
                  obtain ⟨ev2, data2⟩ := q
                  simp only at hmerge
                  obtain ⟨hw, hev2⟩ := hmerge
                  rw [hw]
                  simp only
                  have hws := decodeNext'_withStream cfg (growTo r' L)
                  rw [hd2] at hws
                  simp only at hws
                  have hr2 : r2 = Reader.withStream (B.prep (growTo A L)) r2 := by
                    rw [hB.prep_vis]
                    conv => lhs; rw [hws, hr']
                    rfl
                  have hpost1 : B.post (Reader.withStream (B.prep (growTo A L)) (growTo r' L)) ev data = .inr (growTo r'' L) := by
                    have : Reader.withStream (B.prep (growTo A L)) (growTo r' L) = growTo r' L := by
                      rw [hB.prep_vis]
                      conv => rhs; rw [hr']
                      rfl
                    rw [this, hB.post_vis, hp]
                  have hpre2g : B.pre (growTo r'' L) = some (growTo x0.1 L, x0.2) := by rw [hB.pre_vis, hpre2]; rfl
                  have hst : SameStream (growTo r' L) (B.prep (growTo r'' L)) := by
                    rw [hB.prep_vis]; exact (hss.trans (hB.prep_stream r'')).grow L
                  have hdS := decodeNext'_stream cfg hst
                  rw [hd2] at hdS
                  simp only at hdS
                  have hMw : M r2 < M (growTo A L) := by rw [← hMg]; exact decodeNext'_M cfg hw
                  have hMS2 : M (Reader.withStream (B.prep (growTo r'' L)) r2) < f3' := by
                    have : M (Reader.withStream (B.prep (growTo r'' L)) r2) < M (B.prep (growTo r'' L)) := decodeNext'_M cfg hdS
                    rw [hst.M] at this
                    have h5 : M r2 < M (growTo r' L) := decodeNext'_M cfg hd2
                    have h6 : M (Reader.withStream (B.prep (growTo r'' L)) r2) = M r2 := by
                      have e1 : SameStream r2 (Reader.withStream (B.prep (growTo r'' L)) r2) := by
                        refine ⟨rfl, rfl, ?_, ?_⟩
                        · exact hst.input.trans (congrArg R.input hws).symm
                        · exact hst.visible.trans (congrArg R.visible hws).symm
                      exact e1.M
                    omega
                  have hm := hV.merge_pre (growTo A L) (growTo r' L) (growTo r'' L) ev data (growTo x0.1 L, x0.2)
                    (hB.inv_vis A L hinv) (pre_grow_none hB hpre L) hcont hpost1 hpre2g
                    (Reader.withStream (B.prep (growTo r'' L)) r2) ev2 data2 f3' hdS hev2 hMS2 _ rfl
                  have hww : Reader.withStream (B.prep (growTo A L)) (Reader.withStream (B.prep (growTo r'' L)) r2) = r2 := by
                    conv => rhs; rw [hr2]
                    rfl
                  rw [hww] at hm
                  obtain ⟨hm1, m, hm2⟩ := hm
                  exact ⟨hm1.symm, m, hm2, fun h => by rw [h r''] at hpre2; cases hpre2⟩

/-! ## The loops of `ReadDecoder` and `Reader` as instances -/

/-- a stronger invariant for a loop body -/
theorem Body.Ok.and {α : Type} {B : Body α} {I J : R → Prop} (hB : B.Ok I) (j_prep : ∀ r, J r → J (B.prep r))
    (j_post : ∀ r ev data r'', J r → B.post r ev data = .inr r'' → J r'')
    (j_stream : ∀ r s, J r → J (Reader.withStream r s)) (j_vis : ∀ r v, J r → J (growTo r v)) :
    B.Ok (fun r => I r ∧ J r) where
  inv_prep := fun r h => ⟨hB.inv_prep r h.1, j_prep r h.2⟩
  inv_post := fun r ev data r'' h hp => ⟨hB.inv_post r ev data r'' h.1 hp, j_post r ev data r'' h.2 hp⟩
  inv_stream := fun r s h => ⟨hB.inv_stream r s h.1, j_stream r s h.2⟩
  inv_vis := fun r v h => ⟨hB.inv_vis r v h.1, j_vis r v h.2⟩
  pre_vis := hB.pre_vis
  prep_vis := hB.prep_vis
  post_vis := hB.post_vis
  prep_stream := hB.prep_stream
  post_stream := hB.post_stream
  pre_noeof := hB.pre_noeof
  post_noeof := hB.post_noeof
  prep_idem := hB.prep_idem
  pre_prep := fun r h => hB.pre_prep r h.1
  merge := fun r s1 r'' s2 ev ev2 data data2 h => hB.merge r s1 r'' s2 ev ev2 data data2 h.1

/-- a function that leaves the unfiltering buffer alone maps `Sim`-related readers to `Sim`-related readers -/
theorem Sim.map {a b : R} (f : R → R) (hf : ∀ r u, f { r with ub := u } = { f r with ub := u })
    (hub : ∀ r, (f r).ub = r.ub) (hcur : (f a).sub.cur.isSome → a.sub.cur.isSome) (h : Sim a b) : Sim (f a) (f b) := by
  have e1 : f b = { f a with ub := b.ub } := by
    conv => lhs; rw [h.rest]
    exact hf a b.ub
  refine ⟨?_, fun hc => ?_⟩
  · rw [hub b]; exact e1
  · rw [hub a, hub b]; exact h.ub (hcur hc)

theorem bodyEnd_resp : bodyEnd.Resp Sim where
  sim := fun _ _ h => h
  withS := fun _ _ s h => h.withStream s
  pre := fun _ _ _ => trivial
  prep := fun _ _ h => h
  post := fun a b ev data h => by
    cases ev <;> first | exact h | exact ⟨rfl, h⟩

theorem bodyFinish_resp : bodyFinish.Resp Sim where
  sim := fun _ _ h => h
  withS := fun _ _ s h => h.withStream s
  pre := fun _ _ _ => trivial
  prep := fun _ _ h => h
  post := fun a b ev data h => by
    cases ev <;> first | exact h | exact ⟨rfl, h⟩

theorem bodyUntil_resp : bodyUntil.Resp Sim where
  sim := fun _ _ h => h
  withS := fun _ _ s h => h.withStream s
  pre := fun _ _ _ => trivial
  prep := fun _ _ h => h
  post := fun a b ev data h => by
    simp only [bodyUntil]
    cases data.isEmpty with
    | false => exact ⟨rfl, h⟩
    | true =>
      simp only [if_true]
      cases ev with
      | chunkBegin l t =>
        simp only
        by_cases ht : t = IDAT ∨ t = fdAT
        · simp only [if_pos ht]; exact ⟨rfl, h⟩
        · simp only [if_neg ht]; exact h
      | _ => first | exact h | exact ⟨rfl, h⟩

theorem bodyHeader_resp : bodyHeader.Resp Sim where
  sim := fun _ _ h => h
  withS := fun _ _ s h => h.withStream s
  pre := fun a b h => by
    simp only [bodyHeader]
    rw [h.fields.1]
    cases a.dec.info.isSome with
    | true => exact ⟨rfl, h⟩
    | false => trivial
  prep := fun _ _ h => h
  post := fun a b ev data h => by
    simp only [bodyHeader]
    cases data.isEmpty with
    | false => exact ⟨rfl, h⟩
    | true =>
      simp only [if_true]
      cases ev <;> first | exact h | exact ⟨rfl, h⟩

/-! ### the row loop -/

theorem UBAbs.unfilter_append (a : UBAbs) (d : Bytes) (rowlen bpp : Nat) (h : rowlen ≤ a.pending.length) :
    (a.append d).unfilterCurr rowlen bpp = (a.unfilterCurr rowlen bpp).map (fun x => x.append d) := by
  obtain ⟨prev, p⟩ := a
  simp only at h
  unfold UBAbs.unfilterCurr UBAbs.append
  simp only
  by_cases h2 : rowlen < 2
  · rw [if_pos h2, if_pos h2]; rfl
  · rw [if_neg h2, if_neg h2]
    by_cases hp : ¬ (prev.isEmpty ∨ prev.length = rowlen - 1)
    · rw [if_pos hp, if_pos hp]; rfl
    · rw [if_neg hp, if_neg hp]
      have hne : p ≠ [] := by intro hc; rw [hc] at h; simp at h; omega
      have hl1 : ¬ (p ++ d).length = 0 := by rw [List.length_append]; omega
      have hl2 : ¬ p.length = 0 := by omega
      rw [if_neg hl1, if_neg hl2]
      have hhd : (p ++ d).headD 0 = p.headD 0 := by
        cases p with
        | nil => exact absurd rfl hne
        | cons x xs => rfl
      rw [hhd]
      cases FilterType.ofNat? (p.headD 0).toNat with
      | none => rfl
      | some ft =>
        simp only
        have hl3 : ¬ (p ++ d).length < rowlen := by rw [List.length_append]; omega
        have hl4 : ¬ p.length < rowlen := by omega
        rw [if_neg hl3, if_neg hl4]
        simp only [UnfOutcome.map]
        have e1 : (p ++ d).drop 1 = p.drop 1 ++ d := List.drop_append_of_le_length (by omega)
        have e2 : (p.drop 1 ++ d).take (rowlen - 1) = (p.drop 1).take (rowlen - 1) :=
          List.take_append_of_le_length (by rw [List.length_drop]; omega)
        have e3 : (p ++ d).drop rowlen = p.drop rowlen ++ d := List.drop_append_of_le_length h
        rw [e1, e2, e3]

/-- unfiltering the current row and then pulling, or pulling first: the same outcome and the same contents -/
theorem UB.unfilter_pull (u : UB) (h : u.Inv) (d : Bytes) (rowlen bpp : Nat) (hl : rowlen ≤ u.currLen) :
    match u.unfilterCurr rowlen bpp, (u.compact.extend d).unfilterCurr rowlen bpp with
    | .ok v, .ok v' => UbEq (v.compact.extend d) v'
    | .unknownFilter _, .unknownFilter _ => True
    | .panic, .panic => True
    | _, _ => False := by
  have hi' : (u.compact.extend d).Inv := UB.inv_extend _ _ (UB.inv_compact _ h)
  have e1 := UB.abs_unfilterCurr u rowlen bpp h
  have e2 := UB.abs_unfilterCurr (u.compact.extend d) rowlen bpp hi'
  have ha : (u.compact.extend d).abs = u.abs.append d := UB.abs_append u d h
  have hlen : rowlen ≤ u.abs.pending.length := by
    have := UB.abs_currLen u; unfold UBAbs.currLen at this; omega
  rw [ha, UBAbs.unfilter_append _ _ _ _ hlen, ← e1] at e2
  cases h1 : u.unfilterCurr rowlen bpp with
  | ok v =>
    cases h2 : (u.compact.extend d).unfilterCurr rowlen bpp with
    | ok v' =>
      rw [h1, h2] at e2
      simp only [UnfOutcome.map, UnfOutcome.ok.injEq] at e2
      have hv := UB.inv_unfilterCurr u v rowlen bpp h h1
      have hv' := UB.inv_unfilterCurr _ v' rowlen bpp hi' h2
      exact UbEq.of_abs (UB.inv_extend _ _ (UB.inv_compact _ hv)) hv' (by rw [← UB.abs_append v d hv] at e2; exact e2.symm)
    | unknownFilter b => rw [h1, h2] at e2; cases e2
    | panic => rw [h1, h2] at e2; cases e2
  | unknownFilter b =>
    cases h2 : (u.compact.extend d).unfilterCurr rowlen bpp with
    | ok v' => rw [h1, h2] at e2; cases e2
    | unknownFilter b' => trivial
    | panic => rw [h1, h2] at e2; cases e2
  | panic =>
    cases h2 : (u.compact.extend d).unfilterCurr rowlen bpp with
    | ok v' => rw [h1, h2] at e2; cases e2
    | unknownFilter b' => rw [h1, h2] at e2; cases e2
    | panic => trivial

theorem Sim.exists {a b : R} (h : Sim a b) : ∃ u, b = { a with ub := u } ∧ (a.sub.cur.isSome → UbEq a.ub u) :=
  ⟨b.ub, h.rest, h.ub⟩

theorem Sim.of_ub (a : R) (u : UB) (h : a.sub.cur.isSome → UbEq a.ub u) : Sim a { a with ub := u } := ⟨rfl, h⟩

theorem markFlushed_sim {a b : R} (h : Sim a b) :
    match markFlushed a, markFlushed b with
    | .ok a', .ok b' => Sim a' b' ∧ a'.sub.cur = a.sub.cur
    | .error e, .error e' => e = e'
    | _, _ => False := by
  obtain ⟨u, rfl, hu⟩ := h.exists
  unfold markFlushed
  by_cases hr : a.remaining = 0
  · rw [if_pos hr, if_pos hr]
  · rw [if_neg hr, if_neg hr]
    exact ⟨⟨rfl, hu⟩, rfl⟩

theorem rawPost_sim {a b : R} (ev : Ev) (h : Sim a b) :
    match rawPost a ev, rawPost b ev with
    | .inl x, .inl y => OutSim x y
    | .inr a', .inr b' => Sim a' b' ∧ a'.sub.cur = a.sub.cur
    | _, _ => False := by
  unfold rawPost
  cases ev <;> first
    | exact ⟨h, rfl⟩
    | exact ⟨rfl, h⟩
    | skip
  have hm := markFlushed_sim h
  simp only
  cases h1 : markFlushed a with
  | error e =>
    cases h2 : markFlushed b with
    | error e' => rw [h1, h2] at hm; simp only at hm; subst hm; exact ⟨rfl, h⟩
    | ok b' => rw [h1, h2] at hm; exact hm.elim
  | ok a' =>
    cases h2 : markFlushed b with
    | error e' => rw [h1, h2] at hm; exact hm.elim
    | ok b' => rw [h1, h2] at hm; exact hm

/-- the relation the row loop respects: `Sim`, with a row still to be delivered -/
def SimCur (a b : R) : Prop := Sim a b ∧ a.sub.cur.isSome

theorem bodyRaw_resp (rowlen : Nat) : (bodyRaw rowlen).Resp SimCur where
  sim := fun _ _ h => h.1
  withS := fun _ _ s h => ⟨h.1.withStream s, h.2⟩
  pre := fun a b h => by
    obtain ⟨u, rfl, hu'⟩ := h.1.exists
    have hu := hu' h.2
    simp only [bodyRaw]
    rw [← hu.currLen]
    by_cases hc : a.ub.currLen < rowlen
    · rw [if_pos hc, if_pos hc]
      cases a.sub.caf with
      | true => exact ⟨rfl, h.1⟩
      | false => trivial
    · rw [if_neg hc, if_neg hc]
      simp only
      have hun := hu.unfilter rowlen a.bpp
      cases h1 : a.ub.unfilterCurr rowlen a.bpp with
      | ok v =>
        cases h2 : u.unfilterCurr rowlen a.bpp with
        | ok v' =>
          rw [h1, h2] at hun
          exact ⟨rfl, ⟨rfl, fun _ => hun⟩⟩
        | unknownFilter _ => rw [h1, h2] at hun; exact hun.elim
        | panic => rw [h1, h2] at hun; exact hun.elim
      | unknownFilter _ =>
        cases h2 : u.unfilterCurr rowlen a.bpp with
        | ok v' => rw [h1, h2] at hun; exact hun.elim
        | unknownFilter _ => exact ⟨rfl, h.1⟩
        | panic => rw [h1, h2] at hun; exact hun.elim
      | panic =>
        cases h2 : u.unfilterCurr rowlen a.bpp with
        | ok v' => rw [h1, h2] at hun; exact hun.elim
        | unknownFilter _ => rw [h1, h2] at hun; exact hun.elim
        | panic => exact ⟨rfl, h.1⟩
  prep := fun a b h => ⟨h.1.setUb _ _ (fun hc => (h.1.ub hc).compact), h.2⟩
  post := fun a b ev data h => by
    simp only [bodyRaw]
    have hs : Sim ({ a with ub := a.ub.extend data } : R) { b with ub := b.ub.extend data } :=
      h.1.setUb _ _ (fun hc => (h.1.ub hc).extend data)
    have hp := rawPost_sim ev hs
    cases h1 : rawPost { a with ub := a.ub.extend data } ev with
    | inl x =>
      cases h2 : rawPost { b with ub := b.ub.extend data } ev with
      | inl y => rw [h1, h2] at hp; exact hp
      | inr y => rw [h1, h2] at hp; exact hp.elim
    | inr x =>
      cases h2 : rawPost { b with ub := b.ub.extend data } ev with
      | inl y => rw [h1, h2] at hp; exact hp.elim
      | inr y =>
        rw [h1, h2] at hp
        exact ⟨hp.1, by rw [hp.2]; exact h.2⟩

theorem rawPost_cur {r2 r'' : R} {ev : Ev} (h : rawPost r2 ev = .inr r'') : r''.sub.cur = r2.sub.cur := by
  unfold rawPost at h
  cases ev <;> simp only at h <;> first
    | (simp only [Sum.inr.injEq] at h; subst h; rfl)
    | (cases h; done)
    | (split at h
       · cases h
       · rename_i r3 hm
         simp only [Sum.inr.injEq] at h; subst h
         unfold markFlushed at hm
         split at hm
         · cases hm
         · simp only [Except.ok.injEq] at hm; subst hm; rfl)

theorem rawPost_more (r2 : R) {ev : Ev} (h : isMore ev = true) : rawPost r2 ev = .inr r2 := by
  cases ev <;> first | rfl | cases h

/-- the invariant of the row loop: the buffer's `debug_assert`s hold and a row is still to be delivered -/
def RawI (r : R) : Prop := r.ub.Inv ∧ r.sub.cur.isSome

theorem bodyRaw_ok' (rowlen : Nat) : (bodyRaw rowlen).Ok RawI :=
  (bodyRaw_ok rowlen).and (J := fun r => r.sub.cur.isSome) (fun _ h => h)
    (fun r ev data r'' h hp => by
      have := rawPost_cur hp
      rw [this]; exact h)
    (fun _ _ h => h) (fun _ _ h => h)

theorem currLen_extend (u : UB) (d : Bytes) (h : u.Inv) : (u.extend d).currLen = u.currLen + d.length := by
  unfold UB.currLen UB.extend
  simp only [List.length_append]
  have := h.2
  omega

theorem bodyRaw_pulls (cfg : Cfg) (rowlen : Nat) : (bodyRaw rowlen).Pulls cfg RawI SimCur where
  resp := bodyRaw_resp rowlen
  e_of := fun _ _ hi hs => ⟨hs, hi.2⟩
  inv_pull := fun X X1 hi hp => by
    obtain ⟨S, ev, d, _, _, rfl⟩ := hp.eq
    exact ⟨UB.inv_extend _ _ (UB.inv_compact _ hi.1), hi.2⟩
  pre_pull := fun X X1 x hi hp hx => by
    have hcaf := hp.1
    obtain ⟨S, ev, d, hd, he, rfl⟩ := hp.eq
    simp only [bodyRaw] at hx ⊢
    by_cases hc : X.ub.currLen < rowlen
    · rw [if_pos hc, hcaf] at hx
      simp at hx
    · rw [if_neg hc] at hx
      have hc1 : ¬ (pullState X S d).ub.currLen < rowlen := by
        show ¬ (X.ub.compact.extend d).currLen < rowlen
        rw [currLen_extend _ _ (UB.inv_compact _ hi.1), currLen_compact _ hi.1]
        omega
      rw [if_neg hc1]
      simp only [Option.some.injEq] at hx
      subst hx
      have hup := UB.unfilter_pull X.ub hi.1 d rowlen X.bpp (by omega)
      have hub1 : (pullState X S d).ub = X.ub.compact.extend d := rfl
      have hbpp : (pullState X S d).bpp = X.bpp := rfl
      rw [hub1, hbpp]
      cases h1 : X.ub.unfilterCurr rowlen X.bpp with
      | ok v =>
        cases h2 : (X.ub.compact.extend d).unfilterCurr rowlen X.bpp with
        | ok v' =>
          rw [h1, h2] at hup
          simp only at hup ⊢
          have hst : SameStream X ({ X with ub := v } : R) := ⟨rfl, rfl, rfl, rfl⟩
          have hd2 := decodeNext'_stream cfg hst
          rw [hd] at hd2
          refine ⟨_, _, rfl, rfl, Pull.mk' hcaf hd2 he, ?_⟩
          exact ⟨rfl, fun _ => hup⟩
        | unknownFilter _ => rw [h1, h2] at hup; exact hup.elim
        | panic => rw [h1, h2] at hup; exact hup.elim
      | unknownFilter _ =>
        cases h2 : (X.ub.compact.extend d).unfilterCurr rowlen X.bpp with
        | ok v' => rw [h1, h2] at hup; exact hup.elim
        | unknownFilter _ => exact ⟨_, _, rfl, rfl, hp, Sim.refl _⟩
        | panic => rw [h1, h2] at hup; exact hup.elim
      | panic =>
        cases h2 : (X.ub.compact.extend d).unfilterCurr rowlen X.bpp with
        | ok v' => rw [h1, h2] at hup; exact hup.elim
        | unknownFilter _ => rw [h1, h2] at hup; exact hup.elim
        | panic => exact ⟨_, _, rfl, rfl, hp, Sim.refl _⟩
  iter_pull := fun X X1 hi hp hx => by
    obtain ⟨S, ev, d, hd, he, rfl⟩ := hp.eq
    have hst : SameStream X ((bodyRaw rowlen).prep X) := ⟨rfl, rfl, rfl, rfl⟩
    have hd2 := decodeNext'_stream cfg hst
    rw [hd] at hd2
    refine ⟨_, ev, d, pullState X S d, hd2, ?_, Sim.refl _⟩
    show rawPost (pullState X S d) ev = _
    exact rawPost_more _ he

theorem bodyRaw_vis (cfg : Cfg) (rowlen : Nat) : (bodyRaw rowlen).Vis cfg RawI where
  post_inl_merge := fun r ev d x0 hp hc => by
    exfalso
    simp only [bodyRaw] at hp
    rcases hc with ⟨rfl, _⟩ | rfl <;> simp only [rawPost, reduceCtorEq] at hp
  merge_pre := fun r S1 r'' ev d x0 hi hpre hc hp hpre2 S2 ev2 d2 f hdec hev2 hM out hout => by
    have hr'' : r'' = { Reader.withStream ({ r with ub := r.ub.compact } : R) S1 with ub := r.ub.compact.extend d } := by
      simp only [bodyRaw] at hp
      rcases hc with ⟨rfl, _⟩ | rfl <;> (simp only [rawPost, Sum.inr.injEq] at hp; exact hp.symm)
    -- the loop went on: the current row was incomplete and the frame not flushed
    have hpre' : r.ub.currLen < rowlen ∧ r.sub.caf = false := by
      simp only [bodyRaw] at hpre
      by_cases hcl : r.ub.currLen < rowlen
      · rw [if_pos hcl] at hpre
        cases hcaf : r.sub.caf with
        | false => exact ⟨hcl, rfl⟩
        | true => rw [hcaf] at hpre; simp at hpre
      · rw [if_neg hcl] at hpre; cases hpre
    rcases hc with ⟨rfl, rfl⟩ | rfl
    · -- `Nothing`: the row is still incomplete
      exfalso
      subst hr''
      simp only [bodyRaw, Reader.withStream, extend_nil] at hpre2
      rw [currLen_compact _ hi.1, if_pos hpre'.1, hpre'.2] at hpre2
      simp at hpre2
    · have he2 := hev2 rfl
      subst he2
      have hi'' : RawI r'' := by
        rw [hr'']; exact ⟨UB.inv_extend _ _ (UB.inv_compact _ hi.1), hi.2⟩
      have hcaf'' : r''.sub.caf = false := by rw [hr'']; exact hpre'.2
      -- the second call as a pull from `r''`
      have hst : SameStream ((bodyRaw rowlen).prep r'') r'' := ⟨rfl, rfl, rfl, rfl⟩
      have hd2 := decodeNext'_stream cfg hst
      rw [hdec] at hd2
      simp only at hd2
      have hpull := Pull.mk' hcaf'' hd2 (ev := .imageData) rfl
      have hY : (bodyRaw rowlen).post (Reader.withStream ((bodyRaw rowlen).prep r) S2) .imageData (d ++ d2) =
          .inr (pullState r'' (Reader.withStream r'' S2) d2) := by
        simp only [bodyRaw, rawPost]
        rw [hr'']
        simp only [pullState, Reader.withStream]
        rw [compact_extend_compact, extend_extend]
      rw [hY] at hout
      simp only at hout
      subst hout
      have hb : BehindN cfg 1 r'' (pullState r'' (Reader.withStream r'' S2) d2) := ⟨_, hpull, Sim.refl _⟩
      have hMY : M (pullState r'' (Reader.withStream r'' S2) d2) < f := by
        have : SameStream S2 (pullState r'' (Reader.withStream r'' S2) d2) := by
          have hws := decodeNext'_withStream cfg ((bodyRaw rowlen).prep r'')
          rw [hdec] at hws
          simp only at hws
          refine ⟨rfl, rfl, ?_, ?_⟩
          · show r''.input = S2.input
            rw [hws]; rfl
          · show r''.visible = S2.visible
            rw [hws]; rfl
        rw [this.M]; exact hM
      have hg := gloop_behind cfg (bodyRaw rowlen) (bodyRaw_ok' rowlen) (bodyRaw_pulls cfg rowlen) (M r'' + 1) r'' hi''
        (Nat.lt_succ_self _) 1 _ f hb hMY
      have hx0 : gloop cfg (bodyRaw rowlen) (M r'' + 1) r'' = x0 := by rw [gloop, hpre2]
      rw [hx0] at hg
      obtain ⟨g1, n', _, g2, _⟩ := hg
      exact ⟨g1.symm, n', g2⟩

/-! ### the loops that discard image data: no row is to be delivered -/

/-- no row of the current frame is to be delivered any more -/
def NoCur (r : R) : Prop := r.sub.cur = none

theorem pull_sim_noCur {cfg : Cfg} {X S : R} {ev : Ev} {d : Bytes} (hi : NoCur X) (hd : decodeNext' cfg X = (S, .ok (ev, d))) :
    Sim S (pullState X S d) := by
  have hws := decodeNext'_withStream cfg X
  rw [hd] at hws
  simp only at hws
  refine ⟨?_, fun hc => ?_⟩
  · conv => rhs; rw [hws]
    rfl
  · rw [hws] at hc
    have : X.sub.cur.isSome = true := hc
    rw [hi] at this; cases this

theorem bodyFinish_ok' : bodyFinish.Ok (fun r => True ∧ NoCur r) :=
  bodyFinish_ok.and (J := NoCur) (fun _ h => h)
    (fun r ev data r'' h hp => by
      cases ev <;> simp only [bodyFinish, Sum.inr.injEq, reduceCtorEq] at hp <;> (subst hp; exact h))
    (fun _ _ h => h) (fun _ _ h => h)

theorem bodyEnd_ok' : bodyEnd.Ok (fun r => True ∧ NoCur r) :=
  bodyEnd_ok.and (J := NoCur) (fun _ h => h)
    (fun r ev data r'' h hp => by
      cases ev <;> simp only [bodyEnd, Sum.inr.injEq, reduceCtorEq] at hp <;> (subst hp; exact h))
    (fun _ _ h => h) (fun _ _ h => h)

theorem bodyFinish_pulls (cfg : Cfg) : bodyFinish.Pulls cfg (fun r => True ∧ NoCur r) Sim where
  resp := bodyFinish_resp
  e_of := fun _ _ _ hs => hs
  inv_pull := fun X X1 hi hp => by
    obtain ⟨S, ev, d, _, _, rfl⟩ := hp.eq
    exact ⟨trivial, hi.2⟩
  pre_pull := fun X X1 x _ _ hx => by cases hx
  iter_pull := fun X X1 hi hp _ => by
    obtain ⟨S, ev, d, hd, he, rfl⟩ := hp.eq
    refine ⟨S, ev, d, S, hd, ?_, pull_sim_noCur hi.2 hd⟩
    cases ev <;> first | rfl | cases he

theorem bodyEnd_pulls (cfg : Cfg) : bodyEnd.Pulls cfg (fun r => True ∧ NoCur r) Sim where
  resp := bodyEnd_resp
  e_of := fun _ _ _ hs => hs
  inv_pull := fun X X1 hi hp => by
    obtain ⟨S, ev, d, _, _, rfl⟩ := hp.eq
    exact ⟨trivial, hi.2⟩
  pre_pull := fun X X1 x _ _ hx => by cases hx
  iter_pull := fun X X1 hi hp _ => by
    obtain ⟨S, ev, d, hd, he, rfl⟩ := hp.eq
    refine ⟨S, ev, d, S, hd, ?_, pull_sim_noCur hi.2 hd⟩
    cases ev <;> first | rfl | cases he

theorem bodyFinish_vis (cfg : Cfg) (I : R → Prop) : bodyFinish.Vis cfg I where
  post_inl_merge := fun r ev d x0 hp hc => by
    exfalso
    rcases hc with ⟨rfl, _⟩ | rfl <;> simp only [bodyFinish, reduceCtorEq] at hp
  merge_pre := fun r S1 r'' ev d x0 _ _ _ _ hpre2 => by cases hpre2

theorem bodyEnd_vis (cfg : Cfg) (I : R → Prop) : bodyEnd.Vis cfg I where
  post_inl_merge := fun r ev d x0 hp hc => by
    exfalso
    rcases hc with ⟨rfl, _⟩ | rfl <;> simp only [bodyEnd, reduceCtorEq] at hp
  merge_pre := fun r S1 r'' ev d x0 _ _ _ _ hpre2 => by cases hpre2

theorem isEmpty_append_false {d : Bytes} (d2 : Bytes) (h : d.isEmpty = false) : (d ++ d2).isEmpty = false := by
  cases d with
  | nil => cases h
  | cons x xs => rfl

theorem bodyUntil_vis (cfg : Cfg) (I : R → Prop) : bodyUntil.Vis cfg I where
  post_inl_merge := fun r ev d x0 hp hc => by
    simp only [bodyUntil] at hp
    cases hde : d.isEmpty with
    | true =>
      exfalso
      rw [hde] at hp
      rcases hc with ⟨rfl, _⟩ | rfl <;> simp only [if_true, reduceCtorEq] at hp
    | false =>
      rw [hde] at hp
      simp only [Bool.false_eq_true, if_false, Sum.inl.injEq] at hp
      subst hp
      refine ⟨_, rfl, rfl, fun r2 ev2 d2 _ => ?_⟩
      simp only [bodyUntil]
      rw [isEmpty_append_false d2 hde]
      exact ⟨_, rfl, rfl⟩
  merge_pre := fun r S1 r'' ev d x0 _ _ _ _ hpre2 => by cases hpre2

end Png.Reader
