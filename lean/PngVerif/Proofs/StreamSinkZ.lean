import PngVerif.Proofs.StreamSinkBase
/-!
# The stream writer under EVERY sink behaviour, part 2: the zlib encoder on top of the chunk writer

`ZEnc` = flate2's `ZlibEncoder<ChunkWriter>`: whatever is pending in `zio::Writer::buf`, whatever the state of the
chunk buffer (a failed `flush_inner` leaves it full, `ChunkWriter::write` then answers `Ok(0)` = `WriteZero`), the
operations `dump`, `write_all`, `flush`, `finish` and the drop never panic, keep the `Writer` open and change it
only by `Tr 0`; they return `Ok` only if every chunk they handed to the sink got through completely.
-/
namespace Png.Enc
open Png Png.Val

theorem Tr.refl' (s : WState) {n : Nat} {P : Prop} : Tr n P s s :=
  (Tr.refl s).weaken (Nat.zero_le _) (fun _ => trivial)

/-- `zio::Writer::dump` from any state of the chunk writer and with anything pending -/
theorem ZEnc.dumpAux_ok (fuel : Nat) : ∀ z : ZEnc, CWOk z.cw → ∀ z' r, ZEnc.dumpAux fuel z = (z', r) →
    r.isPanic = false ∧ CWOk z'.cw ∧ Tr 0 (r = .ok) z.cw.w z'.cw.w := by
  induction fuel with
  | zero =>
    intro z h z' r hf
    simp only [ZEnc.dumpAux, Prod.mk.injEq] at hf; obtain ⟨rfl, rfl⟩ := hf
    exact ⟨rfl, h, Tr.refl' _⟩
  | succ k ih =>
    intro z h z' r hf
    simp only [ZEnc.dumpAux] at hf
    by_cases hp : z.pending = []
    · rw [if_pos hp] at hf
      simp only [Prod.mk.injEq] at hf; obtain ⟨rfl, rfl⟩ := hf
      exact ⟨rfl, h, Tr.refl' _⟩
    · rw [if_neg hp] at hf
      cases hw : z.cw.write z.pending with
      | mk cw' o =>
        obtain ⟨a1, a2, a3, _⟩ := h.write z.pending cw' o hw
        rw [hw] at hf
        cases o with
        | ok n =>
          simp only at hf
          by_cases hn : n = 0
          · rw [if_pos hn] at hf
            simp only [Prod.mk.injEq] at hf; obtain ⟨rfl, rfl⟩ := hf
            exact ⟨rfl, a2, a3.weaken (Nat.le_refl _) (fun hh => by cases hh)⟩
          · rw [if_neg hn] at hf
            obtain ⟨b1, b2, b3⟩ := ih { z with cw := cw', pending := z.pending.drop n } a2 z' r hf
            exact ⟨b1, b2, a3.comp b3 (Nat.le_refl _) (fun hh => ⟨rfl, hh⟩)⟩
        | err e =>
          simp only [Prod.mk.injEq] at hf; obtain ⟨rfl, rfl⟩ := hf
          exact ⟨rfl, a2, a3.weaken (Nat.le_refl _) (fun hh => by cases hh)⟩
        | panic p => cases a1

theorem ZEnc.dump_ok {z : ZEnc} (h : CWOk z.cw) : ∀ z' r, z.dump = (z', r) →
    r.isPanic = false ∧ CWOk z'.cw ∧ Tr 0 (r = .ok) z.cw.w z'.cw.w :=
  ZEnc.dumpAux_ok _ z h

/-- `write_all` on the encoder: pending output is forwarded first -/
theorem ZEnc.writeAll_ok (Z : ZCodec) {z : ZEnc} (h : CWOk z.cw) (d : Bytes) : ∀ z' r, z.writeAll Z d = (z', r) →
    r.isPanic = false ∧ CWOk z'.cw ∧ Tr 0 (r = .ok) z.cw.w z'.cw.w := by
  intro z' r hf
  unfold ZEnc.writeAll at hf
  by_cases hd : d = []
  · rw [if_pos hd] at hf
    simp only [Prod.mk.injEq] at hf; obtain ⟨rfl, rfl⟩ := hf
    exact ⟨rfl, h, Tr.refl' _⟩
  · rw [if_neg hd] at hf
    cases hdu : z.dump with
    | mk z1 r1 =>
      obtain ⟨a1, a2, a3⟩ := ZEnc.dump_ok h z1 r1 hdu
      rw [hdu] at hf
      cases r1 with
      | ok =>
        simp only [Prod.mk.injEq] at hf; obtain ⟨rfl, rfl⟩ := hf
        exact ⟨rfl, a2, a3⟩
      | err e =>
        simp only [Prod.mk.injEq] at hf; obtain ⟨rfl, rfl⟩ := hf
        exact ⟨rfl, a2, a3⟩
      | panic p => cases a1

/-- `ZlibEncoder::flush`: `Ok` means the chunk buffer is empty afterwards -/
theorem ZEnc.flush_ok (Z : ZCodec) {z : ZEnc} (h : CWOk z.cw) : ∀ z' r, z.flush Z = (z', r) →
    r.isPanic = false ∧ CWOk z'.cw ∧ Tr 0 (r = .ok) z.cw.w z'.cw.w := by
  intro z' r hf
  unfold ZEnc.flush at hf
  simp only at hf
  cases hdu : ZEnc.dump { z with pending := z.pending ++ Z.out z.hist ZOp.flush, hist := z.hist ++ [ZOp.flush] } with
  | mk z1 r1 =>
    obtain ⟨a1, a2, a3⟩ := ZEnc.dump_ok (z := { z with pending := z.pending ++ Z.out z.hist ZOp.flush, hist := z.hist ++ [ZOp.flush] })
      h z1 r1 hdu
    rw [hdu] at hf
    cases r1 with
    | ok =>
      simp only at hf
      cases hfi : z1.cw.flushInner with
      | mk c1 r2 =>
        obtain ⟨b1, b2, b3, _⟩ := a2.flushInner c1 r2 hfi
        rw [hfi] at hf
        simp only [Prod.mk.injEq] at hf; obtain ⟨rfl, rfl⟩ := hf
        exact ⟨b1, b2, a3.comp b3 (Nat.le_refl _) (fun hh => ⟨rfl, hh⟩)⟩
    | err e =>
      simp only [Prod.mk.injEq] at hf; obtain ⟨rfl, rfl⟩ := hf
      exact ⟨rfl, a2, a3⟩
    | panic p => cases a1

/-- `zio::Writer::finish` -/
theorem ZEnc.finish_ok (Z : ZCodec) {z : ZEnc} (h : CWOk z.cw) : ∀ z' r, z.finish Z = (z', r) →
    r.isPanic = false ∧ CWOk z'.cw ∧ Tr 0 (r = .ok) z.cw.w z'.cw.w := by
  intro z' r hf
  unfold ZEnc.finish at hf
  cases hdu : z.dump with
  | mk z1 r1 =>
    obtain ⟨a1, a2, a3⟩ := ZEnc.dump_ok h z1 r1 hdu
    rw [hdu] at hf
    cases r1 with
    | ok =>
      simp only at hf
      by_cases hfin : z1.finished = true
      · rw [if_pos hfin] at hf
        simp only [Prod.mk.injEq] at hf; obtain ⟨rfl, rfl⟩ := hf
        exact ⟨rfl, a2, a3⟩
      · rw [if_neg hfin] at hf
        obtain ⟨b1, b2, b3⟩ := ZEnc.dump_ok
          (z := { z1 with pending := z1.pending ++ Z.out z1.hist ZOp.finish, hist := z1.hist ++ [ZOp.finish] }) a2 z' r hf
        exact ⟨b1, b2, a3.comp b3 (Nat.le_refl _) (fun hh => ⟨rfl, hh⟩)⟩
    | err e =>
      simp only [Prod.mk.injEq] at hf; obtain ⟨rfl, rfl⟩ := hf
      exact ⟨rfl, a2, a3⟩
    | panic p => cases a1

/-- dropping the encoder: `let _ = self.finish()`, the chunk writer, an owned `Writer`: no panic; errors are lost -/
theorem ZEnc.drop_ok (Z : ZCodec) {z : ZEnc} (h : CWOk z.cw) (owned : Bool) : ∀ w' r, z.drop Z owned = (w', r) →
    r.isPanic = false ∧ Tr 0 False z.cw.w w' ∧ Rel owned w' := by
  intro w' r hf
  unfold ZEnc.drop at hf
  cases hfi : z.finish Z with
  | mk z1 r1 =>
    obtain ⟨a1, a2, a3⟩ := ZEnc.finish_ok Z h z1 r1 hfi
    rw [hfi] at hf
    have hd : z1.cw.drop owned = (w', r) := by
      cases r1 with
      | panic p => cases a1
      | ok => exact hf
      | err e => exact hf
    obtain ⟨b1, b2, b3⟩ := a2.drop owned w' r hd
    exact ⟨b1, a3.comp b2 (Nat.le_refl _) (fun f => f.elim), b3⟩

end Png.Enc
