import PngVerif.Model.Inflate
import Init.Internal.Order.While
/-!
# The model inflater reads its input locally (C11, Adler-32 policy)

`Model/Inflate.lean` is an executable RFC 1950/1951 decoder written with loops (`for`, `while`) over a `BitReader`
(`data`, byte position, bit position).  This file proves that whatever it decodes SUCCESSFULLY it decodes from the bytes it has
advanced over: on every other input of the same size that agrees on those bytes it gives the same answer.

* `Agree k z z'`: same size, same first `k` bytes.  `BitReader.ceil`: number of bytes touched so far.  `BitReader.swap`: the same
  reader on other data.  `LocAt` / `Loc`: the form of all statements — "`f r = some (v, r')` implies: same data, `r` advanced to
  `r'`, and `f (r.swap z') = some (v, r'.swap z')` for every `z'` with `Agree r'.ceil r.data z'`".
* primitives: `readBit_loc`, `readBits_loc`; `decodeSym_eq` rewrites the `for` loop of `decodeSym` as a structural recursion
  (`dsLoop`), `decodeSym_loc`.
* `codesP_succ`, `inflateBlocksP_succ'`: unfolding equations (by `rfl`; Lean's equation compiler gives up on `codesP`);
  `codesP_loc`: a block of Huffman codes decoded up to its end-of-block symbol.
* generic loops that thread a reader through their state: `forIn_list_loc` (`for` over a list / range), `forIn_loop_loc`
  (`while`, through `Lean.Loop.forIn_eq_of_monadTail`, with a decreasing measure).
* `readDynamic_eq`: `readDynamic` cut into named pieces (`dynCl`, `dynRep`, `dynLen`, `dynTail`; by `rfl`); `dynLoc`.
* `blockStep_loc`, `inflateBlocksP_loc`: whole blocks (stored, fixed, dynamic) up to and including the final one.
* **`zlibPrefix_off_trailer_indep`**: with the Adler-32 check off, an answer `done o n` depends on the first `n - 4` bytes (and
  the size of the input) only — not on the four trailer bytes, nor on anything after them.

Core Lean only.  No `sorry`, no axioms beyond `propext`, `Classical.choice`, `Quot.sound`.
-/
namespace Png.Inf

/-- same size, same first `k` bytes -/
def Agree (k : Nat) (z z' : ByteArray) : Prop := z.size = z'.size ∧ ∀ i, i < k → z[i]! = z'[i]!

theorem Agree.mono {k k' : Nat} {z z' : ByteArray} (h : Agree k z z') (hk : k' ≤ k) : Agree k' z z' :=
  ⟨h.1, fun i hi => h.2 i (by omega)⟩

/-- number of input bytes a reader has touched -/
def BitReader.ceil (r : BitReader) : Nat := if r.bit = 0 then r.pos else r.pos + 1

/-- the same reader on other data -/
def BitReader.swap (r : BitReader) (z' : ByteArray) : BitReader := { r with data := z' }

@[simp] theorem swap_data (r : BitReader) (z' : ByteArray) : (r.swap z').data = z' := rfl
@[simp] theorem swap_pos (r : BitReader) (z' : ByteArray) : (r.swap z').pos = r.pos := rfl
@[simp] theorem swap_bit (r : BitReader) (z' : ByteArray) : (r.swap z').bit = r.bit := rfl
@[simp] theorem swap_ceil (r : BitReader) (z' : ByteArray) : (r.swap z').ceil = r.ceil := rfl

/-- `f` succeeded on `r` ending in `r'` with value `v`: it stays on the same data, only advances, and gives the same answer
    on every input that agrees with the data on the bytes touched up to `r'` -/
def LocAt {α : Type} (f : BitReader → Option (α × BitReader)) (r : BitReader) (v : α) (r' : BitReader) : Prop :=
  r'.data = r.data ∧ r.ceil ≤ r'.ceil ∧ ∀ z', Agree r'.ceil r.data z' → f (r.swap z') = some (v, r'.swap z')

def Loc {α : Type} (f : BitReader → Option (α × BitReader)) : Prop :=
  ∀ r v r', f r = some (v, r') → LocAt f r v r'

theorem readBit_loc : Loc BitReader.readBit := by
  intro r v r' h
  unfold BitReader.readBit at h
  by_cases hp : r.pos < r.data.size
  · rw [if_pos hp] at h
    simp only at h
    have key : ∀ z', Agree (r.pos + 1) r.data z' →
        (r.swap z').pos < (r.swap z').data.size ∧ (r.swap z').data[(r.swap z').pos]! = r.data[r.pos]! := by
      intro z' ha
      exact ⟨by simp only [swap_pos, swap_data]; rw [← ha.1]; exact hp, (ha.2 r.pos (by omega)).symm⟩
    by_cases hb : r.bit = 7
    · rw [if_pos hb] at h
      cases h
      refine ⟨rfl, ?_, ?_⟩
      · simp only [BitReader.ceil]; split <;> simp
      · intro z' ha
        obtain ⟨k1, k2⟩ := key z' (by simpa [BitReader.ceil] using ha)
        unfold BitReader.readBit
        rw [if_pos k1, k2]
        simp only [swap_bit, hb, if_true]
        rfl
    · rw [if_neg hb] at h
      cases h
      refine ⟨rfl, ?_, ?_⟩
      · simp only [BitReader.ceil]; split <;> simp
      · intro z' ha
        obtain ⟨k1, k2⟩ := key z' (by simpa [BitReader.ceil] using ha)
        unfold BitReader.readBit
        rw [if_pos k1, k2]
        simp only [swap_bit, hb, if_false]
        rfl
  · rw [if_neg hp] at h; cases h

/-- sequencing two local steps -/
theorem LocAt.bind {α β : Type} {f : BitReader → Option (α × BitReader)} {g : α → BitReader → Option (β × BitReader)}
    {r r1 r2 : BitReader} {a : α} {b : β} (hf : LocAt f r a r1) (hg : LocAt (g a) r1 b r2) :
    r2.data = r.data ∧ r.ceil ≤ r2.ceil ∧ ∀ z', Agree r2.ceil r.data z' →
      f (r.swap z') = some (a, r1.swap z') ∧ g a (r1.swap z') = some (b, r2.swap z') := by
  obtain ⟨f1, f2, f3⟩ := hf
  obtain ⟨g1, g2, g3⟩ := hg
  refine ⟨g1.trans f1, Nat.le_trans f2 g2, fun z' ha => ⟨f3 z' (ha.mono g2), g3 z' (f1 ▸ ha)⟩⟩

theorem readBits_loc (n : Nat) : Loc (fun r => BitReader.readBits r n) := by
  induction n with
  | zero =>
    intro r v r' h
    simp only [BitReader.readBits] at h
    cases h
    exact ⟨rfl, Nat.le_refl _, fun z' _ => rfl⟩
  | succ n ih =>
    intro r v r' h
    simp only [BitReader.readBits, bind, Option.bind] at h
    cases h1 : r.readBit with
    | none => rw [h1] at h; cases h
    | some p1 =>
      obtain ⟨b, r1⟩ := p1
      rw [h1] at h
      simp only at h
      cases h2 : r1.readBits n with
      | none => rw [h2] at h; cases h
      | some p2 =>
        obtain ⟨w, r2⟩ := p2
        rw [h2] at h
        simp only [pure, Option.some.injEq, Prod.mk.injEq] at h
        obtain ⟨rfl, rfl⟩ := h
        obtain ⟨k1, k2, k3⟩ := LocAt.bind (g := fun _ r => BitReader.readBits r n) (readBit_loc r b r1 h1) (ih r1 w r2 h2)
        refine ⟨k1, k2, fun z' ha => ?_⟩
        obtain ⟨e1, e2⟩ := k3 z' ha
        simp only [BitReader.readBits, bind, Option.bind, e1, e2, pure]

/-- the loop of `decodeSym`, as a recursion over the code lengths still to try -/
def dsLoop (h : Huff) : List Nat → Int → Int → Int → BitReader → Option (Nat × BitReader)
  | [], _, _, _, _ => none
  | len :: ls, code, first, index, rd =>
    match rd.readBit with
    | none => none
    | some (b, r1) =>
      if code + (b : Int) - (h.count[len]! : Int) < first then
        some (h.symbol[(index + (code + (b : Int) - first)).toNat]!, r1)
      else dsLoop h ls ((code + (b : Int)) * 2) ((first + (h.count[len]! : Int)) * 2) (index + (h.count[len]! : Int)) r1

theorem decodeSym_eq (h : Huff) (r : BitReader) : decodeSym h r = dsLoop h (List.range' 1 15) 0 0 0 r := by
  unfold decodeSym
  simp only [Std.Legacy.Range.forIn_eq_forIn_range', Std.Legacy.Range.size]
  have h15 : (16 - 1 + 1 - 1) / 1 = 15 := rfl
  rw [h15]
  generalize List.range' 1 15 = l
  generalize hs : ((none : Option (Option (Nat × BitReader))), (0 : Int), (0 : Int), (0 : Int), r) = s
  have e1 : s.1 = none := by rw [← hs]
  have e2 : dsLoop h l 0 0 0 r = dsLoop h l s.2.1 s.2.2.1 s.2.2.2.1 s.2.2.2.2 := by rw [← hs]
  rw [e2]
  clear hs e2
  induction l generalizing s with
  | nil =>
    obtain ⟨o, code, first, index, rd⟩ := s
    simp only at e1; subst e1
    rfl
  | cons len ls ih =>
    obtain ⟨o, code, first, index, rd⟩ := s
    simp only at e1; subst e1
    simp only [List.forIn_cons, dsLoop]
    cases hb : rd.readBit with
    | none => rfl
    | some p =>
      obtain ⟨b, r1⟩ := p
      simp only
      by_cases hc : code + (b : Int) - (h.count[len]! : Int) < first
      · simp only [hc, if_true]; rfl
      · simp only [hc, if_false]
        exact ih _ rfl

theorem dsLoop_loc (h : Huff) : ∀ (l : List Nat) (code first index : Int), Loc (dsLoop h l code first index) := by
  intro l
  induction l with
  | nil => intro code first index r v r' hr; cases hr
  | cons len ls ih =>
    intro code first index r v r' hr
    simp only [dsLoop] at hr
    cases hb : r.readBit with
    | none => rw [hb] at hr; cases hr
    | some p =>
      obtain ⟨b, r1⟩ := p
      rw [hb] at hr
      simp only at hr
      have hb' := readBit_loc r b r1 hb
      by_cases hc : code + (b : Int) - (h.count[len]! : Int) < first
      · rw [if_pos hc] at hr
        cases hr
        refine ⟨hb'.1, hb'.2.1, fun z' ha => ?_⟩
        simp only [dsLoop, hb'.2.2 z' ha, hc, if_true]
      · rw [if_neg hc] at hr
        obtain ⟨k1, k2, k3⟩ := LocAt.bind (g := fun (b : Nat) => dsLoop h ls ((code + (b : Int)) * 2)
          ((first + (h.count[len]! : Int)) * 2) (index + (h.count[len]! : Int))) hb' (ih _ _ _ r1 v r' hr)
        refine ⟨k1, k2, fun z' ha => ?_⟩
        obtain ⟨e1, e2⟩ := k3 z' ha
        simp only [dsLoop, e1, hc, if_false, e2]

theorem decodeSym_loc (h : Huff) : Loc (decodeSym h) := by
  intro r v r' hr
  rw [decodeSym_eq] at hr
  obtain ⟨k1, k2, k3⟩ := dsLoop_loc h _ _ _ _ r v r' hr
  exact ⟨k1, k2, fun z' ha => by rw [decodeSym_eq]; exact k3 z' ha⟩


/-- the copy loop of an LZ77 match (no input is read) -/
def copyMatch (out : ByteArray) (len d : Nat) : ByteArray := Id.run do
  let mut o := out
  for _ in [0:len] do o := o.push o[o.size - d]!
  return o

theorem codesP_succ (lit dist : Huff) (limit fuel : Nat) (r : BitReader) (out : ByteArray) :
    codesP lit dist limit (fuel + 1) r out =
    match decodeSym lit r with
    | none => if r.pos + 2 ≥ r.data.size then some (r, out, false) else none
    | some (sym, r1) =>
      if sym < 256 then
        if out.size ≥ limit then none else codesP lit dist limit fuel r1 (out.push sym.toUInt8)
      else if sym = 256 then some (r1, out, true)
      else
        if sym - 257 ≥ 29 then none else
        match r1.readBits lenExtra[sym - 257]! with
        | none => some (r, out, false)
        | some (eb, r2) =>
          match decodeSym dist r2 with
          | none => if r2.pos + 2 ≥ r2.data.size then some (r, out, false) else none
          | some (ds, r3) =>
            if ds ≥ 30 then none else
            match r3.readBits distExtra[ds]! with
            | none => some (r, out, false)
            | some (de, r4) =>
              if distBase[ds]! + de > out.size then none else
              if out.size + (lenBase[sym - 257]! + eb) > limit then none else
              codesP lit dist limit fuel r4 (copyMatch out (lenBase[sym - 257]! + eb) (distBase[ds]! + de)) := by
  set_option maxRecDepth 1000000 in
  rfl

/-- a block of Huffman codes decoded to its end-of-block symbol: local -/
theorem codesP_loc (lit dist : Huff) (limit : Nat) : ∀ (fuel : Nat) (r : BitReader) (out : ByteArray) (r' : BitReader)
    (out' : ByteArray), codesP lit dist limit fuel r out = some (r', out', true) →
    r'.data = r.data ∧ r.ceil ≤ r'.ceil ∧
    ∀ z', Agree r'.ceil r.data z' → codesP lit dist limit fuel (r.swap z') out = some (r'.swap z', out', true) := by
  intro fuel
  induction fuel with
  | zero => intro r out r' out' h; cases h
  | succ fuel ih =>
    intro r out r' out' h
    rw [codesP_succ] at h
    cases h1 : decodeSym lit r with
    | none =>
      rw [h1] at h
      simp only at h
      split at h <;> cases h
    | some p1 =>
      obtain ⟨sym, r1⟩ := p1
      rw [h1] at h
      simp only at h
      have l1 := decodeSym_loc lit r sym r1 h1
      by_cases c1 : sym < 256
      · rw [if_pos c1] at h
        by_cases c2 : out.size ≥ limit
        · rw [if_pos c2] at h; cases h
        · rw [if_neg c2] at h
          obtain ⟨k1, k2, k3⟩ := ih r1 _ r' out' h
          refine ⟨k1.trans l1.1, Nat.le_trans l1.2.1 k2, fun z' ha => ?_⟩
          rw [codesP_succ, l1.2.2 z' (ha.mono k2)]
          dsimp only
          rw [if_pos c1, if_neg c2]
          exact k3 z' (l1.1 ▸ ha)
      · rw [if_neg c1] at h
        by_cases c2 : sym = 256
        · rw [if_pos c2] at h
          cases h
          refine ⟨l1.1, l1.2.1, fun z' ha => ?_⟩
          rw [codesP_succ, l1.2.2 z' ha]
          dsimp only
          rw [if_neg c1, if_pos c2]
        · rw [if_neg c2] at h
          by_cases c3 : sym - 257 ≥ 29
          · rw [if_pos c3] at h; cases h
          · rw [if_neg c3] at h
            cases h2 : r1.readBits lenExtra[sym - 257]! with
            | none => rw [h2] at h; cases h
            | some p2 =>
              obtain ⟨eb, r2⟩ := p2
              rw [h2] at h
              simp only at h
              have l2 := readBits_loc _ r1 eb r2 h2
              cases h3 : decodeSym dist r2 with
              | none =>
                rw [h3] at h
                simp only at h
                split at h <;> cases h
              | some p3 =>
                obtain ⟨ds, r3⟩ := p3
                rw [h3] at h
                simp only at h
                have l3 := decodeSym_loc dist r2 ds r3 h3
                by_cases c4 : ds ≥ 30
                · rw [if_pos c4] at h; cases h
                · rw [if_neg c4] at h
                  cases h4 : r3.readBits distExtra[ds]! with
                  | none => rw [h4] at h; cases h
                  | some p4 =>
                    obtain ⟨de, r4⟩ := p4
                    rw [h4] at h
                    simp only at h
                    have l4 := readBits_loc _ r3 de r4 h4
                    by_cases c5 : distBase[ds]! + de > out.size
                    · rw [if_pos c5] at h; cases h
                    · rw [if_neg c5] at h
                      by_cases c6 : out.size + (lenBase[sym - 257]! + eb) > limit
                      · rw [if_pos c6] at h; cases h
                      · rw [if_neg c6] at h
                        obtain ⟨k1, k2, k3⟩ := ih r4 _ r' out' h
                        have d1 : r1.data = r.data := l1.1
                        have d2 : r2.data = r.data := l2.1.trans d1
                        have d3 : r3.data = r.data := l3.1.trans d2
                        have d4 : r4.data = r.data := l4.1.trans d3
                        have m1 := l1.2.1; have m2 := l2.2.1; have m3 := l3.2.1; have m4 := l4.2.1
                        refine ⟨k1.trans d4, by omega, fun z' ha => ?_⟩
                        have e2 : (r1.swap z').readBits lenExtra[sym - 257]! = some (eb, r2.swap z') :=
                          l2.2.2 z' (d1 ▸ ha.mono (by omega))
                        have e4 : (r3.swap z').readBits distExtra[ds]! = some (de, r4.swap z') :=
                          l4.2.2 z' (d3 ▸ ha.mono (by omega))
                        rw [codesP_succ, l1.2.2 z' (ha.mono (by omega))]
                        dsimp only
                        rw [if_neg c1, if_neg c2, if_neg c3, e2]
                        dsimp only
                        rw [l3.2.2 z' (d2 ▸ ha.mono (by omega))]
                        dsimp only
                        rw [if_neg c4, e4]
                        dsimp only
                        rw [if_neg c5, if_neg c6]
                        exact k3 z' (d4 ▸ ha)


theorem swap_alignByte (r : BitReader) (z' : ByteArray) : (r.swap z').alignByte = r.alignByte.swap z' := by
  by_cases h : r.bit = 0 <;> simp [BitReader.alignByte, BitReader.swap, h]

theorem alignByte_ceil (r : BitReader) : r.alignByte.ceil = r.ceil ∧ r.alignByte.bit = 0 ∧ r.alignByte.data = r.data ∧
    r.alignByte.pos = r.ceil := by
  unfold BitReader.alignByte BitReader.ceil
  by_cases h : r.bit = 0
  · simp [h]
  · simp [h]

theorem getElem!_eq_getElem (z : ByteArray) (i : Nat) (h : i < z.size) : z[i]! = z[i] := getElem!_pos z i h

theorem extract_agree {z z' : ByteArray} {a n : Nat} (h : Agree (a + n) z z') (hle : a + n ≤ z.size) :
    z.extract a (a + n) = z'.extract a (a + n) := by
  rw [ByteArray.extract_eq_extract_iff_getElem hle (by rw [← h.1]; exact hle)]
  intro k hk
  have := h.2 (a + k) (by omega)
  rw [getElem!_eq_getElem _ _ (by omega), getElem!_eq_getElem _ _ (by rw [← h.1]; omega)] at this
  exact this

/-- the table description of a dynamic block is read locally -/
def DynLoc : Prop := ∀ (r : BitReader) (lit dist : Huff) (r3 : BitReader), readDynamic r = some (lit, dist, r3) →
    r3.data = r.data ∧ r.ceil ≤ r3.ceil ∧
    ∀ z', Agree r3.ceil r.data z' → readDynamic (r.swap z') = some (lit, dist, r3.swap z')

theorem inflateBlocksP_succ (limit fuel : Nat) (r : BitReader) (out : ByteArray) :
    inflateBlocksP limit (fuel + 1) r out =
    match r.readBit with
    | none => some (none, out)
    | some (last, r1) =>
      match r1.readBits 2 with
      | none => some (none, out)
      | some (typ, r2) =>
        let step : Option (BitReader × ByteArray × Bool) :=
          match typ with
          | 0 =>
            let ra := r2.alignByte
            if ra.pos + 4 > ra.data.size then some (ra, out, false) else
            let len := ra.data[ra.pos]!.toNat + 256 * ra.data[ra.pos+1]!.toNat
            let nlen := ra.data[ra.pos+2]!.toNat + 256 * ra.data[ra.pos+3]!.toNat
            if len + nlen ≠ 65535 then none else
            let avail := min len (ra.data.size - (ra.pos + 4))
            if out.size + avail > limit then none else
            let out' := out ++ ra.data.extract (ra.pos + 4) (ra.pos + 4 + avail)
            some ({ ra with pos := ra.pos + 4 + avail }, out', avail == len)
          | 1 => codesP fixedLit fixedDist limit (8 * r2.data.size + 8) r2 out
          | 2 =>
            match readDynamic r2 with
            | some (lit, dist, r3) => codesP lit dist limit (8 * r3.data.size + 8) r3 out
            | none => if r2.pos + 900 ≥ r2.data.size then some (r2, out, false) else none
          | _ => none
        match step with
        | none => none
        | some (_, out', false) => some (none, out')
        | some (r', out', true) => if last = 1 then some (some r', out') else inflateBlocksP limit fuel r' out' := by
  rfl

/-- one block (`step` in `inflateBlocksP`), finished: local -/
def blockStep (limit : Nat) (typ : Nat) (r2 : BitReader) (out : ByteArray) : Option (BitReader × ByteArray × Bool) :=
  match typ with
  | 0 =>
    let ra := r2.alignByte
    if ra.pos + 4 > ra.data.size then some (ra, out, false) else
    let len := ra.data[ra.pos]!.toNat + 256 * ra.data[ra.pos+1]!.toNat
    let nlen := ra.data[ra.pos+2]!.toNat + 256 * ra.data[ra.pos+3]!.toNat
    if len + nlen ≠ 65535 then none else
    let avail := min len (ra.data.size - (ra.pos + 4))
    if out.size + avail > limit then none else
    let out' := out ++ ra.data.extract (ra.pos + 4) (ra.pos + 4 + avail)
    some ({ ra with pos := ra.pos + 4 + avail }, out', avail == len)
  | 1 => codesP fixedLit fixedDist limit (8 * r2.data.size + 8) r2 out
  | 2 =>
    match readDynamic r2 with
    | some (lit, dist, r3) => codesP lit dist limit (8 * r3.data.size + 8) r3 out
    | none => if r2.pos + 900 ≥ r2.data.size then some (r2, out, false) else none
  | _ => none

theorem inflateBlocksP_succ' (limit fuel : Nat) (r : BitReader) (out : ByteArray) :
    inflateBlocksP limit (fuel + 1) r out =
    match r.readBit with
    | none => some (none, out)
    | some (last, r1) =>
      match r1.readBits 2 with
      | none => some (none, out)
      | some (typ, r2) =>
        match blockStep limit typ r2 out with
        | none => none
        | some (_, out', false) => some (none, out')
        | some (r', out', true) => if last = 1 then some (some r', out') else inflateBlocksP limit fuel r' out' := by
  rfl


theorem blockStep_loc (hd : DynLoc) (limit typ : Nat) (r2 : BitReader) (out : ByteArray) (r' : BitReader) (out' : ByteArray)
    (h : blockStep limit typ r2 out = some (r', out', true)) :
    r'.data = r2.data ∧ r2.ceil ≤ r'.ceil ∧
    ∀ z', Agree r'.ceil r2.data z' → blockStep limit typ (r2.swap z') out = some (r'.swap z', out', true) := by
  match typ, h with
  | 0, h =>
    simp only [blockStep] at h
    obtain ⟨a1, a2, a3, a4⟩ := alignByte_ceil r2
    generalize hra : r2.alignByte = ra at h a1 a2 a3 a4
    by_cases c1 : ra.pos + 4 > ra.data.size
    · rw [if_pos c1] at h; cases h
    · rw [if_neg c1] at h
      generalize hlen : ra.data[ra.pos]!.toNat + 256 * ra.data[ra.pos+1]!.toNat = len at h
      generalize hnlen : ra.data[ra.pos+2]!.toNat + 256 * ra.data[ra.pos+3]!.toNat = nlen at h
      by_cases c2 : len + nlen ≠ 65535
      · rw [if_pos c2] at h; cases h
      · rw [if_neg c2] at h
        generalize hav : min len (ra.data.size - (ra.pos + 4)) = avail at h
        by_cases c3 : out.size + avail > limit
        · rw [if_pos c3] at h; cases h
        · rw [if_neg c3] at h
          simp only [Option.some.injEq, Prod.mk.injEq, beq_iff_eq] at h
          obtain ⟨rfl, rfl, havail⟩ := h
          have hceil : ({ ra with pos := ra.pos + 4 + avail } : BitReader).ceil = ra.pos + 4 + avail := by
            simp [BitReader.ceil, a2]
          have hrc : r2.ceil = ra.pos := by rw [← a1, BitReader.ceil, a2]; simp
          refine ⟨a3, by rw [hceil, hrc]; omega, fun z' ha => ?_⟩
          rw [hceil, ← a3] at ha
          simp only [blockStep, swap_alignByte, hra, swap_data, swap_pos]
          have g0 : z'[ra.pos]! = ra.data[ra.pos]! := (ha.2 _ (by omega)).symm
          have g1 : z'[ra.pos+1]! = ra.data[ra.pos+1]! := (ha.2 _ (by omega)).symm
          have g2 : z'[ra.pos+2]! = ra.data[ra.pos+2]! := (ha.2 _ (by omega)).symm
          have g3 : z'[ra.pos+3]! = ra.data[ra.pos+3]! := (ha.2 _ (by omega)).symm
          rw [g0, g1, g2, g3, ← ha.1, if_neg c1, hlen, hnlen, if_neg c2, hav, if_neg c3]
          have hex := extract_agree (a := ra.pos + 4) (n := avail) ha (by omega)
          rw [← hex]
          simp only [Option.some.injEq, Prod.mk.injEq, beq_iff_eq]
          exact ⟨rfl, trivial, havail⟩
  | 1, h =>
    simp only [blockStep] at h
    obtain ⟨k1, k2, k3⟩ := codesP_loc _ _ _ _ _ _ _ _ h
    refine ⟨k1, k2, fun z' ha => ?_⟩
    simp only [blockStep, swap_data, ← ha.1]
    exact k3 z' ha
  | 2, h =>
    simp only [blockStep] at h
    cases hdyn : readDynamic r2 with
    | none =>
      rw [hdyn] at h
      simp only at h
      split at h <;> cases h
    | some p =>
      obtain ⟨lit, dist, r3⟩ := p
      rw [hdyn] at h
      simp only at h
      obtain ⟨d1, d2, d3⟩ := hd r2 lit dist r3 hdyn
      obtain ⟨k1, k2, k3⟩ := codesP_loc _ _ _ _ _ _ _ _ h
      refine ⟨k1.trans d1, Nat.le_trans d2 k2, fun z' ha => ?_⟩
      simp only [blockStep, d3 z' (ha.mono k2)]
      have hsz : (r3.swap z').data.size = r3.data.size := by rw [swap_data, d1]; exact ha.1.symm
      rw [hsz]
      exact k3 z' (d1 ▸ ha)
  | n + 3, h => simp [blockStep] at h

/-- **The deflate decoder never looks beyond the end of the final block**: if all blocks up to the final one are decoded from
    `r` ending at `r'`, the same happens on every input of the same size that agrees on the bytes touched up to `r'` -/
theorem inflateBlocksP_loc (hd : DynLoc) (limit : Nat) : ∀ (fuel : Nat) (r : BitReader) (out : ByteArray) (r' : BitReader)
    (out' : ByteArray), inflateBlocksP limit fuel r out = some (some r', out') →
    r'.data = r.data ∧ r.ceil ≤ r'.ceil ∧
    ∀ z', Agree r'.ceil r.data z' → inflateBlocksP limit fuel (r.swap z') out = some (some (r'.swap z'), out') := by
  intro fuel
  induction fuel with
  | zero => intro r out r' out' h; cases h
  | succ fuel ih =>
    intro r out r' out' h
    rw [inflateBlocksP_succ'] at h
    cases h1 : r.readBit with
    | none => rw [h1] at h; cases h
    | some p1 =>
      obtain ⟨last, r1⟩ := p1
      rw [h1] at h
      dsimp only at h
      have l1 := readBit_loc r last r1 h1
      cases h2 : r1.readBits 2 with
      | none => rw [h2] at h; cases h
      | some p2 =>
        obtain ⟨typ, r2⟩ := p2
        rw [h2] at h
        dsimp only at h
        have l2 := readBits_loc 2 r1 typ r2 h2
        cases h3 : blockStep limit typ r2 out with
        | none => rw [h3] at h; cases h
        | some p3 =>
          obtain ⟨r3, out3, fin⟩ := p3
          rw [h3] at h
          cases fin with
          | false => cases h
          | true =>
            dsimp only at h
            obtain ⟨b1, b2, b3⟩ := blockStep_loc hd limit typ r2 out r3 out3 h3
            have d1 : r1.data = r.data := l1.1
            have d2 : r2.data = r.data := l2.1.trans d1
            have d3 : r3.data = r.data := b1.trans d2
            have m1 := l1.2.1; have m2 := l2.2.1
            have e2 : ∀ z', Agree r2.ceil r1.data z' → (r1.swap z').readBits 2 = some (typ, r2.swap z') := l2.2.2
            by_cases c : last = 1
            · rw [if_pos c] at h
              cases h
              refine ⟨d3, by omega, fun z' ha => ?_⟩
              rw [inflateBlocksP_succ', l1.2.2 z' (ha.mono (by omega))]
              dsimp only
              rw [e2 z' (d1 ▸ ha.mono (by omega))]
              dsimp only
              rw [b3 z' (d2 ▸ ha)]
              dsimp only
              rw [if_pos c]
            · rw [if_neg c] at h
              obtain ⟨k1, k2, k3⟩ := ih r3 out3 r' out' h
              refine ⟨k1.trans d3, by omega, fun z' ha => ?_⟩
              rw [inflateBlocksP_succ', l1.2.2 z' (ha.mono (by omega))]
              dsimp only
              rw [e2 z' (d1 ▸ ha.mono (by omega))]
              dsimp only
              rw [b3 z' (d2 ▸ ha.mono k2)]
              dsimp only
              rw [if_neg c]
              exact k3 z' (d3 ▸ ha)


/-! ## loops that thread a reader through their state -/

def stepVal {σ : Type} : ForInStep σ → σ
  | .done s => s
  | .yield s => s

def stepMap {σ : Type} (f : σ → σ) : ForInStep σ → ForInStep σ
  | .done s => .done (f s)
  | .yield s => .yield (f s)

/-- one iteration of a loop body is local with respect to the reader `rd s` inside the loop state -/
def StepLoc {σ α : Type} (rd : σ → BitReader) (sw : σ → ByteArray → σ) (body : α → σ → Option (ForInStep σ)) : Prop :=
  ∀ a s st, body a s = some st →
    (rd (stepVal st)).data = (rd s).data ∧ (rd s).ceil ≤ (rd (stepVal st)).ceil ∧
    ∀ z', Agree (rd (stepVal st)).ceil (rd s).data z' → body a (sw s z') = some (stepMap (sw · z') st)

theorem forIn_list_loc {σ α : Type} (rd : σ → BitReader) (sw : σ → ByteArray → σ) (body : α → σ → Option (ForInStep σ))
    (hbody : StepLoc rd sw body) : ∀ (l : List α) (s s' : σ), forIn l s body = some s' →
    (rd s').data = (rd s).data ∧ (rd s).ceil ≤ (rd s').ceil ∧
    ∀ z', Agree (rd s').ceil (rd s).data z' → forIn l (sw s z') body = some (sw s' z') := by
  intro l
  induction l with
  | nil =>
    intro s s' h
    simp only [List.forIn_nil, pure, Option.some.injEq] at h
    subst h
    exact ⟨rfl, Nat.le_refl _, fun z' _ => rfl⟩
  | cons a l ih =>
    intro s s' h
    rw [List.forIn_cons] at h
    cases hb : body a s with
    | none => rw [hb] at h; cases h
    | some st =>
      rw [hb] at h
      obtain ⟨b1, b2, b3⟩ := hbody a s st hb
      cases st with
      | done s1 =>
        simp only [bind, Option.bind, pure, Option.some.injEq] at h
        subst h
        refine ⟨b1, b2, fun z' ha => ?_⟩
        rw [List.forIn_cons, b3 z' ha]
        rfl
      | yield s1 =>
        simp only [bind, Option.bind] at h
        obtain ⟨k1, k2, k3⟩ := ih s1 s' h
        simp only [stepVal] at b1 b2 b3
        refine ⟨k1.trans b1, Nat.le_trans b2 k2, fun z' ha => ?_⟩
        rw [List.forIn_cons, b3 z' (ha.mono k2)]
        simp only [stepMap, bind, Option.bind]
        exact k3 z' (b1 ▸ ha)

theorem forIn_loop_loc {σ : Type} (rd : σ → BitReader) (sw : σ → ByteArray → σ) (μ : σ → Nat)
    (body : Unit → σ → Option (ForInStep σ)) (hbody : StepLoc rd sw body)
    (hμ : ∀ s s1, body () s = some (.yield s1) → μ s1 < μ s) : ∀ (n : Nat) (s s' : σ), μ s < n →
    forIn Lean.Loop.mk s body = some s' →
    (rd s').data = (rd s).data ∧ (rd s).ceil ≤ (rd s').ceil ∧
    ∀ z', Agree (rd s').ceil (rd s).data z' → forIn Lean.Loop.mk (sw s z') body = some (sw s' z') := by
  intro n
  induction n with
  | zero => intro s s' hn; omega
  | succ n ih =>
    intro s s' hn h
    have unf : ∀ s0 : σ, forIn Lean.Loop.mk s0 body = (do
        match ← body () s0 with
        | .done val => pure val
        | .yield val => forIn Lean.Loop.mk val body) := fun s0 => Lean.Loop.forIn_eq_of_monadTail
    rw [unf] at h
    cases hb : body () s with
    | none => rw [hb] at h; cases h
    | some st =>
      rw [hb] at h
      obtain ⟨b1, b2, b3⟩ := hbody () s st hb
      cases st with
      | done s1 =>
        simp only [bind, Option.bind, pure, Option.some.injEq] at h
        subst h
        refine ⟨b1, b2, fun z' ha => ?_⟩
        rw [unf, b3 z' ha]
        rfl
      | yield s1 =>
        simp only [bind, Option.bind] at h
        have := hμ s s1 hb
        obtain ⟨k1, k2, k3⟩ := ih s1 s' (by omega) h
        simp only [stepVal] at b1 b2 b3
        refine ⟨k1.trans b1, Nat.le_trans b2 k2, fun z' ha => ?_⟩
        rw [unf, b3 z' (ha.mono k2)]
        simp only [stepMap, bind, Option.bind]
        exact k3 z' (b1 ▸ ha)

/-- body of the code-length-code loop of `readDynamic` -/
def dynCl (i : Nat) (s : Array Nat × BitReader) : Option (ForInStep (Array Nat × BitReader)) := do
  let (v, r1) ← s.2.readBits 3
  pure (ForInStep.yield (s.1.set! clOrder[i]! v, r1))

/-- repeat codes 16, 17, 18 -/
def dynRep (lengths : Array Nat) (sym : Nat) (rd : BitReader) : Option (Nat × Nat × BitReader) :=
  if sym = 16 then
    if lengths.size = 0 then none else do
    let (e, r2) ← rd.readBits 2
    pure (lengths[lengths.size - 1]!, 3 + e, r2)
  else if sym = 17 then do
    let (e, r2) ← rd.readBits 3
    pure (0, 3 + e, r2)
  else do
    let (e, r2) ← rd.readBits 7
    pure (0, 11 + e, r2)

def pushN (lengths : Array Nat) (prev rep : Nat) : Option (Array Nat) :=
  forIn [:rep] lengths (fun _ l => pure (ForInStep.yield (l.push prev)))

/-- body of the code-length loop (`while`) of `readDynamic` -/
def dynLen (clh : Huff) (n : Nat) (_ : Unit) (s : BitReader × Array Nat × Nat) :
    Option (ForInStep (BitReader × Array Nat × Nat)) :=
  if s.2.1.size < n ∧ s.2.2 > 0 then do
    let (sym, r1) ← decodeSym clh s.1
    if sym < 16 then pure (ForInStep.yield (r1, s.2.1.push sym, s.2.2 - 1))
    else do
      let (prev, rep, r2) ← dynRep s.2.1 sym r1
      if s.2.1.size + rep > n then none
      else do
        let l ← pushN s.2.1 prev rep
        pure (ForInStep.yield (r2, l, s.2.2 - 1))
  else pure (ForInStep.done s)

/-- what `readDynamic` does with the code lengths once they are read -/
def dynTail (nlen ndist : Nat) (s : BitReader × Array Nat × Nat) : Option (Huff × Huff × BitReader) :=
  if s.2.1.size ≠ nlen + ndist then none else
  if s.2.1[256]! = 0 then none else
  let ll := s.2.1.extract 0 nlen
  let dl := s.2.1.extract nlen (nlen + ndist)
  let l1 := huffLeft ll
  if l1 < 0 ∨ (l1 > 0 ∧ (ll.filter (fun x => x = 0 ∨ x = 1)).size ≠ nlen) then none else
  let l2 := huffLeft dl
  if l2 < 0 ∨ (l2 > 0 ∧ (dl.filter (fun x => x = 0 ∨ x = 1)).size ≠ ndist) then none else
  pure (mkHuff ll, mkHuff dl, s.1)

theorem readDynamic_eq (r : BitReader) : readDynamic r = (do
    let (hlit, r) ← r.readBits 5
    let (hdist, r) ← r.readBits 5
    let (hclen, r) ← r.readBits 4
    if hlit + 257 > 286 ∨ hdist + 1 > 30 then none else do
    let s ← forIn [:hclen + 4] (Array.replicate 19 0, r) dynCl
    if huffLeft s.1 ≠ 0 then none else do
    let t ← forIn Lean.Loop.mk (s.2, (#[] : Array Nat), hlit + 257 + (hdist + 1) + 1)
      (dynLen (mkHuff s.1) (hlit + 257 + (hdist + 1)))
    dynTail (hlit + 257) (hdist + 1) t) := by
  set_option maxRecDepth 1000000 in
  rfl

theorem dynCl_stepLoc : StepLoc (σ := Array Nat × BitReader) (·.2) (fun s z' => (s.1, s.2.swap z')) dynCl := by
  intro i s st h
  unfold dynCl at h
  cases h1 : s.2.readBits 3 with
  | none => rw [h1] at h; cases h
  | some p =>
    obtain ⟨v, r1⟩ := p
    rw [h1] at h
    simp only [bind, Option.bind, pure, Option.some.injEq] at h
    subst h
    obtain ⟨k1, k2, k3⟩ := readBits_loc 3 s.2 v r1 h1
    refine ⟨k1, k2, fun z' ha => ?_⟩
    have e : (s.2.swap z').readBits 3 = some (v, r1.swap z') := k3 z' ha
    simp only [dynCl, e, bind, Option.bind, pure, stepMap]

/-- the repeat codes read their extra bits locally -/
theorem dynRep_loc (lengths : Array Nat) (sym : Nat) (rd : BitReader) (prev rep : Nat) (r2 : BitReader)
    (h : dynRep lengths sym rd = some (prev, rep, r2)) :
    r2.data = rd.data ∧ rd.ceil ≤ r2.ceil ∧
    ∀ z', Agree r2.ceil rd.data z' → dynRep lengths sym (rd.swap z') = some (prev, rep, r2.swap z') := by
  have key : ∀ (n : Nat) (f : Nat → Nat × Nat),
      (do let (e, r2) ← rd.readBits n; pure ((f e).1, (f e).2, r2) : Option (Nat × Nat × BitReader)) = some (prev, rep, r2) →
      r2.data = rd.data ∧ rd.ceil ≤ r2.ceil ∧ ∀ z', Agree r2.ceil rd.data z' →
        (do let (e, r2) ← (rd.swap z').readBits n; pure ((f e).1, (f e).2, r2) : Option (Nat × Nat × BitReader)) =
          some (prev, rep, r2.swap z') := by
    intro n f hk
    cases h1 : rd.readBits n with
    | none => rw [h1] at hk; cases hk
    | some p =>
      obtain ⟨e, r2'⟩ := p
      rw [h1] at hk
      simp only [bind, Option.bind, pure, Option.some.injEq, Prod.mk.injEq] at hk
      obtain ⟨rfl, rfl, rfl⟩ := hk
      obtain ⟨k1, k2, k3⟩ := readBits_loc n rd e r2' h1
      refine ⟨k1, k2, fun z' ha => ?_⟩
      have e' : (rd.swap z').readBits n = some (e, r2'.swap z') := k3 z' ha
      simp only [e', bind, Option.bind, pure]
  unfold dynRep at h ⊢
  by_cases c1 : sym = 16
  · rw [if_pos c1] at h
    by_cases c2 : lengths.size = 0
    · rw [if_pos c2] at h; cases h
    · rw [if_neg c2] at h
      obtain ⟨k1, k2, k3⟩ := key 2 (fun e => (lengths[lengths.size - 1]!, 3 + e)) h
      exact ⟨k1, k2, fun z' ha => by rw [if_pos c1, if_neg c2]; exact k3 z' ha⟩
  · rw [if_neg c1] at h
    by_cases c3 : sym = 17
    · rw [if_pos c3] at h
      obtain ⟨k1, k2, k3⟩ := key 3 (fun e => (0, 3 + e)) h
      exact ⟨k1, k2, fun z' ha => by rw [if_neg c1, if_pos c3]; exact k3 z' ha⟩
    · rw [if_neg c3] at h
      obtain ⟨k1, k2, k3⟩ := key 7 (fun e => (0, 11 + e)) h
      exact ⟨k1, k2, fun z' ha => by rw [if_neg c1, if_neg c3]; exact k3 z' ha⟩


theorem dynLen_stepLoc (clh : Huff) (n : Nat) :
    StepLoc (σ := BitReader × Array Nat × Nat) (·.1) (fun s z' => (s.1.swap z', s.2)) (dynLen clh n) := by
  intro u s st h
  obtain ⟨rd, lengths, fuel⟩ := s
  unfold dynLen at h
  dsimp only at h ⊢
  by_cases c0 : lengths.size < n ∧ fuel > 0
  · rw [if_pos c0] at h
    cases h1 : decodeSym clh rd with
    | none => rw [h1] at h; cases h
    | some p1 =>
      obtain ⟨sym, r1⟩ := p1
      rw [h1] at h
      simp only [bind, Option.bind] at h
      obtain ⟨l1, l2, l3⟩ := decodeSym_loc clh rd sym r1 h1
      by_cases c1 : sym < 16
      · rw [if_pos c1] at h
        simp only [pure, Option.some.injEq] at h
        subst h
        refine ⟨l1, l2, fun z' ha => ?_⟩
        unfold dynLen
        dsimp only
        rw [if_pos c0, l3 z' ha]
        simp only [bind, Option.bind, if_pos c1, pure, stepMap]
      · rw [if_neg c1] at h
        cases h2 : dynRep lengths sym r1 with
        | none => rw [h2] at h; cases h
        | some p2 =>
          obtain ⟨prev, rep, r2⟩ := p2
          rw [h2] at h
          dsimp only at h
          obtain ⟨m1, m2, m3⟩ := dynRep_loc lengths sym r1 prev rep r2 h2
          by_cases c2 : lengths.size + rep > n
          · rw [if_pos c2] at h; cases h
          · rw [if_neg c2] at h
            cases h3 : pushN lengths prev rep with
            | none => rw [h3] at h; cases h
            | some l' =>
              rw [h3] at h
              simp only [pure, Option.some.injEq] at h
              subst h
              refine ⟨m1.trans l1, Nat.le_trans l2 m2, fun z' ha => ?_⟩
              unfold dynLen
              dsimp only
              simp only [stepVal] at ha
              rw [if_pos c0, l3 z' (ha.mono m2)]
              simp only [bind, Option.bind, if_neg c1]
              rw [m3 z' (l1 ▸ ha)]
              dsimp only
              rw [if_neg c2, h3]
              rfl
  · rw [if_neg c0] at h
    simp only [pure, Option.some.injEq] at h
    subst h
    refine ⟨rfl, Nat.le_refl _, fun z' _ => ?_⟩
    unfold dynLen
    dsimp only
    rw [if_neg c0]
    rfl

theorem dynLen_fuel (clh : Huff) (n : Nat) (s s1 : BitReader × Array Nat × Nat)
    (h : dynLen clh n () s = some (.yield s1)) : s1.2.2 < s.2.2 := by
  obtain ⟨rd, lengths, fuel⟩ := s
  unfold dynLen at h
  dsimp only at h ⊢
  by_cases c0 : lengths.size < n ∧ fuel > 0
  · rw [if_pos c0] at h
    cases h1 : decodeSym clh rd with
    | none => rw [h1] at h; cases h
    | some p1 =>
      obtain ⟨sym, r1⟩ := p1
      rw [h1] at h
      simp only [bind, Option.bind] at h
      by_cases c1 : sym < 16
      · rw [if_pos c1] at h
        simp only [pure, Option.some.injEq, ForInStep.yield.injEq] at h
        subst h
        dsimp only; omega
      · rw [if_neg c1] at h
        cases h2 : dynRep lengths sym r1 with
        | none => rw [h2] at h; cases h
        | some p2 =>
          obtain ⟨prev, rep, r2⟩ := p2
          rw [h2] at h
          dsimp only at h
          by_cases c2 : lengths.size + rep > n
          · rw [if_pos c2] at h; cases h
          · rw [if_neg c2] at h
            cases h3 : pushN lengths prev rep with
            | none => rw [h3] at h; cases h
            | some l' =>
              rw [h3] at h
              simp only [pure, Option.some.injEq, ForInStep.yield.injEq] at h
              subst h
              dsimp only; omega
  · rw [if_neg c0] at h
    simp only [pure, Option.some.injEq] at h
    cases h

theorem dynTail_swap (nlen ndist : Nat) (t : BitReader × Array Nat × Nat) (lit dist : Huff) (r3 : BitReader)
    (h : dynTail nlen ndist t = some (lit, dist, r3)) :
    r3 = t.1 ∧ ∀ z', dynTail nlen ndist (t.1.swap z', t.2) = some (lit, dist, r3.swap z') := by
  unfold dynTail at h ⊢
  dsimp only at h ⊢
  split at h
  · cases h
  · split at h
    · cases h
    · split at h
      · cases h
      · split at h
        · cases h
        · simp only [pure, Option.some.injEq, Prod.mk.injEq] at h
          obtain ⟨rfl, rfl, rfl⟩ := h
          refine ⟨rfl, fun z' => ?_⟩
          rename_i c1 c2 c3 c4
          rw [if_neg c1, if_neg c2, if_neg c3, if_neg c4]
          rfl

/-- **the table description of a dynamic block is read locally** -/
theorem dynLoc : DynLoc := by
  intro r lit dist r3 h
  rw [readDynamic_eq] at h
  cases ha : r.readBits 5 with
  | none => rw [ha] at h; cases h
  | some pa =>
    obtain ⟨hlit, ra⟩ := pa
    rw [ha] at h
    simp only [bind, Option.bind] at h
    cases hb : ra.readBits 5 with
    | none => rw [hb] at h; cases h
    | some pb =>
      obtain ⟨hdist, rb⟩ := pb
      rw [hb] at h
      dsimp only at h
      cases hc : rb.readBits 4 with
      | none => rw [hc] at h; cases h
      | some pc =>
        obtain ⟨hclen, rc⟩ := pc
        rw [hc] at h
        dsimp only at h
        by_cases c1 : hlit + 257 > 286 ∨ hdist + 1 > 30
        · rw [if_pos c1] at h; cases h
        · rw [if_neg c1] at h
          cases hl1 : (forIn [:hclen + 4] (Array.replicate 19 0, rc) dynCl : Option (Array Nat × BitReader)) with
          | none => rw [hl1] at h; cases h
          | some s =>
            rw [hl1] at h
            dsimp only at h
            by_cases c2 : huffLeft s.1 ≠ 0
            · rw [if_pos c2] at h; cases h
            · rw [if_neg c2] at h
              cases hl2 : (forIn Lean.Loop.mk (s.2, (#[] : Array Nat), hlit + 257 + (hdist + 1) + 1)
                  (dynLen (mkHuff s.1) (hlit + 257 + (hdist + 1))) : Option (BitReader × Array Nat × Nat)) with
              | none => rw [hl2] at h; cases h
              | some t =>
                rw [hl2] at h
                dsimp only at h
                obtain ⟨hr3, htail⟩ := dynTail_swap _ _ t lit dist r3 h
                obtain ⟨a1, a2, a3⟩ := readBits_loc 5 r hlit ra ha
                obtain ⟨b1, b2, b3⟩ := readBits_loc 5 ra hdist rb hb
                obtain ⟨c1', c2', c3'⟩ := readBits_loc 4 rb hclen rc hc
                have hl1' := hl1
                simp only [Std.Legacy.Range.forIn_eq_forIn_range'] at hl1'
                obtain ⟨d1, d2, d3⟩ := forIn_list_loc (σ := Array Nat × BitReader) (·.2) (fun s z' => (s.1, s.2.swap z'))
                  dynCl dynCl_stepLoc _ _ _ hl1'
                obtain ⟨e1, e2, e3⟩ := forIn_loop_loc (σ := BitReader × Array Nat × Nat) (·.1) (fun s z' => (s.1.swap z', s.2))
                  (·.2.2) _ (dynLen_stepLoc (mkHuff s.1) (hlit + 257 + (hdist + 1))) (dynLen_fuel _ _) _ _ _
                  (Nat.lt_succ_self _) hl2
                dsimp only at d1 d2 d3 e1 e2 e3
                subst hr3
                have da : ra.data = r.data := a1
                have db : rb.data = r.data := b1.trans da
                have dc : rc.data = r.data := c1'.trans db
                have dd : s.2.data = r.data := d1.trans dc
                refine ⟨e1.trans dd, by omega, fun z' hag => ?_⟩
                have ea : (r.swap z').readBits 5 = some (hlit, ra.swap z') := a3 z' (hag.mono (by omega))
                have eb : (ra.swap z').readBits 5 = some (hdist, rb.swap z') := b3 z' (da ▸ hag.mono (by omega))
                have ec : (rb.swap z').readBits 4 = some (hclen, rc.swap z') := c3' z' (db ▸ hag.mono (by omega))
                have ed := d3 z' (dc ▸ hag.mono (by omega))
                have ee := e3 z' (dd ▸ hag)
                rw [readDynamic_eq, ea]
                simp only [bind, Option.bind]
                rw [eb]
                dsimp only
                rw [ec]
                dsimp only
                rw [if_neg c1]
                simp only [Std.Legacy.Range.forIn_eq_forIn_range']
                rw [ed]
                dsimp only
                rw [if_neg c2, ee]
                dsimp only
                exact htail z'



/-- `inflateBlocksP_loc` without hypothesis: all block types, up to and including the final block -/
theorem inflateBlocksP_local (limit fuel : Nat) (r : BitReader) (out : ByteArray) (r' : BitReader) (out' : ByteArray)
    (h : inflateBlocksP limit fuel r out = some (some r', out')) :
    r'.data = r.data ∧ r.ceil ≤ r'.ceil ∧
    ∀ z', Agree r'.ceil r.data z' → inflateBlocksP limit fuel (r.swap z') out = some (some (r'.swap z'), out') :=
  inflateBlocksP_loc dynLoc limit fuel r out r' out' h

/-- **The unchecked inflater never reads the trailer bytes (nor anything after them).**  If the prefix-mode inflater with the
    Adler-32 check OFF answers `done o n` on `z` (output `o`, `n` bytes consumed: everything up to and including the four
    trailer bytes), it gives the same answer on every `z'` of the same size that agrees with `z` on the first `n - 4` bytes
    — whatever the four trailer bytes (and the bytes after them) are. -/
theorem zlibPrefix_off_trailer_indep (z z' : ByteArray) (limit : Nat) (o : ByteArray) (n : Nat)
    (h : zlibPrefix z false limit = .done o n) (ha : Agree (n - 4) z z') : zlibPrefix z' false limit = .done o n := by
  unfold zlibPrefix at h ⊢
  by_cases h1 : z.size < 2
  · simp only [h1, if_true] at h; cases h
  · simp only [h1, if_false] at h
    by_cases h2 : z[0]!.toNat % 16 ≠ 8 ∨ z[0]!.toNat / 16 > 7 ∨ z[1]!.toNat &&& 32 ≠ 0 ∨ (z[0]!.toNat * 256 + z[1]!.toNat) % 31 ≠ 0
    · simp only [h2, if_true] at h; cases h
    · simp only [h2, if_false] at h
      cases hb : inflateBlocksP limit (z.size + 1) { data := z, pos := 2 } ByteArray.empty with
      | none => rw [hb] at h; cases h
      | some p =>
        obtain ⟨ro, out⟩ := p
        rw [hb] at h
        cases ro with
        | none => cases h
        | some r =>
          simp only at h
          by_cases h3 : r.alignByte.pos + 4 > z.size
          · simp only [h3, if_true] at h; cases h
          · simp only [h3, if_false, Bool.false_eq_true, false_and] at h
            cases h
            obtain ⟨k1, k2, k3⟩ := inflateBlocksP_loc dynLoc limit _ _ _ _ _ hb
            obtain ⟨a1, a2, a3, a4⟩ := alignByte_ceil r
            rw [Nat.add_sub_cancel, a4] at ha
            have hc2 : 2 ≤ r.ceil := by simpa [BitReader.ceil] using k2
            have hsz : z'.size = z.size := ha.1.symm
            have g0 : z'[0]! = z[0]! := (ha.2 0 (by omega)).symm
            have g1 : z'[1]! = z[1]! := (ha.2 1 (by omega)).symm
            have hb' : inflateBlocksP limit (z.size + 1) { data := z', pos := 2 } ByteArray.empty =
                some (some (r.swap z'), o) := k3 z' ha
            rw [hsz, g0, g1]
            simp only [h1, if_false, h2, hb', swap_alignByte, swap_pos, h3, Bool.false_eq_true, false_and]

end Png.Inf
