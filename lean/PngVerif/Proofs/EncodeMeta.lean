import PngVerif.Model.EncodeMeta
import PngVerif.Proofs.Text
/-!
# The decoder-side parsers read back what the encoder-side functions write
(`Model/EncodeMeta.lean` against `Model/Framing.lean`; property C17)

Sections: big-endian fields; `dispatch`; one lemma per chunk kind (`parseK_enc`: the parser applied
to `encodeK v` in a state where the chunk is acceptable stores exactly `v`); the same through
`parse_chunk` / `feedChunk` with what else changes in the decoder; the setters of the frame control;
the sink (`runSteps`); the whole header.
-/
namespace Png.EncodeMeta
open Png Png.Framing

/-! ## Big-endian fields -/

theorem toUInt8_toNat_of_lt (n : Nat) (h : n < 256) : n.toUInt8.toNat = n := by
  simp [Nat.toUInt8, UInt8.toNat_ofNat']; omega

theorem rdU32_be32Bytes (n : Nat) (h : U32 n) (r : Bytes) : rdU32 (be32Bytes n ++ r) = some (n, r) := by
  unfold U32 at h
  simp only [be32Bytes, List.cons_append, List.nil_append, rdU32, be32]
  rw [toUInt8_toNat_of_lt _ (by omega), toUInt8_toNat_of_lt _ (by omega), toUInt8_toNat_of_lt _ (by omega),
    toUInt8_toNat_of_lt _ (by omega)]
  congr 2
  omega

theorem rdU32_be32Bytes' (n : Nat) (h : U32 n) : rdU32 (be32Bytes n) = some (n, []) := by
  have := rdU32_be32Bytes n h []
  rwa [List.append_nil] at this

theorem rdU16_be16Bytes (n : Nat) (h : U16 n) (r : Bytes) : rdU16 (be16Bytes n ++ r) = some (n, r) := by
  unfold U16 at h
  simp only [be16Bytes, List.cons_append, List.nil_append, rdU16]
  rw [toUInt8_toNat_of_lt _ (by omega), toUInt8_toNat_of_lt _ (by omega)]
  congr 2
  omega

theorem rdU8_cons (n : Nat) (h : n < 256) (r : Bytes) : rdU8 (n.toUInt8 :: r) = some (n, r) := by
  simp only [rdU8, toUInt8_toNat_of_lt n h]

theorem rdU32s_be32List (vs : List Nat) (h : ∀ v ∈ vs, U32 v) (r : Bytes) :
    rdU32s vs.length (be32List vs ++ r) = some (vs, r) := by
  induction vs with
  | nil => rfl
  | cons v vs ih =>
    simp only [be32List, List.length_cons, rdU32s, List.append_assoc]
    rw [rdU32_be32Bytes v (h v (List.mem_cons_self ..))]
    simp only [bind, Option.bind]
    rw [ih (fun x hx => h x (List.mem_cons_of_mem _ hx))]
    rfl

theorem be32Bytes_length (n : Nat) : (be32Bytes n).length = 4 := rfl
theorem be16Bytes_length (n : Nat) : (be16Bytes n).length = 2 := rfl

/-! ## `dispatch` -/

macro "dispatch_tac" : tactic =>
  `(tactic| (unfold dispatch; repeat (first | rw [if_pos (by decide)] | rw [if_neg (by decide)])))

theorem dispatch_IHDR (cfg : Cfg) (d : Dec) : dispatch cfg d IHDR = parseIhdr d := by dispatch_tac
theorem dispatch_PLTE (cfg : Cfg) (d : Dec) : dispatch cfg d PLTE = parsePlte d := by dispatch_tac
theorem dispatch_tRNS (cfg : Cfg) (d : Dec) : dispatch cfg d tRNS = parseTrns d := by dispatch_tac
theorem dispatch_pHYs (cfg : Cfg) (d : Dec) : dispatch cfg d pHYs = parsePhys d := by dispatch_tac
theorem dispatch_gAMA (cfg : Cfg) (d : Dec) : dispatch cfg d gAMA = parseGama d := by dispatch_tac
theorem dispatch_acTL (cfg : Cfg) (d : Dec) : dispatch cfg d acTL = parseActl d := by dispatch_tac
theorem dispatch_fcTL (cfg : Cfg) (d : Dec) : dispatch cfg d fcTL = parseFctl d := by dispatch_tac
theorem dispatch_cHRM (cfg : Cfg) (d : Dec) : dispatch cfg d cHRM = parseChrm d := by dispatch_tac
theorem dispatch_sRGB (cfg : Cfg) (d : Dec) : dispatch cfg d sRGB = parseSrgb d := by dispatch_tac
theorem dispatch_eXIf (cfg : Cfg) (d : Dec) : dispatch cfg d eXIf = parseExif d := by dispatch_tac
theorem dispatch_iCCP (cfg : Cfg) (d : Dec) (h : d.opts.ignoreIccp = false) :
    dispatch cfg d iCCP = parseIccp cfg d := by
  dispatch_tac
  rw [if_pos ⟨rfl, by simp [h]⟩]
theorem dispatch_tEXt (cfg : Cfg) (d : Dec) (h : d.opts.ignoreText = false) :
    dispatch cfg d tEXt = parseText d := by
  dispatch_tac
  rw [if_neg (fun hh => absurd hh.1 (by decide)), if_pos ⟨rfl, by simp [h]⟩]
theorem dispatch_zTXt (cfg : Cfg) (d : Dec) (h : d.opts.ignoreText = false) :
    dispatch cfg d zTXt = parseZtxt d := by
  dispatch_tac
  rw [if_neg (fun hh => absurd hh.1 (by decide)), if_neg (fun hh => absurd hh.1 (by decide)),
    if_pos ⟨rfl, by simp [h]⟩]
theorem dispatch_iTXt (cfg : Cfg) (d : Dec) (h : d.opts.ignoreText = false) :
    dispatch cfg d iTXt = parseItxt cfg d := by
  dispatch_tac
  rw [if_neg (fun hh => absurd hh.1 (by decide)), if_neg (fun hh => absurd hh.1 (by decide)),
    if_neg (fun hh => absurd hh.1 (by decide)), if_pos ⟨rfl, by simp [h]⟩]

/-! ## One lemma per chunk kind -/

theorem depth_lt (n : Nat) (h : depthOk n = true) : n < 256 := by
  simp only [depthOk, Bool.or_eq_true, beq_iff_eq] at h; omega
theorem color_lt (n : Nat) (h : colorOk n = true) : n < 256 := by
  simp only [colorOk, Bool.or_eq_true, beq_iff_eq] at h; omega

/-- IHDR: for every size, depth and colour type `Writer::init` lets through -/
theorem parseIhdr_enc (d : Dec) (w h depth color : Nat) (hw : U32 w) (hh : U32 h) (hw0 : w ≠ 0) (hh0 : h ≠ 0)
    (hd : depthOk depth = true) (hc : colorOk color = true) (hcomb : combinationInvalid color depth = false)
    (hi : d.info = none) (hr : d.raw = encodeIhdr w h depth color) :
    parseIhdr d = .ok ({ d with info := some { width := w, height := h, depth := depth, color := color, interlaced := false } },
      .header w h depth color false) := by
  unfold parseIhdr
  simp only [hi, hr, encodeIhdr, Option.isSome_none, Bool.false_eq_true, if_false]
  rw [rdU32_be32Bytes w hw]
  simp only [eofOr, bind, Except.bind, pure, Except.pure]
  rw [rdU32_be32Bytes h hh]
  simp only [hw0, hh0, or_self, if_false]
  rw [rdU8_cons depth (depth_lt depth hd)]
  simp only [hd, Bool.not_true, Bool.false_eq_true, if_false]
  rw [rdU8_cons color (color_lt color hc)]
  simp only [hc, hcomb, Bool.not_true, Bool.false_eq_true, if_false]
  simp [rdU8]

theorem parsePhys_enc (d : Dec) (i : Info) (p : PixelDims) (hp : p.InRange) (hi : d.info = some i)
    (hn : d.haveIdat = false) (hf : i.pixelDims = none) (hr : d.raw = encodePhys p) :
    parsePhys d = .ok (setInfo d (fun i => { i with pixelDims := some (p.xppu, p.yppu, if p.meter then 1 else 0) }),
      .pixelDimensions p.xppu p.yppu (if p.meter then 1 else 0)) := by
  unfold parsePhys withInfo
  rw [hi]
  simp only [hn, hf, hr, encodePhys, Option.isSome_none, Bool.false_eq_true, if_false]
  rw [rdU32_be32Bytes _ hp.1]
  simp only [eofOr, bind, Except.bind, pure, Except.pure]
  rw [rdU32_be32Bytes _ hp.2]
  cases p.meter <;> simp [rdU8]

theorem parseGama_enc (d : Dec) (i : Info) (g : Nat) (hg : U32 g) (hi : d.info = some i)
    (hn : d.haveIdat = false) (hf : i.gama = none) (hr : d.raw = encodeGama g) :
    parseGama d = .ok (setInfo d (fun i => { i with gama := some g }), .nothing) := by
  unfold parseGama withInfo
  rw [hi]
  simp only [hn, hf, hr, encodeGama]
  simp [rdU32_be32Bytes' g hg, eofOr, bind, Except.bind, pure, Except.pure]

theorem parseChrm_enc (d : Dec) (i : Info) (c : Chromaticities) (hc : c.InRange) (hi : d.info = some i)
    (hn : d.haveIdat = false) (hf : i.chrm = none) (hr : d.raw = encodeChrm c) :
    parseChrm d = .ok (setInfo d (fun i => { i with chrm := some c.toList }), .nothing) := by
  unfold parseChrm withInfo
  rw [hi]
  simp only [hn, hf, hr, encodeChrm]
  have := rdU32s_be32List c.toList hc []
  rw [List.append_nil] at this
  have hl : c.toList.length = 8 := rfl
  rw [hl] at this
  simp [this, eofOr, bind, Except.bind, pure, Except.pure]

theorem parseSrgb_enc (d : Dec) (i : Info) (r : Nat) (hr3 : r ≤ 3) (hi : d.info = some i)
    (hn : d.haveIdat = false) (hf : i.srgb = none) (hr : d.raw = encodeSrgb r) :
    parseSrgb d = .ok (setInfo d (fun i => { i with srgb := some r }), .nothing) := by
  unfold parseSrgb withInfo
  rw [hi]
  simp only [hn, hf, hr, encodeSrgb]
  rw [rdU8_cons r (by omega)]
  simp [eofOr, bind, Except.bind, pure, Except.pure]
  omega

theorem parseActl_enc (d : Dec) (i : Info) (a : Nat × Nat) (ha : U32 a.1 ∧ U32 a.2) (hi : d.info = some i)
    (hn : d.haveIdat = false) (hr : d.raw = encodeActl a) :
    parseActl d = .ok (setInfo d (fun i => { i with actl := some (a.1, a.2) }), .animationControl a.1 a.2) := by
  unfold parseActl withInfo
  rw [hi]
  simp only [hn, hr, encodeActl, Bool.false_eq_true, if_false]
  rw [rdU32_be32Bytes _ ha.1]
  simp only [eofOr, bind, Except.bind, pure, Except.pure]
  rw [rdU32_be32Bytes' _ ha.2]

theorem parseExif_enc (d : Dec) (i : Info) (hi : d.info = some i) (hf : i.exif = none) :
    parseExif d = .ok (setInfo d (fun i => { i with exif := some d.raw }), .nothing) := by
  unfold parseExif withInfo
  rw [hi]
  simp [hf]

theorem parsePlte_enc (d : Dec) (i : Info) (hi : d.info = some i) (hf : i.palette = none)
    (hl : d.raw.length ≤ d.limit) :
    parsePlte d = .ok (setInfo { d with limit := d.limit - d.raw.length } (fun i => { i with palette := some d.raw }), .nothing) := by
  unfold parsePlte withInfo
  rw [hi]
  simp only [hf, Option.isSome_none, Bool.false_eq_true, if_false, reserve]
  rw [if_pos (by omega)]
  simp only [bind, Except.bind, pure, Except.pure, hi]

/-- tRNS, taken: what is stored is `trnsStored` of the body -/
theorem parseTrns_taken (d : Dec) (i : Info) (hi : d.info = some i) (hn : d.haveIdat = false)
    (hf : i.trns = none) (hl : d.raw.length ≤ d.limit)
    (ht : trnsTaken i.color i.palette.isSome d.raw = true) :
    parseTrns d = .ok (setInfo { d with limit := d.limit - d.raw.length }
      (fun i' => { i' with trns := some (trnsStored i.color i.depth d.raw) }), .nothing) := by
  unfold parseTrns withInfo
  rw [hi]
  simp only [hf, hn, Option.isSome_none, Bool.false_eq_true, if_false, reserve]
  rw [if_pos (by omega)]
  simp only [bind, Except.bind, pure, Except.pure]
  unfold trnsTaken at ht
  by_cases h0 : i.color = 0
  · rw [h0] at ht ⊢
    simp only [if_true, decide_eq_true_eq] at ht
    simp only [trnsStored, if_true]
    rw [if_neg (by omega)]
    by_cases h16 : i.depth < 16 <;> simp [h16, hi]
  · by_cases h2 : i.color = 2
    · rw [h2] at ht ⊢
      simp only [if_true, decide_eq_true_eq, show ¬ (2 = 0) by omega, if_false] at ht
      simp only [trnsStored, if_true, show ¬ (2 = 0) by omega, if_false]
      rw [if_neg (by omega)]
      by_cases h16 : i.depth < 16 <;> simp [h16, hi]
    · by_cases h3 : i.color = 3
      · rw [h3] at ht ⊢
        simp only [if_true, show ¬ (3 = 0) by omega, show ¬ (3 = 2) by omega, if_false] at ht
        simp only [trnsStored, show ¬ (3 = 0) by omega, show ¬ (3 = 2) by omega, if_false, ite_self]
        have hp : i.palette.isNone = false := by
          cases hpp : i.palette <;> simp_all
        simp [hp, hn, hi]
      · simp only [h0, h2, h3, if_false, Bool.false_eq_true] at ht

/-- tRNS, not taken: a `Format` error (which `parse_chunk` treats as benign) -/
theorem parseTrns_refused (d : Dec) (i : Info) (hi : d.info = some i) (hn : d.haveIdat = false)
    (hf : i.trns = none) (hl : d.raw.length ≤ d.limit)
    (ht : trnsTaken i.color i.palette.isSome d.raw = false) :
    ∃ w, parseTrns d = .error (.format w) := by
  unfold parseTrns withInfo
  rw [hi]
  simp only [hf, hn, Option.isSome_none, Bool.false_eq_true, if_false, reserve]
  rw [if_pos (by omega)]
  simp only [bind, Except.bind, pure, Except.pure]
  unfold trnsTaken at ht
  by_cases h0 : i.color = 0
  · rw [h0] at ht ⊢
    simp only [if_true, decide_eq_false_iff_not] at ht
    simp only
    rw [if_pos (by omega)]
    exact ⟨_, rfl⟩
  · by_cases h2 : i.color = 2
    · rw [h2] at ht ⊢
      simp only [if_true, decide_eq_false_iff_not, show ¬ (2 = 0) by omega, if_false] at ht
      simp only
      rw [if_pos (by omega)]
      exact ⟨_, rfl⟩
    · by_cases h3 : i.color = 3
      · rw [h3] at ht ⊢
        simp only [if_true, show ¬ (3 = 0) by omega, show ¬ (3 = 2) by omega, if_false] at ht
        have hp : i.palette.isNone = true := by
          cases hpp : i.palette <;> simp_all
        simp only [hp, if_true]
        exact ⟨_, rfl⟩
      · refine ⟨"ColorWithBadTrns", ?_⟩
        split
        · exact absurd ‹i.color = 0› h0
        · exact absurd ‹i.color = 2› h2
        · exact absurd ‹i.color = 3› h3
        · rfl

theorem iccpName_underscore (rest : Bytes) : iccpName 82 0 (0x5F :: 0 :: rest) = .ok rest := by
  simp [iccpName]

/-- iCCP: the profile is inflated (bounded by the remaining `Limits` budget) and stored -/
theorem parseIccp_enc (cfg : Cfg) (z : ZCodec) (hz : z.Ok) (ha : CfgAgrees cfg z) (d : Dec) (profile : Bytes)
    (hn : d.haveIdat = false) (hc : d.haveIccp = false) (hl : profile.length ≤ d.limit)
    (hr : d.raw = encodeIccp z profile) :
    parseIccp cfg d = .ok (setInfo { d with haveIccp := true, limit := d.limit - profile.length }
      (fun i => { i with icc := some profile }), .nothing) := by
  unfold parseIccp
  rw [if_neg (by rw [hn]; decide), if_neg (by rw [hc]; decide)]
  have hb : z.decompressBounded (z.compress profile) d.limit = .ok profile :=
    hz.bounded_of_decompress _ _ _ (hz.roundtrip profile) hl
  have : parseIccpRaw cfg { d with haveIccp := true } =
      .ok (setInfo { d with haveIccp := true, limit := d.limit - profile.length } (fun i => { i with icc := some profile })) := by
    unfold parseIccpRaw
    simp only [hr, encodeIccp, iccpName_underscore, bind, Except.bind, eofOr, rdU8]
    simp only [UInt8.toNat_zero, ne_eq, not_true_eq_false, if_false, ha.inflateBounded, hb, reserve]
    rw [if_pos (by simpa using hl)]
    rfl
  simp only [this]

/-! ## Text chunks: the `Framing` parsers on the layouts of `Model/Text.lean` -/

theorem findIdx_nul (a r : Bytes) (h : (0 : UInt8) ∉ a) :
    (a ++ 0 :: r).findIdx? (· = 0) = some a.length := by
  induction a with
  | nil => simp [List.findIdx?_cons]
  | cons x a ih =>
    have hx : x ≠ 0 := fun hx => h (hx ▸ List.mem_cons_self ..)
    have := ih (fun hm => h (List.mem_cons_of_mem _ hm))
    simp [List.findIdx?_cons, hx, this]

theorem take_len (a r : Bytes) : List.take a.length (a ++ r) = a := by simp

theorem drop_len_succ (a : Bytes) (x : UInt8) (r : Bytes) : List.drop (a.length + 1) (a ++ x :: r) = r := by
  induction a with
  | nil => rfl
  | cons y a ih => simp

theorem framing_splitKeyword (kw rest : Bytes) (h : KeywordBytes kw) :
    Framing.splitKeyword (kw ++ 0 :: rest) = .ok (kw, rest) := by
  obtain ⟨h1, h2, h3⟩ := h
  unfold Framing.splitKeyword
  rw [findIdx_nul kw rest h3]
  simp only
  rw [if_neg (by omega)]
  simp

/-- tEXt -/
theorem parseText_enc (d : Dec) (i : Info) (kw text : Bytes) (hk : KeywordBytes kw) (hi : d.info = some i)
    (hl : d.raw.length ≤ d.limit) (hr : d.raw = kw ++ 0 :: text) :
    parseText d = .ok (addText { d with limit := d.limit - d.raw.length } (.tEXt kw text), .nothing) := by
  unfold parseText
  simp only [reserve]
  rw [if_pos (by omega)]
  simp only [bind, Except.bind, hr, framing_splitKeyword kw text hk, withInfo, hi]

/-- zTXt -/
theorem parseZtxt_enc (d : Dec) (i : Info) (kw zs : Bytes) (hk : KeywordBytes kw) (hi : d.info = some i)
    (hl : d.raw.length ≤ d.limit) (hr : d.raw = kw ++ 0 :: 0 :: zs) :
    parseZtxt d = .ok (addText { d with limit := d.limit - d.raw.length } (.zTXt kw zs), .nothing) := by
  unfold parseZtxt
  simp only [reserve]
  rw [if_pos (by omega)]
  simp only [bind, Except.bind, hr, framing_splitKeyword kw _ hk, withInfo, hi]
  simp

theorem any_ge128_eq_false (b : Bytes) (h : isAsciiBytes b = true) :
    b.any (fun x => decide (x.toNat ≥ 128)) = false := by
  unfold isAsciiBytes at h
  rw [List.all_eq_true] at h
  rw [List.any_eq_false]
  intro x hx
  have := h x hx
  simp only [decide_eq_true_eq, UInt8.lt_iff_toNat_lt] at this ⊢
  simpa using this

/-- iTXt: flag 0 or 1, method 0, ASCII language tag, UTF-8 translated keyword, and a text that is
UTF-8 unless the flag says it is compressed -/
theorem parseItxt_enc (cfg : Cfg) (z : ZCodec) (ha : CfgAgrees cfg z) (d : Dec) (i : Info)
    (kw lang tk p : Bytes) (comp : Bool) (hk : KeywordBytes kw) (hlang0 : (0 : UInt8) ∉ lang)
    (htk0 : (0 : UInt8) ∉ tk) (hlang : isAsciiBytes lang = true) (htk : (utf8Decode tk).isSome = true)
    (hp : comp = false → (utf8Decode p).isSome = true)
    (hi : d.info = some i) (hl : d.raw.length ≤ d.limit)
    (hr : d.raw = kw ++ 0 :: (if comp then 1 else 0) :: 0 :: (lang ++ 0 :: (tk ++ 0 :: p))) :
    parseItxt cfg d = .ok (addText { d with limit := d.limit - d.raw.length } (.iTXt kw comp lang tk p), .nothing) := by
  unfold parseItxt
  simp only [reserve]
  rw [if_pos (by omega)]
  simp only [bind, Except.bind, hr, framing_splitKeyword kw _ hk]
  rw [findIdx_nul lang _ hlang0]
  simp only [take_len, drop_len_succ]
  rw [findIdx_nul tk _ htk0]
  simp only [take_len, drop_len_succ]
  rw [any_ge128_eq_false lang hlang, ha.utf8Ok, htk, ha.utf8Ok]
  cases comp with
  | true => simp [withInfo, hi]
  | false =>
    have := hp rfl
    simp [withInfo, hi, this]

/-! ## Frame control -/

theorem fctlInBounds_of_inv (i : Info) (fc : FrameControl) (h : FcInv i.width i.height fc) :
    fctlInBounds i fc = true := by
  obtain ⟨h1, h2, h3, h4⟩ := h
  simp only [fctlInBounds, ne_eq, h1, not_false_eq_true, decide_true, h2, Bool.and_self, Bool.true_and,
    Bool.and_eq_true, decide_eq_true_eq]
  omega

/-- fcTL: every field is read back, for every frame control whose fields fit their types, whose
sequence number is the next one, and whose rectangle lies inside the canvas -/
theorem parseFctl_enc (d : Dec) (i : Info) (fc : FrameControl) (hr : FcInRange fc)
    (hs : SeqOk d.seqNo fc.seq) (hb : FcInv i.width i.height fc) (hi : d.info = some i)
    (hraw : d.raw = encodeFctl fc) :
    parseFctl d = .ok (setInfo { d with seqNo := some fc.seq, zin := [], zstarted := false, zemitted := 0, readyFdat := true }
      (fun i => { i with fctl := some fc }), .frameControl fc) := by
  obtain ⟨r1, r2, r3, r4, r5, r6, r7, r8, r9⟩ := hr
  have hbounds := fctlInBounds_of_inv i fc hb
  obtain ⟨hw0, hh0, _, _⟩ := hb
  unfold SeqOk at hs
  obtain ⟨seq, fw, fh, fx, fy, dn, dd, dis, bl⟩ := fc
  simp only at r1 r2 r3 r4 r5 r6 r7 r8 r9 hw0 hh0 hs
  unfold parseFctl
  simp only [hraw, encodeFctl]
  rw [rdU32_be32Bytes _ r1]
  cases hsn : d.seqNo with
  | none =>
    rw [hsn] at hs
    simp only at hs
    subst hs
    simp only [eofOr, bind, Except.bind, pure, Except.pure]
    rw [if_neg (by omega)]
    rw [rdU32_be32Bytes _ r2]; simp only
    rw [rdU32_be32Bytes _ r3]; simp only
    rw [rdU32_be32Bytes _ r4]; simp only
    rw [rdU32_be32Bytes _ r5]; simp only
    rw [rdU16_be16Bytes _ r6]; simp only
    rw [rdU16_be16Bytes _ r7]; simp only
    rw [rdU8_cons _ (by omega)]; simp only
    rw [if_neg (by omega)]
    rw [rdU8_cons _ (by omega)]; simp only
    rw [if_neg (by omega)]
    simp only [withInfo, hi, hw0, hh0, or_self, if_false, hbounds, Bool.not_true, Bool.false_eq_true]
  | some s =>
    rw [hsn] at hs
    obtain ⟨h1, h2⟩ := hs
    simp only [eofOr, bind, Except.bind, pure, Except.pure]
    rw [if_neg (by omega), if_neg (by omega)]
    rw [rdU32_be32Bytes _ r2]; simp only
    rw [rdU32_be32Bytes _ r3]; simp only
    rw [rdU32_be32Bytes _ r4]; simp only
    rw [rdU32_be32Bytes _ r5]; simp only
    rw [rdU16_be16Bytes _ r6]; simp only
    rw [rdU16_be16Bytes _ r7]; simp only
    rw [rdU8_cons _ (by omega)]; simp only
    rw [if_neg (by omega)]
    rw [rdU8_cons _ (by omega)]; simp only
    rw [if_neg (by omega)]
    simp only [withInfo, hi, hw0, hh0, or_self, if_false, hbounds, Bool.not_true, Bool.false_eq_true]

/-- `Encoder::set_animated` on a non-empty canvas gives a frame control that satisfies the
invariant -/
theorem initialFc_inv (w h : Nat) (hw : w ≠ 0) (hh : h ≠ 0) : FcInv w h (initialFc w h) := by
  simp [FcInv, initialFc, hw, hh]

theorem initialFc_inRange (w h : Nat) (hw : U32 w) (hh : U32 h) : FcInRange (initialFc w h) := by
  simp only [FcInRange, initialFc, U32, U16] at *
  omega

/-- every setter call that is accepted keeps the frame inside the canvas and non-empty -/
theorem applyOp_inv (cw ch : Nat) (fc fc' : FrameControl) (op : FcOp) (hinv : FcInv cw ch fc)
    (h : applyOp cw ch fc op = .ok fc') : FcInv cw ch fc' := by
  obtain ⟨h1, h2, h3, h4⟩ := hinv
  cases op with
  | dimension w h' =>
    simp only [applyOp] at h
    split at h
    · cases h
    · split at h
      · cases h
      · split at h
        · cases h
        · cases h
          simp only [FcInv]
          omega
  | position x y =>
    simp only [applyOp] at h
    split at h
    · cases h
    · cases h
      simp only [FcInv]
      omega
  | resetDimension =>
    simp only [applyOp] at h
    cases h
    simp only [FcInv]
    omega
  | resetPosition =>
    simp only [applyOp] at h
    cases h
    simp only [FcInv]
    omega
  | delay n dd => simp only [applyOp] at h; cases h; exact ⟨h1, h2, h3, h4⟩
  | blend b => simp only [applyOp] at h; cases h; exact ⟨h1, h2, h3, h4⟩
  | dispose o => simp only [applyOp] at h; cases h; exact ⟨h1, h2, h3, h4⟩

/-- … and inside the Rust types, given arguments of those types; `reset_frame_dimension` does not
underflow -/
theorem applyOp_inRange (cw ch : Nat) (fc fc' : FrameControl) (op : FcOp) (hcw : U32 cw) (hch : U32 ch)
    (hr : FcInRange fc) (ho : op.InRange) (h : applyOp cw ch fc op = .ok fc') : FcInRange fc' := by
  obtain ⟨r1, r2, r3, r4, r5, r6, r7, r8, r9⟩ := hr
  cases op with
  | dimension w h' =>
    simp only [applyOp] at h
    split at h
    · cases h
    · split at h
      · cases h
      · split at h
        · cases h
        · cases h; exact ⟨r1, ho.1, ho.2, r4, r5, r6, r7, r8, r9⟩
  | position x y =>
    simp only [applyOp] at h
    split at h
    · cases h
    · cases h; exact ⟨r1, r2, r3, ho.1, ho.2, r6, r7, r8, r9⟩
  | resetDimension =>
    simp only [applyOp] at h
    cases h
    refine ⟨r1, ?_, ?_, r4, r5, r6, r7, r8, r9⟩ <;> simp only [U32] at * <;> omega
  | resetPosition =>
    simp only [applyOp] at h
    cases h
    exact ⟨r1, r2, r3, by simp [U32], by simp [U32], r6, r7, r8, r9⟩
  | delay n dd => simp only [applyOp] at h; cases h; exact ⟨r1, r2, r3, r4, r5, ho.1, ho.2, r8, r9⟩
  | blend b => simp only [applyOp] at h; cases h; exact ⟨r1, r2, r3, r4, r5, r6, r7, r8, ho⟩
  | dispose o => simp only [applyOp] at h; cases h; exact ⟨r1, r2, r3, r4, r5, r6, r7, ho, r9⟩

theorem applyOps_inv (cw ch : Nat) (hcw : U32 cw) (hch : U32 ch) (ops : List FcOp) (fc : FrameControl)
    (hinv : FcInv cw ch fc) (hr : FcInRange fc) (ho : ∀ op ∈ ops, op.InRange) :
    FcInv cw ch (applyOps cw ch fc ops) ∧ FcInRange (applyOps cw ch fc ops) := by
  induction ops generalizing fc with
  | nil => exact ⟨hinv, hr⟩
  | cons op ops ih =>
    simp only [applyOps]
    cases h : applyOp cw ch fc op with
    | error e => exact ih fc hinv hr (fun o ho' => ho o (List.mem_cons_of_mem _ ho'))
    | ok fc' =>
      exact ih fc' (applyOp_inv cw ch fc fc' op hinv h)
        (applyOp_inRange cw ch fc fc' op hcw hch hr (ho op (List.mem_cons_self ..)) h)
        (fun o ho' => ho o (List.mem_cons_of_mem _ ho'))

/-- `set_fctl` keeps the frame inside the canvas and inside the Rust types -/
theorem setFctl_inv (cw ch : Nat) (wfc c : FrameControl) (hi : FcInv cw ch c) (hr : FcInRange c)
    (hs : U32 wfc.seq) : FcInv cw ch (setFctl wfc c) ∧ FcInRange (setFctl wfc c) := by
  obtain ⟨r1, r2, r3, r4, r5, r6, r7, r8, r9⟩ := hr
  exact ⟨hi, hs, r2, r3, r4, r5, r6, r7, r8, r9⟩

/-- an accepted setter call changes exactly the fields it names -/
theorem applyOp_fields (cw ch : Nat) (c c' : FrameControl) (op : FcOp) (h : applyOp cw ch c op = .ok c') :
    c' = match op with
      | .dimension w h' => { c with width := w, height := h' }
      | .position x y => { c with x := x, y := y }
      | .resetDimension => { c with width := cw - c.x, height := ch - c.y }
      | .resetPosition => { c with x := 0, y := 0 }
      | .delay n d => { c with delayNum := n, delayDen := d }
      | .blend b => { c with blend := b }
      | .dispose o => { c with dispose := o } := by
  cases op with
  | dimension w h' =>
    simp only [applyOp] at h
    split at h
    · cases h
    · split at h
      · cases h
      · split at h
        · cases h
        · cases h; rfl
  | position x y =>
    simp only [applyOp] at h
    split at h
    · cases h
    · cases h; rfl
  | resetDimension => simp only [applyOp] at h; cases h; rfl
  | resetPosition => simp only [applyOp] at h; cases h; rfl
  | delay n d => simp only [applyOp] at h; cases h; rfl
  | blend b => simp only [applyOp] at h; cases h; rfl
  | dispose o => simp only [applyOp] at h; cases h; rfl

/-- the sequence number after an emission is again a `u32` and the other fields are untouched -/
theorem emitFctl_spec (fc : FrameControl) (n : Nat) :
    (emitFctl fc n).1 = (Framing.fcTL, encodeFctl fc) ∧
    (emitFctl fc n).2 = { fc with seq := (fc.seq + 1 + n) % 4294967296 } := ⟨rfl, rfl⟩

/-! ## Through `parse_chunk`: what one chunk does to the decoder -/

/-- the parts of the decoder state that header chunks read or write -/
structure MS where
  info : Option Info
  haveIdat : Bool
  haveIccp : Bool
  limit : Nat
  opts : Options
  seqNo : Option Nat

def ms (d : Dec) : MS := ⟨d.info, d.haveIdat, d.haveIccp, d.limit, d.opts, d.seqNo⟩

/-- the state in which `parse_chunk` runs the parser: body in `raw_bytes`, next state already set -/
def armed (d : Dec) (t : ChunkType) (body : Bytes) : Dec :=
  { { d with raw := body } with state := some (.u32 (.crc t) []) }

theorem armed_ms (d : Dec) (t : ChunkType) (body : Bytes) : ms (armed d t body) = ms d := rfl
theorem armed_raw (d : Dec) (t : ChunkType) (body : Bytes) : (armed d t body).raw = body := rfl

/-- is a chunk with this body handed to `parse_chunk`?  Always, except an empty one while empty
chunks are not parsed -/
def skipped (body : Bytes) : Bool := body.isEmpty && !parseEmptyChunks

theorem skipped_of_ne (body : Bytes) (hb : body ≠ []) : skipped body = false := by
  unfold skipped; cases body <;> simp_all

theorem skipped_true (body : Bytes) (h : skipped body = true) : body = [] ∧ parseEmptyChunks = false := by
  unfold skipped at h
  cases body with
  | nil => simp at h; exact ⟨rfl, h⟩
  | cons x b => simp at h

theorem feedChunk_of_dispatch' (cfg : Cfg) (d d' : Dec) (t : ChunkType) (body : Bytes) (ev : Ev)
    (hb : skipped body = false) (h : dispatch cfg (armed d t body) t = .ok (d', ev)) :
    feedChunk cfg d (t, body) = .ok d' := by
  unfold feedChunk
  unfold skipped at hb
  simp only [hb, Bool.false_eq_true, if_false, parseChunk]
  unfold armed at h
  simp only [h]

theorem feedChunk_of_dispatch (cfg : Cfg) (d d' : Dec) (t : ChunkType) (body : Bytes) (ev : Ev)
    (hb : body ≠ []) (h : dispatch cfg (armed d t body) t = .ok (d', ev)) :
    feedChunk cfg d (t, body) = .ok d' :=
  feedChunk_of_dispatch' cfg d d' t body ev (skipped_of_ne body hb) h

theorem feedChunk_skipped (cfg : Cfg) (d : Dec) (t : ChunkType) (body : Bytes) (h : skipped body = true) :
    feedChunk cfg d (t, body) = .ok d := by
  unfold feedChunk
  unfold skipped at h
  simp only [h, if_true]

/-- today's decoder: an empty chunk changes nothing -/
theorem feedChunk_empty (cfg : Cfg) (d : Dec) (t : ChunkType) (h : parseEmptyChunks = false) :
    feedChunk cfg d (t, []) = .ok d :=
  feedChunk_skipped cfg d t [] (by simp [skipped, h])

theorem nonEmpty_some (b : Bytes) : nonEmpty (some b) = if skipped b then none else some b := by
  unfold skipped
  cases b with
  | nil => simp only [nonEmpty, List.isEmpty_nil, Bool.true_and]; cases parseEmptyChunks <;> rfl
  | cons x b => simp [nonEmpty]

theorem trnsRead_some (color depth : Nat) (seen : Bool) (b : Bytes) :
    trnsRead color depth seen (some b) =
      if skipped b then none else if trnsTaken color seen b then some (trnsStored color depth b) else none := rfl

theorem be32Bytes_ne_nil (n : Nat) (r : Bytes) : be32Bytes n ++ r ≠ [] := by simp [be32Bytes]

section feed
variable (cfg : Cfg) (d : Dec) (i : Info) (hic : Bool) (lim : Nat) (opts : Options) (sq : Option Nat)

theorem feed_ihdr (w h depth color : Nat) (hw : U32 w) (hh : U32 h) (hw0 : w ≠ 0) (hh0 : h ≠ 0)
    (hd : depthOk depth = true) (hc : colorOk color = true) (hcomb : combinationInvalid color depth = false)
    (hs : ms d = ⟨none, false, hic, lim, opts, sq⟩) :
    ∃ d', feedChunk cfg d (IHDR, encodeIhdr w h depth color) = .ok d' ∧
      ms d' = ⟨some { width := w, height := h, depth := depth, color := color, interlaced := false },
        false, hic, lim, opts, sq⟩ := by
  have hi : (armed d IHDR (encodeIhdr w h depth color)).info = none := congrArg MS.info hs
  refine ⟨_, feedChunk_of_dispatch cfg d _ IHDR _ _ (be32Bytes_ne_nil _ _)
    (by rw [dispatch_IHDR]; exact parseIhdr_enc _ w h depth color hw hh hw0 hh0 hd hc hcomb hi rfl), ?_⟩
  simp only [ms, armed, MS.mk.injEq, true_and] at hs ⊢
  exact hs.2

theorem feed_phys (p : PixelDims) (hp : p.InRange) (hf : i.pixelDims = none)
    (hs : ms d = ⟨some i, false, hic, lim, opts, sq⟩) :
    ∃ d', feedChunk cfg d (pHYs, encodePhys p) = .ok d' ∧
      ms d' = ⟨some { i with pixelDims := some (p.xppu, p.yppu, if p.meter then 1 else 0) }, false, hic, lim, opts, sq⟩ := by
  have hi : (armed d pHYs (encodePhys p)).info = some i := congrArg MS.info hs
  have hn : (armed d pHYs (encodePhys p)).haveIdat = false := congrArg MS.haveIdat hs
  refine ⟨_, feedChunk_of_dispatch cfg d _ pHYs _ _ (be32Bytes_ne_nil _ _)
    (by rw [dispatch_pHYs]; exact parsePhys_enc _ i p hp hi hn hf rfl), ?_⟩
  simp only [ms, armed, setInfo, MS.mk.injEq] at hs ⊢
  simp [hs]

theorem feed_gama (g : Nat) (hg : U32 g) (hf : i.gama = none)
    (hs : ms d = ⟨some i, false, hic, lim, opts, sq⟩) :
    ∃ d', feedChunk cfg d (gAMA, encodeGama g) = .ok d' ∧
      ms d' = ⟨some { i with gama := some g }, false, hic, lim, opts, sq⟩ := by
  have hi : (armed d gAMA (encodeGama g)).info = some i := congrArg MS.info hs
  have hn : (armed d gAMA (encodeGama g)).haveIdat = false := congrArg MS.haveIdat hs
  refine ⟨_, feedChunk_of_dispatch cfg d _ gAMA _ _ (by simp [encodeGama, be32Bytes])
    (by rw [dispatch_gAMA]; exact parseGama_enc _ i g hg hi hn hf rfl), ?_⟩
  simp only [ms, armed, setInfo, MS.mk.injEq] at hs ⊢
  simp [hs]

theorem feed_chrm (c : Chromaticities) (hc : c.InRange) (hf : i.chrm = none)
    (hs : ms d = ⟨some i, false, hic, lim, opts, sq⟩) :
    ∃ d', feedChunk cfg d (cHRM, encodeChrm c) = .ok d' ∧
      ms d' = ⟨some { i with chrm := some c.toList }, false, hic, lim, opts, sq⟩ := by
  have hi : (armed d cHRM (encodeChrm c)).info = some i := congrArg MS.info hs
  have hn : (armed d cHRM (encodeChrm c)).haveIdat = false := congrArg MS.haveIdat hs
  refine ⟨_, feedChunk_of_dispatch cfg d _ cHRM _ _ (by simp [encodeChrm, Chromaticities.toList, be32List, be32Bytes])
    (by rw [dispatch_cHRM]; exact parseChrm_enc _ i c hc hi hn hf rfl), ?_⟩
  simp only [ms, armed, setInfo, MS.mk.injEq] at hs ⊢
  simp [hs]

theorem feed_srgb (r : Nat) (hr : r ≤ 3) (hf : i.srgb = none)
    (hs : ms d = ⟨some i, false, hic, lim, opts, sq⟩) :
    ∃ d', feedChunk cfg d (sRGB, encodeSrgb r) = .ok d' ∧
      ms d' = ⟨some { i with srgb := some r }, false, hic, lim, opts, sq⟩ := by
  have hi : (armed d sRGB (encodeSrgb r)).info = some i := congrArg MS.info hs
  have hn : (armed d sRGB (encodeSrgb r)).haveIdat = false := congrArg MS.haveIdat hs
  refine ⟨_, feedChunk_of_dispatch cfg d _ sRGB _ _ (by simp [encodeSrgb])
    (by rw [dispatch_sRGB]; exact parseSrgb_enc _ i r hr hi hn hf rfl), ?_⟩
  simp only [ms, armed, setInfo, MS.mk.injEq] at hs ⊢
  simp [hs]

theorem feed_actl (a : Nat × Nat) (ha : U32 a.1 ∧ U32 a.2)
    (hs : ms d = ⟨some i, false, hic, lim, opts, sq⟩) :
    ∃ d', feedChunk cfg d (acTL, encodeActl a) = .ok d' ∧
      ms d' = ⟨some { i with actl := some a }, false, hic, lim, opts, sq⟩ := by
  have hi : (armed d acTL (encodeActl a)).info = some i := congrArg MS.info hs
  have hn : (armed d acTL (encodeActl a)).haveIdat = false := congrArg MS.haveIdat hs
  refine ⟨_, feedChunk_of_dispatch cfg d _ acTL _ _ (be32Bytes_ne_nil _ _)
    (by rw [dispatch_acTL]; exact parseActl_enc _ i a ha hi hn rfl), ?_⟩
  simp only [ms, armed, setInfo, MS.mk.injEq] at hs ⊢
  simp [hs]

/-- eXIf / PLTE: an empty blob is written as an empty chunk, which the decoder does not parse -/
theorem feed_exif (b : Bytes) (hf : i.exif = none)
    (hs : ms d = ⟨some i, false, hic, lim, opts, sq⟩) :
    ∃ d', feedChunk cfg d (eXIf, b) = .ok d' ∧
      ms d' = ⟨some { i with exif := nonEmpty (some b) }, false, hic, lim, opts, sq⟩ := by
  rw [nonEmpty_some]
  cases hsk : skipped b with
  | true =>
    refine ⟨d, feedChunk_skipped cfg d eXIf b hsk, ?_⟩
    rw [hs]; simp only [if_true, MS.mk.injEq, Option.some.injEq, and_self, and_true]
    cases i; simp_all
  | false =>
    have hi : (armed d eXIf b).info = some i := congrArg MS.info hs
    refine ⟨_, feedChunk_of_dispatch' cfg d _ eXIf _ _ hsk
      (by rw [dispatch_eXIf]; exact parseExif_enc _ i hi hf), ?_⟩
    simp only [ms, armed, setInfo, MS.mk.injEq] at hs ⊢
    simp [hs]

theorem feed_plte (b : Bytes) (hf : i.palette = none) (hl : b.length ≤ lim)
    (hs : ms d = ⟨some i, false, hic, lim, opts, sq⟩) :
    ∃ d', feedChunk cfg d (PLTE, b) = .ok d' ∧
      ms d' = ⟨some { i with palette := nonEmpty (some b) }, false, hic, lim - b.length, opts, sq⟩ := by
  rw [nonEmpty_some]
  cases hsk : skipped b with
  | true =>
    refine ⟨d, feedChunk_skipped cfg d PLTE b hsk, ?_⟩
    rw [hs, (skipped_true b hsk).1]
    simp only [if_true, MS.mk.injEq, Option.some.injEq, List.length_nil, Nat.sub_zero, and_self, and_true]
    cases i; simp_all
  | false =>
    have hi : (armed d PLTE b).info = some i := congrArg MS.info hs
    have hlim : (armed d PLTE b).limit = lim := congrArg MS.limit hs
    refine ⟨_, feedChunk_of_dispatch' cfg d _ PLTE _ _ hsk
      (by rw [dispatch_PLTE]; exact parsePlte_enc _ i hi hf (by rw [hlim]; exact hl)), ?_⟩
    simp only [ms, armed, setInfo, MS.mk.injEq] at hs ⊢
    simp [hs]

end feed

section feed2
variable (cfg : Cfg) (d : Dec) (i : Info) (hic : Bool) (lim : Nat) (opts : Options) (sq : Option Nat)

theorem feedChunk_trns_refused (b : Bytes) (hb : skipped b = false) (w : String)
    (h : dispatch cfg (armed d tRNS b) tRNS = .error (.format w))
    (hs : ms d = ⟨some i, false, hic, lim, opts, sq⟩) (hf : i.trns = none) (hl : b.length ≤ lim) :
    ∃ d', feedChunk cfg d (tRNS, b) = .ok d' ∧ ms d' = ⟨some i, false, hic, lim - b.length, opts, sq⟩ := by
  unfold feedChunk
  unfold skipped at hb
  simp only [hb, Bool.false_eq_true, if_false, parseChunk]
  unfold armed at h
  simp only [h]
  have hben : benign tRNS = true := by decide
  have hi : d.info = some i := congrArg MS.info hs
  have hn : d.haveIdat = false := congrArg MS.haveIdat hs
  have hlim : d.limit = lim := congrArg MS.limit hs
  simp only [hben, Bool.and_self, if_true, or_true, hi, show ¬ (tRNS = sBIT) by decide, if_false, hf,
    Option.isSome_none, hn, Bool.or_self, Bool.not_false, reserve]
  rw [if_pos (by simp only [hlim]; exact hl)]
  refine ⟨_, rfl, ?_⟩
  simp only [ms, MS.mk.injEq] at hs ⊢
  simp [hs]

/-- tRNS through `parse_chunk`, every case: not parsed (empty, while empty chunks are skipped), taken
(stored in the decoder's form), not applicable (skipped as a benign error, though its length is still
charged to `Limits`) -/
theorem feed_trns (b : Bytes) (hf : i.trns = none) (hl : b.length ≤ lim)
    (hs : ms d = ⟨some i, false, hic, lim, opts, sq⟩) :
    ∃ d', feedChunk cfg d (tRNS, b) = .ok d' ∧
      ms d' = ⟨some { i with trns := trnsRead i.color i.depth i.palette.isSome (some b) }, false, hic,
        lim - b.length, opts, sq⟩ := by
  have hself : ({ i with trns := none } : Info) = i := by cases i; simp_all
  rw [trnsRead_some]
  cases hsk : skipped b with
  | true =>
    refine ⟨d, feedChunk_skipped cfg d tRNS b hsk, ?_⟩
    rw [hs, (skipped_true b hsk).1]; simp only [if_true, hself, List.length_nil, Nat.sub_zero]
  | false =>
    have hi : (armed d tRNS b).info = some i := congrArg MS.info hs
    have hn : (armed d tRNS b).haveIdat = false := congrArg MS.haveIdat hs
    have hlim : (armed d tRNS b).limit = lim := congrArg MS.limit hs
    cases ht : trnsTaken i.color i.palette.isSome b with
    | true =>
      refine ⟨_, feedChunk_of_dispatch' cfg d _ tRNS _ _ hsk
        (by rw [dispatch_tRNS]; exact parseTrns_taken _ i hi hn hf (by rw [hlim]; exact hl) ht), ?_⟩
      simp only [ms, armed, setInfo, MS.mk.injEq] at hs ⊢
      simp [hs]
    | false =>
      obtain ⟨w, hw⟩ := parseTrns_refused _ i hi hn hf (by rw [hlim]; exact hl) ht
      obtain ⟨d', h1, h2⟩ := feedChunk_trns_refused cfg d i hic lim opts sq b hsk w
        (by rw [dispatch_tRNS]; exact hw) hs hf hl
      refine ⟨d', h1, ?_⟩
      rw [h2]
      simp only [Bool.false_eq_true, if_false, hself]

/-- iCCP -/
theorem feed_iccp (z : ZCodec) (hz : z.Ok) (ha : CfgAgrees cfg z) (profile : Bytes)
    (hl : profile.length ≤ lim) (ho : opts.ignoreIccp = false)
    (hs : ms d = ⟨some i, false, false, lim, opts, sq⟩) :
    ∃ d', feedChunk cfg d (iCCP, encodeIccp z profile) = .ok d' ∧
      ms d' = ⟨some { i with icc := some profile }, false, true, lim - profile.length, opts, sq⟩ := by
  have hn : (armed d iCCP (encodeIccp z profile)).haveIdat = false := congrArg MS.haveIdat hs
  have hc : (armed d iCCP (encodeIccp z profile)).haveIccp = false := congrArg MS.haveIccp hs
  have hlim : (armed d iCCP (encodeIccp z profile)).limit = lim := congrArg MS.limit hs
  have hopts : (armed d iCCP (encodeIccp z profile)).opts = opts := congrArg MS.opts hs
  refine ⟨_, feedChunk_of_dispatch cfg d _ iCCP _ _ (by simp [encodeIccp])
    (by rw [dispatch_iCCP _ _ (by rw [hopts]; exact ho)]
        exact parseIccp_enc cfg z hz ha _ profile hn hc (by rw [hlim]; exact hl) rfl), ?_⟩
  simp only [ms, armed, setInfo, MS.mk.injEq] at hs ⊢
  simp [hs]

end feed2

/-! ## Text chunks through `parse_chunk` -/

theorem TEXt.encodeBody_ok (c : TEXt) (body : Bytes) (h : c.encodeBody = .ok body) :
    ∃ data t, encodeKeyword c.keyword = .ok data ∧ encodeLatin1 c.text = .ok t ∧ body = data ++ 0 :: t := by
  unfold TEXt.encodeBody at h
  cases hk : encodeKeyword c.keyword with
  | error e => rw [hk] at h; cases h
  | ok data =>
    rw [hk] at h
    simp only at h
    cases ht : encodeLatin1 c.text with
    | error e => rw [ht] at h; cases h
    | ok t =>
      rw [ht] at h
      simp only [Except.ok.injEq] at h
      exact ⟨data, t, rfl, rfl, h.symm⟩

theorem ZTXt.encodeBody_ok (z : ZCodec) (c : ZTXt) (body : Bytes) (h : c.encodeBody z = .ok body) :
    ∃ data p, encodeKeyword c.keyword = .ok data ∧ body = data ++ 0 :: 0 :: p ∧
      (c.compress z).1 = ⟨c.keyword, .compressed p⟩ := by
  unfold ZTXt.encodeBody at h
  cases hk : encodeKeyword c.keyword with
  | error e => rw [hk] at h; cases h
  | ok data =>
    rw [hk] at h
    simp only at h
    obtain ⟨kw, text⟩ := c
    cases text with
    | compressed v =>
      simp only [Except.ok.injEq] at h
      exact ⟨data, v, rfl, h.symm, rfl⟩
    | uncompressed s =>
      simp only at h
      cases ht : encodeLatin1 s with
      | error e => rw [ht] at h; cases h
      | ok raw =>
        rw [ht] at h
        simp only [Except.ok.injEq] at h
        exact ⟨data, _, rfl, h.symm, by simp only [ZTXt.compress, OptC.compress, latin1Coding, ht]⟩

theorem keyword_decode (kw : String) (data : Bytes) (h : encodeKeyword kw = .ok data) :
    KeywordBytes data ∧ badKeywordLen data = false ∧ decodeLatin1 data = kw := by
  obtain ⟨h1, h2⟩ := encodeKeyword_keywordBytes kw data h
  exact ⟨h1, (badKeywordLen_eq_false data).mpr ⟨h1.1, h1.2.1⟩, h2⟩

theorem _root_.Png.ITXt.readBack_flag (z : ZCodec) (kw lt tk : String) (tx : OptC) :
    ITXt.readBack z ⟨kw, true, lt, tk, tx⟩ = ⟨kw, true, lt, tk, (tx.compress z utf8Coding).1⟩ := rfl

theorem _root_.Png.ITXt.readBack_plain (z : ZCodec) (kw lt tk s : String) :
    ITXt.readBack z ⟨kw, false, lt, tk, .uncompressed s⟩ = ⟨kw, false, lt, tk, .uncompressed s⟩ := rfl

theorem _root_.Png.ITXt.readBack_inflated (z : ZCodec) (kw lt tk : String) (v raw : Bytes) (s : String)
    (hd : z.decompress v = some raw) (hu : utf8Decode raw = some s) :
    ITXt.readBack z ⟨kw, false, lt, tk, .compressed v⟩ = ⟨kw, false, lt, tk, .uncompressed s⟩ := by
  simp only [ITXt.readBack, Bool.false_eq_true, if_false, hd, hu]

/-- … which presents the same keyword, flag, language tag, translated keyword and text -/
theorem _root_.Png.ITXt.readBack_same (z : ZCodec) (hz : z.Ok) (c : ITXt) :
    (c.readBack z).keyword = c.keyword ∧ (c.readBack z).compressed = c.compressed ∧
    (c.readBack z).languageTag = c.languageTag ∧ (c.readBack z).translatedKeyword = c.translatedKeyword ∧
    (c.readBack z).getText z = c.getText z := by
  obtain ⟨kw, cf, lt, tk, tx⟩ := c
  cases cf with
  | true =>
    rw [ITXt.readBack_flag]
    have hok : (tx.compress z utf8Coding).2 = .ok () := by cases tx <;> rfl
    exact ⟨rfl, rfl, rfl, rfl, OptC.getText_compress hz utf8Coding_ok tx hok⟩
  | false =>
    cases tx with
    | uncompressed s => exact ⟨rfl, rfl, rfl, rfl, rfl⟩
    | compressed v =>
      cases hd : z.decompress v with
      | none =>
        have : ITXt.readBack z ⟨kw, false, lt, tk, .compressed v⟩ = ⟨kw, false, lt, tk, .compressed v⟩ := by
          simp only [ITXt.readBack, Bool.false_eq_true, if_false, hd]
        rw [this]; exact ⟨rfl, rfl, rfl, rfl, rfl⟩
      | some raw =>
        cases hu : utf8Decode raw with
        | none =>
          have : ITXt.readBack z ⟨kw, false, lt, tk, .compressed v⟩ = ⟨kw, false, lt, tk, .compressed v⟩ := by
            simp only [ITXt.readBack, Bool.false_eq_true, if_false, hd, hu]
          rw [this]; exact ⟨rfl, rfl, rfl, rfl, rfl⟩
        | some s =>
          rw [ITXt.readBack_inflated z kw lt tk v raw s hd hu]
          refine ⟨rfl, rfl, rfl, rfl, ?_⟩
          simp only [ITXt.getText, OptC.getText, hd, utf8Coding, hu]

section feedText
variable (cfg : Cfg) (d : Dec) (i : Info) (hic : Bool) (lim : Nat) (opts : Options) (sq : Option Nat)

theorem feed_tEXt (c : TEXt) (body : Bytes) (h : c.encodeBody = .ok body) (hl : body.length ≤ lim)
    (ho : opts.ignoreText = false) (hs : ms d = ⟨some i, false, hic, lim, opts, sq⟩) :
    ∃ d' tc, feedChunk cfg d (Framing.tEXt, body) = .ok d' ∧ viewText tc = some (.t c) ∧
      ms d' = ⟨some { i with text := i.text ++ [tc] }, false, hic, lim - body.length, opts, sq⟩ := by
  obtain ⟨data, t, hk, ht, hb⟩ := TEXt.encodeBody_ok c body h
  obtain ⟨hkb, hbad, hdec⟩ := keyword_decode _ _ hk
  have hi : (armed d Framing.tEXt body).info = some i := congrArg MS.info hs
  have hlim : (armed d Framing.tEXt body).limit = lim := congrArg MS.limit hs
  have hopts : (armed d Framing.tEXt body).opts = opts := congrArg MS.opts hs
  refine ⟨_, .tEXt data t, feedChunk_of_dispatch cfg d _ Framing.tEXt _ _ (by rw [hb]; simp)
    (by rw [dispatch_tEXt _ _ (by rw [hopts]; exact ho)]
        exact parseText_enc _ i data t hkb hi (by rw [hlim]; exact hl) hb), ?_, ?_⟩
  · simp only [viewText, TEXt.decode, hbad, Bool.false_eq_true, if_false, hdec,
      decodeLatin1_of_encodeLatin1 _ _ ht]
  · simp only [ms, armed, addText, setInfo, MS.mk.injEq] at hs ⊢
    simp [hs]

theorem feed_zTXt (z : ZCodec) (c : ZTXt) (body : Bytes) (h : c.encodeBody z = .ok body)
    (hl : body.length ≤ lim) (ho : opts.ignoreText = false)
    (hs : ms d = ⟨some i, false, hic, lim, opts, sq⟩) :
    ∃ d' tc, feedChunk cfg d (Framing.zTXt, body) = .ok d' ∧ viewText tc = some (.z (c.compress z).1) ∧
      ms d' = ⟨some { i with text := i.text ++ [tc] }, false, hic, lim - body.length, opts, sq⟩ := by
  obtain ⟨data, p, hk, hb, hcomp⟩ := ZTXt.encodeBody_ok z c body h
  obtain ⟨hkb, hbad, hdec⟩ := keyword_decode _ _ hk
  have hi : (armed d Framing.zTXt body).info = some i := congrArg MS.info hs
  have hlim : (armed d Framing.zTXt body).limit = lim := congrArg MS.limit hs
  have hopts : (armed d Framing.zTXt body).opts = opts := congrArg MS.opts hs
  refine ⟨_, .zTXt data p, feedChunk_of_dispatch cfg d _ Framing.zTXt _ _ (by rw [hb]; simp)
    (by rw [dispatch_zTXt _ _ (by rw [hopts]; exact ho)]
        exact parseZtxt_enc _ i data p hkb hi (by rw [hlim]; exact hl) hb), ?_, ?_⟩
  · simp only [viewText, ZTXt.decode, hbad, Bool.false_eq_true, if_false, hdec, hcomp, bne_self_eq_false]
  · simp only [ms, armed, addText, setInfo, MS.mk.injEq] at hs ⊢
    simp [hs]

theorem feed_iTXt (z : ZCodec) (ha : CfgAgrees cfg z) (c : ITXt) (body : Bytes)
    (h : c.encodeBody z = .ok body)
    (hl : body.length ≤ lim) (ho : opts.ignoreText = false)
    (hs : ms d = ⟨some i, false, hic, lim, opts, sq⟩) :
    ∃ d' tc, feedChunk cfg d (Framing.iTXt, body) = .ok d' ∧ viewText tc = some (.i (c.readBack z)) ∧
      ms d' = ⟨some { i with text := i.text ++ [tc] }, false, hic, lim - body.length, opts, sq⟩ := by
  obtain ⟨data, p, hk, hasc, hln, htn, hpay, hb⟩ := ITXt.encodeBody_ok z c body h
  obtain ⟨hkb, hbad, hdec⟩ := keyword_decode _ _ hk
  have hi : (armed d Framing.iTXt body).info = some i := congrArg MS.info hs
  have hlim : (armed d Framing.iTXt body).limit = lim := congrArg MS.limit hs
  have hopts : (armed d Framing.iTXt body).opts = opts := congrArg MS.opts hs
  -- the payload is UTF-8 when it is not compressed
  have hutf : c.compressed = false → (utf8Decode p).isSome = true := by
    intro hc
    cases htx : c.text with
    | uncompressed s' =>
      simp only [ITXt.payload, hc, htx, Bool.false_eq_true, if_false, Option.some.injEq] at hpay
      rw [← hpay, utf8Decode_utf8Encode]; rfl
    | compressed v =>
      obtain ⟨_, s', hu⟩ := ITXt.payload_inflated z c v p hc htx hpay
      rw [hu]; rfl
  have hview : ITXt.decode data (if c.compressed then 1 else 0) 0 (utf8Encode c.languageTag)
      (utf8Encode c.translatedKeyword) p = .ok (c.readBack z) := by
    rw [ITXt.decode_of_fields c data p hk hasc]
    obtain ⟨kw, cf, lt, tk, tx⟩ := c
    cases cf with
    | true =>
      rw [ITXt.readBack_flag]
      simp only [ITXt.payload, if_true] at hpay ⊢
      cases tx with
      | compressed v => simp only [Option.some.injEq] at hpay; subst hpay; rfl
      | uncompressed s =>
        simp only [Option.some.injEq] at hpay; subst hpay
        simp only [OptC.compress, utf8Coding]
    | false =>
      have hpay0 := hpay
      simp only [Bool.false_eq_true, if_false]
      simp only [ITXt.payload, Bool.false_eq_true, if_false] at hpay
      cases tx with
      | uncompressed s =>
        simp only [Option.some.injEq] at hpay; subst hpay
        rw [utf8Decode_utf8Encode, ITXt.readBack_plain]
      | compressed v =>
        obtain ⟨hdz, s, hd⟩ := ITXt.payload_inflated z ⟨kw, false, lt, tk, .compressed v⟩ v p rfl rfl hpay0
        rw [hd, ITXt.readBack_inflated z kw lt tk v p s hdz hd]
  refine ⟨_, .iTXt data c.compressed (utf8Encode c.languageTag) (utf8Encode c.translatedKeyword) p,
    feedChunk_of_dispatch cfg d _ Framing.iTXt _ _ (by rw [hb]; simp)
    (by rw [dispatch_iTXt _ _ (by rw [hopts]; exact ho)]
        exact parseItxt_enc cfg z ha _ i data _ _ p c.compressed hkb ((nul_mem_utf8Encode _).mpr hln)
          ((nul_mem_utf8Encode _).mpr htn) (isAsciiBytes_utf8Encode _ hasc)
          (by rw [utf8Decode_utf8Encode]; rfl) hutf hi (by rw [hlim]; exact hl) hb), ?_, ?_⟩
  · simp only [viewText, hview]
  · simp only [ms, armed, addText, setInfo, MS.mk.injEq] at hs ⊢
    simp [hs]

end feedText

/-! ## The sink -/

theorem runSteps_ok_all (steps : List (Except EncErr (List Chunk))) (sink sink' : List Chunk)
    (h : runSteps steps sink = (sink', .ok ())) : ∀ s ∈ steps, ∃ cs, s = .ok cs := by
  induction steps generalizing sink with
  | nil => intro s hs; cases hs
  | cons s rest ih =>
    cases s with
    | error e => simp [runSteps] at h
    | ok cs =>
      simp only [runSteps] at h
      intro s' hs'
      rcases List.mem_cons.mp hs' with rfl | hm
      · exact ⟨cs, rfl⟩
      · exact ih _ h s' hm

theorem feedChunks_append (cfg : Cfg) (d : Dec) (a b : List Chunk) :
    feedChunks cfg d (a ++ b) =
      match feedChunks cfg d a with
      | .ok d' => feedChunks cfg d' b
      | .error e => .error e := by
  induction a generalizing d with
  | nil => rfl
  | cons c a ih =>
    simp only [List.cons_append, feedChunks]
    cases feedChunk cfg d c with
    | error e => rfl
    | ok d' => exact ih d'

/-- decoding the sink = decoding step by step -/
theorem feedChunks_of_runSteps (cfg : Cfg) (steps : List (Except EncErr (List Chunk)))
    (sink sink' : List Chunk) (h : runSteps steps sink = (sink', .ok ())) (d0 d1 : Dec)
    (h0 : feedChunks cfg d0 sink = .ok d1) : feedChunks cfg d0 sink' = feedSteps cfg d1 steps := by
  induction steps generalizing sink d1 with
  | nil => simp only [runSteps, Prod.mk.injEq, and_true] at h; subst h; exact h0
  | cons s rest ih =>
    cases s with
    | error e => simp [runSteps] at h
    | ok cs =>
      simp only [runSteps] at h
      simp only [feedSteps, feedStep]
      cases hc : feedChunks cfg d1 cs with
      | error e =>
        -- the sink that was finally decoded starts with `sink ++ cs`
        have : ∀ (steps : List (Except EncErr (List Chunk))) (s1 s2 : List Chunk),
            runSteps steps s1 = (s2, .ok ()) → ∃ t, s2 = s1 ++ t := by
          intro steps
          induction steps with
          | nil => intro s1 s2 hh; simp only [runSteps, Prod.mk.injEq, and_true] at hh; exact ⟨[], by simp [hh]⟩
          | cons s rest ih2 =>
            intro s1 s2 hh
            cases s with
            | error e => simp [runSteps] at hh
            | ok cs' =>
              simp only [runSteps] at hh
              obtain ⟨t, ht⟩ := ih2 _ _ hh
              exact ⟨cs' ++ t, by rw [ht, List.append_assoc]⟩
        obtain ⟨t, ht⟩ := this rest _ _ h
        rw [ht, List.append_assoc, feedChunks_append, h0]
        simp only
        rw [feedChunks_append, hc]
      | ok d2 =>
        exact ih (sink ++ cs) h d2 (by rw [feedChunks_append, h0]; exact hc)

theorem feedSteps_append (cfg : Cfg) (d : Dec) (a b : List (Except EncErr (List Chunk))) :
    feedSteps cfg d (a ++ b) =
      match feedSteps cfg d a with
      | .ok d' => feedSteps cfg d' b
      | .error e => .error e := by
  induction a generalizing d with
  | nil => rfl
  | cons s a ih =>
    simp only [List.cons_append, feedSteps]
    cases feedStep cfg d s with
    | error e => rfl
    | ok d' => exact ih d'

theorem feedChunks_single (cfg : Cfg) (d : Dec) (c : Chunk) :
    feedChunks cfg d [c] = feedChunk cfg d c := by
  simp only [feedChunks]
  cases feedChunk cfg d c <;> rfl

/-- a refused text chunk contributes nothing: the sink is unchanged and the call reports the error -/
theorem writeTextChunk_refused (sink : List Chunk) (t : ChunkType) (e : TextEncErr) :
    writeTextChunk sink (textStep t (.error e)) = (sink, .error (.text e)) := rfl

/-- an accepted one appends exactly one chunk -/
theorem writeTextChunk_accepted (sink : List Chunk) (t : ChunkType) (body : Bytes) :
    writeTextChunk sink (textStep t (.ok body)) = (sink ++ [(t, body)], .ok ()) := rfl

/-- in `write_header`: when a step fails, the sink holds what the steps before it wrote — nothing
of the failing step and nothing after it -/
theorem runSteps_error (pre : List (List Chunk)) (e : EncErr) (rest : List (Except EncErr (List Chunk)))
    (sink : List Chunk) :
    runSteps (pre.map .ok ++ .error e :: rest) sink = (sink ++ pre.flatten, .error e) := by
  induction pre generalizing sink with
  | nil => simp [runSteps]
  | cons cs pre ih =>
    simp only [List.map_cons, List.cons_append, runSteps, List.flatten_cons]
    rw [ih, List.append_assoc]

theorem runSteps_error_inv (steps : List (Except EncErr (List Chunk))) (sink sink' : List Chunk) (e : EncErr)
    (h : runSteps steps sink = (sink', .error e)) :
    ∃ (pre : List (List Chunk)) (rest : List (Except EncErr (List Chunk))),
      steps = pre.map .ok ++ .error e :: rest ∧ sink' = sink ++ pre.flatten := by
  induction steps generalizing sink with
  | nil => simp [runSteps] at h
  | cons s rest ih =>
    cases s with
    | error e' =>
      simp only [runSteps, Prod.mk.injEq, Except.error.injEq] at h
      obtain ⟨rfl, rfl⟩ := h
      exact ⟨[], rest, rfl, by simp⟩
    | ok cs =>
      simp only [runSteps] at h
      obtain ⟨pre, rest', h1, h2⟩ := ih _ h
      exact ⟨cs :: pre, rest', by rw [h1]; rfl, by rw [h2, List.flatten_cons, List.append_assoc]⟩

/-! ## The steps of `encode_header`, decoded -/

theorem checkedChunk_ok (t : ChunkType) (b : Bytes) (cs : List Chunk) (h : checkedChunk t b = .ok cs) :
    cs = [(t, b)] := by
  unfold checkedChunk at h
  split at h
  · cases h
  · cases h; rfl

theorem checkedChunk_small (t : ChunkType) (b : Bytes) (h : b.length ≤ maxChunkLen) :
    checkedChunk t b = .ok [(t, b)] := by
  unfold checkedChunk
  rw [if_neg (by omega)]

theorem feedStep_single (cfg : Cfg) (d : Dec) (c : Chunk) : feedStep cfg d (.ok [c]) = feedChunk cfg d c :=
  feedChunks_single cfg d c

theorem feedStep_nil (cfg : Cfg) (d : Dec) : feedStep cfg d (.ok []) = .ok d := rfl

theorem info_eta_pixelDims (i : Info) (h : i.pixelDims = none) : ({ i with pixelDims := none } : Info) = i := by
  cases i; simp_all
theorem info_eta_gama (i : Info) (h : i.gama = none) : ({ i with gama := none } : Info) = i := by
  cases i; simp_all
theorem info_eta_chrm (i : Info) (h : i.chrm = none) : ({ i with chrm := none } : Info) = i := by
  cases i; simp_all
theorem info_eta_srgb (i : Info) (h : i.srgb = none) : ({ i with srgb := none } : Info) = i := by
  cases i; simp_all
theorem info_eta_icc (i : Info) (h : i.icc = none) : ({ i with icc := none } : Info) = i := by
  cases i; simp_all
theorem info_eta_exif (i : Info) (h : i.exif = none) : ({ i with exif := none } : Info) = i := by
  cases i; simp_all
theorem info_eta_actl (i : Info) (h : i.actl = none) : ({ i with actl := none } : Info) = i := by
  cases i; simp_all
theorem info_eta_palette (i : Info) (h : i.palette = none) : ({ i with palette := none } : Info) = i := by
  cases i; simp_all
theorem info_eta_trns (i : Info) (h : i.trns = none) : ({ i with trns := none } : Info) = i := by
  cases i; simp_all
theorem info_eta_text (i : Info) : ({ i with text := i.text ++ [] } : Info) = i := by
  cases i; simp

section steps
variable (cfg : Cfg) (d : Dec) (i : Info) (hic : Bool) (lim : Nat) (opts : Options) (sq : Option Nat)

theorem step_phys (o : Option PixelDims) (ho : optAll PixelDims.InRange o) (hf : i.pixelDims = none)
    (hs : ms d = ⟨some i, false, hic, lim, opts, sq⟩) :
    ∃ d', feedStep cfg d (optChunk pHYs (o.map encodePhys)) = .ok d' ∧
      ms d' = ⟨some { i with pixelDims := o.map (fun p => (p.xppu, p.yppu, if p.meter then 1 else 0)) },
        false, hic, lim, opts, sq⟩ := by
  cases o with
  | none => exact ⟨d, rfl, by rw [hs]; simp only [Option.map_none, info_eta_pixelDims i hf]⟩
  | some p =>
    simp only [Option.map_some, optChunk]
    rw [checkedChunk_small _ _ (by simp [encodePhys, be32Bytes, maxChunkLen]), feedStep_single]
    exact feed_phys cfg d i hic lim opts sq p ho hf hs

theorem step_gama (o : Option Nat) (ho : optAll U32 o) (hf : i.gama = none)
    (hs : ms d = ⟨some i, false, hic, lim, opts, sq⟩) :
    ∃ d', feedStep cfg d (.ok (o.map fun g => (gAMA, encodeGama g)).toList) = .ok d' ∧
      ms d' = ⟨some { i with gama := o }, false, hic, lim, opts, sq⟩ := by
  cases o with
  | none => exact ⟨d, rfl, by rw [hs]; simp only [info_eta_gama i hf]⟩
  | some g =>
    simp only [Option.map_some, Option.toList_some]
    rw [feedStep_single]; exact feed_gama cfg d i hic lim opts sq g ho hf hs

theorem step_chrm (o : Option Chromaticities) (ho : optAll Chromaticities.InRange o) (hf : i.chrm = none)
    (hs : ms d = ⟨some i, false, hic, lim, opts, sq⟩) :
    ∃ d', feedStep cfg d (.ok (o.map fun c => (cHRM, encodeChrm c)).toList) = .ok d' ∧
      ms d' = ⟨some { i with chrm := o.map Chromaticities.toList }, false, hic, lim, opts, sq⟩ := by
  cases o with
  | none => exact ⟨d, rfl, by rw [hs]; simp only [Option.map_none, info_eta_chrm i hf]⟩
  | some c =>
    simp only [Option.map_some, Option.toList_some]
    rw [feedStep_single]; exact feed_chrm cfg d i hic lim opts sq c ho hf hs

theorem step_exif (o : Option Bytes) (cs : List Chunk) (hok : optChunk eXIf o = .ok cs) (hf : i.exif = none)
    (hs : ms d = ⟨some i, false, hic, lim, opts, sq⟩) :
    ∃ d', feedStep cfg d (optChunk eXIf o) = .ok d' ∧
      ms d' = ⟨some { i with exif := nonEmpty o }, false, hic, lim, opts, sq⟩ := by
  cases o with
  | none => exact ⟨d, rfl, by rw [hs]; simp only [nonEmpty, info_eta_exif i hf]⟩
  | some b =>
    simp only [optChunk] at hok ⊢
    rw [hok, checkedChunk_ok _ _ _ hok, feedStep_single]
    exact feed_exif cfg d i hic lim opts sq b hf hs

theorem step_actl (o : Option (Nat × Nat)) (ho : optAll (fun (a : Nat × Nat) => U32 a.1 ∧ U32 a.2) o)
    (hf : i.actl = none) (hs : ms d = ⟨some i, false, hic, lim, opts, sq⟩) :
    ∃ d', feedStep cfg d (.ok (o.map fun a => (acTL, encodeActl a)).toList) = .ok d' ∧
      ms d' = ⟨some { i with actl := o }, false, hic, lim, opts, sq⟩ := by
  cases o with
  | none => exact ⟨d, rfl, by rw [hs]; simp only [info_eta_actl i hf]⟩
  | some a =>
    simp only [Option.map_some, Option.toList_some]
    rw [feedStep_single]; exact feed_actl cfg d i hic lim opts sq a ho hs

theorem step_plte (o : Option Bytes) (cs : List Chunk) (hok : optChunk PLTE o = .ok cs) (hf : i.palette = none)
    (hl : optLen o ≤ lim) (hs : ms d = ⟨some i, false, hic, lim, opts, sq⟩) :
    ∃ d', feedStep cfg d (optChunk PLTE o) = .ok d' ∧
      ms d' = ⟨some { i with palette := nonEmpty o }, false, hic, lim - optLen o, opts, sq⟩ := by
  cases o with
  | none => exact ⟨d, rfl, by rw [hs]; simp only [nonEmpty, optLen, Nat.sub_zero, info_eta_palette i hf]⟩
  | some b =>
    simp only [optChunk] at hok ⊢
    rw [hok, checkedChunk_ok _ _ _ hok, feedStep_single]
    exact feed_plte cfg d i hic lim opts sq b hf hl hs

theorem step_trns (o : Option Bytes) (cs : List Chunk) (hok : optChunk tRNS o = .ok cs) (hf : i.trns = none)
    (hl : optLen o ≤ lim) (hs : ms d = ⟨some i, false, hic, lim, opts, sq⟩) :
    ∃ d', feedStep cfg d (optChunk tRNS o) = .ok d' ∧
      ms d' = ⟨some { i with trns := trnsRead i.color i.depth i.palette.isSome o }, false, hic,
        lim - optLen o, opts, sq⟩ := by
  cases o with
  | none => exact ⟨d, rfl, by rw [hs]; simp only [trnsRead, optLen, Nat.sub_zero, info_eta_trns i hf]⟩
  | some b =>
    simp only [optChunk] at hok ⊢
    rw [hok, checkedChunk_ok _ _ _ hok, feedStep_single]
    exact feed_trns cfg d i hic lim opts sq b hf hl hs

end steps

/-- the colour-space chunks: sRGB with the two optional compatibility chunks, or gAMA, cHRM, iCCP -/
theorem steps_colour (cfg : Cfg) (z : ZCodec) (hz : z.Ok) (ha : CfgAgrees cfg z) (m : MetaConfig)
    (hr : m.InRange) (d : Dec) (i : Info) (lim : Nat) (opts : Options) (sq : Option Nat)
    (hall : ∀ s ∈ colourSteps z m, ∃ cs, s = .ok cs)
    (hf1 : i.srgb = none) (hf2 : i.gama = none) (hf3 : i.chrm = none) (hf4 : i.icc = none)
    (hl : (if m.srgb.isNone then optLen m.icc else 0) ≤ lim) (ho : opts.ignoreIccp = false)
    (hs : ms d = ⟨some i, false, false, lim, opts, sq⟩) :
    ∃ d', feedSteps cfg d (colourSteps z m) = .ok d' ∧
      ms d' = ⟨some { i with srgb := m.srgb, gama := gamaWritten m, chrm := chrmWritten m, icc := iccWritten m },
        false, (iccWritten m).isSome, lim - (if m.srgb.isNone then optLen m.icc else 0), opts, sq⟩ := by
  obtain ⟨_, _, _, _, _, hg, hc, hsr, _⟩ := hr
  unfold colourSteps at hall ⊢
  cases hsrgb : m.srgb with
  | some r =>
    rw [hsrgb] at hsr hall
    simp only [optAll] at hsr
    simp only [feedSteps]
    rw [feedStep_single]
    obtain ⟨d1, h1, s1⟩ := feed_srgb cfg d i false lim opts sq r hsr hf1 hs
    rw [h1]
    simp only
    -- gAMA only for the substitute value
    have hsubg : U32 substituteGamma := by decide
    have hsubc : substituteChroma.InRange := by decide
    obtain ⟨d2, h2, s2⟩ : ∃ d2, feedStep cfg d1 (.ok (if m.gamma = some substituteGamma
        then [(gAMA, encodeGama substituteGamma)] else [])) = .ok d2 ∧
        ms d2 = ⟨some { { i with srgb := some r } with gama := gamaWritten m }, false, false, lim, opts, sq⟩ := by
      by_cases hgm : m.gamma = some substituteGamma
      · rw [if_pos hgm, feedStep_single]
        have := feed_gama cfg d1 { i with srgb := some r } false lim opts sq substituteGamma hsubg hf2 s1
        simpa only [gamaWritten, hsrgb, hgm, if_true] using this
      · rw [if_neg hgm]
        refine ⟨d1, rfl, ?_⟩
        rw [s1]
        simp only [gamaWritten, hsrgb, hgm, if_false]
        cases i; simp_all
    rw [h2]
    simp only
    obtain ⟨d3, h3, s3⟩ : ∃ d3, feedStep cfg d2 (.ok (if m.chroma = some substituteChroma
        then [(cHRM, encodeChrm substituteChroma)] else [])) = .ok d3 ∧
        ms d3 = ⟨some { { { i with srgb := some r } with gama := gamaWritten m } with chrm := chrmWritten m },
          false, false, lim, opts, sq⟩ := by
      by_cases hcm : m.chroma = some substituteChroma
      · rw [if_pos hcm, feedStep_single]
        have := feed_chrm cfg d2 { { i with srgb := some r } with gama := gamaWritten m } false lim opts sq
          substituteChroma hsubc hf3 s2
        simpa only [chrmWritten, hsrgb, hcm, if_true] using this
      · rw [if_neg hcm]
        refine ⟨d2, rfl, ?_⟩
        rw [s2]
        simp only [chrmWritten, hsrgb, hcm, if_false]
        cases i; simp_all
    rw [h3]
    refine ⟨d3, rfl, ?_⟩
    rw [s3]
    simp only [iccWritten, hsrgb, Option.isSome_none, Option.isNone_some, Bool.false_eq_true, if_false,
      Nat.sub_zero, MS.mk.injEq, Option.some.injEq, and_true]
    cases i; simp_all
  | none =>
    rw [hsrgb] at hall
    simp only [feedSteps]
    obtain ⟨d1, h1, s1⟩ := step_gama cfg d i false lim opts sq m.gamma hg hf2 hs
    rw [h1]
    simp only
    obtain ⟨d2, h2, s2⟩ := step_chrm cfg d1 { i with gama := m.gamma } false lim opts sq m.chroma hc hf3 s1
    rw [h2]
    simp only
    simp only [hsrgb, Option.isNone_none, if_true] at hl ⊢
    cases hicc : m.icc with
    | none =>
      refine ⟨d2, rfl, ?_⟩
      rw [s2]
      simp only [gamaWritten, chrmWritten, iccWritten, hsrgb, hicc, Option.isSome_none, optLen, Nat.sub_zero,
        MS.mk.injEq, Option.some.injEq, and_true]
      cases i; simp_all
    | some p =>
      rw [hicc] at hl
      simp only [optLen] at hl ⊢
      obtain ⟨cs, hcs⟩ := hall (optChunk iCCP (m.icc.map (encodeIccp z))) (by simp)
      rw [hicc] at hcs
      simp only [Option.map_some, optChunk] at hcs ⊢
      rw [hcs, checkedChunk_ok _ _ _ hcs, feedStep_single]
      obtain ⟨d3, h3, s3⟩ := feed_iccp cfg d2 { { i with gama := m.gamma } with chrm := m.chroma.map Chromaticities.toList }
        lim opts sq z hz ha p hl ho s2
      rw [h3]
      refine ⟨d3, rfl, ?_⟩
      rw [s3]
      simp only [gamaWritten, chrmWritten, iccWritten, hsrgb, hicc, Option.isSome_some, MS.mk.injEq,
        Option.some.injEq, and_true]
      cases i; simp_all

theorem textStep_ok (t : ChunkType) (r : Except TextEncErr Bytes) (l : List Chunk) (h : textStep t r = .ok l) :
    ∃ body, r = .ok body ∧ l = [(t, body)] := by
  cases r with
  | error e => cases h
  | ok body => simp only [textStep, Except.ok.injEq] at h; exact ⟨body, rfl, h.symm⟩

theorem info_text_assoc (i : Info) (a : TextChunk) (b : List TextChunk) :
    ({ { i with text := i.text ++ [a] } with text := (i.text ++ [a]) ++ b } : Info) =
      { i with text := i.text ++ a :: b } := by
  cases i; simp

section textLists
variable (cfg : Cfg)

theorem steps_tEXt (cs : List TEXt) (d : Dec) (i : Info) (hic : Bool) (lim : Nat) (opts : Options)
    (sq : Option Nat) (hall : ∀ s ∈ cs.map tEXtStep, ∃ l, s = .ok l)
    (hl : (cs.map fun c => bodyLen c.encodeBody).sum ≤ lim) (ho : opts.ignoreText = false)
    (hs : ms d = ⟨some i, false, hic, lim, opts, sq⟩) :
    ∃ d' tcs, feedSteps cfg d (cs.map tEXtStep) = .ok d' ∧
      tcs.map viewText = cs.map (fun c => some (.t c)) ∧
      ms d' = ⟨some { i with text := i.text ++ tcs }, false, hic,
        lim - (cs.map fun c => bodyLen c.encodeBody).sum, opts, sq⟩ := by
  induction cs generalizing d i lim with
  | nil => exact ⟨d, [], rfl, rfl, by rw [hs]; simp only [List.map_nil, List.sum_nil, Nat.sub_zero, info_eta_text]⟩
  | cons c cs ih =>
    obtain ⟨l, hlk⟩ := hall (tEXtStep c) (by simp)
    obtain ⟨body, hb, rfl⟩ := textStep_ok _ _ _ hlk
    have hbl : bodyLen c.encodeBody = body.length := by rw [hb]; rfl
    simp only [List.map_cons, List.sum_cons, hbl] at hl ⊢
    simp only [feedSteps]
    rw [hlk, feedStep_single]
    obtain ⟨d1, tc, h1, v1, s1⟩ := feed_tEXt cfg d i hic lim opts sq c body hb (by omega) ho hs
    rw [h1]
    simp only
    obtain ⟨d2, tcs, h2, v2, s2⟩ := ih d1 _ (lim - body.length)
      (fun s hs' => hall s (by simp only [List.map_cons]; exact List.mem_cons_of_mem _ hs')) (by omega) s1
    refine ⟨d2, tc :: tcs, h2, by simp only [List.map_cons, v1, v2], ?_⟩
    rw [s2, info_text_assoc, Nat.sub_sub]

theorem steps_zTXt (z : ZCodec) (cs : List ZTXt) (d : Dec) (i : Info) (hic : Bool) (lim : Nat) (opts : Options)
    (sq : Option Nat) (hall : ∀ s ∈ cs.map (zTXtStep z), ∃ l, s = .ok l)
    (hl : (cs.map fun c => bodyLen (c.encodeBody z)).sum ≤ lim) (ho : opts.ignoreText = false)
    (hs : ms d = ⟨some i, false, hic, lim, opts, sq⟩) :
    ∃ d' tcs, feedSteps cfg d (cs.map (zTXtStep z)) = .ok d' ∧
      tcs.map viewText = cs.map (fun c => some (.z (c.compress z).1)) ∧
      ms d' = ⟨some { i with text := i.text ++ tcs }, false, hic,
        lim - (cs.map fun c => bodyLen (c.encodeBody z)).sum, opts, sq⟩ := by
  induction cs generalizing d i lim with
  | nil => exact ⟨d, [], rfl, rfl, by rw [hs]; simp only [List.map_nil, List.sum_nil, Nat.sub_zero, info_eta_text]⟩
  | cons c cs ih =>
    obtain ⟨l, hlk⟩ := hall (zTXtStep z c) (by simp)
    obtain ⟨body, hb, rfl⟩ := textStep_ok _ _ _ hlk
    have hbl : bodyLen (c.encodeBody z) = body.length := by rw [hb]; rfl
    simp only [List.map_cons, List.sum_cons, hbl] at hl ⊢
    simp only [feedSteps]
    rw [hlk, feedStep_single]
    obtain ⟨d1, tc, h1, v1, s1⟩ := feed_zTXt cfg d i hic lim opts sq z c body hb (by omega) ho hs
    rw [h1]
    simp only
    obtain ⟨d2, tcs, h2, v2, s2⟩ := ih d1 _ (lim - body.length)
      (fun s hs' => hall s (by simp only [List.map_cons]; exact List.mem_cons_of_mem _ hs')) (by omega) s1
    refine ⟨d2, tc :: tcs, h2, by simp only [List.map_cons, v1, v2], ?_⟩
    rw [s2, info_text_assoc, Nat.sub_sub]

theorem steps_iTXt (z : ZCodec) (ha : CfgAgrees cfg z) (cs : List ITXt) (d : Dec) (i : Info) (hic : Bool)
    (lim : Nat) (opts : Options) (sq : Option Nat) (hall : ∀ s ∈ cs.map (iTXtStep z), ∃ l, s = .ok l)
    (hl : (cs.map fun c => bodyLen (c.encodeBody z)).sum ≤ lim) (ho : opts.ignoreText = false)
    (hs : ms d = ⟨some i, false, hic, lim, opts, sq⟩) :
    ∃ d' tcs, feedSteps cfg d (cs.map (iTXtStep z)) = .ok d' ∧
      tcs.map viewText = cs.map (fun c => some (.i (c.readBack z))) ∧
      ms d' = ⟨some { i with text := i.text ++ tcs }, false, hic,
        lim - (cs.map fun c => bodyLen (c.encodeBody z)).sum, opts, sq⟩ := by
  induction cs generalizing d i lim with
  | nil => exact ⟨d, [], rfl, rfl, by rw [hs]; simp only [List.map_nil, List.sum_nil, Nat.sub_zero, info_eta_text]⟩
  | cons c cs ih =>
    obtain ⟨l, hlk⟩ := hall (iTXtStep z c) (by simp)
    obtain ⟨body, hb, rfl⟩ := textStep_ok _ _ _ hlk
    have hbl : bodyLen (c.encodeBody z) = body.length := by rw [hb]; rfl
    simp only [List.map_cons, List.sum_cons, hbl] at hl ⊢
    simp only [feedSteps]
    rw [hlk, feedStep_single]
    obtain ⟨d1, tc, h1, v1, s1⟩ := feed_iTXt cfg d i hic lim opts sq z ha c body hb (by omega) ho hs
    rw [h1]
    simp only
    obtain ⟨d2, tcs, h2, v2, s2⟩ := ih d1 _ (lim - body.length)
      (fun s hs' => hall s (by simp only [List.map_cons]; exact List.mem_cons_of_mem _ hs')) (by omega) s1
    refine ⟨d2, tc :: tcs, h2, by simp only [List.map_cons, v1, v2], ?_⟩
    rw [s2, info_text_assoc, Nat.sub_sub]

end textLists

/-! ## The whole header -/

theorem writeHeader_ok (z : ZCodec) (m : MetaConfig) (cs : List Chunk) (h : encodeHeaderChunks z m = .ok cs) :
    m.width ≠ 0 ∧ m.height ≠ 0 ∧ combinationInvalid m.color m.depth = false ∧
    runSteps (headerSteps z m) [] = (cs, .ok ()) := by
  unfold encodeHeaderChunks writeHeader at h
  by_cases hw : m.width = 0
  · simp [hw] at h
  · by_cases hh : m.height = 0
    · simp [hw, hh] at h
    · cases hc : combinationInvalid m.color m.depth with
      | true => simp [hw, hh, hc] at h
      | false =>
        simp only [hw, hh, hc, if_false, Bool.false_eq_true] at h
        refine ⟨hw, hh, rfl, ?_⟩
        generalize hrun : runSteps (headerSteps z m) [] = r at h
        obtain ⟨cs', res⟩ := r
        cases res with
        | error e => simp at h
        | ok u => cases u; simp only [Except.ok.injEq] at h; rw [h]

/-- an `Info` with exactly the fields the encoder's header can set (keeps the intermediate states of
the proof below small) -/
def mkInfo (m : MetaConfig) (pd : Option (Nat × Nat × Nat)) (srgb gama : Option Nat) (chrm : Option (List Nat))
    (icc exif : Option Bytes) (actl : Option (Nat × Nat)) (palette trns : Option Bytes)
    (text : List TextChunk) : Info :=
  { width := m.width, height := m.height, depth := m.depth, color := m.color, interlaced := false,
    pixelDims := pd, srgb := srgb, gama := gama, chrm := chrm, icc := icc, exif := exif, actl := actl,
    palette := palette, trns := trns, text := text }

/-- Decoding the header the encoder writes for `m` — every chunk through `parse_chunk`, starting
from a decoder that has seen nothing — succeeds and leaves an `Info` whose fields are those of
`expectedInfo m`, with the text chunks of `m` in order. -/
theorem header_roundtrip (cfg : Cfg) (z : ZCodec) (hz : z.Ok) (ha : CfgAgrees cfg z) (m : MetaConfig)
    (hr : m.InRange) (cs : List Chunk) (h : encodeHeaderChunks z m = .ok cs)
    (d0 : Dec) (lim : Nat) (opts : Options) (sq : Option Nat)
    (ho1 : opts.ignoreText = false) (ho2 : opts.ignoreIccp = false) (hl : m.budget z ≤ lim)
    (hs0 : ms d0 = ⟨none, false, false, lim, opts, sq⟩) :
    ∃ d tcs, feedChunks cfg d0 cs = .ok d ∧ tcs.map viewText = expectedViews z m ∧
      ms d = ⟨some { expectedInfo m with text := tcs }, false, (iccWritten m).isSome,
        lim - m.budget z, opts, sq⟩ := by
  obtain ⟨hw0, hh0, hcomb, hrun⟩ := writeHeader_ok z m cs h
  have hall := runSteps_ok_all _ _ _ hrun
  rw [feedChunks_of_runSteps cfg _ _ _ hrun d0 d0 rfl]
  have hr' := hr
  obtain ⟨rw_, rh, rd, rc, rp, _, _, _, ra⟩ := hr'
  unfold MetaConfig.budget at hl ⊢
  generalize hA : (if m.srgb.isNone then optLen m.icc else 0) = A at hl ⊢
  generalize hT : (m.tEXt.map fun c => bodyLen c.encodeBody).sum = T at hl ⊢
  generalize hZ : (m.zTXt.map fun c => bodyLen (c.encodeBody z)).sum = Z at hl ⊢
  generalize hI : (m.iTXt.map fun c => bodyLen (c.encodeBody z)).sum = I at hl ⊢
  unfold headerSteps at hall ⊢
  simp only [List.mem_append, List.mem_cons, List.not_mem_nil, or_false] at hall
  rw [feedSteps_append, feedSteps_append, feedSteps_append, feedSteps_append, feedSteps_append]
  -- IHDR, pHYs
  simp only [feedSteps]
  rw [checkedChunk_small _ _ (by simp [encodeIhdr, be32Bytes, maxChunkLen]), feedStep_single]
  obtain ⟨d1, h1, s1⟩ := feed_ihdr cfg d0 false lim opts sq m.width m.height m.depth m.color rw_ rh hw0 hh0 rd rc hcomb hs0
  rw [h1]
  simp only
  replace s1 : ms d1 = ⟨some (mkInfo m none none none none none none none none none []), false, false, lim, opts, sq⟩ := s1
  obtain ⟨d2, h2, s2⟩ := step_phys cfg d1 _ false lim opts sq m.pixelDims rp rfl s1
  rw [h2]
  simp only
  replace s2 : ms d2 = ⟨some (mkInfo m (m.pixelDims.map (fun p => (p.xppu, p.yppu, if p.meter then 1 else 0)))
    none none none none none none none none []), false, false, lim, opts, sq⟩ := s2
  -- colour space
  obtain ⟨d3, h3, s3⟩ := steps_colour cfg z hz ha m hr d2 _ lim opts sq
    (fun s hs => hall s (Or.inl (Or.inl (Or.inl (Or.inl (Or.inr hs)))))) rfl rfl rfl rfl
    (by rw [hA]; omega) ho2 s2
  rw [h3]
  rw [hA] at s3
  simp only
  replace s3 : ms d3 = ⟨some (mkInfo m (m.pixelDims.map (fun p => (p.xppu, p.yppu, if p.meter then 1 else 0)))
    m.srgb (gamaWritten m) (chrmWritten m) (iccWritten m) none none none none []), false, (iccWritten m).isSome,
    lim - A, opts, sq⟩ := s3
  -- eXIf, acTL, PLTE, tRNS
  obtain ⟨l4, hl4⟩ := hall (optChunk eXIf m.exif) (Or.inl (Or.inl (Or.inl (Or.inr (Or.inl rfl)))))
  obtain ⟨d4, h4, s4⟩ := step_exif cfg d3 _ _ (lim - A) opts sq m.exif l4 hl4 rfl s3
  rw [h4]
  simp only
  replace s4 : ms d4 = ⟨some (mkInfo m (m.pixelDims.map (fun p => (p.xppu, p.yppu, if p.meter then 1 else 0)))
    m.srgb (gamaWritten m) (chrmWritten m) (iccWritten m) (nonEmpty m.exif) none none none []), false,
    (iccWritten m).isSome, lim - A, opts, sq⟩ := s4
  obtain ⟨d5, h5, s5⟩ := step_actl cfg d4 _ _ (lim - A) opts sq m.actl ra rfl s4
  rw [h5]
  simp only
  replace s5 : ms d5 = ⟨some (mkInfo m (m.pixelDims.map (fun p => (p.xppu, p.yppu, if p.meter then 1 else 0)))
    m.srgb (gamaWritten m) (chrmWritten m) (iccWritten m) (nonEmpty m.exif) m.actl none none []), false,
    (iccWritten m).isSome, lim - A, opts, sq⟩ := s5
  obtain ⟨l6, hl6⟩ := hall (optChunk PLTE m.palette)
    (Or.inl (Or.inl (Or.inl (Or.inr (Or.inr (Or.inr (Or.inl rfl)))))))
  obtain ⟨d6, h6, s6⟩ := step_plte cfg d5 _ _ (lim - A) opts sq m.palette l6 hl6 rfl (by omega) s5
  rw [h6]
  simp only
  replace s6 : ms d6 = ⟨some (mkInfo m (m.pixelDims.map (fun p => (p.xppu, p.yppu, if p.meter then 1 else 0)))
    m.srgb (gamaWritten m) (chrmWritten m) (iccWritten m) (nonEmpty m.exif) m.actl (nonEmpty m.palette) none []),
    false, (iccWritten m).isSome, lim - A - optLen m.palette, opts, sq⟩ := s6
  obtain ⟨l7, hl7⟩ := hall (optChunk tRNS m.trns)
    (Or.inl (Or.inl (Or.inl (Or.inr (Or.inr (Or.inr (Or.inr rfl)))))))
  obtain ⟨d7, h7, s7⟩ := step_trns cfg d6 _ _ (lim - A - optLen m.palette) opts sq m.trns l7 hl7 rfl (by omega) s6
  rw [h7]
  simp only
  replace s7 : ms d7 = ⟨some (mkInfo m (m.pixelDims.map (fun p => (p.xppu, p.yppu, if p.meter then 1 else 0)))
    m.srgb (gamaWritten m) (chrmWritten m) (iccWritten m) (nonEmpty m.exif) m.actl (nonEmpty m.palette)
    (trnsRead m.color m.depth (nonEmpty m.palette).isSome m.trns) []),
    false, (iccWritten m).isSome, lim - A - optLen m.palette - optLen m.trns, opts, sq⟩ := s7
  -- the three lists of text chunks
  obtain ⟨d8, t8, h8, v8, s8⟩ := steps_tEXt cfg m.tEXt d7 _ _ _ opts sq
    (fun s hs => hall s (Or.inl (Or.inl (Or.inr hs)))) (by rw [hT]; omega) ho1 s7
  rw [h8]
  simp only
  replace s8 : ms d8 = ⟨some (mkInfo m (m.pixelDims.map (fun p => (p.xppu, p.yppu, if p.meter then 1 else 0)))
    m.srgb (gamaWritten m) (chrmWritten m) (iccWritten m) (nonEmpty m.exif) m.actl (nonEmpty m.palette)
    (trnsRead m.color m.depth (nonEmpty m.palette).isSome m.trns) ([] ++ t8)),
    false, (iccWritten m).isSome, lim - A - optLen m.palette - optLen m.trns - T, opts, sq⟩ := by
    rw [hT] at s8; exact s8
  obtain ⟨d9, t9, h9, v9, s9⟩ := steps_zTXt cfg z m.zTXt d8 _ _ _ opts sq
    (fun s hs => hall s (Or.inl (Or.inr hs))) (by rw [hZ]; omega) ho1 s8
  rw [h9]
  simp only
  replace s9 : ms d9 = ⟨some (mkInfo m (m.pixelDims.map (fun p => (p.xppu, p.yppu, if p.meter then 1 else 0)))
    m.srgb (gamaWritten m) (chrmWritten m) (iccWritten m) (nonEmpty m.exif) m.actl (nonEmpty m.palette)
    (trnsRead m.color m.depth (nonEmpty m.palette).isSome m.trns) ([] ++ t8 ++ t9)),
    false, (iccWritten m).isSome, lim - A - optLen m.palette - optLen m.trns - T - Z, opts, sq⟩ := by
    rw [hZ] at s9; exact s9
  obtain ⟨d10, t10, h10, v10, s10⟩ := steps_iTXt cfg z ha m.iTXt d9 _ _ _ opts sq
    (fun s hs => hall s (Or.inr hs)) (by rw [hI]; omega) ho1 s9
  rw [h10]
  refine ⟨d10, t8 ++ t9 ++ t10, rfl, ?_, ?_⟩
  · simp only [List.map_append, v8, v9, v10, expectedViews]
  · rw [hI] at s10
    rw [s10]
    have e1 : lim - A - optLen m.palette - optLen m.trns - T - Z - I =
        lim - (A + optLen m.palette + optLen m.trns + (T + Z + I)) := by omega
    rw [e1, List.nil_append]
    rfl

/-! ## Which text chunks the encoder accepts -/

/-- a keyword the PNG format can hold: Latin-1, 1..79 characters, no U+0000 -/
def KeywordOk (kw : String) : Prop := IsLatin1 kw ∧ 1 ≤ kw.length ∧ kw.length ≤ 79 ∧ NulFree kw
instance (kw : String) : Decidable (KeywordOk kw) := by unfold KeywordOk; infer_instance

theorem encodeKeyword_isOk_iff (kw : String) : (∃ data, encodeKeyword kw = .ok data) ↔ KeywordOk kw := by
  constructor
  · rintro ⟨data, h⟩
    obtain ⟨h1, h2, h3, h4⟩ := (encodeKeyword_ok_iff kw data).mp h
    exact ⟨encodeLatin1_isLatin1 kw data h1, h2, h3, h4⟩
  · rintro ⟨h1, h2, h3, h4⟩
    exact ⟨_, (encodeKeyword_ok_iff kw _).mpr ⟨encodeLatin1_of_isLatin1 kw h1, h2, h3, h4⟩⟩

theorem encodeLatin1_isOk_iff (s : String) : (∃ b, encodeLatin1 s = .ok b) ↔ IsLatin1 s :=
  ⟨fun ⟨b, h⟩ => encodeLatin1_isLatin1 s b h, fun h => ⟨_, encodeLatin1_of_isLatin1 s h⟩⟩

/-- tEXt is written iff keyword and text are representable -/
theorem tEXt_accepted_iff (c : TEXt) : (∃ body, c.encodeBody = .ok body) ↔ KeywordOk c.keyword ∧ IsLatin1 c.text := by
  constructor
  · rintro ⟨body, h⟩
    obtain ⟨data, t, hk, ht, _⟩ := TEXt.encodeBody_ok c body h
    exact ⟨(encodeKeyword_isOk_iff _).mp ⟨data, hk⟩, (encodeLatin1_isOk_iff _).mp ⟨t, ht⟩⟩
  · rintro ⟨hk, ht⟩
    obtain ⟨data, hk⟩ := (encodeKeyword_isOk_iff _).mpr hk
    obtain ⟨t, ht⟩ := (encodeLatin1_isOk_iff _).mpr ht
    exact ⟨data ++ 0 :: t, by simp only [TEXt.encodeBody, hk, ht]⟩

/-- zTXt is written iff the keyword is representable and the text, if still uncompressed, is Latin-1 -/
theorem zTXt_accepted_iff (z : ZCodec) (c : ZTXt) :
    (∃ body, c.encodeBody z = .ok body) ↔
      KeywordOk c.keyword ∧ (∀ s, c.text = .uncompressed s → IsLatin1 s) := by
  obtain ⟨kw, tx⟩ := c
  constructor
  · rintro ⟨body, h⟩
    unfold ZTXt.encodeBody at h
    cases hk : encodeKeyword kw with
    | error e => simp only [hk] at h; cases h
    | ok data =>
      refine ⟨(encodeKeyword_isOk_iff _).mp ⟨data, hk⟩, ?_⟩
      intro s hs
      simp only at hs
      subst hs
      simp only [hk] at h
      cases ht : encodeLatin1 s with
      | error e => rw [ht] at h; cases h
      | ok raw => exact encodeLatin1_isLatin1 s raw ht
  · rintro ⟨hk, ht⟩
    obtain ⟨data, hk⟩ := (encodeKeyword_isOk_iff _).mpr hk
    cases tx with
    | compressed v => exact ⟨data ++ 0 :: 0 :: v, by simp only [ZTXt.encodeBody, hk]⟩
    | uncompressed s =>
      obtain ⟨raw, hr⟩ := (encodeLatin1_isOk_iff _).mpr (ht s rfl)
      exact ⟨data ++ 0 :: 0 :: z.compress raw, by simp only [ZTXt.encodeBody, hk, hr]⟩

/-- iTXt is written iff the keyword is representable, the language tag is ASCII without U+0000, the
translated keyword has no U+0000, and — only for a compressed payload that is to be written
uncompressed — the payload inflates -/
theorem iTXt_accepted_iff (z : ZCodec) (c : ITXt) :
    (∃ body, c.encodeBody z = .ok body) ↔
      KeywordOk c.keyword ∧ isAsciiStr c.languageTag = true ∧ NulFree c.languageTag ∧
      NulFree c.translatedKeyword ∧ (c.payload z).isSome = true := by
  constructor
  · rintro ⟨body, h⟩
    obtain ⟨data, p, hk, ha, hl, ht, hp, _⟩ := ITXt.encodeBody_ok z c body h
    exact ⟨(encodeKeyword_isOk_iff _).mp ⟨data, hk⟩, ha, hl, ht, by rw [hp]; rfl⟩
  · rintro ⟨hk, ha, hl, ht, hp⟩
    obtain ⟨data, hk⟩ := (encodeKeyword_isOk_iff _).mpr hk
    rw [ITXt.encodeBody_eq, hk]
    simp only [ha, (strHasNul_eq_false _).mpr hl, (strHasNul_eq_false _).mpr ht, Bool.not_true, Bool.or_self,
      Bool.false_eq_true, if_false]
    cases hpp : c.payload z with
    | none => rw [hpp] at hp; cases hp
    | some p => exact ⟨_, rfl⟩

theorem textStep_error (t : ChunkType) (r : Except TextEncErr Bytes) (h : ¬ ∃ body, r = .ok body) :
    ∃ e, textStep t r = .error (.text e) := by
  cases r with
  | ok body => exact absurd ⟨body, rfl⟩ h
  | error e => exact ⟨e, rfl⟩

/-- `write_header` with a failing step: the sink holds exactly what the steps before it wrote -/
theorem writeHeader_error (z : ZCodec) (m : MetaConfig) (sink : List Chunk) (e : EncErr)
    (hw : m.width ≠ 0) (hh : m.height ≠ 0) (hc : combinationInvalid m.color m.depth = false)
    (h : writeHeader z m = (sink, .error e)) :
    ∃ (pre : List (List Chunk)) (rest : List (Except EncErr (List Chunk))),
      headerSteps z m = pre.map .ok ++ .error e :: rest ∧ sink = pre.flatten := by
  unfold writeHeader at h
  simp only [hw, hh, hc, if_false, Bool.false_eq_true] at h
  obtain ⟨pre, rest, h1, h2⟩ := runSteps_error_inv _ _ _ _ h
  exact ⟨pre, rest, h1, by simpa using h2⟩

/-- a header containing a text chunk that cannot be represented is not written to the end -/
theorem writeHeader_refuses (z : ZCodec) (m : MetaConfig)
    (h : (∃ c ∈ m.tEXt, ¬ ∃ b, c.encodeBody = .ok b) ∨ (∃ c ∈ m.zTXt, ¬ ∃ b, c.encodeBody z = .ok b) ∨
      (∃ c ∈ m.iTXt, ¬ ∃ b, c.encodeBody z = .ok b)) :
    ∃ sink e, writeHeader z m = (sink, .error e) := by
  cases hr : writeHeader z m with
  | mk sink res =>
    cases res with
    | error e => exact ⟨sink, e, rfl⟩
    | ok u =>
      exfalso
      cases u
      have hchunks : encodeHeaderChunks z m = .ok sink := by simp only [encodeHeaderChunks, hr]
      obtain ⟨_, _, _, hrun⟩ := writeHeader_ok z m sink hchunks
      have hall := runSteps_ok_all _ _ _ hrun
      unfold headerSteps at hall
      simp only [List.mem_append, List.mem_map] at hall
      rcases h with ⟨c, hc, hn⟩ | ⟨c, hc, hn⟩ | ⟨c, hc, hn⟩
      · obtain ⟨l, hl⟩ := hall (tEXtStep c) (Or.inl (Or.inl (Or.inr ⟨c, hc, rfl⟩)))
        obtain ⟨b, hb, _⟩ := textStep_ok _ _ _ hl
        exact hn ⟨b, hb⟩
      · obtain ⟨l, hl⟩ := hall (zTXtStep z c) (Or.inl (Or.inr ⟨c, hc, rfl⟩))
        obtain ⟨b, hb, _⟩ := textStep_ok _ _ _ hl
        exact hn ⟨b, hb⟩
      · obtain ⟨l, hl⟩ := hall (iTXtStep z c) (Or.inr ⟨c, hc, rfl⟩)
        obtain ⟨b, hb, _⟩ := textStep_ok _ _ _ hl
        exact hn ⟨b, hb⟩

theorem ms_of (d : Dec) (i : Info) (hi : d.info = some i) (hn : d.haveIdat = false) :
    ms d = ⟨some i, false, d.haveIccp, d.limit, d.opts, d.seqNo⟩ := by
  simp only [ms, hi, hn]

end Png.EncodeMeta
