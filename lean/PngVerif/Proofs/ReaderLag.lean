import PngVerif.Proofs.ReaderSim
/-!
# A reader that sees less of the input, against a reader that sees more and may be ahead (`Lag`)

`Lag cfg v L n A B`: `A` sees `v` bytes, `B` sees `L ≥ v` bytes, and `B` is `A` (with `L` bytes visible)
after `n` more `decode_image_data` calls, up to `Sim`.  Every call of the model, made from `A` and
from `B`, returns the same result and keeps the readers related — provided the call from `A` did not
run out of input and the call from `B` did not fail fatally; with `v = L` unconditionally, and then
`B` is ahead by no more than before (`n = 0`: `Sim` is preserved).
-/
namespace Png.Reader
open Png Png.Framing

/-- `A` sees `v` bytes; `B` sees `L` bytes and is ahead of `A` by `n` pulls -/
def Lag (cfg : Cfg) (v L n : Nat) (A B : R) : Prop := A.visible = v ∧ v ≤ L ∧ BehindN cfg n (growTo A L) B

/-- ahead by some number of pulls, at most `n` if both see the same -/
def LagLe (cfg : Cfg) (v L n : Nat) (A B : R) : Prop := ∃ n0, Lag cfg v L n0 A B ∧ (v = L → n0 ≤ n)

theorem growTo_visible (A : R) {v : Nat} (h : A.visible = v) : growTo A v = A := by
  subst h; rfl

theorem LagLe.mono {cfg : Cfg} {v L n n' : Nat} {A B : R} (h : LagLe cfg v L n A B) (hn : n ≤ n') : LagLe cfg v L n' A B := by
  obtain ⟨n0, h1, h2⟩ := h
  exact ⟨n0, h1, fun e => Nat.le_trans (h2 e) hn⟩

theorem LagLe.of_sim {cfg : Cfg} {v L n : Nat} {A B : R} (hv : A.visible = v) (hL : v ≤ L) (h : Sim (growTo A L) B) :
    LagLe cfg v L n A B := ⟨0, ⟨hv, hL, h⟩, fun _ => Nat.zero_le _⟩

theorem LagLe.sim {cfg : Cfg} {v : Nat} {A B : R} (h : LagLe cfg v v 0 A B) : Sim A B := by
  obtain ⟨n0, ⟨hv, _, hb⟩, h2⟩ := h
  have : n0 = 0 := Nat.le_zero.mp (h2 rfl)
  subst this
  rw [growTo_visible A hv] at hb
  exact hb

theorem LagLe.visible {cfg : Cfg} {v L n : Nat} {A B : R} (h : LagLe cfg v L n A B) : A.visible = v ∧ v ≤ L ∧ B.visible = L := by
  obtain ⟨n0, ⟨hv, hL, hb⟩, _⟩ := h
  exact ⟨hv, hL, hb.fields.2.1⟩

/-- the fields no pull touches are the same in both readers -/
theorem LagLe.fields {cfg : Cfg} {v L n : Nat} {A B : R} (h : LagLe cfg v L n A B) :
    B.input = A.input ∧ B.sub = A.sub ∧ B.flags = A.flags ∧ B.remaining = A.remaining ∧
    B.cached = A.cached ∧ B.bpp = A.bpp ∧ B.finished = A.finished ∧ B.isReader = A.isReader ∧ B.dead = A.dead ∧
    B.pendingBuf = A.pendingBuf ∧ B.scratchLen = A.scratchLen := by
  obtain ⟨n0, ⟨_, _, hb⟩, _⟩ := h
  obtain ⟨a1, _, a3, a4, a5, a6, a7, a8, a9, a10, a11, a12⟩ := hb.fields
  exact ⟨a1, a3, a4, a5, a6, a7, a8, a9, a10, a11, a12⟩

/-- once the frame is flushed the readers are `Sim`-related -/
theorem LagLe.of_caf {cfg : Cfg} {v L n : Nat} {A B : R} (h : LagLe cfg v L n A B) (hc : A.sub.caf = true) :
    Sim (growTo A L) B := by
  obtain ⟨n0, ⟨_, _, hb⟩, _⟩ := h
  exact hb.of_caf hc

/-! ## Side conditions and related outcomes -/

/-- both see the same, or the first call did not run out of input and the second did not fail fatally -/
def SideE {α : Type} (v L : Nat) (x y : Except Res α) : Prop :=
  v = L ∨ ((∀ e, x = .error e → e.isEof = false) ∧ (∀ e, y = .error e → e.isFatal = false))

def SideR (v L : Nat) (x y : Res) : Prop := v = L ∨ (x.isEof = false ∧ y.isFatal = false)

/-- related outcomes of a function with a result or an error -/
def LagOutE {α : Type} (cfg : Cfg) (v L n : Nat) (oa ob : R × Except Res α) : Prop :=
  SideE v L oa.2 ob.2 → oa.2 = ob.2 ∧ LagLe cfg v L n oa.1 ob.1

/-- related outcomes of a public call -/
def LagOutR (cfg : Cfg) (v L n : Nat) (oa ob : R × Res) : Prop :=
  SideR v L oa.2 ob.2 → oa.2 = ob.2 ∧ LagLe cfg v L n oa.1 ob.1

/-! ## The generic loop -/

theorem Body.Ok.pre_visible {α : Type} {B : Body α} {I : R → Prop} (hB : B.Ok I) {r : R} {x : R × Except Res α}
    (h : B.pre r = some x) : x.1.visible = r.visible := by
  have := hB.pre_vis r r.visible
  rw [growTo_visible r rfl, h] at this
  simp only [Option.map_some, Option.some.injEq] at this
  have h2 := congrArg (fun y => y.1.visible) this
  exact h2

theorem Body.Ok.post_visible {α : Type} {B : Body α} {I : R → Prop} (hB : B.Ok I) (r : R) (ev : Ev) (data : Bytes) :
    match B.post r ev data with
    | .inl x => x.1.visible = r.visible
    | .inr r'' => r''.visible = r.visible := by
  have := hB.post_vis r ev data r.visible
  rw [growTo_visible r rfl] at this
  cases hp : B.post r ev data with
  | inl x =>
    rw [hp] at this
    simp only [Sum.inl.injEq] at this
    exact congrArg (fun y => y.1.visible) this
  | inr r'' =>
    rw [hp] at this
    simp only [Sum.inr.injEq] at this
    exact congrArg (fun y => y.visible) this

theorem gloop_visible {α : Type} (cfg : Cfg) (B : Body α) {I : R → Prop} (hB : B.Ok I) (f : Nat) (r : R) :
    (gloop cfg B f r).1.visible = r.visible :=
  gloop_preserve cfg B (fun r => r.visible) (fun r x h => hB.pre_visible h) (fun r => (hB.prep_stream r).visible)
    (fun r => by rw [decodeNext'_withStream]; rfl) (fun r ev data => hB.post_visible r ev data) f r

theorem sideE_hx {α : Type} {x : Except Res α} (h : ∀ e, x = .error e → e.isEof = false) (w : String) :
    x ≠ .error (.err .eof w) := by
  intro hc
  have := h _ hc
  cases this

/-- **the generic loop from lagging readers** -/
theorem gloop_lag {α : Type} (cfg : Cfg) (hI : cfg.InflateOk) (Bd : Body α) {I : R → Prop} {E : R → R → Prop}
    (hB : Bd.Ok I) (hP : Bd.Pulls cfg I E) (hV : Bd.Vis cfg I) {v L n : Nat} {A B : R} (hl : LagLe cfg v L n A B)
    (hpos : PosOk A) (hi : I A) (f1 f3 : Nat) (hf1 : M A < f1) (hf3 : M B < f3)
    (hs : SideE v L (gloop cfg Bd f1 A).2 (gloop cfg Bd f3 B).2) :
    (gloop cfg Bd f1 A).2 = (gloop cfg Bd f3 B).2 ∧
      ∃ n', Lag cfg v L n' (gloop cfg Bd f1 A).1 (gloop cfg Bd f3 B).1 ∧ (v = L → n' ≤ n) ∧
        ((∀ r, Bd.pre r = none) → n' = 0) := by
  obtain ⟨n0, ⟨hv, hL, hb⟩, hn0⟩ := hl
  have hvis := gloop_visible cfg Bd hB f1 A
  by_cases hvL : v = L
  · subst hvL
    rw [growTo_visible A hv] at hb
    obtain ⟨g1, n', g2, g3, g4⟩ := gloop_behind cfg Bd hB hP f1 A hi hf1 n0 B f3 hb hf3
    refine ⟨g1, n', ⟨hvis.trans hv, Nat.le_refl _, ?_⟩, fun _ => Nat.le_trans g2 (hn0 rfl), g4⟩
    rw [growTo_visible _ (hvis.trans hv)]; exact g3
  · rcases hs with hs | ⟨hx, hy⟩
    · exact absurd hs hvL
    · obtain ⟨g1, n', g2, g3, g4⟩ := gloop_behind cfg Bd hB hP (M (growTo A L) + 1) (growTo A L) (hB.inv_vis A L hi)
        (Nat.lt_succ_self _) n0 B f3 hb hf3
      obtain ⟨k1, m, k2, k3⟩ := gloop_vis cfg hI Bd hB hV L f1 A hpos hi (by rw [hv]; exact hL) hf1 (M (growTo A L) + 1)
        (Nat.lt_succ_self _) (sideE_hx hx) (by rw [g1]; exact hy)
      refine ⟨k1.trans g1, m + n', ⟨hvis.trans hv, hL, k2.trans g3⟩, fun h => absurd h hvL, fun h => ?_⟩
      rw [k3 h, g4 h]

/-! ### `read_until_image_data` runs between frames: nothing can be pulled -/

/-- the current frame is consumed and flushed -/
def Flushed (r : R) : Prop := r.sub.caf = true

theorem bodyUntil_ok' : bodyUntil.Ok (fun r => True ∧ Flushed r) :=
  bodyUntil_ok.and (J := Flushed) (fun _ h => h)
    (fun r ev data r'' h hp => by
      simp only [bodyUntil] at hp
      split at hp
      · cases ev <;> simp only [Sum.inr.injEq, reduceCtorEq] at hp <;> first
          | (subst hp; exact h)
          | (split at hp
             · cases hp
             · simp only [Sum.inr.injEq] at hp; subst hp; exact h)
      · cases hp)
    (fun _ _ h => h) (fun _ _ h => h)

theorem bodyUntil_pulls (cfg : Cfg) : bodyUntil.Pulls cfg (fun r => True ∧ Flushed r) Sim where
  resp := bodyUntil_resp
  e_of := fun _ _ _ hs => hs
  inv_pull := fun X X1 hi hp => by have := hp.1; rw [hi.2] at this; cases this
  pre_pull := fun X X1 x _ _ hx => by cases hx
  iter_pull := fun X X1 hi hp _ => by have := hp.1; rw [hi.2] at this; cases this

/-! ## Functions that do not look at the stream part or the buffer -/

/-- `f` neither reads nor writes the stream decoder, the read position, the unfiltering buffer, the
    input; it keeps `consumed_and_flushed` -/
structure Inert (f : R → R) : Prop where
  comm : ∀ r d p u vis, f { r with dec := d, pos := p, ub := u, visible := vis } =
    { f r with dec := d, pos := p, ub := u, visible := vis }
  input : ∀ r, (f r).input = r.input
  caf : ∀ r, (f r).sub.caf = r.sub.caf

theorem Inert.fields {f : R → R} (hf : Inert f) (r : R) :
    (f r).dec = r.dec ∧ (f r).pos = r.pos ∧ (f r).ub = r.ub ∧ (f r).visible = r.visible := by
  have h := hf.comm r r.dec r.pos r.ub r.visible
  have e : ({ r with dec := r.dec, pos := r.pos, ub := r.ub, visible := r.visible } : R) = r := rfl
  rw [e] at h
  exact ⟨by rw [h], by rw [h], by rw [h], by rw [h]⟩

theorem Inert.sub_stream {f : R → R} (hf : Inert f) (r : R) (d : Dec) (p : Nat) (u : UB) :
    (f { r with dec := d, pos := p, ub := u }).sub = (f r).sub := by
  have h := hf.comm r d p u r.visible
  have e : ({ r with dec := d, pos := p, ub := u, visible := r.visible } : R) = { r with dec := d, pos := p, ub := u } := rfl
  rw [e] at h
  rw [h]

theorem Inert.growTo {f : R → R} (hf : Inert f) (r : R) (L : Nat) : f (Reader.growTo r L) = Reader.growTo (f r) L := by
  have h := hf.comm r r.dec r.pos r.ub L
  have e : ({ r with dec := r.dec, pos := r.pos, ub := r.ub, visible := L } : R) = Reader.growTo r L := rfl
  rw [e] at h
  rw [h]
  obtain ⟨a, b, c, _⟩ := hf.fields r
  rw [← a, ← b, ← c]
  rfl

theorem Inert.ub {f : R → R} (hf : Inert f) (r : R) (u : UB) : f { r with ub := u } = { f r with ub := u } := by
  obtain ⟨f1, f2, _, f4⟩ := hf.fields r
  calc f { r with ub := u } = f { r with dec := r.dec, pos := r.pos, ub := u, visible := r.visible } := rfl
    _ = { f r with dec := r.dec, pos := r.pos, ub := u, visible := r.visible } := hf.comm r r.dec r.pos u r.visible
    _ = { f r with ub := u } := by rw [← f1, ← f2, ← f4]

theorem Inert.sim {f : R → R} (hf : Inert f) {a b : R} (h : Sim a b) (hcur : (f a).sub.cur.isSome → a.sub.cur.isSome) :
    Sim (f a) (f b) := by
  obtain ⟨u, rfl, hu⟩ := h.exists
  rw [hf.ub a u]
  exact ⟨rfl, fun hc => by rw [(hf.fields a).2.2.1]; exact hu (hcur hc)⟩

theorem Inert.pull {cfg : Cfg} {f : R → R} (hf : Inert f) {X X1 : R} (h : Pull cfg X X1) : Pull cfg (f X) (f X1) := by
  obtain ⟨S, ev, d, hd, he, rfl⟩ := h.eq
  obtain ⟨f1, f2, f3, f4⟩ := hf.fields X
  have hst : SameStream X (f X) := ⟨f1, f2, hf.input X, f4⟩
  have hd2 := decodeNext'_stream cfg hst
  rw [hd] at hd2
  have hp := Pull.mk' (by rw [hf.caf]; exact h.1) hd2 he
  have e : f (pullState X S d) = pullState (f X) (Reader.withStream (f X) S) d := by
    have e1 : pullState X S d = { X with dec := S.dec, pos := S.pos, ub := X.ub.compact.extend d, visible := X.visible } := rfl
    rw [e1, hf.comm, ← f3, ← f4]
    rfl
  rw [e]; exact hp

theorem Inert.behind {cfg : Cfg} {f : R → R} (hf : Inert f) : ∀ {n : Nat} {X B : R}, BehindN cfg n X B →
    ((f X).sub.cur.isSome → X.sub.cur.isSome) → BehindN cfg n (f X) (f B) := by
  intro n
  induction n with
  | zero => intro X B h hcur; exact hf.sim h hcur
  | succ n ih =>
    intro X B h hcur
    obtain ⟨X1, hp, hb⟩ := h
    refine ⟨f X1, hf.pull hp, ih hb ?_⟩
    obtain ⟨S, ev, d, _, _, rfl⟩ := hp.eq
    have e1 : pullState X S d = { X with dec := S.dec, pos := S.pos, ub := X.ub.compact.extend d } := rfl
    rw [e1, hf.sub_stream]
    exact hcur

theorem Inert.lagLe {cfg : Cfg} {f : R → R} (hf : Inert f) {v L n : Nat} {A B : R} (h : LagLe cfg v L n A B)
    (hcur : (f A).sub.cur.isSome → A.sub.cur.isSome) : LagLe cfg v L n (f A) (f B) := by
  obtain ⟨n0, ⟨hv, hL, hb⟩, hn⟩ := h
  refine ⟨n0, ⟨(hf.fields A).2.2.2.trans hv, hL, ?_⟩, hn⟩
  rw [← hf.growTo]
  apply hf.behind hb
  rw [hf.growTo]
  exact hcur

/-! ## Pulls keep the invariant, the image header and the previous row -/

theorem Pull.inv {cfg : Cfg} {t : TCfg} {X X1 : R} (hI : Inv t X) (h : Pull cfg X X1) :
    Inv t X1 ∧ X1.dec.info = X.dec.info ∧ X1.ub.prevRow = X.ub.prevRow := by
  have hsp := decodeImageData_spec cfg X true hI.base (hI.live h.1).2 hI.ub
  rw [h.2] at hsp
  simp only at hsp
  obtain ⟨hB, hF, hinfo, _, hU, hS, hIn⟩ := hsp
  exact ⟨hI.du hB hF hinfo hS hU.inv hU.prev (fun _ => Or.inr hIn) (fun hc => by rw [h.1] at hc; cases hc), hinfo, hU.prev⟩

theorem BehindN.info {cfg : Cfg} {t : TCfg} : ∀ {n : Nat} {X B : R}, Inv t X → BehindN cfg n X B →
    B.dec.info = X.dec.info ∧ (X.sub.cur.isSome → B.ub.prevRow = X.ub.prevRow) := by
  intro n
  induction n with
  | zero =>
    intro X B _ h
    exact ⟨by rw [(Sim.fields h).1], fun hc => (h.ub hc).prevRow.symm⟩
  | succ n ih =>
    intro X B hI h
    obtain ⟨X1, hp, hb⟩ := h
    obtain ⟨hI1, h1, h2⟩ := hp.inv hI
    obtain ⟨a1, a2⟩ := ih hI1 hb
    obtain ⟨S, ev, d, _, _, rfl⟩ := hp.eq
    exact ⟨a1.trans h1, fun hc => (a2 hc).trans h2⟩

theorem Inv.growTo {t : TCfg} {A : R} (hI : Inv t A) {L : Nat} (h : A.visible ≤ L) : Inv t (Reader.growTo A L) :=
  hI.setVisible L (by omega)

theorem LagLe.info {cfg : Cfg} {t : TCfg} {v L n : Nat} {A B : R} (hI : Inv t A) (h : LagLe cfg v L n A B) :
    B.dec.info = A.dec.info ∧ (A.sub.cur.isSome → B.ub.prevRow = A.ub.prevRow) := by
  obtain ⟨n0, ⟨hv, hL, hb⟩, _⟩ := h
  have h2 := BehindN.info (X := Reader.growTo A L) (hI.growTo (by omega)) hb
  exact h2

/-! ## Chaining related outcomes -/

theorem SideE.ok_ok {α : Type} (v L : Nat) (a b : α) : SideE v L (.ok a : Except Res α) (.ok b) :=
  Or.inr ⟨fun e h => (by cases h), fun e h => (by cases h)⟩

/-- a function of an outcome that passes errors on -/
theorem LagOutE.bind {α β : Type} {cfg : Cfg} {v L n : Nat} {oa ob : R × Except Res α}
    (k : R × Except Res α → R × Except Res β) (hk : ∀ r e, k (r, .error e) = (r, .error e))
    (h : SideE v L oa.2 ob.2 → oa.2 = ob.2 ∧ LagLe cfg v L n oa.1 ob.1)
    (hc : ∀ A1 B1 a, oa = (A1, .ok a) → ob = (B1, .ok a) → LagLe cfg v L n A1 B1 →
      SideE v L (k (A1, .ok a)).2 (k (B1, .ok a)).2 →
      (k (A1, .ok a)).2 = (k (B1, .ok a)).2 ∧ LagLe cfg v L n (k (A1, .ok a)).1 (k (B1, .ok a)).1)
    (hs : SideE v L (k oa).2 (k ob).2) : (k oa).2 = (k ob).2 ∧ LagLe cfg v L n (k oa).1 (k ob).1 := by
  obtain ⟨A1, xa⟩ := oa
  obtain ⟨B1, xb⟩ := ob
  have hside : SideE v L xa xb := by
    rcases hs with hs | ⟨hx, hy⟩
    · exact Or.inl hs
    · refine Or.inr ⟨fun e he => ?_, fun e he => ?_⟩
      · subst he; rw [hk] at hx; exact hx e rfl
      · subst he; rw [hk] at hy; exact hy e rfl
  obtain ⟨h1, h2⟩ := h hside
  simp only at h1 h2
  subst h1
  cases xa with
  | error e => rw [hk, hk]; exact ⟨rfl, h2⟩
  | ok a => exact hc A1 B1 a rfl rfl h2 hs

/-- a public call as a function of an outcome -/
theorem LagOutE.bindR {α : Type} {cfg : Cfg} {v L n : Nat} {oa ob : R × Except Res α}
    (k : R × Except Res α → R × Res) (hk : ∀ r e, k (r, .error e) = (r, e))
    (h : SideE v L oa.2 ob.2 → oa.2 = ob.2 ∧ LagLe cfg v L n oa.1 ob.1)
    (hc : ∀ A1 B1 a, oa = (A1, .ok a) → ob = (B1, .ok a) → LagLe cfg v L n A1 B1 →
      SideR v L (k (A1, .ok a)).2 (k (B1, .ok a)).2 →
      (k (A1, .ok a)).2 = (k (B1, .ok a)).2 ∧ LagLe cfg v L n (k (A1, .ok a)).1 (k (B1, .ok a)).1)
    (hs : SideR v L (k oa).2 (k ob).2) : (k oa).2 = (k ob).2 ∧ LagLe cfg v L n (k oa).1 (k ob).1 := by
  obtain ⟨A1, xa⟩ := oa
  obtain ⟨B1, xb⟩ := ob
  have hside : SideE v L xa xb := by
    rcases hs with hs | ⟨hx, hy⟩
    · exact Or.inl hs
    · refine Or.inr ⟨fun e he => ?_, fun e he => ?_⟩
      · subst he; rw [hk] at hx; exact hx
      · subst he; rw [hk] at hy; exact hy
  obtain ⟨h1, h2⟩ := h hside
  simp only at h1 h2
  subst h1
  cases xa with
  | error e => rw [hk, hk]; exact ⟨rfl, h2⟩
  | ok a => exact hc A1 B1 a rfl rfl h2 hs

/-! ## Rows -/

/-- **`next_raw_interlaced_row`** from lagging readers -/
theorem nextRawRow_lag (cfg : Cfg) (hI : cfg.InflateOk) (rowlen : Nat) {v L n : Nat} {A B : R}
    (hl : LagLe cfg v L n A B) (hpos : PosOk A) (hi : RawI A)
    (hs : SideE v L (nextRawRow cfg rowlen (fuelOf A) A).2 (nextRawRow cfg rowlen (fuelOf B) B).2) :
    (nextRawRow cfg rowlen (fuelOf A) A).2 = (nextRawRow cfg rowlen (fuelOf B) B).2 ∧
      LagLe cfg v L n (nextRawRow cfg rowlen (fuelOf A) A).1 (nextRawRow cfg rowlen (fuelOf B) B).1 := by
  rw [nextRawRow_gloop, nextRawRow_gloop] at hs ⊢
  obtain ⟨h1, n', h2, h3, _⟩ := gloop_lag cfg hI (bodyRaw rowlen) (bodyRaw_ok' rowlen) (bodyRaw_pulls cfg rowlen)
    (bodyRaw_vis cfg rowlen) hl hpos hi (fuelOf A) (fuelOf B) (fuelOf_ge A) (fuelOf_ge B) hs
  exact ⟨h1, n', h2, h3⟩

theorem inert_cached (c : Option Info) : Inert (fun r => { r with cached := c }) :=
  ⟨fun _ _ _ _ _ => rfl, fun _ => rfl, fun _ => rfl⟩

theorem inert_advance : Inert (fun r => { r with sub := r.sub.advance }) :=
  ⟨fun _ _ _ _ _ => rfl, fun _ => rfl, fun r => (advance_dims r.sub).2.2.2⟩

/-- the cached transformation from lagging readers -/
theorem getTransform_lag {cfg : Cfg} (t : TCfg) {v L n : Nat} {A B : R} (hl : LagLe cfg v L n A B) (i : Info) :
    match getTransform t A i, getTransform t B i with
    | .error e, .error e' => e = e'
    | .ok (ra, sa), .ok (rb, sb) => sa = sb ∧ LagLe cfg v L n ra rb ∧ ra.flags = A.flags ∧ rb.flags = A.flags ∧
        ra.sub = A.sub ∧ ra.ub = A.ub
    | _, _ => False := by
  obtain ⟨_, _, hfl, _, hca, _⟩ := hl.fields
  unfold getTransform
  have hcr : t.create i B.flags = t.create i A.flags := by rw [hfl]
  rw [hca, hcr]
  cases A.cached with
  | some snap => exact ⟨rfl, hl, rfl, hfl, rfl, rfl⟩
  | none =>
    simp only
    cases t.create i A.flags with
    | error w => simp only; cases w.startsWith "panic" <;> rfl
    | ok u => exact ⟨rfl, (inert_cached (some i)).lagLe hl (fun h => h), rfl, hfl, rfl, rfl⟩

/-- **`next_interlaced_row_impl`** from lagging readers -/
theorem nextRowImpl_lag (cfg : Cfg) (hI : cfg.InflateOk) {t : TCfg} {v L n : Nat} {A B : R}
    (hl : LagLe cfg v L n A B) (i : Info) (ii : IInfo) (hInv : Inv t A) (hi : A.dec.info = some i)
    (hcur : A.sub.cur = some ii)
    (hp : A.ub.prevRow = [] ∨ A.ub.prevRow.length + 1 = rowlenOf i.color i.depth A.sub ii) (outLen : Nat)
    (hs : SideE v L (nextRowImpl cfg t A (rowlenOf i.color i.depth A.sub ii) outLen).2
      (nextRowImpl cfg t B (rowlenOf i.color i.depth A.sub ii) outLen).2) :
    (nextRowImpl cfg t A (rowlenOf i.color i.depth A.sub ii) outLen).2 =
      (nextRowImpl cfg t B (rowlenOf i.color i.depth A.sub ii) outLen).2 ∧
    LagLe cfg v L n (nextRowImpl cfg t A (rowlenOf i.color i.depth A.sub ii) outLen).1
      (nextRowImpl cfg t B (rowlenOf i.color i.depth A.sub ii) outLen).1 := by
  obtain ⟨j, hj, hg⟩ := hInv.info
  rw [hi] at hj; cases hj
  have hleg := hInv.base.dinv.legal i hi
  obtain ⟨hw1, _⟩ := widthOf_bounds hg hcur
  have hrl := rowlenOf_eq hg ii
  have h2 : 2 ≤ rowlenOf i.color i.depth A.sub ii := by rw [hrl]; exact rowlen_ge2 hleg.pair hw1
  have hfin : A.finished = false := by
    cases h : A.finished with
    | false => rfl
    | true => have := (hInv.fin h).2.2; rw [hcur] at this; cases this
  have hsp := nextRawRow_spec cfg t _ h2 (fuelOf A) A (fuelOf_ge A) hInv hfin hp
    (fun i' hi' => by rw [hi] at hi'; cases hi'; exact ⟨ii, hcur, rfl⟩)
  rw [nextRowImpl_post, nextRowImpl_post] at hs ⊢
  refine LagOutE.bind (rowImplPost t (rowlenOf i.color i.depth A.sub ii) outLen) (fun _ _ => rfl)
    (nextRawRow_lag cfg hI _ hl hInv.base.pos ⟨hInv.ub, by rw [hcur]; rfl⟩) ?_ hs
  intro A1 B1 a hoa hob hl1 _
  rw [hoa] at hsp
  obtain ⟨hI1, hK1, hR1, hlen⟩ := hsp
  obtain ⟨hinfo, hprev⟩ := hl1.info hI1
  have hcur1 : A1.sub.cur.isSome := by rw [hR1.1]; simp [hcur]
  have hpr := hprev hcur1
  have hio : infoOf B1 = infoOf A1 := hinfo
  unfold rowImplPost
  simp only
  rw [hpr, hio]
  split
  · exact ⟨rfl, hl1⟩
  · cases infoOf A1 with
    | none => exact ⟨rfl, hl1⟩
    | some i' =>
      simp only
      have hgt := getTransform_lag t hl1 i'
      cases hga : getTransform t A1 i' with
      | error e =>
        cases hgb : getTransform t B1 i' with
        | error e' => rw [hga, hgb] at hgt; simp only at hgt ⊢; subst hgt; exact ⟨rfl, hl1⟩
        | ok q => rw [hga, hgb] at hgt; exact hgt.elim
      | ok p =>
        obtain ⟨ra, sa⟩ := p
        cases hgb : getTransform t B1 i' with
        | error e' => rw [hga, hgb] at hgt; exact hgt.elim
        | ok q =>
          obtain ⟨rb, sb⟩ := q
          rw [hga, hgb] at hgt
          obtain ⟨rfl, hl2, hfa, hfb, hsa, _⟩ := hgt
          simp only
          have hap : t.apply sa rb.flags i' A1.ub.prevRow outLen = t.apply sa ra.flags i' A1.ub.prevRow outLen := by
            rw [hfa, hfb]
          rw [hap]
          cases t.apply sa ra.flags i' A1.ub.prevRow outLen with
          | none => exact ⟨rfl, hl2⟩
          | some o => exact ⟨rfl, inert_advance.lagLe hl2 (fun _ => by rw [hsa]; exact hcur1)⟩

/-! ## `finish_decoding` -/

theorem Lag.le {cfg : Cfg} {v L : Nat} {A B : R} (h : Lag cfg v L 0 A B) (n : Nat) : LagLe cfg v L n A B :=
  ⟨0, h, fun _ => Nat.zero_le _⟩

theorem finishDecodingImageData_lag (cfg : Cfg) (hI : cfg.InflateOk) {v L n : Nat} {A B : R}
    (hl : LagLe cfg v L n A B) (hpos : PosOk A) (hc : A.sub.cur = none)
    (hs : SideE v L (finishDecodingImageData cfg (fuelOf A) A).2 (finishDecodingImageData cfg (fuelOf B) B).2) :
    (finishDecodingImageData cfg (fuelOf A) A).2 = (finishDecodingImageData cfg (fuelOf B) B).2 ∧
      Lag cfg v L 0 (finishDecodingImageData cfg (fuelOf A) A).1 (finishDecodingImageData cfg (fuelOf B) B).1 := by
  rw [finishDecodingImageData_gloop, finishDecodingImageData_gloop] at hs ⊢
  obtain ⟨h1, n', h2, _, h4⟩ := gloop_lag cfg hI bodyFinish bodyFinish_ok' (bodyFinish_pulls cfg)
    (bodyFinish_vis cfg _) hl hpos ⟨trivial, hc⟩ (fuelOf A) (fuelOf B) (fuelOf_ge A) (fuelOf_ge B) hs
  have : n' = 0 := h4 (fun _ => rfl)
  subst this
  exact ⟨h1, h2⟩

/-- `mark_subframe_as_consumed_and_flushed` on `Sim`-related readers that see different prefixes -/
theorem markFlushed_lag {cfg : Cfg} {v L : Nat} {A B : R} (hl : Lag cfg v L 0 A B) :
    match markFlushed A, markFlushed B with
    | .ok a', .ok b' => Lag cfg v L 0 a' b'
    | .error e, .error e' => e = e'
    | _, _ => False := by
  obtain ⟨hv, hL, hb⟩ := hl
  have hb' : Sim (growTo A L) B := hb
  obtain ⟨u, rfl, hu⟩ := hb'.exists
  by_cases hr : A.remaining = 0
  · have e1 : markFlushed A = .error (.panic "assert!(self.remaining_frames > 0) (mod.rs:452)") := by
      unfold markFlushed; rw [if_pos hr]
    have e2 : markFlushed ({ growTo A L with ub := u } : R) = .error (.panic "assert!(self.remaining_frames > 0) (mod.rs:452)") := by
      unfold markFlushed; rw [if_pos (show ({ growTo A L with ub := u } : R).remaining = 0 from hr)]
    rw [e1, e2]
  · have e1 := markFlushed_ok A (by omega)
    have e2 := markFlushed_ok ({ growTo A L with ub := u } : R) (show 1 ≤ A.remaining by omega)
    rw [e1, e2]
    exact ⟨hv, hL, ⟨rfl, hu⟩⟩

/-- **`finish_decoding`** (with no row left) from lagging readers -/
theorem finishDecoding_lag (cfg : Cfg) (hI : cfg.InflateOk) {v L n : Nat} {A B : R}
    (hl : LagLe cfg v L n A B) (hpos : PosOk A) (hc : A.sub.cur = none)
    (hs : SideE v L (finishDecoding cfg A).2 (finishDecoding cfg B).2) :
    (finishDecoding cfg A).2 = (finishDecoding cfg B).2 ∧ LagLe cfg v L n (finishDecoding cfg A).1 (finishDecoding cfg B).1 := by
  have hsub := hl.fields.2.1
  cases hcaf : A.sub.caf with
  | true =>
    have e1 : finishDecoding cfg A = (A, .ok ()) := by
      unfold finishDecoding; rw [hc, hcaf]; rfl
    have e2 : finishDecoding cfg B = (B, .ok ()) := by
      unfold finishDecoding; rw [hsub, hc, hcaf]; rfl
    rw [e1, e2]; exact ⟨rfl, hl⟩
  | false =>
    rw [finishDecoding_post cfg A hc hcaf, finishDecoding_post cfg B (hsub ▸ hc) (hsub ▸ hcaf)] at hs ⊢
    have h1 := finishDecodingImageData_lag cfg hI hl hpos hc
    refine LagOutE.bind (n := n) finishPost (fun _ _ => rfl) (fun s => ⟨(h1 s).1, (h1 s).2.le n⟩) ?_ hs
    intro A1 B1 a hoa hob _ _
    have h0 : Lag cfg v L 0 A1 B1 := by
      have hside : SideE v L (finishDecodingImageData cfg (fuelOf A) A).2 (finishDecodingImageData cfg (fuelOf B) B).2 := by
        rw [hoa, hob]; exact SideE.ok_ok _ _ _ _
      have := (h1 hside).2
      rw [hoa, hob] at this
      exact this
    have hm := markFlushed_lag h0
    unfold finishPost
    simp only
    cases h3 : markFlushed A1 with
    | error e =>
      cases h4 : markFlushed B1 with
      | error e' => rw [h3, h4] at hm; simp only at hm ⊢; subst hm; exact ⟨rfl, h0.le n⟩
      | ok b' => rw [h3, h4] at hm; exact hm.elim
    | ok a' =>
      cases h4 : markFlushed B1 with
      | error e' => rw [h3, h4] at hm; exact hm.elim
      | ok b' => rw [h3, h4] at hm; exact ⟨rfl, Lag.le hm n⟩

/-! ## `read_row`, `next_row` -/

/-- forgetting the previous row commutes with pulls -/
theorem BehindN.resetPrev {cfg : Cfg} : ∀ {n : Nat} {X B : R}, X.ub.Inv → BehindN cfg n X B →
    BehindN cfg n { X with ub := X.ub.resetPrev } { B with ub := B.ub.resetPrev } := by
  intro n
  induction n with
  | zero => intro X B _ h; exact Sim.setUb h _ _ (fun hc => (h.ub hc).resetPrev)
  | succ n ih =>
    intro X B hu h
    obtain ⟨X1, hp, hb⟩ := h
    obtain ⟨S, ev, d, hd, he, rfl⟩ := hp.eq
    have hu1 : (pullState X S d).ub.Inv := UB.inv_extend _ _ (UB.inv_compact _ hu)
    have h1 := ih hu1 hb
    have hst : SameStream X ({ X with ub := X.ub.resetPrev } : R) := ⟨rfl, rfl, rfl, rfl⟩
    have hd2 := decodeNext'_stream cfg hst
    rw [hd] at hd2
    refine ⟨_, Pull.mk' hp.1 hd2 he, h1.simLeft ?_⟩
    refine ⟨rfl, fun _ => UbEq.of_abs (UB.inv_resetPrev _ hu1)
      (UB.inv_extend _ _ (UB.inv_compact _ (UB.inv_resetPrev _ hu))) ?_⟩
    show ((X.ub.compact.extend d).resetPrev).abs = ((X.ub.resetPrev).compact.extend d).abs
    rw [UB.abs_resetPrev, UB.abs_extend _ _ (UB.inv_compact _ hu), UB.abs_compact _ hu,
      UB.abs_extend _ _ (UB.inv_compact _ (UB.inv_resetPrev _ hu)), UB.abs_compact _ (UB.inv_resetPrev _ hu),
      UB.abs_resetPrev]
    rfl

theorem LagLe.resetPrev {cfg : Cfg} {v L n : Nat} {A B : R} (h : LagLe cfg v L n A B) (hu : A.ub.Inv) :
    LagLe cfg v L n { A with ub := A.ub.resetPrev } { B with ub := B.ub.resetPrev } := by
  obtain ⟨n0, ⟨hv, hL, hb⟩, hn⟩ := h
  exact ⟨n0, ⟨hv, hL, BehindN.resetPrev (X := growTo A L) hu hb⟩, hn⟩

theorem inert_scratch (k : Nat) : Inert (fun r => { r with scratchLen := k }) :=
  ⟨fun _ _ _ _ _ => rfl, fun _ => rfl, fun _ => rfl⟩

/-- **`read_row`** from lagging readers -/
theorem readRow_lag (cfg : Cfg) (hI : cfg.InflateOk) {t : TCfg} {v L n : Nat} {A B : R}
    (hl : LagLe cfg v L n A B) (bufLen : Nat) (i : Info) (hInv : Inv t A) (hi : A.dec.info = some i)
    (hs : SideR v L (readRow cfg t A bufLen).2 (readRow cfg t B bufLen).2) :
    (readRow cfg t A bufLen).2 = (readRow cfg t B bufLen).2 ∧
      LagLe cfg v L n (readRow cfg t A bufLen).1 (readRow cfg t B bufLen).1 := by
  have hsub := hl.fields.2.1
  cases hcur : A.sub.cur with
  | none =>
    have e1 : readRow cfg t A bufLen = (match finishDecoding cfg A with
        | (r', .error e) => (r', e)
        | (r', .ok ()) => (r', .noRow)) := by unfold readRow; rw [hcur]; rfl
    have e2 : readRow cfg t B bufLen = (match finishDecoding cfg B with
        | (r', .error e) => (r', e)
        | (r', .ok ()) => (r', .noRow)) := by unfold readRow; rw [hsub, hcur]; rfl
    rw [e1, e2] at hs ⊢
    exact LagOutE.bindR (fun o => match o with
        | (r', .error e) => (r', e)
        | (r', .ok ()) => (r', Res.noRow)) (fun _ _ => rfl)
      (finishDecoding_lag cfg hI hl hInv.base.pos hcur) (fun A1 B1 a _ _ h _ => ⟨rfl, h⟩) hs
  | some ii =>
    obtain ⟨j, hj, hg⟩ := hInv.info
    rw [hi] at hj; cases hj
    have hleg := hInv.base.dinv.legal i hi
    rw [readRow_some cfg t A bufLen ii hcur, readRow_some cfg t B bufLen ii (hsub ▸ hcur)] at hs ⊢
    generalize hr0 : (if ii.line = 0 then { A with ub := A.ub.resetPrev } else A) = A0 at hs ⊢
    generalize hb0 : (if ii.line = 0 then { B with ub := B.ub.resetPrev } else B) = B0 at hs ⊢
    have hl0 : LagLe cfg v L n A0 B0 := by
      subst hr0; subst hb0
      split
      · exact hl.resetPrev hInv.ub
      · exact hl
    have hI0 : Inv t A0 := by
      subst hr0; split
      · refine hInv.setUb _ (UB.inv_resetPrev _ hInv.ub) ?_
        intro i' _
        rw [prevRow_resetPrev]
        unfold PrevOk; split
        · exact Or.inl rfl
        · intro _; exact Or.inl rfl
        · trivial
      · exact hInv
    have hK0 : Keep A A0 := by subst hr0; split <;> exact ⟨rfl, rfl, rfl, rfl, rfl, rfl, rfl⟩
    have hs0 : A0.sub = A.sub := by subst hr0; split <;> rfl
    have hp0 : A0.ub.prevRow = [] ∨ A0.ub.prevRow.length + 1 = rowlenOf i.color i.depth A0.sub ii := by
      subst hr0; split
      · exact Or.inl (prevRow_resetPrev _)
      · rename_i hl
        have := hg.prev
        unfold PrevOk at this
        rw [hcur] at this
        cases ii with
        | null l => exact this
        | adam7 p l w => exact this hl
    have hi0 : A0.dec.info = some i := hK0.info.trans hi
    have hcur0 : A0.sub.cur = some ii := hs0 ▸ hcur
    obtain ⟨hinfoB, _⟩ := hl0.info hI0
    have hsubB := hl0.fields.2.1
    have hflB := hl0.fields.2.2.1
    have hiB : infoOf B0 = some i := hinfoB.trans hi0
    have hiA : infoOf A0 = some i := hi0
    rw [hiA, hiB] at hs ⊢
    simp only at hs ⊢
    have hls : lineSizeFor t B0 i ii = lineSizeFor t A0 i ii := by
      rw [lineSizeFor_eq, lineSizeFor_eq, hflB, hsubB]
    rw [hls, hsubB] at hs ⊢
    by_cases hb : bufLen < lineSizeFor t A0 i ii
    · rw [if_pos hb, if_pos hb]; exact ⟨rfl, hl0⟩
    · rw [if_neg hb, if_neg hb] at hs ⊢
      exact LagOutE.bindR (fun o => match o with
          | (r', .error e) => (r', e)
          | (r', .ok out) => (r', Res.row ii out)) (fun _ _ => rfl)
        (nextRowImpl_lag cfg hI hl0 i ii hI0 hi0 hcur0 hp0 (lineSizeFor t A0 i ii))
        (fun A1 B1 a _ _ h _ => ⟨rfl, h⟩) hs

/-- **`next_row` / `next_interlaced_row`** from lagging readers -/
theorem nextInterlacedRow_lag (cfg : Cfg) (hI : cfg.InflateOk) {t : TCfg} {v L n : Nat} {A B : R}
    (hl : LagLe cfg v L n A B) (i : Info) (hInv : Inv t A) (hi : A.dec.info = some i)
    (hs : SideR v L (nextInterlacedRow cfg t A).2 (nextInterlacedRow cfg t B).2) :
    (nextInterlacedRow cfg t A).2 = (nextInterlacedRow cfg t B).2 ∧
      LagLe cfg v L n (nextInterlacedRow cfg t A).1 (nextInterlacedRow cfg t B).1 := by
  obtain ⟨hinfoB, _⟩ := hl.info hInv
  have hsubB := hl.fields.2.1
  have hflB := hl.fields.2.2.1
  have hiB : infoOf B = some i := hinfoB.trans hi
  have hiA : infoOf A = some i := hi
  unfold nextInterlacedRow at hs ⊢
  rw [hiA, hiB] at hs ⊢
  simp only at hs ⊢
  have hn : outLineSize t i B.flags B.sub.width = outLineSize t i A.flags A.sub.width := by rw [hflB, hsubB]
  rw [hn] at hs ⊢
  exact readRow_lag cfg hI ((inert_scratch (outLineSize t i A.flags A.sub.width)).lagLe hl (fun h => h))
    (outLineSize t i A.flags A.sub.width) i (hInv.setScratch _) hi hs

/-! ## The row loops of `next_frame` -/

/-- the side condition on the error parts of two results -/
def SideG (v L : Nat) (x y : Option Res) : Prop :=
  v = L ∨ ((∀ e, x = some e → e.isEof = false) ∧ (∀ e, y = some e → e.isFatal = false))

/-- a function of an outcome that passes errors on, with any result type -/
theorem LagOutE.bindG {α Y : Type} {cfg : Cfg} {v L n : Nat} {oa ob : R × Except Res α}
    (k : R × Except Res α → R × Y) (err : Y → Option Res) (ke : Res → Y) (hk : ∀ r e, k (r, .error e) = (r, ke e))
    (hke : ∀ e, err (ke e) = some e)
    (h : SideE v L oa.2 ob.2 → oa.2 = ob.2 ∧ LagLe cfg v L n oa.1 ob.1)
    (hc : ∀ A1 B1 a, oa = (A1, .ok a) → ob = (B1, .ok a) → LagLe cfg v L n A1 B1 →
      SideG v L (err (k (A1, .ok a)).2) (err (k (B1, .ok a)).2) →
      (k (A1, .ok a)).2 = (k (B1, .ok a)).2 ∧ LagLe cfg v L n (k (A1, .ok a)).1 (k (B1, .ok a)).1)
    (hs : SideG v L (err (k oa).2) (err (k ob).2)) : (k oa).2 = (k ob).2 ∧ LagLe cfg v L n (k oa).1 (k ob).1 := by
  obtain ⟨A1, xa⟩ := oa
  obtain ⟨B1, xb⟩ := ob
  have hside : SideE v L xa xb := by
    rcases hs with hs | ⟨hx, hy⟩
    · exact Or.inl hs
    · refine Or.inr ⟨fun e he => ?_, fun e he => ?_⟩
      · subst he; rw [hk, hke] at hx; exact hx e rfl
      · subst he; rw [hk, hke] at hy; exact hy e rfl
  obtain ⟨h1, h2⟩ := h hside
  simp only at h1 h2
  subst h1
  cases xa with
  | error e => rw [hk, hk]; exact ⟨rfl, h2⟩
  | ok a => exact hc A1 B1 a rfl rfl h2 hs

/-- a function of the outcome of a public call that passes failures on -/
theorem LagOutR.bindG {Y : Type} {cfg : Cfg} {v L n : Nat} {oa ob : R × Res}
    (k : R × Res → R × Y) (err : Y → Option Res) (ke : Res → Y)
    (hk : ∀ r x, (x.isEof = true ∨ x.isFatal = true) → k (r, x) = (r, ke x)) (hke : ∀ e, err (ke e) = some e)
    (h : SideR v L oa.2 ob.2 → oa.2 = ob.2 ∧ LagLe cfg v L n oa.1 ob.1)
    (hc : ∀ A1 B1 x, oa = (A1, x) → ob = (B1, x) → LagLe cfg v L n A1 B1 →
      SideG v L (err (k (A1, x)).2) (err (k (B1, x)).2) →
      (k (A1, x)).2 = (k (B1, x)).2 ∧ LagLe cfg v L n (k (A1, x)).1 (k (B1, x)).1)
    (hs : SideG v L (err (k oa).2) (err (k ob).2)) : (k oa).2 = (k ob).2 ∧ LagLe cfg v L n (k oa).1 (k ob).1 := by
  obtain ⟨A1, xa⟩ := oa
  obtain ⟨B1, xb⟩ := ob
  have hside : SideR v L xa xb := by
    rcases hs with hs | ⟨hx, hy⟩
    · exact Or.inl hs
    · refine Or.inr ⟨?_, ?_⟩
      · cases he : xa.isEof with
        | false => rfl
        | true =>
          rw [hk A1 xa (Or.inl he), hke] at hx
          have := hx xa rfl; rw [he] at this; cases this
      · cases he : xb.isFatal with
        | false => rfl
        | true =>
          rw [hk B1 xb (Or.inr he), hke] at hy
          have := hy xb rfl; rw [he] at this; cases this
  obtain ⟨h1, h2⟩ := h hside
  simp only at h1 h2
  subst h1
  exact hc A1 B1 xa rfl rfl h2 hs

/-- **the non-interlaced row loop** from lagging readers -/
theorem frameRows_lag (cfg : Cfg) (hI : cfg.InflateOk) {t : TCfg} (ht : t.Ok) (i : Info) (hil : i.interlaced = false)
    (lineSize : Nat) {v L m : Nat} : ∀ (n k : Nat) (A B : R) (buf : Bytes), LagLe cfg v L m A B → Inv t A →
    A.dec.info = some i → lineSize = outLineSize t i A.flags A.sub.width → k + n = A.sub.height →
    (n = 0 → A.sub.cur = none) → (0 < n → A.sub.cur = some (.null k)) → A.sub.height * lineSize ≤ buf.length →
    SideG v L (frameRows cfg t lineSize n k A buf).2.2 (frameRows cfg t lineSize n k B buf).2.2 →
    (frameRows cfg t lineSize n k A buf).2 = (frameRows cfg t lineSize n k B buf).2 ∧
      LagLe cfg v L m (frameRows cfg t lineSize n k A buf).1 (frameRows cfg t lineSize n k B buf).1 := by
  intro n
  induction n with
  | zero => intro k A B buf hl _ _ _ _ _ _ _ _; exact ⟨rfl, hl⟩
  | succ n ih =>
    intro k A B buf hl hInv hi hls hkn _ hc hbuf hs
    have hcur := hc (Nat.succ_pos n)
    obtain ⟨j, hj, hg⟩ := hInv.info
    rw [hi] at hj; cases hj
    have hsub := hl.fields.2.1
    unfold frameRows at hs ⊢
    have hfit : (k + 1) * lineSize ≤ buf.length := mul_le_of_le (by omega) hbuf
    rw [if_neg (by omega), if_neg (by omega)] at hs ⊢
    have hp : A.ub.prevRow = [] ∨ A.ub.prevRow.length + 1 = rowlenOf i.color i.depth A.sub (.null k) := by
      have := hg.prev; unfold PrevOk at this; rw [hcur] at this; exact this
    have hsp := nextRowImpl_spec cfg ht A i (.null k) hInv hi hcur hp
    have e1 : rowlenOf i.color i.depth A.sub (.null k) = A.sub.rowlen := rfl
    have e2 : outLineSize t i A.flags (widthOf A.sub (.null k)) = lineSize := hls.symm
    rw [e1, e2] at hsp
    have hlag := nextRowImpl_lag cfg hI hl i (.null k) hInv hi hcur hp lineSize
    rw [e1] at hlag
    rw [hsub] at hs ⊢
    refine LagOutE.bindG (fun o => match o with
        | (r', .error e) => (r', buf, some e)
        | (r', .ok out) => frameRows cfg t lineSize n (k + 1) r' (setSlice buf (k * lineSize) out))
      (fun y => y.2) (fun e => (buf, some e)) (fun _ _ => rfl) (fun _ => rfl) hlag ?_ hs
    intro A1 B1 out hoa _ hl1 hs1
    rw [hoa] at hsp
    obtain ⟨a1, a2, a3, a4⟩ := hsp
    obtain ⟨d1, d2, _, _⟩ := advance_dims A.sub
    have hw1 : A1.sub.width = A.sub.width := by rw [a4]; exact d1
    have hh1 : A1.sub.height = A.sub.height := by rw [a4]; exact d2
    have hcur1 : A1.sub.cur = if k + 1 < A.sub.height then some (.null (k + 1)) else none := by
      rw [a4]; exact advance_null (hil ▸ hg.iter) (hil ▸ hg.cur) hcur
    have hlen : (setSlice buf (k * lineSize) out).length = buf.length := by
      apply setSlice_length
      rw [a3]
      have : (k + 1) * lineSize = k * lineSize + lineSize := Nat.succ_mul k lineSize
      omega
    exact ih (k + 1) A1 B1 (setSlice buf (k * lineSize) out) hl1 a1 (a2.info.trans hi)
      (by rw [a2.flags, hw1]; exact hls) (by rw [hh1]; omega)
      (fun h0 => by rw [hcur1, if_neg (by omega)])
      (fun h0 => by rw [hcur1, if_pos (by omega)])
      (by rw [hh1, hlen]; exact hbuf) hs1

/-- **the interlaced row loop** from lagging readers -/
theorem frameInterlaced_lag (cfg : Cfg) (hI : cfg.InflateOk) {t : TCfg} (ht : t.Ok) (i : Info) (stride bitsPP : Nat)
    {v L m : Nat} : ∀ (fuel : Nat) (A B : R) (buf : Bytes), LagLe cfg v L m A B → Inv t A → A.dec.info = some i →
    SideG v L (frameInterlaced cfg t stride bitsPP fuel A buf).2.2 (frameInterlaced cfg t stride bitsPP fuel B buf).2.2 →
    (frameInterlaced cfg t stride bitsPP fuel A buf).2 = (frameInterlaced cfg t stride bitsPP fuel B buf).2 ∧
      LagLe cfg v L m (frameInterlaced cfg t stride bitsPP fuel A buf).1 (frameInterlaced cfg t stride bitsPP fuel B buf).1 := by
  intro fuel
  induction fuel with
  | zero => intro A B buf hl _ _ _; exact ⟨rfl, hl⟩
  | succ fuel ih =>
    intro A B buf hl hInv hi hs
    unfold frameInterlaced at hs ⊢
    have hsp := nextInterlacedRow_spec cfg ht A i hInv hi
    refine LagOutR.bindG (fun o => match o with
        | (r', .noRow) => (r', buf, none)
        | (r', .row (.adam7 p l w) data) =>
          match Adam7.expandPass buf stride data { pass := p, line := l, width := w } bitsPP with
          | none => (r', buf, some (.panic "expand_pass: index out of range (adam7.rs:223-231)"))
          | some buf' => frameInterlaced cfg t stride bitsPP fuel r' buf'
        | (r', .row (.null _) _) => (r', buf, some (.panic "get_adam7_info().unwrap() (mod.rs:424)"))
        | (r', e) => (r', buf, some e))
      (fun y => y.2) (fun e => (buf, some e)) ?_ (fun _ => rfl) (nextInterlacedRow_lag cfg hI hl i hInv hi) ?_ hs
    · intro r x hx
      cases x <;> first | rfl | (rcases hx with hx | hx <;> cases hx)
    · intro A1 B1 x hoa _ hl1 hs1
      rw [hoa] at hsp
      obtain ⟨a1, a2, _, _⟩ := hsp
      cases x with
      | row ii data =>
        cases ii with
        | null l => exact ⟨rfl, hl1⟩
        | adam7 p l w =>
          simp only at hs1 ⊢
          cases hex : Adam7.expandPass buf stride data { pass := p, line := l, width := w } bitsPP with
          | none => exact ⟨rfl, hl1⟩
          | some buf' =>
            rw [hex] at hs1
            exact ih A1 B1 buf' hl1 a1 (a2.info.trans hi) hs1
      | _ => exact ⟨rfl, hl1⟩

/-! ## `next_frame` -/

/-- the row loop of `next_frame` (as in `frameInto_spec`) -/
theorem frameBody_spec (cfg : Cfg) {t : TCfg} (ht : t.Ok) (r1 : R) (buf : Bytes) (i : Info) (hI : Inv t r1)
    (hi : r1.dec.info = some i) (hbuf : r1.sub.height * outLineSize t i r1.flags r1.sub.width ≤ buf.length) :
    match frameBody cfg t r1 i.interlaced (outLineSize t i r1.flags r1.sub.width)
        (samplesOf (t.outColorDepth i r1.flags).1 * (t.outColorDepth i r1.flags).2) buf with
    | (r', buf', none) => Inv t r' ∧ Keep r1 r' ∧ r'.sub.cur = none ∧ buf'.length = buf.length
    | (r', buf', some e) => e.isErr = true ∧ Inv t r' ∧ Keep r1 r' ∧ buf'.length = buf.length := by
  obtain ⟨j, hj, hg⟩ := hI.info
  rw [hi] at hj; cases hj
  have hleg := hI.base.dinv.legal i hi
  unfold frameBody
  cases hil : i.interlaced with
  | true =>
    simp only [if_true]
    exact frameInterlaced_spec cfg ht i hil _ _ r1 buf hI hi rfl
      (by have := rowsLeft_le (hil ▸ hg.iter); omega) hbuf
  | false =>
    simp only [Bool.false_eq_true, if_false]
    rw [if_neg (by have := outLineSize_pos ht hleg r1.flags hg.w1; omega)]
    cases hcur : r1.sub.cur with
    | none =>
      simp only
      exact frameRows_spec cfg ht i hil _ _ _ r1 buf hI hi rfl (by omega) (fun _ => hcur) (fun h => by omega) hbuf
    | some ii =>
      have hc := hg.cur
      unfold CurOk at hc
      rw [hil, hcur] at hc
      cases ii with
      | adam7 _ _ _ => cases hit : r1.sub.iter <;> (rw [hit] at hc; exact hc.elim)
      | null l =>
        cases hit : r1.sub.iter with
        | adam7 _ => rw [hit] at hc; exact hc.elim
        | none n stop =>
          rw [hit] at hc; simp only at hc
          simp only [IInfo.line]
          exact frameRows_spec cfg ht i hil _ _ _ r1 buf hI hi rfl (by omega) (fun h => by omega) (fun _ => hcur) hbuf

/-- the row loop of `next_frame` from lagging readers -/
theorem frameBody_lag (cfg : Cfg) (hI : cfg.InflateOk) {t : TCfg} (ht : t.Ok) {v L m : Nat} {A B : R}
    (hl : LagLe cfg v L m A B) (buf : Bytes) (i : Info) (hInv : Inv t A) (hi : A.dec.info = some i) (bitsPP : Nat)
    (hbuf : A.sub.height * outLineSize t i A.flags A.sub.width ≤ buf.length)
    (hs : SideG v L (frameBody cfg t A i.interlaced (outLineSize t i A.flags A.sub.width) bitsPP buf).2.2
      (frameBody cfg t B i.interlaced (outLineSize t i A.flags A.sub.width) bitsPP buf).2.2) :
    (frameBody cfg t A i.interlaced (outLineSize t i A.flags A.sub.width) bitsPP buf).2 =
      (frameBody cfg t B i.interlaced (outLineSize t i A.flags A.sub.width) bitsPP buf).2 ∧
    LagLe cfg v L m (frameBody cfg t A i.interlaced (outLineSize t i A.flags A.sub.width) bitsPP buf).1
      (frameBody cfg t B i.interlaced (outLineSize t i A.flags A.sub.width) bitsPP buf).1 := by
  obtain ⟨j, hj, hg⟩ := hInv.info
  rw [hi] at hj; cases hj
  have hleg := hInv.base.dinv.legal i hi
  have hsub := hl.fields.2.1
  unfold frameBody at hs ⊢
  rw [hsub] at hs ⊢
  cases hil : i.interlaced with
  | true =>
    rw [hil] at hs
    simp only [if_true] at hs ⊢
    exact frameInterlaced_lag cfg hI ht i _ _ _ A B buf hl hInv hi hs
  | false =>
    rw [hil] at hs
    simp only [Bool.false_eq_true, if_false] at hs ⊢
    rw [if_neg (by have := outLineSize_pos ht hleg A.flags hg.w1; omega),
      if_neg (by have := outLineSize_pos ht hleg A.flags hg.w1; omega)] at hs ⊢
    cases hcur : A.sub.cur with
    | none =>
      rw [hcur] at hs
      simp only at hs ⊢
      exact frameRows_lag cfg hI ht i hil _ _ _ A B buf hl hInv hi rfl (by omega) (fun _ => hcur) (fun h => by omega) hbuf hs
    | some ii =>
      rw [hcur] at hs
      have hc := hg.cur
      unfold CurOk at hc
      rw [hil, hcur] at hc
      cases ii with
      | adam7 _ _ _ => cases hit : A.sub.iter <;> (rw [hit] at hc; exact hc.elim)
      | null l =>
        cases hit : A.sub.iter with
        | adam7 _ => rw [hit] at hc; exact hc.elim
        | none n stop =>
          rw [hit] at hc; simp only at hc
          simp only [IInfo.line] at hs ⊢
          exact frameRows_lag cfg hI ht i hil _ _ _ A B buf hl hInv hi rfl (by omega) (fun h => by omega)
            (fun _ => hcur) hbuf hs

theorem SideR.toG {v L : Nat} {x y : Res} (h : SideR v L x y) : SideG v L (some x) (some y) := by
  rcases h with h | ⟨hx, hy⟩
  · exact Or.inl h
  · refine Or.inr ⟨fun e he => ?_, fun e he => ?_⟩
    · cases he; exact hx
    · cases he; exact hy

/-- **`next_frame` inside the frame's image data** from lagging readers -/
theorem frameInto_lag (cfg : Cfg) (hI : cfg.InflateOk) {t : TCfg} (ht : t.Ok) {v L m : Nat} {A B : R}
    (hl : LagLe cfg v L m A B) (buf : Bytes) (hInv : Inv t A)
    (hs : SideR v L (frameInto cfg t A buf).2.1 (frameInto cfg t B buf).2.1) :
    (frameInto cfg t A buf).2 = (frameInto cfg t B buf).2 ∧
      LagLe cfg v L m (frameInto cfg t A buf).1 (frameInto cfg t B buf).1 := by
  obtain ⟨i, hi, hg⟩ := hInv.info
  have hleg := hInv.base.dinv.legal i hi
  obtain ⟨hinfoB, _⟩ := hl.info hInv
  have hsub := hl.fields.2.1
  have hfl := hl.fields.2.2.1
  have hiB : infoOf B = some i := hinfoB.trans hi
  have hiA : infoOf A = some i := hi
  unfold frameInto at hs ⊢
  rw [hiA, hiB] at hs ⊢
  simp only at hs ⊢
  rw [hfl, hsub] at hs ⊢
  by_cases hneed : buf.length < outLineSize t i A.flags i.width * i.height
  · rw [if_pos hneed, if_pos hneed]; exact ⟨rfl, hl⟩
  · rw [if_neg hneed, if_neg hneed] at hs ⊢
    have hbuf : A.sub.height * outLineSize t i A.flags A.sub.width ≤ buf.length := by
      have h1 := outLineSize_mono ht hleg A.flags hg.wW
      have h2 : A.sub.height * outLineSize t i A.flags A.sub.width ≤ i.height * outLineSize t i A.flags i.width :=
        Nat.mul_le_mul hg.hH h1
      rw [Nat.mul_comm i.height] at h2
      omega
    have hbody := frameBody_spec cfg ht A buf i hInv hi hbuf
    have hlag := frameBody_lag cfg hI ht hl buf i hInv hi
      (samplesOf (t.outColorDepth i A.flags).1 * (t.outColorDepth i A.flags).2) hbuf
    generalize frameBody cfg t A i.interlaced (outLineSize t i A.flags A.sub.width)
        (samplesOf (t.outColorDepth i A.flags).1 * (t.outColorDepth i A.flags).2) buf = oa at hs hbody hlag ⊢
    generalize frameBody cfg t B i.interlaced (outLineSize t i A.flags A.sub.width)
        (samplesOf (t.outColorDepth i A.flags).1 * (t.outColorDepth i A.flags).2) buf = ob at hs hlag ⊢
    obtain ⟨A2, bufa, ra⟩ := oa
    obtain ⟨B2, bufb, rb⟩ := ob
    simp only at hlag
    have hside : SideG v L ra rb := by
      rcases hs with hs | ⟨hx, hy⟩
      · exact Or.inl hs
      · refine Or.inr ⟨fun e he => ?_, fun e he => ?_⟩
        · subst he; exact hx
        · subst he; exact hy
    obtain ⟨h1, hl2⟩ := hlag hside
    simp only [Prod.mk.injEq] at h1
    obtain ⟨rfl, rfl⟩ := h1
    cases ra with
    | some e => exact ⟨rfl, hl2⟩
    | none =>
      simp only at hs hbody ⊢
      obtain ⟨b1, _, b3, _⟩ := hbody
      exact LagOutE.bindG (fun o => match o with
          | (r3, .error e) => (r3, e, bufa)
          | (r3, .ok ()) => (r3, Res.frame (⟨A.sub.width, A.sub.height, (t.outColorDepth i A.flags).1,
              (t.outColorDepth i A.flags).2, outLineSize t i A.flags A.sub.width⟩ : OutputInfo) bufa, bufa))
        (fun y => some y.1) (fun e => (e, bufa)) (fun _ _ => rfl) (fun _ => rfl)
        (finishDecoding_lag cfg hI hl2 b1.base.pos b3) (fun A3 B3 a _ _ h _ => ⟨rfl, h⟩) hs.toG

/-- `LagOutE.bind` for any two relations -/
theorem bindE' {α β : Type} {P Q : R → R → Prop} {v L : Nat} {oa ob : R × Except Res α}
    (k : R × Except Res α → R × Except Res β) (hk : ∀ r e, k (r, .error e) = (r, .error e))
    (hPQ : ∀ a b, P a b → Q a b)
    (h : SideE v L oa.2 ob.2 → oa.2 = ob.2 ∧ P oa.1 ob.1)
    (hc : ∀ A1 B1 a, oa = (A1, .ok a) → ob = (B1, .ok a) → P A1 B1 →
      SideE v L (k (A1, .ok a)).2 (k (B1, .ok a)).2 →
      (k (A1, .ok a)).2 = (k (B1, .ok a)).2 ∧ Q (k (A1, .ok a)).1 (k (B1, .ok a)).1)
    (hs : SideE v L (k oa).2 (k ob).2) : (k oa).2 = (k ob).2 ∧ Q (k oa).1 (k ob).1 := by
  obtain ⟨A1, xa⟩ := oa
  obtain ⟨B1, xb⟩ := ob
  have hside : SideE v L xa xb := by
    rcases hs with hs | ⟨hx, hy⟩
    · exact Or.inl hs
    · refine Or.inr ⟨fun e he => ?_, fun e he => ?_⟩
      · subst he; rw [hk] at hx; exact hx e rfl
      · subst he; rw [hk] at hy; exact hy e rfl
  obtain ⟨h1, h2⟩ := h hside
  simp only at h1 h2
  subst h1
  cases xa with
  | error e => rw [hk, hk]; exact ⟨rfl, hPQ _ _ h2⟩
  | ok a => exact hc A1 B1 a rfl rfl h2 hs

theorem bindR' {α : Type} {P Q : R → R → Prop} {v L : Nat} {oa ob : R × Except Res α}
    (k : R × Except Res α → R × Res) (hk : ∀ r e, k (r, .error e) = (r, e))
    (hPQ : ∀ a b, P a b → Q a b)
    (h : SideE v L oa.2 ob.2 → oa.2 = ob.2 ∧ P oa.1 ob.1)
    (hc : ∀ A1 B1 a, oa = (A1, .ok a) → ob = (B1, .ok a) → P A1 B1 →
      SideR v L (k (A1, .ok a)).2 (k (B1, .ok a)).2 →
      (k (A1, .ok a)).2 = (k (B1, .ok a)).2 ∧ Q (k (A1, .ok a)).1 (k (B1, .ok a)).1)
    (hs : SideR v L (k oa).2 (k ob).2) : (k oa).2 = (k ob).2 ∧ Q (k oa).1 (k ob).1 := by
  obtain ⟨A1, xa⟩ := oa
  obtain ⟨B1, xb⟩ := ob
  have hside : SideE v L xa xb := by
    rcases hs with hs | ⟨hx, hy⟩
    · exact Or.inl hs
    · refine Or.inr ⟨fun e he => ?_, fun e he => ?_⟩
      · subst he; rw [hk] at hx; exact hx
      · subst he; rw [hk] at hy; exact hy
  obtain ⟨h1, h2⟩ := h hside
  simp only at h1 h2
  subst h1
  cases xa with
  | error e => rw [hk, hk]; exact ⟨rfl, hPQ _ _ h2⟩
  | ok a => exact hc A1 B1 a rfl rfl h2 hs

theorem untilPost_sim (t : TCfg) {a b : R} (h : Sim a b) :
    (untilPost t (a, .ok ())).2 = (untilPost t (b, .ok ())).2 ∧ Sim (untilPost t (a, .ok ())).1 (untilPost t (b, .ok ())).1 := by
  obtain ⟨u, rfl, hu⟩ := h.exists
  unfold untilPost
  simp only
  have hio : infoOf ({ a with ub := u } : R) = infoOf a := rfl
  rw [hio]
  cases infoOf a with
  | none => exact ⟨rfl, ⟨rfl, hu⟩⟩
  | some i =>
    simp only
    unfold reserveBytes
    by_cases hlim : a.dec.limit ≥ outLineSize t i a.flags (Sub.new i).width
    · simp only [hlim, if_true]
      cases bppFromUsize (bytesPerPixel i.color i.depth) with
      | none => exact ⟨by first | trivial | rfl, ⟨rfl, hu⟩⟩
      | some bpp => exact ⟨by first | trivial | rfl, Sim.refl _⟩
    · simp only [hlim, if_false]
      exact ⟨by first | trivial | rfl, ⟨rfl, fun hc => by cases hc⟩⟩

theorem untilPost_grow (t : TCfg) (a : R) (L : Nat) :
    untilPost t (growTo a L, .ok ()) = (growTo (untilPost t (a, .ok ())).1 L, (untilPost t (a, .ok ())).2) := by
  unfold untilPost
  simp only
  have hio : infoOf (growTo a L) = infoOf a := rfl
  rw [hio]
  cases infoOf a with
  | none => rfl
  | some i =>
    simp only
    unfold reserveBytes
    simp only [growTo]
    by_cases hlim : a.dec.limit ≥ outLineSize t i a.flags (Sub.new i).width
    · simp only [hlim, if_true]
      cases bppFromUsize (bytesPerPixel i.color i.depth) <;> rfl
    · simp only [hlim, if_false]

/-- **`Reader::read_until_image_data`** (between frames) from lagging readers: they end `Sim`-related -/
theorem readUntilImageData_lag (cfg : Cfg) (hI : cfg.InflateOk) (t : TCfg) {v L m : Nat} {A B : R}
    (hl : LagLe cfg v L m A B) (hpos : PosOk A) (hc : A.sub.caf = true)
    (hs : SideE v L (readUntilImageData cfg t A).2 (readUntilImageData cfg t B).2) :
    (readUntilImageData cfg t A).2 = (readUntilImageData cfg t B).2 ∧
      Lag cfg v L 0 (readUntilImageData cfg t A).1 (readUntilImageData cfg t B).1 := by
  rw [readUntilImageData_post, readUntilImageData_post] at hs ⊢
  have hloop : SideE v L (rdReadUntilImageData cfg (fuelOf A) A).2 (rdReadUntilImageData cfg (fuelOf B) B).2 →
      (rdReadUntilImageData cfg (fuelOf A) A).2 = (rdReadUntilImageData cfg (fuelOf B) B).2 ∧
      Lag cfg v L 0 (rdReadUntilImageData cfg (fuelOf A) A).1 (rdReadUntilImageData cfg (fuelOf B) B).1 := by
    intro hs'
    rw [rdReadUntilImageData_gloop, rdReadUntilImageData_gloop] at hs' ⊢
    obtain ⟨h1, n', h2, _, h4⟩ := gloop_lag cfg hI bodyUntil bodyUntil_ok' (bodyUntil_pulls cfg)
      (bodyUntil_vis cfg _) hl hpos ⟨trivial, hc⟩ (fuelOf A) (fuelOf B) (fuelOf_ge A) (fuelOf_ge B) hs'
    have : n' = 0 := h4 (fun _ => rfl)
    subst this
    exact ⟨h1, h2⟩
  refine bindE' (P := Lag cfg v L 0) (Q := Lag cfg v L 0) (untilPost t) (fun _ _ => rfl) (fun _ _ h => h) hloop ?_ hs
  intro A1 B1 a _ _ h0 _
  obtain ⟨hv, hL, hb⟩ := h0
  have hb' : Sim (growTo A1 L) B1 := hb
  cases a
  obtain ⟨g1, g2⟩ := untilPost_sim t hb'
  rw [untilPost_grow] at g1 g2
  refine ⟨g1, ?_, hL, g2⟩
  have := congrArg (fun o => o.1.visible) (untilPost_grow t A1 A1.visible)
  simp only [growTo_visible A1 rfl] at this
  rw [this]; exact hv

theorem bindG' {α Y : Type} {P Q : R → R → Prop} {v L : Nat} {oa ob : R × Except Res α}
    (k : R × Except Res α → R × Y) (err : Y → Option Res) (ke : Res → Y) (hk : ∀ r e, k (r, .error e) = (r, ke e))
    (hke : ∀ e, err (ke e) = some e) (hPQ : ∀ a b, P a b → Q a b)
    (h : SideE v L oa.2 ob.2 → oa.2 = ob.2 ∧ P oa.1 ob.1)
    (hc : ∀ A1 B1 a, oa = (A1, .ok a) → ob = (B1, .ok a) → P A1 B1 →
      SideG v L (err (k (A1, .ok a)).2) (err (k (B1, .ok a)).2) →
      (k (A1, .ok a)).2 = (k (B1, .ok a)).2 ∧ Q (k (A1, .ok a)).1 (k (B1, .ok a)).1)
    (hs : SideG v L (err (k oa).2) (err (k ob).2)) : (k oa).2 = (k ob).2 ∧ Q (k oa).1 (k ob).1 := by
  obtain ⟨A1, xa⟩ := oa
  obtain ⟨B1, xb⟩ := ob
  have hside : SideE v L xa xb := by
    rcases hs with hs | ⟨hx, hy⟩
    · exact Or.inl hs
    · refine Or.inr ⟨fun e he => ?_, fun e he => ?_⟩
      · subst he; rw [hk, hke] at hx; exact hx e rfl
      · subst he; rw [hk, hke] at hy; exact hy e rfl
  obtain ⟨h1, h2⟩ := h hside
  simp only at h1 h2
  subst h1
  cases xa with
  | error e => rw [hk, hk]; exact ⟨rfl, hPQ _ _ h2⟩
  | ok a => exact hc A1 B1 a rfl rfl h2 hs

theorem SideG.toR {v L : Nat} {x y : Res} (h : SideG v L (some x) (some y)) : SideR v L x y := by
  rcases h with h | ⟨hx, hy⟩
  · exact Or.inl h
  · exact Or.inr ⟨hx x rfl, hy y rfl⟩

/-- **`next_frame`** (into a given buffer) from lagging readers -/
theorem nextFrameBuf_lag (cfg : Cfg) (hI : cfg.InflateOk) {t : TCfg} (ht : t.Ok) {v L m : Nat} {A B : R}
    (hl : LagLe cfg v L m A B) (buf : Bytes) (hInv : Inv t A)
    (hs : SideR v L (nextFrameBuf cfg t A buf).2.1 (nextFrameBuf cfg t B buf).2.1) :
    (nextFrameBuf cfg t A buf).2 = (nextFrameBuf cfg t B buf).2 ∧
      LagLe cfg v L m (nextFrameBuf cfg t A buf).1 (nextFrameBuf cfg t B buf).1 := by
  have hsub := hl.fields.2.1
  have hrm := hl.fields.2.2.2.1
  rw [nextFrameBuf_eq, nextFrameBuf_eq, hsub] at hs ⊢
  by_cases hc : A.sub.cur.isSome = true
  · rw [if_pos hc, if_pos hc] at hs ⊢; exact frameInto_lag cfg hI ht hl buf hInv hs
  rw [if_neg hc, if_neg hc] at hs ⊢
  unfold nextFrameBuf0 at hs ⊢
  rw [hrm, hsub] at hs ⊢
  by_cases hrem : A.remaining = 0
  · rw [if_pos hrem, if_pos hrem]; exact ⟨rfl, hl⟩
  · rw [if_neg hrem, if_neg hrem] at hs ⊢
    cases hcaf : A.sub.caf with
    | false =>
      rw [hcaf] at hs
      simp only [Bool.false_eq_true, if_false] at hs ⊢
      exact frameInto_lag cfg hI ht hl buf hInv hs
    | true =>
      rw [hcaf] at hs
      simp only [if_true] at hs ⊢
      have hsp := advanceFrame_spec cfg A hInv hcaf hrem
      refine bindG' (P := Lag cfg v L 0) (Q := LagLe cfg v L m) (fun o => match o with
          | (r1, .error e) => (r1, e, buf)
          | (r1, .ok ()) => frameInto cfg t r1 buf)
        (fun y => some y.1) (fun e => (e, buf)) (fun _ _ => rfl) (fun _ => rfl) (fun _ _ h => h.le m)
        (readUntilImageData_lag cfg hI t hl hInv.base.pos hcaf) ?_ hs.toG
      intro A1 B1 a hoa _ h0 hs1
      rw [hoa] at hsp
      exact frameInto_lag cfg hI ht (h0.le m) buf hsp.1 hs1.toR

theorem inert_pending (b : Option Bytes) : Inert (fun r => { r with pendingBuf := b }) :=
  ⟨fun _ _ _ _ _ => rfl, fun _ => rfl, fun _ => rfl⟩

/-- the result of the model's `next_frame` operation is that of `next_frame` -/
theorem nextFrameOp_some (cfg : Cfg) (t : TCfg) (r : R) (p : UInt8) (i : Info) (hi : infoOf r = some i) :
    nextFrameOp cfg t r p =
      (let out := nextFrameBuf cfg t { r with pendingBuf := none } (callerBuf r (outLineSize t i r.flags i.width * i.height) p)
       match out.2.1 with
       | .err .eof _ => ({ out.1 with pendingBuf := some out.2.2 }, out.2.1)
       | _ => (out.1, out.2.1)) := by
  unfold nextFrameOp; rw [hi]
  simp only
  generalize nextFrameBuf cfg t { r with pendingBuf := none } (callerBuf r (outLineSize t i r.flags i.width * i.height) p) = out
  obtain ⟨r1, x, b⟩ := out
  cases x with
  | err c w => cases c <;> rfl
  | _ => rfl

/-- **the `next_frame` operation** from lagging readers -/
theorem nextFrameOp_lag (cfg : Cfg) (hI : cfg.InflateOk) {t : TCfg} (ht : t.Ok) {v L m : Nat} {A B : R}
    (hl : LagLe cfg v L m A B) (p : UInt8) (hInv : Inv t A)
    (hs : SideR v L (nextFrameOp cfg t A p).2 (nextFrameOp cfg t B p).2) :
    (nextFrameOp cfg t A p).2 = (nextFrameOp cfg t B p).2 ∧
      LagLe cfg v L m (nextFrameOp cfg t A p).1 (nextFrameOp cfg t B p).1 := by
  obtain ⟨i, hi, _⟩ := hInv.info
  obtain ⟨hinfoB, _⟩ := hl.info hInv
  have hfl := hl.fields.2.2.1
  have hpb := hl.fields.2.2.2.2.2.2.2.2.2.1
  have hiB : infoOf B = some i := hinfoB.trans hi
  have hcb : callerBuf B (outLineSize t i B.flags i.width * i.height) p =
      callerBuf A (outLineSize t i A.flags i.width * i.height) p := by
    unfold callerBuf; rw [hpb, hfl]
  rw [nextFrameOp_some cfg t A p i hi, nextFrameOp_some cfg t B p i hiB, hcb] at hs ⊢
  have hl' := (inert_pending none).lagLe hl (fun h => h)
  have hlag := nextFrameBuf_lag cfg hI ht hl' (callerBuf A (outLineSize t i A.flags i.width * i.height) p)
    (hInv.setPending none)
  generalize nextFrameBuf cfg t { A with pendingBuf := none } (callerBuf A (outLineSize t i A.flags i.width * i.height) p)
    = oa at hs hlag ⊢
  generalize nextFrameBuf cfg t { B with pendingBuf := none } (callerBuf A (outLineSize t i A.flags i.width * i.height) p)
    = ob at hs hlag ⊢
  obtain ⟨A1, xa, ba⟩ := oa
  obtain ⟨B1, xb, bb⟩ := ob
  simp only at hs hlag ⊢
  have e1 : ∀ (r1 : R) (x : Res) (b : Bytes), (match x with
      | .err .eof _ => (({ r1 with pendingBuf := some b } : R), x)
      | _ => (r1, x)).2 = x := by
    intro r1 x b
    cases x with
    | err c w => cases c <;> rfl
    | _ => rfl
  rw [e1, e1] at hs
  obtain ⟨h1, h2⟩ := hlag hs
  simp only [Prod.mk.injEq] at h1
  obtain ⟨rfl, rfl⟩ := h1
  cases xa with
  | err c w =>
    cases c with
    | eof => exact ⟨rfl, (inert_pending (some ba)).lagLe h2 (fun h => h)⟩
    | _ => exact ⟨rfl, h2⟩
  | _ => exact ⟨rfl, h2⟩

/-! ## `next_frame_info`, `finish` -/

theorem nfiTail_lag (cfg : Cfg) (hI : cfg.InflateOk) (t : TCfg) {v L m : Nat} {A B : R}
    (hl : LagLe cfg v L m A B) (hpos : PosOk A) (hc : A.sub.caf = true)
    (hs : SideR v L (nfiTail cfg t A).2 (nfiTail cfg t B).2) :
    (nfiTail cfg t A).2 = (nfiTail cfg t B).2 ∧ Lag cfg v L 0 (nfiTail cfg t A).1 (nfiTail cfg t B).1 := by
  unfold nfiTail at hs ⊢
  refine bindR' (P := Lag cfg v L 0) (Q := Lag cfg v L 0) (fun o => match o with
      | (r2, .error e) => (r2, e)
      | (r2, .ok ()) =>
        match infoOf r2 >>= (·.fctl) with
        | some fc => (r2, Res.frameInfo fc)
        | none => (r2, Res.panic "frame_control.as_ref().unwrap() (mod.rs:352)"))
    (fun _ _ => rfl) (fun _ _ h => h) (readUntilImageData_lag cfg hI t hl hpos hc) ?_ hs
  intro A2 B2 a _ _ h0 _
  have hio : infoOf B2 = infoOf A2 := by
    have hb : Sim (growTo A2 L) B2 := h0.2.2
    show B2.dec.info = A2.dec.info
    rw [hb.fields.1]; rfl
  simp only
  rw [hio]
  cases (infoOf A2 >>= (·.fctl)) <;> exact ⟨rfl, h0⟩

theorem nextFrameInfo_end (cfg : Cfg) (t : TCfg) (x : R) (h : rfOf x = 0) :
    nextFrameInfo cfg t x = (x, .err .parameter "PolledAfterEndOfImage") := by
  unfold rfOf at h
  unfold nextFrameInfo
  cases hcaf : x.sub.caf with
  | true =>
    rw [hcaf] at h
    simp only [if_true] at h ⊢
    rw [h]; rfl
  | false =>
    rw [hcaf] at h
    simp only [Bool.false_eq_true, if_false] at h ⊢
    rw [h]; rfl

theorem inert_clearCur : Inert (fun r => { r with sub := { r.sub with cur := none } }) :=
  ⟨fun _ _ _ _ _ => rfl, fun _ => rfl, fun _ => rfl⟩

/-- **`next_frame_info`** from lagging readers -/
theorem nextFrameInfo_lag (cfg : Cfg) (hI : cfg.InflateOk) {t : TCfg} {v L m : Nat} {A B : R}
    (hl : LagLe cfg v L m A B) (hInv : Inv t A)
    (hs : SideR v L (nextFrameInfo cfg t A).2 (nextFrameInfo cfg t B).2) :
    (nextFrameInfo cfg t A).2 = (nextFrameInfo cfg t B).2 ∧
      LagLe cfg v L m (nextFrameInfo cfg t A).1 (nextFrameInfo cfg t B).1 := by
  have hsub := hl.fields.2.1
  have hrm := hl.fields.2.2.2.1
  have hrf : rfOf B = rfOf A := by unfold rfOf; rw [hsub, hrm]
  by_cases h0 : rfOf A = 0
  · rw [nextFrameInfo_end cfg t A h0, nextFrameInfo_end cfg t B (hrf.trans h0)]
    exact ⟨rfl, hl⟩
  · cases hcaf : A.sub.caf with
    | true =>
      have hrem : A.remaining ≠ 0 := by unfold rfOf at h0; rw [hcaf] at h0; exact h0
      rw [nextFrameInfo_caf cfg t A hcaf hrem, nextFrameInfo_caf cfg t B (hsub ▸ hcaf) (hrm ▸ hrem)] at hs ⊢
      obtain ⟨g1, g2⟩ := nfiTail_lag cfg hI t hl hInv.base.pos hcaf hs
      exact ⟨g1, g2.le m⟩
    | false =>
      have hrem : A.remaining - 1 ≠ 0 := by
        unfold rfOf at h0; rw [hcaf] at h0; simpa using h0
      rw [nextFrameInfo_ncaf cfg t A hcaf hrem, nextFrameInfo_ncaf cfg t B (hsub ▸ hcaf) (hrm ▸ hrem)] at hs ⊢
      have hl' := inert_clearCur.lagLe hl (fun h => by cases h)
      have hI' := hInv.clearCur
      have hsp := finishDecoding_spec cfg _ hI' rfl
      refine LagOutE.bindR (fun o => match o with
          | (r1, .error e) => (r1, e)
          | (r1, .ok ()) => nfiTail cfg t r1) (fun _ _ => rfl)
        (finishDecoding_lag cfg hI hl' hI'.base.pos rfl) ?_ hs
      intro A1 B1 a hoa _ hl1 hs1
      rw [hoa] at hsp
      obtain ⟨b1, _, b3, _⟩ := hsp
      obtain ⟨g1, g2⟩ := nfiTail_lag cfg hI t hl1 b1.base.pos (by rw [b3]) hs1
      exact ⟨g1, g2.le m⟩

/-- what `finish` resets besides the frame counter and the current row: a fresh unfiltering buffer, the frame
    marked as consumed -/
def finReset (r : R) : R := { r with ub := UB.new, sub := { r.sub with caf := true } }

/-- `read_until_end_of_input` looks at neither -/
theorem gloop_end_reset (cfg : Cfg) : ∀ (f : Nat) (r : R),
    gloop cfg bodyEnd f (finReset r) = (finReset (gloop cfg bodyEnd f r).1, (gloop cfg bodyEnd f r).2) := by
  intro f
  induction f with
  | zero => intro r; rfl
  | succ f ih =>
    intro r
    have hp1 : bodyEnd.pre (finReset r) = none := rfl
    have hp2 : bodyEnd.pre r = none := rfl
    rw [gloop_succ cfg bodyEnd f _ hp1, gloop_succ cfg bodyEnd f _ hp2]
    have hst : SameStream r (finReset r) := ⟨rfl, rfl, rfl, rfl⟩
    have hd := decodeNext'_stream cfg hst
    have hws := decodeNext'_withStream cfg r
    have hq1 : bodyEnd.prep (finReset r) = finReset r := rfl
    have hq2 : bodyEnd.prep r = r := rfl
    rw [hq1, hq2, hd]
    generalize decodeNext' cfg r = o at hws
    obtain ⟨S, res⟩ := o
    simp only at hws ⊢
    have hS : Reader.withStream (finReset r) S = finReset S := by
      conv => rhs; rw [hws]
      rfl
    rw [hS]
    cases res with
    | error e => rfl
    | ok p =>
      obtain ⟨ev, data⟩ := p
      cases ev <;> first | rfl | exact ih S

/-- the part of `finish`'s reset that keeps `consumed_and_flushed` -/
def finClear (r : R) : R := { r with remaining := 0, sub := { r.sub with cur := none } }

theorem inert_finClear : Inert finClear := ⟨fun _ _ _ _ _ => rfl, fun _ => rfl, fun _ => rfl⟩

/-- `finish` after its loop, before the buffer is reset and the frame marked as consumed -/
def finishK (o : R × Except Res Unit) : R × Res :=
  match o with
  | (r', .error e) => (r', e)
  | (r', .ok ()) => ({ r' with finished := true }, .done)

/-- `finish` with its loop run before the buffer is reset and the frame marked as consumed -/
theorem finish_eq (cfg : Cfg) (r : R) (h : r.finished = false) :
    finish cfg r = (finReset (finishK (gloop cfg bodyEnd (fuelOf r) (finClear r))).1,
      (finishK (gloop cfg bodyEnd (fuelOf r) (finClear r))).2) := by
  unfold finish
  rw [if_neg (by rw [h]; exact Bool.false_ne_true)]
  show (match readUntilEndOfInput cfg (fuelOf (finReset (finClear r))) (finReset (finClear r)) with
    | (r', Except.error e) => (r', e)
    | (r', Except.ok ()) => (({ r' with finished := true } : R), Res.done)) = _
  have e2 : fuelOf (finReset (finClear r)) = fuelOf r := rfl
  rw [readUntilEndOfInput_gloop, e2, gloop_end_reset]
  generalize gloop cfg bodyEnd (fuelOf r) (finClear r) = o
  obtain ⟨r', res⟩ := o
  cases res <;> rfl

theorem finReset_lag {cfg : Cfg} {v L : Nat} {A B : R} (h : Lag cfg v L 0 A B) : Lag cfg v L 0 (finReset A) (finReset B) := by
  obtain ⟨hv, hL, hb⟩ := h
  have hb' : Sim (growTo A L) B := hb
  obtain ⟨u, rfl, _⟩ := hb'.exists
  exact ⟨hv, hL, Sim.refl _⟩

/-- **`finish`** from lagging readers -/
theorem finish_lag (cfg : Cfg) (hI : cfg.InflateOk) {v L m : Nat} {A B : R}
    (hl : LagLe cfg v L m A B) (hpos : PosOk A)
    (hs : SideR v L (finish cfg A).2 (finish cfg B).2) :
    (finish cfg A).2 = (finish cfg B).2 ∧ LagLe cfg v L m (finish cfg A).1 (finish cfg B).1 := by
  have hfi := hl.fields.2.2.2.2.2.2.1
  cases hfin : A.finished with
  | true =>
    have e1 : finish cfg A = (A, .err .parameter "PolledAfterEndOfImage") := by unfold finish; rw [hfin]; rfl
    have e2 : finish cfg B = (B, .err .parameter "PolledAfterEndOfImage") := by unfold finish; rw [hfi, hfin]; rfl
    rw [e1, e2]; exact ⟨rfl, hl⟩
  | false =>
    rw [finish_eq cfg A hfin, finish_eq cfg B (hfi.trans hfin)] at hs ⊢
    have hl' := inert_finClear.lagLe hl (fun h => by cases h)
    have hfu : fuelOf B = fuelOf (finClear B) := rfl
    have hfa : fuelOf A = fuelOf (finClear A) := rfl
    rw [hfu, hfa] at hs ⊢
    have hloop : SideE v L (gloop cfg bodyEnd (fuelOf (finClear A)) (finClear A)).2 (gloop cfg bodyEnd (fuelOf (finClear B)) (finClear B)).2 →
        (gloop cfg bodyEnd (fuelOf (finClear A)) (finClear A)).2 = (gloop cfg bodyEnd (fuelOf (finClear B)) (finClear B)).2 ∧
        Lag cfg v L 0 (gloop cfg bodyEnd (fuelOf (finClear A)) (finClear A)).1 (gloop cfg bodyEnd (fuelOf (finClear B)) (finClear B)).1 := by
      intro hs'
      obtain ⟨h1, n', h2, _, h4⟩ := gloop_lag cfg hI bodyEnd bodyEnd_ok' (bodyEnd_pulls cfg)
        (bodyEnd_vis cfg _) hl' hpos ⟨trivial, rfl⟩ (fuelOf (finClear A)) (fuelOf (finClear B)) (fuelOf_ge _) (fuelOf_ge _) hs'
      have : n' = 0 := h4 (fun _ => rfl)
      subst this
      exact ⟨h1, h2⟩
    have hk := bindR' (P := Lag cfg v L 0) (Q := Lag cfg v L 0) finishK (fun _ _ => rfl) (fun _ _ h => h) hloop
      (fun A1 B1 a _ _ h0 _ => by
        obtain ⟨hv, hL, hb⟩ := h0
        have hb' : Sim (growTo A1 L) B1 := hb
        obtain ⟨u, rfl, hu⟩ := hb'.exists
        exact ⟨rfl, hv, hL, ⟨rfl, hu⟩⟩) hs
    exact ⟨hk.1, (finReset_lag hk.2).le m⟩

/-! ## Every public call of a `Reader` -/

theorem inert_dead : Inert (fun r => { r with isReader := false, dead := true }) :=
  ⟨fun _ _ _ _ _ => rfl, fun _ => rfl, fun _ => rfl⟩

/-- **every call on a `Reader`** from lagging readers: the same result, and the readers stay related — if
    the call from the reader that sees less did not run out of input and the call from the reader that
    sees more did not fail fatally; unconditionally if both see the same -/
theorem step_lag (cfg : Cfg) (hI : cfg.InflateOk) {t : TCfg} (ht : t.Ok) {v L m : Nat} {A B : R}
    (hl : LagLe cfg v L m A B) (hInv : Inv t A) (hr : A.isReader = true) (hd : A.dead = false) (op : Op)
    (hop : ∀ n, op ≠ .grow n) (hs : SideR v L (step cfg t A op).2 (step cfg t B op).2) :
    (step cfg t A op).2 = (step cfg t B op).2 ∧ LagLe cfg v L m (step cfg t A op).1 (step cfg t B op).1 := by
  have hir : B.isReader = true := hl.fields.2.2.2.2.2.2.2.1.trans hr
  have hdd : B.dead = false := hl.fields.2.2.2.2.2.2.2.2.1.trans hd
  obtain ⟨i, hi, _⟩ := hInv.info
  obtain ⟨hinfoB, _⟩ := hl.info hInv
  have hfl := hl.fields.2.2.1
  have hiB : infoOf B = some i := hinfoB.trans hi
  have hiA : infoOf A = some i := hi
  have hlp := (inert_pending none).lagLe hl (fun h => h)
  cases op with
  | grow n => exact absurd rfl (hop n)
  | readInfo =>
    have e : ∀ r : R, r.isReader = true → r.dead = false →
        step cfg t r .readInfo = ({ r with isReader := false, dead := true }, .panic "model: read_info called twice") := by
      intro r h1 h2
      simp only [step, readInfo, readInfo', h1, h2, Bool.false_eq_true, if_false, if_true]
    rw [e A hr hd, e B hir hdd]
    exact ⟨rfl, inert_dead.lagLe hl (fun h => h)⟩
  | readHeader =>
    have e : ∀ r : R, r.isReader = true →
        step cfg t r .readHeader = (r, .err .parameter "model: Decoder already consumed") := by
      intro r h1
      simp only [step, h1, true_or, if_true]
    rw [e A hr, e B hir]
    exact ⟨rfl, hl⟩
  | nextFrame p =>
    have e : ∀ r : R, r.isReader = true → step cfg t r (.nextFrame p) = nextFrameOp cfg t r p := by
      intro r h1
      simp only [step, h1, Bool.not_true, Bool.false_eq_true, if_false]
    rw [e A hr, e B hir] at hs ⊢
    exact nextFrameOp_lag cfg hI ht hl p hInv hs
  | nextRow =>
    have e : ∀ r : R, r.isReader = true → step cfg t r .nextRow = nextInterlacedRow cfg t { r with pendingBuf := none } := by
      intro r h1
      simp only [step, h1, Bool.not_true, Bool.false_eq_true, if_false]
    rw [e A hr, e B hir] at hs ⊢
    exact nextInterlacedRow_lag cfg hI hlp i (hInv.setPending none) hi hs
  | readRow =>
    have e : ∀ r : R, r.isReader = true → infoOf r = some i →
        step cfg t r .readRow = readRow cfg t { r with pendingBuf := none } (outLineSize t i r.flags i.width) := by
      intro r h1 h2
      simp only [step, h1, h2, Bool.not_true, Bool.false_eq_true, if_false]
    have hsz : outLineSize t i B.flags i.width = outLineSize t i A.flags i.width := by rw [hfl]
    rw [e A hr hiA, e B hir hiB, hsz] at hs ⊢
    exact readRow_lag cfg hI hlp _ i (hInv.setPending none) hi hs
  | nextFrameInfo =>
    have e : ∀ r : R, r.isReader = true → step cfg t r .nextFrameInfo = nextFrameInfo cfg t { r with pendingBuf := none } := by
      intro r h1
      simp only [step, h1, Bool.not_true, Bool.false_eq_true, if_false]
    rw [e A hr, e B hir] at hs ⊢
    exact nextFrameInfo_lag cfg hI hlp (hInv.setPending none) hs
  | finish =>
    have e : ∀ r : R, r.isReader = true → step cfg t r .finish = finish cfg { r with pendingBuf := none } := by
      intro r h1
      simp only [step, h1, Bool.not_true, Bool.false_eq_true, if_false]
    rw [e A hr, e B hir] at hs ⊢
    exact finish_lag cfg hI hlp hInv.base.pos hs

/-! ## `Sim` is preserved by every operation -/

theorem fuelOf_sim {a b : R} (h : Sim a b) : fuelOf b = fuelOf a := by
  unfold fuelOf; rw [h.fields.2.1, h.fields.2.2.2.1]

theorem readHeaderInfo_sim (cfg : Cfg) {a b : R} (h : Sim a b) :
    OutSim (readHeaderInfo cfg (fuelOf a) a) (readHeaderInfo cfg (fuelOf b) b) := by
  rw [fuelOf_sim h, readHeaderInfo_gloop, readHeaderInfo_gloop]
  exact gloop_resp cfg bodyHeader Sim bodyHeader_resp _ a b h

theorem readUntilImageData_sim (cfg : Cfg) (t : TCfg) {a b : R} (h : Sim a b) :
    OutSim (readUntilImageData cfg t a) (readUntilImageData cfg t b) := by
  rw [readUntilImageData_post, readUntilImageData_post, fuelOf_sim h, rdReadUntilImageData_gloop, rdReadUntilImageData_gloop]
  have hg := gloop_resp cfg bodyUntil Sim bodyUntil_resp (fuelOf a) a b h
  generalize gloop cfg bodyUntil (fuelOf a) a = oa at hg
  generalize gloop cfg bodyUntil (fuelOf a) b = ob at hg
  obtain ⟨a1, xa⟩ := oa
  obtain ⟨b1, xb⟩ := ob
  obtain ⟨h1, h2⟩ := hg
  simp only at h1 h2
  subst h1
  cases xa with
  | error e => exact ⟨rfl, h2⟩
  | ok u => cases u; exact untilPost_sim t h2

theorem inert_isReader : Inert (fun r => { r with isReader := true }) :=
  ⟨fun _ _ _ _ _ => rfl, fun _ => rfl, fun _ => rfl⟩

theorem inert_remaining (k : Nat) : Inert (fun r => { r with remaining := k }) :=
  ⟨fun _ _ _ _ _ => rfl, fun _ => rfl, fun _ => rfl⟩

theorem readInfo'_sim (cfg : Cfg) (t : TCfg) {a b : R} (h : Sim a b) :
    OutSim (readInfo' cfg t a) (readInfo' cfg t b) := by
  unfold readInfo'
  rw [h.fields.2.2.2.2.2.2.2.2.2.2.1]
  cases a.isReader with
  | true => exact ⟨rfl, h⟩
  | false =>
    simp only [Bool.false_eq_true, if_false]
    have hg := readHeaderInfo_sim cfg h
    generalize readHeaderInfo cfg (fuelOf a) a = oa at hg
    generalize readHeaderInfo cfg (fuelOf b) b = ob at hg
    obtain ⟨a1, xa⟩ := oa
    obtain ⟨b1, xb⟩ := ob
    obtain ⟨h1, h2⟩ := hg
    simp only at h1 h2
    subst h1
    cases xa with
    | error e => exact ⟨rfl, h2⟩
    | ok u =>
      cases u
      simp only
      obtain ⟨u1, rfl, hu1⟩ := h2.exists
      have hio : infoOf ({ a1 with ub := u1 } : R) = infoOf a1 := rfl
      rw [hio]
      cases infoOf a1 with
      | none => exact ⟨rfl, ⟨rfl, hu1⟩⟩
      | some i =>
        simp only
        cases checkedRawRowLength i.color i.depth i.width with
        | none => exact ⟨rfl, ⟨rfl, hu1⟩⟩
        | some x =>
          cases checkedRawRowLength (t.outColorDepth i a1.flags).1 (t.outColorDepth i a1.flags).2 i.width with
          | none => exact ⟨rfl, ⟨rfl, hu1⟩⟩
          | some rl =>
            simp only
            split
            · exact ⟨rfl, ⟨rfl, hu1⟩⟩
            · have hs1 : Sim ({ a1 with isReader := true } : R) ({ ({ a1 with ub := u1 } : R) with isReader := true } : R) :=
                ⟨rfl, hu1⟩
              have hg2 := readUntilImageData_sim cfg t hs1
              generalize readUntilImageData cfg t { a1 with isReader := true } = oa2 at hg2
              generalize readUntilImageData cfg t { ({ a1 with ub := u1 } : R) with isReader := true } = ob2 at hg2
              obtain ⟨a2, ya⟩ := oa2
              obtain ⟨b2, yb⟩ := ob2
              obtain ⟨k1, k2⟩ := hg2
              simp only at k1 k2
              subst k1
              cases ya with
              | error e => exact ⟨rfl, k2⟩
              | ok u =>
                cases u
                simp only
                obtain ⟨u2, rfl, hu2⟩ := k2.exists
                have hio2 : infoOf ({ a2 with ub := u2 } : R) = infoOf a2 := rfl
                rw [hio2]
                cases infoOf a2 with
                | none => exact ⟨rfl, ⟨rfl, hu2⟩⟩
                | some i2 =>
                  simp only
                  cases sizeFits (t.outColorDepth i2 a2.flags) i.width i.height with
                  | true => exact ⟨rfl, ⟨rfl, hu2⟩⟩
                  | false => exact ⟨rfl, ⟨rfl, hu2⟩⟩

theorem readInfo_sim (cfg : Cfg) (t : TCfg) {a b : R} (h : Sim a b) :
    OutSim (readInfo cfg t a) (readInfo cfg t b) := by
  unfold readInfo
  have hg := readInfo'_sim cfg t h
  generalize readInfo' cfg t a = oa at hg
  generalize readInfo' cfg t b = ob at hg
  obtain ⟨a1, xa⟩ := oa
  obtain ⟨b1, xb⟩ := ob
  obtain ⟨h1, h2⟩ := hg
  simp only at h1 h2
  subst h1
  cases xa <;> first
    | exact ⟨rfl, h2⟩
    | exact ⟨rfl, inert_dead.sim h2 (fun hc => hc)⟩

/-- **`step_sim`**: every operation of the model, from `Sim`-related readers (one of them reachable),
    returns the same result and leaves `Sim`-related readers -/
theorem step_sim (cfg : Cfg) (hI : cfg.InflateOk) {t : TCfg} (ht : t.Ok) {a b : R} (hR : RInv t a) (h : Sim a b)
    (op : Op) : (step cfg t a op).2 = (step cfg t b op).2 ∧ Sim (step cfg t a op).1 (step cfg t b op).1 := by
  have hdead := h.fields.2.2.2.2.2.2.2.2.2.2.2.1
  have hisr := h.fields.2.2.2.2.2.2.2.2.2.2.1
  by_cases hg : ∃ n, op = .grow n
  · obtain ⟨n, rfl⟩ := hg
    obtain ⟨u, rfl, hu⟩ := h.exists
    exact ⟨rfl, ⟨rfl, hu⟩⟩
  · have hop : ∀ n, op ≠ .grow n := fun n hc => hg ⟨n, hc⟩
    rcases hR with ⟨hd, hr⟩ | ⟨hd, hr, hInv⟩ | ⟨hd, hr, _⟩
    · -- the `Decoder` is gone
      cases op with
      | grow n => exact absurd rfl (hop n)
      | readInfo => simp only [step, hd, hdead, if_true]; exact ⟨trivial, h⟩
      | readHeader => simp only [step, hd, hdead, or_true, if_true]; exact ⟨trivial, h⟩
      | _ => simp only [step, hr, hisr, Bool.not_false, if_true]; exact ⟨trivial, h⟩
    · -- a `Reader`
      have hl : LagLe cfg a.visible a.visible 0 a b :=
        ⟨0, ⟨rfl, Nat.le_refl _, by rw [growTo_visible a rfl]; exact h⟩, fun _ => Nat.le_refl _⟩
      obtain ⟨g1, g2⟩ := step_lag cfg hI ht hl hInv hr hd op hop (Or.inl rfl)
      exact ⟨g1, g2.sim⟩
    · -- a `Decoder`
      cases op with
      | grow n => exact absurd rfl (hop n)
      | readInfo =>
        simp only [step, hd, hdead, Bool.false_eq_true, if_false]
        exact ⟨(readInfo_sim cfg t h).1, (readInfo_sim cfg t h).2⟩
      | readHeader =>
        simp only [step, hd, hr, hdead, hisr, Bool.false_eq_true, or_self, if_false]
        have hg := readHeaderInfo_sim cfg h
        generalize readHeaderInfo cfg (fuelOf a) a = oa at hg
        generalize readHeaderInfo cfg (fuelOf b) b = ob at hg
        obtain ⟨a1, xa⟩ := oa
        obtain ⟨b1, xb⟩ := ob
        obtain ⟨h1, h2⟩ := hg
        simp only at h1 h2
        subst h1
        cases xa <;> exact ⟨rfl, h2⟩
      | _ => simp only [step, hr, hisr, Bool.not_false, if_true]; exact ⟨trivial, h⟩

theorem run_cons (cfg : Cfg) (t : TCfg) (r : R) (op : Op) (ops : List Op) :
    run cfg t r (op :: ops) =
      ((run cfg t (step cfg t r op).1 ops).1, (step cfg t r op).2 :: (run cfg t (step cfg t r op).1 ops).2) := by
  simp only [run, List.foldl_cons, List.nil_append]
  rw [run_acc]
  simp [run]

theorem opsOk_step (cfg : Cfg) {t : TCfg} (ht : t.Ok) {r : R} {op : Op} {ops : List Op} (hR : RInv t r)
    (hops : OpsOk r.isReader (op :: ops)) :
    (op = .readInfo → r.isReader = false) ∧ OpsOk (step cfg t r op).1.isReader ops := by
  have h1 : op = .readInfo → r.isReader = false := fun h => by
    cases hr : r.isReader with
    | false => rfl
    | true => exact absurd (by rw [h]; exact List.mem_cons_self) (hops.1 hr)
  have hstep := step_spec cfg ht r op hR h1
  refine ⟨h1, fun hr => ?_, ?_⟩
  · by_cases hop : op = .readInfo
    · subst hop
      have := hops.2
      rw [List.count_cons_self] at this
      exact fun hm => by have := List.count_pos_iff.mpr hm; omega
    · rw [hstep.2.2 hop] at hr
      exact fun hm => hops.1 hr (List.mem_cons_of_mem _ hm)
  · have := hops.2
    rw [List.count_cons] at this
    omega

/-- **`run_sim`**: whole runs from `Sim`-related readers return the same list of results and end in
    `Sim`-related readers -/
theorem run_sim (cfg : Cfg) (hI : cfg.InflateOk) {t : TCfg} (ht : t.Ok) : ∀ (ops : List Op) (a b : R), RInv t a →
    Sim a b → OpsOk a.isReader ops →
    (run cfg t a ops).2 = (run cfg t b ops).2 ∧ Sim (run cfg t a ops).1 (run cfg t b ops).1 := by
  intro ops
  induction ops with
  | nil => intro a b _ h _; exact ⟨rfl, h⟩
  | cons op ops ih =>
    intro a b hR h hops
    obtain ⟨h1, hops'⟩ := opsOk_step cfg ht hR hops
    have hstep := step_spec cfg ht a op hR h1
    obtain ⟨g1, g2⟩ := step_sim cfg hI ht hR h op
    obtain ⟨k1, k2⟩ := ih _ _ hstep.1 g2 hops'
    rw [run_cons, run_cons]
    exact ⟨by rw [g1, k1], k2⟩

end Png.Reader
