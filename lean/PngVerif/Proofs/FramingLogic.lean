import PngVerif.Proofs.Framing
import PngVerif.Proofs.Basic
/-!
# Decision logic of the framing state machine (`Model/Framing.lean`)

Lemmas behind the property files `Props/C10.lean` (structural rejection), `Props/C11.lean` (checksum
policy), `Props/C16.lean` (metadata parsers), `Props/C18Reset.lean` and `Props/C06.lean` (the
`Limits` ledger).  Everything is for an arbitrary `cfg : Cfg` and arbitrary decoder values.

* Part 0: byte readers versus big-endian encoders.
* Part 1: `parse_u32`, arm by arm (closed forms, all by `rfl`).
* Part 2: frame lemmas — which fields each chunk parser leaves alone; `dispatch`; `parse_chunk`.
* Part 3: IHDR, fcTL, PLTE written out.
* Part 4: steps (`afterType`, flush, `StepFrame`, `RejectsType`), the CRC coverage invariant (`CrcInv`),
  one-step `update` lemmas, `dispatch` on the known types, `ready_for_fdat_chunks`.
* Part 5: metadata parsers (C16): readers versus encoders.
* Part 6: the `Limits` ledger (C06): `held`, `LedgerStep` for every parser, `LedgerInv` along runs.
* Part 7: the chunk-kind automaton (C10 `automaton_sound`): `K`, `proj`, `KTrans`, simulation, language facts.
* Part 8: with `ignore_crc` the CRC function is never consulted (C11).
* Part 9: every buffered chunk is parsed, once, with its whole body (`StInv`, C10 `every_chunk_parsed`).
-/
namespace Png.Framing
open Png

/-! ## Part 0: byte readers versus encoders -/

theorem toUInt8_toNat_of_lt {n : Nat} (h : n < 256) : n.toUInt8.toNat = n := by
  simp [Nat.toUInt8, UInt8.toNat, UInt8.ofNat]; omega

theorem rdU32_be32Bytes {n : Nat} (h : n < 2 ^ 32) (rest : Bytes) : rdU32 (be32Bytes n ++ rest) = some (n, rest) := by
  simp only [be32Bytes, List.cons_append, List.nil_append, rdU32, be32]
  rw [toUInt8_toNat_of_lt (Nat.mod_lt _ (by omega)), toUInt8_toNat_of_lt (Nat.mod_lt _ (by omega)),
    toUInt8_toNat_of_lt (Nat.mod_lt _ (by omega)), toUInt8_toNat_of_lt (Nat.mod_lt _ (by omega))]
  congr 2; omega

theorem rdU16_be16Bytes {n : Nat} (h : n < 2 ^ 16) (rest : Bytes) : rdU16 (be16Bytes n ++ rest) = some (n, rest) := by
  simp only [be16Bytes, List.cons_append, List.nil_append, rdU16]
  rw [toUInt8_toNat_of_lt (Nat.mod_lt _ (by omega)), toUInt8_toNat_of_lt (Nat.mod_lt _ (by omega))]
  congr 2; omega

theorem rdU8_toUInt8 {n : Nat} (h : n < 256) (rest : Bytes) : rdU8 (n.toUInt8 :: rest) = some (n, rest) := by
  simp only [rdU8, toUInt8_toNat_of_lt h]

theorem be32Bytes_eq {n : Nat} (h : n < 2 ^ 32) : ∃ a b c d, be32Bytes n = [a, b, c, d] ∧ be32 a b c d = n := by
  refine ⟨_, _, _, _, rfl, ?_⟩
  simp only [be32]
  rw [toUInt8_toNat_of_lt (Nat.mod_lt _ (by omega)), toUInt8_toNat_of_lt (Nat.mod_lt _ (by omega)),
    toUInt8_toNat_of_lt (Nat.mod_lt _ (by omega)), toUInt8_toNat_of_lt (Nat.mod_lt _ (by omega))]
  omega

theorem be32_lt (a b c d : UInt8) : be32 a b c d < 2 ^ 32 := by
  have := a.toNat_lt; have := b.toNat_lt; have := c.toNat_lt; have := d.toNat_lt
  simp only [be32]; omega

theorem rdU32_some {b r : Bytes} {v : Nat} (h : rdU32 b = some (v, r)) :
    ∃ a0 a1 a2 a3, b = a0 :: a1 :: a2 :: a3 :: r ∧ v = be32 a0 a1 a2 a3 := by
  unfold rdU32 at h; split at h
  · cases h; exact ⟨_, _, _, _, rfl, rfl⟩
  · cases h
theorem rdU16_some {b r : Bytes} {v : Nat} (h : rdU16 b = some (v, r)) :
    ∃ a0 a1, b = a0 :: a1 :: r ∧ v = a0.toNat * 256 + a1.toNat := by
  unfold rdU16 at h; split at h
  · cases h; exact ⟨_, _, rfl, rfl⟩
  · cases h
theorem rdU8_some {b r : Bytes} {v : Nat} (h : rdU8 b = some (v, r)) : ∃ a0, b = a0 :: r ∧ v = a0.toNat := by
  unfold rdU8 at h; split at h
  · cases h; exact ⟨_, rfl, rfl⟩
  · cases h

/-! ## Part 1: `parse_u32`, arm by arm -/

theorem parseU32_sig1 (cfg : Cfg) (d : Dec) (b0 b1 b2 b3 : UInt8) :
    parseU32 cfg d .sig1 b0 b1 b2 b3 =
      if [b0.toNat, b1.toNat, b2.toNat, b3.toNat] = Params.signature.take 4
      then .ok (.nothing, { d with state := some (.u32 .sig2 []) }) else .error (.format "InvalidSignature") := rfl

theorem parseU32_sig2 (cfg : Cfg) (d : Dec) (b0 b1 b2 b3 : UInt8) :
    parseU32 cfg d .sig2 b0 b1 b2 b3 =
      if [b0.toNat, b1.toNat, b2.toNat, b3.toNat] = Params.signature.drop 4
      then .ok (.nothing, { d with state := some (.u32 .length []) }) else .error (.format "InvalidSignature") := rfl

theorem parseU32_length (cfg : Cfg) (d : Dec) (b0 b1 b2 b3 : UInt8) :
    parseU32 cfg d .length b0 b1 b2 b3 = .ok (.nothing, { d with state := some (.u32 (.type (be32 b0 b1 b2 b3)) []) }) := rfl

/-- the CRC arm, written out -/
theorem parseU32_crc (cfg : Cfg) (d : Dec) (t : ChunkType) (b0 b1 b2 b3 : UInt8) :
    parseU32 cfg d (.crc t) b0 b1 b2 b3 =
      if be32 b0 b1 b2 b3 = (if d.opts.ignoreCrc then be32 b0 b1 b2 b3 else cfg.crc d.crcAcc) then
        (if t = IEND then .ok (.imageEnd, d)
         else .ok (.chunkComplete (be32 b0 b1 b2 b3) t, { d with state := some (.u32 .length []) }))
      else if d.opts.skipAncillaryCrcFailures ∧ !isCritical t ∧ t ≠ acTL ∧ t ≠ fcTL ∧ t ≠ fdAT then
        .ok (.nothing, { d with state := some (.u32 .length []) })
      else .error (.format "CrcMismatch") := rfl

/-- the chunk-type arm, written out -/
theorem parseU32_type (cfg : Cfg) (d : Dec) (len : Nat) (b0 b1 b2 b3 : UInt8) :
    parseU32 cfg d (.type len) b0 b1 b2 b3 =
      if d.info.isNone ∧ be32 b0 b1 b2 b3 ≠ IHDR then .error (.format "ChunkBeforeIhdr") else
      if be32 b0 b1 b2 b3 ≠ d.curType ∧ (d.curType = IDAT ∨ d.curType = fdAT) then
        match flushData cfg { d with curType := be32 b0 b1 b2 b3 } with
        | .error e => .error e
        | .ok d =>
          .ok (.imageDataFlushed,
            { d with zin := [], zstarted := false, zemitted := 0, readyIdat := false, readyFdat := false,
                     state := some (.u32 (.type len) [b0, b1, b2, b3]) })
      else
        match afterType d (be32 b0 b1 b2 b3) len with
        | .error e => .error e
        | .ok (st, d) =>
          .ok (.chunkBegin len (be32 b0 b1 b2 b3),
               { d with state := some st, curType := be32 b0 b1 b2 b3,
                        crcAcc := if d.opts.ignoreCrc then d.crcAcc else typeBytes (be32 b0 b1 b2 b3),
                        remaining := len, raw := [] }) := rfl

theorem parseU32_seqNo (cfg : Cfg) (d : Dec) (b0 b1 b2 b3 : UInt8) :
    parseU32 cfg d .seqNo b0 b1 b2 b3 =
      match d.seqNo with
      | none => .error (.format "MissingFctl")
      | some s =>
        if s + 1 ≥ 2 ^ 32 then .error (.panic "seq_no + 1 overflow (stream.rs:935)")
        else if be32 b0 b1 b2 b3 ≠ s + 1 then .error (.format "ApngOrder")
        else
          .ok (.partialChunk fdAT,
               { d with remaining := d.remaining - 4, seqNo := some (be32 b0 b1 b2 b3),
                        crcAcc := if d.opts.ignoreCrc then d.crcAcc else d.crcAcc ++ [b0, b1, b2, b3],
                        state := some (.imageData fdAT) }) := rfl

theorem reserve_eq {d d' : Dec} {n : Nat} (h : reserve d n = .ok d') :
    d' = { d with limit := d.limit - n } ∧ n ≤ d.limit := by
  unfold reserve at h; split at h
  · cases h; exact ⟨rfl, by assumption⟩
  · cases h

/-! ## Part 2: frame lemmas — what the chunk parsers leave alone -/

/-- fields no chunk parser touches; `limit` only decreases -/
structure Frame (d d' : Dec) : Prop where
  state : d'.state = d.state
  curType : d'.curType = d.curType
  crcAcc : d'.crcAcc = d.crcAcc
  remaining : d'.remaining = d.remaining
  raw : d'.raw = d.raw
  cap : d'.cap = d.cap
  opts : d'.opts = d.opts
  out : d'.out = d.out
  haveIdat : d'.haveIdat = d.haveIdat
  readyIdat : d'.readyIdat = d.readyIdat
  limit : d'.limit ≤ d.limit

/-- the inflater / APNG sequencing fields: untouched by every parser except `parse_fctl` -/
structure FrameZ (d d' : Dec) : Prop where
  readyFdat : d'.readyFdat = d.readyFdat
  seqNo : d'.seqNo = d.seqNo
  zin : d'.zin = d.zin
  zstarted : d'.zstarted = d.zstarted
  zemitted : d'.zemitted = d.zemitted

/-- `info` stays present/absent and keeps its palette: every parser except IHDR and PLTE -/
structure FrameI (d d' : Dec) : Prop where
  isSome : d'.info.isSome = d.info.isSome
  palette : d'.info.bind (·.palette) = d.info.bind (·.palette)

/-- every parser except IHDR, PLTE and fcTL -/
structure FrameG (d d' : Dec) : Prop extends Frame d d', FrameZ d d', FrameI d d'

theorem Frame.refl (d : Dec) : Frame d d := ⟨rfl, rfl, rfl, rfl, rfl, rfl, rfl, rfl, rfl, rfl, Nat.le_refl _⟩
theorem FrameZ.refl (d : Dec) : FrameZ d d := ⟨rfl, rfl, rfl, rfl, rfl⟩
theorem FrameI.refl (d : Dec) : FrameI d d := ⟨rfl, rfl⟩
theorem FrameG.refl (d : Dec) : FrameG d d := ⟨Frame.refl d, FrameZ.refl d, FrameI.refl d⟩

theorem Frame.trans {a b c : Dec} (h1 : Frame a b) (h2 : Frame b c) : Frame a c :=
  ⟨h2.state.trans h1.state, h2.curType.trans h1.curType, h2.crcAcc.trans h1.crcAcc, h2.remaining.trans h1.remaining,
   h2.raw.trans h1.raw, h2.cap.trans h1.cap, h2.opts.trans h1.opts, h2.out.trans h1.out,
   h2.haveIdat.trans h1.haveIdat, h2.readyIdat.trans h1.readyIdat, Nat.le_trans h2.limit h1.limit⟩

theorem FrameG.of_reserve {d d1 : Dec} {n : Nat} (h : reserve d n = .ok d1) : FrameG d d1 := by
  obtain ⟨rfl, _⟩ := reserve_eq h
  exact ⟨⟨rfl, rfl, rfl, rfl, rfl, rfl, rfl, rfl, rfl, rfl, Nat.sub_le _ _⟩, ⟨rfl, rfl, rfl, rfl, rfl⟩, ⟨rfl, rfl⟩⟩

theorem setInfo_info (d : Dec) (f : Info → Info) : (setInfo d f).info = d.info.map f := rfl

theorem FrameG.setInfo {d d1 : Dec} (f : Info → Info) (hf : ∀ i, (f i).palette = i.palette) (h : FrameG d d1) :
    FrameG d (setInfo d1 f) := by
  refine ⟨⟨h.state, h.curType, h.crcAcc, h.remaining, h.raw, h.cap, h.opts, h.out, h.haveIdat, h.readyIdat, h.limit⟩,
    ⟨h.readyFdat, h.seqNo, h.zin, h.zstarted, h.zemitted⟩, ⟨?_, ?_⟩⟩
  · rw [setInfo_info, Option.isSome_map]; exact h.isSome
  · rw [setInfo_info, ← h.palette]; cases d1.info <;> simp [hf]

macro "parser_frame" h:ident : tactic => `(tactic| (
  simp only [bind, Except.bind, eofOr, pure, Except.pure, throw, throwThe, MonadExceptOf.throw, withInfo] at $h:ident
  repeat' split at $h:ident
  all_goals first
    | (cases $h:ident; done)
    | (cases $h:ident; exact FrameG.refl _)
    | (cases $h:ident; exact FrameG.setInfo _ (fun _ => rfl) (FrameG.refl _))
    | (cases $h:ident; exact FrameG.setInfo _ (fun _ => rfl) (FrameG.of_reserve (by assumption)))))

theorem parseActl_frame {d d' : Dec} {ev : Ev} (h : parseActl d = .ok (d', ev)) : FrameG d d' := by
  unfold parseActl at h; parser_frame h
theorem parseSbit_frame {d d' : Dec} {ev : Ev} (h : parseSbit d = .ok (d', ev)) : FrameG d d' := by
  unfold parseSbit at h; parser_frame h
theorem parseTrns_frame {d d' : Dec} {ev : Ev} (h : parseTrns d = .ok (d', ev)) : FrameG d d' := by
  unfold parseTrns at h; parser_frame h
theorem parsePhys_frame {d d' : Dec} {ev : Ev} (h : parsePhys d = .ok (d', ev)) : FrameG d d' := by
  unfold parsePhys at h; parser_frame h
theorem parseChrm_frame {d d' : Dec} {ev : Ev} (h : parseChrm d = .ok (d', ev)) : FrameG d d' := by
  unfold parseChrm at h; parser_frame h
theorem parseGama_frame {d d' : Dec} {ev : Ev} (h : parseGama d = .ok (d', ev)) : FrameG d d' := by
  unfold parseGama at h; parser_frame h
theorem parseSrgb_frame {d d' : Dec} {ev : Ev} (h : parseSrgb d = .ok (d', ev)) : FrameG d d' := by
  unfold parseSrgb at h; parser_frame h
theorem parseCicp_frame {d d' : Dec} {ev : Ev} (h : parseCicp d = .ok (d', ev)) : FrameG d d' := by
  unfold parseCicp at h; parser_frame h
theorem parseMdcv_frame {d d' : Dec} {ev : Ev} (h : parseMdcv d = .ok (d', ev)) : FrameG d d' := by
  unfold parseMdcv at h; parser_frame h
theorem parseClli_frame {d d' : Dec} {ev : Ev} (h : parseClli d = .ok (d', ev)) : FrameG d d' := by
  unfold parseClli at h; parser_frame h
theorem parseExif_frame {d d' : Dec} {ev : Ev} (h : parseExif d = .ok (d', ev)) : FrameG d d' := by
  unfold parseExif at h; parser_frame h
theorem parseBkgd_frame {d d' : Dec} {ev : Ev} (h : parseBkgd d = .ok (d', ev)) : FrameG d d' := by
  unfold parseBkgd at h; parser_frame h
theorem parseText_frame {d d' : Dec} {ev : Ev} (h : parseText d = .ok (d', ev)) : FrameG d d' := by
  unfold parseText at h; parser_frame h
theorem parseZtxt_frame {d d' : Dec} {ev : Ev} (h : parseZtxt d = .ok (d', ev)) : FrameG d d' := by
  unfold parseZtxt at h; parser_frame h
theorem parseItxt_frame {cfg : Cfg} {d d' : Dec} {ev : Ev} (h : parseItxt cfg d = .ok (d', ev)) : FrameG d d' := by
  unfold parseItxt at h; parser_frame h

theorem FrameG.trans {a b c : Dec} (h1 : FrameG a b) (h2 : FrameG b c) : FrameG a c :=
  ⟨h1.toFrame.trans h2.toFrame,
   ⟨h2.readyFdat.trans h1.readyFdat, h2.seqNo.trans h1.seqNo, h2.zin.trans h1.zin, h2.zstarted.trans h1.zstarted,
    h2.zemitted.trans h1.zemitted⟩,
   ⟨h2.isSome.trans h1.isSome, h2.palette.trans h1.palette⟩⟩

theorem parseIccpRaw_frame {cfg : Cfg} {d d' : Dec} (h : parseIccpRaw cfg d = .ok d') : FrameG d d' := by
  unfold parseIccpRaw at h
  simp only [bind, Except.bind, eofOr, pure, Except.pure, throw, throwThe, MonadExceptOf.throw] at h
  repeat' split at h
  all_goals first
    | (cases h; done)
    | (cases h; exact FrameG.setInfo _ (fun _ => rfl) (FrameG.of_reserve (by assumption)))

theorem parseIccp_frame {cfg : Cfg} {d d' : Dec} {ev : Ev} (h : parseIccp cfg d = .ok (d', ev)) : FrameG d d' := by
  unfold parseIccp at h
  have h0 : FrameG d { d with haveIccp := true } :=
    ⟨⟨rfl, rfl, rfl, rfl, rfl, rfl, rfl, rfl, rfl, rfl, Nat.le_refl _⟩, ⟨rfl, rfl, rfl, rfl, rfl⟩, ⟨rfl, rfl⟩⟩
  simp only at h
  repeat' split at h
  all_goals first
    | (cases h; done)
    | (cases h; exact FrameG.refl _)
    | (cases h; exact h0)
    | (cases h; exact h0.trans (parseIccpRaw_frame (by assumption)))

/-! ## Part 3: IHDR, fcTL, PLTE written out -/

/-- the IHDR body as the thirteen bytes `parse_ihdr` reads -/
def ihdrBody (w0 w1 w2 w3 h0 h1 h2 h3 dp co cm fm il : UInt8) : Bytes :=
  [w0, w1, w2, w3, h0, h1, h2, h3, dp, co, cm, fm, il]

/-- `parse_ihdr` on a body of at least thirteen bytes, written out -/
theorem parseIhdr_eq (d : Dec) (w0 w1 w2 w3 h0 h1 h2 h3 dp co cm fm il : UInt8) (rest : Bytes)
    (hraw : d.raw = ihdrBody w0 w1 w2 w3 h0 h1 h2 h3 dp co cm fm il ++ rest) :
    parseIhdr d =
      if d.info.isSome then .error (.format "DuplicateChunk IHDR")
      else if be32 w0 w1 w2 w3 = 0 ∨ be32 h0 h1 h2 h3 = 0 then .error (.format "InvalidDimensions")
      else if !depthOk dp.toNat then .error (.format "InvalidBitDepth")
      else if !colorOk co.toNat then .error (.format "InvalidColorType")
      else if combinationInvalid co.toNat dp.toNat then .error (.format "InvalidColorBitDepth")
      else if cm.toNat ≠ 0 then .error (.format "UnknownCompressionMethod")
      else if fm.toNat ≠ 0 then .error (.format "UnknownFilterMethod")
      else if il.toNat > 1 then .error (.format "UnknownInterlaceMethod")
      else .ok ({ d with info := some { width := be32 w0 w1 w2 w3, height := be32 h0 h1 h2 h3, depth := dp.toNat,
                                        color := co.toNat, interlaced := il.toNat == 1 } },
                .header (be32 w0 w1 w2 w3) (be32 h0 h1 h2 h3) dp.toNat co.toNat (il.toNat == 1)) := by
  unfold parseIhdr
  simp only [hraw, ihdrBody, List.cons_append, List.nil_append, rdU32, rdU8, eofOr, bind, Except.bind, pure, Except.pure,
    throw, throwThe, MonadExceptOf.throw]
  repeat' split
  all_goals rfl

theorem uint8_toNat_eq_zero {a : UInt8} : a.toNat = 0 ↔ a = 0 := by
  constructor
  · intro h; exact UInt8.toNat_inj.mp (by simpa using h)
  · rintro rfl; rfl

theorem parseIhdr_ok_iff (d d' : Dec) (ev : Ev) (w0 w1 w2 w3 h0 h1 h2 h3 dp co cm fm il : UInt8) (rest : Bytes)
    (hraw : d.raw = ihdrBody w0 w1 w2 w3 h0 h1 h2 h3 dp co cm fm il ++ rest) :
    parseIhdr d = .ok (d', ev) ↔
      (d.info = none ∧ be32 w0 w1 w2 w3 ≠ 0 ∧ be32 h0 h1 h2 h3 ≠ 0 ∧ (co.toNat, dp.toNat) ∈ legalPairs ∧
        cm = 0 ∧ fm = 0 ∧ il.toNat ≤ 1) ∧
      d' = { d with info := some { width := be32 w0 w1 w2 w3, height := be32 h0 h1 h2 h3, depth := dp.toNat,
                                   color := co.toNat, interlaced := il.toNat == 1 } } ∧
      ev = .header (be32 w0 w1 w2 w3) (be32 h0 h1 h2 h3) dp.toNat co.toNat (il.toNat == 1) := by
  rw [parseIhdr_eq d _ _ _ _ _ _ _ _ _ _ _ _ _ rest hraw, legal_iff]
  by_cases c1 : d.info.isSome = true
  · rw [if_pos c1]; cases hi : d.info <;> simp [hi] at c1 ⊢
  rw [if_neg c1]
  have hi : d.info = none := by cases hi : d.info <;> simp [hi] at c1 ⊢
  by_cases c2 : be32 w0 w1 w2 w3 = 0 ∨ be32 h0 h1 h2 h3 = 0
  · rw [if_pos c2]; constructor
    · intro h; cases h
    · rintro ⟨⟨_, a, b, _⟩, _⟩; rcases c2 with c2 | c2
      · exact (a c2).elim
      · exact (b c2).elim
  rw [if_neg c2]
  by_cases c3 : (!depthOk dp.toNat) = true
  · rw [if_pos c3]; constructor
    · intro h; cases h
    · rintro ⟨⟨_, _, _, ⟨_, a, _⟩, _⟩, _⟩; simp [a] at c3
  rw [if_neg c3]
  by_cases c4 : (!colorOk co.toNat) = true
  · rw [if_pos c4]; constructor
    · intro h; cases h
    · rintro ⟨⟨_, _, _, ⟨a, _, _⟩, _⟩, _⟩; simp [a] at c4
  rw [if_neg c4]
  by_cases c5 : combinationInvalid co.toNat dp.toNat = true
  · rw [if_pos c5]; constructor
    · intro h; cases h
    · rintro ⟨⟨_, _, _, ⟨_, _, a⟩, _⟩, _⟩; simp [a] at c5
  rw [if_neg c5]
  by_cases c6 : cm.toNat ≠ 0
  · rw [if_pos c6]; constructor
    · intro h; cases h
    · rintro ⟨⟨_, _, _, _, a, _⟩, _⟩; exact absurd (uint8_toNat_eq_zero.mpr a) c6
  rw [if_neg c6]
  by_cases c7 : fm.toNat ≠ 0
  · rw [if_pos c7]; constructor
    · intro h; cases h
    · rintro ⟨⟨_, _, _, _, _, a, _⟩, _⟩; exact absurd (uint8_toNat_eq_zero.mpr a) c7
  rw [if_neg c7]
  by_cases c8 : il.toNat > 1
  · rw [if_pos c8]; constructor
    · intro h; cases h
    · rintro ⟨⟨_, _, _, _, _, _, a⟩, _⟩; omega
  rw [if_neg c8]
  constructor
  · intro h; cases h
    refine ⟨⟨hi, fun a => c2 (Or.inl a), fun a => c2 (Or.inr a), ⟨by simpa using c4, by simpa using c3, by simpa using c5⟩,
      uint8_toNat_eq_zero.mp (by omega), uint8_toNat_eq_zero.mp (by omega), by omega⟩, rfl, rfl⟩
  · rintro ⟨_, rfl, rfl⟩; rfl

/-- the nine fields of an fcTL body, big-endian, in chunk order (no checks): the layout `parse_fctl` reads -/
def rdFctl (b : Bytes) : Option FrameControl := do
  let (seq, b) ← rdU32 b
  let (w, b) ← rdU32 b
  let (h, b) ← rdU32 b
  let (x, b) ← rdU32 b
  let (y, b) ← rdU32 b
  let (dn, b) ← rdU16 b
  let (dd, b) ← rdU16 b
  let (dis, b) ← rdU8 b
  let (bl, _) ← rdU8 b
  pure { seq := seq, width := w, height := h, x := x, y := y, delayNum := dn, delayDen := dd, dispose := dis, blend := bl }

/-- what `parse_fctl` does to the decoder when it accepts `fc` -/
def fctlDone (d : Dec) (fc : FrameControl) : Dec :=
  setInfo { d with seqNo := some fc.seq, zin := [], zstarted := false, zemitted := 0, readyFdat := true }
    (fun i => { i with fctl := some fc })

/-- `parse_fctl` after the sequence number was accepted -/
def fctlTail (d : Dec) (fc : FrameControl) : PRes :=
  if fc.dispose > 2 then .error (.format "InvalidDisposeOp")
  else if fc.blend > 1 then .error (.format "InvalidBlendOp")
  else match d.info with
    | none => .error (.panic "info.unwrap()")
    | some i =>
      if fc.width = 0 ∨ fc.height = 0 then .error (.format "InvalidDimensions")
      else if !fctlInBounds i fc then .error (.format "BadSubFrameBounds")
      else .ok (fctlDone d fc, .frameControl fc)

theorem parseFctl_of_rd {d : Dec} {fc : FrameControl} (h : rdFctl d.raw = some fc) :
    parseFctl d =
      match d.seqNo with
      | some s =>
        if s + 1 ≥ 2 ^ 32 then .error (.panic "seq_no + 1 overflow (stream.rs:1053)")
        else if fc.seq ≠ s + 1 then .error (.format "ApngOrder") else fctlTail d fc
      | none => if fc.seq ≠ 0 then .error (.format "ApngOrder") else fctlTail d fc := by
  simp only [rdFctl, bind, Option.bind_eq_some_iff, pure, Option.some.injEq] at h
  obtain ⟨⟨seq, b1⟩, h1, ⟨w, b2⟩, h2, ⟨hh, b3⟩, h3, ⟨x, b4⟩, h4, ⟨y, b5⟩, h5, ⟨dn, b6⟩, h6, ⟨dd, b7⟩, h7,
    ⟨dis, b8⟩, h8, ⟨bl, b9⟩, h9, rfl⟩ := h
  unfold parseFctl
  simp only [h1, h2, h3, h4, h5, h6, h7, h8, h9, eofOr, bind, Except.bind, pure, Except.pure,
    throw, throwThe, MonadExceptOf.throw, withInfo, fctlTail, fctlDone]
  cases hs : d.seqNo with
  | none =>
    simp only
    by_cases c : seq = 0
    · subst c; simp only [ne_eq, not_true, if_false]
      repeat' split
      all_goals first | rfl | simp_all
    · simp only [ne_eq, c, not_false_eq_true, if_true]
  | some s =>
    simp only
    repeat' split
    all_goals first | rfl | simp_all
theorem eofOr_ok {α} {o : Option α} {v : α} : eofOr o = .ok v ↔ o = some v := by
  cases o <;> simp [eofOr]

theorem parseFctl_ok_rd {d d' : Dec} {ev : Ev} (h : parseFctl d = .ok (d', ev)) : ∃ fc, rdFctl d.raw = some fc := by
  unfold parseFctl at h
  simp only [bind, Except.bind, pure, Except.pure, throw, throwThe, MonadExceptOf.throw, withInfo] at h
  repeat' split at h
  all_goals first
    | (cases h; done)
    | (simp only [eofOr_ok] at *
       simp only [rdFctl, bind, Option.bind, pure, *]; exact ⟨_, rfl⟩)

/-- sequence rule of fcTL: `0` for the first, previous + 1 afterwards (and no `u32` overflow) -/
def SeqOk (prev : Option Nat) (seq : Nat) : Prop :=
  match prev with
  | none => seq = 0
  | some s => seq = s + 1 ∧ s + 1 < 2 ^ 32

theorem parseFctl_ok_iff (d d' : Dec) (ev : Ev) :
    parseFctl d = .ok (d', ev) ↔
      ∃ fc i, rdFctl d.raw = some fc ∧ d.info = some i ∧ SeqOk d.seqNo fc.seq ∧ fc.dispose ≤ 2 ∧ fc.blend ≤ 1 ∧
        fc.width ≠ 0 ∧ fc.height ≠ 0 ∧ fctlInBounds i fc = true ∧ d' = fctlDone d fc ∧ ev = .frameControl fc := by
  constructor
  · intro h
    obtain ⟨fc, hfc⟩ := parseFctl_ok_rd h
    rw [parseFctl_of_rd hfc] at h
    have tail : fctlTail d fc = .ok (d', ev) → ∃ i, d.info = some i ∧ fc.dispose ≤ 2 ∧ fc.blend ≤ 1 ∧
        fc.width ≠ 0 ∧ fc.height ≠ 0 ∧ fctlInBounds i fc = true ∧ d' = fctlDone d fc ∧ ev = .frameControl fc := by
      intro ht
      unfold fctlTail at ht
      repeat' split at ht
      all_goals first
        | (cases ht; done)
        | (cases ht; rename_i c1 c2 _ i hi c3 c4
           exact ⟨_, hi, by omega, by omega, fun a => c3 (Or.inl a), fun a => c3 (Or.inr a), by simpa using c4, rfl, rfl⟩)
    cases hs : d.seqNo with
    | none =>
      rw [hs] at h; simp only at h
      split at h
      · cases h
      · rename_i c
        obtain ⟨i, hi, r⟩ := tail h
        exact ⟨fc, i, hfc, hi, by simpa [SeqOk] using c, r⟩
    | some s =>
      rw [hs] at h; simp only at h
      split at h
      · cases h
      · split at h
        · cases h
        · rename_i c1 c2
          obtain ⟨i, hi, r⟩ := tail h
          exact ⟨fc, i, hfc, hi, ⟨by simpa using c2, by omega⟩, r⟩
  · rintro ⟨fc, i, hfc, hi, hs, h1, h2, h3, h4, h5, rfl, rfl⟩
    rw [parseFctl_of_rd hfc]
    have tail : fctlTail d fc = .ok (fctlDone d fc, .frameControl fc) := by
      unfold fctlTail
      rw [if_neg (by omega), if_neg (by omega), hi]
      simp only
      rw [if_neg (by intro h; rcases h with h | h <;> contradiction), if_neg (by simp [h5])]
    cases hq : d.seqNo with
    | none =>
      rw [hq] at hs; simp only [SeqOk] at hs
      simp only
      rw [if_neg (by simp [hs]), tail]
    | some s =>
      rw [hq] at hs; simp only [SeqOk] at hs
      simp only
      rw [if_neg (by omega), if_neg (by simp [hs.1]), tail]

theorem fctlInBounds_iff (i : Info) (fc : FrameControl) :
    fctlInBounds i fc = true ↔
      0 < fc.width ∧ 0 < fc.height ∧ fc.x + fc.width ≤ i.width ∧ fc.y + fc.height ≤ i.height := by
  simp only [fctlInBounds, Bool.and_eq_true, decide_eq_true_eq, ne_eq]
  omega

/-- big-endian layout of an fcTL body -/
def encodeFctl (fc : FrameControl) : Bytes :=
  be32Bytes fc.seq ++ be32Bytes fc.width ++ be32Bytes fc.height ++ be32Bytes fc.x ++ be32Bytes fc.y ++
    be16Bytes fc.delayNum ++ be16Bytes fc.delayDen ++ [fc.dispose.toUInt8, fc.blend.toUInt8]

/-- every field fits its width -/
def FrameControl.Fits (fc : FrameControl) : Prop :=
  fc.seq < 2 ^ 32 ∧ fc.width < 2 ^ 32 ∧ fc.height < 2 ^ 32 ∧ fc.x < 2 ^ 32 ∧ fc.y < 2 ^ 32 ∧
    fc.delayNum < 2 ^ 16 ∧ fc.delayDen < 2 ^ 16 ∧ fc.dispose < 256 ∧ fc.blend < 256

theorem rdFctl_encode (fc : FrameControl) (hf : fc.Fits) (rest : Bytes) : rdFctl (encodeFctl fc ++ rest) = some fc := by
  obtain ⟨h1, h2, h3, h4, h5, h6, h7, h8, h9⟩ := hf
  simp only [rdFctl, encodeFctl, List.append_assoc, bind, Option.bind, rdU32_be32Bytes h1, rdU32_be32Bytes h2,
    rdU32_be32Bytes h3, rdU32_be32Bytes h4, rdU32_be32Bytes h5, rdU16_be16Bytes h6, rdU16_be16Bytes h7,
    List.cons_append, List.nil_append, rdU8_toUInt8 h8, rdU8_toUInt8 h9, pure]

theorem rdFctl_some {b : Bytes} {fc : FrameControl} (h : rdFctl b = some fc) : 26 ≤ b.length ∧ fc.Fits := by
  simp only [rdFctl, bind, Option.bind_eq_some_iff, pure, Option.some.injEq] at h
  obtain ⟨⟨seq, b1⟩, h1, ⟨w, b2⟩, h2, ⟨hh, b3⟩, h3, ⟨x, b4⟩, h4, ⟨y, b5⟩, h5, ⟨dn, b6⟩, h6, ⟨dd, b7⟩, h7,
    ⟨dis, b8⟩, h8, ⟨bl, b9⟩, h9, rfl⟩ := h
  obtain ⟨_, _, _, _, rfl, rfl⟩ := rdU32_some h1
  obtain ⟨_, _, _, _, rfl, rfl⟩ := rdU32_some h2
  obtain ⟨_, _, _, _, rfl, rfl⟩ := rdU32_some h3
  obtain ⟨_, _, _, _, rfl, rfl⟩ := rdU32_some h4
  obtain ⟨_, _, _, _, rfl, rfl⟩ := rdU32_some h5
  obtain ⟨a0, a1, rfl, rfl⟩ := rdU16_some h6
  obtain ⟨c0, c1, rfl, rfl⟩ := rdU16_some h7
  obtain ⟨e0, rfl, rfl⟩ := rdU8_some h8
  obtain ⟨f0, rfl, rfl⟩ := rdU8_some h9
  have := a0.toNat_lt; have := a1.toNat_lt; have := c0.toNat_lt; have := c1.toNat_lt
  refine ⟨by simp only [List.length_cons]; omega, be32_lt _ _ _ _, be32_lt _ _ _ _, be32_lt _ _ _ _, be32_lt _ _ _ _,
    be32_lt _ _ _ _, ?_, ?_, e0.toNat_lt, f0.toNat_lt⟩ <;> simp only <;> omega

theorem parseFctl_frame {d d' : Dec} {ev : Ev} (h : parseFctl d = .ok (d', ev)) :
    Frame d d' ∧ FrameI d d' ∧ d'.readyFdat = true := by
  obtain ⟨fc, i, _, hi, _, _, _, _, _, _, rfl, _⟩ := (parseFctl_ok_iff d d' ev).mp h
  refine ⟨⟨rfl, rfl, rfl, rfl, rfl, rfl, rfl, rfl, rfl, rfl, Nat.le_refl _⟩, ⟨?_, ?_⟩, rfl⟩
  · simp [fctlDone, setInfo, hi]
  · simp [fctlDone, setInfo, hi]

/-! ### IHDR for an arbitrary body -/

/-- the seven fields of an IHDR body in chunk order (no checks) -/
def rdIhdr (b : Bytes) : Option (Nat × Nat × Nat × Nat × Nat × Nat × Nat) := do
  let (w, b) ← rdU32 b
  let (h, b) ← rdU32 b
  let (dp, b) ← rdU8 b
  let (co, b) ← rdU8 b
  let (cm, b) ← rdU8 b
  let (fm, b) ← rdU8 b
  let (il, _) ← rdU8 b
  pure (w, h, dp, co, cm, fm, il)

theorem rdIhdr_some {b : Bytes} {v : Nat × Nat × Nat × Nat × Nat × Nat × Nat} (h : rdIhdr b = some v) :
    ∃ w0 w1 w2 w3 h0 h1 h2 h3 dp co cm fm il rest, b = ihdrBody w0 w1 w2 w3 h0 h1 h2 h3 dp co cm fm il ++ rest ∧
      v = (be32 w0 w1 w2 w3, be32 h0 h1 h2 h3, dp.toNat, co.toNat, cm.toNat, fm.toNat, il.toNat) := by
  simp only [rdIhdr, bind, Option.bind_eq_some_iff, pure, Option.some.injEq] at h
  obtain ⟨⟨w, b1⟩, e1, ⟨hh, b2⟩, e2, ⟨dp, b3⟩, e3, ⟨co, b4⟩, e4, ⟨cm, b5⟩, e5, ⟨fm, b6⟩, e6, ⟨il, b7⟩, e7, rfl⟩ := h
  obtain ⟨w0, w1, w2, w3, rfl, rfl⟩ := rdU32_some e1
  obtain ⟨h0, h1, h2, h3, rfl, rfl⟩ := rdU32_some e2
  obtain ⟨dp, rfl, rfl⟩ := rdU8_some e3
  obtain ⟨co, rfl, rfl⟩ := rdU8_some e4
  obtain ⟨cm, rfl, rfl⟩ := rdU8_some e5
  obtain ⟨fm, rfl, rfl⟩ := rdU8_some e6
  obtain ⟨il, rfl, rfl⟩ := rdU8_some e7
  exact ⟨w0, w1, w2, w3, h0, h1, h2, h3, dp, co, cm, fm, il, b7, rfl, rfl⟩

theorem parseIhdr_ok_rd {d d' : Dec} {ev : Ev} (h : parseIhdr d = .ok (d', ev)) : ∃ v, rdIhdr d.raw = some v := by
  unfold parseIhdr at h
  simp only [bind, Except.bind, pure, Except.pure, throw, throwThe, MonadExceptOf.throw] at h
  repeat' split at h
  all_goals first
    | (cases h; done)
    | (simp only [eofOr_ok] at *
       simp only [rdIhdr, bind, Option.bind, pure, *]; exact ⟨_, rfl⟩)

/-- an accepted IHDR body has at least thirteen bytes -/
theorem parseIhdr_ok_body {d d' : Dec} {ev : Ev} (h : parseIhdr d = .ok (d', ev)) :
    ∃ w0 w1 w2 w3 h0 h1 h2 h3 dp co cm fm il rest, d.raw = ihdrBody w0 w1 w2 w3 h0 h1 h2 h3 dp co cm fm il ++ rest := by
  obtain ⟨v, hv⟩ := parseIhdr_ok_rd h
  obtain ⟨w0, w1, w2, w3, h0, h1, h2, h3, dp, co, cm, fm, il, rest, hb, _⟩ := rdIhdr_some hv
  exact ⟨w0, w1, w2, w3, h0, h1, h2, h3, dp, co, cm, fm, il, rest, hb⟩

/-- what an accepted IHDR does, for an arbitrary body -/
theorem parseIhdr_shape {d d' : Dec} {ev : Ev} (h : parseIhdr d = .ok (d', ev)) :
    d.info = none ∧ 13 ≤ d.raw.length ∧
    ∃ w hh dp co il, d' = { d with info := some { width := w, height := hh, depth := dp, color := co, interlaced := il } } ∧
      ev = .header w hh dp co il ∧ w ≠ 0 ∧ hh ≠ 0 ∧ (co, dp) ∈ legalPairs := by
  obtain ⟨w0, w1, w2, w3, h0, h1, h2, h3, dp, co, cm, fm, il, rest, hb⟩ := parseIhdr_ok_body h
  obtain ⟨⟨hi, hw, hh, hl, _⟩, rfl, rfl⟩ := (parseIhdr_ok_iff d d' ev _ _ _ _ _ _ _ _ _ _ _ _ _ rest hb).mp h
  refine ⟨hi, ?_, _, _, _, _, _, rfl, rfl, hw, hh, hl⟩
  rw [hb]; simp [ihdrBody]

theorem parseIhdr_frame {d d' : Dec} {ev : Ev} (h : parseIhdr d = .ok (d', ev)) :
    Frame d d' ∧ FrameZ d d' ∧ d.info = none ∧ d'.info.isSome = true ∧ d'.info.bind (·.palette) = none := by
  obtain ⟨hi, _, w, hh, dp, co, il, rfl, _⟩ := parseIhdr_shape h
  exact ⟨⟨rfl, rfl, rfl, rfl, rfl, rfl, rfl, rfl, rfl, rfl, Nat.le_refl _⟩, ⟨rfl, rfl, rfl, rfl, rfl⟩, hi, rfl, rfl⟩

/-! ### PLTE -/

theorem parsePlte_eq (d : Dec) :
    parsePlte d =
      withInfo d fun i =>
        if i.palette.isSome then .error (.format "DuplicateChunk PLTE")
        else if d.raw.length ≤ d.limit then
          .ok (setInfo { d with limit := d.limit - d.raw.length } (fun i => { i with palette := some d.raw }), .nothing)
        else .error .limits := by
  unfold parsePlte
  congr 1; funext i
  split
  · rfl
  · by_cases hl : d.raw.length ≤ d.limit
    · have : reserve d d.raw.length = .ok { d with limit := d.limit - d.raw.length } := by
        unfold reserve; rw [if_pos hl]
      simp only [bind, Except.bind, this, pure, Except.pure, if_pos hl]
    · have : reserve d d.raw.length = .error .limits := by
        unfold reserve; rw [if_neg hl]
      simp only [bind, Except.bind, this, if_neg hl]

theorem parsePlte_frame {d d' : Dec} {ev : Ev} (h : parsePlte d = .ok (d', ev)) :
    Frame d d' ∧ FrameZ d d' ∧ d.info.isSome = true ∧ d.info.bind (·.palette) = none ∧
      d'.info.isSome = true ∧ d'.info.bind (·.palette) = some d.raw ∧ ev = .nothing := by
  rw [parsePlte_eq] at h
  unfold withInfo at h
  cases hi : d.info with
  | none => rw [hi] at h; cases h
  | some i =>
    rw [hi] at h; simp only at h
    split at h
    · cases h
    · rename_i hp
      split at h
      · cases h
        refine ⟨⟨rfl, rfl, rfl, rfl, rfl, rfl, rfl, rfl, rfl, rfl, Nat.sub_le _ _⟩, ⟨rfl, rfl, rfl, rfl, rfl⟩, rfl, ?_, ?_, ?_, rfl⟩
        · cases hq : i.palette <;> simp [hq] at hp ⊢
        · simp [setInfo]
        · simp [setInfo]
      · cases h

/-! ### `dispatch` and `parse_chunk` -/

local macro "dgen" h:ident c:term "," l:term : tactic =>
  `(tactic| (by_cases hc : $c
             (· rw [if_pos hc] at $h:ident
                first
                  | (subst hc; exact Or.inr (Or.inr (Or.inr ⟨by decide, by decide, by decide, $l $h:ident⟩)))
                  | (have hc1 := hc.1; subst hc1; exact Or.inr (Or.inr (Or.inr ⟨by decide, by decide, by decide, $l $h:ident⟩))))
             rw [if_neg hc] at $h:ident))

/-- a successful `dispatch` is IHDR, PLTE, fcTL, or leaves everything in `FrameG` alone -/
theorem dispatch_shape {cfg : Cfg} {d d' : Dec} {t : ChunkType} {ev : Ev} (h : dispatch cfg d t = .ok (d', ev)) :
    (t = IHDR ∧ parseIhdr d = .ok (d', ev)) ∨ (t = PLTE ∧ parsePlte d = .ok (d', ev)) ∨
    (t = fcTL ∧ parseFctl d = .ok (d', ev)) ∨ (t ≠ IHDR ∧ t ≠ PLTE ∧ t ≠ fcTL ∧ FrameG d d') := by
  unfold dispatch at h
  by_cases h1 : t = IHDR
  · rw [if_pos h1] at h; exact Or.inl ⟨h1, h⟩
  rw [if_neg h1] at h
  dgen h (t = sBIT), parseSbit_frame
  by_cases h2 : t = PLTE
  · rw [if_pos h2] at h; exact Or.inr (Or.inl ⟨h2, h⟩)
  rw [if_neg h2] at h
  dgen h (t = tRNS), parseTrns_frame
  dgen h (t = pHYs), parsePhys_frame
  dgen h (t = gAMA), parseGama_frame
  dgen h (t = acTL), parseActl_frame
  by_cases h3 : t = fcTL
  · rw [if_pos h3] at h; exact Or.inr (Or.inr (Or.inl ⟨h3, h⟩))
  rw [if_neg h3] at h
  dgen h (t = cHRM), parseChrm_frame
  dgen h (t = sRGB), parseSrgb_frame
  dgen h (t = cICP), parseCicp_frame
  dgen h (t = mDCV), parseMdcv_frame
  dgen h (t = cLLI), parseClli_frame
  dgen h (t = eXIf), parseExif_frame
  dgen h (t = bKGD), parseBkgd_frame
  dgen h (t = iCCP ∧ (!d.opts.ignoreIccp) = true), parseIccp_frame
  dgen h (t = tEXt ∧ (!d.opts.ignoreText) = true), parseText_frame
  dgen h (t = zTXt ∧ (!d.opts.ignoreText) = true), parseZtxt_frame
  dgen h (t = iTXt ∧ (!d.opts.ignoreText) = true), parseItxt_frame
  cases h
  exact Or.inr (Or.inr (Or.inr ⟨h1, h2, h3, FrameG.refl _⟩))

theorem dispatch_frame {cfg : Cfg} {d d' : Dec} {t : ChunkType} {ev : Ev} (h : dispatch cfg d t = .ok (d', ev)) :
    Frame d d' := by
  rcases dispatch_shape h with ⟨_, h⟩ | ⟨_, h⟩ | ⟨_, h⟩ | ⟨_, _, _, h⟩
  · exact (parseIhdr_frame h).1
  · exact (parsePlte_frame h).1
  · exact (parseFctl_frame h).1
  · exact h.toFrame

/-- the decoder as `parse_chunk` hands it to the parser: `state = U32 Crc(t)` -/
def Dec.atCrc (d : Dec) (t : ChunkType) : Dec := { d with state := some (.u32 (.crc t) []) }

/-- `PErr`s that `parse_chunk` treats as `Format` errors (`eof` is reported as `ChunkTooShort`) -/
def PErr.isFormat : PErr → Bool
  | .eof => true
  | .format _ => true
  | _ => false

/-- whether `parse_sbit` / `parse_trns` reach their `reserve_bytes` call (which precedes the checks that
    can fail benignly) -/
def benignCharged (d : Dec) (t : ChunkType) : Bool :=
  match d.info with
  | some i =>
    if t = sBIT then !(i.palette.isSome || d.haveIdat || i.sbit.isSome)
    else if t = tRNS then !(i.trns.isSome || d.haveIdat) else false
  | none => false

/-- `reserve_bytes(raw.len())` where a failure of the reservation itself is overtaken by the benign error -/
def reserveOrKeep (d : Dec) : Dec :=
  match reserve d d.raw.length with | .ok d2 => d2 | .error _ => d

theorem reserveOrKeep_eq (d : Dec) :
    reserveOrKeep d = if d.raw.length ≤ d.limit then { d with limit := d.limit - d.raw.length } else d := by
  unfold reserveOrKeep reserve
  by_cases hl : d.raw.length ≤ d.limit
  · rw [if_pos hl, if_pos hl]
  · rw [if_neg hl, if_neg hl]

/-- what a benign failure leaves behind: the bytes `parse_sbit` / `parse_trns` had already reserved -/
def benignResidue (d : Dec) (t : ChunkType) : Dec :=
  if benignCharged d t then reserveOrKeep d else d

theorem benignResidue_eq (d : Dec) (t : ChunkType) :
    (if (t = sBIT ∨ t = tRNS) then
      (match d.info with
       | some i =>
         let charged : Bool :=
           if t = sBIT then !(i.palette.isSome || d.haveIdat || i.sbit.isSome) else !(i.trns.isSome || d.haveIdat)
         if charged then (match reserve d d.raw.length with | .ok d2 => d2 | .error _ => d) else d
       | none => d)
    else d) = benignResidue d t := by
  unfold benignResidue benignCharged
  change (if (t = sBIT ∨ t = tRNS) then
      (match d.info with
       | some i =>
         if (if t = sBIT then !(i.palette.isSome || d.haveIdat || i.sbit.isSome) else !(i.trns.isSome || d.haveIdat)) = true
         then reserveOrKeep d else d
       | none => d)
    else d) = _
  generalize reserveOrKeep d = X
  cases d.info with
  | none => simp
  | some i =>
    simp only
    by_cases h1 : t = sBIT
    · simp only [h1, true_or, if_true]
    · by_cases h2 : t = tRNS
      · simp only [h2, or_true, if_true]
      · simp [h1, h2]

/-- `parse_chunk`, written out -/
theorem parseChunk_eq (cfg : Cfg) (d : Dec) (t : ChunkType) :
    parseChunk cfg d t =
      match dispatch cfg (d.atCrc t) t with
      | .ok (d', ev) => .ok (ev, d')
      | .error e =>
        if e.isFormat && benign t then .ok (.nothing, benignResidue (d.atCrc t) t)
        else match e with
          | .eof => .error (.format "ChunkTooShort")
          | .format w => .error (.format w)
          | .limits => .error .limits
          | .panic s => .error (.panic s) := by
  rw [← benignResidue_eq]
  unfold parseChunk
  simp only [Dec.atCrc]
  generalize dispatch cfg _ t = r
  cases r with
  | ok p => rfl
  | error e => cases e <;> rfl

theorem benignResidue_frame (d : Dec) (t : ChunkType) : FrameG d (benignResidue d t) := by
  unfold benignResidue
  rw [reserveOrKeep_eq]
  repeat' split
  all_goals first
    | exact FrameG.refl _
    | exact ⟨⟨rfl, rfl, rfl, rfl, rfl, rfl, rfl, rfl, rfl, rfl, Nat.sub_le _ _⟩, ⟨rfl, rfl, rfl, rfl, rfl⟩, ⟨rfl, rfl⟩⟩

theorem benignResidue_info (d : Dec) (t : ChunkType) : (benignResidue d t).info = d.info := by
  unfold benignResidue
  rw [reserveOrKeep_eq]
  repeat' split
  all_goals rfl

/-- a successful `parse_chunk` is a successful parser or a swallowed benign failure -/
theorem parseChunk_cases {cfg : Cfg} {d d' : Dec} {t : ChunkType} {ev : Ev} (h : parseChunk cfg d t = .ok (ev, d')) :
    dispatch cfg (d.atCrc t) t = .ok (d', ev) ∨
    (∃ e, dispatch cfg (d.atCrc t) t = .error e ∧ e.isFormat = true ∧ benign t = true ∧
      ev = .nothing ∧ d' = benignResidue (d.atCrc t) t) := by
  rw [parseChunk_eq] at h
  cases hd : dispatch cfg (d.atCrc t) t with
  | ok r => obtain ⟨d1, ev1⟩ := r; rw [hd] at h; cases h; exact Or.inl rfl
  | error e =>
    rw [hd] at h; simp only at h
    split at h
    · rename_i hb
      cases h
      simp only [Bool.and_eq_true] at hb
      exact Or.inr ⟨e, rfl, hb.1, hb.2, rfl, rfl⟩
    · cases e <;> cases h

theorem benign_not_special {t : ChunkType} (h : benign t = true) : t ≠ IHDR ∧ t ≠ PLTE ∧ t ≠ fcTL := by
  simp only [benign, Bool.or_eq_true, beq_iff_eq] at h
  rcases h with (((((h | h) | h) | h) | h) | h) | h <;> subst h <;> decide

theorem parseChunk_frame {cfg : Cfg} {d d' : Dec} {t : ChunkType} {ev : Ev} (h : parseChunk cfg d t = .ok (ev, d')) :
    Frame (d.atCrc t) d' := by
  rcases parseChunk_cases h with h | ⟨e, _, _, _, _, rfl⟩
  · exact dispatch_frame h
  · exact (benignResidue_frame _ t).toFrame

theorem parseChunk_frameG {cfg : Cfg} {d d' : Dec} {t : ChunkType} {ev : Ev} (h : parseChunk cfg d t = .ok (ev, d'))
    (h1 : t ≠ IHDR) (h2 : t ≠ PLTE) (h3 : t ≠ fcTL) : FrameG (d.atCrc t) d' := by
  rcases parseChunk_cases h with h | ⟨e, _, _, _, _, rfl⟩
  · rcases dispatch_shape h with ⟨a, _⟩ | ⟨a, _⟩ | ⟨a, _⟩ | ⟨_, _, _, h⟩
    · exact absurd a h1
    · exact absurd a h2
    · exact absurd a h3
    · exact h
  · exact benignResidue_frame _ t


/-! ## Part 4: steps -/

/-! ### the state after a chunk type (`afterType`) -/

theorem afterType_fdAT (d : Dec) (len : Nat) :
    afterType d fdAT len =
      if !d.readyFdat then .error (.format "UnexpectedRestartOfDataChunkSequence fdAT")
      else if len < 4 then .error (.format "FdatShorterThanFourBytes")
      else .ok (.u32 .seqNo [], { d with haveIdat := true }) := by
  unfold afterType; rw [if_pos rfl]

theorem afterType_IDAT (d : Dec) (len : Nat) :
    afterType d IDAT len =
      if !d.readyIdat then .error (.format "UnexpectedRestartOfDataChunkSequence IDAT")
      else .ok (.imageData IDAT, { d with haveIdat := true }) := by
  unfold afterType; rw [if_neg (by decide), if_pos rfl]

/-- a buffered chunk: an EMPTY body is complete already and goes straight to `ParseChunkData` (it is parsed like
    any other chunk); otherwise the body is collected first -/
theorem afterType_other (d : Dec) {t : ChunkType} (len : Nat) (h1 : t ≠ fdAT) (h2 : t ≠ IDAT) :
    afterType d t len = .ok (if len = 0 then .parseChunkData t else .readChunkData t, d) := by
  unfold afterType; rw [if_neg h1, if_neg h2]; split <;> rfl

/-- everything a successful `afterType` can be -/
theorem afterType_cases {d d' : Dec} {t : ChunkType} {len : Nat} {st : St} (h : afterType d t len = .ok (st, d')) :
    (t = fdAT ∧ d.readyFdat = true ∧ 4 ≤ len ∧ st = .u32 .seqNo [] ∧ d' = { d with haveIdat := true }) ∨
    (t = IDAT ∧ d.readyIdat = true ∧ st = .imageData IDAT ∧ d' = { d with haveIdat := true }) ∨
    (t ≠ fdAT ∧ t ≠ IDAT ∧ st = (if len = 0 then .parseChunkData t else .readChunkData t) ∧ d' = d) := by
  by_cases h1 : t = fdAT
  · subst h1
    rw [afterType_fdAT] at h
    split at h
    · cases h
    · split at h
      · cases h
      · cases h
        rename_i c1 c2
        exact Or.inl ⟨rfl, by simpa using c1, by omega, rfl, rfl⟩
  · by_cases h2 : t = IDAT
    · subst h2
      rw [afterType_IDAT] at h
      split at h
      · cases h
      · cases h
        rename_i c1
        exact Or.inr (Or.inl ⟨rfl, by simpa using c1, rfl, rfl⟩)
    · rw [afterType_other d len h1 h2] at h
      cases h
      exact Or.inr (Or.inr ⟨h1, h2, rfl, rfl⟩)

/-! ### flush -/

theorem flushData_eq (cfg : Cfg) (d : Dec) :
    flushData cfg d =
      if d.zstarted = false then .ok d else
      match cfg.inflate d.zin with
      | some (o, true) => .ok { d with out := d.out ++ o.drop d.zemitted }
      | some (_, false) => .error (.format "CorruptFlateStream (InsufficientInput)")
      | none => .error (.format "CorruptFlateStream") := by
  unfold flushData
  cases d.zstarted <;> rfl

/-- a successful flush only appends to `out` -/
theorem flushData_shape {cfg : Cfg} {d d' : Dec} (h : flushData cfg d = .ok d') :
    ∃ o, d' = { d with out := d.out ++ o } ∧
      (d.zstarted = true → ∃ o', cfg.inflate d.zin = some (o', true) ∧ o = o'.drop d.zemitted) := by
  rw [flushData_eq] at h
  split at h
  · cases h; rename_i hz; exact ⟨[], by simp, fun h => by rw [hz] at h; cases h⟩
  · split at h
    · cases h; rename_i o hi; exact ⟨_, rfl, fun _ => ⟨o, hi, rfl⟩⟩
    · cases h
    · cases h

/-- the chunk-type arm when it ends a data-chunk sequence -/
def IsFlush (d : Dec) (t : ChunkType) : Prop := t ≠ d.curType ∧ (d.curType = IDAT ∨ d.curType = fdAT)

instance (d : Dec) (t : ChunkType) : Decidable (IsFlush d t) := by unfold IsFlush; infer_instance

/-- everything a successful chunk-type step can be: the end of a data-chunk sequence (`ImageDataFlushed`,
    the type is re-parsed by the next call) or the begin of a chunk -/
theorem parseU32_type_cases {cfg : Cfg} {d d' : Dec} {len : Nat} {b0 b1 b2 b3 : UInt8} {ev : Ev}
    (h : parseU32 cfg d (.type len) b0 b1 b2 b3 = .ok (ev, d')) :
    (d.info.isSome = true ∨ be32 b0 b1 b2 b3 = IHDR) ∧
    ((IsFlush d (be32 b0 b1 b2 b3) ∧ ev = .imageDataFlushed ∧
       ∃ d1, flushData cfg { d with curType := be32 b0 b1 b2 b3 } = .ok d1 ∧
         d' = { d1 with zin := [], zstarted := false, zemitted := 0, readyIdat := false, readyFdat := false,
                        state := some (.u32 (.type len) [b0, b1, b2, b3]) }) ∨
     (¬ IsFlush d (be32 b0 b1 b2 b3) ∧ ev = .chunkBegin len (be32 b0 b1 b2 b3) ∧
       ∃ st d1, afterType d (be32 b0 b1 b2 b3) len = .ok (st, d1) ∧
         d' = { d1 with state := some st, curType := be32 b0 b1 b2 b3,
                        crcAcc := if d1.opts.ignoreCrc then d1.crcAcc else typeBytes (be32 b0 b1 b2 b3),
                        remaining := len, raw := [] })) := by
  rw [parseU32_type] at h
  split at h
  · cases h
  · rename_i c0
    refine ⟨?_, ?_⟩
    · cases hi : d.info <;> simp [hi] at c0 ⊢; exact c0
    · split at h
      · rename_i c1
        split at h
        · cases h
        · rename_i d1 hf
          cases h
          exact Or.inl ⟨c1, rfl, d1, hf, rfl⟩
      · rename_i c1
        split at h
        · cases h
        · rename_i st d1 ha
          cases h
          exact Or.inr ⟨c1, rfl, st, d1, ha, rfl⟩


/-! ### `reserve_current_chunk` -/

theorem reserveCurrentChunk_shape {d d' : Dec} (h : reserveCurrentChunk d = .ok d') :
    ∃ r, r = min d.raw.length (d.limit - d.cap) ∧ r ≤ d.limit ∧
      d' = { d with limit := d.limit - r, cap := max d.cap (d.raw.length + r) } ∧ d.raw.length < d'.cap := by
  unfold reserveCurrentChunk at h
  simp only at h
  split at h
  · cases h
  · split at h
    · cases h
    · rename_i c1 c2
      cases h
      refine ⟨_, rfl, by omega, rfl, ?_⟩
      simp only at c2 ⊢
      omega

/-! ### what one `next_state` call never undoes -/

/-- monotone facts of every successful step -/
structure StepFrame (d d' : Dec) : Prop where
  opts : d'.opts = d.opts
  limit : d'.limit ≤ d.limit
  cap : d.cap ≤ d'.cap
  /-- the body collected so far fits the chunk buffer, and every growth of the buffer is paid for -/
  paid : d.raw.length ≤ d.cap → d'.raw.length ≤ d'.cap ∧ d'.cap - d.cap ≤ d.limit - d'.limit
  readyIdat : d'.readyIdat = true → d.readyIdat = true
  haveIdat : d.haveIdat = true → d'.haveIdat = true
  info : d.info.isSome = true → d'.info.isSome = true
  out : d.out <+: d'.out

theorem StepFrame.refl (d : Dec) : StepFrame d d :=
  ⟨rfl, Nat.le_refl _, Nat.le_refl _, fun h => ⟨h, by omega⟩, id, id, id, List.prefix_refl _⟩

theorem StepFrame.trans {a b c : Dec} (h1 : StepFrame a b) (h2 : StepFrame b c) : StepFrame a c :=
  ⟨h2.opts.trans h1.opts, Nat.le_trans h2.limit h1.limit, Nat.le_trans h1.cap h2.cap,
   fun h => by
     have p1 := h1.paid h; have p2 := h2.paid p1.1
     have := h1.cap; have := h2.cap; have := h1.limit; have := h2.limit
     exact ⟨p2.1, by omega⟩,
   fun h => h1.readyIdat (h2.readyIdat h), fun h => h2.haveIdat (h1.haveIdat h), fun h => h2.info (h1.info h),
   h1.out.trans h2.out⟩

theorem StepFrame.of_frame {d d' : Dec} (h : Frame d d') (hi : d.info.isSome = true → d'.info.isSome = true) :
    StepFrame d d' :=
  ⟨h.opts, h.limit, Nat.le_of_eq h.cap.symm, fun x => by rw [h.cap, h.raw]; exact ⟨x, by omega⟩,
   fun x => by rw [← h.readyIdat]; exact x, fun x => by rw [h.haveIdat]; exact x, hi,
   by rw [h.out]; exact List.prefix_refl _⟩

theorem StepFrame.of_eq {d d' : Dec} (h1 : d'.opts = d.opts) (h2 : d'.limit = d.limit) (h3 : d'.cap = d.cap)
    (h4 : d'.raw.length ≤ d.raw.length) (h5 : d'.readyIdat = d.readyIdat) (h6 : d.haveIdat = true → d'.haveIdat = true)
    (h7 : d'.info = d.info) (h8 : d'.out = d.out) : StepFrame d d' :=
  ⟨h1, Nat.le_of_eq h2, Nat.le_of_eq h3.symm, fun h => ⟨by omega, by omega⟩, fun h => h5 ▸ h, h6, fun h => h7 ▸ h,
   h8 ▸ List.prefix_refl _⟩

/-- closes `StepFrame d d'` when `d'` is `d` with some of `state`, `curType`, `crcAcc`, `remaining`, `seqNo`,
    `raw := []`, `haveIdat := true` changed -/
macro "step_frame_rfl" : tactic =>
  `(tactic| exact StepFrame.of_eq rfl rfl rfl (by simp) rfl (by first | exact id | exact fun _ => rfl) rfl rfl)

theorem parseU32_stepFrame {cfg : Cfg} {d d' : Dec} {kind : U32Kind} {b0 b1 b2 b3 : UInt8} {ev : Ev}
    (h : parseU32 cfg d kind b0 b1 b2 b3 = .ok (ev, d')) : StepFrame d d' := by
  cases kind with
  | sig1 => rw [parseU32_sig1] at h; split at h <;> cases h; step_frame_rfl
  | sig2 => rw [parseU32_sig2] at h; split at h <;> cases h; step_frame_rfl
  | length => rw [parseU32_length] at h; cases h; step_frame_rfl
  | type len =>
    obtain ⟨_, hc⟩ := parseU32_type_cases h
    rcases hc with ⟨_, _, d1, hf, rfl⟩ | ⟨_, _, st, d1, ha, rfl⟩
    · obtain ⟨o, rfl, _⟩ := flushData_shape hf
      exact ⟨rfl, Nat.le_refl _, Nat.le_refl _, fun h => ⟨h, by simp⟩, (fun h => by cases h), id, id,
        List.prefix_append _ _⟩
    · rcases afterType_cases ha with ⟨_, _, _, _, rfl⟩ | ⟨_, _, _, rfl⟩ | ⟨_, _, _, rfl⟩
      · step_frame_rfl
      · step_frame_rfl
      · step_frame_rfl
  | crc t =>
    rw [parseU32_crc] at h
    repeat' split at h
    all_goals first | (cases h; done) | (cases h; exact StepFrame.refl _) | (cases h; step_frame_rfl)
  | seqNo =>
    rw [parseU32_seqNo] at h
    repeat' split at h
    all_goals first | (cases h; done) | (cases h; step_frame_rfl)

theorem stepU32_stepFrame {cfg : Cfg} {d d' : Dec} {kind : U32Kind} {acc buf : Bytes} {n : Nat} {ev : Ev}
    (h : stepU32 cfg d kind acc buf = .ok (n, ev, d')) : StepFrame d d' := by
  unfold stepU32 at h
  split at h
  · obtain ⟨_, _, _, _, _, _, _, hp⟩ := parse4_ok h
    exact parseU32_stepFrame hp
  · simp only at h
    split at h
    · cases h; step_frame_rfl
    · obtain ⟨_, _, _, _, _, _, _, hp⟩ := parse4_ok h
      exact parseU32_stepFrame hp

theorem stepRead_stepFrame {d d' : Dec} {t : ChunkType} {buf : Bytes} {n : Nat} {ev : Ev}
    (h : stepRead d t buf = .ok (n, ev, d')) : StepFrame d d' := by
  unfold stepRead at h
  split at h
  · cases h; step_frame_rfl
  · simp only at h
    split at h
    · cases h; step_frame_rfl
    · cases h
      refine ⟨rfl, Nat.le_refl _, Nat.le_refl _, fun hx => ⟨?_, by simp [Dec.readPiece]⟩, id, id, id, List.prefix_refl _⟩
      simp only [Dec.readPiece, List.length_append, List.length_take]
      omega

theorem stepImage_stepFrame {cfg : Cfg} {d d' : Dec} {t : ChunkType} {buf : Bytes} {n : Nat} {ev : Ev}
    (h : stepImage cfg d t buf = .ok (n, ev, d')) : StepFrame d d' := by
  unfold stepImage at h
  simp only at h
  split at h
  · cases h
  · cases h
    exact ⟨rfl, Nat.le_refl _, Nat.le_refl _, fun hx => ⟨hx, by simp [Dec.imagePiece]⟩, id, id, id, List.prefix_append _ _⟩

theorem parseChunk_info_isSome {cfg : Cfg} {d d' : Dec} {t : ChunkType} {ev : Ev}
    (h : parseChunk cfg d t = .ok (ev, d')) (hi : d.info.isSome = true) : d'.info.isSome = true := by
  rcases parseChunk_cases h with h | ⟨e, _, _, _, _, rfl⟩
  · rcases dispatch_shape h with ⟨_, h⟩ | ⟨_, h⟩ | ⟨_, h⟩ | ⟨_, _, _, h⟩
    · exact (parseIhdr_frame h).2.2.2.1
    · exact (parsePlte_frame h).2.2.2.2.1
    · rw [(parseFctl_frame h).2.1.isSome]; exact hi
    · rw [h.isSome]; exact hi
  · rw [benignResidue_info]; exact hi

theorem stepParse_stepFrame {cfg : Cfg} {d d' : Dec} {t : ChunkType} {n : Nat} {ev : Ev}
    (h : stepParse cfg d t = .ok (n, ev, d')) : StepFrame d d' := by
  unfold stepParse at h
  split at h
  · cases hp : parseChunk cfg d t with
    | error e => rw [hp] at h; cases h
    | ok r =>
      rw [hp] at h; obtain ⟨ev1, d1⟩ := r
      simp only [Except.map] at h
      cases h
      have h1 : StepFrame d (d.atCrc t) := by unfold Dec.atCrc; step_frame_rfl
      exact h1.trans (StepFrame.of_frame (parseChunk_frame hp) (parseChunk_info_isSome hp))
  · cases hp : reserveCurrentChunk d with
    | error e => rw [hp] at h; cases h
    | ok d1 =>
      rw [hp] at h
      simp only [Except.map] at h
      cases h
      obtain ⟨r, hr, hle, rfl, hlt⟩ := reserveCurrentChunk_shape hp
      refine ⟨rfl, Nat.sub_le _ _, Nat.le_max_left _ _, fun hx => ⟨Nat.le_of_lt hlt, ?_⟩, id, id, id, List.prefix_refl _⟩
      simp only
      omega

theorem nextState_stepFrame {cfg : Cfg} {d d' : Dec} {st : St} {buf : Bytes} {n : Nat} {ev : Ev}
    (h : nextState cfg d st buf = .ok (n, ev, d')) : StepFrame d d' := by
  unfold nextState at h
  simp only at h
  have h0 : StepFrame d { d with state := none } := by step_frame_rfl
  cases st with
  | u32 kind acc => exact h0.trans (stepU32_stepFrame h)
  | parseChunkData t => exact h0.trans (stepParse_stepFrame h)
  | readChunkData t => exact h0.trans (stepRead_stepFrame h)
  | imageData t => exact h0.trans (stepImage_stepFrame h)


theorem run_stepFrame (cfg : Cfg) : ∀ (f : Nat) (d : Dec) (buf : Bytes), StepFrame d (run cfg f d buf).1 := by
  intro f
  induction f with
  | zero => intro d buf; exact StepFrame.refl _
  | succ f ih =>
    intro d buf
    unfold run
    split
    · exact StepFrame.refl _
    · split
      · exact StepFrame.refl _
      · split
        · unfold Dec.withState; step_frame_rfl
        · rename_i n ev d' hn
          exact (nextState_stepFrame hn).trans (ih d' _)

theorem runF_stepFrame (cfg : Cfg) (d : Dec) (buf : Bytes) : StepFrame d (runF cfg d buf).1 := run_stepFrame cfg _ d buf

/-! ### the chunk type is refused now, or right after the flush it triggers -/

/-- The chunk-type field `b0 b1 b2 b3` is refused: the step is an error, or it is the end of a
    data-chunk sequence (`ImageDataFlushed`, which consumes nothing more) and the re-parse of the same
    four bytes — the first thing the next call does — is an error. -/
def RejectsType (cfg : Cfg) (d : Dec) (len : Nat) (b0 b1 b2 b3 : UInt8) : Prop :=
  (∃ e, parseU32 cfg d (.type len) b0 b1 b2 b3 = .error e) ∨
  (∃ d', parseU32 cfg d (.type len) b0 b1 b2 b3 = .ok (.imageDataFlushed, d') ∧
    d'.state = some (.u32 (.type len) [b0, b1, b2, b3]) ∧
    ∃ e, parseU32 cfg d' (.type len) b0 b1 b2 b3 = .error e)

theorem exists_error_or_ok {ε α} (r : Except ε α) : (∃ e, r = .error e) ∨ (∃ a, r = .ok a) := by
  cases r with
  | error e => exact Or.inl ⟨e, rfl⟩
  | ok a => exact Or.inr ⟨a, rfl⟩

/-- the general pattern: a type that `afterType` refuses whenever both ready flags are as given or false -/
theorem rejectsType_of {cfg : Cfg} {d : Dec} {len : Nat} {b0 b1 b2 b3 : UInt8}
    (hnow : ∀ d1 : Dec, d1.readyIdat = d.readyIdat → d1.readyFdat = d.readyFdat →
        ∃ e, afterType d1 (be32 b0 b1 b2 b3) len = .error e)
    (hafter : ∀ d1 : Dec, d1.readyIdat = false → d1.readyFdat = false →
        ∃ e, afterType d1 (be32 b0 b1 b2 b3) len = .error e) :
    RejectsType cfg d len b0 b1 b2 b3 := by
  rcases exists_error_or_ok (parseU32 cfg d (.type len) b0 b1 b2 b3) with he | ⟨⟨ev, d'⟩, hok⟩
  · exact Or.inl he
  · obtain ⟨_, hc⟩ := parseU32_type_cases hok
    rcases hc with ⟨hfl, rfl, d1, hf, rfl⟩ | ⟨_, _, st, d1, ha, _⟩
    · refine Or.inr ⟨_, hok, rfl, ?_⟩
      obtain ⟨o, rfl, _⟩ := flushData_shape hf
      rw [parseU32_type]
      split
      · exact ⟨_, rfl⟩
      · rw [if_neg (by simp)]
        generalize hd2 : ({ ({ d with curType := be32 b0 b1 b2 b3, out := d.out ++ o } : Dec) with
          zin := [], zstarted := false, zemitted := 0, readyIdat := false, readyFdat := false,
          state := some (.u32 (.type len) [b0, b1, b2, b3]) } : Dec) = d2
        obtain ⟨e, he⟩ := hafter d2 (by rw [← hd2]) (by rw [← hd2])
        rw [he]
        exact ⟨_, rfl⟩
    · obtain ⟨e, he⟩ := hnow d rfl rfl
      rw [he] at ha; cases ha

/-! ### what the running CRC covers -/

/-- in a data chunk: the type bytes, for fdAT the four sequence-number bytes, then the bytes that
    went to the inflater from this chunk (a suffix of everything fed to it) -/
def DataCrc (d : Dec) (t : ChunkType) : Prop :=
  ∃ pre data, d.crcAcc = typeBytes t ++ pre ++ data ∧ data <:+ d.zin ∧
    ((t = IDAT ∧ pre = []) ∨
     (t = fdAT ∧ ∃ s0 s1 s2 s3, pre = [s0, s1, s2, s3] ∧ d.seqNo = some (be32 s0 s1 s2 s3)))

/-- in a buffered chunk: the type bytes and the body collected so far -/
def BufCrc (d : Dec) (t : ChunkType) : Prop := t ≠ IDAT ∧ t ≠ fdAT ∧ d.crcAcc = typeBytes t ++ d.raw

/-- **CRC coverage invariant** (when CRCs are checked at all) -/
def CrcInv (d : Dec) : Prop :=
  d.opts.ignoreCrc = false →
  match d.state with
  | some (.readChunkData t) => BufCrc d t
  | some (.parseChunkData t) => BufCrc d t
  | some (.imageData t) => DataCrc d t
  | some (.u32 (.crc t) _) => BufCrc d t ∨ DataCrc d t
  | some (.u32 .seqNo _) => d.crcAcc = typeBytes fdAT
  | _ => True

theorem crcInv_new (opts : Options) : CrcInv (Dec.new opts) := fun _ => trivial

theorem parseU32_crcInv {cfg : Cfg} {d d' : Dec} {kind : U32Kind} {b0 b1 b2 b3 : UInt8} {ev : Ev} {acc : Bytes}
    (hd : d.state = none) (hinv : CrcInv { d with state := some (.u32 kind acc) })
    (h : parseU32 cfg d kind b0 b1 b2 b3 = .ok (ev, d')) : CrcInv d' := by
  intro hig
  have hopts := (parseU32_stepFrame h).opts
  rw [hopts] at hig
  cases kind with
  | sig1 => rw [parseU32_sig1] at h; split at h <;> cases h; trivial
  | sig2 => rw [parseU32_sig2] at h; split at h <;> cases h; trivial
  | length => rw [parseU32_length] at h; cases h; trivial
  | type len =>
    obtain ⟨_, hc⟩ := parseU32_type_cases h
    rcases hc with ⟨_, _, d1, hf, rfl⟩ | ⟨_, _, st, d1, ha, rfl⟩
    · trivial
    · rcases afterType_cases ha with ⟨ht, _, _, rfl, rfl⟩ | ⟨ht, _, rfl, rfl⟩ | ⟨h1, h2, rfl, rfl⟩
      · simp only [hig, Bool.false_eq_true, if_false, ht]
      · simp only [hig, Bool.false_eq_true, if_false, ht]
        exact ⟨[], [], by simp, List.nil_suffix, Or.inl ⟨rfl, rfl⟩⟩
      · by_cases hl : len = 0
        · simp only [hig, Bool.false_eq_true, if_false, hl, if_true]
          exact ⟨h2, h1, by simp⟩
        · simp only [hig, Bool.false_eq_true, if_false, hl]
          exact ⟨h2, h1, by simp⟩
  | crc t =>
    rw [parseU32_crc] at h
    repeat' split at h
    all_goals first | (cases h; done) | (cases h; trivial) | skip
    -- `ImageEnd`: the decoder is returned as it came (`state = none`)
    all_goals (cases h; rw [hd]; trivial)
  | seqNo =>
    have hi := hinv hig
    simp only at hi
    rw [parseU32_seqNo] at h
    simp only [hig, Bool.false_eq_true, if_false] at h
    repeat' split at h
    all_goals first | (cases h; done) | skip
    cases h
    simp only [hi]
    exact ⟨[b0, b1, b2, b3], [], by simp, List.nil_suffix, Or.inr ⟨rfl, _, _, _, _, rfl, rfl⟩⟩


theorem stepU32_crcInv {cfg : Cfg} {d d' : Dec} {kind : U32Kind} {acc buf : Bytes} {n : Nat} {ev : Ev}
    (hd : d.state = none) (hinv : CrcInv { d with state := some (.u32 kind acc) })
    (h : stepU32 cfg d kind acc buf = .ok (n, ev, d')) : CrcInv d' := by
  unfold stepU32 at h
  split at h
  · obtain ⟨_, _, _, _, _, _, _, hp⟩ := parse4_ok h
    exact parseU32_crcInv hd hinv hp
  · simp only at h
    split at h
    · cases h
      intro hig
      have := hinv hig
      cases kind <;> first | trivial | exact this
    · obtain ⟨_, _, _, _, _, _, _, hp⟩ := parse4_ok h
      exact parseU32_crcInv hd hinv hp

theorem stepRead_crcInv {d d' : Dec} {t : ChunkType} {buf : Bytes} {n : Nat} {ev : Ev}
    (hinv : CrcInv { d with state := some (.readChunkData t) })
    (h : stepRead d t buf = .ok (n, ev, d')) : CrcInv d' := by
  intro hig
  have hopts := (stepRead_stepFrame h).opts
  rw [hopts] at hig
  have hi : BufCrc d t := hinv hig
  unfold stepRead at h
  split at h
  · cases h; exact Or.inl hi
  · simp only at h
    split at h
    · cases h; exact hi
    · cases h
      have hb : BufCrc (d.readPiece (min d.remaining (min buf.length (d.cap - d.raw.length)))
          (buf.take (min d.remaining (min buf.length (d.cap - d.raw.length))))) t := by
        obtain ⟨h1, h2, h3⟩ := hi
        refine ⟨h1, h2, ?_⟩
        simp only [Dec.readPiece, hig, Bool.false_eq_true, if_false, h3, List.append_assoc]
      generalize d.readPiece _ _ = dp at hb ⊢
      by_cases hr : dp.remaining = 0
      · simp only [hr, if_true]; exact hb
      · simp only [hr, if_false]; exact hb

theorem stepImage_crcInv {cfg : Cfg} {d d' : Dec} {t : ChunkType} {buf : Bytes} {n : Nat} {ev : Ev}
    (hinv : CrcInv { d with state := some (.imageData t) })
    (h : stepImage cfg d t buf = .ok (n, ev, d')) : CrcInv d' := by
  intro hig
  have hopts := (stepImage_stepFrame h).opts
  rw [hopts] at hig
  have hi : DataCrc d t := hinv hig
  unfold stepImage at h
  simp only at h
  split at h
  · cases h
  · rename_i o b hinf
    cases h
    have hb : DataCrc (d.imagePiece (min buf.length d.remaining) (buf.take (min buf.length d.remaining)) o) t := by
      obtain ⟨pre, data, h1, h2, h3⟩ := hi
      refine ⟨pre, data ++ buf.take (min buf.length d.remaining), ?_, ?_, h3⟩
      · simp only [Dec.imagePiece, h1, List.append_assoc]
      · simp only [Dec.imagePiece]
        obtain ⟨z0, hz⟩ := h2
        exact ⟨z0, by rw [← hz, List.append_assoc]⟩
    generalize d.imagePiece _ _ _ = dp at hb ⊢
    by_cases hr : dp.remaining = 0
    · simp only [hr, if_true]; exact Or.inr hb
    · simp only [hr, if_false]; exact hb

theorem stepParse_crcInv {cfg : Cfg} {d d' : Dec} {t : ChunkType} {n : Nat} {ev : Ev}
    (hinv : CrcInv { d with state := some (.parseChunkData t) })
    (h : stepParse cfg d t = .ok (n, ev, d')) : CrcInv d' := by
  intro hig
  have hopts := (stepParse_stepFrame h).opts
  rw [hopts] at hig
  have hi : BufCrc d t := hinv hig
  unfold stepParse at h
  split at h
  · cases hp : parseChunk cfg d t with
    | error e => rw [hp] at h; cases h
    | ok r =>
      rw [hp] at h; obtain ⟨ev1, d1⟩ := r
      simp only [Except.map] at h
      cases h
      have hf := parseChunk_frame hp
      have hs : d'.state = some (.u32 (.crc t) []) := hf.state
      rw [hs]
      exact Or.inl ⟨hi.1, hi.2.1, by rw [hf.crcAcc, hf.raw]; exact hi.2.2⟩
  · cases hp : reserveCurrentChunk d with
    | error e => rw [hp] at h; cases h
    | ok d1 =>
      rw [hp] at h
      simp only [Except.map] at h
      cases h
      obtain ⟨r, _, _, rfl, _⟩ := reserveCurrentChunk_shape hp
      exact hi

/-- **the CRC coverage invariant is preserved by every step** -/
theorem nextState_crcInv {cfg : Cfg} {d d' : Dec} {st : St} {buf : Bytes} {n : Nat} {ev : Ev}
    (hs : d.state = some st) (hinv : CrcInv d) (h : nextState cfg d st buf = .ok (n, ev, d')) : CrcInv d' := by
  unfold nextState at h
  simp only at h
  have hinv' : CrcInv ({ ({ d with state := none } : Dec) with state := some st }) := by
    have : ({ ({ d with state := none } : Dec) with state := some st } : Dec) = d := by
      cases d; simp only at hs; subst hs; rfl
    rw [this]; exact hinv
  cases st with
  | u32 kind acc => exact stepU32_crcInv rfl hinv' h
  | parseChunkData t => exact stepParse_crcInv hinv' h
  | readChunkData t => exact stepRead_crcInv hinv' h
  | imageData t => exact stepImage_crcInv hinv' h

theorem run_crcInv (cfg : Cfg) : ∀ (f : Nat) (d : Dec) (buf : Bytes), CrcInv d → CrcInv (run cfg f d buf).1 := by
  intro f
  induction f with
  | zero => intro d buf h; exact h
  | succ f ih =>
    intro d buf hinv
    unfold run
    split
    · exact hinv
    · split
      · exact hinv
      · rename_i st hs
        split
        · intro _; trivial
        · rename_i n ev d' hn
          exact ih d' _ (nextState_crcInv hs hinv hn)

/-! ### one `update` call whose first `next_state` call decides -/

/-- an error of the first `next_state` call is the result of the `update` call -/
theorem update_error_of_step {cfg : Cfg} {d : Dec} {st : St} {buf : Bytes} {e : Err}
    (hs : d.state = some st) (hbuf : buf ≠ []) (h : nextState cfg d st buf = .error e) :
    update cfg d buf = ({ d with state := none }, .error e) := by
  unfold update
  rw [hs]
  simp only
  have : updateFuel buf = (5 * buf.length + 4) + 1 := by simp [updateFuel]
  rw [this, updateLoop]
  have hb : buf.isEmpty = false := by cases buf with | nil => exact absurd rfl hbuf | cons _ _ => rfl
  simp only [hb, Bool.false_eq_true, if_false, hs, h]

/-- a first `next_state` call that reports an event ends the `update` call -/
theorem update_ok_of_step {cfg : Cfg} {d d' : Dec} {st : St} {buf : Bytes} {n : Nat} {ev : Ev}
    (hs : d.state = some st) (hbuf : buf ≠ []) (h : nextState cfg d st buf = .ok (n, ev, d')) (hev : ev ≠ .nothing) :
    update cfg d buf = (d', .ok (n, ev)) := by
  unfold update
  rw [hs]
  simp only
  have : updateFuel buf = (5 * buf.length + 4) + 1 := by simp [updateFuel]
  rw [this, updateLoop]
  have hb : buf.isEmpty = false := by cases buf with | nil => exact absurd rfl hbuf | cons _ _ => rfl
  simp only [hb, Bool.false_eq_true, if_false, hs, h]
  cases ev <;> first | exact absurd rfl hev | simp

/-- a complete four-byte field at the head of the buffer goes straight to `parse_u32` -/
theorem nextState_u32_fast (cfg : Cfg) (d : Dec) (kind : U32Kind) (b0 b1 b2 b3 : UInt8) (rest : Bytes) :
    nextState cfg d (.u32 kind []) (b0 :: b1 :: b2 :: b3 :: rest) =
      (parseU32 cfg { d with state := none } kind b0 b1 b2 b3).map fun (ev, d) => (4, ev, d) := by
  simp [nextState, stepU32, parse4]

/-- the pending re-parse of a four-byte field (after `ImageDataFlushed`) looks at no input -/
theorem nextState_u32_pending (cfg : Cfg) (d : Dec) (kind : U32Kind) (b0 b1 b2 b3 : UInt8) (buf : Bytes) :
    nextState cfg d (.u32 kind [b0, b1, b2, b3]) buf =
      (parseU32 cfg { d with state := none } kind b0 b1 b2 b3).map fun (ev, d) => (0, ev, d) := by
  simp [nextState, stepU32, parse4]

/-- a four-byte field completed by this call (some of its bytes may have been accumulated by earlier
    calls) goes to `parse_u32` -/
theorem nextState_u32_complete (cfg : Cfg) (d : Dec) (kind : U32Kind) (acc buf : Bytes) (b0 b1 b2 b3 : UInt8)
    (h : acc ++ buf.take (4 - acc.length) = [b0, b1, b2, b3]) :
    nextState cfg d (.u32 kind acc) buf =
      (parseU32 cfg { d with state := none } kind b0 b1 b2 b3).map fun (ev, d) => (4 - acc.length, ev, d) := by
  have hlen := congrArg List.length h
  simp only [List.length_append, List.length_take, List.length_cons, List.length_nil] at hlen
  simp only [nextState, stepU32]
  split
  · rename_i hc
    have hacc : acc = [] := List.eq_nil_of_length_eq_zero hc.1
    subst hacc
    simp only [List.nil_append, List.length_nil, Nat.sub_zero] at h ⊢
    match buf, h with
    | c0 :: c1 :: c2 :: c3 :: rest, h =>
      simp only [List.take_succ_cons, List.take_zero, List.cons.injEq, and_true] at h
      obtain ⟨rfl, rfl, rfl, rfl⟩ := h
      rfl
  · have hn : min (4 - acc.length) buf.length = 4 - acc.length := by omega
    simp only [hn, h]
    rw [if_neg (by simp)]
    rfl

/-! ### `dispatch` on the known types -/

macro "dispatch_tac" : tactic =>
  `(tactic| (unfold dispatch; simp (decide := true) only [if_true, if_false, false_and, true_and, *, Bool.not_false]))

theorem dispatch_IHDR (cfg : Cfg) (d : Dec) : dispatch cfg d IHDR = parseIhdr d := by dispatch_tac
theorem dispatch_sBIT (cfg : Cfg) (d : Dec) : dispatch cfg d sBIT = parseSbit d := by dispatch_tac
theorem dispatch_PLTE (cfg : Cfg) (d : Dec) : dispatch cfg d PLTE = parsePlte d := by dispatch_tac
theorem dispatch_tRNS (cfg : Cfg) (d : Dec) : dispatch cfg d tRNS = parseTrns d := by dispatch_tac
theorem dispatch_pHYs (cfg : Cfg) (d : Dec) : dispatch cfg d pHYs = parsePhys d := by dispatch_tac
theorem dispatch_gAMA (cfg : Cfg) (d : Dec) : dispatch cfg d gAMA = parseGama d := by dispatch_tac
theorem dispatch_acTL (cfg : Cfg) (d : Dec) : dispatch cfg d acTL = parseActl d := by dispatch_tac
theorem dispatch_fcTL (cfg : Cfg) (d : Dec) : dispatch cfg d fcTL = parseFctl d := by dispatch_tac
theorem dispatch_cHRM (cfg : Cfg) (d : Dec) : dispatch cfg d cHRM = parseChrm d := by dispatch_tac
theorem dispatch_sRGB (cfg : Cfg) (d : Dec) : dispatch cfg d sRGB = parseSrgb d := by dispatch_tac
theorem dispatch_cICP (cfg : Cfg) (d : Dec) : dispatch cfg d cICP = parseCicp d := by dispatch_tac
theorem dispatch_mDCV (cfg : Cfg) (d : Dec) : dispatch cfg d mDCV = parseMdcv d := by dispatch_tac
theorem dispatch_cLLI (cfg : Cfg) (d : Dec) : dispatch cfg d cLLI = parseClli d := by dispatch_tac
theorem dispatch_eXIf (cfg : Cfg) (d : Dec) : dispatch cfg d eXIf = parseExif d := by dispatch_tac
theorem dispatch_bKGD (cfg : Cfg) (d : Dec) : dispatch cfg d bKGD = parseBkgd d := by dispatch_tac
theorem dispatch_iCCP (cfg : Cfg) (d : Dec) (h : d.opts.ignoreIccp = false) : dispatch cfg d iCCP = parseIccp cfg d := by
  dispatch_tac
theorem dispatch_tEXt (cfg : Cfg) (d : Dec) (h : d.opts.ignoreText = false) : dispatch cfg d tEXt = parseText d := by
  dispatch_tac
theorem dispatch_zTXt (cfg : Cfg) (d : Dec) (h : d.opts.ignoreText = false) : dispatch cfg d zTXt = parseZtxt d := by
  dispatch_tac
theorem dispatch_iTXt (cfg : Cfg) (d : Dec) (h : d.opts.ignoreText = false) : dispatch cfg d iTXt = parseItxt cfg d := by
  dispatch_tac

/-- the types `parse_chunk` knows -/
def knownTypes : List ChunkType :=
  [IHDR, sBIT, PLTE, tRNS, pHYs, gAMA, acTL, fcTL, cHRM, sRGB, cICP, mDCV, cLLI, eXIf, bKGD, iCCP, tEXt, zTXt, iTXt]

/-- a type that matches none of the arms (or iCCP / text under `ignore_iccp` / `ignore_text`) -/
theorem dispatch_unknown (cfg : Cfg) (d : Dec) (t : ChunkType)
    (h : t ∉ knownTypes ∨ (t = iCCP ∧ d.opts.ignoreIccp = true) ∨
      ((t = tEXt ∨ t = zTXt ∨ t = iTXt) ∧ d.opts.ignoreText = true)) :
    dispatch cfg d t = .ok (d, .partialChunk t) := by
  rcases h with h | ⟨rfl, h⟩ | ⟨rfl | rfl | rfl, h⟩
  · simp only [knownTypes, List.mem_cons, List.mem_nil_iff, or_false, not_or] at h
    obtain ⟨h1, h2, h3, h4, h5, h6, h7, h8, h9, h10, h11, h12, h13, h14, h15, h16, h17, h18, h19⟩ := h
    unfold dispatch
    simp only [h1, h2, h3, h4, h5, h6, h7, h8, h9, h10, h11, h12, h13, h14, h15, h16, h17, h18, h19, if_false, false_and]
  all_goals (unfold dispatch; simp (decide := true) only [if_false, false_and, true_and, h, Bool.not_true, Bool.false_eq_true])

/-- the error of `parse_chunk` when the parser's error is not swallowed -/
def PErr.toErr : PErr → Err
  | .eof => .format "ChunkTooShort"
  | .format w => .format w
  | .limits => .limits
  | .panic s => .panic s

theorem parseChunk_of_error {cfg : Cfg} {d : Dec} {t : ChunkType} {e : PErr}
    (h : dispatch cfg (d.atCrc t) t = .error e) (hb : (e.isFormat && benign t) = false) :
    parseChunk cfg d t = .error e.toErr := by
  rw [parseChunk_eq, h]
  simp only [hb, Bool.false_eq_true, if_false]
  cases e <;> rfl

theorem parseChunk_of_benign {cfg : Cfg} {d : Dec} {t : ChunkType} {e : PErr}
    (h : dispatch cfg (d.atCrc t) t = .error e) (hf : e.isFormat = true) (hb : benign t = true) :
    parseChunk cfg d t = .ok (.nothing, benignResidue (d.atCrc t) t) := by
  rw [parseChunk_eq, h]
  simp only [hf, hb, Bool.and_self, if_true]

theorem parseChunk_of_ok {cfg : Cfg} {d d' : Dec} {t : ChunkType} {ev : Ev}
    (h : dispatch cfg (d.atCrc t) t = .ok (d', ev)) : parseChunk cfg d t = .ok (ev, d') := by
  rw [parseChunk_eq, h]

/-- every parser except fcTL leaves the inflater / APNG sequencing fields alone -/
theorem parseChunk_frameZ {cfg : Cfg} {d d' : Dec} {t : ChunkType} {ev : Ev} (h : parseChunk cfg d t = .ok (ev, d'))
    (ht : t ≠ fcTL) : FrameZ (d.atCrc t) d' := by
  rcases parseChunk_cases h with h | ⟨e, _, _, _, _, rfl⟩
  · rcases dispatch_shape h with ⟨_, h⟩ | ⟨_, h⟩ | ⟨a, _⟩ | ⟨_, _, _, h⟩
    · exact (parseIhdr_frame h).2.1
    · exact (parsePlte_frame h).2.1
    · exact absurd a ht
    · exact h.toFrameZ
  · exact (benignResidue_frame _ t).toFrameZ

/-- a successful `parse_chunk(fcTL)` is a successful `parse_fctl` (fcTL is not benign) -/
theorem parseChunk_fcTL {cfg : Cfg} {d d' : Dec} {ev : Ev} (h : parseChunk cfg d fcTL = .ok (ev, d')) :
    parseFctl (d.atCrc fcTL) = .ok (d', ev) := by
  rcases parseChunk_cases h with h | ⟨e, _, _, hb, _⟩
  · rwa [dispatch_fcTL] at h
  · exact absurd hb (by decide)

theorem parseU32_readyFdat {cfg : Cfg} {d d' : Dec} {kind : U32Kind} {b0 b1 b2 b3 : UInt8} {ev : Ev}
    (hp : parseU32 cfg d kind b0 b1 b2 b3 = .ok (ev, d')) (h1 : d'.readyFdat = true) : d.readyFdat = true := by
  cases kind with
  | sig1 => rw [parseU32_sig1] at hp; split at hp <;> cases hp; exact h1
  | sig2 => rw [parseU32_sig2] at hp; split at hp <;> cases hp; exact h1
  | length => rw [parseU32_length] at hp; cases hp; exact h1
  | type len =>
    obtain ⟨_, hc⟩ := parseU32_type_cases hp
    rcases hc with ⟨_, _, d1, hf, rfl⟩ | ⟨_, _, st, d1, ha, rfl⟩
    · cases h1
    · rcases afterType_cases ha with ⟨_, hr, _⟩ | ⟨_, _, _, rfl⟩ | ⟨_, _, _, rfl⟩
      · exact hr
      · exact h1
      · exact h1
  | crc t =>
    rw [parseU32_crc] at hp
    repeat' split at hp
    all_goals first | (cases hp; done) | (cases hp; exact h1)
  | seqNo =>
    rw [parseU32_seqNo] at hp
    repeat' split at hp
    all_goals first | (cases hp; done) | (cases hp; exact h1)

theorem stepU32_readyFdat {cfg : Cfg} {d d' : Dec} {kind : U32Kind} {acc buf : Bytes} {n : Nat} {ev : Ev}
    (h : stepU32 cfg d kind acc buf = .ok (n, ev, d')) (h1 : d'.readyFdat = true) : d.readyFdat = true := by
  unfold stepU32 at h
  split at h
  · obtain ⟨_, _, _, _, _, _, _, hp⟩ := parse4_ok h; exact parseU32_readyFdat hp h1
  · simp only at h
    split at h
    · cases h; exact h1
    · obtain ⟨_, _, _, _, _, _, _, hp⟩ := parse4_ok h; exact parseU32_readyFdat hp h1

theorem stepRead_readyFdat {d d' : Dec} {t : ChunkType} {buf : Bytes} {n : Nat} {ev : Ev}
    (h : stepRead d t buf = .ok (n, ev, d')) : d'.readyFdat = d.readyFdat := by
  unfold stepRead at h
  split at h
  · cases h; rfl
  · simp only at h
    split at h
    · cases h; rfl
    · cases h; rfl

theorem stepImage_readyFdat {cfg : Cfg} {d d' : Dec} {t : ChunkType} {buf : Bytes} {n : Nat} {ev : Ev}
    (h : stepImage cfg d t buf = .ok (n, ev, d')) : d'.readyFdat = d.readyFdat := by
  unfold stepImage at h
  simp only at h
  split at h
  · cases h
  · cases h; rfl

theorem stepParse_readyFdat {cfg : Cfg} {d d' : Dec} {t : ChunkType} {n : Nat} {ev : Ev}
    (h : stepParse cfg d t = .ok (n, ev, d')) (h0 : d.readyFdat = false) (h1 : d'.readyFdat = true) :
    t = fcTL ∧ d.remaining = 0 ∧ ∃ fc, ev = .frameControl fc := by
  unfold stepParse at h
  split at h
  · rename_i hrem
    cases hp : parseChunk cfg d t with
    | error e => rw [hp] at h; cases h
    | ok r =>
      rw [hp] at h; obtain ⟨ev1, d1⟩ := r
      simp only [Except.map] at h
      cases h
      by_cases ht : t = fcTL
      · subst ht
        obtain ⟨fc, _, _, _, _, _, _, _, _, _, _, hev⟩ := (parseFctl_ok_iff _ _ _).mp (parseChunk_fcTL hp)
        exact ⟨rfl, hrem, fc, hev⟩
      · have := (parseChunk_frameZ hp ht).readyFdat
        rw [this] at h1
        simp only [Dec.atCrc] at h1
        rw [h0] at h1; cases h1
  · exfalso
    cases hp : reserveCurrentChunk d with
    | error e => rw [hp] at h; cases h
    | ok d1 =>
      rw [hp] at h
      simp only [Except.map] at h
      cases h
      obtain ⟨r, _, _, rfl, _⟩ := reserveCurrentChunk_shape hp
      simp only at h1
      rw [h0] at h1; cases h1

/-- **`ready_for_fdat_chunks` becomes true only in `parse_fctl`** -/
theorem nextState_readyFdat {cfg : Cfg} {d d' : Dec} {st : St} {buf : Bytes} {n : Nat} {ev : Ev}
    (h : nextState cfg d st buf = .ok (n, ev, d')) (h0 : d.readyFdat = false) (h1 : d'.readyFdat = true) :
    st = .parseChunkData fcTL ∧ d.remaining = 0 ∧ ∃ fc, ev = .frameControl fc := by
  unfold nextState at h
  simp only at h
  cases st with
  | u32 kind acc => have := stepU32_readyFdat h h1; simp only at this; rw [h0] at this; cases this
  | readChunkData t => have := stepRead_readyFdat h; simp only at this; rw [h0, h1] at this; cases this
  | imageData t => have := stepImage_readyFdat h; simp only at this; rw [h0, h1] at this; cases this
  | parseChunkData t =>
    obtain ⟨rfl, hr, hev⟩ := stepParse_readyFdat h h0 h1
    exact ⟨rfl, hr, hev⟩


/-! ## Part 5: metadata parsers (C16) — readers versus encoders -/

theorem rdU32s_encode (vs : List Nat) (h : ∀ v ∈ vs, v < 2 ^ 32) (rest : Bytes) :
    rdU32s vs.length (vs.flatMap be32Bytes ++ rest) = some (vs, rest) := by
  induction vs with
  | nil => rfl
  | cons v vs ih =>
    simp only [List.length_cons, List.flatMap_cons, List.append_assoc, rdU32s,
      rdU32_be32Bytes (h v (List.mem_cons_self ..)), bind, Option.bind,
      ih (fun x hx => h x (List.mem_cons_of_mem _ hx)), pure]

theorem rdU16s_encode (vs : List Nat) (h : ∀ v ∈ vs, v < 2 ^ 16) (rest : Bytes) :
    rdU16s vs.length (vs.flatMap be16Bytes ++ rest) = some (vs, rest) := by
  induction vs with
  | nil => rfl
  | cons v vs ih =>
    simp only [List.length_cons, List.flatMap_cons, List.append_assoc, rdU16s,
      rdU16_be16Bytes (h v (List.mem_cons_self ..)), bind, Option.bind,
      ih (fun x hx => h x (List.mem_cons_of_mem _ hx)), pure]

/-- the first NUL of `kw ++ 0 :: v` is right after `kw` when `kw` has none -/
theorem findIdx_nul (kw v : Bytes) (h : ∀ b ∈ kw, b ≠ 0) : (kw ++ 0 :: v).findIdx? (· = 0) = some kw.length := by
  induction kw with
  | nil => simp [List.findIdx?_cons]
  | cons b kw ih =>
    have hb : b ≠ 0 := h b (List.mem_cons_self ..)
    simp only [List.cons_append, List.findIdx?_cons, decide_eq_true_eq, hb, if_false,
      ih (fun x hx => h x (List.mem_cons_of_mem _ hx)), Option.map_some, List.length_cons]

/-- a legal keyword: 1 to 79 bytes, no NUL -/
def KeywordOk (kw : Bytes) : Prop := 1 ≤ kw.length ∧ kw.length ≤ 79 ∧ ∀ b ∈ kw, b ≠ 0

theorem splitKeyword_encode (kw v : Bytes) (h : KeywordOk kw) : splitKeyword (kw ++ 0 :: v) = .ok (kw, v) := by
  obtain ⟨h1, h2, h3⟩ := h
  unfold splitKeyword
  rw [findIdx_nul kw v h3]
  simp only
  rw [if_neg (by omega)]
  simp

/-- no NUL at all: `MissingNullSeparator` -/
theorem splitKeyword_no_nul (b : Bytes) (h : ∀ x ∈ b, x ≠ 0) : splitKeyword b = .error (.format "MissingNullSeparator") := by
  unfold splitKeyword
  have : b.findIdx? (· = 0) = none := by
    rw [List.findIdx?_eq_none_iff]
    intro x hx; simpa using h x hx
  rw [this]

theorem iccpName_encode (name rest : Bytes) (h3 : ∀ b ∈ name, b ≠ 0) :
    ∀ (fuel len : Nat), name.length < fuel → len + name.length ≤ 79 → 1 ≤ len + name.length →
      iccpName fuel len (name ++ 0 :: rest) = .ok rest := by
  induction name with
  | nil =>
    intro fuel len hf h1 h2
    cases fuel with
    | zero => simp at hf
    | succ fuel =>
      simp only [List.nil_append, iccpName, List.length_nil, Nat.add_zero] at h1 h2 ⊢
      rw [if_neg (by simp; omega)]
      simp
  | cons b name ih =>
    intro fuel len hf h1 h2
    have hb : b ≠ 0 := h3 b (List.mem_cons_self ..)
    cases fuel with
    | zero => simp at hf
    | succ fuel =>
      simp only [List.cons_append, iccpName, List.length_cons] at hf h1 h2 ⊢
      rw [if_neg (by simp [hb]; omega), if_neg hb, if_neg (by omega)]
      exact ih (fun x hx => h3 x (List.mem_cons_of_mem _ hx)) fuel (len + 1) (by omega) (by omega) (by omega)


theorem reserve_ok (d : Dec) (n : Nat) (h : n ≤ d.limit) : reserve d n = .ok { d with limit := d.limit - n } := by
  unfold reserve; rw [if_pos h]

theorem benignResidue_of_not_charged {d : Dec} {t : ChunkType} (h : benignCharged d t = false) :
    benignResidue d t = d := by
  unfold benignResidue; rw [h]; rfl

theorem benignCharged_other (d : Dec) {t : ChunkType} (h1 : t ≠ sBIT) (h2 : t ≠ tRNS) : benignCharged d t = false := by
  unfold benignCharged; split
  · rw [if_neg h1, if_neg h2]
  · rfl

theorem parseIccpRaw_encode (cfg : Cfg) (d : Dec) (name z profile : Bytes) (hk : KeywordOk name)
    (hz : cfg.inflateBounded z d.limit = .ok profile) (hlim : profile.length ≤ d.limit)
    (hraw : d.raw = name ++ 0 :: 0 :: z) :
    parseIccpRaw cfg d =
      .ok (setInfo { d with limit := d.limit - profile.length } (fun i => { i with icc := some profile })) := by
  obtain ⟨h1, h2, h3⟩ := hk
  have hn : iccpName 82 0 d.raw = .ok (0 :: z) := by
    rw [hraw]; exact iccpName_encode name (0 :: z) h3 82 0 (by omega) (by omega) (by omega)
  unfold parseIccpRaw
  rw [hn]
  simp only [bind, Except.bind, eofOr, rdU8, UInt8.toNat_zero, ne_eq, not_true, if_false, pure, Except.pure, hz,
    reserve_ok d _ hlim]

/-! ## Part 6: the `Limits` ledger (C06) -/

def optLen (o : Option Bytes) : Nat := match o with | some b => b.length | none => 0

/-- logical size of a stored text chunk: the bytes of its fields -/
def TextChunk.size : TextChunk → Nat
  | .tEXt k t => k.length + t.length
  | .zTXt k c => k.length + c.length
  | .iTXt k _ l tr tx => k.length + l.length + tr.length + tx.length

/-- the `Info` blobs whose copies are charged to `Limits`: PLTE, tRNS, sBIT, ICC profile, text chunks -/
def Info.paidBlobs (i : Info) : Nat :=
  optLen i.palette + optLen i.trns + optLen i.sbit + optLen i.icc + (i.text.map TextChunk.size).sum

/-- the `Info` blobs that are copied without being charged: eXIf, bKGD -/
def Info.unpaidBlobs (i : Info) : Nat := optLen i.exif + optLen i.bkgd

def paidOf (d : Dec) : Nat := match d.info with | some i => i.paidBlobs | none => 0
def exifLen (d : Dec) : Nat := match d.info with | some i => optLen i.exif | none => 0
def bkgdLen (d : Dec) : Nat := match d.info with | some i => optLen i.bkgd | none => 0

/-- **What the framing layer holds** that grows with the input: the chunk buffer (capacity) and every blob
    kept in `Info`.  (The inflater window and the unfiltering buffer belong to other layers and are bounded
    separately: `C01.zlib_window_bounded`.) -/
def held (d : Dec) : Nat := d.cap + paidOf d + exifLen d + bkgdLen d

/-- what a chunk parser may do to the ledger: paid blobs grow by at most what is charged; an eXIf copy is
    at most the chunk body, a bKGD copy at most 6 bytes -/
structure LedgerStep (d d' : Dec) : Prop where
  paid : paidOf d' + d'.limit ≤ paidOf d + d.limit
  exif : exifLen d' ≤ max (exifLen d) d.raw.length
  bkgd : bkgdLen d' ≤ max (bkgdLen d) 6

theorem LedgerStep.refl (d : Dec) : LedgerStep d d := ⟨Nat.le_refl _, Nat.le_max_left _ _, Nat.le_max_left _ _⟩

/-- `info` updated by `f`, `n` bytes charged -/
theorem LedgerStep.of_set (d : Dec) (n : Nat) (hn : n ≤ d.limit) (f : Info → Info)
    (hf : ∀ i, d.info = some i → (f i).paidBlobs ≤ i.paidBlobs + n ∧
      optLen (f i).exif ≤ max (optLen i.exif) d.raw.length ∧ optLen (f i).bkgd ≤ max (optLen i.bkgd) 6) :
    LedgerStep d (setInfo { d with limit := d.limit - n } f) := by
  cases hi : d.info with
  | none =>
    refine ⟨?_, ?_, ?_⟩
    · simp only [paidOf, setInfo, hi, Option.map_none]; omega
    · simp only [exifLen, setInfo, hi, Option.map_none]; omega
    · simp only [bkgdLen, setInfo, hi, Option.map_none]; omega
  | some i =>
    obtain ⟨h1, h2, h3⟩ := hf i hi
    refine ⟨?_, ?_, ?_⟩
    · simp only [paidOf, setInfo, hi, Option.map_some]; omega
    · simp only [exifLen, setInfo, hi, Option.map_some]; exact h2
    · simp only [bkgdLen, setInfo, hi, Option.map_some]; exact h3

/-- `info` updated by `f`, nothing charged -/
theorem LedgerStep.of_set0 (d : Dec) (f : Info → Info)
    (hf : ∀ i, d.info = some i → (f i).paidBlobs ≤ i.paidBlobs ∧
      optLen (f i).exif ≤ max (optLen i.exif) d.raw.length ∧ optLen (f i).bkgd ≤ max (optLen i.bkgd) 6) :
    LedgerStep d (setInfo d f) := by
  have := LedgerStep.of_set d 0 (Nat.zero_le _) f (fun i hi => by simpa using hf i hi)
  simpa using this

macro "parser_ledger" h:ident : tactic => `(tactic| (
  simp only [bind, Except.bind, eofOr, pure, Except.pure, throw, throwThe, MonadExceptOf.throw, withInfo] at $h:ident
  repeat' split at $h:ident
  all_goals first
    | (cases $h:ident; done)
    | (cases $h:ident; exact LedgerStep.refl _)
    | (cases $h:ident; exact LedgerStep.of_set0 _ _ (fun _ _ => ⟨Nat.le_refl _, Nat.le_max_left _ _, Nat.le_max_left _ _⟩))))

theorem parseActl_ledger {d d' : Dec} {ev : Ev} (h : parseActl d = .ok (d', ev)) : LedgerStep d d' := by
  unfold parseActl at h; parser_ledger h
theorem parsePhys_ledger {d d' : Dec} {ev : Ev} (h : parsePhys d = .ok (d', ev)) : LedgerStep d d' := by
  unfold parsePhys at h; parser_ledger h
theorem parseChrm_ledger {d d' : Dec} {ev : Ev} (h : parseChrm d = .ok (d', ev)) : LedgerStep d d' := by
  unfold parseChrm at h; parser_ledger h
theorem parseGama_ledger {d d' : Dec} {ev : Ev} (h : parseGama d = .ok (d', ev)) : LedgerStep d d' := by
  unfold parseGama at h; parser_ledger h
theorem parseSrgb_ledger {d d' : Dec} {ev : Ev} (h : parseSrgb d = .ok (d', ev)) : LedgerStep d d' := by
  unfold parseSrgb at h; parser_ledger h
theorem parseCicp_ledger {d d' : Dec} {ev : Ev} (h : parseCicp d = .ok (d', ev)) : LedgerStep d d' := by
  unfold parseCicp at h; parser_ledger h
theorem parseMdcv_ledger {d d' : Dec} {ev : Ev} (h : parseMdcv d = .ok (d', ev)) : LedgerStep d d' := by
  unfold parseMdcv at h; parser_ledger h
theorem parseClli_ledger {d d' : Dec} {ev : Ev} (h : parseClli d = .ok (d', ev)) : LedgerStep d d' := by
  unfold parseClli at h; parser_ledger h


theorem parseIhdr_ledger {d d' : Dec} {ev : Ev} (h : parseIhdr d = .ok (d', ev)) : LedgerStep d d' := by
  obtain ⟨hi, _, w, hh, dp, co, il, rfl, _⟩ := parseIhdr_shape h
  refine ⟨?_, ?_, ?_⟩
  · simp [paidOf, hi, Info.paidBlobs, optLen]
  · simp [exifLen, optLen]
  · simp [bkgdLen, optLen]

theorem parseFctl_ledger {d d' : Dec} {ev : Ev} (h : parseFctl d = .ok (d', ev)) : LedgerStep d d' := by
  obtain ⟨fc, i, _, hi, _, _, _, _, _, _, rfl, _⟩ := (parseFctl_ok_iff d d' ev).mp h
  refine ⟨?_, ?_, ?_⟩
  · simp [paidOf, fctlDone, setInfo, hi, Info.paidBlobs]
  · simp only [exifLen, fctlDone, setInfo, hi, Option.map_some]; exact Nat.le_max_left _ _
  · simp only [bkgdLen, fctlDone, setInfo, hi, Option.map_some]; exact Nat.le_max_left _ _

/-- closes a success branch of a parser that charged `raw.len()` and then stored a blob -/
macro "ledger_charged" h:ident : tactic => `(tactic| (
  cases $h:ident
  obtain ⟨hd1, hl⟩ := reserve_eq (by assumption)
  subst hd1
  refine LedgerStep.of_set _ _ hl _ (fun i _ => ⟨?_, Nat.le_max_left _ _, Nat.le_max_left _ _⟩)))

/-- **PLTE is paid**: the palette copy is charged in full -/
theorem parsePlte_ledger {d d' : Dec} {ev : Ev} (h : parsePlte d = .ok (d', ev)) : LedgerStep d d' := by
  unfold parsePlte at h
  simp only [bind, Except.bind, pure, Except.pure, withInfo] at h
  repeat' split at h
  all_goals first
    | (cases h; done)
    | (ledger_charged h
       simp only [Info.paidBlobs, optLen]; omega)

/-- **sBIT is paid** -/
theorem parseSbit_ledger {d d' : Dec} {ev : Ev} (h : parseSbit d = .ok (d', ev)) : LedgerStep d d' := by
  unfold parseSbit at h
  simp only [bind, Except.bind, pure, Except.pure, throw, throwThe, MonadExceptOf.throw, withInfo] at h
  repeat' split at h
  all_goals first
    | (cases h; done)
    | (ledger_charged h
       simp only [Info.paidBlobs, optLen]; omega)

/-- **tRNS is paid**: what is stored is the body or a few of its bytes -/
theorem parseTrns_ledger {d d' : Dec} {ev : Ev} (h : parseTrns d = .ok (d', ev)) : LedgerStep d d' := by
  unfold parseTrns at h
  simp only [bind, Except.bind, pure, Except.pure, throw, throwThe, MonadExceptOf.throw, withInfo] at h
  repeat' split at h
  all_goals first
    | (cases h; done)
    | (ledger_charged h
       simp only [Info.paidBlobs, optLen, List.length_cons, List.length_nil] at *; omega)


theorem findIdx_lt {b : Bytes} {k : Nat} (h : b.findIdx? (· = 0) = some k) : k < b.length := by
  have := (List.findIdx?_eq_some_iff_getElem.mp h)
  exact this.1

theorem splitKeyword_ok_len {b : Bytes} {kv : Bytes × Bytes} (h : splitKeyword b = .ok kv) :
    kv.1.length + kv.2.length + 1 ≤ b.length := by
  unfold splitKeyword at h
  split at h
  · cases h
  · rename_i n hn
    split at h
    · cases h
    · cases h
      have := findIdx_lt hn
      simp only [List.length_take, List.length_drop]; omega

theorem textSum_append (l : List TextChunk) (t : TextChunk) :
    ((l ++ [t]).map TextChunk.size).sum = (l.map TextChunk.size).sum + t.size := by
  simp

/-- closes a success branch of a text parser: `raw.len()` was charged, one text chunk of size `≤ raw.len()` appended -/
macro "ledger_text" h:ident : tactic => `(tactic| (
  cases $h:ident
  obtain ⟨hd1, hl⟩ := reserve_eq (by assumption)
  subst hd1
  refine LedgerStep.of_set _ _ hl _ (fun i _ => ⟨?_, Nat.le_max_left _ _, Nat.le_max_left _ _⟩)
  simp only [Info.paidBlobs, textSum_append, TextChunk.size]))

/-- **tEXt is paid** -/
theorem parseText_ledger {d d' : Dec} {ev : Ev} (h : parseText d = .ok (d', ev)) : LedgerStep d d' := by
  unfold parseText at h
  simp only [bind, Except.bind, withInfo] at h
  repeat' split at h
  all_goals first
    | (cases h; done)
    | (ledger_text h
       have := splitKeyword_ok_len (by assumption)
       simp only at this
       omega)


/-- **zTXt is paid** -/
theorem parseZtxt_ledger {d d' : Dec} {ev : Ev} (h : parseZtxt d = .ok (d', ev)) : LedgerStep d d' := by
  unfold parseZtxt at h
  simp only [bind, Except.bind, withInfo, throw, throwThe, MonadExceptOf.throw] at h
  repeat' split at h
  all_goals first
    | (cases h; done)
    | (ledger_text h
       have := splitKeyword_ok_len (by assumption)
       simp_all only [List.length_cons]
       omega)

/-- **iTXt is paid** -/
theorem parseItxt_ledger {cfg : Cfg} {d d' : Dec} {ev : Ev} (h : parseItxt cfg d = .ok (d', ev)) : LedgerStep d d' := by
  unfold parseItxt at h
  simp only [bind, Except.bind, withInfo, throw, throwThe, MonadExceptOf.throw] at h
  repeat' split at h
  all_goals first
    | (cases h; done)
    | (rename_i _ d1 hr _ kv hk _ flag method rest hv _ e1 he1 _ e2 he2 c1 c2 c3 c4 c5 _ i hi
       have hlen := congrArg List.length hv
       have h1 := splitKeyword_ok_len hk
       ledger_text h
       simp only [List.length_cons, List.length_take, List.length_drop] at *
       omega)


theorem parseIccpRaw_ledger {cfg : Cfg} {d d' : Dec} (h : parseIccpRaw cfg d = .ok d') : LedgerStep d d' := by
  unfold parseIccpRaw at h
  simp only [bind, Except.bind, eofOr, pure, Except.pure, throw, throwThe, MonadExceptOf.throw] at h
  repeat' split at h
  all_goals first
    | (cases h; done)
    | (ledger_charged h
       simp only [Info.paidBlobs, optLen]; omega)

/-- **iCCP is paid**: the decompressed profile is charged in full (and its decompression is bounded by the
    remaining budget: `cfg.inflateBounded … d.limit`) -/
theorem parseIccp_ledger {cfg : Cfg} {d d' : Dec} {ev : Ev} (h : parseIccp cfg d = .ok (d', ev)) : LedgerStep d d' := by
  unfold parseIccp at h
  have h0 : ∀ x : Dec, LedgerStep { d with haveIccp := true } x → LedgerStep d x := fun x hx => ⟨hx.paid, hx.exif, hx.bkgd⟩
  simp only at h
  repeat' split at h
  all_goals first
    | (cases h; done)
    | (cases h; exact LedgerStep.refl _)
    | (cases h; exact h0 _ (LedgerStep.refl _))
    | (cases h; exact h0 _ (parseIccpRaw_ledger (by assumption)))

/-- **eXIf is NOT paid, but bounded**: the copy is the chunk body, kept at most once -/
theorem parseExif_ledger {d d' : Dec} {ev : Ev} (h : parseExif d = .ok (d', ev)) : LedgerStep d d' := by
  unfold parseExif at h
  simp only [withInfo] at h
  repeat' split at h
  all_goals first
    | (cases h; done)
    | (cases h; exact LedgerStep.refl _)
    | (cases h
       refine LedgerStep.of_set0 _ _ (fun i _ => ⟨Nat.le_refl _, ?_, Nat.le_max_left _ _⟩)
       simp only [optLen]; exact Nat.le_max_right _ _)

/-- **bKGD is NOT paid, but at most 6 bytes**, kept at most once -/
theorem parseBkgd_ledger {d d' : Dec} {ev : Ev} (h : parseBkgd d = .ok (d', ev)) : LedgerStep d d' := by
  unfold parseBkgd at h
  simp only [withInfo] at h
  repeat' split at h
  all_goals first
    | (cases h; done)
    | (cases h; exact LedgerStep.refl _)
    | (cases h
       refine LedgerStep.of_set0 _ _ (fun i _ => ⟨Nat.le_refl _, Nat.le_max_left _ _, ?_⟩)
       simp only [optLen]
       rename_i _ ee hexp hlen _
       have : d.raw.length ≤ 6 := by
         rw [hlen]
         repeat' split at hexp
         all_goals first | (cases hexp; done) | (cases hexp; omega)
       omega)


local macro "dled" h:ident c:term "," l:term : tactic =>
  `(tactic| (by_cases hc : $c; (· rw [if_pos hc] at $h:ident; exact $l $h:ident); rw [if_neg hc] at $h:ident))

theorem dispatch_ledger {cfg : Cfg} {d d' : Dec} {t : ChunkType} {ev : Ev} (h : dispatch cfg d t = .ok (d', ev)) :
    LedgerStep d d' := by
  unfold dispatch at h
  dled h (t = IHDR), parseIhdr_ledger
  dled h (t = sBIT), parseSbit_ledger
  dled h (t = PLTE), parsePlte_ledger
  dled h (t = tRNS), parseTrns_ledger
  dled h (t = pHYs), parsePhys_ledger
  dled h (t = gAMA), parseGama_ledger
  dled h (t = acTL), parseActl_ledger
  dled h (t = fcTL), parseFctl_ledger
  dled h (t = cHRM), parseChrm_ledger
  dled h (t = sRGB), parseSrgb_ledger
  dled h (t = cICP), parseCicp_ledger
  dled h (t = mDCV), parseMdcv_ledger
  dled h (t = cLLI), parseClli_ledger
  dled h (t = eXIf), parseExif_ledger
  dled h (t = bKGD), parseBkgd_ledger
  dled h (t = iCCP ∧ (!d.opts.ignoreIccp) = true), parseIccp_ledger
  dled h (t = tEXt ∧ (!d.opts.ignoreText) = true), parseText_ledger
  dled h (t = zTXt ∧ (!d.opts.ignoreText) = true), parseZtxt_ledger
  dled h (t = iTXt ∧ (!d.opts.ignoreText) = true), parseItxt_ledger
  cases h; exact LedgerStep.refl _

theorem parseChunk_ledger {cfg : Cfg} {d d' : Dec} {t : ChunkType} {ev : Ev} (h : parseChunk cfg d t = .ok (ev, d')) :
    LedgerStep (d.atCrc t) d' := by
  rcases parseChunk_cases h with h | ⟨e, _, _, _, _, rfl⟩
  · exact dispatch_ledger h
  · have hi := benignResidue_info (d.atCrc t) t
    have hf := (benignResidue_frame (d.atCrc t) t).limit
    refine ⟨?_, ?_, ?_⟩
    · simp only [paidOf, hi]; omega
    · simp only [exifLen, hi]; exact Nat.le_max_left _ _
    · simp only [bkgdLen, hi]; exact Nat.le_max_left _ _

/-- **The ledger invariant**, for a decoder created with `Limits { bytes: L }` -/
structure LedgerInv (L : Nat) (d : Dec) : Prop where
  rawFits : d.raw.length ≤ d.cap
  limit : d.limit ≤ L
  /-- chunk buffer beyond its initial size + paid blobs ≤ what was charged -/
  paid : d.cap + paidOf d + d.limit ≤ Params.chunkBufferSize + L
  exif : exifLen d ≤ d.cap
  bkgd : bkgdLen d ≤ 6

theorem ledgerInv_new (opts : Options) (L : Nat) : LedgerInv L { Dec.new opts with limit := L } :=
  ⟨by simp [Dec.new], Nat.le_refl _, by simp [Dec.new, paidOf], by simp [Dec.new, exifLen], by simp [Dec.new, bkgdLen]⟩

/-- steps that leave `info` alone -/
theorem LedgerInv.of_info_eq {L : Nat} {d d' : Dec} (hinv : LedgerInv L d) (hs : StepFrame d d')
    (hi : d'.info = d.info) (hpay : d'.cap + d'.limit ≤ d.cap + d.limit) : LedgerInv L d' := by
  have e1 : paidOf d' = paidOf d := by simp only [paidOf, hi]
  have e2 : exifLen d' = exifLen d := by simp only [exifLen, hi]
  have e3 : bkgdLen d' = bkgdLen d := by simp only [bkgdLen, hi]
  have := hs.cap; have := hs.limit
  exact ⟨(hs.paid hinv.rawFits).1, Nat.le_trans hs.limit hinv.limit, by have := hinv.paid; omega,
    by have := hinv.exif; omega, by have := hinv.bkgd; omega⟩

theorem parseU32_info {cfg : Cfg} {d d' : Dec} {kind : U32Kind} {b0 b1 b2 b3 : UInt8} {ev : Ev}
    (hp : parseU32 cfg d kind b0 b1 b2 b3 = .ok (ev, d')) : d'.info = d.info ∧ d'.cap = d.cap ∧ d'.limit = d.limit := by
  cases kind with
  | sig1 => rw [parseU32_sig1] at hp; split at hp <;> cases hp; exact ⟨rfl, rfl, rfl⟩
  | sig2 => rw [parseU32_sig2] at hp; split at hp <;> cases hp; exact ⟨rfl, rfl, rfl⟩
  | length => rw [parseU32_length] at hp; cases hp; exact ⟨rfl, rfl, rfl⟩
  | type len =>
    obtain ⟨_, hc⟩ := parseU32_type_cases hp
    rcases hc with ⟨_, _, d1, hf, rfl⟩ | ⟨_, _, st, d1, ha, rfl⟩
    · obtain ⟨o, rfl, _⟩ := flushData_shape hf; exact ⟨rfl, rfl, rfl⟩
    · rcases afterType_cases ha with ⟨_, _, _, _, rfl⟩ | ⟨_, _, _, rfl⟩ | ⟨_, _, _, rfl⟩ <;> exact ⟨rfl, rfl, rfl⟩
  | crc t =>
    rw [parseU32_crc] at hp
    repeat' split at hp
    all_goals first | (cases hp; done) | (cases hp; exact ⟨rfl, rfl, rfl⟩)
  | seqNo =>
    rw [parseU32_seqNo] at hp
    repeat' split at hp
    all_goals first | (cases hp; done) | (cases hp; exact ⟨rfl, rfl, rfl⟩)

theorem stepU32_info {cfg : Cfg} {d d' : Dec} {kind : U32Kind} {acc buf : Bytes} {n : Nat} {ev : Ev}
    (h : stepU32 cfg d kind acc buf = .ok (n, ev, d')) : d'.info = d.info ∧ d'.cap = d.cap ∧ d'.limit = d.limit := by
  unfold stepU32 at h
  split at h
  · obtain ⟨_, _, _, _, _, _, _, hp⟩ := parse4_ok h; exact parseU32_info hp
  · simp only at h
    split at h
    · cases h; exact ⟨rfl, rfl, rfl⟩
    · obtain ⟨_, _, _, _, _, _, _, hp⟩ := parse4_ok h; exact parseU32_info hp

theorem stepRead_info {d d' : Dec} {t : ChunkType} {buf : Bytes} {n : Nat} {ev : Ev}
    (h : stepRead d t buf = .ok (n, ev, d')) : d'.info = d.info ∧ d'.cap = d.cap ∧ d'.limit = d.limit := by
  unfold stepRead at h
  split at h
  · cases h; exact ⟨rfl, rfl, rfl⟩
  · simp only at h
    split at h
    · cases h; exact ⟨rfl, rfl, rfl⟩
    · cases h; exact ⟨rfl, rfl, rfl⟩

theorem stepImage_info {cfg : Cfg} {d d' : Dec} {t : ChunkType} {buf : Bytes} {n : Nat} {ev : Ev}
    (h : stepImage cfg d t buf = .ok (n, ev, d')) : d'.info = d.info ∧ d'.cap = d.cap ∧ d'.limit = d.limit := by
  unfold stepImage at h
  simp only at h
  split at h
  · cases h
  · cases h; exact ⟨rfl, rfl, rfl⟩

theorem stepParse_ledgerInv {cfg : Cfg} {L : Nat} {d d' : Dec} {t : ChunkType} {n : Nat} {ev : Ev}
    (hinv : LedgerInv L d) (h : stepParse cfg d t = .ok (n, ev, d')) : LedgerInv L d' := by
  have hs := stepParse_stepFrame h
  unfold stepParse at h
  split at h
  · cases hp : parseChunk cfg d t with
    | error e => rw [hp] at h; cases h
    | ok r =>
      rw [hp] at h; obtain ⟨ev1, d1⟩ := r
      simp only [Except.map] at h
      cases h
      have hf := parseChunk_frame hp
      have hl := parseChunk_ledger hp
      have h1 := hl.paid; have h2 := hl.exif; have h3 := hl.bkgd
      have e1 : paidOf (d.atCrc t) = paidOf d := rfl
      have e2 : exifLen (d.atCrc t) = exifLen d := rfl
      have e3 : bkgdLen (d.atCrc t) = bkgdLen d := rfl
      have e4 : (d.atCrc t).limit = d.limit := rfl
      have e5 : (d.atCrc t).raw = d.raw := rfl
      have e6 : (d.atCrc t).cap = d.cap := rfl
      rw [e1, e4] at h1; rw [e2, e5] at h2; rw [e3] at h3
      have hcap := hf.cap; rw [e6] at hcap
      have hraw := hf.raw; rw [e5] at hraw
      have := hinv.paid; have := hinv.exif; have := hinv.bkgd; have := hinv.rawFits; have := hinv.limit
      have := hs.limit
      refine ⟨by rw [hraw, hcap]; exact hinv.rawFits, by omega, by rw [hcap]; omega, by rw [hcap]; omega, by omega⟩
  · cases hp : reserveCurrentChunk d with
    | error e => rw [hp] at h; cases h
    | ok d1 =>
      rw [hp] at h
      simp only [Except.map] at h
      cases h
      obtain ⟨r, hr, hle, rfl, hlt⟩ := reserveCurrentChunk_shape hp
      refine LedgerInv.of_info_eq hinv hs rfl ?_
      have := hinv.rawFits
      simp only
      omega

/-- **The ledger invariant is preserved by every step** -/
theorem nextState_ledgerInv {cfg : Cfg} {L : Nat} {d d' : Dec} {st : St} {buf : Bytes} {n : Nat} {ev : Ev}
    (hinv : LedgerInv L d) (h : nextState cfg d st buf = .ok (n, ev, d')) : LedgerInv L d' := by
  have hs := nextState_stepFrame h
  unfold nextState at h
  simp only at h
  have hinv0 : LedgerInv L { d with state := none } := ⟨hinv.rawFits, hinv.limit, hinv.paid, hinv.exif, hinv.bkgd⟩
  cases st with
  | u32 kind acc =>
    obtain ⟨h1, h2, h3⟩ := stepU32_info h
    exact hinv.of_info_eq hs h1 (by rw [h2, h3]; exact Nat.le_refl _)
  | parseChunkData t => exact stepParse_ledgerInv hinv0 h
  | readChunkData t =>
    obtain ⟨h1, h2, h3⟩ := stepRead_info h
    exact hinv.of_info_eq hs h1 (by rw [h2, h3]; exact Nat.le_refl _)
  | imageData t =>
    obtain ⟨h1, h2, h3⟩ := stepImage_info h
    exact hinv.of_info_eq hs h1 (by rw [h2, h3]; exact Nat.le_refl _)

theorem run_ledgerInv (cfg : Cfg) (L : Nat) : ∀ (f : Nat) (d : Dec) (buf : Bytes), LedgerInv L d →
    LedgerInv L (run cfg f d buf).1 := by
  intro f
  induction f with
  | zero => intro d buf h; exact h
  | succ f ih =>
    intro d buf hinv
    unfold run
    split
    · exact hinv
    · split
      · exact hinv
      · split
        · exact ⟨hinv.rawFits, hinv.limit, hinv.paid, hinv.exif, hinv.bkgd⟩
        · rename_i n ev d' hn
          exact ih d' _ (nextState_ledgerInv hinv hn)

/-- what the invariant says about `held`: slope 2, constant `2·CHUNK_BUFFER_SIZE + 6` -/
theorem held_le_of_ledgerInv {L : Nat} {d : Dec} (h : LedgerInv L d) :
    held d ≤ 2 * (Params.chunkBufferSize + (L - d.limit)) + 6 := by
  have := h.paid; have := h.exif; have := h.bkgd; have := h.limit
  unfold held
  omega

/-! ## Part 7: the chunk-kind automaton (C10 `automaton_sound`) -/

/-- which kind of data-chunk sequence a chunk type belongs to -/
inductive DataKind | none | idat | fdat
deriving DecidableEq, Repr

def kindOf (t : ChunkType) : DataKind := if t = IDAT then .idat else if t = fdAT then .fdat else .none

/-- the chunk-kind-level state of the decoder -/
structure K where
  /-- an IHDR was parsed -/
  infoSet : Bool
  /-- a PLTE was parsed -/
  havePlte : Bool
  haveIdat : Bool
  readyIdat : Bool
  readyFdat : Bool
  /-- the data-chunk sequence the current chunk belongs to -/
  inData : DataKind
deriving DecidableEq, Repr

def proj (d : Dec) : K :=
  { infoSet := d.info.isSome, havePlte := (d.info.bind (·.palette)).isSome, haveIdat := d.haveIdat,
    readyIdat := d.readyIdat, readyFdat := d.readyFdat, inData := kindOf d.curType }

/-- chunk-level actions -/
inductive Label
  | tau                      -- everything else: no effect on `K`
  | begin (t : ChunkType)    -- `ChunkBegin`: the chunk type `t` was accepted
  | flush (t : ChunkType)    -- `ImageDataFlushed`: the type `t` ended a data-chunk sequence (and is parsed again)
  | parsed (t : ChunkType)   -- `parse_chunk(t)` returned `Ok` for the complete body (of any length, 0 included)
deriving DecidableEq, Repr

/-- **The reference automaton.**  It encodes only the ordering rules C10 lists: IHDR first and once, at most
    one PLTE, IDATs consecutive, an fdAT run needs an fcTL since the previous data run. -/
def KTrans (k : K) : Label → K → Prop
  | .tau, k' => k' = k
  | .begin t, k' =>
    (k.infoSet = true ∨ t = IHDR) ∧ (k.inData = .none ∨ kindOf t = k.inData) ∧
    (t = IDAT → k.readyIdat = true) ∧ (t = fdAT → k.readyFdat = true) ∧
    k' = { k with inData := kindOf t, haveIdat := k.haveIdat || decide (t = IDAT ∨ t = fdAT) }
  | .flush t, k' =>
    k.inData ≠ .none ∧ kindOf t ≠ k.inData ∧
    k' = { k with readyIdat := false, readyFdat := false, inData := kindOf t }
  | .parsed t, k' =>
    if t = IHDR then k.infoSet = false ∧ k' = { k with infoSet := true, havePlte := false }
    else if t = PLTE then k.infoSet = true ∧ k.havePlte = false ∧ k' = { k with havePlte := true }
    else if t = fcTL then k.infoSet = true ∧ k' = { k with readyFdat := true }
    else k' = k

/-- the action a `next_state` call performs -/
def labelOf (d : Dec) (st : St) (ev : Ev) (d' : Dec) : Label :=
  match st with
  | .parseChunkData t => if d.remaining = 0 then .parsed t else .tau
  | .u32 (.type _) _ =>
    (match ev with
     | .chunkBegin _ t => .begin t
     | .imageDataFlushed => .flush d'.curType
     | _ => .tau)
  | _ => .tau

theorem proj_eq {d d' : Dec} (h1 : d'.info.isSome = d.info.isSome)
    (h2 : d'.info.bind (·.palette) = d.info.bind (·.palette)) (h3 : d'.haveIdat = d.haveIdat)
    (h4 : d'.readyIdat = d.readyIdat) (h5 : d'.readyFdat = d.readyFdat) (h6 : d'.curType = d.curType) :
    proj d' = proj d := by
  simp only [proj, h1, h2, h3, h4, h5, h6]

theorem kindOf_ne_iff (t c : ChunkType) (hc : c = IDAT ∨ c = fdAT) : kindOf t ≠ kindOf c ↔ t ≠ c := by
  rcases hc with rfl | rfl
  · by_cases h : t = IDAT
    · simp [h]
    · by_cases h2 : t = fdAT
      · subst h2; simp (decide := true)
      · simp [kindOf, h, h2]
  · by_cases h : t = fdAT
    · simp [h]
    · by_cases h2 : t = IDAT
      · subst h2; simp (decide := true)
      · simp (decide := true) [kindOf, h, h2]

theorem kindOf_none_iff (c : ChunkType) : kindOf c = .none ↔ ¬ (c = IDAT ∨ c = fdAT) := by
  unfold kindOf
  by_cases h : c = IDAT
  · simp [h]
  · by_cases h2 : c = fdAT
    · simp (decide := true) [h2]
    · simp [h, h2]

/-- the chunk-type step is a `begin` or a `flush` transition -/
theorem parseU32_type_ktrans {cfg : Cfg} {d d' : Dec} {len : Nat} {b0 b1 b2 b3 : UInt8} {ev : Ev}
    (h : parseU32 cfg d (.type len) b0 b1 b2 b3 = .ok (ev, d')) :
    (ev = .chunkBegin len (be32 b0 b1 b2 b3) ∧ KTrans (proj d) (.begin (be32 b0 b1 b2 b3)) (proj d')) ∨
    (ev = .imageDataFlushed ∧ d'.curType = be32 b0 b1 b2 b3 ∧ KTrans (proj d) (.flush (be32 b0 b1 b2 b3)) (proj d')) := by
  obtain ⟨h0, hc⟩ := parseU32_type_cases h
  generalize be32 b0 b1 b2 b3 = t at *
  rcases hc with ⟨hfl, rfl, d1, hf, rfl⟩ | ⟨hnf, rfl, st, d1, ha, rfl⟩
  · obtain ⟨o, rfl, _⟩ := flushData_shape hf
    refine Or.inr ⟨rfl, rfl, ?_⟩
    obtain ⟨hne, hcur⟩ := hfl
    refine ⟨?_, ?_, rfl⟩
    · show kindOf d.curType ≠ .none
      rw [Ne, kindOf_none_iff]; exact fun hx => hx hcur
    · exact (kindOf_ne_iff t d.curType hcur).mpr hne
  · refine Or.inl ⟨rfl, ?_⟩
    have hdata : (proj d).inData = .none ∨ kindOf t = (proj d).inData := by
      show kindOf d.curType = .none ∨ kindOf t = kindOf d.curType
      by_cases hcur : d.curType = IDAT ∨ d.curType = fdAT
      · right
        have : t = d.curType := Classical.byContradiction fun hne => hnf ⟨hne, hcur⟩
        rw [this]
      · left; exact (kindOf_none_iff _).mpr hcur
    rcases afterType_cases ha with ⟨ht, hr, _, rfl, rfl⟩ | ⟨ht, hr, rfl, rfl⟩ | ⟨h1, h2, rfl, rfl⟩
    · refine ⟨h0, hdata, fun hx => ?_, fun _ => hr, ?_⟩
      · rw [ht] at hx; exact absurd hx (by decide)
      · simp [proj, ht]
    · refine ⟨h0, hdata, fun _ => hr, fun hx => ?_, ?_⟩
      · rw [ht] at hx; exact absurd hx (by decide)
      · simp [proj, ht]
    · refine ⟨h0, hdata, fun hx => absurd hx h2, fun hx => absurd hx h1, ?_⟩
      simp [proj, h1, h2]


theorem ktrans_generic {d d' : Dec} {t : ChunkType} (h1 : t ≠ IHDR) (h2 : t ≠ PLTE) (h3 : t ≠ fcTL) (hf : FrameG d d') :
    KTrans (proj d) (.parsed t) (proj d') := by
  simp only [KTrans, if_neg h1, if_neg h2, if_neg h3]
  exact proj_eq hf.isSome hf.palette hf.haveIdat hf.readyIdat hf.readyFdat hf.curType

theorem dispatch_ktrans {cfg : Cfg} {d d' : Dec} {t : ChunkType} {ev : Ev} (h : dispatch cfg d t = .ok (d', ev)) :
    KTrans (proj d) (.parsed t) (proj d') := by
  rcases dispatch_shape h with ⟨ht, h⟩ | ⟨ht, h⟩ | ⟨ht, h⟩ | ⟨h1, h2, h3, hf⟩
  · obtain ⟨hf, hz, hnone, hsome, hpal⟩ := parseIhdr_frame h
    simp only [KTrans, if_pos ht]
    refine ⟨by simp [proj, hnone], ?_⟩
    simp only [proj, hsome, hpal, hf.haveIdat, hf.readyIdat, hz.readyFdat, hf.curType, hnone]
    rfl
  · obtain ⟨hf, hz, hsome, hpal, hsome', hpal', _⟩ := parsePlte_frame h
    have h1 : t ≠ IHDR := by rw [ht]; decide
    simp only [KTrans, if_neg h1, if_pos ht]
    refine ⟨by simp [proj, hsome], by simp only [proj, hpal]; rfl, ?_⟩
    simp only [proj, hsome, hsome', hpal', hf.haveIdat, hf.readyIdat, hz.readyFdat, hf.curType]
    rfl
  · obtain ⟨hf, hi, hr⟩ := parseFctl_frame h
    obtain ⟨fc, i, _, hinfo, _⟩ := (parseFctl_ok_iff _ _ _).mp h
    have h1 : t ≠ IHDR := by rw [ht]; decide
    have h2 : t ≠ PLTE := by rw [ht]; decide
    simp only [KTrans, if_neg h1, if_neg h2, if_pos ht]
    refine ⟨by simp [proj, hinfo], ?_⟩
    simp only [proj, hi.isSome, hi.palette, hf.haveIdat, hf.readyIdat, hr, hf.curType]
  · exact ktrans_generic h1 h2 h3 hf

/-- a successful `parse_chunk` is a `parsed` transition -/
theorem parseChunk_ktrans {cfg : Cfg} {d d' : Dec} {t : ChunkType} {ev : Ev} (h : parseChunk cfg d t = .ok (ev, d')) :
    KTrans (proj d) (.parsed t) (proj d') := by
  show KTrans (proj (d.atCrc t)) (.parsed t) (proj d')
  rcases parseChunk_cases h with h | ⟨e, _, _, hb, _, rfl⟩
  · exact dispatch_ktrans h
  · obtain ⟨h1, h2, h3⟩ := benign_not_special hb
    exact ktrans_generic h1 h2 h3 (benignResidue_frame _ t)

theorem stepParse_ktrans {cfg : Cfg} {d d' : Dec} {t : ChunkType} {n : Nat} {ev : Ev}
    (h : stepParse cfg d t = .ok (n, ev, d')) :
    KTrans (proj d) (if d.remaining = 0 then .parsed t else .tau) (proj d') := by
  unfold stepParse at h
  split at h
  · rename_i hrem
    rw [if_pos hrem]
    cases hp : parseChunk cfg d t with
    | error e => rw [hp] at h; cases h
    | ok r =>
      rw [hp] at h; obtain ⟨ev1, d1⟩ := r
      simp only [Except.map] at h
      cases h
      exact parseChunk_ktrans hp
  · rename_i hrem
    rw [if_neg hrem]
    cases hp : reserveCurrentChunk d with
    | error e => rw [hp] at h; cases h
    | ok d1 =>
      rw [hp] at h
      simp only [Except.map] at h
      cases h
      obtain ⟨r, _, _, rfl, _⟩ := reserveCurrentChunk_shape hp
      exact rfl

/-- the other arms of `parse_u32` do not touch `K` -/
theorem parseU32_other_proj {cfg : Cfg} {d d' : Dec} {kind : U32Kind} {b0 b1 b2 b3 : UInt8} {ev : Ev}
    (hk : ∀ len, kind ≠ .type len) (hp : parseU32 cfg d kind b0 b1 b2 b3 = .ok (ev, d')) : proj d' = proj d := by
  cases kind with
  | sig1 => rw [parseU32_sig1] at hp; split at hp <;> cases hp; rfl
  | sig2 => rw [parseU32_sig2] at hp; split at hp <;> cases hp; rfl
  | length => rw [parseU32_length] at hp; cases hp; rfl
  | type len => exact absurd rfl (hk len)
  | crc t =>
    rw [parseU32_crc] at hp
    repeat' split at hp
    all_goals first | (cases hp; done) | (cases hp; rfl)
  | seqNo =>
    rw [parseU32_seqNo] at hp
    repeat' split at hp
    all_goals first | (cases hp; done) | (cases hp; rfl)

theorem parseU32_ktrans {cfg : Cfg} {d d' : Dec} {kind : U32Kind} {b0 b1 b2 b3 : UInt8} {ev : Ev} {acc : Bytes}
    (hp : parseU32 cfg d kind b0 b1 b2 b3 = .ok (ev, d')) :
    KTrans (proj d) (labelOf d (.u32 kind acc) ev d') (proj d') := by
  cases kind with
  | type len =>
    rcases parseU32_type_ktrans hp with ⟨rfl, hk⟩ | ⟨rfl, hc, hk⟩
    · exact hk
    · simp only [labelOf, hc]; exact hk
  | sig1 => exact parseU32_other_proj (fun _ => by simp) hp
  | sig2 => exact parseU32_other_proj (fun _ => by simp) hp
  | length => exact parseU32_other_proj (fun _ => by simp) hp
  | crc t => exact parseU32_other_proj (fun _ => by simp) hp
  | seqNo => exact parseU32_other_proj (fun _ => by simp) hp

theorem stepU32_ktrans {cfg : Cfg} {d d' : Dec} {kind : U32Kind} {acc buf : Bytes} {n : Nat} {ev : Ev}
    (h : stepU32 cfg d kind acc buf = .ok (n, ev, d')) :
    KTrans (proj d) (labelOf d (.u32 kind acc) ev d') (proj d') := by
  unfold stepU32 at h
  split at h
  · obtain ⟨_, _, _, _, _, _, _, hp⟩ := parse4_ok h
    exact parseU32_ktrans hp
  · simp only at h
    split at h
    · cases h
      have : ∀ dx, labelOf d (.u32 kind acc) .nothing dx = .tau := by intro dx; cases kind <;> rfl
      rw [this]; exact rfl
    · obtain ⟨_, _, _, _, _, _, _, hp⟩ := parse4_ok h
      exact parseU32_ktrans hp

theorem stepRead_proj {d d' : Dec} {t : ChunkType} {buf : Bytes} {n : Nat} {ev : Ev}
    (h : stepRead d t buf = .ok (n, ev, d')) : proj d' = proj d := by
  unfold stepRead at h
  split at h
  · cases h; rfl
  · simp only at h
    split at h
    · cases h; rfl
    · cases h; rfl

theorem stepImage_proj {cfg : Cfg} {d d' : Dec} {t : ChunkType} {buf : Bytes} {n : Nat} {ev : Ev}
    (h : stepImage cfg d t buf = .ok (n, ev, d')) : proj d' = proj d := by
  unfold stepImage at h
  simp only at h
  split at h
  · cases h
  · cases h; rfl

/-- **Single-step simulation**: every successful `next_state` call is a transition of the reference automaton
    on the projected states, labelled with the action the call performs -/
theorem nextState_ktrans {cfg : Cfg} {d d' : Dec} {st : St} {buf : Bytes} {n : Nat} {ev : Ev}
    (h : nextState cfg d st buf = .ok (n, ev, d')) : KTrans (proj d) (labelOf d st ev d') (proj d') := by
  unfold nextState at h
  simp only at h
  cases st with
  | u32 kind acc =>
    have := stepU32_ktrans (d := { d with state := none }) h
    have hl : labelOf ({ d with state := none } : Dec) (.u32 kind acc) ev d' = labelOf d (.u32 kind acc) ev d' := by
      cases kind <;> rfl
    rw [hl] at this; exact this
  | parseChunkData t => exact stepParse_ktrans (d := { d with state := none }) h
  | readChunkData t => exact stepRead_proj (d := { d with state := none }) h
  | imageData t => exact stepImage_proj (d := { d with state := none }) h


/-! ### runs of the reference automaton and what they guarantee -/

inductive KRun : K → List Label → K → Prop
  | nil (k : K) : KRun k [] k
  | cons {k k1 k2 : K} {l : Label} {ls : List Label} : KTrans k l k1 → KRun k1 ls k2 → KRun k (l :: ls) k2

theorem KRun.append_iff {k k' : K} {l1 l2 : List Label} :
    KRun k (l1 ++ l2) k' ↔ ∃ km, KRun k l1 km ∧ KRun km l2 k' := by
  induction l1 generalizing k with
  | nil =>
    constructor
    · intro h; exact ⟨k, .nil k, h⟩
    · rintro ⟨km, h1, h2⟩; cases h1; exact h2
  | cons a l1 ih =>
    constructor
    · intro h
      cases h with
      | cons ht hr =>
        obtain ⟨km, h1, h2⟩ := ih.mp hr
        exact ⟨km, .cons ht h1, h2⟩
    · rintro ⟨km, h1, h2⟩
      cases h1 with
      | cons ht hr => exact .cons ht (ih.mpr ⟨km, hr, h2⟩)

theorem KRun.single_iff {k k' : K} {l : Label} : KRun k [l] k' ↔ KTrans k l k' := by
  constructor
  · intro h; cases h with | cons ht hr => cases hr; exact ht
  · intro h; exact .cons h (.nil _)

/-- the labels of a run of the model -/
def runL (cfg : Cfg) : Nat → Dec → Bytes → List Label
  | 0, _, _ => []
  | f+1, d, buf =>
    if buf = [] then [] else
    match d.state with
    | none => []
    | some st =>
      match nextState cfg d st buf with
      | .error _ => []
      | .ok (n, ev, d') => labelOf d st ev d' :: runL cfg f d' (buf.drop n)

/-- **Simulation of whole runs**: the actions of any run of the model form a run of the reference automaton -/
theorem run_krun (cfg : Cfg) : ∀ (f : Nat) (d : Dec) (buf : Bytes),
    KRun (proj d) (runL cfg f d buf) (proj (run cfg f d buf).1) := by
  intro f
  induction f with
  | zero => intro d buf; exact .nil _
  | succ f ih =>
    intro d buf
    by_cases hb : buf = []
    · simp only [runL, run, hb, if_true]; exact .nil _
    · cases hs : d.state with
      | none => simp only [runL, run, hb, hs, if_false]; exact .nil _
      | some st =>
        cases hn : nextState cfg d st buf with
        | error e => simp only [runL, run, hb, hs, hn, if_false]; exact .nil _
        | ok r =>
          obtain ⟨n, ev, d'⟩ := r
          simp only [runL, run, hb, hs, hn, if_false]
          exact .cons (nextState_ktrans hn) (ih d' _)

/-! four invariants of the reference automaton -/

theorem KTrans.infoSet_mono {k k' : K} {l : Label} (h : KTrans k l k') (hi : k.infoSet = true) : k'.infoSet = true := by
  cases l with
  | tau => cases h; exact hi
  | «begin» t => obtain ⟨_, _, _, _, rfl⟩ := h; exact hi
  | flush t => obtain ⟨_, _, rfl⟩ := h; exact hi
  | parsed t =>
    simp only [KTrans] at h
    repeat' split at h
    all_goals first | (obtain ⟨_, rfl⟩ := h; rfl) | (obtain ⟨_, _, rfl⟩ := h; exact hi) | (cases h; exact hi)

theorem KRun.infoSet_mono {k k' : K} {ls : List Label} (h : KRun k ls k') (hi : k.infoSet = true) : k'.infoSet = true := by
  induction h with
  | nil => exact hi
  | cons ht _ ih => exact ih (ht.infoSet_mono hi)

theorem KTrans.readyIdat_false {k k' : K} {l : Label} (h : KTrans k l k') (hi : k.readyIdat = false) :
    k'.readyIdat = false := by
  cases l with
  | tau => cases h; exact hi
  | «begin» t => obtain ⟨_, _, _, _, rfl⟩ := h; exact hi
  | flush t => obtain ⟨_, _, rfl⟩ := h; rfl
  | parsed t =>
    simp only [KTrans] at h
    repeat' split at h
    all_goals first | (obtain ⟨_, rfl⟩ := h; exact hi) | (obtain ⟨_, _, rfl⟩ := h; exact hi) | (cases h; exact hi)

theorem KRun.readyIdat_false {k k' : K} {ls : List Label} (h : KRun k ls k') (hi : k.readyIdat = false) :
    k'.readyIdat = false := by
  induction h with
  | nil => exact hi
  | cons ht _ ih => exact ih (ht.readyIdat_false hi)


/-- **IHDR once**: after a `parsed IHDR` no second one -/
theorem KRun.ihdr_once {k k' : K} {l2 : List Label} (h : KRun k (.parsed IHDR :: l2) k') : Label.parsed IHDR ∉ l2 := by
  cases h with
  | cons ht hr =>
    have hi : ∀ kx, KTrans k (.parsed IHDR) kx → kx.infoSet = true := by
      intro kx hx; simp only [KTrans, if_true] at hx; obtain ⟨_, rfl⟩ := hx; rfl
    have h1 := hi _ ht
    clear ht hi
    induction hr with
    | nil => simp
    | cons ht2 _ ih =>
      rename_i l _
      intro hmem
      rcases List.mem_cons.mp hmem with heq | hmem
      · rw [← heq] at ht2
        simp only [KTrans, if_true] at ht2
        rw [h1] at ht2; cases ht2.1
      · exact ih (ht2.infoSet_mono h1) hmem

/-- **IHDR first**: from a state without `info`, the first accepted chunk type is IHDR, and any other chunk type
    is accepted only after an IHDR was parsed -/
theorem KRun.ihdr_first {k k' : K} {l1 : List Label} {t : ChunkType} (h : KRun k (l1 ++ [.begin t]) k')
    (h0 : k.infoSet = false) : t = IHDR ∨ Label.parsed IHDR ∈ l1 := by
  induction l1 generalizing k with
  | nil =>
    rw [List.nil_append, KRun.single_iff] at h
    rcases h.1 with h | h
    · rw [h0] at h; cases h
    · exact Or.inl h
  | cons a l1 ih =>
    cases h with
    | cons ht hr =>
      rename_i k1
      by_cases hk1 : k1.infoSet = false
      · rcases ih hr hk1 with h | h
        · exact Or.inl h
        · exact Or.inr (List.mem_cons_of_mem _ h)
      · -- `info` appeared in this transition: it is `parsed IHDR`
        right
        have : a = .parsed IHDR := by
          cases a with
          | tau => cases ht; exact absurd h0 hk1
          | «begin» t' => obtain ⟨_, _, _, _, rfl⟩ := ht; exact absurd h0 hk1
          | flush t' => obtain ⟨_, _, rfl⟩ := ht; exact absurd h0 hk1
          | parsed t' =>
            by_cases h1 : t' = IHDR
            · rw [h1]
            · exfalso
              simp only [KTrans, if_neg h1] at ht
              repeat' split at ht
              all_goals first
                | (obtain ⟨hx, _⟩ := ht; rw [h0] at hx; cases hx)
                | (cases ht; exact absurd h0 hk1)
        rw [this]; exact List.mem_cons_self ..

/-- **PLTE once**: after a `parsed PLTE` no second one -/
theorem KRun.plte_once {k k' : K} {l2 : List Label} (h : KRun k (.parsed PLTE :: l2) k') : Label.parsed PLTE ∉ l2 := by
  have hne : PLTE ≠ IHDR := by decide
  cases h with
  | cons ht hr =>
    simp only [KTrans, if_neg hne, if_true] at ht
    obtain ⟨hi, _, rfl⟩ := ht
    -- invariant: infoSet ∧ havePlte
    generalize hk1 : ({ k with havePlte := true } : K) = k1 at hr
    have inv : k1.infoSet = true ∧ k1.havePlte = true := by rw [← hk1]; exact ⟨hi, rfl⟩
    clear hk1 hi
    induction hr with
    | nil => simp
    | cons ht2 _ ih =>
      rename_i l ls _
      intro hmem
      rcases List.mem_cons.mp hmem with heq | hmem
      · rw [← heq] at ht2
        simp only [KTrans, if_neg hne, if_true] at ht2
        rw [inv.2] at ht2; cases ht2.2.1
      · refine ih ?_ hmem
        refine ⟨ht2.infoSet_mono inv.1, ?_⟩
        cases l with
        | tau => cases ht2; exact inv.2
        | «begin» t' => obtain ⟨_, _, _, _, rfl⟩ := ht2; exact inv.2
        | flush t' => obtain ⟨_, _, rfl⟩ := ht2; exact inv.2
        | parsed t' =>
          simp only [KTrans] at ht2
          repeat' split at ht2
          all_goals first
            | (obtain ⟨hx, _⟩ := ht2; rw [inv.1] at hx; cases hx; done)
            | (obtain ⟨_, _, rfl⟩ := ht2; rfl)
            | (obtain ⟨_, rfl⟩ := ht2; exact inv.2)
            | (cases ht2; exact inv.2)


theorem kindOf_idat_iff (t : ChunkType) : kindOf t = .idat ↔ t = IDAT := by
  unfold kindOf
  by_cases h : t = IDAT
  · simp [h]
  · by_cases h2 : t = fdAT <;> simp [h, h2]

/-- in an IDAT sequence, or IDATs are no longer acceptable -/
def InIdatOrClosed (k : K) : Prop := k.inData = .idat ∨ k.readyIdat = false

theorem KTrans.inIdatOrClosed {k k' : K} {l : Label} (h : KTrans k l k') (hi : InIdatOrClosed k) : InIdatOrClosed k' := by
  cases l with
  | tau => cases h; exact hi
  | «begin» t =>
    obtain ⟨_, hd, _, _, rfl⟩ := h
    rcases hi with hi | hi
    · left
      rcases hd with hd | hd
      · rw [hi] at hd; cases hd
      · show kindOf t = .idat
        rw [hd, hi]
    · exact Or.inr hi
  | flush t => obtain ⟨_, _, rfl⟩ := h; exact Or.inr rfl
  | parsed t =>
    simp only [KTrans] at h
    repeat' split at h
    all_goals first
      | (obtain ⟨_, _, rfl⟩ := h; exact hi)
      | (obtain ⟨_, rfl⟩ := h; exact hi)
      | (cases h; exact hi)

theorem KRun.inIdatOrClosed {k k' : K} {ls : List Label} (h : KRun k ls k') (hi : InIdatOrClosed k) : InIdatOrClosed k' := by
  induction h with
  | nil => exact hi
  | cons ht _ ih => exact ih (ht.inIdatOrClosed hi)

/-- **IDATs are consecutive**: once an IDAT was begun and then a chunk of another type, no IDAT is accepted again -/
theorem KRun.idat_consecutive {k k' : K} {l2 l3 : List Label} {t : ChunkType}
    (h : KRun k (.begin IDAT :: l2 ++ .begin t :: l3) k') (ht : t ≠ IDAT) : Label.begin IDAT ∉ l3 := by
  cases h with
  | cons hb hr =>
    rename_i k1
    have h1 : InIdatOrClosed k1 := by
      obtain ⟨_, _, _, _, rfl⟩ := hb
      exact Or.inl (by unfold kindOf; rw [if_pos (Eq.refl IDAT)])
    obtain ⟨k2, hr2, hr3⟩ := KRun.append_iff.mp hr
    have h2 := hr2.inIdatOrClosed h1
    cases hr3 with
    | cons hbt hr4 =>
      rename_i k3
      have h3 : k3.readyIdat = false := by
        obtain ⟨_, hd, _, _, rfl⟩ := hbt
        rcases h2 with h2 | h2
        · exfalso
          rcases hd with hd | hd
          · rw [h2] at hd; cases hd
          · rw [h2] at hd; exact ht ((kindOf_idat_iff t).mp hd)
        · exact h2
      clear hbt h2 hr2 h1 hb hr
      induction hr4 with
      | nil => simp
      | cons ht2 _ ih =>
        intro hmem
        rcases List.mem_cons.mp hmem with heq | hmem
        · rw [← heq] at ht2
          have := ht2.2.2.1 rfl
          rw [h3] at this; cases this
        · exact ih (ht2.readyIdat_false h3) hmem

theorem KTrans.readyFdat_only_fctl {k k' : K} {l : Label} (h : KTrans k l k') (h0 : k.readyFdat = false)
    (h1 : k'.readyFdat = true) : l = .parsed fcTL := by
  cases l with
  | tau => cases h; rw [h0] at h1; cases h1
  | «begin» t => obtain ⟨_, _, _, _, rfl⟩ := h; rw [h0] at h1; cases h1
  | flush t => obtain ⟨_, _, rfl⟩ := h; cases h1
  | parsed t =>
    simp only [KTrans] at h
    repeat' split at h
    all_goals first
      | (obtain ⟨_, rfl⟩ := h; rw [h0] at h1; cases h1; done)
      | (obtain ⟨_, _, rfl⟩ := h; rw [h0] at h1; cases h1; done)
      | (cases h; rw [h0] at h1; cases h1; done)
      | (rename_i hf; rw [hf])

/-- **An fdAT run needs an fcTL since the previous data run**: from a state in which fdAT is not acceptable (initially,
    and after every `flush`), an fdAT is accepted only after a `parsed fcTL` -/
theorem KRun.fdat_needs_fctl {k k' : K} {l1 : List Label} (h : KRun k (l1 ++ [.begin fdAT]) k')
    (h0 : k.readyFdat = false) : Label.parsed fcTL ∈ l1 := by
  induction l1 generalizing k with
  | nil =>
    rw [List.nil_append, KRun.single_iff] at h
    have := h.2.2.2.1 rfl
    rw [h0] at this; cases this
  | cons a l1 ih =>
    cases h with
    | cons ht hr =>
      rename_i k1
      by_cases hk1 : k1.readyFdat = false
      · exact List.mem_cons_of_mem _ (ih hr hk1)
      · have := ht.readyFdat_only_fctl h0 (by simpa using hk1)
        rw [this]; exact List.mem_cons_self ..

/-- after a `flush`, an fdAT needs a new fcTL -/
theorem KRun.fdat_needs_fctl_after_flush {k k' : K} {l1 : List Label} {t : ChunkType}
    (h : KRun k (.flush t :: l1 ++ [.begin fdAT]) k') : Label.parsed fcTL ∈ l1 := by
  cases h with
  | cons ht hr =>
    obtain ⟨_, _, rfl⟩ := ht
    exact hr.fdat_needs_fctl rfl

/-! ## Part 8: with `ignore_crc` the CRC function is never consulted (C11) -/

theorem parseU32_crcfn (cfg : Cfg) (c' : Bytes → Nat) (d : Dec) (kind : U32Kind) (b0 b1 b2 b3 : UInt8)
    (hig : d.opts.ignoreCrc = true) :
    parseU32 { cfg with crc := c' } d kind b0 b1 b2 b3 = parseU32 cfg d kind b0 b1 b2 b3 := by
  cases kind with
  | crc t => rw [parseU32_crc, parseU32_crc]; simp only [hig, if_true]
  | sig1 => rfl
  | sig2 => rfl
  | length => rfl
  | type len => rfl
  | seqNo => rfl

theorem nextState_crcfn (cfg : Cfg) (c' : Bytes → Nat) (d : Dec) (st : St) (buf : Bytes)
    (hig : d.opts.ignoreCrc = true) :
    nextState { cfg with crc := c' } d st buf = nextState cfg d st buf := by
  cases st with
  | u32 kind acc =>
    have key : ∀ l n, parse4 { cfg with crc := c' } { d with state := none } kind l n =
        parse4 cfg { d with state := none } kind l n := by
      intro l n
      unfold parse4
      split
      · rw [parseU32_crcfn cfg c' { d with state := none } kind _ _ _ _ hig]
      · rfl
    simp only [nextState, stepU32, key]
  | parseChunkData t => rfl
  | readChunkData t => rfl
  | imageData t => rfl

theorem run_crcfn (cfg : Cfg) (c' : Bytes → Nat) : ∀ (f : Nat) (d : Dec) (buf : Bytes), d.opts.ignoreCrc = true →
    run { cfg with crc := c' } f d buf = run cfg f d buf := by
  intro f
  induction f with
  | zero => intro d buf _; rfl
  | succ f ih =>
    intro d buf hig
    unfold run
    split
    · rfl
    · split
      · rfl
      · rename_i st hs
        rw [nextState_crcfn cfg c' d st buf hig]
        split
        · rfl
        · rename_i n ev d' hn
          have := (nextState_stepFrame hn).opts
          rw [ih d' _ (by rw [this]; exact hig)]


/-! ## Part 9: every buffered chunk is parsed, once, with its whole body (C10 `every_chunk_parsed`) -/

/-- which chunk kinds the body-handling states hold; `ReadChunkData` is never entered with nothing remaining
    (since f31d047 an empty chunk goes straight to `ParseChunkData`) -/
def StInv (d : Dec) : Prop :=
  match d.state with
  | some (.readChunkData t) => d.remaining ≠ 0 ∧ t ≠ IDAT ∧ t ≠ fdAT
  | some (.parseChunkData t) => t ≠ IDAT ∧ t ≠ fdAT
  | some (.imageData t) => t = IDAT ∨ t = fdAT
  | _ => True

theorem stInv_new (opts : Options) : StInv (Dec.new opts) := trivial

theorem parseU32_stInv {cfg : Cfg} {d d' : Dec} {kind : U32Kind} {b0 b1 b2 b3 : UInt8} {ev : Ev}
    (hd : d.state = none) (h : parseU32 cfg d kind b0 b1 b2 b3 = .ok (ev, d')) :
    StInv d' ∧ ∀ t acc, d'.state ≠ some (.u32 (.crc t) acc) := by
  cases kind with
  | sig1 => rw [parseU32_sig1] at h; split at h <;> cases h; exact ⟨trivial, by simp⟩
  | sig2 => rw [parseU32_sig2] at h; split at h <;> cases h; exact ⟨trivial, by simp⟩
  | length => rw [parseU32_length] at h; cases h; exact ⟨trivial, by simp⟩
  | type len =>
    obtain ⟨_, hc⟩ := parseU32_type_cases h
    rcases hc with ⟨_, _, d1, hf, rfl⟩ | ⟨_, _, st, d1, ha, rfl⟩
    · exact ⟨trivial, by simp⟩
    · rcases afterType_cases ha with ⟨ht, _, _, rfl, rfl⟩ | ⟨ht, _, rfl, rfl⟩ | ⟨h1, h2, rfl, rfl⟩
      · exact ⟨trivial, by simp⟩
      · exact ⟨Or.inl rfl, by simp⟩
      · by_cases hl : len = 0
        · simp only [hl, if_true]; exact ⟨⟨h2, h1⟩, by simp⟩
        · simp only [hl, if_false]; exact ⟨⟨hl, h2, h1⟩, by simp⟩
  | crc t =>
    rw [parseU32_crc] at h
    repeat' split at h
    all_goals first
      | (cases h; done)
      | (cases h; exact ⟨trivial, by simp⟩)
      | (cases h; exact ⟨by simp only [StInv, hd], by simp [hd]⟩)
  | seqNo =>
    rw [parseU32_seqNo] at h
    repeat' split at h
    all_goals first | (cases h; done) | (cases h; exact ⟨Or.inr rfl, by simp⟩)

/-- a `U32` step enters a CRC field only by continuing to accumulate one -/
theorem stepU32_stInv {cfg : Cfg} {d d' : Dec} {kind : U32Kind} {acc buf : Bytes} {n : Nat} {ev : Ev}
    (hd : d.state = none) (h : stepU32 cfg d kind acc buf = .ok (n, ev, d')) :
    StInv d' ∧ ∀ t acc', d'.state = some (.u32 (.crc t) acc') → kind = .crc t := by
  unfold stepU32 at h
  split at h
  · obtain ⟨_, _, _, _, _, _, _, hp⟩ := parse4_ok h
    have := parseU32_stInv hd hp
    exact ⟨this.1, fun t acc' hx => absurd hx (this.2 t acc')⟩
  · simp only at h
    split at h
    · cases h
      refine ⟨trivial, fun t acc' hx => ?_⟩
      simp only [Option.some.injEq, St.u32.injEq] at hx
      exact hx.1
    · obtain ⟨_, _, _, _, _, _, _, hp⟩ := parse4_ok h
      have := parseU32_stInv hd hp
      exact ⟨this.1, fun t acc' hx => absurd hx (this.2 t acc')⟩

/-- **Collecting the body**: a `ReadChunkData` step with something remaining reports nothing, consumes `n` bytes of the
    body and appends exactly these to `raw_bytes`; it continues with `ReadChunkData` while something remains (or with
    `ParseChunkData` to grow a full buffer) and with `ParseChunkData` when the body is complete -/
theorem stepRead_collect {d d' : Dec} {t : ChunkType} {buf : Bytes} {n : Nat} {ev : Ev}
    (hrem : d.remaining ≠ 0) (h : stepRead d t buf = .ok (n, ev, d')) :
    ev = .nothing ∧ n ≤ d.remaining ∧ d'.raw = d.raw ++ buf.take n ∧ d'.remaining = d.remaining - n ∧
    ((d'.state = some (.readChunkData t) ∧ d'.remaining ≠ 0) ∨ d'.state = some (.parseChunkData t)) := by
  unfold stepRead at h
  rw [if_neg hrem] at h
  simp only at h
  split at h
  · cases h; exact ⟨rfl, Nat.zero_le _, by simp, rfl, Or.inr rfl⟩
  · cases h
    refine ⟨rfl, Nat.min_le_left _ _, rfl, rfl, ?_⟩
    generalize d.readPiece _ _ = dp
    by_cases hr : dp.remaining = 0
    · right; simp only [hr, if_true]
    · left; simp only [hr, if_false]; exact ⟨trivial, hr⟩

/-- `ParseChunkData` with something remaining only grows the chunk buffer and goes back to collecting -/
theorem stepParse_grow {cfg : Cfg} {d d' : Dec} {t : ChunkType} {n : Nat} {ev : Ev}
    (hrem : d.remaining ≠ 0) (h : stepParse cfg d t = .ok (n, ev, d')) :
    n = 0 ∧ ev = .partialChunk t ∧ d'.raw = d.raw ∧ d'.remaining = d.remaining ∧ d'.info = d.info ∧
    d'.state = some (.readChunkData t) := by
  unfold stepParse at h
  rw [if_neg hrem] at h
  cases hp : reserveCurrentChunk d with
  | error e => rw [hp] at h; cases h
  | ok d1 =>
    rw [hp] at h
    simp only [Except.map] at h
    cases h
    obtain ⟨r, _, _, rfl, _⟩ := reserveCurrentChunk_shape hp
    exact ⟨rfl, rfl, rfl, rfl, rfl, rfl⟩

/-- **The parse**: `ParseChunkData` with nothing remaining IS `parse_chunk` on the collected body; it consumes nothing and
    leaves the machine at the CRC field -/
theorem stepParse_parse {cfg : Cfg} {d d' : Dec} {t : ChunkType} {n : Nat} {ev : Ev}
    (hrem : d.remaining = 0) (h : stepParse cfg d t = .ok (n, ev, d')) :
    n = 0 ∧ parseChunk cfg d t = .ok (ev, d') ∧ d'.state = some (.u32 (.crc t) []) ∧ d'.raw = d.raw := by
  unfold stepParse at h
  rw [if_pos hrem] at h
  cases hp : parseChunk cfg d t with
  | error e => rw [hp] at h; cases h
  | ok r =>
    rw [hp] at h; obtain ⟨ev1, d1⟩ := r
    simp only [Except.map] at h
    cases h
    exact ⟨rfl, rfl, (parseChunk_ok hp).1, (parseChunk_frame hp).raw⟩

theorem nextState_stInv {cfg : Cfg} {d d' : Dec} {st : St} {buf : Bytes} {n : Nat} {ev : Ev}
    (hs : d.state = some st) (hinv : StInv d) (h : nextState cfg d st buf = .ok (n, ev, d')) : StInv d' := by
  unfold nextState at h
  simp only at h
  cases st with
  | u32 kind acc => exact (stepU32_stInv (d := { d with state := none }) rfl h).1
  | parseChunkData t =>
    have hi : t ≠ IDAT ∧ t ≠ fdAT := by simpa only [StInv, hs] using hinv
    by_cases hrem : d.remaining = 0
    · have := (stepParse_parse (d := { d with state := none }) hrem h).2.2.1
      simp only [StInv, this]
    · have := (stepParse_grow (d := { d with state := none }) hrem h)
      simp only [StInv, this.2.2.2.2.2, this.2.2.2.1]
      exact ⟨hrem, hi⟩
  | readChunkData t =>
    have hi : d.remaining ≠ 0 ∧ t ≠ IDAT ∧ t ≠ fdAT := by simpa only [StInv, hs] using hinv
    obtain ⟨_, _, _, _, hst⟩ := stepRead_collect (d := { d with state := none }) hi.1 h
    rcases hst with ⟨h1, h2⟩ | h1
    · simp only [StInv, h1]; exact ⟨h2, hi.2⟩
    · simp only [StInv, h1]; exact hi.2
  | imageData t =>
    have hi : t = IDAT ∨ t = fdAT := by simpa only [StInv, hs] using hinv
    unfold stepImage at h
    simp only at h
    split at h
    · cases h
    · cases h
      generalize Dec.imagePiece _ _ _ _ = dp
      by_cases hr : dp.remaining = 0
      · simp only [StInv, hr, if_true]
      · simp only [StInv, hr, if_false]; exact hi

theorem run_stInv (cfg : Cfg) : ∀ (f : Nat) (d : Dec) (buf : Bytes), StInv d → StInv (run cfg f d buf).1 := by
  intro f
  induction f with
  | zero => intro d buf h; exact h
  | succ f ih =>
    intro d buf hinv
    unfold run
    split
    · exact hinv
    · split
      · exact hinv
      · rename_i st hs
        split
        · trivial
        · rename_i n ev d' hn
          exact ih d' _ (nextState_stInv hs hinv hn)

/-- **Every buffered chunk reaches its CRC field only through `parse_chunk`**: a `next_state` call (decoder satisfying
    `StInv`) after which the machine is in the CRC field of a non-data chunk `t` either was in that field already, or
    is the parse step: `ParseChunkData(t)` with the whole body collected (`remaining = 0`), `parse_chunk` returned
    `Ok` — for EVERY length, 0 included — and nothing was consumed -/
theorem crc_entered_by_parse {cfg : Cfg} {d d' : Dec} {st : St} {buf : Bytes} {n : Nat} {ev : Ev} {t : ChunkType}
    {acc' : Bytes} (hs : d.state = some st) (hinv : StInv d) (h : nextState cfg d st buf = .ok (n, ev, d'))
    (hcrc : d'.state = some (.u32 (.crc t) acc')) (h1 : t ≠ IDAT) (h2 : t ≠ fdAT) :
    (∃ acc, st = .u32 (.crc t) acc) ∨
    (st = .parseChunkData t ∧ d.remaining = 0 ∧ n = 0 ∧ acc' = [] ∧ d'.raw = d.raw ∧
      parseChunk cfg { d with state := none } t = .ok (ev, d')) := by
  unfold nextState at h
  simp only at h
  cases st with
  | u32 kind acc =>
    have := (stepU32_stInv (d := { d with state := none }) rfl h).2 t acc' hcrc
    exact Or.inl ⟨acc, by rw [this]⟩
  | parseChunkData t' =>
    right
    by_cases hrem : d.remaining = 0
    · obtain ⟨hn, hp, hst, hraw⟩ := stepParse_parse (d := { d with state := none }) hrem h
      rw [hst] at hcrc
      simp only [Option.some.injEq, St.u32.injEq, U32Kind.crc.injEq] at hcrc
      obtain ⟨rfl, rfl⟩ := hcrc
      exact ⟨rfl, hrem, hn, rfl, hraw, hp⟩
    · have := (stepParse_grow (d := { d with state := none }) hrem h).2.2.2.2.2
      rw [this] at hcrc; cases hcrc
  | readChunkData t' =>
    have hi : d.remaining ≠ 0 ∧ t' ≠ IDAT ∧ t' ≠ fdAT := by simpa only [StInv, hs] using hinv
    obtain ⟨_, _, _, _, hst⟩ := stepRead_collect (d := { d with state := none }) hi.1 h
    rcases hst with ⟨h1, _⟩ | h1 <;> (rw [h1] at hcrc; cases hcrc)
  | imageData t' =>
    have hi : t' = IDAT ∨ t' = fdAT := by simpa only [StInv, hs] using hinv
    exfalso
    unfold stepImage at h
    simp only at h
    split at h
    · cases h
    · cases h
      revert hcrc
      generalize Dec.imagePiece _ _ _ _ = dp
      by_cases hr : dp.remaining = 0
      · simp only [hr, if_true, Option.some.injEq, St.u32.injEq, U32Kind.crc.injEq]
        rintro ⟨rfl, _⟩
        rcases hi with hi | hi
        · exact h1 hi
        · exact h2 hi
      · simp only [hr, if_false]; intro hx; cases hx

/-- **… and leaves it for the next chunk**: from the CRC field the machine continues in the same field, or moves on to
    the next length field (`ChunkComplete`, or a skipped mismatch), or finishes (`ImageEnd`) — never back to
    `ParseChunkData`: the chunk is parsed exactly once -/
theorem crc_step_leaves_chunk {cfg : Cfg} {d d' : Dec} {t : ChunkType} {acc buf : Bytes} {n : Nat} {ev : Ev}
    (h : nextState cfg d (.u32 (.crc t) acc) buf = .ok (n, ev, d')) :
    (∃ acc', d'.state = some (.u32 (.crc t) acc') ∧ ev = .nothing) ∨
    (d'.state = some (.u32 .length []) ∧ (ev = .nothing ∨ ∃ c, ev = .chunkComplete c t)) ∨
    (d'.state = none ∧ ev = .imageEnd ∧ t = IEND) := by
  unfold nextState at h
  simp only at h
  have key : ∀ {b0 b1 b2 b3}, parseU32 cfg { d with state := none } (.crc t) b0 b1 b2 b3 = .ok (ev, d') →
      (d'.state = some (.u32 .length []) ∧ (ev = .nothing ∨ ∃ c, ev = .chunkComplete c t)) ∨
      (d'.state = none ∧ ev = .imageEnd ∧ t = IEND) := by
    intro b0 b1 b2 b3 hp
    rw [parseU32_crc] at hp
    repeat' split at hp
    all_goals first
      | (cases hp; done)
      | (cases hp; exact Or.inr ⟨rfl, rfl, by assumption⟩)
      | (cases hp; exact Or.inl ⟨rfl, Or.inr ⟨_, rfl⟩⟩)
      | (cases hp; exact Or.inl ⟨rfl, Or.inl rfl⟩)
  unfold stepU32 at h
  split at h
  · obtain ⟨_, _, _, _, _, _, _, hp⟩ := parse4_ok h
    exact Or.inr (key hp)
  · simp only at h
    split at h
    · cases h; exact Or.inl ⟨_, rfl, rfl⟩
    · obtain ⟨_, _, _, _, _, _, _, hp⟩ := parse4_ok h
      exact Or.inr (key hp)


/-- the events a chunk parser can report -/
def ParserEv : Ev → Prop
  | .nothing | .header .. | .pixelDimensions .. | .animationControl .. | .frameControl _ | .partialChunk _ => True
  | _ => False

macro "parser_ev" h:ident : tactic => `(tactic| (
  simp only [bind, Except.bind, eofOr, pure, Except.pure, throw, throwThe, MonadExceptOf.throw, withInfo] at $h:ident
  repeat' split at $h:ident
  all_goals first
    | (cases $h:ident; done)
    | (cases $h:ident; trivial)))

theorem parseIhdr_ev {d d' : Dec} {ev : Ev} (h : parseIhdr d = .ok (d', ev)) : ParserEv ev := by
  unfold parseIhdr at h; parser_ev h
theorem parseSbit_ev {d d' : Dec} {ev : Ev} (h : parseSbit d = .ok (d', ev)) : ParserEv ev := by
  unfold parseSbit at h; parser_ev h
theorem parsePlte_ev {d d' : Dec} {ev : Ev} (h : parsePlte d = .ok (d', ev)) : ParserEv ev := by
  unfold parsePlte at h; parser_ev h
theorem parseTrns_ev {d d' : Dec} {ev : Ev} (h : parseTrns d = .ok (d', ev)) : ParserEv ev := by
  unfold parseTrns at h; parser_ev h
theorem parsePhys_ev {d d' : Dec} {ev : Ev} (h : parsePhys d = .ok (d', ev)) : ParserEv ev := by
  unfold parsePhys at h; parser_ev h
theorem parseGama_ev {d d' : Dec} {ev : Ev} (h : parseGama d = .ok (d', ev)) : ParserEv ev := by
  unfold parseGama at h; parser_ev h
theorem parseActl_ev {d d' : Dec} {ev : Ev} (h : parseActl d = .ok (d', ev)) : ParserEv ev := by
  unfold parseActl at h; parser_ev h
theorem parseFctl_ev {d d' : Dec} {ev : Ev} (h : parseFctl d = .ok (d', ev)) : ParserEv ev := by
  unfold parseFctl at h; parser_ev h
theorem parseChrm_ev {d d' : Dec} {ev : Ev} (h : parseChrm d = .ok (d', ev)) : ParserEv ev := by
  unfold parseChrm at h; parser_ev h
theorem parseSrgb_ev {d d' : Dec} {ev : Ev} (h : parseSrgb d = .ok (d', ev)) : ParserEv ev := by
  unfold parseSrgb at h; parser_ev h
theorem parseCicp_ev {d d' : Dec} {ev : Ev} (h : parseCicp d = .ok (d', ev)) : ParserEv ev := by
  unfold parseCicp at h; parser_ev h
theorem parseMdcv_ev {d d' : Dec} {ev : Ev} (h : parseMdcv d = .ok (d', ev)) : ParserEv ev := by
  unfold parseMdcv at h; parser_ev h
theorem parseClli_ev {d d' : Dec} {ev : Ev} (h : parseClli d = .ok (d', ev)) : ParserEv ev := by
  unfold parseClli at h; parser_ev h
theorem parseExif_ev {d d' : Dec} {ev : Ev} (h : parseExif d = .ok (d', ev)) : ParserEv ev := by
  unfold parseExif at h; parser_ev h
theorem parseBkgd_ev {d d' : Dec} {ev : Ev} (h : parseBkgd d = .ok (d', ev)) : ParserEv ev := by
  unfold parseBkgd at h; parser_ev h
theorem parseText_ev {d d' : Dec} {ev : Ev} (h : parseText d = .ok (d', ev)) : ParserEv ev := by
  unfold parseText at h; parser_ev h
theorem parseZtxt_ev {d d' : Dec} {ev : Ev} (h : parseZtxt d = .ok (d', ev)) : ParserEv ev := by
  unfold parseZtxt at h; parser_ev h
theorem parseItxt_ev {cfg : Cfg} {d d' : Dec} {ev : Ev} (h : parseItxt cfg d = .ok (d', ev)) : ParserEv ev := by
  unfold parseItxt at h; parser_ev h
theorem parseIccp_ev {cfg : Cfg} {d d' : Dec} {ev : Ev} (h : parseIccp cfg d = .ok (d', ev)) : ParserEv ev := by
  unfold parseIccp at h
  simp only at h
  repeat' split at h
  all_goals first | (cases h; done) | (cases h; trivial)

local macro "dev" h:ident c:term "," l:term : tactic =>
  `(tactic| (by_cases hc : $c; (· rw [if_pos hc] at $h:ident; exact $l $h:ident); rw [if_neg hc] at $h:ident))

theorem dispatch_ev {cfg : Cfg} {d d' : Dec} {t : ChunkType} {ev : Ev} (h : dispatch cfg d t = .ok (d', ev)) :
    ParserEv ev := by
  unfold dispatch at h
  dev h (t = IHDR), parseIhdr_ev
  dev h (t = sBIT), parseSbit_ev
  dev h (t = PLTE), parsePlte_ev
  dev h (t = tRNS), parseTrns_ev
  dev h (t = pHYs), parsePhys_ev
  dev h (t = gAMA), parseGama_ev
  dev h (t = acTL), parseActl_ev
  dev h (t = fcTL), parseFctl_ev
  dev h (t = cHRM), parseChrm_ev
  dev h (t = sRGB), parseSrgb_ev
  dev h (t = cICP), parseCicp_ev
  dev h (t = mDCV), parseMdcv_ev
  dev h (t = cLLI), parseClli_ev
  dev h (t = eXIf), parseExif_ev
  dev h (t = bKGD), parseBkgd_ev
  dev h (t = iCCP ∧ (!d.opts.ignoreIccp) = true), parseIccp_ev
  dev h (t = tEXt ∧ (!d.opts.ignoreText) = true), parseText_ev
  dev h (t = zTXt ∧ (!d.opts.ignoreText) = true), parseZtxt_ev
  dev h (t = iTXt ∧ (!d.opts.ignoreText) = true), parseItxt_ev
  cases h; trivial

theorem parseChunk_ev {cfg : Cfg} {d d' : Dec} {t : ChunkType} {ev : Ev} (h : parseChunk cfg d t = .ok (ev, d')) :
    ParserEv ev := by
  rcases parseChunk_cases h with h | ⟨e, _, _, _, rfl, _⟩
  · exact dispatch_ev h
  · trivial

theorem parseU32_chunkComplete {cfg : Cfg} {d d' : Dec} {kind : U32Kind} {b0 b1 b2 b3 : UInt8} {c : Nat} {t : ChunkType}
    (hp : parseU32 cfg d kind b0 b1 b2 b3 = .ok (.chunkComplete c t, d')) : kind = .crc t := by
  cases kind with
  | sig1 => rw [parseU32_sig1] at hp; split at hp <;> cases hp
  | sig2 => rw [parseU32_sig2] at hp; split at hp <;> cases hp
  | length => rw [parseU32_length] at hp; cases hp
  | type len =>
    obtain ⟨_, hc⟩ := parseU32_type_cases hp
    rcases hc with ⟨_, hev, _⟩ | ⟨_, hev, _⟩ <;> cases hev
  | crc t' =>
    rw [parseU32_crc] at hp
    repeat' split at hp
    all_goals first | (cases hp; done) | (cases hp; rfl)
  | seqNo =>
    rw [parseU32_seqNo] at hp
    repeat' split at hp
    all_goals (cases hp)

theorem stepU32_chunkComplete {cfg : Cfg} {d d' : Dec} {kind : U32Kind} {acc buf : Bytes} {n c : Nat} {t : ChunkType}
    (h : stepU32 cfg d kind acc buf = .ok (n, .chunkComplete c t, d')) : kind = .crc t := by
  unfold stepU32 at h
  split at h
  · obtain ⟨_, _, _, _, _, _, _, hp⟩ := parse4_ok h
    exact parseU32_chunkComplete hp
  · simp only at h
    split at h
    · cases h
    · obtain ⟨_, _, _, _, _, _, _, hp⟩ := parse4_ok h
      exact parseU32_chunkComplete hp

theorem stepParse_ev {cfg : Cfg} {d d' : Dec} {t : ChunkType} {n : Nat} {ev : Ev}
    (h : stepParse cfg d t = .ok (n, ev, d')) : ParserEv ev := by
  unfold stepParse at h
  split at h
  · cases hp : parseChunk cfg d t with
    | error e => rw [hp] at h; cases h
    | ok r =>
      rw [hp] at h; obtain ⟨ev1, d1⟩ := r
      simp only [Except.map] at h
      cases h
      exact parseChunk_ev hp
  · cases hp : reserveCurrentChunk d with
    | error e => rw [hp] at h; cases h
    | ok d1 => rw [hp] at h; simp only [Except.map] at h; cases h; trivial

/-- **`ChunkComplete(crc, t)` is reported by the CRC step of chunk `t` and by nothing else** -/
theorem chunkComplete_only_at_crc {cfg : Cfg} {d d' : Dec} {st : St} {buf : Bytes} {n : Nat} {c : Nat} {t : ChunkType}
    (h : nextState cfg d st buf = .ok (n, .chunkComplete c t, d')) : ∃ acc, st = .u32 (.crc t) acc := by
  unfold nextState at h
  cases st with
  | u32 kind acc => exact ⟨acc, by rw [stepU32_chunkComplete h]⟩
  | parseChunkData t' => exact absurd (stepParse_ev h) (fun hx => hx)
  | readChunkData t' =>
    exfalso
    simp only at h
    unfold stepRead at h
    split at h
    · cases h
    · simp only at h
      split at h <;> cases h
  | imageData t' =>
    exfalso
    simp only at h
    unfold stepImage at h
    simp only at h
    split at h <;> cases h


end Png.Framing
