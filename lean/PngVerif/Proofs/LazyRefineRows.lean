import PngVerif.Proofs.LazyRefineRow
/-!
# `Reader` refines `Lazy`, part 3: one row (`next_interlaced_row_impl`, `finish_decoding`, `read_row` / `next_row`)
-/
namespace Png.LazyRefine
open Png Png.Framing Png.WellFormed Png.Reader

/-- creating the transformation never fails with a message the image-data path uses -/
def CreateSafe (t : TCfg) : Prop :=
  ∀ i f w, t.create i f = .error w → w ≠ "NoMoreImageData" ∧ w ≠ "MissingImageData"

theorem Pos.congr {cfg : Cfg} {i : Info} {r r' : R} {src : Option Lazy.Arrival} {dEnd : Dec} {bEnd : Bytes}
    (h : Pos cfg i r src dEnd bEnd) (hd : r'.dec = r.dec) (ha : avail r' = avail r) : Pos cfg i r' src dEnd bEnd := by
  cases h with
  | inData pend hev htr hs => exact .inData pend hev (by rw [hd, ha]; exact htr) hs
  | after hd0 hb hs => exact .after (hd.trans hd0) (ha.trans hb) hs

theorem Cnt.congr {i : Info} {r r' : R} {s s' : Lazy.St} (h : Cnt i r s) (hd : r'.dec = r.dec) (hrem : r'.remaining = r.remaining)
    (hcaf : r'.sub.caf = r.sub.caf) (hub : r'.ub = r.ub) (h1 : s'.rem = s.rem) (h2 : s'.caf = s.caf) (h3 : s'.buf = s.buf)
    (h4 : s'.src = s.src) : Cnt i r' s' :=
  ⟨by rw [hd]; exact h.info, by rw [h1, hrem]; exact h.rem, by rw [h2, hcaf]; exact h.caf, by rw [h3, hub]; exact h.buf,
   by rw [hub]; exact h.ubInv, by rw [hd]; exact h.out, by rw [h4, hcaf]; exact h.closed⟩

/-- the answer of `next_interlaced_row_impl` as the `Lazy` model says it -/
def implRes : Except Reader.Res Bytes → Option Lazy.Res
  | .ok _ => none
  | .error _ => some (.err .noMoreImageData)

theorem fuelOf_ok (s : Lazy.St) : Lazy.srcLen s.src + 1 ≤ Lazy.fuelOf s := Nat.le_refl _

/-- **`next_interlaced_row_impl`**: when it delivers a row, the `Lazy` model's `rowImpl` delivers; when it answers
    `NoMoreImageData`, so does `rowImpl`; the counters and the position in the data stay related -/
theorem nextRowImpl_sim (cfg : Cfg) (t : TCfg) (hts : CreateSafe t) (i : Info) (rowlen outLen : Nat) (dEnd : Dec) (bEnd : Bytes)
    (r : R) (s : Lazy.St) (idx : Nat) (hpos : Pos cfg i r s.src dEnd bEnd) (hc : Cnt i r s) (hrl : s.sub.getD idx 0 = rowlen)
    (r' : R) (x : Except Reader.Res Bytes) (hx : nextRowImpl cfg t r rowlen outLen = (r', x))
    (hok : ∀ e, x = .error e → okRes e = true) :
    ∃ s', Lazy.rowImpl s idx = (s', implRes x) ∧ Pos cfg i r' s'.src dEnd bEnd ∧ Cnt i r' s' ∧
      s'.fi = s.fi ∧ s'.sub = s.sub ∧ s'.finished = s.finished ∧ s'.atEnd = s.atEnd ∧
      ((∃ out, x = .ok out ∧ RowImplFrame i r r' ∧ s'.cur = Lazy.advance s) ∨
       (x = .error (.err .format "NoMoreImageData") ∧ RowFrame r r' ∧ s'.cur = s.cur)) := by
  unfold nextRowImpl at hx
  cases hraw : nextRawRow cfg rowlen (fuelOf r) r with
  | mk r1 x1 =>
    rw [hraw] at hx
    cases x1 with
    | error e =>
      simp only [Prod.mk.injEq] at hx
      obtain ⟨rfl, rfl⟩ := hx
      obtain ⟨s1, hrun, hpos1, hc1, hfr1, hlf1, herr1⟩ :=
        nextRawRow_sim cfg i rowlen dEnd bEnd (fuelOf r) r s (Lazy.fuelOf s) (fuelOf_ok s) hpos hc r1 (.error e) hraw
          (fun e' he' => by cases he'; exact hok e rfl)
      have he := herr1 e rfl
      subst he
      refine ⟨s1, ?_, hpos1, hc1, hlf1.fi, hlf1.sub, hlf1.finished, hlf1.atEnd, Or.inr ⟨rfl, hfr1, hlf1.cur⟩⟩
      unfold Lazy.rowImpl
      rw [hrl, hrun]
      rfl
    | ok u =>
      cases u
      obtain ⟨s1, hrun, hpos1, hc1, hfr1, hlf1, _⟩ :=
        nextRawRow_sim cfg i rowlen dEnd bEnd (fuelOf r) r s (Lazy.fuelOf s) (fuelOf_ok s) hpos hc r1 (.ok ()) hraw
          (fun e' he' => by cases he')
      simp only at hx
      by_cases hlen : r1.ub.prevRow.length ≠ rowlen - 1
      · rw [if_pos hlen] at hx
        simp only [Prod.mk.injEq] at hx
        have := hok _ hx.2.symm
        simp [okRes] at this
      · rw [if_neg hlen] at hx
        have hi1 : infoOf r1 = some i := hc1.info
        simp only [hi1] at hx
        have hadv : Lazy.advance s1 = Lazy.advance s := by unfold Lazy.advance; rw [hlf1.cur, hlf1.sub]
        -- the fields of the result that do not depend on the transformation
        have fin : ∀ r2 : R, r2.dec = r1.dec → avail r2 = avail r1 → r2.remaining = r1.remaining → r2.ub = r1.ub →
            r2.sub = r1.sub → r2 = { r1 with cached := some (r.cached.getD i) } →
            ∃ s', Lazy.rowImpl s idx = (s', none) ∧
              Pos cfg i ({ r2 with sub := r2.sub.advance } : R) s'.src dEnd bEnd ∧
              Cnt i ({ r2 with sub := r2.sub.advance } : R) s' ∧
              s'.fi = s.fi ∧ s'.sub = s.sub ∧ s'.finished = s.finished ∧ s'.atEnd = s.atEnd ∧
              RowImplFrame i r ({ r2 with sub := r2.sub.advance } : R) ∧ s'.cur = Lazy.advance s := by
          intro r2 hd ha hrem hub hsub hr2
          refine ⟨{ s1 with cur := Lazy.advance s1 }, ?_, (hpos1.congr hd ha), ?_, hlf1.fi, hlf1.sub, hlf1.finished,
            hlf1.atEnd, ?_, hadv⟩
          · unfold Lazy.rowImpl
            rw [hrl, hrun]
            rfl
          · exact hc1.congr hd hrem (by show r2.sub.advance.caf = _; rw [(advance_dims _).2.2.2, hsub]) hub rfl rfl rfl rfl
          · unfold RowImplFrame
            unfold RowFrame at hfr1
            rw [hr2]
            simp only
            rw [hfr1]
            simp only [advance_caf]
        unfold getTransform at hx
        cases hca : r1.cached with
        | some snap =>
          simp only [hca] at hx
          have hca0 : r.cached = some snap := by unfold RowFrame at hfr1; rw [hfr1] at hca; exact hca
          cases hap : t.apply snap r1.flags i r1.ub.prevRow outLen with
          | none =>
            rw [hap] at hx
            simp only [Prod.mk.injEq] at hx
            have := hok _ hx.2.symm
            simp [okRes] at this
          | some out =>
            rw [hap] at hx
            simp only [Prod.mk.injEq] at hx
            obtain ⟨rfl, rfl⟩ := hx
            obtain ⟨s', h1, h2, h3, h4, h5, h6, h7, h8, h9⟩ := fin { r1 with cached := some snap } rfl rfl rfl rfl rfl
              (by rw [hca0]; rfl)
            exact ⟨s', h1, h2, h3, h4, h5, h6, h7, Or.inl ⟨out, rfl, h8, h9⟩⟩
        | none =>
          simp only [hca] at hx
          have hca0 : r.cached = none := by unfold RowFrame at hfr1; rw [hfr1] at hca; exact hca
          cases hcr : t.create i r1.flags with
          | error w =>
            rw [hcr] at hx
            simp only at hx
            by_cases hp : w.startsWith "panic" = true
            · simp only [hp, if_true, Prod.mk.injEq] at hx
              have := hok _ hx.2.symm
              simp [okRes] at this
            · simp only [hp, Bool.false_eq_true, if_false, Prod.mk.injEq] at hx
              have := hok _ hx.2.symm
              obtain ⟨w1, w2⟩ := hts _ _ _ hcr
              simp [okRes, w1, w2] at this
          | ok u =>
            cases u
            rw [hcr] at hx
            simp only at hx
            cases hap : t.apply i r1.flags i r1.ub.prevRow outLen with
            | none =>
              rw [hap] at hx
              simp only [Prod.mk.injEq] at hx
              have := hok _ hx.2.symm
              simp [okRes] at this
            | some out =>
              rw [hap] at hx
              simp only [Prod.mk.injEq] at hx
              obtain ⟨rfl, rfl⟩ := hx
              obtain ⟨s', h1, h2, h3, h4, h5, h6, h7, h8, h9⟩ := fin { r1 with cached := some i } rfl rfl rfl rfl rfl
                (by rw [hca0]; rfl)
              exact ⟨s', h1, h2, h3, h4, h5, h6, h7, Or.inl ⟨out, rfl, h8, h9⟩⟩

/-! ## `finish_decoding` -/

theorem discard_arrOf : ∀ (pend : List (Ev × Bytes)), DataEvs pend → ∀ (s : Lazy.St) (fuel : Nat), pend.length ≤ fuel →
    s.src = some (arrOf pend) → Lazy.discard fuel s = ({ s with src := none }, none) := by
  intro pend h
  induction h with
  | last dl =>
    intro s fuel hf hs
    cases fuel with
    | zero => simp at hf
    | succ fuel =>
      rw [Lazy.discard]
      have : Lazy.pull s = ({ s with src := none }, .done dl.length) := by unfold Lazy.pull; rw [hs, arrOf_last]
      rw [this]
  | more ev data rest hm hr ih =>
    intro s fuel hf hs
    cases fuel with
    | zero => simp at hf
    | succ fuel =>
      rw [Lazy.discard]
      have : Lazy.pull s = ({ s with src := some (arrOf rest) }, .more data.length) := by
        unfold Lazy.pull; rw [hs, arrOf_more hr]
      rw [this]
      simp only
      rw [ih { s with src := some (arrOf rest) } fuel (by simp at hf; omega) rfl]

theorem trace_length_lt_fuel {cfg : Cfg} {P : Dec → Prop} {r : R} {evs : List (Ev × Bytes)} {d' : Dec} {b' : Bytes}
    (h : Trace cfg P r.dec (avail r) evs d' b') : evs.length < fuelOf r := by
  have h1 := h.length_le
  have h2 := fuelOf_ge r
  simp only [M] at h2
  omega

/-- **`finish_decoding`** with no row pending: the rest of the frame's data is read and dropped, the frame is closed -/
theorem finishDecoding_sim (cfg : Cfg) (i : Info) (dEnd : Dec) (bEnd : Bytes) (r : R) (s : Lazy.St)
    (hpos : Pos cfg i r s.src dEnd bEnd) (hc : Cnt i r s) (hcur : r.sub.cur = none) (hscur : s.cur = none)
    (r' : R) (x : Except Reader.Res Unit) (hx : finishDecoding cfg r = (r', x)) (hok : ∀ e, x = .error e → okRes e = true) :
    x = .ok () ∧ ∃ s', Lazy.finishDecoding s = (s', none) ∧ Pos cfg i r' s'.src dEnd bEnd ∧ Cnt i r' s' ∧ s'.src = none ∧
      LFrame s s' ∧ r'.sub = { r.sub with caf := true } ∧ SameEnv r r' ∧ r'.ub = r.ub ∧ r'.cached = r.cached ∧
      r'.scratchLen = r.scratchLen ∧ r'.bpp = r.bpp := by
  unfold finishDecoding at hx
  unfold Lazy.finishDecoding
  simp only [hcur, Option.isSome_none, Bool.false_eq_true, if_false] at hx
  simp only [hscur, Option.isSome_none, Bool.false_eq_true, if_false]
  cases hcaf : r.sub.caf with
  | true =>
    have hcaf' : s.caf = true := by rw [hc.caf]; exact hcaf
    simp only [hcaf, if_true, Prod.mk.injEq] at hx
    rw [if_pos hcaf']
    obtain ⟨rfl, rfl⟩ := hx
    cases hpos with
    | inData pend hev htr hs => have := hc.closed.2 hcaf; rw [hs] at this; cases this
    | after hd hb hs =>
      refine ⟨rfl, s, rfl, .after hd hb hs, hc, hs, LFrame.refl _, ?_, SameEnv.refl _, rfl, rfl, rfl, rfl⟩
      cases hs' : r.sub with
      | mk w h rl cur iter caf => rw [hs'] at hcaf; simp only at hcaf; subst hcaf; rfl
  | false =>
    have hcaf' : s.caf = false := by rw [hc.caf]; exact hcaf
    simp only [hcaf, Bool.false_eq_true, if_false] at hx
    rw [if_neg (by simp [hcaf'])]
    cases hpos with
    | after hd hb hs => rw [hc.closed.1 hs] at hcaf; cases hcaf
    | inData pend hev htr hs =>
      obtain ⟨r1, hrun, ha, ho1, hp1⟩ :=
        finishDecodingImageData_trace pend r (fuelOf r) (trace_length_lt_fuel htr) hc.out hev htr
      have hne : pend ≠ [] := by intro h; subst h; cases hev
      have hfr := ha.frame
      have hse := hfr.sameEnv
      unfold Reader.Frame at hfr
      have hrem1 : r1.remaining = r.remaining := by rw [hfr]
      have hsub1 : r1.sub = r.sub := by rw [hfr]
      have hub1 : r1.ub = r.ub := by rw [hfr]
      have hca1 : r1.cached = r.cached := by rw [hfr]
      have hsl1 : r1.scratchLen = r.scratchLen := by rw [hfr]
      have hbpp1 : r1.bpp = r.bpp := by rw [hfr]
      rw [hrun] at hx
      simp only at hx
      have hdis : Lazy.discard (Lazy.fuelOf s) s = ({ s with src := none }, none) :=
        discard_arrOf pend hev s (Lazy.fuelOf s) (by
          have := srcLen_arrOf hev
          unfold Lazy.fuelOf; rw [hs, this]; omega) hs
      rw [hdis]
      simp only
      by_cases hrem0 : r.remaining = 0
      · have hmf : markFlushed r1 = .error (.panic "assert!(self.remaining_frames > 0) (mod.rs:452)") := by
          unfold markFlushed; rw [if_pos (by omega)]
        rw [hmf] at hx
        simp only [Prod.mk.injEq] at hx
        have := hok _ hx.2.symm
        simp [okRes] at this
      · have hmf : markFlushed r1 = .ok { r1 with remaining := r1.remaining - 1, sub := { r1.sub with caf := true } } := by
          unfold markFlushed; rw [if_neg (by omega)]
        rw [hmf] at hx
        simp only [Prod.mk.injEq] at hx
        have hmk : Lazy.mark ({ s with src := none } : Lazy.St) =
            .ok { ({ s with src := none } : Lazy.St) with rem := s.rem - 1, caf := true } := by
          unfold Lazy.mark
          have : s.rem ≠ 0 := by rw [hc.rem]; exact hrem0
          simp [this]
        rw [hmk]
        simp only
        obtain ⟨rfl, rfl⟩ := hx
        refine ⟨rfl, _, rfl, .after ha.dec ha.avail rfl, ?_, rfl, ⟨rfl, rfl, rfl, rfl, rfl⟩, ?_,
          ⟨hse.input, hse.visible, hse.flags, hse.isReader, hse.finished, hse.dead, hse.pendingBuf⟩, hub1, hca1, hsl1, hbpp1⟩
        · exact ⟨hp1 hne, by show s.rem - 1 = r1.remaining - 1; rw [hrem1, hc.rem], rfl,
            by show s.buf = r1.ub.currLen; rw [hub1]; exact hc.buf, by show r1.ub.Inv; rw [hub1]; exact hc.ubInv, ho1,
            ⟨fun _ => rfl, fun _ => rfl⟩⟩
        · show ({ r1.sub with caf := true } : Sub) = _
          rw [hsub1]

/-! ## the row cursor -/

/-- all row-units of a (sub)frame of `w × h` pixels, in delivery order -/
def scan (il : Bool) (w h : Nat) : List (Nat × Nat × Nat) :=
  if il then Adam7.specRows w h else (List.range h).map fun l => (0, l, w)

/-- `rowlen` of a row-unit -/
def rlOf (i : Info) (x : Nat × Nat × Nat) : Nat := rawRowLengthFromWidth i.color i.depth x.2.2

/-- the row cursors of the two models: the `Reader`'s iterator stands before the row-units `ls`, a suffix of the
    (sub)frame's row-units; the `Lazy` cursor is the index of the first of them -/
structure CurRel (i : Info) (r : R) (s : Lazy.St) : Prop where
  iterWf : IterWf i.interlaced r.sub
  curOk : CurOk i.interlaced r.sub
  rowlen : r.sub.rowlen = rawRowLengthFromWidth i.color i.depth r.sub.width
  sub : s.sub = (scan i.interlaced r.sub.width r.sub.height).map (rlOf i)
  rows : ∃ ls, Rows r.sub ls ∧ ls.length ≤ s.sub.length ∧
    ls = (scan i.interlaced r.sub.width r.sub.height).drop (s.sub.length - ls.length) ∧
    s.cur = if ls = [] then none else some (s.sub.length - ls.length)

theorem drop_cons_facts {α : Type} {l : List α} {n : Nat} {x : α} {t : List α} (h : l.drop n = x :: t) :
    l[n]? = some x ∧ t = l.drop (n + 1) := by
  constructor
  · have := List.head?_drop (l := l) (i := n)
    rw [h] at this
    simpa using this.symm
  · have : (l.drop n).tail = l.drop (n + 1) := by simp
    rw [h] at this
    simpa using this

theorem rows_cur_none {s : Sub} {ls : List (Nat × Nat × Nat)} (h : Rows s ls) (hc : s.cur = none) : ls = [] := by
  rcases h with ⟨c, h1, _⟩ | ⟨_, h2⟩
  · rw [hc] at h1; cases h1
  · exact h2

theorem rows_cur_some {s : Sub} {ls : List (Nat × Nat × Nat)} {c : IInfo} (h : Rows s ls) (hc : s.cur = some c) :
    ∃ ls', ls = c.desc s.width :: ls' := by
  rcases h with ⟨c', h1, h2⟩ | ⟨h1, _⟩
  · rw [hc] at h1; cases h1; exact ⟨_, h2⟩
  · rw [hc] at h1; cases h1

/-- the cursor relation only looks at the sub-frame and the `Lazy` cursor -/
theorem CurRel.congr {i : Info} {r r' : R} {s s' : Lazy.St} (h : CurRel i r s) (hsub : r'.sub = { r.sub with caf := r'.sub.caf })
    (h1 : s'.sub = s.sub) (h2 : s'.cur = s.cur) : CurRel i r' s' := by
  obtain ⟨a, b, c, d, ls, e1, e2, e3, e4⟩ := h
  refine ⟨?_, ?_, ?_, ?_, ls, ?_, ?_, ?_, ?_⟩
  · rw [hsub]; exact a
  · rw [hsub]; exact b
  · rw [hsub]; exact c
  · rw [h1, hsub]; exact d
  · rw [hsub]; exact e1
  · rw [h1]; exact e2
  · rw [h1, hsub]; exact e3
  · rw [h1, h2]; exact e4

/-- how a row-level result of the `Reader` model and one of the `Lazy` model correspond -/
inductive RowMatch (i : Info) (r : R) (s s' : Lazy.St) : Reader.Res → Lazy.Res → Prop
  | noRow (hcur : r.sub.cur = none) (hs' : s'.cur = none) : RowMatch i r s s' .noRow .none
  | row (ii : IInfo) (out : Bytes) (idx : Nat) (hcur : r.sub.cur = some ii) (hs : s.cur = some idx)
      (hidx : (scan i.interlaced r.sub.width r.sub.height)[idx]? = some (ii.desc r.sub.width))
      (hadv : s'.cur = Lazy.advance s) :
      RowMatch i r s s' (.row ii out) (.row s.fi idx)
  | noMore (hs' : s'.cur = s.cur) : RowMatch i r s s' (.err .format "NoMoreImageData") (.err .noMoreImageData)

/-- what a row-level call keeps -/
structure RowKeep (r r' : R) (s s' : Lazy.St) : Prop where
  env : SameEnv r r'
  width : r'.sub.width = r.sub.width
  height : r'.sub.height = r.sub.height
  fi : s'.fi = s.fi
  sub : s'.sub = s.sub
  finished : s'.finished = s.finished
  atEnd : s'.atEnd = s.atEnd

theorem RowFrame.sameEnv {r r' : R} (h : RowFrame r r') : SameEnv r r' := by
  unfold RowFrame at h; rw [h]; exact ⟨rfl, rfl, rfl, rfl, rfl, rfl, rfl⟩

/-- **one row with the cursors**: `next_interlaced_row_impl` for the current row `ii` against `rowImpl` for the `Lazy`
    cursor -/
theorem rowStep_sim (cfg : Cfg) (t : TCfg) (hts : CreateSafe t) (i : Info) (dEnd : Dec) (bEnd : Bytes)
    (r : R) (s : Lazy.St) (hpos : Pos cfg i r s.src dEnd bEnd) (hc : Cnt i r s) (hcr : CurRel i r s)
    (ii : IInfo) (hcur : r.sub.cur = some ii) (outLen : Nat)
    (r' : R) (x : Except Reader.Res Bytes)
    (hx : nextRowImpl cfg t r (rowlenOf i.color i.depth r.sub ii) outLen = (r', x))
    (hok : ∀ e, x = .error e → okRes e = true) :
    ∃ idx s', s.cur = some idx ∧ (scan i.interlaced r.sub.width r.sub.height)[idx]? = some (ii.desc r.sub.width) ∧
      Lazy.rowImpl s idx = (s', implRes x) ∧ Pos cfg i r' s'.src dEnd bEnd ∧ Cnt i r' s' ∧ CurRel i r' s' ∧
      RowKeep r r' s s' ∧
      ((∃ out, x = .ok out ∧ s'.cur = Lazy.advance s) ∨
       (x = .error (.err .format "NoMoreImageData") ∧ s'.cur = s.cur)) := by
  obtain ⟨hiw, hcu, hrlen, hsub, ls, hrows, hlsl, hlsd, hscur⟩ := hcr
  obtain ⟨ls', hls⟩ := rows_cur_some hrows hcur
  subst hls
  generalize hidx : s.sub.length - (ii.desc r.sub.width :: ls').length = idx at hlsd hscur
  have hscur' : s.cur = some idx := by simpa using hscur
  obtain ⟨hget, hls'⟩ := drop_cons_facts hlsd.symm
  have hrl : s.sub.getD idx 0 = rowlenOf i.color i.depth r.sub ii := by
    rw [hsub, List.getD_eq_getElem?_getD, List.getElem?_map, hget]
    simp only [Option.map_some, Option.getD_some, rlOf]
    cases ii with
    | null l => simp only [IInfo.desc, rowlenOf]; exact hrlen.symm
    | adam7 p l w => rfl
  obtain ⟨s1, hrun, hpos1, hc1, hfi1, hsub1, hfin1, hend1, hcase⟩ :=
    nextRowImpl_sim cfg t hts i _ _ dEnd bEnd r s idx hpos hc hrl r' x hx hok
  rcases hcase with ⟨out, rfl, hrif, hcur1⟩ | ⟨rfl, hrf, hcur1⟩
  · have hsr : r'.sub = { r.sub.advance with caf := r'.sub.caf } := hrif.facts.1
    have hse : SameEnv r r' := hrif.sameEnv
    have hadv := advance_ok hiw
    refine ⟨idx, s1, hscur', hget, hrun, hpos1, hc1, ?_, ⟨hse, by rw [hsr]; exact advance_width _,
      by rw [hsr]; exact advance_height _, hfi1, hsub1, hfin1, hend1⟩, Or.inl ⟨out, rfl, hcur1⟩⟩
    refine ⟨by rw [hsr]; exact hadv.1, by rw [hsr]; exact hadv.2, ?_, ?_, ls', ?_, ?_, ?_, ?_⟩
    · rw [hsr]
      show r.sub.advance.rowlen = rawRowLengthFromWidth i.color i.depth r.sub.advance.width
      rw [advance_rowlen, advance_width, hrlen]
    · rw [hsub1, hsub, hsr]
      show _ = (scan i.interlaced r.sub.advance.width r.sub.advance.height).map (rlOf i)
      rw [advance_width, advance_height]
    · rw [hsr]; exact (hrows.advance hiw.subWf').caf _
    · rw [hsub1]; simp only [List.length_cons] at hlsl; omega
    · rw [hsub1, hsr]
      show ls' = (scan i.interlaced r.sub.advance.width r.sub.advance.height).drop _
      have e : s.sub.length - ls'.length = idx + 1 := by
        simp only [List.length_cons] at hidx hlsl
        omega
      rw [advance_width, advance_height, e]
      exact hls'
    · rw [hcur1, hsub1]
      unfold Lazy.advance
      rw [hscur']
      cases ls' with
      | nil =>
        simp only [List.length_cons, List.length_nil] at hidx hlsl
        have : ¬ idx + 1 < s.sub.length := by omega
        simp [this]
      | cons y ys =>
        simp only [List.length_cons] at hidx hlsl ⊢
        have : idx + 1 < s.sub.length := by omega
        simp only [this, if_true, reduceCtorEq, if_false]
        congr 1; omega
  · have hsr : r'.sub = { r.sub with caf := r'.sub.caf } := by
      unfold RowFrame at hrf; rw [hrf]
    have hse : SameEnv r r' := RowFrame.sameEnv hrf
    refine ⟨idx, s1, hscur', hget, hrun, hpos1, hc1, ?_, ⟨hse, by rw [hsr], by rw [hsr], hfi1, hsub1, hfin1, hend1⟩,
      Or.inr ⟨rfl, hcur1⟩⟩
    exact CurRel.congr ⟨hiw, hcu, hrlen, hsub, _, hrows, hlsl, by rw [hidx]; exact hlsd, by rw [hidx]; exact hscur⟩ hsr
      hsub1 hcur1

/-- **`read_row`** (any caller buffer) against the `Lazy` model's `next_row` -/
theorem readRow_sim (cfg : Cfg) (t : TCfg) (hts : CreateSafe t) (i : Info) (dEnd : Dec) (bEnd : Bytes)
    (r : R) (s : Lazy.St) (bufLen : Nat) (hpos : Pos cfg i r s.src dEnd bEnd) (hc : Cnt i r s) (hcr : CurRel i r s)
    (r' : R) (res : Reader.Res) (hx : readRow cfg t r bufLen = (r', res)) (hok : okRes res = true) :
    ∃ s' lres, Lazy.nextRow s = (s', lres) ∧ Pos cfg i r' s'.src dEnd bEnd ∧ Cnt i r' s' ∧ CurRel i r' s' ∧
      RowKeep r r' s s' ∧ RowMatch i r s s' res lres := by
  cases hcur : r.sub.cur with
  | none =>
    obtain ⟨hiw, hcu, hrlen, hsub, ls, hrows, hlsl, hlsd, hscur⟩ := hcr
    have hls : ls = [] := rows_cur_none hrows hcur
    subst hls
    have hscur' : s.cur = none := by simpa using hscur
    unfold readRow at hx
    simp only [hcur] at hx
    cases hfd : finishDecoding cfg r with
    | mk r1 x1 =>
      rw [hfd] at hx
      have hok1 : ∀ e, x1 = .error e → okRes e = true := by
        intro e he; subst he
        simp only [Prod.mk.injEq] at hx
        rw [← hx.2] at hok; exact hok
      obtain ⟨hx1, s1, hrun, hpos1, hc1, _, hlf1, hsub1, hse1, _⟩ :=
        finishDecoding_sim cfg i dEnd bEnd r s hpos hc hcur hscur' r1 x1 hfd hok1
      subst hx1
      simp only [Prod.mk.injEq] at hx
      obtain ⟨rfl, rfl⟩ := hx
      refine ⟨s1, .none, ?_, hpos1, hc1, ?_, ⟨hse1, by rw [hsub1], by rw [hsub1], hlf1.fi, hlf1.sub, hlf1.finished, hlf1.atEnd⟩,
        .noRow hcur (hlf1.cur.trans hscur')⟩
      · unfold Lazy.nextRow
        rw [hscur']
        simp only [hrun]
      · exact CurRel.congr ⟨hiw, hcu, hrlen, hsub, [], hrows, hlsl, hlsd, hscur⟩ (by rw [hsub1]) hlf1.sub hlf1.cur
  | some ii =>
    rw [readRow_some cfg t r bufLen ii hcur] at hx
    generalize hr0 : (if ii.line = 0 then ({ r with ub := r.ub.resetPrev } : R) else r) = r0 at hx
    have hr0' : r0 = { r with ub := r0.ub } := by subst hr0; split <;> rfl
    have hub0 : r0.ub.currLen = r.ub.currLen ∧ r0.ub.Inv := by
      subst hr0
      split
      · exact ⟨rfl, UB.inv_resetPrev _ hc.ubInv⟩
      · exact ⟨rfl, hc.ubInv⟩
    have hd0 : r0.dec = r.dec := by rw [hr0']
    have ha0 : avail r0 = avail r := by rw [hr0']; rfl
    have hsub0 : r0.sub = r.sub := by rw [hr0']
    have hpos0 : Pos cfg i r0 s.src dEnd bEnd := hpos.congr hd0 ha0
    have hc0 : Cnt i r0 s :=
      ⟨by rw [hd0]; exact hc.info, by rw [hr0']; exact hc.rem, by rw [hsub0]; exact hc.caf, by rw [hub0.1]; exact hc.buf,
       hub0.2, by rw [hd0]; exact hc.out, by rw [hsub0]; exact hc.closed⟩
    have hcr0 : CurRel i r0 s := CurRel.congr hcr (by rw [hsub0]) rfl rfl
    have hi0 : infoOf r0 = some i := hc0.info
    simp only [hi0] at hx
    by_cases hbl : bufLen < lineSizeFor t r0 i ii
    · rw [if_pos hbl] at hx
      simp only [Prod.mk.injEq] at hx
      rw [← hx.2] at hok
      simp [okRes] at hok
    · rw [if_neg hbl] at hx
      cases himpl : nextRowImpl cfg t r0 (rowlenOf i.color i.depth r0.sub ii) (lineSizeFor t r0 i ii) with
      | mk r1 x1 =>
        rw [himpl] at hx
        have hok1 : ∀ e, x1 = .error e → okRes e = true := by
          intro e he; subst he
          simp only [Prod.mk.injEq] at hx
          rw [← hx.2] at hok; exact hok
        obtain ⟨idx, s1, hscur', hget, hrun, hpos1, hc1, hcr1, hk1, hcase⟩ :=
          rowStep_sim cfg t hts i dEnd bEnd r0 s hpos0 hc0 hcr0 ii (by rw [hsub0]; exact hcur) _ r1 x1 himpl hok1
        have hk : RowKeep r r1 s s1 := by
          obtain ⟨e1, e2, e3, e4, e5, e6, e7⟩ := hk1
          rw [hr0'] at e1
          exact ⟨⟨e1.input, e1.visible, e1.flags, e1.isReader, e1.finished, e1.dead, e1.pendingBuf⟩,
            by rw [e2, hsub0], by rw [e3, hsub0], e4, e5, e6, e7⟩
        rw [hsub0] at hget
        rcases hcase with ⟨out, rfl, hadv1⟩ | ⟨rfl, hsame1⟩
        · simp only [Prod.mk.injEq] at hx
          obtain ⟨rfl, rfl⟩ := hx
          refine ⟨s1, .row s.fi idx, ?_, hpos1, hc1, hcr1, hk, .row ii out idx hcur hscur' hget hadv1⟩
          unfold Lazy.nextRow
          rw [hscur']
          simp only [hrun, implRes]
        · simp only [Prod.mk.injEq] at hx
          obtain ⟨rfl, rfl⟩ := hx
          refine ⟨s1, .err .noMoreImageData, ?_, hpos1, hc1, hcr1, hk, .noMore hsame1⟩
          unfold Lazy.nextRow
          rw [hscur']
          simp only [hrun, implRes]

/-- **`next_row` / `next_interlaced_row`** -/
theorem nextInterlacedRow_sim (cfg : Cfg) (t : TCfg) (hts : CreateSafe t) (i : Info) (dEnd : Dec) (bEnd : Bytes)
    (r : R) (s : Lazy.St) (hpos : Pos cfg i r s.src dEnd bEnd) (hc : Cnt i r s) (hcr : CurRel i r s)
    (r' : R) (res : Reader.Res) (hx : nextInterlacedRow cfg t r = (r', res)) (hok : okRes res = true) :
    ∃ s' lres, Lazy.nextRow s = (s', lres) ∧ Pos cfg i r' s'.src dEnd bEnd ∧ Cnt i r' s' ∧ CurRel i r' s' ∧
      RowKeep r r' s s' ∧ RowMatch i r s s' res lres := by
  unfold nextInterlacedRow at hx
  have hi : infoOf r = some i := hc.info
  simp only [hi] at hx
  generalize hrs : ({ r with scratchLen := outLineSize t i r.flags r.sub.width } : R) = rs at hx
  have hpos' : Pos cfg i rs s.src dEnd bEnd := by subst hrs; exact hpos.congr rfl rfl
  have hc' : Cnt i rs s := by subst hrs; exact hc.congr rfl rfl rfl rfl rfl rfl rfl rfl
  have hcr' : CurRel i rs s := by subst hrs; exact CurRel.congr hcr rfl rfl rfl
  obtain ⟨s', lres, h1, h2, h3, h4, h5, h6⟩ := readRow_sim cfg t hts i dEnd bEnd rs s _ hpos' hc' hcr' r' res hx hok
  subst hrs
  refine ⟨s', lres, h1, h2, h3, h4, ⟨⟨h5.env.input, h5.env.visible, h5.env.flags, h5.env.isReader, h5.env.finished,
    h5.env.dead, h5.env.pendingBuf⟩, h5.width, h5.height, h5.fi, h5.sub, h5.finished, h5.atEnd⟩, ?_⟩
  cases h6 with
  | noRow a b => exact .noRow a b
  | row ii out idx a b c d => exact .row ii out idx a b c d
  | noMore a => exact .noMore a

end Png.LazyRefine
