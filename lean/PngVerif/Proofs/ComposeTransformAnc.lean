import PngVerif.Proofs.ComposeAnc
/-!
# C08 end to end: `PLTE` and `tRNS` among the chunks before the image data

`AncStep` (`Proofs/ComposeAnc.lean`) admits any chunk `parse_chunk` accepts.  The two chunks the transformations read
are accepted as follows, and leave the following in `Info`:

* `ancStep_PLTE`: a `PLTE` chunk of ANY contents (within the limits), when none was seen: `info.palette = some body`;
* `ancStep_tRNS`: a `tRNS` chunk before the image data, when none was seen — grayscale: at least 2 bytes, RGB: at
  least 6 bytes, indexed: after `PLTE` —: `info.trns = some (storedTrns color depth body)` (`parse_trns`,
  stream.rs:1205-1268: below 16 bits only the low byte of each key sample is kept).
-/
namespace Png.Framing
open Png

/-- what `parse_trns` stores for the chunk body `v` -/
def storedTrns (color depth : Nat) (v : Bytes) : Bytes :=
  if color = 0 then (if depth < 16 then [v.getD 1 0] else v)
  else if color = 2 then (if depth < 16 then [v.getD 1 0, v.getD 3 0, v.getD 5 0] else v)
  else v

/-- **`PLTE`** of any contents, when no palette is stored yet, within the limits: the body becomes the palette -/
theorem ancStep_PLTE (cfg : Cfg) (d : Dec) (i : Info) (pal : Bytes) (hi : d.info = some i) (hn : i.palette = none)
    (hlim : pal.length ≤ d.limit) (hcap : pal.length ≤ d.cap) (hlen : pal.length < 2 ^ 32) :
    ∃ d', AncStep cfg d PLTE pal d' ∧ d'.info = some { i with palette := some pal } ∧ d'.limit = d.limit - pal.length ∧
      d'.cap = d.cap ∧ d'.haveIdat = d.haveIdat ∧ d'.opts = d.opts := by
  obtain ⟨f1, f2, f3, f4, f5⟩ := atParse_fields d PLTE pal
  have hp : parseChunk cfg (d.atParse PLTE pal) PLTE = .ok (.nothing,
      setInfo { ((d.atParse PLTE pal).atCrc PLTE) with limit := ((d.atParse PLTE pal).atCrc PLTE).limit - pal.length }
        (fun i => { i with palette := some pal })) := by
    refine parseChunk_of_ok ?_
    rw [dispatch_PLTE]
    unfold parsePlte withInfo
    rw [f1, hi]
    simp only [hn, Option.isSome_none, Bool.false_eq_true, if_false, f2]
    rw [reserve_ok _ _ (by rw [f5]; exact hlim)]
    rfl
  refine ⟨_, ⟨by decide +kernel, by decide +kernel, by decide +kernel, by decide +kernel, by decide +kernel,
    by decide +kernel, hlen, hcap, _, _, hp, rfl⟩, ?_, ?_, rfl, rfl, rfl⟩
  · show (((d.atParse PLTE pal).atCrc PLTE).info.map fun i => { i with palette := some pal }) = _
    rw [f1, hi]; rfl
  · show ((d.atParse PLTE pal).atCrc PLTE).limit - pal.length = _
    rw [f5]

/-- `parse_trns` on an acceptable chunk -/
theorem parseTrns_forward (D : Dec) (i : Info) (hi : D.info = some i) (hn : i.trns = none) (hh : D.haveIdat = false)
    (hlim : D.raw.length ≤ D.limit)
    (hshape : (i.color = 0 ∧ 2 ≤ D.raw.length) ∨ (i.color = 2 ∧ 6 ≤ D.raw.length) ∨ (i.color = 3 ∧ i.palette.isSome = true)) :
    parseTrns D = .ok (setInfo { D with limit := D.limit - D.raw.length }
      (fun i' => { i' with trns := some (storedTrns i.color i.depth D.raw) }), .nothing) := by
  unfold parseTrns withInfo
  rw [hi]
  simp only [bind, Except.bind, pure, Except.pure]
  rw [reserve_ok _ _ hlim]
  simp only [hn, Option.isSome_none, Bool.false_eq_true, if_false, hh]
  rcases hshape with ⟨hc, hl⟩ | ⟨hc, hl⟩ | ⟨hc, hp⟩
  · rw [hc]
    simp only [show ¬ D.raw.length < 2 from by omega, if_false, storedTrns, if_true]
    rw [hi]
  · rw [hc]
    simp only [show ¬ D.raw.length < 6 from by omega, if_false, storedTrns, if_true,
      show ¬ ((2 : Nat) = 0) from by decide]
    rw [hi]
  · rw [hc]
    have hpn : i.palette.isNone = false := by cases hq : i.palette with
      | none => rw [hq] at hp; cases hp
      | some _ => rfl
    simp only [hpn, Bool.false_eq_true, if_false, storedTrns, show ¬ ((3 : Nat) = 0) from by decide,
      show ¬ ((3 : Nat) = 2) from by decide]
    rw [hi]

/-- **`tRNS`** before the image data, when no `tRNS` is stored yet, within the limits: grayscale with at least 2
    bytes, RGB with at least 6 bytes, or indexed after `PLTE` -/
theorem ancStep_tRNS (cfg : Cfg) (d : Dec) (i : Info) (v : Bytes) (hi : d.info = some i) (hn : i.trns = none)
    (hh : d.haveIdat = false) (hlim : v.length ≤ d.limit) (hcap : v.length ≤ d.cap) (hlen : v.length < 2 ^ 32)
    (hshape : (i.color = 0 ∧ 2 ≤ v.length) ∨ (i.color = 2 ∧ 6 ≤ v.length) ∨ (i.color = 3 ∧ i.palette.isSome = true)) :
    ∃ d', AncStep cfg d tRNS v d' ∧ d'.info = some { i with trns := some (storedTrns i.color i.depth v) } ∧
      d'.limit = d.limit - v.length ∧ d'.cap = d.cap ∧ d'.haveIdat = d.haveIdat ∧ d'.opts = d.opts := by
  obtain ⟨f1, f2, f3, f4, f5⟩ := atParse_fields d tRNS v
  have hp := parseChunk_of_ok (cfg := cfg) (d := d.atParse tRNS v) (t := tRNS) (by
    rw [dispatch_tRNS]
    exact parseTrns_forward _ i (f1.trans hi) hn (f3.trans hh) (by rw [f2, f5]; exact hlim) (by rw [f2]; exact hshape))
  refine ⟨_, ⟨by decide +kernel, by decide +kernel, by decide +kernel, by decide +kernel, by decide +kernel,
    by decide +kernel, hlen, hcap, _, _, hp, rfl⟩, ?_, ?_, rfl, rfl, rfl⟩
  · show (((d.atParse tRNS v).atCrc tRNS).info.map fun i' =>
      { i' with trns := some (storedTrns i.color i.depth ((d.atParse tRNS v).atCrc tRNS).raw) }) = _
    rw [f1, hi, f2]; rfl
  · show ((d.atParse tRNS v).atCrc tRNS).limit - ((d.atParse tRNS v).atCrc tRNS).raw.length = _
    rw [f5, f2]

end Png.Framing
