import PngVerif.Proofs.ValidatorImage
/-!
# A concrete compressor the Lean inflater inverts: one stored deflate block in a zlib wrapper

`storedZlib x` = CMF/FLG `78 01`, one final stored block (`01`, LEN, NLEN, the bytes), Adler-32.  For every `x`
of at most 65535 bytes `Inf.zlibInflate` returns `x` and consumes the whole stream (`storedZlib_realInflate`).
This makes the compressor hypothesis of `C12_writer_valid` satisfiable by a concrete function (non-vacuity);
it is not a model of what flate2 / fdeflate emit.
-/
namespace Png.Enc
open Png Png.Val Png.Spec

theorem readBit_at (z : ByteArray) (p k v : Nat) (hp : p < z.size) (hk : k ≠ 7) (hv : z[p]!.toNat = v) :
    Inf.BitReader.readBit { data := z, pos := p, bit := k } = some ((v >>> k) &&& 1, { data := z, pos := p, bit := k + 1 }) := by
  simp only [Inf.BitReader.readBit, hp, if_true, hk, if_false, hv]

theorem stored_block (z : ByteArray) (n fuel : Nat) (hsz : z.size = 11 + n) (g2 : z[2]!.toNat = 1)
    (hlen : z[3]!.toNat + 256 * z[4]!.toNat = n) (hnlen : z[5]!.toNat + 256 * z[6]!.toNat = 65535 - n) (hn : n ≤ 65535) :
    Inf.inflateBlocks (1 <<< 40) (fuel + 1) { data := z, pos := 2 } ByteArray.empty =
      some ({ data := z, pos := 7 + n, bit := 0 }, ByteArray.empty ++ z.extract 7 (7 + n)) := by
  have a1 : 2 < z.size := by omega
  have a2 : ¬ 11 + n < 7 := by omega
  have a3 : n + (65535 - n) = 65535 := by omega
  have a4 : ¬ 1099511627776 < n := by omega
  have r1 := readBit_at z 2 0 1 a1 (by decide) g2
  have r2 : Inf.BitReader.readBits { data := z, pos := 2, bit := 1 } 2 = some (0, { data := z, pos := 2, bit := 3 }) := by
    simp only [Inf.BitReader.readBits, readBit_at z 2 1 1 a1 (by decide) g2, readBit_at z 2 2 1 a1 (by decide) g2,
      bind, Option.bind, pure]
    rfl
  unfold Inf.inflateBlocks
  simp only [r1, r2, bind, Option.bind]
  simp [Inf.BitReader.alignByte, hsz, hlen, hnlen, a2, a3, a4]

def storedZlib (x : Bytes) : Bytes :=
  [0x78, 0x01, 0x01, (x.length % 256).toUInt8, (x.length / 256).toUInt8,
    ((65535 - x.length) % 256).toUInt8, ((65535 - x.length) / 256).toUInt8] ++ (x ++ be32Bytes (Inf.adler (ofList x)))

theorem fold_inv (g : Nat × Nat → Nat → Nat × Nat) (hg : ∀ p i, (g p i).1 < 65521 ∧ (g p i).2 < 65521) :
    ∀ (l : List Nat) (p : Nat × Nat), p.1 < 65521 → p.2 < 65521 → (l.foldl g p).1 < 65521 ∧ (l.foldl g p).2 < 65521 := by
  intro l
  induction l with
  | nil => intro p h1 h2; exact ⟨h1, h2⟩
  | cons i l ih => intro p _ _; exact ih _ (hg p i).1 (hg p i).2

theorem adler_lt (b : ByteArray) : Inf.adler b < 2 ^ 32 := by
  simp only [Inf.adler, Std.Legacy.Range.forIn_eq_forIn_range', Std.Legacy.Range.size]
  simp [List.forIn_pure_yield_eq_foldl]
  have := fold_inv (fun b_1 a => ((b_1.fst + b[a]!.toNat) % 65521, (b_1.snd + (b_1.fst + b[a]!.toNat)) % 65521))
    (fun p i => ⟨Nat.mod_lt _ (by decide), Nat.mod_lt _ (by decide)⟩) (List.range' 0 b.size) (1, 0) (by decide) (by decide)
  omega

theorem storedZlib_inflate (x : Bytes) (hx : x.length ≤ 65535) :
    Inf.zlibInflate (ofList (storedZlib x)) true = some (ofList x, 11 + x.length) := by
  have hsz : (ofList (storedZlib x)).size = 11 + x.length := by
    rw [ofList_size]; simp [storedZlib, be32Bytes]; omega
  have g : ∀ k, (ofList (storedZlib x))[k]! = (storedZlib x).getD k 0 := fun k => ofList_get! _ k
  have g0 : (ofList (storedZlib x))[0]!.toNat = 0x78 := by rw [g]; rfl
  have g1 : (ofList (storedZlib x))[1]!.toNat = 1 := by rw [g]; rfl
  have g2 : (ofList (storedZlib x))[2]!.toNat = 1 := by rw [g]; rfl
  have hlen : (ofList (storedZlib x))[3]!.toNat + 256 * (ofList (storedZlib x))[4]!.toNat = x.length := by
    rw [g, g]; simp only [storedZlib, List.cons_append, List.getD_cons_succ, List.getD_cons_zero, u8_toNat]; omega
  have hnlen : (ofList (storedZlib x))[5]!.toNat + 256 * (ofList (storedZlib x))[6]!.toNat = 65535 - x.length := by
    rw [g, g]; simp only [storedZlib, List.cons_append, List.getD_cons_succ, List.getD_cons_zero, u8_toNat]; omega
  have hex : (ofList (storedZlib x)).extract 7 (7 + x.length) = ofList x := by
    rw [ofList_extract]
    simp [storedZlib]
  have had : be32At ((storedZlib x).drop (7 + x.length)) 0 = Inf.adler (ofList x) := by
    have : (storedZlib x).drop (7 + x.length) = be32Bytes (Inf.adler (ofList x)) ++ [] := by
      have e : storedZlib x = ([0x78, 0x01, 0x01, (x.length % 256).toUInt8, (x.length / 256).toUInt8,
        ((65535 - x.length) % 256).toUInt8, ((65535 - x.length) / 256).toUInt8] ++ x) ++ be32Bytes (Inf.adler (ofList x)) := by
        simp [storedZlib]
      rw [e, List.drop_left' (by simp; omega), List.append_nil]
    rw [this, be32_be32Bytes _ (adler_lt _)]
  have had' : (((ofList (storedZlib x))[7 + x.length]!.toNat * 256 + (ofList (storedZlib x))[7 + x.length + 1]!.toNat) * 256 +
      (ofList (storedZlib x))[7 + x.length + 2]!.toNat) * 256 + (ofList (storedZlib x))[7 + x.length + 3]!.toNat = Inf.adler (ofList x) := by
    rw [← had, show (ofList (storedZlib x))[7 + x.length]! = (ofList (storedZlib x))[7 + x.length + 0]! from rfl]
    simp only [ofList_get_drop, be32At, be32, Nat.zero_add]
  unfold Inf.zlibInflate
  simp only [hsz]
  rw [stored_block _ x.length _ hsz g2 hlen hnlen hx]
  have b1 : ¬ 11 + x.length < 2 := by omega
  have b2 : ¬ 7 + x.length + 4 > 11 + x.length := by omega
  simp only [b1, if_false, g0, g1, bind, Option.bind, Inf.BitReader.alignByte, if_true, b2, hex, had', ByteArray.empty_append]
  simp
  omega

theorem storedZlib_realInflate (x : Bytes) (hx : x.length ≤ 65535) : realInflate (storedZlib x) = some x := by
  unfold realInflate
  rw [storedZlib_inflate x hx]
  have : (storedZlib x).length = 11 + x.length := by simp [storedZlib, be32Bytes]; omega
  simp [this, ofList]
end Png.Enc
