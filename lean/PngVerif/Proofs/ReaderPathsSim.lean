import PngVerif.Proofs.ReaderPathsLoop
/-!
# Decoding paths, part 3: readers that differ only in `scratchLen` / `cached` behave alike (C13)

`PSim b r r'`: `r'` is `r` with another scratch length and — when `b` holds — possibly another cached
`Info` for the row transformation.  With `b := False` the relation needs no assumption; with
`b := True` it needs the contract `TCfg.SnapIndep` (the transformation does not depend on WHICH `Info`
of the stream it was created from).  Every call of the model maps related readers to related readers
and returns the same result (`SimRes`): `step_psim`, `run_psim`.
-/
namespace Png.Reader
open Png Png.Framing

/-- **contract of the row transformation, second part** (needed only where a frame is skipped before the
    first row of the stream was decoded): `create_transform_fn` succeeds on a later `Info` of the
    stream if it succeeded on an earlier one, and the function it returns does not depend on which of
    the two it was created from (`Evolves`: same IHDR fields, same `tRNS`, same palette) -/
structure TCfg.SnapIndep (t : TCfg) : Prop where
  create : ∀ snap i f, Evolves snap i → t.create snap f = .ok () → t.create i f = .ok ()
  apply : ∀ snap snap' cur f row n, Evolves snap cur → Evolves snap' cur → t.create snap f = .ok () →
    t.create snap' f = .ok () → t.apply snap f cur row n = t.apply snap' f cur row n

/-- same reader up to the scratch length and (if `b`) the `Info` the transformation was created from -/
def PSim (b : Prop) (r r' : R) : Prop := ∃ s c, r' = r.setSC s c ∧ (c = r.cached ∨ b)

theorem PSim.refl (b : Prop) (r : R) : PSim b r r := ⟨r.scratchLen, r.cached, rfl, Or.inl rfl⟩

theorem PSim.symm {b : Prop} {r r' : R} (h : PSim b r r') : PSim b r' r := by
  obtain ⟨s, c, rfl, hc⟩ := h
  exact ⟨r.scratchLen, r.cached, rfl, hc.imp (fun h => h.symm) id⟩

theorem PSim.trans {b : Prop} {a c d : R} (h1 : PSim b a c) (h2 : PSim b c d) : PSim b a d := by
  obtain ⟨s, x, rfl, hx⟩ := h1
  obtain ⟨s', y, rfl, hy⟩ := h2
  refine ⟨s', y, rfl, ?_⟩
  rcases hy with hy | hy
  · rcases hx with hx | hx
    · exact Or.inl (hy.trans hx)
    · exact Or.inr hx
  · exact Or.inr hy

theorem PSim.mono {b b' : Prop} {r r' : R} (h : PSim b r r') (hb : b → b') : PSim b' r r' := by
  obtain ⟨s, c, e, hc⟩ := h
  exact ⟨s, c, e, hc.imp id hb⟩

theorem PSim.scratch {b : Prop} (r : R) (n : Nat) : PSim b r { r with scratchLen := n } := ⟨n, r.cached, rfl, Or.inl rfl⟩

theorem PSim.keep {b : Prop} {r r' : R} (h : PSim b r r') : Keep r r' := by
  obtain ⟨s, c, rfl, _⟩ := h; exact ⟨rfl, rfl, rfl, rfl, rfl, rfl, rfl⟩

theorem PSim.sub {b : Prop} {r r' : R} (h : PSim b r r') : r'.sub = r.sub := by obtain ⟨s, c, rfl, _⟩ := h; rfl
theorem PSim.ub {b : Prop} {r r' : R} (h : PSim b r r') : r'.ub = r.ub := by obtain ⟨s, c, rfl, _⟩ := h; rfl
theorem PSim.remaining {b : Prop} {r r' : R} (h : PSim b r r') : r'.remaining = r.remaining := by
  obtain ⟨s, c, rfl, _⟩ := h; rfl
theorem PSim.pending {b : Prop} {r r' : R} (h : PSim b r r') : r'.pendingBuf = r.pendingBuf := by
  obtain ⟨s, c, rfl, _⟩ := h; rfl
theorem PSim.stream {b : Prop} {r r' : R} (h : PSim b r r') : SameStream r r' := by
  obtain ⟨s, c, rfl, _⟩ := h; exact ⟨rfl, rfl, rfl, rfl⟩
theorem PSim.cached {r r' : R} (h : PSim False r r') : r'.cached = r.cached := by
  obtain ⟨s, c, rfl, hc⟩ := h; exact hc.elim id False.elim

/-- related readers and equal results -/
def SimRes {α : Type} (b : Prop) (x x' : R × α) : Prop := PSim b x.1 x'.1 ∧ x'.2 = x.2

theorem SimRes.refl {α : Type} (b : Prop) (x : R × α) : SimRes b x x := ⟨PSim.refl b _, rfl⟩
theorem SimRes.symm {α : Type} {b : Prop} {x y : R × α} (h : SimRes b x y) : SimRes b y x := ⟨h.1.symm, h.2.symm⟩
theorem SimRes.trans {α : Type} {b : Prop} {x y z : R × α} (h1 : SimRes b x y) (h2 : SimRes b y z) : SimRes b x z :=
  ⟨h1.1.trans h2.1, h2.2.trans h1.2⟩

/-- a function that commutes with `setSC` and keeps `cached` maps related readers to related results -/
theorem simRes_of_comm {α : Type} {b : Prop} (f : R → R × α)
    (hf : ∀ r s c, f (r.setSC s c) = mapFst (fun r => r.setSC s c) (f r)) (hc : ∀ r, (f r).1.cached = r.cached)
    {r r' : R} (h : PSim b r r') : SimRes b (f r) (f r') := by
  obtain ⟨s, c, rfl, hx⟩ := h
  rw [hf]
  exact ⟨⟨s, c, rfl, hx.imp (fun h => h.trans (hc r).symm) id⟩, rfl⟩

/-! ## the cached transformation -/

/-- the cached `transform_fn` was created successfully from an earlier `Info` of this stream -/
def CachedOk (t : TCfg) (r : R) : Prop :=
  ∀ snap, r.cached = some snap → t.create snap r.flags = .ok () ∧ ∃ i, r.dec.info = some i ∧ Evolves snap i

theorem Inv.cachedOk {t : TCfg} {r : R} (h : Inv t r) : CachedOk t r := h.cached

theorem getTransform_some (t : TCfg) (r : R) (i snap : Info) (h : r.cached = some snap) :
    getTransform t r i = .ok (r, snap) := by unfold getTransform; rw [h]

theorem getTransform_none_ok (t : TCfg) (r : R) (i : Info) (h : r.cached = none) (hc : t.create i r.flags = .ok ()) :
    getTransform t r i = .ok ({ r with cached := some i }, i) := by unfold getTransform; rw [h]; simp only; rw [hc]

theorem getTransform_none_err (t : TCfg) (r : R) (i : Info) (w : String) (h : r.cached = none)
    (hc : t.create i r.flags = .error w) :
    getTransform t r i = .error (if w.startsWith "panic" then .panic w else .err .format w) := by
  unfold getTransform; rw [h]; simp only; rw [hc]; simp only; split <;> rfl

/-- what `getTransform` returns on related readers: the same error, or transformations that agree -/
theorem getTransform_sim {t : TCfg} {b : Prop} (hb : b → t.SnapIndep) {r : R} {i : Info} (s : Nat) (c : Option Info)
    (hc : c = r.cached ∨ b) (hi : r.dec.info = some i) (h1 : CachedOk t r) (h2 : CachedOk t (r.setSC s c)) :
    (∃ e, getTransform t r i = .error e ∧ getTransform t (r.setSC s c) i = .error e) ∨
    (∃ c1 snap c2 snap', getTransform t r i = .ok ({ r with cached := c1 }, snap) ∧
      getTransform t (r.setSC s c) i = .ok (R.setSC { r with cached := c1 } s c2, snap') ∧ (c2 = c1 ∨ b) ∧
      ∀ row n, t.apply snap r.flags i row n = t.apply snap' r.flags i row n) := by
  have hev : ∀ {x : R} {snap : Info}, x.dec.info = some i → CachedOk t x → x.cached = some snap →
      t.create snap x.flags = .ok () ∧ Evolves snap i := by
    intro x snap hxi hx hs
    obtain ⟨a, j, hj, e⟩ := hx snap hs
    rw [hxi] at hj; cases hj
    exact ⟨a, e⟩
  cases hr : r.cached with
  | none =>
    cases c with
    | none =>
      -- both create the transformation from the current `Info`
      cases hcr : t.create i r.flags with
      | error w =>
        left
        exact ⟨_, getTransform_none_err t r i w hr hcr, getTransform_none_err t (r.setSC s none) i w rfl hcr⟩
      | ok u =>
        right
        refine ⟨some i, i, some i, i, getTransform_none_ok t r i hr hcr, ?_, Or.inl rfl, fun _ _ => rfl⟩
        exact getTransform_none_ok t (r.setSC s none) i rfl hcr
    | some a' =>
      have hb' : b := hc.elim (fun h => by rw [hr] at h; cases h) id
      obtain ⟨k1, k2⟩ := hev (x := r.setSC s (some a')) hi h2 rfl
      have hcr : t.create i r.flags = .ok () := (hb hb').create a' i r.flags k2 k1
      right
      refine ⟨some i, i, some a', a', getTransform_none_ok t r i hr hcr, getTransform_some t _ i a' rfl, Or.inr hb', ?_⟩
      intro row n
      exact (hb hb').apply i a' i r.flags row n (Evolves.refl i) k2 hcr k1
  | some a =>
    obtain ⟨k1, k2⟩ := hev hi h1 hr
    have e1 : ({ r with cached := some a } : R) = r := by cases r; simp only at hr; subst hr; rfl
    cases c with
    | none =>
      have hb' : b := hc.elim (fun h => by rw [hr] at h; cases h) id
      have hcr : t.create i r.flags = .ok () := (hb hb').create a i r.flags k2 k1
      right
      refine ⟨some a, a, some i, i, by rw [e1]; exact getTransform_some t r i a hr, ?_, Or.inr hb', ?_⟩
      · rw [e1]; exact getTransform_none_ok t (r.setSC s none) i rfl hcr
      · intro row n
        exact (hb hb').apply a i i r.flags row n k2 (Evolves.refl i) k1 hcr
    | some a' =>
      obtain ⟨k3, k4⟩ := hev (x := r.setSC s (some a')) hi h2 rfl
      right
      refine ⟨some a, a, some a', a', by rw [e1]; exact getTransform_some t r i a hr,
        by rw [e1]; exact getTransform_some t _ i a' rfl, hc.imp (fun h => h.trans hr) id, ?_⟩
      intro row n
      rcases hc with hc | hb'
      · rw [hr] at hc; cases hc; rfl
      · exact (hb hb').apply a a' i r.flags row n k2 k4 k1 k3

/-- `next_interlaced_row_impl` after `next_raw_interlaced_row`, on related readers -/
theorem rowImplPost_sim {t : TCfg} {b : Prop} (hb : b → t.SnapIndep) (rowlen outLen : Nat) (r1 : R)
    (x : Except Res Unit) (s : Nat) (c : Option Info) (hc : c = r1.cached ∨ b) (h1 : CachedOk t r1)
    (h2 : CachedOk t (r1.setSC s c)) :
    SimRes b (rowImplPost t rowlen outLen (r1, x)) (rowImplPost t rowlen outLen (r1.setSC s c, x)) := by
  have hsame : PSim b r1 (r1.setSC s c) := ⟨s, c, rfl, hc⟩
  cases x with
  | error e => exact ⟨hsame, rfl⟩
  | ok u =>
    unfold rowImplPost
    simp only
    show SimRes b _ (if r1.ub.prevRow.length ≠ rowlen - 1 then _ else match infoOf r1 with | none => _ | some i => _)
    split
    · exact ⟨hsame, rfl⟩
    · cases hi : infoOf r1 with
      | none => exact ⟨hsame, rfl⟩
      | some i =>
        simp only
        rcases getTransform_sim hb s c hc hi h1 h2 with ⟨e, g1, g2⟩ | ⟨c1, snap, c2, snap', g1, g2, hc2, hap⟩
        · rw [g1, g2]; exact ⟨hsame, rfl⟩
        · rw [g1, g2]
          simp only
          have := hap r1.ub.prevRow outLen
          show SimRes b _ (match t.apply snap' r1.flags i r1.ub.prevRow outLen with | none => _ | some o => _)
          show SimRes b (match t.apply snap r1.flags i r1.ub.prevRow outLen with | none => _ | some o => _) _
          rw [this]
          cases t.apply snap' r1.flags i r1.ub.prevRow outLen with
          | none => exact ⟨⟨s, c2, rfl, hc2⟩, rfl⟩
          | some o => exact ⟨⟨s, c2, rfl, hc2⟩, rfl⟩

/-- **`next_interlaced_row_impl` on related readers** -/
theorem nextRowImpl_sim (cfg : Cfg) {t : TCfg} {b : Prop} (hb : b → t.SnapIndep) {r r' : R} {i : Info} {ii : IInfo}
    (outLen : Nat) (h : PSim b r r') (hP : RowPre t r i ii) (hI' : Inv t r') :
    SimRes b (nextRowImpl cfg t r (rowlenOf i.color i.depth r.sub ii) outLen)
      (nextRowImpl cfg t r' (rowlenOf i.color i.depth r.sub ii) outLen) := by
  obtain ⟨s, c, rfl, hc⟩ := h
  have hP' : RowPre t (r.setSC s c) i ii := ⟨hI', hP.info, hP.cur, hP.prev⟩
  have h1 := hP.raw cfg
  have h2 := hP'.raw cfg
  rw [nextRowImpl_post, nextRowImpl_post, (setSC_neutral s c).fuelOf r]
  have e : (r.setSC s c).sub = r.sub := rfl
  rw [e, (setSC_neutral s c).fuelOf r, nextRawRow_setSC] at h2
  rw [nextRawRow_setSC]
  generalize nextRawRow cfg (rowlenOf i.color i.depth r.sub ii) (fuelOf r) r = out at h1 h2
  obtain ⟨r1, x⟩ := out
  have hI1 : Inv t r1 ∧ r1.cached = r.cached := by
    cases x with
    | error e => exact ⟨h1.2.1, h1.2.2.2.1.2⟩
    | ok u => exact ⟨h1.1, h1.2.2.1.2⟩
  have hI2 : Inv t (r1.setSC s c) := by
    cases x with
    | error e => exact h2.2.1
    | ok u => exact h2.1
  exact rowImplPost_sim hb _ outLen r1 x s c (hc.imp (fun h => h.trans hI1.2.symm) id) hI1.1.cachedOk hI2.cachedOk

/-! ## the row calls -/

/-- the result of a row-level call at the end of a frame, from the result of `finish_decoding` -/
def endRes (x : R × Except Res Unit) : R × Res :=
  match x with
  | (r', .error e) => (r', e)
  | (r', .ok ()) => (r', .noRow)

/-- `read_row` at the end of a frame -/
theorem readRow_none (cfg : Cfg) (t : TCfg) (r : R) (bufLen : Nat) (h : r.sub.cur = none) :
    readRow cfg t r bufLen = endRes (finishDecoding cfg r) := by
  unfold readRow endRes; rw [h]; simp only
  cases finishDecoding cfg r with
  | mk r' res => cases res <;> rfl

theorem markFlushed_cached {r r3 : R} (h : markFlushed r = .ok r3) : r3.cached = r.cached := by
  unfold markFlushed at h
  split at h
  · cases h
  · cases h; rfl

/-- `finish_decoding` only changes the stream part, `remaining_frames` and `consumed_and_flushed` -/
theorem finishDecoding_cached (cfg : Cfg) (r : R) : (finishDecoding cfg r).1.cached = r.cached := by
  unfold finishDecoding
  split
  · rfl
  · split
    · rfl
    · rw [finishDecodingImageData_gloop]
      have hp := gloop_preserve cfg bodyFinish (fun r => r.cached) (fun r x h => by cases h) (fun r => rfl)
        (fun r => by rw [decodeNext'_withStream]; rfl)
        (fun r ev data => by cases ev <;> rfl) (fuelOf r) r
      cases hg : gloop cfg bodyFinish (fuelOf r) r with
      | mk r' res =>
        rw [hg] at hp; simp only at hp
        cases res with
        | error e => exact hp
        | ok u =>
          simp only
          cases hm : markFlushed r' with
          | error e => exact hp
          | ok r3 => exact (markFlushed_cached hm).trans hp

/-- **`read_row` on related readers** (any buffer that holds a row of the (sub)frame) -/
theorem readRow_sim (cfg : Cfg) {t : TCfg} (ht : t.Ok) {b : Prop} (hb : b → t.SnapIndep) {r r' : R} {i : Info}
    (bufLen : Nat) (h : PSim b r r') (hI : Inv t r) (hI' : Inv t r') (hi : r.dec.info = some i)
    (hbuf : outLineSize t i r.flags r.sub.width ≤ bufLen) :
    SimRes b (readRow cfg t r bufLen) (readRow cfg t r' bufLen) := by
  cases hcur : r.sub.cur with
  | none =>
    rw [readRow_none cfg t r bufLen hcur, readRow_none cfg t r' bufLen (by rw [h.sub]; exact hcur)]
    have := simRes_of_comm (b := b) (finishDecoding cfg) (finishDecoding_setSC cfg) (finishDecoding_cached cfg) h
    generalize finishDecoding cfg r = x at this
    generalize finishDecoding cfg r' = x' at this
    obtain ⟨a1, a2⟩ := x
    obtain ⟨b1, b2⟩ := x'
    obtain ⟨k1, k2⟩ := this
    simp only at k1 k2
    subst k2
    unfold endRes
    cases b2 with
    | error e => exact ⟨k1, rfl⟩
    | ok u => exact ⟨k1, rfl⟩
  | some ii =>
    have hcur' : r'.sub.cur = some ii := by rw [h.sub]; exact hcur
    have hK := h.keep
    rw [readRow_row cfg ht bufLen hI hi hcur hbuf,
      readRow_row cfg ht bufLen hI' (hK.info.trans hi) hcur' (by rw [hK.flags, h.sub]; exact hbuf), hK.flags, h.sub]
    have hP := rowStart_pre hI hi hcur
    have hP' := rowStart_pre hI' (hK.info.trans hi) hcur'
    have hs : PSim b (rowStart r ii) (rowStart r' ii) := by
      obtain ⟨s, c, rfl, hc⟩ := h
      rw [rowStart_setSC]
      exact ⟨s, c, rfl, hc.imp (fun h => h.trans (rowStart_cached r ii).symm) id⟩
    have := nextRowImpl_sim cfg hb (outLineSize t i r.flags (widthOf r.sub ii)) hs hP hP'.inv
    rw [rowStart_sub] at this
    generalize nextRowImpl cfg t (rowStart r ii) (rowlenOf i.color i.depth r.sub ii)
      (outLineSize t i r.flags (widthOf r.sub ii)) = x at this
    generalize nextRowImpl cfg t (rowStart r' ii) (rowlenOf i.color i.depth r.sub ii)
      (outLineSize t i r.flags (widthOf r.sub ii)) = x' at this
    obtain ⟨a1, a2⟩ := x
    obtain ⟨b1, b2⟩ := x'
    obtain ⟨k1, k2⟩ := this
    simp only at k1 k2
    subst k2
    cases b2 with
    | error e => exact ⟨k1, rfl⟩
    | ok u => exact ⟨k1, rfl⟩

/-- **`next_row` / `next_interlaced_row` on related readers** -/
theorem nextInterlacedRow_sim (cfg : Cfg) {t : TCfg} (ht : t.Ok) {b : Prop} (hb : b → t.SnapIndep) {r r' : R}
    (h : PSim b r r') (hI : Inv t r) (hI' : Inv t r') :
    SimRes b (nextInterlacedRow cfg t r) (nextInterlacedRow cfg t r') := by
  obtain ⟨i, hi, _⟩ := hI.info
  obtain ⟨s, c, rfl, hc⟩ := h
  have hi' : (r.setSC s c).dec.info = some i := hi
  unfold nextInterlacedRow
  simp only [infoOf, hi, hi']
  exact readRow_sim cfg ht hb (outLineSize t i r.flags r.sub.width)
    (r := { r with scratchLen := outLineSize t i r.flags r.sub.width }) ⟨outLineSize t i r.flags r.sub.width, c, rfl, hc⟩
    (hI.setScratch _) (hI'.setScratch _) hi (Nat.le_refl _)

/-- **`read_row` delivers what `next_row` delivers** (up to the scratch length) -/
theorem readRow_eq_nextRow (cfg : Cfg) {t : TCfg} (ht : t.Ok) {r : R} {i : Info} (bufLen : Nat) (hI : Inv t r)
    (hi : r.dec.info = some i) (hbuf : outLineSize t i r.flags r.sub.width ≤ bufLen) :
    SimRes False (nextInterlacedRow cfg t r) (readRow cfg t r bufLen) := by
  have h1 : nextInterlacedRow cfg t r =
      readRow cfg t { r with scratchLen := outLineSize t i r.flags r.sub.width } (outLineSize t i r.flags r.sub.width) := by
    unfold nextInterlacedRow; simp only [infoOf, hi]
  rw [h1]
  have hI0 := hI.setScratch (outLineSize t i r.flags r.sub.width)
  -- the buffer length only matters for the range check, which both pass
  have key : ∀ n, outLineSize t i r.flags r.sub.width ≤ n →
      SimRes False (readRow cfg t r (outLineSize t i r.flags r.sub.width)) (readRow cfg t r n) := by
    intro n hn
    cases hcur : r.sub.cur with
    | none =>
      rw [readRow_none cfg t r _ hcur, readRow_none cfg t r _ hcur]; exact SimRes.refl _ _
    | some ii =>
      rw [readRow_row cfg ht _ hI hi hcur (Nat.le_refl _), readRow_row cfg ht n hI hi hcur hn]
      exact SimRes.refl _ _
  exact (readRow_sim cfg ht (b := False) False.elim _ (PSim.scratch r _).symm hI0 hI hi (Nat.le_refl _)).trans (key bufLen hbuf)

end Png.Reader
