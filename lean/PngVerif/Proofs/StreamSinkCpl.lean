import PngVerif.Proofs.StreamSinkBase
/-!
# The whole-image API under every sink: a call that returns `Ok` got all its chunks through

`Cpl P s s'`: the log of `s'` extends the log of `s`, and if `P` holds every new entry was completely accepted.
`writerStep_cpl`: for every operation of the whole-image API, any arguments, any sink, with `P` = "the call returned
`Ok`".  (`Proofs/Encoder.lean` has this for one `write_chunk`: `Sink.emitChunks_log`.)
-/
namespace Png.Enc
open Png Png.Val

def Cpl (P : Prop) (s s' : WState) : Prop :=
  ∃ ext, s'.sink.log = s.sink.log ++ ext ∧ (P → ∀ e ∈ ext, e.complete = true)

theorem Cpl.same {P : Prop} {s s' : WState} (h : s'.sink = s.sink) : Cpl P s s' :=
  ⟨[], by rw [h]; simp, by simp⟩

theorem Cpl.refl {P : Prop} (s : WState) : Cpl P s s := Cpl.same rfl

theorem Cpl.weaken {P Q : Prop} {s s' : WState} (h : Cpl P s s') (hq : Q → P) : Cpl Q s s' := by
  obtain ⟨ext, h1, h2⟩ := h; exact ⟨ext, h1, fun q => h2 (hq q)⟩

theorem Cpl.trans {P Q R : Prop} {a b c : WState} (h1 : Cpl P a b) (h2 : Cpl Q b c) (hr : R → P ∧ Q) : Cpl R a c := by
  obtain ⟨e1, l1, m1⟩ := h1
  obtain ⟨e2, l2, m2⟩ := h2
  refine ⟨e1 ++ e2, by rw [l2, l1]; simp, fun r e he => ?_⟩
  simp only [List.mem_append] at he
  rcases he with he | he
  · exact m1 (hr r).1 e he
  · exact m2 (hr r).2 e he

theorem Cpl.emit (s : WState) (cs : List RChunk) : Cpl ((s.emit cs).2 = true) s (s.emit cs).1 := by
  obtain ⟨ext, g1, _, g3, _, _⟩ := Sink.emitChunks_log cs s.sink
  have hok : (s.emit cs).2 = (s.sink.emitChunks cs).2 := by simp [WState.emit]
  exact ⟨ext, by simp only [WState.emit]; exact g1, fun h => g3 (by rw [← hok]; exact h)⟩

/-- the log clause of a transition can be replaced by any other description of the extension -/
theorem Tr.withCpl {n : Nat} {P Q : Prop} {s s' : WState} (t : Tr n P s s') (h : Cpl Q s s') : Tr n Q s s' :=
  { static := t.static, beh := t.beh, log := h, closed := t.closed, open_ := t.open_, closing := t.closing,
    rect := t.rect, fcNone := t.fcNone, animLo := t.animLo, animHi := t.animHi }

theorem Tr.toCpl {n : Nat} {P : Prop} {s s' : WState} (t : Tr n P s s') : Cpl P s s' := t.log

theorem incr_sink (s : WState) : (incrementImagesWritten s).sink = s.sink := by
  unfold incrementImagesWritten
  cases s.actl with
  | none => rfl
  | some a => obtain ⟨n, p⟩ := a; simp only; split <;> rfl

theorem emitIdatImage_cpl (s : WState) (z : List Bytes) : Cpl ((emitIdatImage s z).2 = .ok) s (emitIdatImage s z).1 := by
  unfold emitIdatImage
  have h := Cpl.emit s (z.map mkIdat)
  cases hh : s.emit (z.map mkIdat) with
  | mk s' ok =>
    rw [hh] at h
    cases ok with
    | false => exact h.weaken (fun hh => by cases hh)
    | true => exact h.trans (Cpl.same (P := True) (incr_sink s')) (fun _ => ⟨rfl, trivial⟩)

theorem emitFdatImage_cpl (s : WState) (f : FC) (q : Nat) (z : List Bytes) :
    Cpl ((emitFdatImage s f q z).2 = .ok) s (emitFdatImage s f q z).1 := by
  simp only [emitFdatImage]
  have h := Cpl.emit s (fdatChunks q z).1
  cases hh : s.emit (fdatChunks q z).1 with
  | mk s' ok =>
    rw [hh] at h
    cases ok with
    | false => exact h.trans (Cpl.same (P := True) rfl) (fun hh => by cases hh)
    | true => exact h.trans (Cpl.same (P := True) (by rw [incr_sink])) (fun _ => ⟨rfl, trivial⟩)

theorem emitFrame_cpl (s : WState) (f : FC) (pi pf : List Bytes) :
    Cpl ((emitFrame s f pi pf).2 = .ok) s (emitFrame s f pi pf).1 := by
  simp only [emitFrame]
  have h := Cpl.emit s [mkFctl f]
  cases hh : s.emit [mkFctl f] with
  | mk s' ok =>
    rw [hh] at h
    cases ok with
    | false => exact h.weaken (fun hh => by cases hh)
    | true =>
      simp only
      split
      · exact h.weaken (fun hh => by cases hh)
      · split
        · exact (h.trans (Cpl.same (P := True) rfl) (fun _ : True => ⟨rfl, trivial⟩)).trans (emitIdatImage_cpl _ pi)
            (fun hh => ⟨trivial, hh⟩)
        · exact (h.trans (Cpl.same (P := True) rfl) (fun _ : True => ⟨rfl, trivial⟩)).trans (emitFdatImage_cpl _ f _ pf)
            (fun hh => ⟨trivial, hh⟩)

theorem emitImage_cpl (s : WState) (pi pf : List Bytes) : Cpl ((emitImage s pi pf).2 = .ok) s (emitImage s pi pf).1 := by
  unfold emitImage
  cases hf : s.fctl with
  | none => exact emitIdatImage_cpl s pi
  | some f => simp only; split; exact emitIdatImage_cpl s pi; exact emitFrame_cpl s f pi pf

theorem withFctl_sink (s : WState) (k : FC → WState × Res) (hk : ∀ f, (k f).1.sink = s.sink) :
    (withFctl s k).1.sink = s.sink := by
  unfold withFctl
  cases s.fctl with
  | none => rfl
  | some f => exact hk f

/-- **an operation of the whole-image API that returns `Ok` got every chunk through completely** (any sink) -/
theorem writerStep_cpl (E : Codec) (s : WState) (op : Op) :
    Cpl ((writerStep E s op).2 = .ok) s (writerStep E s op).1 := by
  cases op with
  | image d =>
    simp only [writerStep, Enc.writeImageData]
    cases hc : imageChecks s d with
    | error r => exact Cpl.refl s
    | ok a => exact emitImage_cpl s _ _
  | chunk t d =>
    simp only [writerStep, writeChunk]
    split
    · exact Cpl.refl s
    · have h := Cpl.emit s [⟨t, d⟩]
      cases hh : s.emit [⟨t, d⟩] with
      | mk s' ok =>
        rw [hh] at h
        cases ok with
        | true => exact h.weaken (fun _ => rfl)
        | false => exact h.weaken (fun hh => by cases hh)
  | text b =>
    cases b with
    | none => exact Cpl.refl s
    | some c =>
      simp only [writerStep, writeTextChunk]
      have h := Cpl.emit s [c]
      cases hh : s.emit [c] with
      | mk s' ok =>
        rw [hh] at h
        cases ok with
        | true => exact h.weaken (fun _ => rfl)
        | false => exact h.weaken (fun hh => by cases hh)
  | setDelay n d => exact Cpl.same (withFctl_sink s _ (fun _ => rfl))
  | setBlend b => exact Cpl.same (withFctl_sink s _ (fun _ => rfl))
  | setDispose d => exact Cpl.same (withFctl_sink s _ (fun _ => rfl))
  | resetPos => exact Cpl.same (withFctl_sink s _ (fun _ => rfl))
  | setDim w h => exact Cpl.same (withFctl_sink s _ (fun f => by split; rfl; split; rfl; split; rfl; rfl))
  | setPos x y => exact Cpl.same (withFctl_sink s _ (fun f => by split; rfl; rfl))
  | resetDim => exact Cpl.same (withFctl_sink s _ (fun f => by split; rfl; rfl))

end Png.Enc
