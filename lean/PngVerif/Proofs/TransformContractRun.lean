import PngVerif.Proofs.TransformContract
import PngVerif.Proofs.TrnsShape
import PngVerif.Proofs.ReaderRun
import PngVerif.Proofs.ReaderPathsRun2
/-!
# The `Reader` model cannot tell `realT` from `realTK`

`Driver.realT.Ok` is false as stated (`Proofs/TransformContract.lean`): `TCfg.Ok.applyOk` quantifies over
every `InfoLegal` `Info`, among them grayscale `Info`s below 8 bits with an EMPTY stored `tRNS`, on which
`expand_gray_u8_with_trns` panics; `realTK` is `realT` with that one shape patched and satisfies all
contracts.  No `Info` of the stream decoder has that shape (`Proofs/TrnsShape.lean`, `KeyInv`), and the
`Reader` calls the row transformation with the decoder's current `Info` only.  Hence:

* `KI r` (`KeyInv r.dec`) is kept by every function of `Model/Reader.lean` — they change the decoder through
  `update` (`decodeNext'`) and `Limits::reserve_bytes` only;
* two transformations that agree on `Info`s of the `parse_trns` shape (`TAgree`) give the same result in
  every function of the model on a reader with `KI`: `step_agree`, `run_agree`, and for the derived runs of
  C05 / C13 `runUntilEof_agree`, `resumeRun_agree`, `refFrames_agree`, `asmRun_agree`.
-/
namespace Png.Reader
open Png Png.Framing

/-- the decoder's `info` (if any) has a `tRNS` of the shape `parse_trns` leaves -/
def KI (r : R) : Prop := KeyInv r.dec

theorem ki_init (opts : Options) (limit : Nat) (flags : Flags) (input : Bytes) (visible : Nat) :
    KI (R.init opts limit flags input visible) := keyInv_new opts limit

theorem ki_of_eq {α : Type} {x : R × α} {r' : R} {a : α} (h : x = (r', a)) (hk : KI x.1) : KI r' := by
  subst h; exact hk

/-! ## every function of the model keeps `KI` -/

theorem decodeNext'_ki (cfg : Cfg) (r : R) (hr : KI r) : KI (decodeNext' cfg r).1 := by
  unfold decodeNext'
  simp only
  split
  · exact hr
  · have hk := update_keyInv cfg { r.dec with out := [] } ((r.input.take r.visible).drop r.pos) (hr.of_info rfl)
    split
    · rename_i heq; rw [heq] at hk; exact hk.of_info rfl
    · rename_i heq; rw [heq] at hk; exact hk.of_info rfl

theorem decodeNextNoData_fst (cfg : Cfg) (r : R) : (decodeNextNoData cfg r).1 = (decodeNext' cfg r).1 := by
  unfold decodeNextNoData
  split
  · rename_i heq; rw [heq]
  · rename_i heq; rw [heq]; simp only; split <;> rfl

theorem decodeNextNoData_ki (cfg : Cfg) (r : R) (hr : KI r) : KI (decodeNextNoData cfg r).1 := by
  rw [decodeNextNoData_fst]; exact decodeNext'_ki cfg r hr

theorem readHeaderInfo_ki (cfg : Cfg) : ∀ (fuel : Nat) (r : R), KI r → KI (readHeaderInfo cfg fuel r).1 := by
  intro fuel
  induction fuel with
  | zero => intro r hr; exact hr
  | succ fuel ih =>
    intro r hr
    rw [readHeaderInfo]
    split
    · exact hr
    · have hk := decodeNextNoData_ki cfg r hr
      split
      · exact ki_of_eq (by assumption) hk
      · exact ki_of_eq (by assumption) hk
      · exact ih _ (ki_of_eq (by assumption) hk)

theorem rdReadUntilImageData_ki (cfg : Cfg) : ∀ (fuel : Nat) (r : R), KI r → KI (rdReadUntilImageData cfg fuel r).1 := by
  intro fuel
  induction fuel with
  | zero => intro r hr; exact hr
  | succ fuel ih =>
    intro r hr
    rw [rdReadUntilImageData]
    have hk := decodeNextNoData_ki cfg r hr
    split
    · exact ki_of_eq (by assumption) hk
    · split
      · exact ki_of_eq (by assumption) hk
      · exact ih _ (ki_of_eq (by assumption) hk)
    · exact ki_of_eq (by assumption) hk
    · exact ih _ (ki_of_eq (by assumption) hk)

theorem decodeImageData_ki (cfg : Cfg) (r : R) (b : Bool) (hr : KI r) : KI (decodeImageData cfg r b).1 := by
  unfold decodeImageData
  simp only
  have hk := decodeNext'_ki cfg (if b = true then { r with ub := r.ub.compact } else r) (by split <;> exact hr)
  split
  · exact ki_of_eq (by assumption) hk
  · have hk' := ki_of_eq (by assumption) hk
    split <;> (split <;> exact hk')

theorem finishDecodingImageData_ki (cfg : Cfg) : ∀ (fuel : Nat) (r : R), KI r →
    KI (finishDecodingImageData cfg fuel r).1 := by
  intro fuel
  induction fuel with
  | zero => intro r hr; exact hr
  | succ fuel ih =>
    intro r hr
    rw [finishDecodingImageData]
    have hk := decodeImageData_ki cfg r false hr
    split
    · exact ki_of_eq (by assumption) hk
    · exact ki_of_eq (by assumption) hk
    · exact ih _ (ki_of_eq (by assumption) hk)

theorem readUntilEndOfInput_ki (cfg : Cfg) : ∀ (fuel : Nat) (r : R), KI r → KI (readUntilEndOfInput cfg fuel r).1 := by
  intro fuel
  induction fuel with
  | zero => intro r hr; exact hr
  | succ fuel ih =>
    intro r hr
    rw [readUntilEndOfInput]
    have hk := decodeNext'_ki cfg r hr
    split
    · exact ki_of_eq (by assumption) hk
    · exact ki_of_eq (by assumption) hk
    · exact ih _ (ki_of_eq (by assumption) hk)

theorem markFlushed_ki {r r2 : R} (h : markFlushed r = .ok r2) (hr : KI r) : KI r2 := by
  unfold markFlushed at h
  split at h
  · cases h
  · cases h; exact hr

theorem finishDecoding_ki (cfg : Cfg) (r : R) (hr : KI r) : KI (finishDecoding cfg r).1 := by
  unfold finishDecoding
  split
  · exact hr
  · split
    · exact hr
    · have hk := finishDecodingImageData_ki cfg (fuelOf r) r hr
      split
      · exact ki_of_eq (by assumption) hk
      · have hk' := ki_of_eq (by assumption) hk
        split
        · exact hk'
        · exact markFlushed_ki (by assumption) hk'

theorem nextRawRow_ki (cfg : Cfg) (rowlen : Nat) : ∀ (fuel : Nat) (r : R), KI r → KI (nextRawRow cfg rowlen fuel r).1 := by
  intro fuel
  induction fuel with
  | zero => intro r hr; exact hr
  | succ fuel ih =>
    intro r hr
    rw [nextRawRow]
    split
    · split
      · exact hr
      · have hk := decodeImageData_ki cfg r true hr
        split
        · exact ki_of_eq (by assumption) hk
        · exact ih _ (ki_of_eq (by assumption) hk)
        · have hk' := ki_of_eq (by assumption) hk
          split
          · exact hk'
          · exact ih _ (markFlushed_ki (by assumption) hk')
    · split <;> exact hr

theorem reserveBytes_ki {r r3 : R} {n : Nat} (h : reserveBytes r n = .ok r3) (hr : KI r) : KI r3 := by
  unfold reserveBytes at h
  split at h
  · cases h; exact KeyInv.of_info (d := r.dec) rfl hr
  · cases h

theorem readUntilImageData_ki (cfg : Cfg) (t : TCfg) (r : R) (hr : KI r) : KI (readUntilImageData cfg t r).1 := by
  unfold readUntilImageData
  have hk := rdReadUntilImageData_ki cfg (fuelOf r) r hr
  split
  · exact ki_of_eq (by assumption) hk
  · have hk' := ki_of_eq (by assumption) hk
    split
    · exact hk'
    · split
      · exact hk'
      · rename_i heq
        have hk3 := reserveBytes_ki heq hk'
        split
        · exact hk3
        · exact hk3

theorem readInfo'_ki (cfg : Cfg) (t : TCfg) (r : R) (hr : KI r) : KI (readInfo' cfg t r).1 := by
  unfold readInfo'
  split
  · exact hr
  · have hk := readHeaderInfo_ki cfg (fuelOf r) r hr
    split
    · exact ki_of_eq (by assumption) hk
    · have hk' := ki_of_eq (by assumption) hk
      split
      · exact hk'
      · simp only
        split
        · split
          · exact hk'
          · have hk2 : ∀ x, KI x → KI (readUntilImageData cfg t x).1 := readUntilImageData_ki cfg t
            split
            · rename_i heq; exact ki_of_eq heq (hk2 _ hk')
            · rename_i heq
              have hk2' := ki_of_eq heq (hk2 _ hk')
              split
              · exact hk2'
              · split
                · exact hk2'
                · exact hk2'
        · exact hk'

theorem readInfo_ki (cfg : Cfg) (t : TCfg) (r : R) (hr : KI r) : KI (readInfo cfg t r).1 := by
  unfold readInfo
  have hk := readInfo'_ki cfg t r hr
  split
  · exact ki_of_eq (by assumption) hk
  · rename_i heq
    have hk' := ki_of_eq heq hk
    exact hk'

theorem getTransform_ki {t : TCfg} {r r2 : R} {i snap : Info} (h : getTransform t r i = .ok (r2, snap)) (hr : KI r) :
    KI r2 := by
  unfold getTransform at h
  split at h
  · cases h; exact hr
  · split at h
    · split at h <;> cases h
    · cases h; exact hr

theorem nextRowImpl_ki (cfg : Cfg) (t : TCfg) (r : R) (rowlen outLen : Nat) (hr : KI r) :
    KI (nextRowImpl cfg t r rowlen outLen).1 := by
  unfold nextRowImpl
  have hk := nextRawRow_ki cfg rowlen (fuelOf r) r hr
  split
  · exact ki_of_eq (by assumption) hk
  · have hk' := ki_of_eq (by assumption) hk
    simp only
    split
    · exact hk'
    · split
      · exact hk'
      · split
        · exact hk'
        · have h2 := getTransform_ki (by assumption) hk'
          split
          · exact h2
          · exact h2

theorem readRow_ki (cfg : Cfg) (t : TCfg) (r : R) (bufLen : Nat) (hr : KI r) : KI (readRow cfg t r bufLen).1 := by
  unfold readRow
  split
  · have hk := finishDecoding_ki cfg r hr
    split
    · exact ki_of_eq (by assumption) hk
    · exact ki_of_eq (by assumption) hk
  · rename_i ii _
    simp only
    have hr1 : KI (if ii.line = 0 then { r with ub := r.ub.resetPrev } else r) := by split <;> exact hr
    generalize (if ii.line = 0 then { r with ub := r.ub.resetPrev } else r) = r1 at hr1 ⊢
    split
    · exact hr1
    · split
      · exact hr1
      · have hk : ∀ a b, KI (nextRowImpl cfg t r1 a b).1 := fun a b => nextRowImpl_ki cfg t r1 a b hr1
        split
        · rename_i heq; exact ki_of_eq heq (hk _ _)
        · rename_i heq; exact ki_of_eq heq (hk _ _)

theorem nextInterlacedRow_ki (cfg : Cfg) (t : TCfg) (r : R) (hr : KI r) : KI (nextInterlacedRow cfg t r).1 := by
  unfold nextInterlacedRow
  split
  · exact hr
  · exact readRow_ki cfg t _ _ hr

theorem frameRows_ki (cfg : Cfg) (t : TCfg) (lineSize : Nat) : ∀ (n k : Nat) (r : R) (buf : Bytes), KI r →
    KI (frameRows cfg t lineSize n k r buf).1 := by
  intro n
  induction n with
  | zero => intro k r buf hr; exact hr
  | succ n ih =>
    intro k r buf hr
    rw [frameRows]
    split
    · exact hr
    · have hk := nextRowImpl_ki cfg t r r.sub.rowlen lineSize hr
      split
      · exact ki_of_eq (by assumption) hk
      · exact ih _ _ _ (ki_of_eq (by assumption) hk)

theorem frameInterlaced_ki (cfg : Cfg) (t : TCfg) (stride bitsPP : Nat) : ∀ (fuel : Nat) (r : R) (buf : Bytes), KI r →
    KI (frameInterlaced cfg t stride bitsPP fuel r buf).1 := by
  intro fuel
  induction fuel with
  | zero => intro r buf hr; exact hr
  | succ fuel ih =>
    intro r buf hr
    rw [frameInterlaced]
    have hk := nextInterlacedRow_ki cfg t r hr
    split
    · exact ki_of_eq (by assumption) hk
    · split
      · exact ki_of_eq (by assumption) hk
      · exact ih _ _ (ki_of_eq (by assumption) hk)
    · exact ki_of_eq (by assumption) hk
    · exact ki_of_eq (by assumption) hk

theorem frameBody_ki (cfg : Cfg) (t : TCfg) (r : R) (il : Bool) (lineSize bitsPP : Nat) (buf : Bytes) (hr : KI r) :
    KI (frameBody cfg t r il lineSize bitsPP buf).1 := by
  unfold frameBody
  split
  · exact frameInterlaced_ki cfg t _ _ _ r buf hr
  · simp only
    split
    · exact hr
    · exact frameRows_ki cfg t _ _ _ r buf hr

theorem frameInto_ki (cfg : Cfg) (t : TCfg) (r : R) (buf : Bytes) (hr : KI r) : KI (frameInto cfg t r buf).1 := by
  unfold frameInto
  split
  · exact hr
  · simp only
    split
    · exact hr
    · have hk : ∀ a b c d, KI (frameBody cfg t r a b c d).1 := fun a b c d => frameBody_ki cfg t r a b c d hr
      split
      · rename_i heq; exact ki_of_eq heq (hk _ _ _ _)
      · rename_i heq
        have hk' := ki_of_eq heq (hk _ _ _ _)
        have hk2 := finishDecoding_ki cfg _ hk'
        split
        · exact ki_of_eq (by assumption) hk2
        · exact ki_of_eq (by assumption) hk2

theorem nextFrameBuf_ki (cfg : Cfg) (t : TCfg) (r : R) (buf : Bytes) (hr : KI r) : KI (nextFrameBuf cfg t r buf).1 := by
  by_cases hc : r.sub.cur.isSome = true
  · rw [nextFrameBuf_some cfg t r buf hc]; exact frameInto_ki cfg t r buf hr
  rw [nextFrameBuf_eq, if_neg hc]
  unfold nextFrameBuf0
  split
  · exact hr
  · simp only
    have hadv : KI (if r.sub.caf = true then readUntilImageData cfg t r else (r, Except.ok ())).1 := by
      split
      · exact readUntilImageData_ki cfg t r hr
      · exact hr
    split
    · exact ki_of_eq (by assumption) hadv
    · exact frameInto_ki cfg t _ buf (ki_of_eq (by assumption) hadv)

theorem nextFrameInfo_ki (cfg : Cfg) (t : TCfg) (r : R) (hr : KI r) : KI (nextFrameInfo cfg t r).1 := by
  unfold nextFrameInfo
  simp only
  split
  · exact hr
  · exact hr
  · have hfin : KI (if (!r.sub.caf) = true then finishDecoding cfg { r with sub := { r.sub with cur := none } }
        else (r, Except.ok ())).1 := by
      split
      · exact finishDecoding_ki cfg _ hr
      · exact hr
    split
    · exact ki_of_eq (by assumption) hfin
    · have h1 := ki_of_eq (by assumption) hfin
      have hk2 := readUntilImageData_ki cfg t _ h1
      split
      · exact ki_of_eq (by assumption) hk2
      · have h2 := ki_of_eq (by assumption) hk2
        split <;> exact h2

theorem finish_ki (cfg : Cfg) (r : R) (hr : KI r) : KI (finish cfg r).1 := by
  unfold finish
  split
  · exact hr
  · simp only
    have hk : ∀ x, KI x → KI (readUntilEndOfInput cfg (fuelOf x) x).1 := fun x hx => readUntilEndOfInput_ki cfg _ x hx
    split
    · rename_i heq; exact ki_of_eq heq (hk _ hr)
    · rename_i heq
      have := ki_of_eq heq (hk _ hr)
      exact this

theorem nextFrameOp_ki (cfg : Cfg) (t : TCfg) (r : R) (p : UInt8) (hr : KI r) : KI (nextFrameOp cfg t r p).1 := by
  unfold nextFrameOp
  split
  · exact hr
  · simp only
    have hk : ∀ b, KI (nextFrameBuf cfg t { r with pendingBuf := none } b).1 := fun b => nextFrameBuf_ki cfg t _ b hr
    split
    · exact hk _
    · exact hk _

theorem step_ki (cfg : Cfg) (t : TCfg) (r : R) (op : Op) (hr : KI r) : KI (step cfg t r op).1 := by
  cases op with
  | grow n => exact hr
  | readInfo =>
    simp only [step]
    split
    · exact hr
    · exact readInfo_ki cfg t r hr
  | readHeader =>
    simp only [step]
    split
    · exact hr
    · have hk := readHeaderInfo_ki cfg (fuelOf r) r hr
      split
      · exact ki_of_eq (by assumption) hk
      · exact ki_of_eq (by assumption) hk
  | nextFrame p =>
    simp only [step]
    split
    · exact hr
    · exact nextFrameOp_ki cfg t r p hr
  | nextRow =>
    simp only [step]
    split
    · exact hr
    · exact nextInterlacedRow_ki cfg t _ hr
  | readRow =>
    simp only [step]
    split
    · exact hr
    · split
      · exact hr
      · exact readRow_ki cfg t _ _ hr
  | nextFrameInfo =>
    simp only [step]
    split
    · exact hr
    · exact nextFrameInfo_ki cfg t _ hr
  | finish =>
    simp only [step]
    split
    · exact hr
    · exact finish_ki cfg _ hr

theorem run_ki (cfg : Cfg) (t : TCfg) : ∀ (ops : List Op) (r : R) (acc : List Res), KI r →
    KI (ops.foldl (fun (acc : R × List Res) op => let (r', x) := step cfg t acc.1 op; (r', acc.2 ++ [x])) (r, acc)).1 := by
  intro ops
  induction ops with
  | nil => intro r acc hr; exact hr
  | cons op ops ih =>
    intro r acc hr
    simp only [List.foldl_cons]
    exact ih _ _ (step_ki cfg t r op hr)

/-! ## transformations that agree on the `Info`s of the stream give the same `Reader` -/

/-- same output type, same creation, and the same rows on every current `Info` of the `parse_trns` shape -/
structure TAgree (t t' : TCfg) : Prop where
  ocd : t'.outColorDepth = t.outColorDepth
  create : t'.create = t.create
  apply : ∀ snap f cur row n, TrnsShape cur → t'.apply snap f cur row n = t.apply snap f cur row n

section
variable {t t' : TCfg} (h : TAgree t t') (cfg : Cfg)
include h

theorem TAgree.ols : outLineSize t' = outLineSize t := by
  funext i f w; unfold outLineSize; rw [h.ocd]

theorem readUntilImageData_agree (r : R) : readUntilImageData cfg t' r = readUntilImageData cfg t r := by
  unfold readUntilImageData; rw [h.ols]

theorem readInfo'_agree (r : R) : readInfo' cfg t' r = readInfo' cfg t r := by
  unfold readInfo'
  rw [h.ocd]
  simp only [readUntilImageData_agree h cfg]

theorem readInfo_agree (r : R) : readInfo cfg t' r = readInfo cfg t r := by
  unfold readInfo; rw [readInfo'_agree h cfg]

theorem getTransform_agree (r : R) (i : Info) : getTransform t' r i = getTransform t r i := by
  unfold getTransform; rw [h.create]

theorem nextRowImpl_agree (r : R) (hr : KI r) (rowlen outLen : Nat) :
    nextRowImpl cfg t' r rowlen outLen = nextRowImpl cfg t r rowlen outLen := by
  unfold nextRowImpl
  have hk := nextRawRow_ki cfg rowlen (fuelOf r) r hr
  cases hx : nextRawRow cfg rowlen (fuelOf r) r with
  | mk r' x =>
    have hk' : KI r' := ki_of_eq hx hk
    cases x with
    | error e => rfl
    | ok u =>
      simp only
      split
      · rfl
      · cases hi : infoOf r' with
        | none => rfl
        | some i =>
          simp only
          rw [getTransform_agree h]
          cases getTransform t r' i with
          | error e => rfl
          | ok p =>
            obtain ⟨r2, snap⟩ := p
            simp only
            rw [h.apply snap r2.flags i _ _ (hk' i hi)]

theorem lineSizeFor_agree (r : R) (i : Info) (ii : IInfo) : lineSizeFor t' r i ii = lineSizeFor t r i ii := by
  unfold lineSizeFor; rw [h.ols]

theorem readRow_agree (r : R) (hr : KI r) (bufLen : Nat) : readRow cfg t' r bufLen = readRow cfg t r bufLen := by
  unfold readRow
  cases hc : r.sub.cur with
  | none => rfl
  | some ii =>
    simp only
    have hr1 : KI (if ii.line = 0 then { r with ub := r.ub.resetPrev } else r) := by split <;> exact hr
    generalize (if ii.line = 0 then { r with ub := r.ub.resetPrev } else r) = r1 at hr1 ⊢
    cases hi : infoOf r1 with
    | none => rfl
    | some i =>
      simp only
      rw [lineSizeFor_agree h]
      simp only [nextRowImpl_agree h cfg r1 hr1]

theorem nextInterlacedRow_agree (r : R) (hr : KI r) : nextInterlacedRow cfg t' r = nextInterlacedRow cfg t r := by
  unfold nextInterlacedRow
  cases hi : infoOf r with
  | none => rfl
  | some i =>
    simp only
    rw [h.ols]
    exact readRow_agree h cfg _ (by exact hr) _

theorem frameRows_agree (lineSize : Nat) : ∀ (n k : Nat) (r : R) (buf : Bytes), KI r →
    frameRows cfg t' lineSize n k r buf = frameRows cfg t lineSize n k r buf := by
  intro n
  induction n with
  | zero => intro k r buf hr; rfl
  | succ n ih =>
    intro k r buf hr
    rw [frameRows, frameRows, nextRowImpl_agree h cfg r hr]
    have hk := nextRowImpl_ki cfg t r r.sub.rowlen lineSize hr
    split
    · rfl
    · cases hx : nextRowImpl cfg t r r.sub.rowlen lineSize with
      | mk r' x =>
        cases x with
        | error e => rfl
        | ok out => exact ih _ _ _ (ki_of_eq hx hk)

theorem frameInterlaced_agree (stride bitsPP : Nat) : ∀ (fuel : Nat) (r : R) (buf : Bytes), KI r →
    frameInterlaced cfg t' stride bitsPP fuel r buf = frameInterlaced cfg t stride bitsPP fuel r buf := by
  intro fuel
  induction fuel with
  | zero => intro r buf hr; rfl
  | succ fuel ih =>
    intro r buf hr
    rw [frameInterlaced, frameInterlaced, nextInterlacedRow_agree h cfg r hr]
    have hk := nextInterlacedRow_ki cfg t r hr
    cases hx : nextInterlacedRow cfg t r with
    | mk r' x =>
      have hk' : KI r' := ki_of_eq hx hk
      cases x with
      | row ii data =>
        cases ii with
        | null l => rfl
        | adam7 p l w =>
          simp only
          cases Adam7.expandPass buf stride data { pass := p, line := l, width := w } bitsPP with
          | none => rfl
          | some buf' => exact ih _ _ hk'
      | _ => rfl

theorem frameBody_agree (r : R) (hr : KI r) (il : Bool) (lineSize bitsPP : Nat) (buf : Bytes) :
    frameBody cfg t' r il lineSize bitsPP buf = frameBody cfg t r il lineSize bitsPP buf := by
  unfold frameBody
  rw [frameInterlaced_agree h cfg _ _ _ r buf hr]
  simp only [frameRows_agree h cfg _ _ _ r buf hr]

theorem frameInto_agree (r : R) (hr : KI r) (buf : Bytes) : frameInto cfg t' r buf = frameInto cfg t r buf := by
  unfold frameInto
  rw [h.ols, h.ocd]
  simp only [frameBody_agree h cfg r hr]

theorem nextFrameBuf_agree (r : R) (hr : KI r) (buf : Bytes) : nextFrameBuf cfg t' r buf = nextFrameBuf cfg t r buf := by
  by_cases hc : r.sub.cur.isSome = true
  · rw [nextFrameBuf_some cfg t' r buf hc, nextFrameBuf_some cfg t r buf hc]; exact frameInto_agree h cfg r hr buf
  rw [nextFrameBuf_eq, nextFrameBuf_eq, if_neg hc, if_neg hc]
  unfold nextFrameBuf0
  split
  · rfl
  · simp only
    rw [readUntilImageData_agree h cfg]
    have hadv : KI (if r.sub.caf = true then readUntilImageData cfg t r else (r, Except.ok ())).1 := by
      split
      · exact readUntilImageData_ki cfg t r hr
      · exact hr
    cases hx : (if r.sub.caf = true then readUntilImageData cfg t r else (r, Except.ok ())) with
    | mk r1 x =>
      cases x with
      | error e => rfl
      | ok u => exact frameInto_agree h cfg r1 (ki_of_eq hx hadv) buf

theorem nextFrameInfo_agree (r : R) : nextFrameInfo cfg t' r = nextFrameInfo cfg t r := by
  unfold nextFrameInfo
  simp only [readUntilImageData_agree h cfg]

theorem nextFrameOp_agree (r : R) (hr : KI r) (p : UInt8) : nextFrameOp cfg t' r p = nextFrameOp cfg t r p := by
  unfold nextFrameOp
  rw [h.ols]
  have : ∀ b, nextFrameBuf cfg t' { r with pendingBuf := none } b = nextFrameBuf cfg t { r with pendingBuf := none } b :=
    fun b => nextFrameBuf_agree h cfg _ (by exact hr) b
  simp only [this]

/-- **one public call**: the same reader afterwards, the same result -/
theorem step_agree (r : R) (hr : KI r) (op : Op) : step cfg t' r op = step cfg t r op := by
  cases op with
  | grow n => rfl
  | readInfo => simp only [step, readInfo_agree h cfg]
  | readHeader => rfl
  | nextFrame p => simp only [step, nextFrameOp_agree h cfg r hr]
  | nextRow =>
    have : nextInterlacedRow cfg t' { r with pendingBuf := none } = nextInterlacedRow cfg t { r with pendingBuf := none } :=
      nextInterlacedRow_agree h cfg _ (by exact hr)
    simp only [step, this]
  | readRow =>
    have : ∀ n, readRow cfg t' { r with pendingBuf := none } n = readRow cfg t { r with pendingBuf := none } n :=
      fun n => readRow_agree h cfg _ (by exact hr) n
    simp only [step, this, h.ols]
  | nextFrameInfo => simp only [step, nextFrameInfo_agree h cfg]
  | finish => rfl

end

/-! ## runs -/

section
variable {t t' : TCfg} (h : TAgree t t') (cfg : Cfg)
include h

theorem run_fold_agree : ∀ (ops : List Op) (r : R) (acc : List Res), KI r →
    ops.foldl (fun (acc : R × List Res) op => let (r', x) := step cfg t' acc.1 op; (r', acc.2 ++ [x])) (r, acc) =
    ops.foldl (fun (acc : R × List Res) op => let (r', x) := step cfg t acc.1 op; (r', acc.2 ++ [x])) (r, acc) := by
  intro ops
  induction ops with
  | nil => intro r acc hr; rfl
  | cons op ops ih =>
    intro r acc hr
    simp only [List.foldl_cons]
    rw [step_agree h cfg r hr op]
    cases hs : step cfg t r op with
    | mk r' x => exact ih r' _ (ki_of_eq hs (step_ki cfg t r op hr))

/-- **every run**: the same final reader, the same results -/
theorem run_agree (r : R) (hr : KI r) (ops : List Op) : run cfg t' r ops = run cfg t r ops :=
  run_fold_agree h cfg ops r [] hr

omit h in
theorem runUntilEof_ki : ∀ (ops : List Op) (r : R), KI r → KI (runUntilEof cfg t ops r).1 := by
  intro ops
  induction ops with
  | nil => intro r hr; exact hr
  | cons op ops ih =>
    intro r hr
    rw [runUntilEof]
    split
    · exact step_ki cfg t r op hr
    · exact ih _ (step_ki cfg t r op hr)

theorem runUntilEof_agree : ∀ (ops : List Op) (r : R), KI r → runUntilEof cfg t' ops r = runUntilEof cfg t ops r := by
  intro ops
  induction ops with
  | nil => intro r hr; rfl
  | cons op ops ih =>
    intro r hr
    rw [runUntilEof, runUntilEof, step_agree h cfg r hr op, ih _ (step_ki cfg t r op hr)]

/-- the retrying caller of C05 -/
theorem resumeRun_agree (L : Nat) : ∀ (sched : List Nat) (ops : List Op) (r : R), KI r →
    resumeRun cfg t' L sched ops r = resumeRun cfg t L sched ops r := by
  intro sched
  induction sched with
  | nil => intro ops r hr; rw [resumeRun, resumeRun, runUntilEof_agree h cfg ops r hr]
  | cons g sched ih =>
    intro ops r hr
    rw [resumeRun, resumeRun, runUntilEof_agree h cfg ops r hr]
    have hk : KI (growTo (runUntilEof cfg t ops r).1 (min L ((runUntilEof cfg t ops r).1.visible + g))) :=
      runUntilEof_ki cfg ops r hr
    rw [ih _ _ hk]

/-- the reference frames of C13 -/
theorem refFrames_agree (fresh : Bytes) : ∀ (n : Nat) (r : R), KI r →
    refFrames cfg t' fresh n r = refFrames cfg t fresh n r := by
  intro n
  induction n with
  | zero => intro r hr; rfl
  | succ n ih =>
    intro r hr
    rw [refFrames, refFrames, nextFrameBuf_agree h cfg r hr]
    have hk := nextFrameBuf_ki cfg t r fresh hr
    cases hx : nextFrameBuf cfg t r fresh with
    | mk r' y =>
      obtain ⟨res, B'⟩ := y
      cases res with
      | frame oi B => simp only; rw [ih r' (ki_of_eq hx hk)]
      | _ => rfl

theorem asmStep_agree (fresh : Bytes) (x : R × Asm) (hx : KI x.1) (op : PathOp) :
    asmStep cfg t' fresh x op = asmStep cfg t fresh x op := by
  have e1 : strideOf t' x.1 = strideOf t x.1 := by unfold strideOf; rw [h.ols]
  have e2 : bitsOf t' x.1 = bitsOf t x.1 := by unfold bitsOf outBits; rw [h.ocd]
  have e3 : canvasLine t' x.1 = canvasLine t x.1 := by unfold canvasLine; rw [h.ols]
  cases op with
  | nextFrame => simp only [asmStep, nextFrameBuf_agree h cfg x.1 hx]
  | nextRow => simp only [asmStep, nextInterlacedRow_agree h cfg x.1 hx, e1, e2]
  | readRow extra => simp only [asmStep, readRow_agree h cfg x.1 hx, e1, e2, e3]
  | nextFrameInfo => simp only [asmStep, nextFrameInfo_agree h cfg]

omit h in
theorem asmStep_ki (fresh : Bytes) (x : R × Asm) (hx : KI x.1) (op : PathOp) : KI (asmStep cfg t fresh x op).1 := by
  cases op with
  | nextFrame => exact nextFrameBuf_ki cfg t x.1 _ hx
  | nextRow => exact nextInterlacedRow_ki cfg t x.1 hx
  | readRow extra => exact readRow_ki cfg t x.1 _ hx
  | nextFrameInfo => exact nextFrameInfo_ki cfg t x.1 hx

/-- the assembling caller of C13 -/
theorem asmRun_agree (fresh : Bytes) : ∀ (ops : List PathOp) (x : R × Asm), KI x.1 →
    asmRun cfg t' fresh x ops = asmRun cfg t fresh x ops := by
  intro ops
  induction ops with
  | nil => intro x hx; rfl
  | cons op ops ih =>
    intro x hx
    simp only [asmRun, List.foldl_cons]
    rw [asmStep_agree h cfg fresh x hx op]
    exact ih _ (asmStep_ki cfg fresh x hx op)

end

/-- the protocol invariant reads `create` only -/
theorem Inv.of_agree {t t' : TCfg} (h : TAgree t t') {r : R} (hI : Inv t r) : Inv t' r :=
  ⟨hI.base, hI.info, hI.idat, hI.live, hI.flushed, hI.fin, hI.ub, fun snap hs => by rw [h.create]; exact hI.cached snap hs⟩

end Png.Reader

namespace Png.Driver
open Png Png.Framing Png.Reader

/-- an `Info` of the `parse_trns` shape is outside the gap -/
theorem keyGap_of_shape {i : Info} (h : TrnsShape i) (f : Flags) : keyGap i f = false := by
  cases hg : keyGap i f with
  | false => rfl
  | true =>
    exfalso
    simp only [keyGap, Bool.and_eq_true, beq_iff_eq, decide_eq_true_eq] at hg
    exact h.no_gap hg.1.1.1 hg.1.2

/-- **`realT` and `realTK` agree on every `Info` of the stream decoder** -/
theorem realT_agree : TAgree realT realTK :=
  ⟨rfl, rfl, fun snap f cur row n hs => realTK_apply snap f cur row n (keyGap_of_shape hs f)⟩

end Png.Driver
