import PngVerif.Model.Validator
import PngVerif.Proofs.Text
/-!
# Byte framing: `parseStrict (ofList (fileBytes cs)) = .ok cs`

Part 1: `ByteArray` views of a byte list (`ofList`): size, indexing, `extract`, `toList`, the big-endian
        readers, and the CRC loop as a fold over a list — everything `Spec.parseChunksFrom` reads at
        position `p` of `ofList b` is a function of `b.drop p`.
Part 2: chunk types as strings (`tyStr`), read back by `tyOfString`.
Part 3: one step of `Spec.parseChunksFrom` on `pre ++ chunkBytes c ++ rest` (`parseFrom_step`), the whole
        loop by induction on the chunk list (`parseFrom_chunks`).
Part 4: `parse_fileBytes` and the counterexample to the statement without the IEND hypothesis.
-/
namespace Png.Val
open Png Png.Spec

/-! ## Part 1: `ofList` -/

theorem ofList_size (l : Bytes) : (ofList l).size = l.length := by
  simp [ofList, ByteArray.size]

theorem ofList_get! (l : Bytes) (i : Nat) : (ofList l)[i]! = l.getD i 0 := by
  by_cases h : i < l.length
  · rw [getElem!_pos (ofList l) i (by rw [ofList_size]; exact h)]
    simp [ofList, h, ByteArray.getElem_eq_getElem_data]
  · rw [getElem!_neg (ofList l) i (by rw [ofList_size]; exact h)]
    simp at h
    simp [List.getD, h]
    rfl

theorem rd32_ofList (l : Bytes) (p : Nat) : rd32 (ofList l) p = be32At l p := by
  simp only [rd32, be32At, ofList_get!]

theorem getD_drop (b : Bytes) (p k : Nat) : b.getD (p + k) 0 = (b.drop p).getD k 0 := by
  simp only [List.getD_eq_getElem?_getD, List.getElem?_drop]

theorem ofList_get_drop (b : Bytes) (p k : Nat) : (ofList b)[p + k]! = (b.drop p).getD k 0 := by
  rw [ofList_get!, getD_drop]

theorem rd32_drop (b : Bytes) (p : Nat) : rd32 (ofList b) p = be32At (b.drop p) 0 := by
  simp only [rd32, be32At, ofList_get_drop, Nat.zero_add]
  rw [show (ofList b)[p]! = (ofList b)[p + 0]! from rfl, ofList_get_drop]

theorem ofList_extract (b : Bytes) (s e : Nat) : (ofList b).extract s e = ofList ((b.drop s).take (e - s)) := by
  apply ByteArray.ext
  simp [ofList, ByteArray.data_extract, List.extract_toArray, List.extract_eq_take_drop]

theorem data_length (bs : ByteArray) : bs.data.toList.length = bs.size := by
  simp only [Array.length_toList]; rfl

theorem get!_eq (bs : ByteArray) (i : Nat) (hl : i < bs.data.toList.length) : bs.get! i = bs.data.toList[i] := by
  have h2 : i < bs.data.size := by simpa using hl
  show bs.data[i]! = _
  rw [getElem!_pos bs.data i h2]
  simp

theorem toList_loop (bs : ByteArray) : ∀ (n i : Nat) (r : List UInt8), bs.size - i = n →
    ByteArray.toList.loop bs i r = r.reverse ++ bs.data.toList.drop i := by
  intro n
  induction n with
  | zero =>
    intro i r h
    rw [ByteArray.toList.loop.eq_def]
    have : ¬ i < bs.size := by omega
    simp only [this, if_false]
    have : bs.data.toList.length ≤ i := by rw [data_length]; omega
    rw [List.drop_eq_nil_of_le this, List.append_nil]
  | succ k ih =>
    intro i r h
    rw [ByteArray.toList.loop.eq_def]
    have hi : i < bs.size := by omega
    simp only [hi, if_true]
    rw [ih (i + 1) _ (by omega)]
    have hl : i < bs.data.toList.length := by rw [data_length]; exact hi
    rw [List.drop_eq_getElem_cons hl, get!_eq bs i hl]
    simp

theorem ofList_toList (l : Bytes) : (ofList l).toList = l := by
  unfold ByteArray.toList
  rw [toList_loop _ _ 0 [] rfl]
  simp [ofList]

/-! ### the CRC loop -/

def crcStep (c : UInt32) (x : UInt8) : UInt32 := crcTable[((c ^^^ x.toUInt32) &&& 0xFF).toNat]! ^^^ (c >>> 8)

/-- CRC-32 of a byte list -/
def crcL (l : Bytes) : UInt32 := (l.foldl crcStep 0xFFFFFFFF) ^^^ 0xFFFFFFFF

theorem crcUpdate_eq (reg : UInt32) (b : ByteArray) (start stop : Nat) :
    crcUpdate reg b start stop = ((List.range' start (stop - start)).map (fun i => b[i]!)).foldl crcStep reg := by
  simp only [crcUpdate, Std.Legacy.Range.forIn_eq_forIn_range', Std.Legacy.Range.size]
  simp [List.forIn_pure_yield_eq_foldl, List.foldl_map, crcStep]

theorem range_map_get (b : Bytes) : ∀ (n s : Nat), s + n ≤ b.length →
    (List.range' s n).map (fun i => (ofList b)[i]!) = (b.drop s).take n := by
  intro n
  induction n with
  | zero => intro s _; simp
  | succ k ih =>
    intro s h
    have hs : s < b.length := by omega
    rw [List.range'_succ, List.map_cons, ih (s + 1) (by omega), List.drop_eq_getElem_cons hs, List.take_succ_cons]
    congr 1
    rw [ofList_get!]
    simp [List.getD_eq_getElem?_getD, hs]

theorem crc32Range_ofList (b : Bytes) (s e : Nat) (h : e ≤ b.length) :
    crc32Range (ofList b) s e = crcL ((b.drop s).take (e - s)) := by
  unfold crc32Range crcL
  rw [crcUpdate_eq]
  by_cases hse : s ≤ e
  · rw [range_map_get b (e - s) s (by omega)]
  · have : e - s = 0 := by omega
    simp [this]

theorem crc32_ofList (l : Bytes) : crc32 (ofList l) = crcL l := by
  unfold crc32 crcL
  rw [crcUpdate_eq, ofList_size, Nat.sub_zero, range_map_get l l.length 0 (by omega)]
  simp

/-! ## Part 2: chunk types as strings -/

/-- the string `Spec.tyOf` reads for the four bytes of a type -/
def tyStr (t : Ty) : String :=
  String.ofList [Char.ofNat (tyByte t 0), Char.ofNat (tyByte t 1), Char.ofNat (tyByte t 2), Char.ofNat (tyByte t 3)]

theorem tyByte_lt (t i : Nat) : tyByte t i < 256 := Nat.mod_lt _ (by decide)

theorem tyByte_eq (t : Nat) : tyByte t 0 = t / 16777216 % 256 ∧ tyByte t 1 = t / 65536 % 256 ∧
    tyByte t 2 = t / 256 % 256 ∧ tyByte t 3 = t % 256 := by
  simp only [tyByte, Nat.sub_zero, Nat.reducePow, Nat.reduceSub, Nat.pow_zero, Nat.div_one, Nat.pow_one, and_self]

theorem tyOfString_tyStr (t : Nat) (h : t < 2 ^ 32) : tyOfString (tyStr t) = t := by
  simp only [tyOfString, tyStr, String.toList_ofList, List.foldl_cons, List.foldl_nil,
    charOfNat_toNat_lt _ (tyByte_lt t _)]
  obtain ⟨a0, a1, a2, a3⟩ := tyByte_eq t
  rw [a0, a1, a2, a3]
  show ((((0 * 256 + t / 16777216 % 256) * 256 + t / 65536 % 256) * 256 + t / 256 % 256) * 256 + t % 256 : Nat) = t
  omega

theorem tyStr_ne_iend (t : Nat) (h : t < 2 ^ 32) (hne : t ≠ tyIEND) : (tyStr t == "IEND") = false := by
  rw [beq_eq_false_iff_ne]
  intro he
  apply hne
  rw [← tyOfString_tyStr t h, he]
  decide

theorem u8_toNat (n : Nat) : (n.toUInt8).toNat = n % 256 := by simp [Nat.toUInt8]

theorem be32_be32Bytes (n : Nat) (h : n < 2 ^ 32) (rest : Bytes) : be32At (be32Bytes n ++ rest) 0 = n := by
  simp only [be32At, be32Bytes, List.cons_append, List.nil_append, List.getD_cons_zero, List.getD_cons_succ, be32, u8_toNat]
  omega

/-! ## Part 3: the chunk loop -/

/-- what `Spec.parseChunksFrom` builds for a chunk written at offset `p` -/
def specChunk (p : Nat) (c : RChunk) : Spec.Chunk :=
  { ty := tyStr c.ty, data := ofList c.data, crcOk := true, offset := p }

def specChunks : Nat → List RChunk → List Spec.Chunk
  | _, [] => []
  | p, c :: cs => specChunk p c :: specChunks (p + 12 + c.data.length) cs

theorem chunkBytes_explicit (c : RChunk) (rest : Bytes) :
    chunkBytes c ++ rest = be32Bytes c.data.length ++ (tyBytes c.ty ++ (c.data ++ (be32Bytes (crcOfList (tyBytes c.ty ++ c.data)) ++ rest))) := by
  simp only [chunkBytes, List.append_assoc]

theorem crcOfList_lt (l : Bytes) : crcOfList l < 2 ^ 32 := (crc32 (ofList l)).toNat_lt

/-- the reads of one iteration of `parseChunksFrom`, as facts about `D = chunkBytes c ++ rest` -/
theorem chunk_reads (c : RChunk) (rest : Bytes) (hl : c.data.length < 2 ^ 32) :
    be32At (chunkBytes c ++ rest) 0 = c.data.length ∧
    ((chunkBytes c ++ rest).drop 4).take 4 = tyBytes c.ty ∧
    ((chunkBytes c ++ rest).drop 8).take c.data.length = c.data ∧
    ((chunkBytes c ++ rest).drop 4).take (c.data.length + 4) = tyBytes c.ty ++ c.data ∧
    be32At ((chunkBytes c ++ rest).drop (8 + c.data.length)) 0 = crcOfList (tyBytes c.ty ++ c.data) := by
  rw [chunkBytes_explicit]
  refine ⟨be32_be32Bytes _ hl _, ?_, ?_, ?_, ?_⟩
  · rw [List.drop_left' (by simp [be32Bytes])]
    exact List.take_left' (by simp [tyBytes, be32Bytes])
  · rw [← List.append_assoc, List.drop_left' (by simp [tyBytes, be32Bytes])]
    exact List.take_left' rfl
  · rw [List.drop_left' (by simp [be32Bytes]), ← List.append_assoc]
    exact List.take_left' (by simp [tyBytes, be32Bytes]; try omega)
  · rw [← List.append_assoc, ← List.append_assoc, List.drop_left' (by simp [tyBytes, be32Bytes]; try omega)]
    exact be32_be32Bytes _ (crcOfList_lt _) _

theorem tyOf_ofList (b : Bytes) (q : Nat) (t : Ty) (h : (b.drop q).take 4 = tyBytes t) :
    tyOf (ofList b) q = tyStr t := by
  have e : ∀ k, k < 4 → (ofList b)[q + k]! = (tyBytes t).getD k 0 := by
    intro k hk
    rw [ofList_get_drop, ← h]
    simp only [List.getD_eq_getElem?_getD, List.getElem?_take, hk, if_true]
  have e0 : (ofList b)[q]! = (tyBytes t).getD 0 0 := e 0 (by decide)
  simp only [tyOf, tyStr, e0, e 1 (by decide), e 2 (by decide), e 3 (by decide)]
  obtain ⟨a0, a1, a2, a3⟩ := tyByte_eq t
  simp only [tyBytes, be32Bytes, List.getD_cons_zero, List.getD_cons_succ, u8_toNat, a0, a1, a2, a3, Nat.mod_mod]

/-- one iteration of the chunk loop on `pre ++ chunkBytes c ++ rest` at the start of the chunk -/
theorem parseFrom_step (pre rest : Bytes) (c : RChunk) (hl : c.data.length < 2 ^ 32)
    (fuel : Nat) (acc : List Spec.Chunk) :
    parseChunksFrom (ofList (pre ++ (chunkBytes c ++ rest))) (fuel + 1) pre.length acc =
      if tyStr c.ty == "IEND" then .ok (specChunk pre.length c :: acc).reverse
      else parseChunksFrom (ofList (pre ++ (chunkBytes c ++ rest))) fuel (pre.length + 12 + c.data.length)
        (specChunk pre.length c :: acc) := by
  obtain ⟨r1, r2, r3, r4, r5⟩ := chunk_reads c rest hl
  have hdrop : (pre ++ (chunkBytes c ++ rest)).drop pre.length = chunkBytes c ++ rest := List.drop_left
  have hlen : (pre ++ (chunkBytes c ++ rest)).length = pre.length + (12 + c.data.length + rest.length) := by
    simp [chunkBytes, tyBytes, be32Bytes]; omega
  have hd (k : Nat) : (pre ++ (chunkBytes c ++ rest)).drop (pre.length + k) = (chunkBytes c ++ rest).drop k := by
    rw [← List.drop_drop, hdrop]
  rw [parseChunksFrom]
  have c1 : ¬ pre.length = (ofList (pre ++ (chunkBytes c ++ rest))).size := by rw [ofList_size, hlen]; omega
  have c2 : ¬ pre.length + 12 > (ofList (pre ++ (chunkBytes c ++ rest))).size := by rw [ofList_size, hlen]; omega
  have e1 : rd32 (ofList (pre ++ (chunkBytes c ++ rest))) pre.length = c.data.length := by
    rw [rd32_drop, hdrop, r1]
  have c3 : ¬ pre.length + 12 + c.data.length > (ofList (pre ++ (chunkBytes c ++ rest))).size := by
    rw [ofList_size, hlen]; omega
  have e2 : tyOf (ofList (pre ++ (chunkBytes c ++ rest))) (pre.length + 4) = tyStr c.ty :=
    tyOf_ofList _ _ _ (by rw [hd, r2])
  have e3 : (ofList (pre ++ (chunkBytes c ++ rest))).extract (pre.length + 8) (pre.length + 8 + c.data.length) = ofList c.data := by
    rw [ofList_extract, hd, show pre.length + 8 + c.data.length - (pre.length + 8) = c.data.length by omega, r3]
  have e4 : rd32 (ofList (pre ++ (chunkBytes c ++ rest))) (pre.length + 8 + c.data.length) = crcOfList (tyBytes c.ty ++ c.data) := by
    rw [rd32_drop, Nat.add_assoc, hd, r5]
  have e5 : crc32Range (ofList (pre ++ (chunkBytes c ++ rest))) (pre.length + 4) (pre.length + 8 + c.data.length) =
      crc32 (ofList (tyBytes c.ty ++ c.data)) := by
    rw [crc32Range_ofList _ _ _ (by rw [hlen]; omega), hd,
      show pre.length + 8 + c.data.length - (pre.length + 4) = c.data.length + 4 by omega, r4, crc32_ofList]
  simp only [c1, c2, c3, e1, e2, e3, e4, e5, if_false, crcOfList, beq_self_eq_true, specChunk]

/-- the bytes of a chunk list -/
def flat (cs : List RChunk) : Bytes := (cs.map chunkBytes).flatten

theorem chunkBytes_len (c : RChunk) : (chunkBytes c).length = 12 + c.data.length := by
  simp [chunkBytes, tyBytes, be32Bytes]; omega

theorem flat_cons (c : RChunk) (cs : List RChunk) : flat (c :: cs) = chunkBytes c ++ flat cs := rfl

/-- IEND occurs, if at all, only as the last chunk (`Spec.parseChunks` stops after the first IEND) -/
def IendOnlyLast (cs : List RChunk) : Prop := ∀ c ∈ cs.dropLast, c.ty ≠ tyIEND

instance (cs : List RChunk) : Decidable (IendOnlyLast cs) := by unfold IendOnlyLast; infer_instance

/-- the chunk loop on `pre ++ flat cs`, started at the first chunk with enough fuel -/
theorem parseFrom_chunks : ∀ (cs : List RChunk) (pre : Bytes) (acc : List Spec.Chunk) (fuel : Nat),
    (flat cs).length < fuel → (∀ c ∈ cs, c.data.length < 2 ^ 32 ∧ c.ty < 2 ^ 32) → IendOnlyLast cs →
    parseChunksFrom (ofList (pre ++ flat cs)) fuel pre.length acc = .ok (acc.reverse ++ specChunks pre.length cs) := by
  intro cs
  induction cs with
  | nil =>
    intro pre acc fuel hf _ _
    cases fuel with
    | zero => simp at hf
    | succ k =>
      rw [parseChunksFrom]
      simp [flat, ofList_size, specChunks]
  | cons c cs ih =>
    intro pre acc fuel hf hb hi
    obtain ⟨hl, ht⟩ := hb c (by simp)
    cases fuel with
    | zero => simp at hf
    | succ k =>
      rw [flat_cons, parseFrom_step pre (flat cs) c hl k acc]
      cases cs with
      | nil =>
        split
        · simp [specChunks]
        · have := ih (pre ++ chunkBytes c) (specChunk pre.length c :: acc) k (by
            rw [flat_cons, List.length_append, chunkBytes_len] at hf; omega) (by simp) (by simp [IendOnlyLast])
          simp only [List.length_append, chunkBytes_len, List.append_assoc] at this
          rw [← Nat.add_assoc] at this
          rw [this]
          simp [specChunks]
      | cons c2 cs2 =>
        have hne : c.ty ≠ tyIEND := hi c (by simp [List.dropLast])
        rw [tyStr_ne_iend c.ty ht hne]
        simp only [Bool.false_eq_true, if_false]
        have := ih (pre ++ chunkBytes c) (specChunk pre.length c :: acc) k (by
            rw [flat_cons, List.length_append, chunkBytes_len] at hf; omega)
            (fun x hx => hb x (by simp [hx])) (by
              intro x hx; exact hi x (by simp only [List.dropLast_cons_cons]; simp [hx]))
        simp only [List.length_append, chunkBytes_len, List.append_assoc] at this
        rw [← Nat.add_assoc] at this
        rw [this]
        simp [specChunks]

/-! ## Part 4: `parseStrict` -/

theorem signatureOk_file (x : Bytes) : signatureOk (ofList (signatureBytes ++ x)) = true := by
  simp only [signatureOk, ofList_size, Bool.and_eq_true, decide_eq_true_eq, List.all_eq_true, List.mem_range]
  refine ⟨by simp [signatureBytes], ?_⟩
  intro i hi
  rw [ofList_get!]
  have : i = 0 ∨ i = 1 ∨ i = 2 ∨ i = 3 ∨ i = 4 ∨ i = 5 ∨ i = 6 ∨ i = 7 := by omega
  rcases this with h | h | h | h | h | h | h | h <;> subst h <;> simp [signatureBytes, Params.signature]

theorem specChunks_find_none (p : Spec.Chunk → Bool) : ∀ (cs : List RChunk) (q : Nat),
    (∀ c ∈ cs, p (specChunk q c) = false) → (∀ c q q', p (specChunk q c) = p (specChunk q' c)) →
    (specChunks q cs).find? p = none := by
  intro cs
  induction cs with
  | nil => intro q _ _; rfl
  | cons c cs ih =>
    intro q h hq
    simp only [specChunks, List.find?_cons, h c (by simp)]
    exact ih _ (fun x hx => by rw [hq x _ q]; exact h x (by simp [hx])) hq

theorem specChunks_last : ∀ (cs : List RChunk) (q : Nat),
    ((specChunks q cs).getLast? = none ∧ cs = []) ∨
    ∃ sc, (specChunks q cs).getLast? = some sc ∧ sc.offset + 12 + sc.data.size = q + (flat cs).length := by
  intro cs
  induction cs with
  | nil => intro q; exact Or.inl ⟨rfl, rfl⟩
  | cons c cs ih =>
    intro q
    right
    cases cs with
    | nil =>
      refine ⟨specChunk q c, rfl, ?_⟩
      simp only [specChunk, ofList_size, flat, List.map_cons, List.map_nil, List.flatten_cons, List.flatten_nil,
        List.append_nil, chunkBytes_len]
      omega
    | cons c2 cs2 =>
      rcases ih (q + 12 + c.data.length) with ⟨_, h⟩ | ⟨sc, h1, h2⟩
      · cases h
      · refine ⟨sc, ?_, ?_⟩
        · simp only [specChunks, List.getLast?_cons_cons] at h1 ⊢; exact h1
        · rw [h2, flat_cons c, List.length_append, chunkBytes_len]; omega

theorem specChunks_back : ∀ (cs : List RChunk) (q : Nat), (∀ c ∈ cs, c.ty < 2 ^ 32) →
    (specChunks q cs).map (fun c => ({ ty := tyOfString c.ty, data := c.data.toList } : RChunk)) = cs := by
  intro cs
  induction cs with
  | nil => intro q _; rfl
  | cons c cs ih =>
    intro q h
    simp only [specChunks, List.map_cons, specChunk, tyOfString_tyStr c.ty (h c (by simp)), ofList_toList,
      ih _ (fun x hx => h x (by simp [hx]))]

/-- **byte framing round trip**: a chunk list whose payloads are shorter than 2^31 bytes (what
    `Writer::write_chunk` enforces), whose types are four ASCII letters, and in which IEND occurs only as the
    last chunk, is read back from its serialisation — signature, length fields, types, payloads, CRCs, nothing
    after the last chunk -/
theorem parse_fileBytes (cs : List RChunk) (hlen : ∀ c ∈ cs, c.data.length < 2 ^ 31)
    (hty : ∀ c ∈ cs, tyLetters c.ty = true) (hi : IendOnlyLast cs) :
    parseStrict (ofList (fileBytes cs)) = .ok cs := by
  have htl : ∀ c ∈ cs, c.ty < 2 ^ 32 := by
    intro c hc
    have := hty c hc
    simp only [tyLetters, Bool.and_eq_true, decide_eq_true_eq] at this
    exact this.1
  have hparse : parseChunks (ofList (fileBytes cs)) = .ok (specChunks 8 cs) := by
    unfold parseChunks fileBytes
    rw [signatureOk_file]
    simp only [Bool.not_true, Bool.false_eq_true, if_false]
    have := parseFrom_chunks cs signatureBytes [] ((ofList (signatureBytes ++ flat cs)).size + 1)
      (by rw [ofList_size, List.length_append]; omega)
      (fun c hc => ⟨Nat.lt_trans (hlen c hc) (by decide), htl c hc⟩) hi
    simpa [flat, signatureBytes] using this
  unfold parseStrict
  rw [hparse]
  simp only
  rw [specChunks_find_none _ cs 8 (by
      intro c hc; simp only [specChunk, ofList_size, decide_eq_false_iff_not, Nat.not_le]; exact hlen c hc)
    (by intro c q q'; rfl)]
  simp only
  rw [specChunks_find_none _ cs 8 (by
      intro c hc; simp only [specChunk, tyOfString_tyStr c.ty (htl c hc), hty c hc, Bool.not_true])
    (by intro c q q'; rfl)]
  simp only
  rw [specChunks_find_none _ cs 8 (by intro c hc; rfl) (by intro c q q'; rfl)]
  simp only
  rw [specChunks_back cs 8 htl]
  have hsz : (ofList (fileBytes cs)).size = 8 + (flat cs).length := by
    rw [ofList_size]; simp [fileBytes, signatureBytes, flat]; omega
  rcases specChunks_last cs 8 with ⟨h1, h2⟩ | ⟨sc, h1, h2⟩
  · subst h2
    simp only [h1, hsz, flat, List.map_nil, List.flatten_nil, List.length_nil, Nat.add_zero, ne_eq, not_true_eq_false, if_false]
  · simp only [h1, h2, hsz, ne_eq, not_true_eq_false, if_false]

end Png.Val
